/-
Helper lemmas about the scanner model: every step stays inside its input.
-/
import PqlModel.Model.Lex
namespace Pql

theorem identLoop_le (s : Bytes) : identLoop s ≤ s.length := by
  induction s with
  | nil => simp [identLoop]
  | cons c rest ih => simp only [identLoop]; split <;> simp <;> omega

theorem digitsLen_le (s : Bytes) : digitsLen s ≤ s.length := by
  induction s with
  | nil => simp [digitsLen]
  | cons c rest ih => simp only [digitsLen]; split <;> simp <;> omega

theorem hexDigitsLen_le (s : Bytes) : hexDigitsLen s ≤ s.length := by
  induction s with
  | nil => simp [hexDigitsLen]
  | cons c rest ih => simp only [hexDigitsLen]; split <;> simp <;> omega

theorem commentLen_le (s : Bytes) : commentLen s ≤ s.length := by
  induction s with
  | nil => simp [commentLen]
  | cons c rest ih => simp only [commentLen]; split <;> simp <;> omega

theorem mantissaLoop_le (b : Bool) (s : Bytes) : mantissaLoop b s ≤ s.length := by
  induction s generalizing b with
  | nil => simp [mantissaLoop]
  | cons c rest ih =>
    simp only [mantissaLoop]
    split
    · have := ih true; simp; omega
    · split
      · have := ih b; simp; omega
      · simp

theorem exponentLen_le (s : Bytes) : exponentLen s ≤ s.length := by
  unfold exponentLen
  split
  · rename_i e c rest
    split
    · split
      · split
        · rename_i d rest'
          split
          · have := digitsLen_le rest'; simp; omega
          · simp
        · simp
      · split
        · have := digitsLen_le rest; simp; omega
        · simp
    · simp
  · simp

def QRes.width : QRes → Nat
  | .closed _ w => w
  | .bad w => w

@[simp] theorem QRes.width_closed (v : Bytes) (w : Nat) : (QRes.closed v w).width = w := rfl
@[simp] theorem QRes.width_bad (w : Nat) : (QRes.bad w).width = w := rfl

@[simp] theorem QRes.width_shift (k : Nat) (c : Option UInt8) (r : QRes) :
    (r.shift k c).width = r.width + k := by
  cases r <;> simp [QRes.shift]

theorem qidentLoop_le (s : Bytes) : (qidentLoop s).width ≤ s.length := by
  fun_induction qidentLoop s <;> simp_all <;> omega

theorem stringLoop_le (q : UInt8) (s : Bytes) : (stringLoop q s).width ≤ s.length := by
  fun_induction stringLoop q s <;> simp_all <;> omega

end Pql

namespace Pql

theorem finishNumber_le (s : Bytes) (k : Nat) (b : Bool) (hk : k ≤ s.length) :
    (finishNumber s k b).width ≤ s.length := by
  simp only [finishNumber]
  have h1 := mantissaLoop_le b (s.drop k)
  have h2 := exponentLen_le (s.drop (k + mantissaLoop b (s.drop k)))
  simp only [List.length_drop] at h1 h2
  omega

theorem scanNumberOrDot_le (s : Bytes) : (scanNumberOrDot s).width ≤ s.length := by
  unfold scanNumberOrDot
  split
  · simp
  · rename_i c rest
    split
    · split
      · simp
      · rename_i c2 rest2
        split
        · exact finishNumber_le _ _ _ (by simp)
        · split
          · have := exponentLen_le (c2 :: rest2); simp at this ⊢; omega
          · split
            · have := hexDigitsLen_le rest2
              simp only []
              split
              · simp
              · split <;> simp <;> omega
            · split
              · exact finishNumber_le _ _ _ (by simp)
              · exact finishNumber_le _ _ _ (by simp)
    · split
      · split
        · simp
        · split
          · exact finishNumber_le _ _ _ (by simp)
          · simp
      · exact finishNumber_le _ _ _ (by simp)

theorem scanIdent_le (c : UInt8) (rest : Bytes) : (scanIdent (c :: rest)).width ≤ (c :: rest).length := by
  have := identLoop_le rest
  simp only [scanIdent]; split <;> simp <;> omega

theorem scanString_le (s : Bytes) : (scanString s).width ≤ s.length := by
  unfold scanString
  split
  · simp
  · rename_i q rest
    have := stringLoop_le q rest
    split <;> simp_all [QRes.width] <;> omega

theorem scanQuotedIdent_le (c : UInt8) (rest : Bytes) :
    (scanQuotedIdent (c :: rest)).width ≤ (c :: rest).length := by
  have := qidentLoop_le rest
  simp only [scanQuotedIdent, List.tail_cons]
  split <;> simp_all [QRes.width] <;> omega

theorem scanPunct_le (c : UInt8) (rest : Bytes) : (scanPunct c rest).width ≤ rest.length + 1 := by
  unfold scanPunct
  simp only [Step.skip, Step.sym]
  have hc := commentLen_le rest.tail
  cases rest with
  | nil => repeat' split
           all_goals simp_all
  | cons d rest' =>
    simp only [List.tail_cons, List.length_cons] at hc ⊢
    repeat' split
    all_goals simp
    all_goals omega

theorem scanNonAscii_le (s : Bytes) : (scanNonAscii s).width ≤ s.length := by
  unfold scanNonAscii
  have := decodeRune_width_le s
  simp only [Step.skip, Step.sym]
  split <;> simpa

theorem scanOne_width_le (s : Bytes) : (scanOne s).width ≤ s.length := by
  unfold scanOne
  split
  · simp [Step.skip]
  · rename_i c rest
    simp only [Step.ofLexeme, Step.skip]
    repeat' split
    · exact scanNonAscii_le _
    · simp
    · exact scanIdent_le c rest
    · exact scanNumberOrDot_le _
    · exact scanString_le _
    · exact scanQuotedIdent_le c rest
    · exact scanPunct_le c rest

end Pql
