/-
C03 semantics, helper 4: the three join kinds over lists, `distinctRows`, and the lookup of
`$left.k` / `$right.k` in the ON environment.
-/
import PqlModel.Lemmas.JoinSemLink
namespace Pql.JoinSem
open Pql Sql CompileOracle Intended

/-- the ON environment of the pair (l, r) -/
def onEnv (lcols : List Bytes) (l : List Val) (rcols : List Bytes) (r : List Val) : Env :=
  envOfRow leftA lcols l ++ envOfRow rightA rcols r

/-- does the pair (l, r) satisfy the condition: the condition evaluates to TRUE (not NULL, not FALSE) -/
def condHolds (lcols : List Bytes) (rt : Table) (cond : Expr) (l r : List Val) : Bool :=
  Rel.evalP true [] (onEnv lcols l rt.cols r) cond == .bool true

/-- the rows of the right table matching the left row `l`, in the right table's order -/
def matchesOf (lcols : List Bytes) (rt : Table) (cond : Expr) (l : List Val) : List (List Val) :=
  (rt.rows.filter (condHolds lcols rt cond l)).map (l ++ ·)

/-- the NULL padding of an unmatched left row -/
def padRow (rt : Table) (l : List Val) : List Val := l ++ rt.cols.map fun _ => Val.null

theorem joinRow_eq (left : Bool) (lcols : List Bytes) (rt : Table) (cond : Expr) (l : List Val) :
    joinRow left lcols rt cond l =
      if (matchesOf lcols rt cond l).isEmpty && left then [padRow rt l] else matchesOf lcols rt cond l := by
  have : (rt.rows.filterMap fun r =>
      if Rel.evalP true [] (envOfRow leftA lcols l ++ envOfRow rightA rt.cols r) cond == .bool true
      then some (l ++ r) else none) = matchesOf lcols rt cond l := by
    simp only [matchesOf]
    induction rt.rows with
    | nil => rfl
    | cons r rs ih =>
      by_cases hc : Rel.evalP true [] (envOfRow leftA lcols l ++ envOfRow rightA rt.cols r) cond = Val.bool true
      · have hc' : condHolds lcols rt cond l r = true := by simp [condHolds, onEnv, hc]
        simp [hc, hc']; simpa using ih
      · have hc' : condHolds lcols rt cond l r = false := by simp [condHolds, onEnv, hc]
        simp [hc, hc']; simpa using ih
  simp only [joinRow, this, padRow]

theorem joinRow_inner (lcols : List Bytes) (rt : Table) (cond : Expr) (l : List Val) :
    joinRow false lcols rt cond l = matchesOf lcols rt cond l := by
  rw [joinRow_eq]; simp

/-! ### distinctRows -/

theorem distinctRows_foldl_spec (rows acc : List (List Val)) (hacc : acc.Nodup) :
    let out := rows.foldl (fun acc r => if acc.contains r then acc else acc ++ [r]) acc
    out.Nodup ∧ (∀ r, r ∈ out ↔ r ∈ acc ∨ r ∈ rows) ∧ ∃ more, out = acc ++ more ∧ more.Sublist rows := by
  induction rows generalizing acc with
  | nil => exact ⟨hacc, by simp, [], by simp, .slnil⟩
  | cons x xs ih =>
    simp only [List.foldl_cons]
    by_cases hx : acc.contains x = true
    · simp only [hx, ↓reduceIte]
      obtain ⟨h1, h2, more, h3, h4⟩ := ih acc hacc
      refine ⟨h1, ?_, more, h3, h4.cons _⟩
      intro r; rw [h2 r]
      have hx' : x ∈ acc := by simpa using hx
      constructor
      · rintro (h | h); exact .inl h; exact .inr (by simp [h])
      · rintro (h | h); exact .inl h
        simp only [List.mem_cons] at h
        rcases h with rfl | h
        · exact .inl hx'
        · exact .inr h
    · simp only [hx, Bool.false_eq_true, ↓reduceIte]
      have hx' : x ∉ acc := by simpa using hx
      have hnd : (acc ++ [x]).Nodup := by
        rw [List.nodup_append]
        refine ⟨hacc, by simp, ?_⟩
        intro a ha b hb
        simp at hb; subst hb
        intro h; subst h; exact hx' ha
      obtain ⟨h1, h2, more, h3, h4⟩ := ih (acc ++ [x]) hnd
      refine ⟨h1, ?_, x :: more, by rw [h3]; simp, h4.cons_cons _⟩
      intro r; rw [h2 r]
      simp only [List.mem_append, List.mem_cons, List.not_mem_nil, or_false]
      constructor
      · rintro ((h | h) | h); exact .inl h; exact .inr (.inl h); exact .inr (.inr h)
      · rintro (h | h | h); exact .inl (.inl h); exact .inl (.inr h); exact .inr h

/-- `distinctRows`: no duplicates, the same rows, in the order of the first occurrences -/
theorem distinctRows_spec (rows : List (List Val)) :
    (distinctRows rows).Nodup ∧ (∀ r, r ∈ distinctRows rows ↔ r ∈ rows) ∧ (distinctRows rows).Sublist rows := by
  obtain ⟨h1, h2, more, h3, h4⟩ := distinctRows_foldl_spec rows [] List.nodup_nil
  refine ⟨h1, fun r => by have := h2 r; simp only [List.not_mem_nil, false_or] at this; exact this, ?_⟩
  simp only [List.nil_append] at h3
  show (List.foldl _ [] rows).Sublist rows
  rw [h3]; exact h4

theorem distinctRows_of_nodup (rows : List (List Val)) (h : rows.Nodup) : distinctRows rows = rows := by
  have key : ∀ (rows acc : List (List Val)), (acc ++ rows).Nodup →
      rows.foldl (fun acc r => if acc.contains r then acc else acc ++ [r]) acc = acc ++ rows := by
    intro rows
    induction rows with
    | nil => intro acc _; simp
    | cons x xs ih =>
      intro acc hnd
      have hx : acc.contains x = false := by
        rw [List.nodup_append] at hnd
        have := hnd.2.2 
        cases hc : acc.contains x with
        | false => rfl
        | true => exact absurd rfl (this x (by simpa using hc) x (by simp))
      simp only [List.foldl_cons, hx, Bool.false_eq_true, ↓reduceIte]
      rw [ih (acc ++ [x]) (by simpa using hnd)]
      simp
  have := key rows [] (by simpa using h)
  simp only [List.nil_append] at this
  exact this

end Pql.JoinSem
