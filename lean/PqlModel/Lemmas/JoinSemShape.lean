/-
C03 semantics, helper 7: the shape of the intended chain of
    T | before | join kind=… (U | rops) on conds | after
for join-free `before`, `rops`, `after`:   B ++ R ++ [J] ++ A.
-/
import PqlModel.Lemmas.JoinSemSplit
import PqlModel.Lemmas.JoinSemLink
namespace Pql.JoinSem
open Pql Sql CompileOracle Intended

/-- LEFT JOIN? — `none` for a kind the compiler does not know -/
def leftOf (kind : Bytes) : Option Bool :=
  if kind == Bytes.ofString "inner" || kind == Bytes.ofString "innerunique" then some false
  else if kind == Bytes.ofString "leftouter" then some true else none

theorem leftOf_some {kind : Bytes} {left : Bool} (h : leftOf kind = some left) :
    left = (kind == Bytes.ofString "leftouter") := by
  simp only [leftOf] at h
  split at h
  · rename_i hk
    cases h
    simp only [Bool.or_eq_true, beq_iff_eq] at hk
    rcases hk with rfl | rfl <;> decide
  · split at h
    · rename_i hk; cases h; exact hk.symm
    · cases h

/-- the name of the link the join reads on its left -/
def leftNameOf (source : Option Ident) (ds : Nat) (dst dst1 : List SubA) : Bytes :=
  if (dst.length : Int) - 1 ≥ (ds : Int) then
    match dst1[((dst.length : Int) - 1).toNat]? with
    | some s => s.name
    | none => []
  else identName source

def lastName (dst : List SubA) : Bytes := match dst.getLast? with | some s => s.name | none => []

def joinLink (source : Option Ident) (ds : Nat) (dst dst1 : List SubA) (flavor : Option Ident) (left : Bool)
    (conds : ExprList) : SubA :=
  { name := subqueryName dst1.length,
    source := .join (kindOf flavor == Bytes.ofString "innerunique") left (leftNameOf source ds dst dst1)
      (lastName dst1) (buildJoinCondition conds) }

theorem splitOpsA_join (source : Option Ident) (ds : Nat) (dst : List SubA) (p k a b : Span) (flavor : Option Ident)
    (d : Span) (right : Tabular) (e f : Span) (conds : ExprList) (rest : OpList) :
    splitOpsA source ds dst (.cons (.join p k a b flavor d right e f conds) rest) =
      (splitA dst right).bind fun dst1 =>
        match leftOf (kindOf flavor) with
        | none => none
        | some left => splitOpsA source ds (dst1 ++ [joinLink source ds dst dst1 flavor left conds]) rest := by
  cases flavor <;> simp only [splitOpsA, bind] <;> rfl

/-- a join-free pipeline appended to `dst` keeps `dst` and adds at least one link -/
theorem splitA_frame (dst out : List SubA) (U : Option Ident) (rops : OpList) (hjf : SplitQ.joinFree rops = true)
    (h : splitA dst (.mk U rops) = some out) :
    ∃ R, out = dst ++ R ∧ R ≠ [] := by
  simp only [splitA, bind, Option.bind] at h
  cases hd : splitOpsA U dst.length dst rops with
  | none => simp [hd] at h
  | some d =>
    simp only [hd] at h
    obtain ⟨f1, f2, _⟩ := run_frame U dst.length rops dst d hjf hd (Nat.le_refl _)
    have hd' : d = dst ++ d.drop dst.length := by
      conv => lhs; rw [← List.take_append_drop dst.length d, f1, List.take_length]
    split at h
    · rename_i hlen
      simp only [pure, Option.some.injEq] at h
      refine ⟨d.drop dst.length ++ [chainA d dst.length U], ?_, by simp⟩
      rw [← h, ← List.append_assoc, ← hd']
    · rename_i hlen
      simp only [pure, Option.some.injEq] at h
      subst h
      refine ⟨d.drop dst.length, hd', ?_⟩
      intro hnil
      have : (d.drop dst.length).length = 0 := by rw [hnil]; rfl
      simp at this
      omega

/-- a non-empty join-free operator list from the empty chain: `splitA` adds nothing -/
theorem splitA_of_run_nonempty (dst d : List SubA) (s : Option Ident) (ops : OpList)
    (h : splitOpsA s dst.length dst ops = some d) (hlen : dst.length < d.length) :
    splitA dst (.mk s ops) = some d := by
  simp only [splitA, bind, Option.bind, h]
  have : ¬ d.length = dst.length := by omega
  simp [this]

/-- **the shape of the chain** of `T | before | join (U | rops) on conds | after` -/
theorem chain_shape (T U : Ident) (before after rops : OpList) (p k a b : Span) (flavor : Option Ident)
    (d e f : Span) (conds : ExprList) (subs : List SubA)
    (hjb : SplitQ.joinFree before = true) (hja : SplitQ.joinFree after = true)
    (hpl : startsPlain after = true)
    (hs : splitA [] (.mk (some T) (appendOps before
      (.cons (.join p k a b flavor d (.mk (some U) rops) e f conds) after))) = some subs) :
    ∃ (B BR : List SubA) (left : Bool),
      splitOpsA (some T) 0 [] before = some B ∧
      splitA B (.mk (some U) rops) = some BR ∧
      leftOf (kindOf flavor) = some left ∧
      (let J := joinLink (some T) 0 B BR flavor left conds
       (after = .nil ∧ subs = BR ++ [J]) ∨
       (after ≠ .nil ∧ splitA (BR ++ [J]) (.mk (some ⟨J.name, .zero, false⟩) after) = some subs)) := by
  simp only [splitA, List.length_nil, bind, Option.bind] at hs
  cases hd : splitOpsA (some T) 0 [] (appendOps before
      (.cons (.join p k a b flavor d (.mk (some U) rops) e f conds) after)) with
  | none => simp [hd] at hs
  | some out =>
    rw [hd] at hs
    simp only [] at hs
    rw [run_append _ _ _ _ _ hjb] at hd
    cases hB : splitOpsA (some T) 0 [] before with
    | none => simp [hB] at hd
    | some B =>
      simp only [hB, Option.bind] at hd
      rw [splitOpsA_join] at hd
      cases hBR : splitA B (.mk (some U) rops) with
      | none => simp [hBR] at hd
      | some BR =>
        simp only [hBR, Option.bind] at hd
        cases hl : leftOf (kindOf flavor) with
        | none => simp [hl] at hd
        | some left =>
          simp only [hl] at hd
          refine ⟨B, BR, left, rfl, hBR, rfl, ?_⟩
          have hout : BR.length + 1 ≤ out.length := by
            have := (run_frame (some T) 0 after _ out hja hd (Nat.zero_le _)).2.1
            simpa using this
          simp only [show ¬ (out.length = 0) by omega, ↓reduceIte, pure, Option.some.injEq] at hs
          subst hs
          cases after with
          | nil =>
            simp only [splitOpsA, Option.some.injEq] at hd
            exact .inl ⟨rfl, hd.symm⟩
          | cons o rest =>
            right
            refine ⟨by simp, ?_⟩
            simp only [startsPlain] at hpl
            rw [SplitQ.joinFree_cons, Bool.and_eq_true] at hja
            have hnj : SplitQ.isJoin o = false := by simpa using hja.1
            have hfp := stepA_first_plain (some T) (some ⟨(joinLink (some T) 0 B BR flavor left conds).name, .zero, false⟩)
              o hpl (dst := BR ++ [joinLink (some T) 0 B BR flavor left conds])
              (l := joinLink (some T) 0 B BR flavor left conds) (by simp) rfl
            rw [splitOpsA_cons _ _ _ _ _ hnj] at hd
            cases hst : stepA (some T) 0 (BR ++ [joinLink (some T) 0 B BR flavor left conds]) o with
            | none => simp [hst] at hd
            | some d1 =>
              simp only [hst, Option.bind] at hd
              have hfr := stepA_frame (hfp ▸ hst) (Nat.le_refl _)
              have hmono := (run_frame (some T) 0 rest d1 out hja.2 hd (Nat.zero_le _)).2.1
              apply splitA_of_run_nonempty
              · rw [← hd, splitOpsA_cons _ _ _ _ _ hnj, ← hfp, hst]
                simp only [Option.bind]
                exact run_indep _ _ _ _ rest d1 hja.2 (by omega) (by omega)
              · omega

end Pql.JoinSem
