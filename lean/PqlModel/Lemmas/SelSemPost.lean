/-
ORDER BY / LIMIT of a SELECT compute `Rel.sortTable` / `Rel.takeTable` of the table the body
computes, provided ORDER BY sees the same values in (output aliases ++ source columns) as in the
output columns alone (or there is at most one row).
-/
import PqlModel.Lemmas.SelSemEval
import PqlModel.Lemmas.SelSemEngine
import PqlModel.Lemmas.SelSemNorm
import PqlModel.Lemmas.SplitQueriesSem
namespace Pql.SelSem
open Pql Sql CompileOracle Intended SplitQ

/-! ### the pipeline reading of one link -/

def opPartA (a : SubA) : List Clause :=
  match a.op with | some o => [.op o] | none => []

def sortTakeA (a : SubA) : List Clause :=
  (match a.sort with | some ts => [.sort ts] | none => []) ++
  (match a.take with | some n => [.take n] | none => [])

/-- body, then ORDER BY, then LIMIT -/
def subClausesA (a : SubA) : List Clause := opPartA a ++ sortTakeA a

/-- what one link computes from the table it reads, by the specification interpreter -/
def subEvalA (src : Bytes) (db : DB) (t : Table) (a : SubA) : Table :=
  (subClausesA a).foldl (interpClause src db) t

/-! ### mapM facts -/

theorem mapM_orderOf : ∀ (terms : List SortTerm) (obs : List OrderTerm), terms.mapM orderOf = some obs →
    obs.map (fun o => (o.asc, o.nullsFirst)) = terms.map (fun s => (s.asc, s.nullsFirst)) ∧
    ∀ g env, terms.map (fun s => Rel.evalP false g env s.x) = obs.map (fun o => evalS g env o.expr)
  | [], obs, h => by
    simp only [List.mapM_nil, pure, Option.some.injEq] at h
    subst h; simp
  | t :: ts, obs, h => by
    simp only [List.mapM_cons, bind, Option.bind] at h
    cases ht : orderOf t with
    | none => simp [ht] at h
    | some o =>
      cases hts : ts.mapM orderOf with
      | none => simp [ht, hts] at h
      | some os =>
        simp only [ht, hts, pure, Option.some.injEq] at h
        subst h
        obtain ⟨h1, h2⟩ := mapM_orderOf ts os hts
        simp only [orderOf, bind, Option.bind] at ht
        cases hx : tr false t.x with
        | none => simp [hx] at ht
        | some e =>
          simp only [hx, pure, Option.some.injEq] at ht
          subst ht
          refine ⟨by simp [h1], fun g env => ?_⟩
          simp [h2 g env, evalP_eq false g env t.x e hx]

theorem sortByKeys_short {α} (dirs : List (Bool × Bool)) (key : α → List Val) (xs : List α)
    (h : xs.length ≤ 1) : sortByKeys dirs key xs = xs := by
  match xs, h with
  | [], _ => rfl
  | [x], _ => exact sortByKeys_singleton dirs key x
  | _ :: _ :: _, h => simp at h

/-- `sortStep` always is the stable sort (an empty ORDER BY sorts by nothing) -/
theorem sortStep_eq (obs : List OrderTerm) (outCols : List Bytes) (rows : List ORow) :
    sortStep obs outCols rows =
      sortByKeys (obs.map fun o => (o.asc, o.nullsFirst))
        (fun (r : ORow) => obs.map fun o => evalS r.2.1 (envOfRow [] outCols r.2.2 ++ r.1) o.expr) rows := by
  unfold sortStep
  split
  · rename_i h
    have : obs = [] := by simpa using h
    subst this
    simp [sortByKeys_nil_dirs]
  · rfl

theorem post {ρ} (src : Bytes) (db : DB) (a : SubA) (obs : List OrderTerm) (lim : Option SExpr)
    (hob : (match a.sort with | some terms => terms.mapM orderOf | none => pure []) = some obs)
    (hlim : (match a.take with | some n => (tr false n).map some | none => pure none) = some lim)
    (outCols : List Bytes) (rows : List ρ) (g : ρ → ORow)
    (hkey : a.sort = none ∨ (∀ r e, evalS (g r).2.1 (envOfRow [] outCols (g r).2.2 ++ (g r).1) e =
                    evalS [] (envOfRow [] outCols (g r).2.2) e) ∨ rows.length ≤ 1) :
    (sortTakeA a).foldl (interpClause src db) ⟨outCols, rows.map fun r => (g r).2.2⟩ =
      ⟨outCols, (limitStep lim (sortStep obs outCols (rows.map g))).map (·.2.2)⟩ := by
  -- the sort part
  have hsort : (match a.sort with | some ts => [Clause.sort ts] | none => []).foldl (interpClause src db)
        ⟨outCols, rows.map fun r => (g r).2.2⟩ =
      ⟨outCols, (sortStep obs outCols (rows.map g)).map (·.2.2)⟩ := by
    cases hs : a.sort with
    | none =>
      simp only [hs, pure, Option.some.injEq] at hob
      subst hob
      simp [sortStep]
    | some terms =>
      simp only [hs] at hob
      obtain ⟨hd, hk⟩ := mapM_orderOf terms obs hob
      simp only [List.foldl_cons, List.foldl_nil, interpClause, Rel.sortTable, Rel.rowEnv, Table.mk.injEq, true_and]
      rw [sortStep_eq]
      rcases hkey with hnone | hkey | hlen
      · rw [hs] at hnone; cases hnone
      · rw [sortByKeys_map, sortByKeys_map, List.map_map, ← hd]
        congr 2
        funext r
        rw [hk]
        apply List.map_congr_left
        intro o _
        exact (hkey r o.expr).symm
      · rw [sortByKeys_short _ _ _ (by simpa using hlen), sortByKeys_short _ _ _ (by simpa using hlen)]
        simp
  unfold sortTakeA
  rw [List.foldl_append, hsort]
  cases ht : a.take with
  | none =>
    simp only [ht, pure, Option.some.injEq] at hlim
    subst hlim
    simp [limitStep]
  | some n =>
    simp only [ht] at hlim
    cases hn : tr false n with
    | none => simp [hn] at hlim
    | some l =>
      simp only [hn, Option.map_some, Option.some.injEq] at hlim
      subst hlim
      simp only [List.foldl_cons, List.foldl_nil, interpClause, Rel.takeTable, limitStep,
        evalP_eq false [] [] n l hn]
      cases limitOf (evalS [] [] l) with
      | none => rfl
      | some k => simp [List.map_take]

end Pql.SelSem
