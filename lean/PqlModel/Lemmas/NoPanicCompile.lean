/-
Property C12, "the interpretation of the translated code never panics": the model-level facts about the
pieces `Compile` chains, on the trees of an error-free parse.

`C13_exact_source` says `compile params src ≠ .panic`; that alone does not say that EACH piece returns
normally (an earlier error return hides what a later piece would have done).  Here, from the stage lemmas
of C13 (`Exact.splitQueries_spec`, `Exact.write_agrees`, `Exact.finish_agrees`,
`Exact.compileStmts_agrees`):

  `parsed_query`        the query `t` the statement loop of `Compile` leaves in `expr` is a statement of the
                        parsed program: `wfTabular`, `spansTabular`, `skeletonOk`, `Tabular.Good`
  `stmts_noPanic`       the statement loop (`compileStmts`) on a parsed program does not panic
  `split_noPanic`       `splitQueries` on that query does not panic; its subqueries are `subOK`, at least one
  `write_noPanic`       `Subquery.write` on each of them does not panic
  `assemble_noPanic`    the statement assembly does not panic
-/
import PqlModel.Props.C13Exact
import PqlModel.Props.C05NoPlaceholder
import PqlModel.Props.C02SplitIR
import PqlModel.Props.C06CompileIR
namespace Pql.NoPanic
open Pql Pql.Exact

/-- the query the statement loop finds is a statement of the program -/
theorem query_mem (src : Bytes) (stmts : List Stmt) (scope0 scope : List (Bytes × List Chunk)) (t : Tabular)
    (hc : compileStmts src stmts scope0 none = .ok (scope, some t)) : Stmt.tabular t ∈ stmts := by
  rcases SplitImp.compileStmts_query_mem src stmts scope0 none scope t hc with h | h
  · cases h
  · exact h

/-- what an error-free parse guarantees about the query of the program -/
theorem parsed_query (src : Bytes) (stmts : List Stmt) (hp : parse src = (stmts, []))
    (t : Tabular) (hm : Stmt.tabular t ∈ stmts) :
    wfTabular t = true ∧ spansTabular src t = true ∧ SplitImp.skeletonOk t = true ∧ t.Good := by
  have hp' : parseTokens src.length (scan src) = (stmts, []) := hp
  refine ⟨?_, ?_, SplitImp.skeletonOk_of_parsed hp' t hm, ?_⟩
  · exact parseTokens_wf hp' _ hm
  · have := parse_spansInside hp
    unfold SpansInside at this
    rw [List.all_eq_true] at this
    exact this _ hm
  · have := parseTokens_good hp' _ hm
    simpa only [Stmt.Good] using this

/-- the statement loop of `Compile` does not panic on a parsed program, whatever the initial scope -/
theorem stmts_noPanic (src : Bytes) (stmts : List Stmt) (hp : parse src = (stmts, []))
    (scope0 : List (Bytes × List Chunk)) : compileStmts src stmts scope0 none ≠ .error .panic := by
  have hp' : parseTokens src.length (scan src) = (stmts, []) := hp
  have h := compileStmts_agrees src stmts scope0 none (parseTokens_wf hp') (parse_spansInside hp)
    (fun t ht => by cases ht)
  intro hc
  rw [hc] at h
  exact h

/-- `splitQueries(nil, source, scope, expr)` on a well-formed query: no panic; every subquery has the
    invariant shape; there is at least one -/
theorem split_noPanic (src : Bytes) (scope : List (Bytes × List Chunk)) (t : Tabular)
    (hw : wfTabular t = true) (hs : spansTabular src t = true) :
    splitQueries src scope [] t ≠ .error .panic ∧
    ∀ subs, splitQueries src scope [] t = .ok subs → (∀ s ∈ subs, subOK src s = true) ∧ 1 ≤ subs.length := by
  have h := splitQueries_spec src scope t [] hw hs (fun s hs => by cases hs)
  constructor
  · intro hc
    rw [hc] at h
    exact h
  · intro subs hsq
    rw [hsq] at h
    exact ⟨h.1, h.2.2⟩

/-- `(*subquery).write` (the model) on a subquery of the invariant shape does not panic -/
theorem write_noPanic (src : Bytes) (scope : List (Bytes × List Chunk)) (sub : Subquery)
    (h : subOK src sub = true) : sub.write ⟨src, scope, .default⟩ ≠ .error .panic :=
  (write_agrees src scope sub h).ne_panic

theorem finishW_eq (src : Bytes) (scope : List (Bytes × List Chunk)) (t : Tabular) :
    finishW src (scope, some t) =
      (splitQueries src scope [] t >>= fun subs => WriteIR.assemble ⟨src, scope, .default⟩ subs) := by
  unfold finishW WriteIR.assemble
  dsimp only
  simp only [bind, Except.bind]
  cases splitQueries src scope [] t with
  | error e => rfl
  | ok subs =>
    dsimp only
    cases subs.reverse with
    | nil => rfl
    | cons query ctesRev =>
      dsimp only
      cases ctesRev.reverse.isEmpty
      · simp only [Bool.false_eq_true, if_false]
        cases writeCtes ⟨src, scope, .default⟩ ctesRev.reverse <;> rfl
      · rfl

/-- the statement assembly of `Compile` (the model) on what `splitQueries` returned does not panic -/
theorem assemble_noPanic (src : Bytes) (scope : List (Bytes × List Chunk)) (t : Tabular)
    (hw : wfTabular t = true) (hs : spansTabular src t = true) (subs : List Subquery)
    (hsq : splitQueries src scope [] t = .ok subs) :
    WriteIR.assemble ⟨src, scope, .default⟩ subs ≠ .error .panic := by
  have h := (finish_agrees src scope t hw hs).ne_panic
  rw [finishW_eq, hsq] at h
  exact h

end Pql.NoPanic
