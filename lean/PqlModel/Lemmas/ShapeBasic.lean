/-
Content maps (property C04, parametricity half).

A `CMap` replaces the *contents* of a PQL tree: the values of string literals (`fs`), the names
of identifier parts (`fn`), the texts of number literals (`fnum`).  `mapE` applies it to an
expression; `Chunk.mapC` applies it to the writer's output (`.qstr`, `.qid`, `.num` chunks).

`MapCong φ R`: `R` relates two chunk lists that are built alike out of pieces related by the
content map — the abstraction that gives both the exact statement (`R a b := b = a.map g`) and
the statement about shapes (`R a b := a.map shape = b.map shape`) from one induction.
-/
import PqlModel.Lemmas.ScopeParen
import PqlModel.Lemmas.ScopeEq
namespace Pql

structure CMap where
  fs : Bytes → Bytes
  fn : Bytes → Bytes
  fnum : Bytes → Bytes
  /-- what happens to the source positions recorded in the tree (the writers never look at them,
      except for the text of an unnamed column) -/
  fsp : Span → Span

namespace CMap
def ident (φ : CMap) (p : Ident) : Ident := { p with name := φ.fn p.name, span := φ.fsp p.span }
/-- a function name: only its position changes -/
def fnIdent (φ : CMap) (p : Ident) : Ident := { p with span := φ.fsp p.span }
def lit (φ : CMap) (k : TokKind) (v : Bytes) : Bytes :=
  if k = .string then φ.fs v else if k = .number then φ.fnum v else v
def ofStr (f : Bytes → Bytes) : CMap := ⟨f, id, id, id⟩
def ofName (f : Bytes → Bytes) : CMap := ⟨id, f, id, id⟩
def ofNum (f : Bytes → Bytes) : CMap := ⟨id, id, f, id⟩

@[simp] theorem ident_quoted (φ : CMap) (p : Ident) : (φ.ident p).quoted = p.quoted := rfl
@[simp] theorem ident_name (φ : CMap) (p : Ident) : (φ.ident p).name = φ.fn p.name := rfl
@[simp] theorem fnIdent_name (φ : CMap) (p : Ident) : (φ.fnIdent p).name = p.name := rfl
end CMap

def Chunk.mapC (φ : CMap) : Chunk → Chunk
  | .qstr v => .qstr (φ.fs v)
  | .qid n => .qid (φ.fn n)
  | .num v => .num (φ.fnum v)
  | c => c

mutual
def mapE (φ : CMap) : Expr → Expr
  | .nil => .nil
  | .qident parts => .qident (parts.map φ.ident)
  | .lit sp k v => .lit (φ.fsp sp) k (φ.lit k v)
  | .unary os op x => .unary (φ.fsp os) op (mapE φ x)
  | .binary x os op y => .binary (mapE φ x) (φ.fsp os) op (mapE φ y)
  | .inE x i lp vals rp => .inE (mapE φ x) (φ.fsp i) (φ.fsp lp) (mapL φ vals) (φ.fsp rp)
  | .paren lp x rp => .paren (φ.fsp lp) (mapE φ x) (φ.fsp rp)
  | .call fn lp args rp => .call (φ.fnIdent fn) (φ.fsp lp) (mapL φ args) (φ.fsp rp)
  | .index x lb idx rb => .index (mapE φ x) (φ.fsp lb) (mapE φ idx) (φ.fsp rb)
def mapL (φ : CMap) : ExprList → ExprList
  | .nil => .nil
  | .cons e es => .cons (mapE φ e) (mapL φ es)
end

/-! ### the relation abstraction -/

structure MapCong (φ : CMap) (R : List Chunk → List Chunk → Prop) : Prop where
  nil : R [] []
  single : ∀ c, R [c] [Chunk.mapC φ c]
  append : ∀ {a a' b b'}, R a a' → R b b' → R (a ++ b) (a' ++ b')

namespace MapCong
variable {φ : CMap} {R : List Chunk → List Chunk → Prop}

theorem txt (hR : MapCong φ R) (s : String) : R [.txt s] [.txt s] := hR.single (.txt s)
theorem fname (hR : MapCong φ R) (v : Bytes) : R [.fname v] [.fname v] := hR.single (.fname v)
theorem raw (hR : MapCong φ R) (v : Bytes) : R [.raw v] [.raw v] := hR.single (.raw v)
theorem qid (hR : MapCong φ R) (v : Bytes) : R [.qid v] [.qid (φ.fn v)] := hR.single (.qid v)
theorem qstr (hR : MapCong φ R) (v : Bytes) : R [.qstr v] [.qstr (φ.fs v)] := hR.single (.qstr v)
theorem num (hR : MapCong φ R) (v : Bytes) : R [.num v] [.num (φ.fnum v)] := hR.single (.num v)

theorem cons_txt (hR : MapCong φ R) (s : String) {a a' : List Chunk} (h : R a a') :
    R (.txt s :: a) (.txt s :: a') := hR.append (hR.txt s) h
theorem cons_fname (hR : MapCong φ R) (v : Bytes) {a a' : List Chunk} (h : R a a') :
    R (.fname v :: a) (.fname v :: a') := hR.append (hR.fname v) h
theorem cons_qid (hR : MapCong φ R) (v : Bytes) {a a' : List Chunk} (h : R a a') :
    R (.qid v :: a) (.qid (φ.fn v) :: a') := hR.append (hR.qid v) h
theorem cons_qstr (hR : MapCong φ R) (v : Bytes) {a a' : List Chunk} (h : R a a') :
    R (.qstr v :: a) (.qstr (φ.fs v) :: a') := hR.append (hR.qstr v) h
/-- a head pair that is already known to be related -/
theorem cons_of (hR : MapCong φ R) {c c' : Chunk} (hc : R [c] [c']) {a a' : List Chunk} (h : R a a') :
    R (c :: a) (c' :: a') := hR.append hc h

theorem map (hR : MapCong φ R) : (xs : List Chunk) → R xs (xs.map (Chunk.mapC φ))
  | [] => hR.nil
  | c :: xs => hR.append (hR.single c) (map hR xs)

theorem parenthesise (hR : MapCong φ R) {a a' : List Chunk} (h : R a a') :
    R (parenthesise a) (parenthesise a') :=
  hR.cons_txt _ (hR.append h (hR.txt _))

theorem sepChunks (hR : MapCong φ R) (sep : String) {as as' : List (List Chunk)}
    (h : ListRel R as as') : R (sepChunks sep as) (sepChunks sep as') := by
  induction h with
  | nil => exact hR.nil
  | @cons a a' l l' hab hl ih =>
    cases hl with
    | nil => exact hab
    | cons hb hl' =>
      simp only [Pql.sepChunks]
      exact hR.append hab (hR.cons_txt _ ih)

theorem flatSep (hR : MapCong φ R) (sep : String) {as as' : List (List Chunk)}
    (h : ListRel R as as') :
    R (as.flatMap fun c => .txt sep :: c) (as'.flatMap fun c => .txt sep :: c) := by
  induction h with
  | nil => exact hR.nil
  | cons hab _ ih =>
    simp only [List.flatMap_cons]
    exact hR.append (hR.cons_txt _ hab) ih

end MapCong

/-- closes goals `R frame frame'` where the two frames differ in related operands only -/
macro "map_frame" hR:term : tactic =>
  `(tactic| repeat (first
      | assumption
      | exact MapCong.nil $hR
      | exact MapCong.txt $hR _
      | apply MapCong.cons_txt $hR
      | apply MapCong.cons_fname $hR
      | apply MapCong.cons_qid $hR
      | apply MapCong.cons_qstr $hR
      | apply MapCong.append $hR))

/-- the exact relation: the second list is the first with the content map applied -/
def MapsTo (φ : CMap) (a b : List Chunk) : Prop := b = a.map (Chunk.mapC φ)

theorem MapsTo.cong (φ : CMap) : MapCong φ (MapsTo φ) :=
  ⟨rfl, fun _ => rfl, fun h₁ h₂ => by
    unfold MapsTo at *
    rw [h₁, h₂, List.map_append]⟩

/-- an `ExRel (MapsTo φ)` statement as an equation -/
theorem ExRel.mapsTo_eq {φ : CMap} {x y : Except WErr (List Chunk)} (h : ExRel (MapsTo φ) x y) :
    y = x.map (List.map (Chunk.mapC φ)) := by
  rcases h.cases_on with ⟨a, b, rfl, rfl, hab⟩ | ⟨e, rfl, rfl⟩
  · rw [show b = _ from hab]; rfl
  · rfl

/-! ### shapes: what remains of a chunk when contents are erased -/

inductive ChunkShape
  | txt (s : String)
  | qid
  | qstr
  | num
  | fname (v : Bytes)
  | raw (v : Bytes)
  deriving DecidableEq, Repr

def Chunk.shape : Chunk → ChunkShape
  | .txt s => .txt s
  | .qid _ => .qid
  | .qstr _ => .qstr
  | .num _ => .num
  | .fname v => .fname v
  | .raw v => .raw v

theorem Chunk.shape_mapC (φ : CMap) (c : Chunk) : (Chunk.mapC φ c).shape = c.shape := by
  cases c <;> rfl

def SameShape (a b : List Chunk) : Prop := a.map Chunk.shape = b.map Chunk.shape

theorem SameShape.cong (φ : CMap) : MapCong φ SameShape :=
  ⟨rfl, fun c => by simp [SameShape, Chunk.shape_mapC], fun h₁ h₂ => by
    unfold SameShape at *
    rw [List.map_append, List.map_append, h₁, h₂]⟩

theorem ExRel.sameShape_eq {x y : Except WErr (List Chunk)} (h : ExRel SameShape x y) :
    x.map (List.map Chunk.shape) = y.map (List.map Chunk.shape) := by
  rcases h.cases_on with ⟨a, b, rfl, rfl, hab⟩ | ⟨e, rfl, rfl⟩
  · show Except.ok _ = Except.ok _
    rw [show a.map Chunk.shape = b.map Chunk.shape from hab]
  · rfl

/-! ### the tree shape that the writers look at is unchanged -/

theorem mapL_length (φ : CMap) : (es : ExprList) → (mapL φ es).length = es.length
  | .nil => by simp only [mapL]
  | .cons e es => by simp only [mapL, ExprList.length, mapL_length φ es]

theorem mapL_toList (φ : CMap) : (es : ExprList) → (mapL φ es).toList = es.toList.map (mapE φ)
  | .nil => by simp only [mapL, ExprList.toList, List.map_nil]
  | .cons e es => by simp only [mapL, ExprList.toList, mapL_toList φ es, List.map_cons]

theorem needsWrap_mapE (φ : CMap) : (e : Expr) → needsWrap (mapE φ e) = needsWrap e
  | .paren _ x _ => by
    simp only [mapE, needsWrap]
    exact needsWrap_mapE φ x
  | .nil => by simp only [mapE]
  | .qident _ => by simp only [mapE, needsWrap, exprTypeName]
  | .lit .. => by simp only [mapE, needsWrap, exprTypeName]
  | .unary .. => by simp only [mapE, needsWrap, exprTypeName]
  | .binary .. => by simp only [mapE, needsWrap, exprTypeName]
  | .inE .. => by simp only [mapE, needsWrap, exprTypeName]
  | .call .. => by simp only [mapE, needsWrap, CMap.fnIdent_name]
  | .index .. => by simp only [mapE, needsWrap, exprTypeName]

theorem isSigned_mapE (φ : CMap) : (e : Expr) → isSigned (mapE φ e) = isSigned e
  | .paren _ x _ => by
    simp only [mapE, isSigned]
    exact isSigned_mapE φ x
  | .nil => by simp only [mapE]
  | .qident _ => by simp only [mapE, isSigned]
  | .lit .. => by simp only [mapE, isSigned]
  | .unary .. => by simp only [mapE, isSigned]
  | .binary .. => by simp only [mapE, isSigned]
  | .inE .. => by simp only [mapE, isSigned]
  | .call .. => by simp only [mapE, isSigned]
  | .index .. => by simp only [mapE, isSigned]

theorem wrapMaybe_mapE (φ : CMap) (e : Expr) : wrapMaybe (mapE φ e) = wrapMaybe e := by
  funext b
  simp only [wrapMaybe, needsWrap_mapE]

theorem wrapTight_mapE (φ : CMap) (e : Expr) : wrapTight (mapE φ e) = wrapTight e := by
  funext b
  simp only [wrapTight, wrapMaybe, needsWrap_mapE, isSigned_mapE]

namespace MapCong
variable {φ : CMap} {R : List Chunk → List Chunk → Prop}

theorem wrapMaybe (hR : MapCong φ R) (x : Expr) {a a' : List Chunk} (h : R a a') :
    R (wrapMaybe x a) (wrapMaybe (mapE φ x) a') := by
  rw [wrapMaybe_mapE]
  unfold Pql.wrapMaybe
  split
  · exact hR.parenthesise h
  · exact h

theorem wrapTight (hR : MapCong φ R) (x : Expr) {a a' : List Chunk} (h : R a a') :
    R (wrapTight x a) (wrapTight (mapE φ x) a') := by
  rw [wrapTight_mapE]
  unfold Pql.wrapTight
  split
  · exact hR.parenthesise h
  · have := hR.wrapMaybe x h
    rwa [wrapMaybe_mapE] at this

end MapCong

end Pql
