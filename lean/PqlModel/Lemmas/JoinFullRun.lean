/-
C03 / C02, the general statement theorem, helper 7: a join-free operator list, run from any block
(`run_joinFree`), and R6's `BlockSem` for every join-free block, wherever it is placed
(`BlockSem_joinFree`).
-/
import PqlModel.Lemmas.JoinFullStep
namespace Pql.JoinFull
open Pql Sql CompileOracle Intended SplitQ SelSem C02

theorem opsOkJ_joinFree : ∀ (ops : OpList), joinFree ops = true → opsOkJ false ops = opsOk ops
  | .nil, _ => rfl
  | .cons o rest, h => by
    rw [joinFree_cons, Bool.and_eq_true] at h
    have hj : isJoin o = false := by simpa using h.1
    simp only [opsOkJ, opsOk, hj, opsOkJ_joinFree rest h.2, opOkJ_of_not_join _ o hj]
    simp

theorem opsOkJ_mono : ∀ (ops : OpList) (aj : Bool), opsOkJ true ops = true → opsOkJ aj ops = true
  | .nil, _, _ => rfl
  | .cons o rest, aj, h => by
    simp only [opsOkJ, Bool.and_eq_true] at h ⊢
    exact ⟨opOkJ_mono o h.1 aj, h.2⟩

theorem opsOkJ_false_of (ops : OpList) (aj : Bool) (h : opsOkJ aj ops = true) : opsOkJ false ops = true := by
  cases aj
  · exact h
  · exact opsOkJ_mono ops false h

/-- what a join-free operator list does to the block `N` -/
structure RunRes (src : Bytes) (db : DB) (source : Option Ident) (N N' : List SubA) (ops : OpList) : Prop where
  ne : ops ≠ .nil → N' ≠ []
  len : N.length ≤ N'.length
  names : ∃ extra, N'.map (·.name) = N.map (·.name) ++ extra
  ok : (∀ a ∈ N, linkOk a = true) → opsOkJ (openJoinL N) ops = true → ∀ a ∈ N', linkOk a = true
  tbl : (∀ a ∈ N, isJoinSrc a.source = false) → ∀ a ∈ N', isJoinSrc a.source = false
  sem : ∀ E : List (Bytes × Table), FreshNames E (N'.map (·.name)) →
      cur src db E source N' = Rel.interpOps src db (cur src db E source N) ops

theorem run_joinFree (src : Bytes) (db : DB) (source : Option Ident) : ∀ (ops : OpList) (pre N out : List SubA),
    joinFree ops = true → splitOpsA source pre.length (pre ++ N) ops = some out →
    ∃ N', out = pre ++ N' ∧ RunRes src db source N N' ops
  | .nil, pre, N, out, _, h => by
    simp only [splitOpsA, Option.some.injEq] at h
    subst h
    exact ⟨N, rfl, fun h => absurd rfl h, Nat.le_refl _, ⟨[], by simp⟩, fun h _ => h, fun h => h,
      fun E _ => by simp [Rel.interpOps]⟩
  | .cons o rest, pre, N, out, hjf, h => by
    rw [joinFree_cons, Bool.and_eq_true] at hjf
    have hj : isJoin o = false := by simpa using hjf.1
    rw [JoinSem.splitOpsA_cons _ _ _ _ _ hj] at h
    cases hd : JoinSem.stepA source pre.length (pre ++ N) o with
    | none => simp [hd] at h
    | some d =>
      simp only [hd, Option.bind] at h
      obtain ⟨N1, rfl, s1⟩ := step_res src db source pre N d o hj hd
      obtain ⟨N', rfl, r⟩ := run_joinFree src db source rest pre N1 out hjf.2 h
      obtain ⟨ex1, hn1, _⟩ := s1.names
      obtain ⟨ex2, hn2⟩ := r.names
      have hlen1 : N.length ≤ N1.length := by
        have := congrArg List.length hn1
        simp at this; omega
      refine ⟨N', rfl, fun _ hN' => ?_, by have := r.len; omega, ⟨ex1 ++ ex2, by rw [hn2, hn1, List.append_assoc]⟩,
        ?_, fun hN => r.tbl (s1.tbl hN), ?_⟩
      · have hne := s1.ne
        have := r.len
        subst hN'
        cases N1 with
        | nil => exact hne rfl
        | cons => simp at this
      · intro hN hok
        simp only [opsOkJ, Bool.and_eq_true, hj] at hok
        exact r.ok (s1.ok hN hok.1) (by rw [s1.open_]; exact hok.2)
      · intro E hfr
        have hfr1 : FreshNames E (N1.map (·.name)) := by rw [hn2] at hfr; exact hfr.prefix
        rw [r.sem E hfr, s1.sem E hfr1, Rel.interpOps]

theorem linkOk_chainA (dst : List SubA) (k : Nat) (source : Option Ident) : linkOk (chainA dst k source) = true := by
  apply linkOk_fresh _ rfl
  simp only [chainA]
  exact ⟨_, rfl⟩

theorem prevNameA_eq_lastName (source : Option Ident) (R : List SubA) (h : R ≠ []) :
    C05.prevNameA source R = JoinSem.lastName R := by
  rcases List.eq_nil_or_concat R with rfl | ⟨R0, l, rfl⟩
  · exact absurd rfl h
  · simp [C05.prevNameA, JoinSem.lastName]

/-- **R3's statement for a join-free block placed anywhere** (task item 1): for every join-free operator list
    whose operators satisfy their aggregate side conditions, every list `dst` of earlier links and every
    list `ctes0` of earlier bindings, binding the links of the block `T | ops` in order as common table
    expressions binds the block's last name to the pipeline's meaning on the table `T` denotes. -/
theorem BlockSem_joinFree (src : Bytes) (db : DB) (ctes0 : List (Bytes × Table)) (dst : List SubA) (T : Ident)
    (ops : OpList) (hjf : joinFree ops = true) (hok : opsOk ops = true) :
    JoinSem.BlockSem src db ctes0 dst T ops := by
  cases ops with
  | nil => exact JoinSem.BlockSem_nil src db ctes0 dst T
  | cons o rest =>
    intro R sels hsplit hsels hnd hfresh
    simp only [splitA, bind, Option.bind] at hsplit
    cases hq : splitOpsA (some T) dst.length dst (.cons o rest) with
    | none => simp [hq] at hsplit
    | some mid =>
      simp only [hq] at hsplit
      obtain ⟨N', rfl, r⟩ := run_joinFree src db (some T) (.cons o rest) dst [] mid hjf (by simpa using hq)
      have hne : N' ≠ [] := r.ne (by simp)
      have hlen : ¬ (dst ++ N').length = dst.length := by
        intro h
        apply hne
        simpa using h
      simp only [hlen, ↓reduceIte, pure, Option.some.injEq] at hsplit
      have hR : N' = R := List.append_cancel_left hsplit
      subst hR
      have hok' : ∀ a ∈ N', linkOk a = true :=
        r.ok (by simp) (by rw [show openJoinL [] = false from rfl, opsOkJ_joinFree _ hjf]; exact hok)
      have htbl : ∀ a ∈ N', needsRect a = false := by
        intro a ha
        simp [needsRect, r.tbl (by simp) a ha]
      rw [runCtes_eq_evalLinks src db N' ctes0 sels hsels hok' (.inl htbl), ← prevNameA_eq_lastName (some T) N' hne]
      exact r.sem ctes0 ⟨hnd, hfresh⟩

end Pql.JoinFull
