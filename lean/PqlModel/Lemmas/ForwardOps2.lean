/-
Stage 2 of property C07 (forward direction), continued: `summarize` and `render`.
-/
import PqlModel.Lemmas.ForwardOps
namespace Pql
open Grammar

/-! ### "not found" on a token that starts no expression -/

theorem pExpr_nf_kind (c : PCtx) (f : Nat) (t : Token) (r : List Token)
    (h1 : t.kind ≠ .plus) (h2 : t.kind ≠ .minus) (h3 : t.kind ≠ .number) (h4 : t.kind ≠ .string)
    (h5 : t.kind ≠ .ident) (h6 : t.kind ≠ .qident) (h7 : t.kind ≠ .lparen) :
    pExpr c (f + 4) (t :: r) = ⟨.nil, nfAt t.span, t :: r⟩ := by
  simp [pExpr, pUnary, pPrimary, pInner, h1, h2, h3, h4, h5, h6, h7]

theorem pNamedColumn_by (c : PCtx) (f : Nat) (t : Token) (r : List Token) (hk : t.kind = .by_) :
    isNF (pNamedColumn c (f + 4) (t :: r)).errs = true := by
  have hE := pExpr_nf_kind c f t r (by rw [hk]; decide) (by rw [hk]; decide) (by rw [hk]; decide)
    (by rw [hk]; decide) (by rw [hk]; decide) (by rw [hk]; decide) (by rw [hk]; decide)
  simp [pNamedColumn, pIdent, hk, hE]

/-! ### `summarize` -/

/-- the column loop when the columns run to the end of the operator -/
theorem pSummarizeCols_end (c : PCtx) (fuel : Nat) : ∀ (xs : List Column) (n : Nat) (acc : List Column)
    (cm : Option Span) (x : Column) (tx tr : List Token),
    wfColumn x = true → canonColumn x = true → xs.all wfColumn = true → xs.all canonColumn = true →
    RealBy (unparseColumn false) x tx → ItemsTail (RealBy (unparseColumn false)) xs tr →
    xs.length + 1 ≤ n → 4 * (tx ++ tr).length + 4 ≤ fuel →
    pSummarizeCols c fuel n acc cm (tx ++ tr) = ⟨⟨acc ++ x :: xs, true, none⟩, [], []⟩
  | xs, n, acc, cm0, x, tx, tr, hwf, hcan, hwfs, hcans, hx, hxs, hn, hf => by
    obtain ⟨n', rfl⟩ : ∃ n', n = n' + 1 := ⟨n - 1, by omega⟩
    simp only [List.length_append] at hf
    have hcs : ColStops tr = true := by
      have := colStops_items (rest := []) hxs rfl
      simpa using this
    have hT := pNamedColumn_fwd c fuel x tx tr hwf hcan hx hcs (by simp only [List.length_append]; omega)
    simp only [pSummarizeCols, hT, isNF_nil, Bool.false_eq_true, ne_eq, not_true_eq_false, if_false]
    cases xs with
    | nil =>
      have : tr = [] := hxs
      subst this
      rfl
    | cons y ys =>
      obtain ⟨cm, ty, tr', rfl, hcm, hy, hys⟩ := hxs
      simp only [List.all_cons, Bool.and_eq_true] at hwfs hcans
      simp only [List.length_cons, List.length_append] at hf hn
      have ih := pSummarizeCols_end c fuel ys n' (acc ++ [x]) (some cm.span) y ty tr' hwfs.1 hcans.1 hwfs.2
        hcans.2 hy hys (by omega) (by simp only [List.length_append]; omega)
      simp only [hcm, if_true, ih]
      simp
termination_by xs => xs.length

/-- the optional comma before `by` -/
def OptCommaReal (tc : List Token) (cm : Option Span) : Prop :=
  (tc = [] ∧ cm = none) ∨ ∃ t, tc = [t] ∧ t.kind = .comma ∧ cm = some t.span

/-- the column loop when `by` follows (possibly after a comma) -/
theorem pSummarizeCols_by (c : PCtx) (fuel : Nat) : ∀ (xs : List Column) (n : Nat) (acc : List Column)
    (cm0 cm : Option Span) (x : Column) (tx tr tc : List Token) (tb : Token) (rest : List Token),
    wfColumn x = true → canonColumn x = true → xs.all wfColumn = true → xs.all canonColumn = true →
    RealBy (unparseColumn false) x tx → ItemsTail (RealBy (unparseColumn false)) xs tr →
    OptCommaReal tc cm → tb.kind = .by_ → xs.length + 2 ≤ n →
    4 * (tx ++ tr ++ tc ++ tb :: rest).length + 4 ≤ fuel →
    pSummarizeCols c fuel n acc cm0 (tx ++ tr ++ tc ++ tb :: rest) =
      ⟨⟨acc ++ x :: xs, false, cm⟩, [], tb :: rest⟩
  | xs, n, acc, cm0, cm, x, tx, tr, tc, tb, rest, hwf, hcan, hwfs, hcans, hx, hxs, hc, hb, hn, hf => by
    obtain ⟨n', rfl⟩ : ∃ n', n = n' + 1 := ⟨n - 1, by omega⟩
    simp only [List.length_append, List.length_cons] at hf
    have hbs : ColStops (tb :: rest) = true := by
      simp only [ColStops, Bool.and_eq_true]
      exact ⟨stopsAt_kind hb, by simp [hb]⟩
    have hcs : ColStops (tc ++ tb :: rest) = true := by
      rcases hc with ⟨rfl, -⟩ | ⟨t, rfl, ht, -⟩
      · exact hbs
      · simp only [ColStops, List.cons_append, Bool.and_eq_true]
        exact ⟨stopsAt_kind ht, by simp [ht]⟩
    have hT := pNamedColumn_fwd c fuel x tx (tr ++ (tc ++ tb :: rest)) hwf hcan hx (colStops_items hxs hcs)
      (by simp only [List.length_append, List.length_cons]; omega)
    have hlist : tx ++ tr ++ tc ++ tb :: rest = tx ++ (tr ++ (tc ++ tb :: rest)) := by simp
    rw [hlist]
    simp only [pSummarizeCols, hT, isNF_nil, Bool.false_eq_true, ne_eq, not_true_eq_false, if_false]
    cases xs with
    | nil =>
      have : tr = [] := hxs
      subst this
      simp only [List.nil_append]
      rcases hc with ⟨rfl, rfl⟩ | ⟨t, rfl, ht, rfl⟩
      · have : tb.kind ≠ .comma := by rw [hb]; decide
        simp [this]
      · obtain ⟨n'', rfl⟩ : ∃ n'', n' = n'' + 1 := ⟨n' - 1, by simp only [List.length_nil] at hn; omega⟩
        obtain ⟨f', rfl⟩ : ∃ f', fuel = f' + 4 := ⟨fuel - 4, by omega⟩
        have hnf := pNamedColumn_by c f' tb rest hb
        simp only [List.cons_append, List.nil_append, ht, if_true, pSummarizeCols, hnf]
    | cons y ys =>
      obtain ⟨cmt, ty, tr', rfl, hcm, hy, hys⟩ := hxs
      simp only [List.all_cons, Bool.and_eq_true] at hwfs hcans
      simp only [List.length_cons, List.length_append] at hf hn
      have ih := pSummarizeCols_by c fuel ys n' (acc ++ [x]) (some cmt.span) cm y ty tr' tc tb rest hwfs.1
        hcans.1 hwfs.2 hcans.2 hy hys hc hb (by omega)
        (by simp only [List.length_append, List.length_cons]; omega)
      have hlist2 : ty ++ tr' ++ tc ++ tb :: rest = ty ++ (tr' ++ (tc ++ tb :: rest)) := by simp
      rw [hlist2] at ih
      simp only [List.cons_append, List.append_assoc, hcm, if_true, ih]
      simp
termination_by xs => xs.length

/-- `summarize` without `by` -/
theorem pSummarize_plain (c : PCtx) (fuel : Nat) (pipe kw : Span) (x : Column) (xs : List Column)
    (tx tr : List Token) (hwf : (x :: xs).all wfColumn = true) (hcan : (x :: xs).all canonColumn = true)
    (hx : RealBy (unparseColumn false) x tx) (hxs : ItemsTail (RealBy (unparseColumn false)) xs tr)
    (hf : 4 * (tx ++ tr).length + 4 ≤ fuel) :
    pSummarize c fuel pipe kw (tx ++ tr) = ⟨.summarize pipe kw (x :: xs) .null [], [], []⟩ := by
  simp only [List.all_cons, Bool.and_eq_true] at hwf hcan
  have hlen := itemsTail_length hxs
  have h1 := pSummarizeCols_end c fuel xs ((tx ++ tr).length + 1) [] none x tx tr hwf.1 hcan.1 hwf.2 hcan.2 hx
    hxs (by simp only [List.length_append]; omega) hf
  simp only [pSummarize, h1]
  simp

/-- `summarize cols by groups` with at least one column -/
theorem pSummarize_by (c : PCtx) (fuel : Nat) (pipe kw : Span) (x : Column) (xs : List Column)
    (g : Column) (gs : List Column) (tx tr tc : List Token) (tb : Token) (tg tgr : List Token)
    (cm : Option Span)
    (hwf : (x :: xs).all wfColumn = true) (hcan : (x :: xs).all canonColumn = true)
    (hwfg : (g :: gs).all wfColumn = true) (hcang : (g :: gs).all canonColumn = true)
    (hx : RealBy (unparseColumn false) x tx) (hxs : ItemsTail (RealBy (unparseColumn false)) xs tr)
    (hc : OptCommaReal tc cm) (hb : tb.kind = .by_)
    (hg : RealBy (unparseColumn false) g tg) (hgs : ItemsTail (RealBy (unparseColumn false)) gs tgr)
    (hf : 4 * (tx ++ tr ++ tc ++ tb :: (tg ++ tgr)).length + 4 ≤ fuel) :
    pSummarize c fuel pipe kw (tx ++ tr ++ tc ++ tb :: (tg ++ tgr)) =
      ⟨.summarize pipe kw (x :: xs) tb.span (g :: gs), [], []⟩ := by
  simp only [List.all_cons, Bool.and_eq_true] at hwf hcan hwfg hcang
  have hlen := itemsTail_length hxs
  have hleng := itemsTail_length hgs
  have h1 := pSummarizeCols_by c fuel xs ((tx ++ tr ++ tc ++ tb :: (tg ++ tgr)).length + 1) [] none cm x tx tr tc
    tb (tg ++ tgr) hwf.1 hcan.1 hwf.2 hcan.2 hx hxs hc hb
    (by simp only [List.length_append, List.length_cons]; omega) hf
  simp only [List.length_append, List.length_cons] at hf
  have h2 := pGroupByCols_fwd c fuel gs ((tg ++ tgr).length + 1) [] g tg tgr [] hwfg.1 hcang.1 hwfg.2 hcang.2 hg
    hgs rfl rfl (by simp only [List.length_append]; omega)
    (by simp only [List.length_append, List.length_nil]; omega)
  simp only [List.append_nil, List.nil_append] at h2
  simp only [pSummarize, h1]
  simp only [List.length_append] at h2
  simp [hb, h2]

/-- `summarize by groups` without columns -/
theorem pSummarize_byOnly (c : PCtx) (fuel : Nat) (pipe kw : Span) (g : Column) (gs : List Column)
    (tb : Token) (tg tgr : List Token)
    (hwfg : (g :: gs).all wfColumn = true) (hcang : (g :: gs).all canonColumn = true) (hb : tb.kind = .by_)
    (hg : RealBy (unparseColumn false) g tg) (hgs : ItemsTail (RealBy (unparseColumn false)) gs tgr)
    (hf : 4 * (tb :: (tg ++ tgr)).length + 4 ≤ fuel) :
    pSummarize c fuel pipe kw (tb :: (tg ++ tgr)) = ⟨.summarize pipe kw [] tb.span (g :: gs), [], []⟩ := by
  simp only [List.all_cons, Bool.and_eq_true] at hwfg hcang
  have hleng := itemsTail_length hgs
  simp only [List.length_append, List.length_cons] at hf
  obtain ⟨f', rfl⟩ : ∃ f', fuel = f' + 4 := ⟨fuel - 4, by omega⟩
  have hnf := pNamedColumn_by c f' tb (tg ++ tgr) hb
  have h2 := pGroupByCols_fwd c (f' + 4) gs ((tg ++ tgr).length + 1) [] g tg tgr [] hwfg.1 hcang.1 hwfg.2 hcang.2
    hg hgs rfl rfl (by simp only [List.length_append]; omega)
    (by simp only [List.length_append, List.length_nil]; omega)
  simp only [List.append_nil, List.nil_append, List.length_append] at h2
  simp [pSummarize, pSummarizeCols, hnf, hb, h2]

/-! ### `render` -/

theorem prop_real {p : RenderProp} {ts : List Token} (h : RealBy unparseProp p ts) :
    ∃ n tn ta tv, p.name = some n ∧ ts = tn :: ta :: tv ∧ IsIdentTok n tn ∧ ta.kind = .assign ∧
      ta.span = p.assign ∧ Real p.value tv := by
  obtain ⟨us, hu, ha, hn⟩ := h
  simp only [unparseProp, Option.bind_eq_bind, Option.pure_def, Option.bind_eq_some_iff,
    Option.some.injEq] at hu
  obtain ⟨n, hname, vs, hv, rfl⟩ := hu
  obtain ⟨tn, t2, rfl, htn, h2⟩ := accounts_cons_inv (by simp [identTok]) ha
  obtain ⟨ta, tv, rfl, hta, h3⟩ := accounts_cons_inv rfl h2
  obtain ⟨hk, hs⟩ := tokOk_sym_inv hta
  exact ⟨n, tn, ta, tv, hname, rfl, tokOk_identTok_inv htn, hk, hs, vs, hv, h3, nlc_tail (nlc_tail hn)⟩

theorem pRenderProp_fwd (c : PCtx) (fuel : Nat) (p : RenderProp) (ts rest : List Token)
    (hok : okExpr p.value = true) (hr : RealBy unparseProp p ts) (hs : StopsAt 0 rest = true)
    (hf : 4 * (ts ++ rest).length + 4 ≤ fuel) : pRenderProp c fuel (ts ++ rest) = ⟨some p, [], rest⟩ := by
  obtain ⟨n, tn, ta, tv, hname, rfl, htn, hk, hsp, hv⟩ := prop_real hr
  obtain ⟨name, asg, v⟩ := p
  simp only at hname hsp hv hok
  subst hname hsp
  simp only [List.cons_append, List.length_cons] at hf ⊢
  have hE := pExpr_real c fuel rest hok hv hs (by omega)
  simp [pRenderProp, pIdent_real htn, hk, hE]

theorem pRenderProps_fwd (c : PCtx) (fuel : Nat) : ∀ (xs : List RenderProp) (n : Nat) (acc : List RenderProp)
    (x : RenderProp) (tx tr : List Token) (trp : Token) (rest : List Token),
    okExpr x.value = true → (xs.all fun p => okExpr p.value) = true →
    RealBy unparseProp x tx → ItemsTail (RealBy unparseProp) xs tr → trp.kind = .rparen →
    xs.length + 1 ≤ n → 4 * (tx ++ tr ++ trp :: rest).length + 4 ≤ fuel →
    pRenderProps c fuel n acc (tx ++ tr ++ trp :: rest) = ⟨(acc ++ x :: xs, trp.span), [], rest⟩
  | xs, n, acc, x, tx, tr, trp, rest, hok, hoks, hx, hxs, hrp, hn, hf => by
    obtain ⟨n', rfl⟩ : ∃ n', n = n' + 1 := ⟨n - 1, by omega⟩
    simp only [List.length_append, List.length_cons] at hf
    have hstop : StopsAt 0 (tr ++ trp :: rest) = true :=
      itemsTail_stops hxs (stopsAt_kind hrp)
    have hT := pRenderProp_fwd c fuel x tx (tr ++ trp :: rest) hok hx hstop
      (by simp only [List.length_append, List.length_cons]; omega)
    rw [List.append_assoc]
    simp only [pRenderProps, hT, ne_eq, not_true_eq_false, if_false]
    cases xs with
    | nil =>
      have : tr = [] := hxs
      subst this
      simp [hrp]
    | cons y ys =>
      obtain ⟨cm, ty, tr', rfl, hcm, hy, hys⟩ := hxs
      simp only [List.all_cons, Bool.and_eq_true] at hoks
      simp only [List.length_cons, List.length_append] at hf hn
      have ih := pRenderProps_fwd c fuel ys n' (acc ++ [x]) y ty tr' trp rest hoks.1 hoks.2 hy hys hrp
        (by omega) (by simp only [List.length_append, List.length_cons]; omega)
      have hlist : ty ++ tr' ++ trp :: rest = ty ++ (tr' ++ trp :: rest) := by simp
      rw [hlist] at ih
      have h1 : cm.kind ≠ .rparen := by rw [hcm]; decide
      simp only [List.cons_append, List.append_assoc, h1, if_false, hcm, ne_eq, not_true_eq_false, ih]
      simp
termination_by xs => xs.length

/-- `render chart` -/
theorem pRender_plain (c : PCtx) (fuel : Nat) (pipe kw : Span) (chart : Ident) (tch : Token)
    (hch : IsIdentTok chart tch) :
    pRender c fuel pipe kw [tch] = ⟨.render pipe kw (some chart) .null .null [] .null, [], []⟩ := by
  simp [pRender, pIdent_real hch]

/-- `render chart with ( props )` -/
theorem pRender_with (c : PCtx) (fuel : Nat) (pipe kw : Span) (chart : Ident) (tch tw tlp : Token)
    (x : RenderProp) (xs : List RenderProp) (tx tr : List Token) (trp : Token)
    (hch : IsIdentTok chart tch) (hw : isIdentNamed tw "with" = true) (hlp : tlp.kind = .lparen)
    (hok : ((x :: xs).all fun p => okExpr p.value) = true)
    (hx : RealBy unparseProp x tx) (hxs : ItemsTail (RealBy unparseProp) xs tr) (hrp : trp.kind = .rparen)
    (hf : 4 * (tch :: tw :: tlp :: (tx ++ tr ++ [trp])).length + 4 ≤ fuel) :
    pRender c fuel pipe kw (tch :: tw :: tlp :: (tx ++ tr ++ [trp])) =
      ⟨.render pipe kw (some chart) tw.span tlp.span (x :: xs) trp.span, [], []⟩ := by
  simp only [List.all_cons, Bool.and_eq_true] at hok
  have hlen := itemsTail_length hxs
  simp only [List.length_cons, List.length_append, List.length_nil] at hf
  have h1 := pRenderProps_fwd c fuel xs ((tx ++ tr ++ [trp]).length + 1) [] x tx tr trp [] hok.1 hok.2 hx hxs hrp
    (by simp only [List.length_append]; omega)
    (by simp only [List.length_append, List.length_cons, List.length_nil]; omega)
  simp only [List.nil_append] at h1
  simp only [pRender, pIdent_real hch, hw, Bool.not_true, Bool.false_eq_true, if_false, hlp, ne_eq,
    not_true_eq_false, h1]

end Pql
