/-
Programs with lets, part 2 (Lemmas/ParseStmtParts.lean under a let-built scope): the source part
(table / join) and the tail part (ORDER BY, LIMIT) of one SELECT written under the scope are read
back as `srcOfA` / `orderA` / `limitA` of the RESOLVED link (`substSubA env`).
-/
import PqlModel.Lemmas.E2EFinalScopedExpr
import PqlModel.Lemmas.ParseStmtParts
import PqlModel.Lemmas.ScopeProgram
namespace Pql.E2EFinal
set_option linter.unusedSimpArgs false
set_option linter.unusedVariables false
open Pql Sql CompileOracle Intended Pql.RT Pql.C05 Pql.C06

/-! ### the resolved link -/

def substSrcA (env : List (Bytes × Expr)) : SrcA → SrcA
  | .table n => .table n
  | .join u l a b c => .join u l a b (substExpr env c)

def substSubA (env : List (Bytes × Expr)) (a : SubA) : SubA :=
  { name := a.name, source := substSrcA env a.source, op := a.op.map (substOp env),
    sort := a.sort.map (·.map (substTerm env)), take := a.take.map (substExpr env) }

section
variable {src : Bytes} {scope : Scope} {env : List (Bytes × Expr)} (hsc : ScopeLetsEnv src scope env)
  (hjs : envJoinSafe env = true)
include hsc hjs

theorem exprP_default_s {e : Expr} {cs : List Chunk}
    (hok : exprOK (substExpr env e) = true) (hw : writeExpr ⟨src, scope, .default⟩ e = .ok cs) :
    ∃ want, tr false (substExpr env e) = some want ∧ ExprP (toksOf cs) want :=
  exprP_s hsc hjs (m := .default) hok hw

theorem exprP_join_s {e : Expr} {cs : List Chunk}
    (hok : exprOKin true (substExpr env e) = true) (hw : writeExpr ⟨src, scope, .join⟩ e = .ok cs) :
    ∃ want, tr true (substExpr env e) = some want ∧ ExprP (toksOf cs) want :=
  exprP_s hsc hjs (m := .join) hok hw

/-! ### the source -/

theorem src_spec_s (s : SrcA) (hok : srcOK (substSrcA env s) = true) (srcC : List Chunk)
    (he : eraseSrc src scope s = .ok srcC) :
    ∃ wsrc wjn, srcOfA (substSrcA env s) = some (wsrc, wjn) ∧
      ∀ r, Ends (endTok K3) r →
        ∃ jn r3, pTableRef (toksOf srcC ++ r) = some (wsrc, r3) ∧ joinPart r3 = some (jn, r) ∧ OptRel JoinRel jn wjn := by
  cases s with
  | table n =>
    simp only [eraseSrc, Except.ok.injEq] at he
    subst he
    refine ⟨.named n none, none, rfl, fun r hr => ⟨none, r, ?_, ?_, .none⟩⟩
    · simpa using pTableRef_named n (endTok_mono (by simp [K3]) hr)
    · exact joinPart_none (endTok_mono (by simp [K3]) hr)
  | join unique left l r cond =>
    simp only [substSrcA, srcOK] at hok
    simp only [eraseSrc] at he
    cases hc : writeExpr ⟨src, scope, .join⟩ cond with
    | error e => rw [hc] at he; cases he
    | ok c =>
      rw [hc] at he
      simp only [bind, Except.bind, pure, Except.pure, Except.ok.injEq] at he
      subst he
      obtain ⟨want, ht, hP⟩ := exprP_join_s hsc hjs hok hc
      refine ⟨_, _, by simp only [substSrcA, srcOfA, ht, Option.bind_eq_bind, Option.bind_some]; rfl, fun rest hr => ?_⟩
      obtain ⟨c', hc', r3, h1, h2⟩ := join_parse unique left l r hP (endTok_stop hr) (rest := rest)
      rw [toksOf_join]
      refine ⟨_, r3, ?_, h2, .some ⟨rfl, rfl, hc'⟩⟩
      rw [h1]
      rfl

/-! ### ORDER BY / LIMIT -/

theorem sortTerms_spec_s : ∀ (terms : List SortTerm) (ts : List (List Chunk)),
    ((terms.map (substTerm env)).all fun t => exprOK t.x) = true → writeSortTerms ⟨src, scope, .default⟩ terms = .ok ts →
    ∃ wob, (terms.map (substTerm env)).mapM orderOf = some wob ∧ ListRel OrdP (ts.map toksOf) wob
  | [], ts, _, h => by
    simp only [writeSortTerms, Except.ok.injEq] at h
    subst h
    exact ⟨[], rfl, .nil⟩
  | t :: terms, ts, hok, h => by
    simp only [List.map_cons, List.all_cons, Bool.and_eq_true] at hok
    simp only [writeSortTerms] at h
    cases hx : writeExpr ⟨src, scope, .default⟩ t.x with
    | error e => rw [hx] at h; cases h
    | ok x =>
      rw [hx] at h
      cases hr : writeSortTerms ⟨src, scope, .default⟩ terms with
      | error e => rw [hr] at h; cases h
      | ok rest =>
        rw [hr] at h
        simp only [bind, Except.bind, pure, Except.pure, Except.ok.injEq] at h
        subst h
        obtain ⟨want, ht, hP⟩ := exprP_default_s hsc hjs (e := t.x) hok.1 hx
        obtain ⟨wob, hwob, hrel⟩ := sortTerms_spec_s terms rest hok.2 hr
        refine ⟨⟨want, t.asc, t.nullsFirst⟩ :: wob, ?_, .cons ⟨toksOf x, ?_, hP⟩ hrel⟩
        · simp only [List.map_cons, List.mapM_cons, orderOf, substTerm, ht, hwob, Option.bind_eq_bind, Option.bind_some,
            Option.pure_def]
        · cases t.asc <;> cases t.nullsFirst <;> simp [ordToks]

theorem take_spec_s (take : Option Expr) (ht : takeOK (take.map (substExpr env)) = true) (takePart : List Chunk)
    (htp : takePartOf ⟨src, scope, .default⟩ take = .ok takePart) :
    ∃ wlim, limitA (take.map (substExpr env)) = some wlim ∧
      (∀ t tl', toksOf takePart = t :: tl' → t = RT.W "LIMIT") ∧
      ∀ r, Closer r → ∃ lim, limitPart (toksOf takePart ++ r) = some (lim, r) ∧ OptRel NormEq lim wlim := by
  cases take with
  | none =>
    simp only [takePartOf, pure, Except.pure, Except.ok.injEq] at htp
    subst htp
    refine ⟨none, rfl, by simp, fun r hr => ⟨none, ?_, .none⟩⟩
    simpa using limitPart_none (endTok_mono (by simp [allKws]) hr.ends)
  | some n =>
    simp only [Option.map_some, takeOK] at ht
    simp only [takePartOf] at htp
    cases hx : writeExpr ⟨src, scope, .default⟩ n with
    | error e => rw [hx] at htp; cases htp
    | ok x =>
      rw [hx] at htp
      simp only [bind, Except.bind, pure, Except.pure, Except.ok.injEq] at htp
      subst htp
      obtain ⟨want, htr, hP⟩ := exprP_default_s hsc hjs ht hx
      refine ⟨some want, by simp [limitA, htr], by simp, fun r hr => ?_⟩
      obtain ⟨s, hs, hp⟩ := limitPart_some hP (endTok_stop hr.ends) (r := r)
      exact ⟨some s, by simpa using hp, .some hs⟩

theorem tail_spec_s (sort : Option (List SortTerm)) (take : Option Expr)
    (hs : sortOK (sort.map (·.map (substTerm env))) = true) (ht : takeOK (take.map (substExpr env)) = true)
    (body cs : List Chunk)
    (h : tailOf ⟨src, scope, .default⟩ sort take (some body) = .ok cs) :
    ∃ tl wob wlim, toksOf cs = toksOf body ++ tl ∧ orderA (sort.map (·.map (substTerm env))) = some wob ∧
      limitA (take.map (substExpr env)) = some wlim ∧
      (∀ r, Closer r → Ends (endTok K5) (tl ++ r)) ∧
      ∀ r, Closer r → ∃ ob lim r7, orderPart (tl ++ r) = some (ob, r7) ∧ limitPart r7 = some (lim, r) ∧
        ListRel OrdRel ob wob ∧ OptRel NormEq lim wlim := by
  rw [tailOf_eq] at h
  cases hsp : sortPartOf ⟨src, scope, .default⟩ sort with
  | error e => rw [hsp] at h; cases h
  | ok sp =>
  cases htp : takePartOf ⟨src, scope, .default⟩ take with
  | error e => rw [hsp, htp] at h; cases h
  | ok takePart =>
  rw [hsp, htp] at h
  simp only [bind, Except.bind, pure, Except.pure, Except.ok.injEq] at h
  subst h
  obtain ⟨wlim, hwl, hhead, hparse⟩ := take_spec_s hsc hjs take ht takePart htp
  have hends : ∀ r, Closer r → Ends (endTok ["AS", "JOIN", "LEFT", "WHERE", "GROUP", "ORDER"]) (toksOf takePart ++ r) :=
    fun r hr => ends_prefix (fun t tl' e => by rw [hhead t tl' e]; exact end_LIMIT)
      (endTok_mono (by simp [allKws]) hr.ends)
  cases sort with
  | none =>
    simp only [sortPartOf, pure, Except.pure, Except.ok.injEq] at hsp
    subst hsp
    refine ⟨toksOf takePart, [], wlim, by simp, rfl, hwl, fun r hr => endTok_mono (by simp [K5]) (hends r hr),
      fun r hr => ?_⟩
    obtain ⟨lim, hl, hrel⟩ := hparse r hr
    exact ⟨[], lim, _, orderPart_none (endTok_mono (by simp) (hends r hr)), hl, .nil, hrel⟩
  | some terms =>
    simp only [Option.map_some, sortOK, Bool.and_eq_true, Bool.not_eq_true', List.isEmpty_eq_false_iff] at hs
    simp only [sortPartOf] at hsp
    cases hts : writeSortTerms ⟨src, scope, .default⟩ terms with
    | error e => rw [hts] at hsp; cases hsp
    | ok ts =>
      rw [hts] at hsp
      simp only [bind, Except.bind, pure, Except.pure, Except.ok.injEq] at hsp
      subst hsp
      obtain ⟨wob, hwob, hrel⟩ := sortTerms_spec_s hsc hjs terms ts hs.2 hts
      have hne : ts.map toksOf ≠ [] := by
        intro he
        have hl := hrel.length_eq
        rw [he] at hl
        cases wob with
        | nil =>
          cases terms with
          | nil => exact hs.1 rfl
          | cons t tl' =>
            simp only [List.map_cons, List.mapM_cons, Option.bind_eq_bind, Option.pure_def] at hwob
            cases h1 : orderOf (substTerm env t) with
            | none => simp [h1] at hwob
            | some b =>
              cases h2 : List.mapM orderOf (tl'.map (substTerm env)) with
              | none => simp [h1, h2] at hwob
              | some bs => simp [h1, h2] at hwob
        | cons _ _ => simp at hl
      refine ⟨RT.W "ORDER" :: RT.W "BY" :: (sepToks (ts.map toksOf) ++ toksOf takePart), wob, wlim,
        by simp [C05.toksOf_sepChunks], by simpa [orderA] using hwob, hwl, fun r hr => endTok_sub end_ORDER (by simp [K5]),
        fun r hr => ?_⟩
      obtain ⟨lim, hl, hrl⟩ := hparse r hr
      obtain ⟨ob, hob, hro⟩ := orderPart_some hrel hne (r := toksOf takePart ++ r) (endTok_mono (by simp) (hends r hr))
      exact ⟨ob, lim, _, by simpa using hob, hl, hro, hrl⟩

end

end Pql.E2EFinal
