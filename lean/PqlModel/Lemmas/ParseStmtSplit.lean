/-
C05, syntactic half, stage 1: the model's `splitQueries` is the intended splitting `Intended.splitA`
followed by erasing the structured sources (`erase`): whenever `splitQueries` succeeds, `splitA`
is defined and its links erase to exactly the subqueries `splitQueries` produced.
-/
import PqlModel.Lemmas.ParseStmtDefs
import PqlModel.Lemmas.ScopeProgram
namespace Pql.C05
open Pql Sql CompileOracle Intended

section
variable {src : Bytes} {scope : List (Bytes × List Chunk)}

/-! ### the list helpers -/

theorem getLast?_ne_none_of_length {α : Type} {l : List α} {n : Nat} (h : l.length > n) : l.getLast? ≠ none := by
  intro hn
  rw [List.getLast?_eq_none_iff] at hn
  subst hn
  simp only [List.length_nil] at h
  omega

/-- subtle point 1: the `none` branch of `chainSubquery` (source `[]`) is unreachable -/
theorem chain_rel {dstA : List SubA} {dst : List Subquery} (h : ListRel (EraseRel src scope) dstA dst) (ds : Nat)
    (source : Option Ident) : EraseRel src scope (chainA dstA ds source) (chainSubquery dst ds source) := by
  unfold chainA chainSubquery
  rw [h.length_eq]
  have hg := h.getLast?
  have hne : dst.length > ds → dst.getLast? ≠ none := getLast?_ne_none_of_length
  revert hg hne
  generalize dstA.getLast? = g
  generalize dst.getLast? = g'
  intro hg hne
  refine ⟨rfl, ?_, rfl, rfl, rfl⟩
  dsimp only
  split
  · rename_i hlt
    cases hg with
    | none => exact absurd rfl (hne hlt)
    | some hab => simp only [eraseSrc, hab.name]
  · rfl

theorem lastOf_rel {dstA : List SubA} {dst : List Subquery} (h : ListRel (EraseRel src scope) dstA dst) (ds : Nat) :
    OptRel (EraseRel src scope) (lastOfA dstA ds) (lastOf dst ds) := by
  unfold lastOfA lastOf
  rw [h.length_eq]
  split
  · exact h.getLast?
  · exact .none

theorem setLast_rel {dstA : List SubA} {dst : List Subquery} (h : ListRel (EraseRel src scope) dstA dst)
    {f : SubA → SubA} {g : Subquery → Subquery}
    (hf : ∀ a b, EraseRel src scope a b → EraseRel src scope (f a) (g b)) :
    ListRel (EraseRel src scope) (setLastA dstA f) (setLast dst g) := by
  unfold setLastA setLast
  have hr := h.reverse
  revert hr
  generalize dstA.reverse = r
  generalize dst.reverse = r'
  intro hr
  cases hr with
  | nil => exact .nil
  | cons hab hrest => exact (ListRel.cons (hf _ _ hab) hrest).reverse

theorem setLast_length (d : List Subquery) (f : Subquery → Subquery) : (setLast d f).length = d.length := by
  unfold setLast
  have hl : d.reverse.length = d.length := List.length_reverse
  revert hl
  generalize d.reverse = r
  intro hl
  cases r with
  | nil => exact hl
  | cons a r => simpa only [List.length_reverse, List.length_cons] using hl

theorem attach_dst_rel {dstA : List SubA} {dst : List Subquery} (h : ListRel (EraseRel src scope) dstA dst) (c : Bool)
    (ds : Nat) (source : Option Ident) :
    ListRel (EraseRel src scope) (if c = true then dstA else dstA ++ [chainA dstA ds source])
      (if c = true then dst else dst ++ [chainSubquery dst ds source]) := by
  cases c with
  | true => exact h
  | false =>
    simp only [Bool.false_eq_true, if_false]
    exact h.append (ListRel.single (chain_rel h ds source))

theorem attach_len (c : Bool) (d : List Subquery) (x : Subquery) (f : Subquery → Subquery) :
    d.length ≤ (setLast (if c = true then d else d ++ [x]) f).length := by
  rw [setLast_length]
  cases c with
  | true => exact Nat.le_refl _
  | false => simp only [Bool.false_eq_true, if_false, List.length_append, List.length_singleton]; omega

/-- pushing a link that carries an operator -/
theorem push_op_rel {dstA : List SubA} {dst : List Subquery} (h : ListRel (EraseRel src scope) dstA dst) (ds : Nat)
    (source : Option Ident) (o : Op) :
    ListRel (EraseRel src scope) (dstA ++ [{ chainA dstA ds source with op := some o }])
      (dst ++ [{ chainSubquery dst ds source with op := some o }]) := by
  have hc := chain_rel h ds source
  exact h.append (ListRel.single ⟨hc.name, hc.source, rfl, hc.sort, hc.take⟩)

theorem attach3_eq {a : SubA} {b : Subquery} (hab : EraseRel src scope a b) :
    (canAttachSort b.op && b.sort.isNone && b.take.isNone) = (canAttachSort a.op && a.sort.isNone && a.take.isNone) := by
  rw [hab.op, hab.sort, hab.take]

theorem attach2_eq {a : SubA} {b : Subquery} (hab : EraseRel src scope a b) :
    (canAttachSort b.op && b.take.isNone) = (canAttachSort a.op && a.take.isNone) := by
  rw [hab.op, hab.take]

/-- the shape of the conclusion, weakened along `n ≤ n'` -/
theorem weaken_len {X : Option (List SubA)} {out : List Subquery} {n n' : Nat} (hn : n ≤ n')
    (h : ∃ outA, X = some outA ∧ ListRel (EraseRel src scope) outA out ∧ n' ≤ out.length) :
    ∃ outA, X = some outA ∧ ListRel (EraseRel src scope) outA out ∧ n ≤ out.length := by
  obtain ⟨outA, h1, h2, h3⟩ := h
  exact ⟨outA, h1, h2, Nat.le_trans hn h3⟩

/-! ### the splitter refines the intended splitting -/

mutual
theorem splitQueries_refines (src : Bytes) (scope : List (Bytes × List Chunk)) :
    (t : Tabular) → (dst : List Subquery) → (dstA : List SubA) → ListRel (EraseRel src scope) dstA dst →
    (out : List Subquery) → splitQueries src scope dst t = .ok out →
    ∃ outA, splitA dstA t = some outA ∧ ListRel (EraseRel src scope) outA out ∧ dst.length ≤ out.length
  | .nil, dst, dstA, hd, out, h => by
    simp only [splitQueries] at h
    cases h
  | .mk source ops, dst, dstA, hd, out, h => by
    simp only [splitQueries] at h
    cases hx : splitOps src scope source dst.length dst ops with
    | error e => rw [hx] at h; cases h
    | ok d =>
      rw [hx] at h
      simp only [bind, Except.bind] at h
      obtain ⟨dA, hA, hrel, hlen⟩ := splitOps_refines src scope ops source dst.length dst dstA hd d hx
      simp only [splitA, hd.length_eq, hA, bind, Option.bind, hrel.length_eq]
      split at h
      · rename_i he
        simp only [pure, Except.pure, Except.ok.injEq] at h
        subst h
        simp only [he, if_true, pure]
        refine ⟨_, rfl, hrel.append (ListRel.single (chain_rel hrel _ source)), ?_⟩
        simp only [List.length_append, List.length_singleton]; omega
      · rename_i he
        simp only [pure, Except.pure, Except.ok.injEq] at h
        subst h
        simp only [he, if_false, pure]
        exact ⟨_, rfl, hrel, hlen⟩

theorem splitOps_refines (src : Bytes) (scope : List (Bytes × List Chunk)) :
    (ops : OpList) → (source : Option Ident) → (ds : Nat) → (dst : List Subquery) → (dstA : List SubA) →
    ListRel (EraseRel src scope) dstA dst →
    (out : List Subquery) → splitOps src scope source ds dst ops = .ok out →
    ∃ outA, splitOpsA source ds dstA ops = some outA ∧ ListRel (EraseRel src scope) outA out ∧ dst.length ≤ out.length
  | .nil, source, ds, dst, dstA, hd, out, h => by
    simp only [splitOps, pure, Except.pure, Except.ok.injEq] at h
    subst h
    exact ⟨dstA, by simp only [splitOpsA], hd, Nat.le_refl _⟩
  | .cons (.as_ p kw name) rest, source, ds, dst, dstA, hd, out, h => by
    simp only [splitOps] at h
    simp only [splitOpsA]
    refine weaken_len ?_ (splitOps_refines src scope rest source ds _ _ ?_ out h)
    · simp only [List.length_append, List.length_singleton]; omega
    · have hc := chain_rel hd ds source
      exact hd.append (ListRel.single ⟨rfl, hc.source, rfl, hc.sort, hc.take⟩)
  | .cons (.count p kw) rest, source, ds, dst, dstA, hd, out, h => by
    simp only [splitOps] at h
    simp only [splitOpsA]
    exact weaken_len (by simp only [List.length_append, List.length_singleton]; omega)
      (splitOps_refines src scope rest source ds _ _ (push_op_rel hd ds source (.count p kw)) out h)
  | .cons (.sort p kw terms) rest, source, ds, dst, dstA, hd, out, h => by
    simp only [splitOps] at h
    simp only [splitOpsA]
    have hl := lastOf_rel hd ds
    revert h
    revert hl
    generalize lastOf dst ds = l
    generalize lastOfA dstA ds = lA
    intro hl h
    cases hl with
    | none =>
      simp only [] at h ⊢
      refine weaken_len (attach_len _ _ _ _) (splitOps_refines src scope rest source ds _ _ ?_ out h)
      exact setLast_rel (attach_dst_rel hd false ds source) fun a b hab => ⟨hab.name, hab.source, hab.op, rfl, hab.take⟩
    | some hab =>
      simp only [attach3_eq hab] at h
      refine weaken_len (attach_len _ _ _ _) (splitOps_refines src scope rest source ds _ _ ?_ out h)
      exact setLast_rel (attach_dst_rel hd _ ds source) fun a b hab => ⟨hab.name, hab.source, hab.op, rfl, hab.take⟩
  | .cons (.join p kw kind ka flavor lp right rp on conds) rest, source, ds, dst, dstA, hd, out, h => by
    simp only [splitOps] at h
    cases hx : splitQueries src scope dst right with
    | error e => rw [hx] at h; cases h
    | ok d =>
      rw [hx] at h
      simp only [bind, Except.bind] at h
      obtain ⟨dA, hA, hrel, hlen⟩ := splitQueries_refines src scope right dst dstA hd d hx
      have hm : splitOpsA.match_3 (fun _ => Bytes) flavor (fun f => f.name) (fun _ => Bytes.ofString "innerunique") =
          identName.match_1 (fun _ => Bytes) flavor (fun f => f.name) (fun _ => Bytes.ofString "innerunique") := by
        cases flavor <;> rfl
      simp only [splitOpsA, hA, bind, Option.bind, hm]
      have hg := hrel.getLast?
      have he := hrel.getElem? ((dst.length : Int) - 1).toNat
      have hne : (dst.length : Int) - 1 ≥ (ds : Int) → d[((dst.length : Int) - 1).toNat]? ≠ none := by
        intro hge hn
        rw [List.getElem?_eq_none_iff] at hn
        omega
      rw [hd.length_eq, hrel.length_eq]
      revert h
      revert hg he hne
      generalize d.getLast? = g
      generalize dA.getLast? = gA
      generalize d[((dst.length : Int) - 1).toNat]? = e1
      generalize dA[((dst.length : Int) - 1).toNat]? = e1A
      generalize identName.match_1 (fun _ => Bytes) flavor (fun f => f.name) (fun _ => Bytes.ofString "innerunique") = fn
      intro hg he hne h
      cases hb1 : (fn == Bytes.ofString "inner") <;> cases hb2 : (fn == Bytes.ofString "innerunique") <;>
        cases hb3 : (fn == Bytes.ofString "leftouter") <;>
        simp only [hb1, hb2, hb3, Bool.or_false, Bool.or_true, Bool.false_eq_true, if_false, if_true] at h ⊢
      · cases h
      all_goals
        cases hw : writeExpr ⟨src, scope, .join⟩ (buildJoinCondition conds) with
        | error e => rw [hw] at h; cases h
        | ok c =>
          rw [hw] at h
          simp only [] at h
          refine weaken_len ?_ (splitOps_refines src scope rest source ds _ _ ?_ out h)
          · simp only [List.length_append, List.length_singleton]; omega
          · refine hrel.append (ListRel.single ⟨rfl, ?_, rfl, rfl, rfl⟩)
            simp only [eraseSrc, hw, bind, Except.bind, pure, Except.pure, Bool.false_eq_true, if_false, if_true]
            by_cases hge : (dst.length : Int) - 1 ≥ (ds : Int)
            · simp only [hge, if_true]
              cases he with
              | none => exact absurd rfl (hne hge)
              | some hab =>
                cases hg with
                | none => simp only [hab.name]
                | some hab' => simp only [hab.name, hab'.name]
            · simp only [hge, if_false]
              cases hg with
              | none => rfl
              | some hab' => simp only [hab'.name]
  | .cons (.render p kw c w lp props rp) rest, source, ds, dst, dstA, hd, out, h => by
    simp only [splitOps] at h
    simp only [splitOpsA]
    exact weaken_len (by simp only [List.length_append, List.length_singleton]; omega)
      (splitOps_refines src scope rest source ds _ _ (push_op_rel hd ds source (.render p kw c w lp props rp)) out h)
  | .cons (.where_ p kw e) rest, source, ds, dst, dstA, hd, out, h => by
    simp only [splitOps] at h
    simp only [splitOpsA]
    exact weaken_len (by simp only [List.length_append, List.length_singleton]; omega)
      (splitOps_refines src scope rest source ds _ _ (push_op_rel hd ds source (.where_ p kw e)) out h)
  | .cons (.project p kw cs) rest, source, ds, dst, dstA, hd, out, h => by
    simp only [splitOps] at h
    simp only [splitOpsA]
    exact weaken_len (by simp only [List.length_append, List.length_singleton]; omega)
      (splitOps_refines src scope rest source ds _ _ (push_op_rel hd ds source (.project p kw cs)) out h)
  | .cons (.extend p kw cs) rest, source, ds, dst, dstA, hd, out, h => by
    simp only [splitOps] at h
    simp only [splitOpsA]
    exact weaken_len (by simp only [List.length_append, List.length_singleton]; omega)
      (splitOps_refines src scope rest source ds _ _ (push_op_rel hd ds source (.extend p kw cs)) out h)
  | .cons (.summarize p kw cs b gs) rest, source, ds, dst, dstA, hd, out, h => by
    simp only [splitOps] at h
    simp only [splitOpsA]
    exact weaken_len (by simp only [List.length_append, List.length_singleton]; omega)
      (splitOps_refines src scope rest source ds _ _ (push_op_rel hd ds source (.summarize p kw cs b gs)) out h)
  | .cons (.take p kw n) rest, source, ds, dst, dstA, hd, out, h => by
    simp only [splitOps] at h
    simp only [splitOpsA]
    have hl := lastOf_rel hd ds
    revert h
    revert hl
    generalize lastOf dst ds = l
    generalize lastOfA dstA ds = lA
    intro hl h
    cases hl with
    | none =>
      simp only [] at h ⊢
      refine weaken_len (attach_len _ _ _ _) (splitOps_refines src scope rest source ds _ _ ?_ out h)
      exact setLast_rel (attach_dst_rel hd false ds source) fun a b hab => ⟨hab.name, hab.source, hab.op, hab.sort, rfl⟩
    | some hab =>
      simp only [attach2_eq hab] at h
      refine weaken_len (attach_len _ _ _ _) (splitOps_refines src scope rest source ds _ _ ?_ out h)
      exact setLast_rel (attach_dst_rel hd _ ds source) fun a b hab => ⟨hab.name, hab.source, hab.op, hab.sort, rfl⟩
  | .cons (.top p kw n by_ none) rest, source, ds, dst, dstA, hd, out, h => by
    simp only [splitOps] at h
    cases h
  | .cons (.top p kw n by_ (some c)) rest, source, ds, dst, dstA, hd, out, h => by
    simp only [splitOps] at h
    simp only [splitOpsA]
    have hl := lastOf_rel hd ds
    revert h
    revert hl
    generalize lastOf dst ds = l
    generalize lastOfA dstA ds = lA
    intro hl h
    cases hl with
    | none =>
      simp only [] at h ⊢
      refine weaken_len (attach_len _ _ _ _) (splitOps_refines src scope rest source ds _ _ ?_ out h)
      exact setLast_rel (attach_dst_rel hd false ds source) fun a b hab => ⟨hab.name, hab.source, hab.op, rfl, rfl⟩
    | some hab =>
      simp only [attach3_eq hab] at h
      refine weaken_len (attach_len _ _ _ _) (splitOps_refines src scope rest source ds _ _ ?_ out h)
      exact setLast_rel (attach_dst_rel hd _ ds source) fun a b hab => ⟨hab.name, hab.source, hab.op, rfl, rfl⟩
end

end

/-- stage 1, in `mapM` form: `splitQueries` is `splitA` followed by erasing the sources -/
theorem split_refines (src : Bytes) (scope : List (Bytes × List Chunk)) (t : Tabular) (dst : List Subquery)
    (dstA : List SubA) (hd : dstA.mapM (erase src scope) = .ok dst) (out : List Subquery)
    (h : splitQueries src scope dst t = .ok out) :
    ∃ outA, splitA dstA t = some outA ∧ outA.mapM (erase src scope) = .ok out := by
  obtain ⟨outA, h1, h2, _⟩ := splitQueries_refines src scope t dst dstA ((eraseAll_iff _ _).1 hd) out h
  exact ⟨outA, h1, (eraseAll_iff _ _).2 h2⟩

/-! ### non-vacuity -/

/-- `T | count | join kind=leftouter (U) on k | take 5` -/
def demoT : Tabular :=
  .mk (some ⟨Bytes.ofString "T", .zero, false⟩)
    (.cons (.count .zero .zero)
      (.cons (.join .zero .zero .zero .zero (some ⟨Bytes.ofString "leftouter", .zero, false⟩) .zero
          (.mk (some ⟨Bytes.ofString "U", .zero, false⟩) .nil) .zero .zero
          (.cons (.qident [⟨Bytes.ofString "k", .zero, false⟩]) .nil))
        (.cons (.take .zero .zero (.lit .zero .number (Bytes.ofString "5"))) .nil)))

/-- the hypotheses of `split_refines` hold on `demoT`: the splitter succeeds, with three links
    (`count`; the right side `U`; the join, to which `take` attaches) -/
theorem demo_ok : ∃ out, splitQueries [] [] [] demoT = .ok out ∧ out.length = 3 :=
  ⟨_, rfl, rfl⟩

example : ∃ out outA, splitQueries [] [] [] demoT = .ok out ∧ out.length = 3 ∧
    splitA [] demoT = some outA ∧ outA.mapM (erase [] []) = .ok out := by
  obtain ⟨out, h, hl⟩ := demo_ok
  obtain ⟨outA, h1, h2⟩ := split_refines [] [] demoT [] [] rfl out h
  exact ⟨out, outA, h, hl, h1, h2⟩

/-- the pointwise form, starting from a non-empty chain -/
example : ∃ out outA, splitQueries [] [] [{ name := Bytes.ofString "a", source := [.qid (Bytes.ofString "V")] }] demoT = .ok out ∧
    splitA [{ name := Bytes.ofString "a", source := .table (Bytes.ofString "V") }] demoT = some outA ∧
    ListRel (EraseRel [] []) outA out ∧ out.length = 4 := by
  have h : ∃ out, splitQueries [] [] [{ name := Bytes.ofString "a", source := [.qid (Bytes.ofString "V")] }] demoT = .ok out ∧
      out.length = 4 := ⟨_, rfl, rfl⟩
  obtain ⟨out, h, hl⟩ := h
  obtain ⟨outA, h1, h2, _⟩ := splitQueries_refines [] [] demoT _
    [{ name := Bytes.ofString "a", source := .table (Bytes.ofString "V") }] (.cons ⟨rfl, rfl, rfl, rfl, rfl⟩ .nil) out h
  exact ⟨out, outA, h, h1, h2, hl⟩


end Pql.C05
