/-
`splitAtSemis` against the tokens of `scanFrom`: the invariant that every semicolon
token is the single byte ';' of the source, and the join lemma built on it.
-/
import PqlModel.Lemmas.LexSemi
import PqlModel.Lemmas.LexReach
namespace Pql

theorem splitAtSemis_ne_nil (src : Bytes) (ts : List Token) (start : Nat) :
    splitAtSemis src ts start ≠ [] := by
  induction ts generalizing start with
  | nil => simp [splitAtSemis]
  | cons t ts ih => simp only [splitAtSemis]; split <;> simp [ih]

/-- Tokens start at or after `lo`, are non-empty and in order; every semicolon token is one
    byte wide and the byte of `src` under it is ';'. -/
def SemiInv (src : Bytes) : Nat → List Token → Prop
  | _, [] => True
  | lo, t :: ts =>
    lo ≤ t.start ∧ t.start < t.stop ∧
    (t.kind = .semi → t.stop = t.start + 1 ∧ src.drop t.start = 59 :: src.drop (t.start + 1)) ∧
    SemiInv src t.stop ts

theorem SemiInv.weaken {src : Bytes} {lo lo' : Nat} {ts : List Token} (h : SemiInv src lo ts)
    (hl : lo' ≤ lo) : SemiInv src lo' ts := by
  cases ts with
  | nil => trivial
  | cons t ts => exact ⟨Nat.le_trans hl h.1, h.2⟩

theorem scanFrom_semiInv (s : Bytes) (off : Nat) :
    ∀ pre : Bytes, off = pre.length → SemiInv (pre ++ s) off (scanFrom s off) := by
  fun_induction scanFrom s off with
  | case1 off => intro pre _; trivial
  | case2 off c rest st tl k v hk ih =>
    intro pre hoff
    have hpos : 1 ≤ st.width := scanOne_width_pos c rest
    have hle : st.width ≤ (c :: rest).length := scanOne_width_le (c :: rest)
    have ih' := ih (pre ++ (c :: rest).take st.width)
      (by simp only [List.length_append, List.length_take]; omega)
    rw [List.append_assoc, List.take_append_drop] at ih'
    refine ⟨Nat.le_refl _, by simp; omega, ?_, ih'⟩
    intro hsemi
    simp only at hsemi
    subst hsemi
    obtain ⟨hc, hw, _⟩ := scanOne_semi_width c rest v hk
    subst hc
    have hw' : st.width = 1 := hw
    refine ⟨by simp only; omega, ?_⟩
    subst hoff
    simp
  | case3 off c rest st tl hk ih =>
    intro pre hoff
    have hpos : 1 ≤ st.width := scanOne_width_pos c rest
    have hle : st.width ≤ (c :: rest).length := scanOne_width_le (c :: rest)
    have ih' := ih (pre ++ (c :: rest).take st.width)
      (by simp only [List.length_append, List.length_take]; omega)
    rw [List.append_assoc, List.take_append_drop] at ih'
    exact ih'.weaken (by omega)

theorem scan_semiInv (src : Bytes) : SemiInv src 0 (scan src) := by
  have := scanFrom_semiInv src 0 [] rfl
  simpa [scan] using this

/-- move a token `d` bytes to the right -/
def Token.shift (d : Nat) (t : Token) : Token := ⟨t.kind, t.start + d, t.stop + d, t.value⟩

@[simp] theorem Token.shift_kind (d : Nat) (t : Token) : (t.shift d).kind = t.kind := rfl

theorem Step.toks_shift (st : Step) (a b : Nat) :
    st.toks (a + b) = (st.toks a).map (Token.shift b) := by
  unfold Step.toks
  split <;> simp [Token.shift]; omega

/-- The offset argument of `scanFrom` only shifts the spans. -/
theorem scanFrom_shift (s : Bytes) (a b : Nat) :
    scanFrom s (a + b) = (scanFrom s a).map (Token.shift b) := by
  induction hn : s.length using Nat.strongRecOn generalizing s a with
  | _ n ih =>
    subst hn
    by_cases hs : s = []
    · subst hs; simp [scanFrom_nil]
    · have hpos := scanOne_width_pos' hs
      rw [scanFrom_step hs, scanFrom_step hs (off := a), List.map_append, Step.toks_shift]
      have : a + b + (scanOne s).width = a + (scanOne s).width + b := by omega
      rw [this, ih _ (by simp only [List.length_drop]; have := List.length_pos_iff.mpr hs; omega) _ _ rfl]

theorem scanFrom_eq_map_scan (s : Bytes) (off : Nat) :
    scanFrom s off = (scan s).map (Token.shift off) := by
  have := scanFrom_shift s 0 off
  simpa [scan] using this

/-- `splitAtSemis` commutes with moving the source and the tokens together. -/
theorem splitAtSemis_shift (pre s : Bytes) (ts : List Token) (k : Nat) :
    splitAtSemis (pre ++ s) (ts.map (Token.shift pre.length)) (pre.length + k) =
      splitAtSemis s ts k := by
  induction ts generalizing k with
  | nil => simp [splitAtSemis, List.drop_append]
  | cons t ts ih =>
    simp only [List.map_cons, splitAtSemis, Token.shift_kind]
    by_cases hk : t.kind = .semi
    · simp only [hk, if_true]
      have := ih t.stop
      rw [Nat.add_comm] at this
      simp only [Token.shift]
      rw [this]
      congr 1
      have h1 : t.start + pre.length - (pre.length + k) = t.start - k := by omega
      rw [h1]
      congr 1
      simp [List.drop_append]
    · simp only [hk, if_false]
      exact ih k

theorem splitAtSemis_append_nosemi (src : Bytes) (as bs : List Token) (k : Nat)
    (h : ∀ t ∈ as, t.kind ≠ .semi) :
    splitAtSemis src (as ++ bs) k = splitAtSemis src bs k := by
  induction as with
  | nil => rfl
  | cons t as ih =>
    simp only [List.cons_append, splitAtSemis]
    rw [if_neg (h t (by simp))]
    exact ih (fun t' ht' => h t' (by simp [ht']))

theorem splitAtSemis_nosemi (src : Bytes) (ts : List Token) (k : Nat)
    (h : ∀ t ∈ ts, t.kind ≠ .semi) : splitAtSemis src ts k = [src.drop k] := by
  have := splitAtSemis_append_nosemi src ts [] k h
  simpa [splitAtSemis] using this

theorem splitStatements_nosemi (s : Bytes) (h : ∀ t ∈ scan s, t.kind ≠ .semi) :
    splitStatements s = [s] := by
  simp [splitStatements, splitAtSemis_nosemi s (scan s) 0 h]

theorem splitStatements_semi (u v : Bytes) (hr : Reaches (u ++ 59 :: v) u.length)
    (h : ∀ t ∈ scan u, t.kind ≠ .semi) :
    splitStatements (u ++ 59 :: v) = u :: splitStatements v := by
  unfold splitStatements
  have hs : scan (u ++ 59 :: v) = scan u ++ ⟨.semi, u.length, u.length + 1, []⟩ ::
      scanFrom v (u.length + 1) := by
    have := scanFrom_semi_split u v 0 hr
    simpa [scan] using this
  rw [hs, splitAtSemis_append_nosemi _ _ _ _ h]
  simp only [splitAtSemis, if_true, List.drop_zero, Nat.sub_zero]
  congr 1
  · simp
  · rw [scanFrom_eq_map_scan v (u.length + 1)]
    have := splitAtSemis_shift (u ++ [59]) v (scan v) 0
    simp only [List.length_append, List.length_cons, List.length_nil, Nat.add_zero,
      List.append_assoc, List.cons_append, List.nil_append] at this
    exact this

/-- **Recursive description of `SplitStatements`.** Either the scan has no semicolon token and
    the source is the only piece, or the source is `u ++ ';' :: v` with the ';' on a step
    boundary, `u` scans without semicolon tokens, `u` is the first piece and the rest are the
    pieces of `v`. -/
theorem splitStatements_cases (s : Bytes) :
    ((∀ t ∈ scan s, t.kind ≠ .semi) ∧ splitStatements s = [s]) ∨
    ∃ u v, s = u ++ 59 :: v ∧ Reaches s u.length ∧ (∀ t ∈ scan u, t.kind ≠ .semi) ∧
      splitStatements s = u :: splitStatements v := by
  by_cases h : ∃ t ∈ scanFrom s 0, t.kind = .semi
  · obtain ⟨u, v, h1, h2, h3⟩ := exists_first_semi s 0 h
    right
    refine ⟨u, v, h1, h2, h3, ?_⟩
    subst h1
    exact splitStatements_semi u v h2 h3
  · left
    have h' : ∀ t ∈ scan s, t.kind ≠ .semi := fun t ht hk => h ⟨t, ht, hk⟩
    exact ⟨h', splitStatements_nosemi s h'⟩


/-- Every token of a scan is non-empty and lies inside the scanned text. -/
theorem mem_scanFrom_bounds (s : Bytes) (off : Nat) (t : Token) (h : t ∈ scanFrom s off) :
    off ≤ t.start ∧ t.start < t.stop ∧ t.stop ≤ off + s.length := by
  obtain ⟨n, h1, _, h3, _, h5⟩ := reaches_of_mem s off t h
  have hle := scanOne_width_le (s.drop n)
  have hne : s.drop n ≠ [] := by
    intro h0
    have := congrArg List.length h0
    simp at this; omega
  have hpos := scanOne_width_pos' hne
  simp only [List.length_drop] at hle
  omega

theorem mem_scan_bounds (s : Bytes) (t : Token) (h : t ∈ scan s) :
    t.start < t.stop ∧ t.stop ≤ s.length := by
  have := mem_scanFrom_bounds s 0 t h
  omega

@[simp] theorem Token.shift_zero (t : Token) : t.shift 0 = t := rfl

theorem Token.shift_shift (a b : Nat) (t : Token) : (t.shift a).shift b = t.shift (a + b) := by
  simp [Token.shift, Nat.add_assoc]

@[simp] theorem Token.shift_start (d : Nat) (t : Token) : (t.shift d).start = t.start + d := rfl
@[simp] theorem Token.shift_stop (d : Nat) (t : Token) : (t.shift d).stop = t.stop + d := rfl

/-- the scan of `u ++ ';' :: v` at a step boundary, in terms of `scan u` and `scan v` -/
theorem scan_semi_split (u v : Bytes) (hr : Reaches (u ++ 59 :: v) u.length) :
    scan (u ++ 59 :: v) = scan u ++ ⟨.semi, u.length, u.length + 1, []⟩ ::
      (scan v).map (Token.shift (u.length + 1)) := by
  have := scanFrom_semi_split u v 0 hr
  rw [scanFrom_eq_map_scan v] at this
  simpa [scan] using this

end Pql
