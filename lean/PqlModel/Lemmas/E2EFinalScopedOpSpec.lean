/-
Programs with lets, part 4 (Lemmas/ParseStmtOpSpec.lean under a let-built scope): `op_spec_s` — the body
`bodyOf` writes under the scope for every operator a link can carry is read back as `bodyA` prescribes
for the RESOLVED operator (`substOp env`).
-/
import PqlModel.Lemmas.E2EFinalScopedOps
import PqlModel.Lemmas.ParseStmtOpSpec
namespace Pql.E2EFinal
set_option linter.unusedSimpArgs false
set_option linter.unusedVariables false
open Pql Sql CompileOracle Intended Pql.RT Pql.C05 Pql.C06

section
variable {src : Bytes} {scope : Scope} {env : List (Bytes × Expr)} (hsc : ScopeLetsEnv src scope env)
  (hjs : envJoinSafe env = true)
include hsc hjs

theorem op_spec_s (op : Option Op) (hn : optColsNamed op) (hok : opOK (op.map (substOp env)) = true)
    (source : List Chunk) (b : Option (List Chunk))
    (hb : bodyOf ⟨src, scope, .default⟩ op source = .ok b) :
    ∃ body, b = some body ∧ OpSpec src (op.map (substOp env)) source body := by
  have plain : ∀ o : Option Op, bodyOf ⟨src, scope, .default⟩ o source = .ok (some (.txt "SELECT * FROM " :: source)) →
      (∀ s j, bodyA src (o.map (substOp env)) (baseSel s j) = some (baseSel s j)) →
      bodyOf ⟨src, scope, .default⟩ o source = .ok b → ∃ body, b = some body ∧ OpSpec src (o.map (substOp env)) source body := by
    intro o h1 h2 h3
    rw [h1] at h3
    simp only [Except.ok.injEq] at h3
    subst h3
    refine ⟨_, rfl, [[S "*"]], [], [starItem], none, [], by simp [sepToks], .cons itemP_star .nil, by simp, midP_nil, ?_⟩
    intro s j
    rw [h2]
    rfl
  rcases op with _ | o
  · exact plain none rfl (fun _ _ => rfl) hb
  cases o with
  | as_ p k n => exact plain _ rfl (fun _ _ => rfl) hb
  | sort => simp [opOK, substOp] at hok
  | take => simp [opOK, substOp] at hok
  | top => simp [opOK, substOp] at hok
  | join => simp [opOK, substOp] at hok
  | where_ p k pred =>
    simp only [Option.map_some, substOp, opOK] at hok
    simp only [bodyOf] at hb
    cases hp : writeExpr ⟨src, scope, .default⟩ pred with
    | error e => rw [hp] at hb; cases hb
    | ok pc =>
      rw [hp] at hb
      simp only [bind, Except.bind, pure, Except.pure, Except.ok.injEq] at hb
      subst hb
      obtain ⟨want, ht, hP⟩ := exprP_default_s hsc hjs hok hp
      refine ⟨_, rfl, [[S "*"]], RT.W "WHERE" :: toksOf pc, [starItem], some want, [], by simp [sepToks],
        .cons itemP_star .nil, by simp, midP_where hP, ?_⟩
      intro s j
      simp only [Option.map_some, substOp, bodyA, ht, Option.bind_eq_bind, Option.bind_some, Option.pure_def]
      rfl
  | count p k =>
    simp only [bodyOf, pure, Except.pure, Except.ok.injEq] at hb
    subst hb
    refine ⟨_, rfl, [[RT.W "COUNT", S "(", S "*", S ")", RT.W "AS", .qid (Bytes.ofString "count()")]], [], _, none, [],
      by simp [sepToks], .cons ?_ .nil, by simp, midP_nil, fun s j => rfl⟩
    exact itemP_alias countStarP.toExpr up_AS (Bytes.ofString "count()")
  | project p k cols =>
    simp only [Option.map_some, substOp, opOK, Bool.and_eq_true, Bool.not_eq_true', List.isEmpty_eq_false_iff] at hok
    have hb' : (do let cs ← cols.mapM (projCol ⟨src, scope, .default⟩)
                   pure (some (Chunk.txt "SELECT " :: sepChunks ", " cs ++ .txt " FROM " :: source)) :
                Except WErr (Option (List Chunk))) = .ok b := hb
    cases hcs : cols.mapM (projCol ⟨src, scope, .default⟩) with
    | error e => rw [hcs] at hb'; cases hb'
    | ok cs =>
      rw [hcs] at hb'
      simp only [bind, Except.bind, pure, Except.pure, Except.ok.injEq] at hb'
      subst hb'
      obtain ⟨witems, hw, hrel⟩ := projCols_spec_s hsc hjs cols cs hok.2 hcs
      have hne : cs.map toksOf ≠ [] := ne_nil_of_rel hrel (by
        intro he
        have := mapM_length hw
        rw [he] at this
        exact hok.1 (List.length_eq_zero_iff.1 this.symm))
      refine ⟨_, rfl, cs.map toksOf, [], witems, none, [], by simp [C05.toksOf_sepChunks], hrel, hne, midP_nil, ?_⟩
      intro s j
      simp only [Option.map_some, substOp, bodyA, hw, Option.bind_eq_bind, Option.bind_some, Option.pure_def]
      rfl
  | extend p k cols =>
    simp only [Option.map_some, substOp, opOK] at hok
    simp only [bodyOf] at hb
    cases hcs : writeColumns ⟨src, scope, .default⟩ cols with
    | error e => rw [hcs] at hb; cases hb
    | ok cs =>
      rw [hcs] at hb
      simp only [bind, Except.bind, pure, Except.pure, Except.ok.injEq] at hb
      subst hb
      obtain ⟨witems, hw, hrel⟩ := writeColumns_spec_s hsc hjs cols hn cs hok hcs
      refine ⟨_, rfl, [S "*"] :: cs.map toksOf, [], starItem :: witems, none, [],
        by simp [toksOf_commaFlat, sepToks_cons], .cons itemP_star hrel, by simp, midP_nil, ?_⟩
      intro s j
      simp only [Option.map_some, substOp, bodyA, hw, Option.bind_eq_bind, Option.bind_some, Option.pure_def]
      rfl
  | summarize p k cols byS groupBy =>
    simp only [Option.map_some, substOp, opOK, Bool.and_eq_true, Bool.not_eq_true', List.isEmpty_eq_false_iff] at hok
    simp only [bodyOf] at hb
    cases hgs : writeColumns ⟨src, scope, .default⟩ groupBy with
    | error e => rw [hgs] at hb; cases hb
    | ok gs =>
    cases hcs : writeColumns ⟨src, scope, .default⟩ cols with
    | error e => rw [hgs, hcs] at hb; cases hb
    | ok cs =>
    cases hgb : groupBy.mapM (fun c : Column => writeExpr ⟨src, scope, .default⟩ c.x) with
    | error e => rw [hgs, hcs, hgb] at hb; cases hb
    | ok gb =>
      rw [hgs, hcs, hgb] at hb
      simp only [bind, Except.bind, pure, Except.pure, Except.ok.injEq] at hb
      subst hb
      obtain ⟨wgs, hwgs, hrg⟩ := writeColumns_spec_s hsc hjs groupBy hn.2 gs hok.2 hgs
      obtain ⟨wcs, hwcs, hrc⟩ := writeColumns_spec_s hsc hjs cols hn.1 cs hok.1.2 hcs
      obtain ⟨wgb, hwgb, hrb⟩ := groupExprs_spec_s hsc hjs groupBy hn.2 gb hok.2 hgb
      have hrel : ListRel ItemP ((gs ++ cs).map toksOf) (wgs ++ wcs) := by
        rw [List.map_append]; exact hrg.append hrc
      have hne : (gs ++ cs).map toksOf ≠ [] := ne_nil_of_rel hrel (by
        intro he
        have h1 := mapM_length hwgs
        have h2 := mapM_length hwcs
        have : (wgs ++ wcs).length = 0 := by rw [he]; rfl
        rw [List.length_append, h1, h2, ← List.length_append] at this
        exact hok.1.1 (List.length_eq_zero_iff.1 this))
      have hbody : ∀ s j, bodyA src (Option.map (substOp env) (some (.summarize p k cols byS groupBy))) (baseSel s j) =
          some { baseSel s j with items := wgs ++ wcs, where_ := none, groupBy := wgb } := by
        intro s j
        simp only [Option.map_some, substOp, bodyA, hwgs, hwcs, hwgb, Option.bind_eq_bind, Option.bind_some, Option.pure_def]
        rfl
      cases hE : groupBy with
      | nil =>
        subst hE
        simp only [List.mapM_nil, pure, Except.pure, Except.ok.injEq] at hgb
        subst hgb
        simp only [List.map_nil, List.mapM_nil, Option.pure_def, Option.some.injEq] at hwgb
        subst hwgb
        exact ⟨_, rfl, (gs ++ cs).map toksOf, [], wgs ++ wcs, none, [], by simp [C05.toksOf_sepChunks], hrel, hne,
          midP_nil, hbody⟩
      | cons g gs' =>
        rw [hE] at hwgb
        have hgne : gb.map toksOf ≠ [] := ne_nil_of_rel hrb (by
          intro he
          have := mapM_length hwgb
          rw [he] at this
          simp at this)
        refine ⟨_, rfl, (gs ++ cs).map toksOf, RT.W "GROUP" :: RT.W "BY" :: sepToks (gb.map toksOf), wgs ++ wcs, none, wgb,
          by simp [C05.toksOf_sepChunks], hrel, hne, midP_group hrb hgne, ?_⟩
        rw [← hE]
        exact hbody
  | render p k chart w lp props rp =>
    simp only [bodyOf, pure, Except.pure, Except.ok.injEq] at hb
    subst hb
    refine ⟨_, rfl, [S "*"] :: [.str (identName chart), RT.W "as", .qid (Bytes.ofString "render_type")] ::
        props.map (fun pr => [STok.str (renderPropValue pr.value), RT.W "as",
          .qid (Bytes.ofString "render_prop_" ++ identName pr.name)]), [], _, none, [],
      ?_, .cons itemP_star (.cons ?_ ?_), by simp, midP_nil, fun s j => rfl⟩
    · simp only [sepToks_cons, List.flatMap_cons]
      have : ∀ ps : List RenderProp, toksOf (ps.flatMap fun pr =>
            [.txt ",\n    ", .qstr (renderPropValue pr.value), .txt " as ",
             .qid (Bytes.ofString "render_prop_" ++ identName pr.name)]) =
          (ps.map fun pr => [STok.str (renderPropValue pr.value), RT.W "as",
            .qid (Bytes.ofString "render_prop_" ++ identName pr.name)]).flatMap fun y => S "," :: y := by
        intro ps
        induction ps with
        | nil => rfl
        | cons pr ps ih => simp [ih]
      simp [this]
    · exact itemP_alias (E := [.str (identName chart)]) (strP _).toExpr up_as (Bytes.ofString "render_type")
    · clear hok plain hn
      induction props with
      | nil => exact .nil
      | cons pr ps ih =>
        exact .cons (itemP_alias (E := [.str (renderPropValue pr.value)]) (strP _).toExpr up_as _) ih



end

end Pql.E2EFinal
