/-
No step of the scanner runs past a newline byte: a step that starts at or before a byte 10
ends at the latest just behind it.  Hence there is a step boundary behind every newline.
One lemma per sub-scanner.
-/
import PqlModel.Lemmas.LexReach
namespace Pql

theorem isIdentCont_nl : isIdentCont 10 = false := by decide
theorem isDigit_nl : isDigit 10 = false := by decide
theorem isHexDigit_nl : isHexDigit 10 = false := by decide
theorem isCont_nl : isCont 10 = false := by decide

theorem identLoop_nl (x y : Bytes) : identLoop (x ++ 10 :: y) ≤ x.length := by
  induction x with
  | nil => simp [identLoop, isIdentCont_nl]
  | cons c x ih =>
    simp only [List.cons_append, identLoop, List.length_cons]
    split
    · omega
    · omega

theorem digitsLen_nl (x y : Bytes) : digitsLen (x ++ 10 :: y) ≤ x.length := by
  induction x with
  | nil => simp [digitsLen, isDigit_nl]
  | cons c x ih =>
    simp only [List.cons_append, digitsLen, List.length_cons]
    split
    · omega
    · omega

theorem hexDigitsLen_nl (x y : Bytes) : hexDigitsLen (x ++ 10 :: y) ≤ x.length := by
  induction x with
  | nil => simp [hexDigitsLen, isHexDigit_nl]
  | cons c x ih =>
    simp only [List.cons_append, hexDigitsLen, List.length_cons]
    split
    · omega
    · omega

theorem mantissaLoop_nl (b : Bool) (x y : Bytes) : mantissaLoop b (x ++ 10 :: y) ≤ x.length := by
  induction x generalizing b with
  | nil => simp [mantissaLoop, isDigit_nl]
  | cons c x ih =>
    simp only [List.cons_append, mantissaLoop, List.length_cons]
    split
    · have := ih true; omega
    · split
      · have := ih b; omega
      · omega

theorem commentLen_nl (x y : Bytes) : commentLen (x ++ 10 :: y) ≤ x.length + 1 := by
  induction x with
  | nil => simp [commentLen]
  | cons c x ih =>
    simp only [List.cons_append, commentLen, List.length_cons]
    split
    · omega
    · omega

theorem exponentLen_nl (x y : Bytes) : exponentLen (x ++ 10 :: y) ≤ x.length := by
  match x with
  | [] =>
    cases y with
    | nil => simp [exponentLen]
    | cons c y => simp [exponentLen]
  | [e] =>
    simp only [List.cons_append, List.nil_append, exponentLen, List.length_cons, List.length_nil]
    have : isDigit 10 = false := isDigit_nl
    repeat' split
    all_goals simp_all
  | [e, c] =>
    simp only [List.cons_append, List.nil_append, exponentLen, List.length_cons, List.length_nil]
    have h0 := digitsLen_nl [] y
    have : isDigit 10 = false := isDigit_nl
    repeat' split
    all_goals simp_all
  | e :: c :: d :: x =>
    simp only [List.cons_append, exponentLen, List.length_cons]
    have h1 := digitsLen_nl x y
    have h2 := digitsLen_nl (d :: x) y
    simp only [List.cons_append, List.length_cons] at h2
    repeat' split
    all_goals simp_all
    all_goals omega

theorem qidentLoop_nl (x y : Bytes) : (qidentLoop (x ++ 10 :: y)).width ≤ x.length := by
  fun_induction qidentLoop x with
  | case1 => simp [qidentLoop_cons]
  | case2 c hc =>
    simp [qidentLoop_cons, hc]
  | case3 c hc d rest' hd ih =>
    simp only [List.cons_append, List.length_cons, qidentLoop, hc, hd, if_true,
      QRes.width_shift]
    omega
  | case4 c hc d rest' hd =>
    simp [qidentLoop, hc, hd]
  | case5 c rest hc hc' =>
    simp [qidentLoop_cons, hc, hc']
  | case6 c rest hc hc' ih =>
    simp only [List.cons_append, List.length_cons, qidentLoop_cons, hc, hc', Bool.false_eq_true,
      ↓reduceIte, QRes.width_shift]
    omega

theorem stringLoop_nl (q : UInt8) (hq : q ≠ 10) (x y : Bytes) :
    (stringLoop q (x ++ 10 :: y)).width ≤ x.length := by
  fun_induction stringLoop q x with
  | case1 =>
    have : (10 == q) = false := by simpa using fun h => hq h.symm
    simp [stringLoop_cons, this]
  | case2 c rest hc => simp [stringLoop_cons, hc]
  | case3 c rest hc hc' => simp [stringLoop_cons, hc, hc']
  | case4 c hc hc' hc'' =>
    simp [stringLoop_cons, hc, hc', hc'']
  | case5 c hc hc' hc'' e rest' he => simp [stringLoop_cons, hc, hc', hc'', he]
  | case6 c hc hc' hc'' e rest' he v ih =>
    simp only [List.cons_append, List.length_cons, stringLoop_cons, hc, hc', hc'', he,
      Bool.false_eq_true, ↓reduceIte, QRes.width_shift]
    omega
  | case7 c rest hc hc' hc'' ih =>
    simp only [List.cons_append, List.length_cons, stringLoop_cons, hc, hc', hc'',
      Bool.false_eq_true, ↓reduceIte, QRes.width_shift]
    omega

theorem drop_append_cons_of_le (x : Bytes) (c : UInt8) (y : Bytes) (n : Nat) (h : n ≤ x.length) :
    (x ++ c :: y).drop n = x.drop n ++ c :: y :=
  drop_append_of_le x (c :: y) n h

theorem finishNumber_nl (x y : Bytes) (k : Nat) (b : Bool) (hk : k ≤ x.length) :
    (finishNumber (x ++ 10 :: y) k b).width ≤ x.length := by
  simp only [finishNumber]
  rw [drop_append_cons_of_le x 10 y k hk]
  have hm := mantissaLoop_nl b (x.drop k) y
  simp only [List.length_drop] at hm
  rw [drop_append_cons_of_le x 10 y _ (by omega)]
  have he := exponentLen_nl (x.drop (k + mantissaLoop b (x.drop k ++ 10 :: y))) y
  simp only [List.length_drop] at he
  omega

/-- a number or dot never contains a newline -/
theorem scanNumberOrDot_nl (c : UInt8) (x y : Bytes) :
    (scanNumberOrDot (c :: x ++ 10 :: y)).width ≤ x.length + 1 := by
  have hf : ∀ k b, k ≤ x.length + 1 →
      (finishNumber (c :: x ++ 10 :: y) k b).width ≤ x.length + 1 := by
    intro k b hk
    exact finishNumber_nl (c :: x) y k b (by simpa using hk)
  cases x with
  | nil =>
    have hf1 := hf 1 false (by simp)
    simp only [List.cons_append, List.nil_append, List.length_nil] at hf1 ⊢
    unfold scanNumberOrDot
    simp only
    have : isDigit 10 = false := isDigit_nl
    repeat' split
    all_goals simp_all
  | cons c2 x =>
    have hf1 := hf 1 false (by simp)
    have hf2 := hf 2 false (by simp)
    have hf2t := hf 2 true (by simp)
    have he := exponentLen_nl (c2 :: x) y
    have hx := hexDigitsLen_nl x y
    simp only [List.cons_append, List.length_cons] at hf1 hf2 hf2t he ⊢
    unfold scanNumberOrDot
    simp only
    repeat' split
    all_goals simp_all
    all_goals omega

theorem secondLo_ge (n : Nat) : 0x80 ≤ secondLo n := by
  unfold secondLo; repeat' split
  all_goals omega

theorem decodeMulti_nl (n0 : Nat) (x y : Bytes) (r w : Nat)
    (h : decodeMulti n0 (x ++ 10 :: y) = some (r, w)) : w ≤ x.length + 1 := by
  have hc : isCont 10 = false := isCont_nl
  have hlo := secondLo_ge n0
  have h10 : (10 : UInt8).toNat = 10 := rfl
  match x with
  | [] =>
    exfalso
    cases y with
    | nil => simp [decodeMulti] at h; repeat' split at h
             all_goals simp_all
    | cons b2 y =>
      cases y with
      | nil =>
        simp [decodeMulti] at h; repeat' split at h
        all_goals simp_all
        all_goals omega
      | cons b3 y =>
        simp [decodeMulti] at h; repeat' split at h
        all_goals simp_all
        all_goals omega
  | [b1] =>
    unfold decodeMulti at h
    simp only [List.cons_append, List.nil_append] at h
    repeat' split at h
    all_goals simp_all
    all_goals omega
  | [b1, b2] =>
    unfold decodeMulti at h
    simp only [List.cons_append, List.nil_append] at h
    repeat' split at h
    all_goals simp_all
    all_goals omega
  | b1 :: b2 :: b3 :: x =>
    unfold decodeMulti at h
    simp only [List.cons_append] at h
    repeat' split at h
    all_goals simp_all
    all_goals omega

theorem decodeRune_nl (c : UInt8) (x y : Bytes) :
    (decodeRune (c :: x ++ 10 :: y)).2 ≤ x.length + 1 := by
  simp only [List.cons_append, decodeRune_cons]
  split
  · simp
  · cases hm : decodeMulti c.toNat (x ++ 10 :: y) with
    | none => simp
    | some rw =>
      obtain ⟨r, w⟩ := rw
      exact decodeMulti_nl _ x y r w hm

theorem scanNonAscii_nl (c : UInt8) (x y : Bytes) :
    (scanNonAscii (c :: x ++ 10 :: y)).width ≤ x.length + 1 := by
  unfold scanNonAscii
  have := decodeRune_nl c x y
  simp only [Step.skip, Step.sym]
  split <;> simpa

theorem scanPunct_width_cases (c : UInt8) (rest : Bytes) :
    (scanPunct c rest).width ≤ 2 ∨
      (c = 47 ∧ rest.head? = some 47 ∧ (scanPunct c rest).width = commentLen rest.tail + 2) := by
  unfold scanPunct
  simp only [Step.skip, Step.sym]
  cases rest with
  | nil =>
    repeat' split
    all_goals simp_all
  | cons d rest' =>
    simp only [List.tail_cons, List.head?_cons]
    by_cases h61 : d = 61 <;> by_cases h126 : d = 126 <;> by_cases h47 : d = 47
    all_goals repeat' split
    all_goals simp_all

/-- punctuation and comments: at most up to and including the newline -/
theorem scanPunct_nl (c : UInt8) (x y : Bytes) :
    (scanPunct c (x ++ 10 :: y)).width ≤ x.length + 2 := by
  rcases scanPunct_width_cases c (x ++ 10 :: y) with h | ⟨_, h1, h2⟩
  · omega
  · cases x with
    | nil => simp at h1
    | cons d x =>
      have hcl := commentLen_nl x y
      simp only [List.cons_append, List.tail_cons, List.length_cons] at h2 ⊢
      omega

/-- **No step runs past a newline.** A step that starts at or before a byte 10 ends at the
    latest just behind it. -/
theorem scanOne_nl (x y : Bytes) : (scanOne (x ++ 10 :: y)).width ≤ x.length + 1 := by
  cases x with
  | nil => simp [scanOne, isAsciiSpace, Step.skip]
  | cons c x =>
    simp only [List.cons_append, List.length_cons]
    unfold scanOne
    simp only [Step.ofLexeme, Step.skip]
    split
    · have := scanNonAscii_nl c x y; simp only [List.cons_append] at this; omega
    · split
      · simp
      · split
        · have := identLoop_nl x y
          simp only [scanIdent, List.tail_cons]
          split <;> simp <;> omega
        · split
          · have := scanNumberOrDot_nl c x y; simp only [List.cons_append] at this
            simp only []; omega
          · split
            · rename_i _ _ _ hq
              have hq' : c ≠ 10 := by
                intro h0; subst h0; simp at hq
              have := stringLoop_nl c hq' x y
              simp only [scanString]
              split <;> simp_all <;> omega
            · split
              · have := qidentLoop_nl x y
                simp only [scanQuotedIdent, List.tail_cons]
                split <;> simp_all <;> omega
              · have := scanPunct_nl c x y; omega

/-- **Newline boundary.** Behind every newline byte there is a step boundary of the scanner. -/
theorem reaches_after_newline (a b : Bytes) : Reaches ((a ++ [10]) ++ b) (a.length + 1) := by
  induction hn : a.length using Nat.strongRecOn generalizing a with
  | _ n ih =>
    subst hn
    have hs : (a ++ [10]) ++ b = a ++ 10 :: b := by simp
    rw [hs]
    have hne : a ++ 10 :: b ≠ [] := by simp
    have hpos := scanOne_width_pos' hne
    have hle := scanOne_nl a b
    by_cases hw : (scanOne (a ++ 10 :: b)).width = a.length + 1
    · have := Reaches.step (a ++ 10 :: b) 0 hne (Reaches.here _)
      rwa [hw] at this
    · have hw' : (scanOne (a ++ 10 :: b)).width ≤ a.length := by omega
      have h1 := ih (a.drop (scanOne (a ++ 10 :: b)).width).length
        (by simp only [List.length_drop]; omega) (a.drop (scanOne (a ++ 10 :: b)).width) rfl
      have hd : (a ++ 10 :: b).drop (scanOne (a ++ 10 :: b)).width =
          (a.drop (scanOne (a ++ 10 :: b)).width ++ [10]) ++ b := by
        rw [drop_append_cons_of_le a 10 b _ hw']; simp
      rw [← hd] at h1
      have := Reaches.step (a ++ 10 :: b) _ hne h1
      simp only [List.length_drop] at this
      have he : (scanOne (a ++ 10 :: b)).width + (a.length - (scanOne (a ++ 10 :: b)).width + 1) =
          a.length + 1 := by omega
      rwa [he] at this

end Pql
