/-
LexRender, part 5: atoms.  Every piece of text the writer emits is a sequence of *atoms* —
white space, words, one- and two-character symbols, quoted names and strings, numbers, block
comments — each read by exactly one iteration of the SQL lexer.  `AdjBefore rest as` says that
every atom is well formed and is not directly followed by a byte that would change its reading
(a second `-`, a `*` after `/`, the second half of a two-character symbol, a word byte after a
word, a digit / `.` / word byte after a number, the same quote after a quoted token);
`lexAux_atoms` is the compositional lexing lemma at this level.
-/
import PqlModel.Lemmas.LexRenderOK
namespace Pql.LexRender
open Pql Sql

inductive Atom
  | sp (c : UInt8)
  | word (w : Bytes)
  | sym1 (c : UInt8)
  | sym2 (c d : UInt8)
  | qid (n : Bytes)
  | str (v : Bytes)
  | num (v : Bytes)
  | cmt (body : Bytes)
  deriving DecidableEq, Repr

def Atom.bytes : Atom → Bytes
  | .sp c => [c]
  | .word w => w
  | .sym1 c => [c]
  | .sym2 c d => [c, d]
  | .qid n => quoteIdentifier n
  | .str v => quoteSQLString v
  | .num v => v
  | .cmt b => 47 :: 42 :: (b ++ [42, 47])

def sym1Name (c : UInt8) : String := ((oneCharSyms.find? (fun o => o.1 == c)).map (·.2)).getD ""
def sym2Name (c d : UInt8) : String :=
  ((twoCharSyms.find? (fun o => o.1 == c && o.2.1 == d)).map (·.2.2)).getD ""

/-- the tokens of an atom as `lexAux` emits them (comments included) -/
def Atom.toks : Atom → List STok
  | .sp _ => []
  | .word w => [.word w]
  | .sym1 c => [.sym (sym1Name c)]
  | .sym2 c d => [.sym (sym2Name c d)]
  | .qid n => [.qid n]
  | .str v => [.str v]
  | .num v => [.num v]
  | .cmt _ => [.comment]

def wordOK : Bytes → Bool
  | [] => false
  | c :: w => isWordStart c && w.all isWordCont

def Atom.wf : Atom → Bool
  | .sp c => isSpaceB c
  | .word w => wordOK w
  | .sym1 c => (oneCharSyms.find? (fun o => o.1 == c)).isSome
  | .sym2 c d => (twoCharSyms.find? (fun o => o.1 == c && o.2.1 == d)).isSome
  | .qid _ => true
  | .str _ => true
  | .num v => numOK v
  | .cmt b => skipBlockComment (b ++ [42, 47]) == some []

/-- the bytes that must not directly follow the atom -/
def Atom.bad : Atom → UInt8 → Bool
  | .sp _, _ => false
  | .word _, d => isWordCont d
  | .sym1 c, d => sym1Bad c d
  | .sym2 _ _, _ => false
  | .qid _, d => d == 34
  | .str _, d => d == 39
  | .num _, d => numBad d
  | .cmt _, _ => false

/-- the atom may be followed by text starting like this (`none`: end of input) -/
def follows (a : Atom) : Option UInt8 → Bool
  | none => true
  | some d => !a.bad d

def renderAtoms (as : List Atom) : Bytes := as.flatMap Atom.bytes
def rawToks (as : List Atom) : List STok := as.flatMap Atom.toks

/-- adjacency: every atom is well formed and safely followed, the last one by `rest` -/
def AdjBefore (rest : Bytes) : List Atom → Bool
  | [] => true
  | a :: r => a.wf && follows a (renderAtoms r ++ rest).head? && AdjBefore rest r

theorem follows_elim {a : Atom} {h : Option UInt8} (hf : follows a h = true) :
    ∀ d, h = some d → a.bad d = false := by
  intro d hd; subst hd
  simpa [follows] using hf

theorem wordOK_elim {w : Bytes} (h : wordOK w = true) :
    ∃ c w', w = c :: w' ∧ isWordStart c = true ∧ ∀ b ∈ w', isWordCont b = true := by
  cases w with
  | nil => simp [wordOK] at h
  | cons c w' =>
    simp only [wordOK, Bool.and_eq_true, List.all_eq_true] at h
    exact ⟨c, w', rfl, h.1, h.2⟩

theorem nameOK_wordOK {v : Bytes} (h : nameOK v = true) : wordOK v = true := by
  obtain ⟨c, w, rfl, hc, hw⟩ := nameOK_scan v h
  simp only [wordOK, Bool.and_eq_true, List.all_eq_true]
  exact ⟨hc, hw⟩

/-- **one atom, one lexer iteration** -/
theorem lexAux_atom (a : Atom) (f : Nat) (rest : Bytes) (hwf : a.wf = true)
    (hf : follows a rest.head? = true) :
    lexAux .standard (f + 1) (a.bytes ++ rest) = (lexAux .standard f rest).map (a.toks ++ ·) := by
  have hbad := follows_elim hf
  cases a with
  | sp c =>
    simp only [Atom.bytes, List.cons_append, List.nil_append, Atom.toks]
    rw [lexAux_step, lexStep_space _ _ _ hwf]; rfl
  | word w =>
    obtain ⟨c, w', rfl, hc, hw⟩ := wordOK_elim hwf
    simp only [Atom.bytes, List.cons_append, Atom.toks]
    rw [lexAux_step, lexStep_word _ c w' rest hc hw hbad]; rfl
  | sym1 c =>
    simp only [Atom.wf] at hwf
    obtain ⟨o, hk⟩ := Option.isSome_iff_exists.mp hwf
    simp only [Atom.bytes, List.cons_append, List.nil_append, Atom.toks, sym1Name, hk, Option.map_some,
      Option.getD_some]
    rw [lexAux_step, lexStep_sym1 _ c o rest hk hbad]; rfl
  | sym2 c d =>
    simp only [Atom.wf] at hwf
    obtain ⟨o, hk⟩ := Option.isSome_iff_exists.mp hwf
    simp only [Atom.bytes, List.cons_append, List.nil_append, Atom.toks, sym2Name, hk, Option.map_some,
      Option.getD_some]
    rw [lexAux_step, lexStep_sym2 _ c d o rest hk]; rfl
  | qid n =>
    have hr : rest.head? ≠ some 34 := by
      intro h; have := hbad 34 h; simp [Atom.bad] at this
    simp only [Atom.bytes, quoteIdentifier, C04.quoteWith_eq, List.cons_append, List.append_assoc,
      List.nil_append, Atom.toks]
    rw [lexAux_step, lexStep_qid n rest hr]; rfl
  | str v =>
    have hr : rest.head? ≠ some 39 := by
      intro h; have := hbad 39 h; simp [Atom.bad] at this
    simp only [Atom.bytes, quoteSQLString, C04.quoteWith_eq, List.cons_append, List.append_assoc,
      List.nil_append, Atom.toks]
    rw [lexAux_step, lexStep_str v rest hr]; rfl
  | num v =>
    obtain ⟨c, v', hv, hs⟩ := lexStep_num v rest hwf hbad
    simp only [Atom.bytes, Atom.toks]
    rw [hv, List.cons_append, lexAux_step, ← hv, hs]; rfl
  | cmt b =>
    have hb : skipBlockComment (b ++ [42, 47]) = some [] := by simpa [Atom.wf] using hwf
    simp only [Atom.bytes, List.cons_append, Atom.toks]
    have := lexStep_cmt .standard b rest hb
    simp only [List.cons_append] at this
    rw [lexAux_step, this]; rfl

theorem renderAtoms_cons (a : Atom) (r : List Atom) : renderAtoms (a :: r) = a.bytes ++ renderAtoms r := by
  simp [renderAtoms]
theorem renderAtoms_append (a b : List Atom) : renderAtoms (a ++ b) = renderAtoms a ++ renderAtoms b := by
  simp [renderAtoms]
theorem rawToks_cons (a : Atom) (r : List Atom) : rawToks (a :: r) = a.toks ++ rawToks r := by
  simp [rawToks]
theorem rawToks_append (a b : List Atom) : rawToks (a ++ b) = rawToks a ++ rawToks b := by
  simp [rawToks]

/-- **LexRender at the level of atoms.** -/
theorem lexAux_atoms (as : List Atom) : ∀ (f : Nat) (rest : Bytes), AdjBefore rest as = true →
    lexAux .standard (f + as.length) (renderAtoms as ++ rest) =
      (lexAux .standard f rest).map (rawToks as ++ ·) := by
  induction as with
  | nil => intro f rest _; simp [renderAtoms, rawToks]
  | cons a r ih =>
    intro f rest h
    simp only [AdjBefore, Bool.and_eq_true] at h
    obtain ⟨⟨hwf, hfo⟩, hr⟩ := h
    rw [renderAtoms_cons, rawToks_cons, List.append_assoc, List.length_cons, ← Nat.add_assoc,
      lexAux_atom a _ _ hwf hfo, ih f rest hr]
    cases lexAux .standard f rest <;> simp

/-! ### structure of `AdjBefore` -/

theorem head?_append_ne {l : Bytes} (r : Bytes) (h : l ≠ []) : (l ++ r).head? = l.head? := by
  cases l with
  | nil => exact absurd rfl h
  | cons c l' => rfl

theorem atom_bytes_ne {a : Atom} (h : a.wf = true) : a.bytes ≠ [] := by
  cases a with
  | word w => obtain ⟨c, w', rfl, _⟩ := wordOK_elim h; simp [Atom.bytes]
  | num v => obtain ⟨c, v', rfl, _⟩ := numOK_scan v h; simp [Atom.bytes]
  | qid n => simp [Atom.bytes, quoteIdentifier, quoteWith]
  | str n => simp [Atom.bytes, quoteSQLString, quoteWith]
  | _ => simp [Atom.bytes]

theorem AdjBefore_append (rest : Bytes) (a b : List Atom) :
    AdjBefore rest (a ++ b) = (AdjBefore (renderAtoms b ++ rest) a && AdjBefore rest b) := by
  induction a with
  | nil => simp [AdjBefore]
  | cons x a ih =>
    simp only [List.cons_append, AdjBefore, ih, renderAtoms_append, List.append_assoc, Bool.and_assoc]

theorem AdjBefore_head_wf {rest : Bytes} {a : Atom} {r : List Atom} (h : AdjBefore rest (a :: r) = true) :
    a.wf = true := by
  simp only [AdjBefore, Bool.and_eq_true] at h; exact h.1.1

theorem renderAtoms_ne {rest : Bytes} {a : Atom} {r : List Atom} (h : AdjBefore rest (a :: r) = true) :
    renderAtoms (a :: r) ≠ [] := by
  rw [renderAtoms_cons]
  intro hn
  exact atom_bytes_ne (AdjBefore_head_wf h) (List.append_eq_nil_iff.mp hn).1

/-- dropping the following text keeps adjacency (the end of input follows everything) -/
theorem AdjBefore_nil_of {rest : Bytes} {as : List Atom} (h : AdjBefore rest as = true) :
    AdjBefore [] as = true := by
  induction as with
  | nil => rfl
  | cons a r ih =>
    simp only [AdjBefore, Bool.and_eq_true] at h ⊢
    obtain ⟨⟨hwf, hfo⟩, hr⟩ := h
    refine ⟨⟨hwf, ?_⟩, ih hr⟩
    cases r with
    | nil => simp [renderAtoms, follows]
    | cons b r' =>
      rw [head?_append_ne _ (renderAtoms_ne hr)] at hfo
      rw [head?_append_ne _ (renderAtoms_ne hr)]; exact hfo

/-- may the last atom be followed by text starting like this? -/
def lastFollows (as : List Atom) (h : Option UInt8) : Bool :=
  match as.getLast? with
  | none => true
  | some a => follows a h

theorem AdjBefore_of_nil {rest : Bytes} {as : List Atom} (h : AdjBefore [] as = true)
    (hl : lastFollows as rest.head? = true) : AdjBefore rest as = true := by
  induction as with
  | nil => rfl
  | cons a r ih =>
    simp only [AdjBefore, Bool.and_eq_true] at h ⊢
    obtain ⟨⟨hwf, hfo⟩, hr⟩ := h
    cases r with
    | nil =>
      simp only [lastFollows, List.getLast?_singleton] at hl
      simp [renderAtoms, AdjBefore, hwf, hl]
    | cons b r' =>
      have hl' : lastFollows (b :: r') rest.head? = true := by
        simpa [lastFollows, List.getLast?_cons_cons] using hl
      refine ⟨⟨hwf, ?_⟩, ih hr hl'⟩
      rw [head?_append_ne _ (renderAtoms_ne hr)] at hfo
      rw [head?_append_ne _ (renderAtoms_ne hr)]; exact hfo

theorem adj_length_le {rest : Bytes} {as : List Atom} (h : AdjBefore rest as = true) :
    as.length ≤ (renderAtoms as).length := by
  induction as with
  | nil => simp
  | cons a r ih =>
    have hwf := AdjBefore_head_wf h
    simp only [AdjBefore, Bool.and_eq_true] at h
    have := ih h.2
    have hne := atom_bytes_ne hwf
    have : 0 < a.bytes.length := List.length_pos_iff.mpr hne
    rw [renderAtoms_cons, List.length_append, List.length_cons]; omega

theorem lexAux_nil_pos (mode : QuoteMode) (f : Nat) : lexAux mode (f + 1) [] = some [] := by
  simp [lexAux]

/-- **LexRender for a complete text made of atoms** -/
theorem lex_atoms (as : List Atom) (h : AdjBefore [] as = true) :
    lex .standard (renderAtoms as) = some ((rawToks as).filter (· != .comment)) := by
  have hlen := adj_length_le h
  have := lexAux_atoms as ((renderAtoms as).length - as.length + 1) [] h
  simp only [List.append_nil] at this
  have hfuel : (renderAtoms as).length - as.length + 1 + as.length = (renderAtoms as).length + 1 := by omega
  rw [hfuel, lexAux_nil_pos] at this
  simp [lex, lexRaw, this]

end Pql.LexRender
