/-
Helpers for Props/C16StreamIR.lean: ITERATING the interpreted `(*multiReadCloser).Read`.

* `drainSt`      the model's `CliIO.drain` that also hands back the state it stops in; `drainSt_multiRead_length`:
                 the readers left when a drain of `multiRead` ends are those from the first failing reader on
                 (`pending`), so the readers dropped are exactly those before it (`nConsumed`);
* `readIR`, `drainIR`   one call / repeated calls of the regenerated body of `Read` on the heap (NEW definitions);
* `ReadInv`      what a reading `R objs readers rs` of heap + reader values as scripts must satisfy for one call of
                 `mrRead` (= the interpreted body, `CliIOIR.read_run`) to be `multiRead rs`, again in `R`;
                 `drainIR_of_inv`: then `drainIR` is `drainSt multiRead`, by induction over the calls;
* `inv_denote`   the reading of Props/C16IOIR.lean (`denote`, no object twice) is such an invariant.
-/
import PqlModel.Props.C16IOIRMake
import PqlModel.Props.C16IO
namespace Pql.StreamIR
open Pql Pql.CliIO Pql.CliIOIR
set_option linter.unusedSimpArgs false

/-! ### the model's drain, with the state it ends in -/

/-- `CliIO.drain` that also returns the state in which it stopped -/
def drainSt {σ : Type} (read : σ → ReadResult × σ) : Nat → σ → Bytes × Ending × σ
  | 0, s => ([], .outOfFuel, s)
  | fuel + 1, s =>
    match read s with
    | ((chunk, .ok), s') => (chunk ++ (drainSt read fuel s').1, (drainSt read fuel s').2.1, (drainSt read fuel s').2.2)
    | ((chunk, .eof), s') => (chunk, .eof, s')
    | ((chunk, .err), s') => (chunk, .err, s')

theorem drainSt_drain {σ : Type} (read : σ → ReadResult × σ) : ∀ (fuel : Nat) (s : σ),
    ((drainSt read fuel s).1, (drainSt read fuel s).2.1) = drain read fuel s
  | 0, _ => rfl
  | fuel + 1, s => by
    have ih := fun s' => drainSt_drain read fuel s'
    simp only [drainSt, drain]
    rcases read s with ⟨⟨chunk, st⟩, s'⟩
    cases st
    · simp only [← ih s']
    · rfl
    · rfl

theorem drainSt_congr {σ : Type} (read : σ → ReadResult × σ) (n : Nat) (s s' : σ)
    (h : read s = read s') : drainSt read (n + 1) s = drainSt read (n + 1) s' := by
  simp only [drainSt, h]

/-- the readers from the first failing one on: what is left of the list when the drain ends -/
def pending (rs : List Reader) : List Reader := rs.dropWhile fun r => !(Reader.content r).2

/-- the number of readers before the first failing one: those read to their end -/
def nConsumed (rs : List Reader) : Nat := (rs.takeWhile fun r => !(Reader.content r).2).length

theorem nConsumed_add_pending (rs : List Reader) : nConsumed rs + (pending rs).length = rs.length := by
  unfold nConsumed pending
  rw [← List.length_append, List.takeWhile_append_dropWhile]

theorem pending_nil_reader (rest : List Reader) : pending ([] :: rest) = pending rest := by
  simp [pending, Reader.content, List.dropWhile]

theorem pending_eof (c : Bytes) (r' : Reader) (rest : List Reader) : pending (((c, .eof) :: r') :: rest) = pending rest := by
  simp [pending, Reader.content, List.dropWhile]

theorem pending_err (c : Bytes) (r' : Reader) (rest : List Reader) :
    pending (((c, .err) :: r') :: rest) = ((c, .err) :: r') :: rest := by
  simp [pending, Reader.content, List.dropWhile]

theorem pending_ok_length (c : Bytes) (r' : Reader) (rest : List Reader) :
    (pending (((c, .ok) :: r') :: rest)).length = (pending (r' :: rest)).length := by
  simp only [pending, List.dropWhile, Reader.content]
  cases (Reader.content r').2 <;> simp

/-- **the readers left at the end of a drain** are those from the first failing reader on -/
theorem drainSt_multiRead_length (rs : List Reader) :
    ∀ fuel, totalResults rs + 1 ≤ fuel → (drainSt multiRead fuel rs).2.2.length = (pending rs).length := by
  induction rs with
  | nil =>
    intro fuel hf
    obtain ⟨n, rfl⟩ : ∃ n, fuel = n + 1 := ⟨fuel - 1, by omega⟩
    simp [drainSt, multiRead, pending]
  | cons r rest ihr =>
    induction r with
    | nil =>
      intro fuel hf
      obtain ⟨n, rfl⟩ : ∃ n, fuel = n + 1 := ⟨fuel - 1, by omega⟩
      rw [drainSt_congr multiRead n ([] :: rest) rest (multiRead_nil_reader rest), pending_nil_reader]
      exact ihr (n + 1) (by rw [totalResults_cons] at hf; simpa using hf)
    | cons x r' ih =>
      intro fuel hf
      obtain ⟨n, rfl⟩ : ∃ n, fuel = n + 1 := ⟨fuel - 1, by omega⟩
      rw [totalResults_cons] at hf
      simp only [List.length_cons] at hf
      obtain ⟨c, st⟩ := x
      cases st with
      | ok =>
        have h := ih n (by rw [totalResults_cons]; omega)
        simp only [drainSt, multiRead_ok, h, pending_ok_length]
      | err => simp [drainSt, multiRead_err, pending_err]
      | eof =>
        by_cases hc : c = []
        · subst hc
          rw [drainSt_congr multiRead n _ rest (multiRead_eof_empty r' rest), pending_eof]
          exact ihr (n + 1) (by omega)
        · by_cases hrest : rest = []
          · subst hrest
            rw [pending_eof]
            simp [drainSt, multiRead_eof_data c hc, pending]
          · have h := ihr n (by omega)
            simp only [drainSt, multiRead_eof_data c hc, hrest, ne_eq, not_false_eq_true, if_true, h, pending_eof]

/-! ### iterating the interpreted `Read` -/

def statusOf : GoErr → Status
  | .nil => .ok
  | .eof => .eof
  | .other => .err

theorem statusOf_ofStatus (s : Status) : statusOf (GoErr.ofStatus s) = s := by cases s <;> rfl

/-- ONE call `n, err := mrc.Read(p)` of the regenerated body, read off as the caller sees it: the bytes `p[:n]` and the
    class of `err`; `fuel` bounds the iterations of the `for` loop inside `Read` -/
def readIR (env : Env) (fuel : Nat) (w : State) : M (ReadResult × State) :=
  match runUnit env fuel "multiReadCloser.Read" [.mrcRef, .buf] w with
  | .ok ([.int n, .err e], w') => .ok ((w'.data.take n.toNat, statusOf e), w')
  | .ok _ => stuck
  | .error e => .error e

/-- call `read` until it reports `io.EOF` or another error (at most `k` calls), collecting the chunks: what `bufio.Scanner`
    does with its input (`CliIO.drain` for a `Read` that runs on the heap and may panic / get stuck) -/
def drainM (read : State → M (ReadResult × State)) : Nat → State → M (Bytes × Ending × State)
  | 0, w => .ok ([], .outOfFuel, w)
  | k + 1, w =>
    match read w with
    | .error e => .error e
    | .ok ((chunk, .ok), w') =>
      match drainM read k w' with
      | .ok r => .ok (chunk ++ r.1, r.2.1, r.2.2)
      | .error e => .error e
    | .ok ((chunk, .eof), w') => .ok (chunk, .eof, w')
    | .ok ((chunk, .err), w') => .ok (chunk, .err, w')

/-- … with the regenerated `(*multiReadCloser).Read` -/
def drainIR (env : Env) (fuel : Nat) : Nat → State → M (Bytes × Ending × State) := drainM (readIR env fuel)

theorem fileHandles_append : ∀ (a b : List (Option RC)), fileHandles (a ++ b) = fileHandles a ++ fileHandles b
  | [], b => rfl
  | none :: a, b => by simp [fileHandles, fileHandles_append a b]
  | some ⟨_, true⟩ :: a, b => by simp [fileHandles, fileHandles_append a b]
  | some ⟨_, false⟩ :: a, b => by simp [fileHandles, fileHandles_append a b]

/-- A reading `R objs readers rs` of a heap and a list of reader values as the scripts `rs` that ONE `Read` preserves:
    `mrRead` (which IS the interpreted body: `CliIOIR.read_run`) returns what `multiRead rs` returns and leaves a heap and
    reader values that read as what `multiRead` leaves. -/
structure ReadInv (R : List Reader → List (Option RC) → List Reader → Prop) : Prop where
  len : ∀ objs l rs, R objs l rs → rs.length = l.length
  nonnil : ∀ objs l rs, R objs l rs → none ∉ l
  step : ∀ (l : List (Option RC)) (st : State) (rs : List Reader), R st.objs l rs →
    ∃ st' d, mrRead l st = .ok ((((multiRead rs).1.1.length : Nat), GoErr.ofStatus (multiRead rs).1.2), st') ∧
      st'.data.take (multiRead rs).1.1.length = (multiRead rs).1.1 ∧
      R st'.objs st'.readers (multiRead rs).2 ∧
      l = d ++ st'.readers ∧ st'.closed = st.closed ++ fileHandles d ∧ st'.created = st.created ∧
      st'.objs.length = st.objs.length

/-- the reading of Props/C16IOIR.lean: plain heap lookup, no nil entry, no dangling handle, no object twice -/
def RDenote (objs : List Reader) (l : List (Option RC)) (rs : List Reader) : Prop :=
  denote objs l = some rs ∧ (handles l).Nodup

theorem denote_nonnil (objs : List Reader) : ∀ (l : List (Option RC)) (rs : List Reader), denote objs l = some rs → none ∉ l
  | [], _, _ => by simp
  | none :: l, rs, h => by simp [denote] at h
  | some rc :: l, rs, h => by
    simp only [denote] at h
    cases ho : objs[rc.h]? with
    | none => simp [ho] at h
    | some r =>
      cases hl : denote objs l with
      | none => simp [ho, hl] at h
      | some rs' => simpa using denote_nonnil objs l rs' hl

theorem inv_denote : ReadInv RDenote where
  len := fun objs l rs h => denote_length objs l rs h.1
  nonnil := fun objs l rs h => denote_nonnil objs l rs h.1
  step := fun l st rs h => by
    obtain ⟨st', d, h1, h2, h3, h4, h5, h6, h7, h8⟩ := mrRead_refines l st rs h.1 h.2
    exact ⟨st', d, h1, h2, ⟨h3, h4⟩, h5, h6, h7, h8⟩

/-- one interpreted call under an invariant -/
theorem readIR_of_inv {R : List Reader → List (Option RC) → List Reader → Prop} (hR : ReadInv R)
    (env : Env) (fuel : Nat) (w : State) (rs : List Reader) (h : R w.objs w.readers rs) (hf : w.readers.length < fuel) :
    ∃ w' d, readIR env fuel w = .ok ((multiRead rs).1, w') ∧ R w'.objs w'.readers (multiRead rs).2 ∧
      w.readers = d ++ w'.readers ∧ w'.closed = w.closed ++ fileHandles d ∧ w'.created = w.created ∧
      w'.objs.length = w.objs.length := by
  obtain ⟨st1, d, h1, h2, h3, h5, h6, h7, h8⟩ := hR.step w.readers w rs h
  have hA := read_run env fuel w hf
  rw [h1] at hA
  obtain ⟨st2, hr, hw⟩ := map_world_ok _ _ st1 (by simpa [Except.map] using hA)
  simp only [State.world, Prod.mk.injEq] at hw
  obtain ⟨ho, hrd, hc, hcr, hdt⟩ := hw
  refine ⟨st2, d, ?_, ?_, ?_, ?_, ?_, ?_⟩
  · have hrun : runUnit env fuel "multiReadCloser.Read" [.mrcRef, .buf] w =
        .ok ([.int ((multiRead rs).1.1.length : Nat), .err (GoErr.ofStatus (multiRead rs).1.2)], st2) := by
      simp only [runUnit, read_ir]; exact hr
    simp only [readIR, hrun, Int.toNat_natCast, statusOf_ofStatus, hdt, h2]
  · rw [ho, hrd]; exact h3
  · rw [hrd]; exact h5
  · rw [hc]; exact h6
  · rw [hcr]; exact h7
  · rw [ho]; exact h8

/-- **iterating `Read`**: under an invariant, `k` calls of the interpreted `Read` are `k` calls of the model's `multiRead`
    — same bytes, same ending —, the state they end in reads as the model's, the reader values dropped are a prefix of the
    list and exactly the files among them were closed, in order. -/
theorem drainIR_of_inv {R : List Reader → List (Option RC) → List Reader → Prop} (hR : ReadInv R)
    (env : Env) (fuel : Nat) : ∀ (k : Nat) (w : State) (rs : List Reader), R w.objs w.readers rs → w.readers.length < fuel →
    ∃ w' d, drainIR env fuel k w = .ok ((drainSt multiRead k rs).1, (drainSt multiRead k rs).2.1, w') ∧
      R w'.objs w'.readers (drainSt multiRead k rs).2.2 ∧
      w.readers = d ++ w'.readers ∧ w'.closed = w.closed ++ fileHandles d ∧ w'.created = w.created ∧
      w'.objs.length = w.objs.length
  | 0, w, rs, h, _ => ⟨w, [], by simp [drainIR, drainM, drainSt, fileHandles, h]⟩
  | k + 1, w, rs, h, hf => by
    obtain ⟨w1, d1, h1, h2, h3, h4, h5, h6⟩ := readIR_of_inv hR env fuel w rs h hf
    rcases hm : multiRead rs with ⟨⟨chunk, s⟩, rs'⟩
    rw [hm] at h1 h2
    cases s with
    | ok =>
      have hf1 : w1.readers.length < fuel := by
        have := congrArg List.length h3
        simp only [List.length_append] at this
        omega
      obtain ⟨w2, d2, g1, g2, g3, g4, g5, g6⟩ := drainIR_of_inv hR env fuel k w1 rs' h2 hf1
      refine ⟨w2, d1 ++ d2, ?_, ?_, ?_, ?_, ?_, ?_⟩
      · unfold drainIR at g1 ⊢
        simp only [drainM, h1, g1, drainSt, hm]
      · simpa only [drainSt, hm] using g2
      · rw [h3, g3, List.append_assoc]
      · rw [g4, h4, fileHandles_append, List.append_assoc]
      · rw [g5, h5]
      · rw [g6, h6]
    | eof => exact ⟨w1, d1, by simp only [drainIR, drainM, h1, drainSt, hm], by simpa only [drainSt, hm] using h2, h3, h4, h5, h6⟩
    | err => exact ⟨w1, d1, by simp only [drainIR, drainM, h1, drainSt, hm], by simpa only [drainSt, hm] using h2, h3, h4, h5, h6⟩

theorem toEnding_fst (p : Bytes × Bool) : (toEnding p).1 = p.1 := by
  obtain ⟨b, f⟩ := p; cases f <;> rfl

theorem toEnding_snd (p : Bytes × Bool) : (toEnding p).2 = if p.2 then .err else .eof := by
  obtain ⟨b, f⟩ := p; cases f <;> rfl

/-- … with enough calls allowed (`totalResults rs + 1`): the bytes are the concatenated contents up to and including the
    first failing reader, the ending is `io.EOF` iff none failed, and exactly the `nConsumed rs` reader values before the
    first failing one were dropped, the files among them closed, in order. -/
theorem drainIR_full {R : List Reader → List (Option RC) → List Reader → Prop} (hR : ReadInv R)
    (env : Env) (fuel k : Nat) (w : State) (rs : List Reader) (h : R w.objs w.readers rs) (hf : w.readers.length < fuel)
    (hk : totalResults rs + 1 ≤ k) :
    ∃ w', drainIR env fuel k w = .ok ((concatContents rs).1, (if (concatContents rs).2 then .err else .eof), w') ∧
      R w'.objs w'.readers (drainSt multiRead k rs).2.2 ∧
      w'.readers = w.readers.drop (nConsumed rs) ∧
      w'.closed = w.closed ++ fileHandles (w.readers.take (nConsumed rs)) ∧ w'.created = w.created ∧
      w'.objs.length = w.objs.length := by
  obtain ⟨w', d, h1, h2, h3, h4, h5, h6⟩ := drainIR_of_inv hR env fuel k w rs h hf
  have hd := drainSt_drain multiRead k rs
  rw [C16_multi_concat_fuel rs k hk, C16_multi_concat] at hd
  have hb : (drainSt multiRead k rs).1 = (concatContents rs).1 := by
    rw [← toEnding_fst]; exact congrArg Prod.fst hd
  have he : (drainSt multiRead k rs).2.1 = if (concatContents rs).2 then .err else .eof := by
    rw [← toEnding_snd]; exact congrArg Prod.snd hd
  have hlen : d.length = nConsumed rs := by
    have a := hR.len _ _ _ h2
    have b := hR.len _ _ _ h
    have c := drainSt_multiRead_length rs k hk
    have e := nConsumed_add_pending rs
    have g := congrArg List.length h3
    simp only [List.length_append] at g
    omega
  refine ⟨w', ?_, h2, ?_, ?_, h5, h6⟩
  · rw [h1, hb, he]
  · rw [h3, ← hlen, List.drop_left]
  · rw [h4, h3, ← hlen, List.take_left]

/-- `input.Close()` after the drain closes what is left: in total every file of the list exactly once, in list order -/
theorem drain_then_close {R : List Reader → List (Option RC) → List Reader → Prop} (hR : ReadInv R)
    (env : Env) (fuel k : Nat) (w : State) (rs : List Reader) (h : R w.objs w.readers rs) (hf : w.readers.length < fuel)
    (hk : totalResults rs + 1 ≤ k) :
    ∃ w1 w2, drainIR env fuel k w = .ok ((concatContents rs).1, (if (concatContents rs).2 then .err else .eof), w1) ∧
      runUnit env fuel "multiReadCloser.Close" [.mrcRef] w1 = .ok ([.err (firstFail env w1.readers)], w2) ∧
      w2.closed = w.closed ++ fileHandles w.readers ∧ w2.readers = [] ∧ w2.created = w.created ∧
      w2.objs.length = w.objs.length := by
  obtain ⟨w1, h1, h2, h3, h4, h5, h6⟩ := drainIR_full hR env fuel k w rs h hf hk
  obtain ⟨w2, g1, g2⟩ := C16_Close_ir env fuel w1 (hR.nonnil _ _ _ h2)
  simp only [State.world, Prod.mk.injEq] at g2
  obtain ⟨go, gr, gc, gcr, _⟩ := g2
  refine ⟨w1, w2, h1, g1, ?_, gr, by rw [gcr, h5], by rw [go, h6]⟩
  rw [gc, h4, h3, List.append_assoc, ← fileHandles_append, List.take_append_drop]

end Pql.StreamIR
