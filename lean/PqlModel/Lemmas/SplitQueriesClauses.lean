/-
The pipeline reading of the subqueries `splitQueries` produces (C02, clause 2): reading every
subquery as `op; sort; take` (the order `Subquery.write` evaluates them) and concatenating gives
back the operator list, with `top` read as `sort; take`.
-/
import PqlModel.Lemmas.SplitQueriesRun
namespace Pql.SplitQ
open Pql

/-! ### clause 2: the pipeline reading of the subqueries is the operator list -/

/-- span-free summary of what one pipeline step does -/
inductive Clause
  | op (o : Op)                      -- an operator that gets its own SELECT
  | sort (terms : List SortTerm)     -- ORDER BY
  | take (n : Expr)                  -- LIMIT

/-- the operator a subquery's SELECT body stands for, if any (`none`: a plain `SELECT *`) -/
def opPart (s : Subquery) : List Clause :=
  match s.op with | some o => [.op o] | none => []

/-- the pipeline reading of one subquery, in the order `Subquery.write` evaluates it:
    the body (`op`), then ORDER BY, then LIMIT -/
def subClauses (s : Subquery) : List Clause :=
  opPart s ++
  (match s.sort with | some ts => [.sort ts] | none => []) ++
  (match s.take with | some n => [.take n] | none => [])

/-- the reading of one operator of a join-free pipeline: `top` is `sort` then `take` -/
def opClauses : Op → List Clause
  | .sort _ _ terms => [.sort terms]
  | .take _ _ n => [.take n]
  | .top _ _ n _ (some c) => [.sort [c], .take n]
  | .top _ _ _ _ none => []
  | .join .. => []
  | o => [.op o]

mutual
/-- the reading of a whole tabular expression in the order its subqueries are laid out: the
    right-hand side of a join is split (recursively) where the join stands; the join subquery
    itself is a `SELECT *` over the two sides and carries no clause of its own -/
def tabClauses : Tabular → List Clause
  | .nil => []
  | .mk _ ops => opsClauses ops
def opsClauses : OpList → List Clause
  | .nil => []
  | .cons o rest => opClausesRec o ++ opsClauses rest
def opClausesRec : Op → List Clause
  | .join _ _ _ _ _ _ right _ _ _ => tabClauses right
  | .sort _ _ terms => [.sort terms]
  | .take _ _ n => [.take n]
  | .top _ _ n _ (some c) => [.sort [c], .take n]
  | .top _ _ _ _ none => []
  | o => [.op o]
end

def joinFree : OpList → Bool
  | .nil => true
  | .cons (.join ..) _ => false
  | .cons _ rest => joinFree rest

def isJoin : Op → Bool
  | .join .. => true
  | _ => false

theorem joinFree_cons (o : Op) (rest : OpList) :
    joinFree (.cons o rest) = (!isJoin o && joinFree rest) := by
  cases o <;> simp [joinFree, isJoin]

theorem opClausesRec_of_not_join (o : Op) (h : isJoin o = false) : opClausesRec o = opClauses o := by
  cases o with
  | top p k n b col => cases col <;> simp [opClausesRec, opClauses]
  | join => simp [isJoin] at h
  | _ => simp [opClausesRec, opClauses]

theorem opsClauses_joinFree : ∀ (ops : OpList), joinFree ops = true →
    opsClauses ops = ops.toList.flatMap opClauses
  | .nil, _ => by simp [opsClauses, OpList.toList]
  | .cons o rest, h => by
    rw [joinFree_cons] at h
    simp only [Bool.and_eq_true, Bool.not_eq_true'] at h
    simp [opsClauses, OpList.toList, opClausesRec_of_not_join o h.1, opsClauses_joinFree rest h.2]

theorem flatMap_snoc (dst : List Subquery) (s : Subquery) :
    (dst ++ [s]).flatMap subClauses = dst.flatMap subClauses ++ subClauses s := by
  simp

theorem flatMap_closeBlock (mid : List Subquery) (k : Nat) (source : Option Ident) :
    (closeBlock mid k source).flatMap subClauses = mid.flatMap subClauses := by
  unfold closeBlock; split
  · simp [subClauses, opPart, chainSubquery]
  · rfl

theorem run_clauses {source : Option Ident} {dstStart : Nat} {dst out : List Subquery} {ops : OpList}
    (h : Run source dstStart dst ops out) :
    out.flatMap subClauses = dst.flatMap subClauses ++ opsClauses ops := by
  induction h with
  | nil => simp [opsClauses]
  | as_ p k name _ ih =>
    rw [ih, flatMap_snoc]; simp [subClauses, opPart, chainSubquery, opsClauses, opClausesRec]
  | plain o ho _ ih =>
    rw [ih, flatMap_snoc]
    cases o <;> simp [isPlain] at ho <;> simp [subClauses, opPart, chainSubquery, opsClauses, opClausesRec]
  | sortAttach p k terms init l hdst hk hc hs ht _ ih =>
    subst hdst
    rw [ih, flatMap_snoc, flatMap_snoc]; simp [subClauses, opPart, hs, ht, opsClauses, opClausesRec]
  | sortChain p k terms _ ih =>
    rw [ih, flatMap_snoc]; simp [subClauses, opPart, chainSubquery, opsClauses, opClausesRec]
  | takeAttach p k n init l hdst hk hc ht _ ih =>
    subst hdst
    rw [ih, flatMap_snoc, flatMap_snoc]; simp [subClauses, opPart, ht, opsClauses, opClausesRec]
  | takeChain p k n _ ih =>
    rw [ih, flatMap_snoc]; simp [subClauses, opPart, chainSubquery, opsClauses, opClausesRec]
  | topAttach p k n b c init l hdst hk hc hs ht _ ih =>
    subst hdst
    rw [ih, flatMap_snoc, flatMap_snoc]; simp [subClauses, opPart, hs, ht, opsClauses, opClausesRec]
  | topChain p k n b c _ ih =>
    rw [ih, flatMap_snoc]; simp [subClauses, opPart, chainSubquery, opsClauses, opClausesRec]
  | join p k kind ka flavor lp rsource rops rp on conds unique kw cond mid dst' _ hd' _ ih1 ih2 =>
    subst hd'
    rw [ih2, flatMap_snoc, flatMap_closeBlock, ih1]
    simp [subClauses, opPart, opsClauses, opClausesRec, tabClauses]

end Pql.SplitQ
