/-
Side conditions discharged for parsed trees (part 3): leaves come from tokens.

C08 (`parseTokens_acc`) says that the `unparse` of every statement of an error-free parse accounts
for a group of tokens of the scan.  Hence every number / string literal and every function name
of the tree carries the kind and value of a token (`leavesE P`: they satisfy any predicate `P`
on kind and value that all tokens satisfy), and the lists the grammar needs non-empty are
non-empty (`TabNE`: sort terms, project columns, summarize columns-or-groups, join conditions).
-/
import PqlModel.Lemmas.AccountedStmt
import PqlModel.Lemmas.AccountedScan
import PqlModel.Lemmas.SpanExtentTop
import PqlModel.Lemmas.ParsedOKLift
namespace Pql.ParsedOK
open Pql Grammar

abbrev LP := TokKind → Bytes → Bool

def identKind (i : Ident) : TokKind := if i.quoted then .qident else .ident

mutual
/-- every literal and every function name below the expression satisfies `P kind value` -/
def leavesE (P : LP) : Expr → Bool
  | .nil => true
  | .qident _ => true
  | .lit _ k v => P k v
  | .unary _ _ x => leavesE P x
  | .binary x _ _ y => leavesE P x && leavesE P y
  | .inE x _ _ vals _ => leavesE P x && leavesL P vals
  | .paren _ x _ => leavesE P x
  | .call fn _ args _ => P (identKind fn) fn.name && leavesL P args
  | .index x _ idx _ => leavesE P x && leavesE P idx
def leavesL (P : LP) : ExprList → Bool
  | .nil => true
  | .cons e es => leavesE P e && leavesL P es
end

/-- all plain (non-keyword) tokens of an `unparse` satisfy `P` -/
def UOK (P : LP) (us : List UTok) : Prop := ∀ u ∈ us, u.alts = [] → P u.kind u.value = true

theorem UOK.mono {P : LP} {a b : List UTok} (h : UOK P b) (hs : ∀ u ∈ a, u ∈ b) : UOK P a :=
  fun u hu => h u (hs u hu)

section
variable (P : LP)

mutual
theorem leavesE_of_unparse : ∀ (e : Expr) (us : List UTok), unparseExpr e = some us → UOK P us →
    leavesE P e = true
  | .nil, _, h, _ => by simp [unparseExpr] at h
  | .qident _, _, _, _ => by simp [leavesE]
  | .lit sp k v, us, h, hu => by
    simp only [unparseExpr, Option.some.injEq] at h
    subst h
    simpa [leavesE] using hu _ (List.mem_singleton.2 rfl) rfl
  | .unary os op x, us, h, hu => by
    simp only [unparseExpr, Option.bind_eq_bind, Option.pure_def, Option.bind_eq_some_iff,
      Option.some.injEq] at h
    obtain ⟨xs, hx, rfl⟩ := h
    simp only [leavesE]
    exact leavesE_of_unparse x xs hx (hu.mono fun u h => by simp [h])
  | .binary x os op y, us, h, hu => by
    simp only [unparseExpr, Option.bind_eq_bind, Option.pure_def, Option.bind_eq_some_iff,
      Option.some.injEq] at h
    obtain ⟨xs, hx, ys, hy, rfl⟩ := h
    simp only [leavesE, Bool.and_eq_true]
    exact ⟨leavesE_of_unparse x xs hx (hu.mono fun u h => by simp [h]),
      leavesE_of_unparse y ys hy (hu.mono fun u h => by simp [h])⟩
  | .inE x i lp vals rp, us, h, hu => by
    simp only [unparseExpr, Option.bind_eq_bind, Option.pure_def, Option.bind_eq_some_iff,
      Option.some.injEq] at h
    obtain ⟨xs, hx, vs, hv, rfl⟩ := h
    simp only [leavesE, Bool.and_eq_true]
    exact ⟨leavesE_of_unparse x xs hx (hu.mono fun u h => by simp [h]),
      leavesL_of_unparse vals vs hv (hu.mono fun u h => by simp [h])⟩
  | .paren lp x rp, us, h, hu => by
    simp only [unparseExpr, Option.bind_eq_bind, Option.pure_def, Option.bind_eq_some_iff,
      Option.some.injEq] at h
    obtain ⟨xs, hx, rfl⟩ := h
    simp only [leavesE]
    exact leavesE_of_unparse x xs hx (hu.mono fun u h => by simp [h])
  | .call fn lp args rp, us, h, hu => by
    simp only [unparseExpr, Option.bind_eq_bind, Option.pure_def, Option.bind_eq_some_iff,
      Option.some.injEq] at h
    obtain ⟨as, ha, rfl⟩ := h
    simp only [leavesE, Bool.and_eq_true]
    refine ⟨?_, leavesL_of_unparse args as ha (hu.mono fun u h => by simp [h])⟩
    have := hu (identTok fn) (by simp) rfl
    simpa [identTok, identKind] using this
  | .index x lb idx rb, us, h, hu => by
    simp only [unparseExpr, Option.bind_eq_bind, Option.pure_def, Option.bind_eq_some_iff,
      Option.some.injEq] at h
    obtain ⟨xs, hx, is, hi, rfl⟩ := h
    simp only [leavesE, Bool.and_eq_true]
    exact ⟨leavesE_of_unparse x xs hx (hu.mono fun u h => by simp [h]),
      leavesE_of_unparse idx is hi (hu.mono fun u h => by simp [h])⟩
theorem leavesL_of_unparse : ∀ (l : ExprList) (us : List UTok), unparseExprList l = some us → UOK P us →
    leavesL P l = true
  | .nil, _, _, _ => by simp [leavesL]
  | .cons e .nil, us, h, hu => by
    simp only [unparseExprList] at h
    simp only [leavesL, Bool.and_true]
    exact leavesE_of_unparse e us h hu
  | .cons e (.cons e' es), us, h, hu => by
    simp only [unparseExprList, Option.bind_eq_bind, Option.pure_def, Option.bind_eq_some_iff,
      Option.some.injEq] at h
    obtain ⟨a, ha, b, hb, rfl⟩ := h
    rw [leavesL, Bool.and_eq_true]
    exact ⟨leavesE_of_unparse e a ha (hu.mono fun u h => by simp [h]),
      leavesL_of_unparse (.cons e' es) b hb (hu.mono fun u h => by simp [h])⟩
end

/-! ### operators -/

theorem mem_sepBy (sep : UTok) : ∀ (ys : List (List UTok)) (y : List UTok), y ∈ ys →
    ∀ u ∈ y, u ∈ sepBy sep ys
  | [], _, h, _, _ => by cases h
  | [x], y, h, u, hu => by
    simp only [List.mem_singleton] at h
    subst h
    simpa [sepBy] using hu
  | x :: x' :: xs, y, h, u, hu => by
    simp only [sepBy, List.mem_append, List.mem_cons]
    rcases List.mem_cons.1 h with rfl | h
    · exact Or.inl hu
    · exact Or.inr (Or.inr (mem_sepBy sep (x' :: xs) y h u hu))

theorem listM_mem {α β : Type} (f : α → Option β) : ∀ (xs : List α) (ys : List β), listM f xs = some ys →
    ∀ x ∈ xs, ∃ y ∈ ys, f x = some y
  | [], _, _, _, hx => by cases hx
  | x :: xs, ys, h, x', hx => by
    simp only [listM, Option.bind_eq_bind, Option.pure_def, Option.bind_eq_some_iff,
      Option.some.injEq] at h
    obtain ⟨y, hy, ys', hys, rfl⟩ := h
    rcases List.mem_cons.1 hx with rfl | hx
    · exact ⟨y, by simp, hy⟩
    · obtain ⟨y', hy', hf⟩ := listM_mem f xs ys' hys x' hx
      exact ⟨y', List.mem_cons_of_mem _ hy', hf⟩

theorem sortTerm_of_unparse (t : SortTerm) (us : List UTok) (h : unparseSortTerm t = some us)
    (hu : UOK P us) : leavesE P t.x = true := by
  simp only [unparseSortTerm, Option.bind_eq_bind, Option.pure_def, Option.bind_eq_some_iff,
    Option.some.injEq] at h
  obtain ⟨xs, hx, rfl⟩ := h
  exact leavesE_of_unparse P t.x xs hx (hu.mono fun u h => by simp [h])

theorem column_of_unparse (b : Bool) (c : Column) (us : List UTok) (h : unparseColumn b c = some us)
    (hu : UOK P us) : leavesE P c.x = true := by
  unfold unparseColumn at h
  split at h
  · split at h
    · simp only [Option.bind_eq_bind, Option.pure_def, Option.bind_eq_some_iff,
        Option.some.injEq] at h
      obtain ⟨xs, hx, rfl⟩ := h
      exact leavesE_of_unparse P c.x xs hx (hu.mono fun u h => by simp [h])
    · split at h
      · split at h
        · next hx => rw [hx]; rfl
        · cases h
      · cases h
  · split at h
    · cases h
    · exact leavesE_of_unparse P c.x us h hu

theorem sepList_of_unparse {α : Type} (f : α → Option (List UTok)) (g : α → Expr)
    (hf : ∀ x us, f x = some us → UOK P us → leavesE P (g x) = true)
    (xs : List α) (ys : List (List UTok)) (h : listM f xs = some ys) (hu : UOK P (sepBy commaTok ys)) :
    ∀ x ∈ xs, leavesE P (g x) = true := by
  intro x hx
  obtain ⟨y, hy, hfx⟩ := listM_mem f xs ys h x hx
  exact hf x y hfx (hu.mono (mem_sepBy commaTok ys y hy))

abbrev LE (P : LP) : Expr → Prop := fun e => leavesE P e = true
abbrev LL (P : LP) : ExprList → Prop := fun l => leavesL P l = true

mutual
theorem tab_of_unparse : ∀ (t : Tabular) (us : List UTok), unparseTabular t = some us → UOK P us →
    TabAll (LE P) (LL P) t
  | .nil, _, _, _ => by simp [TabAll]
  | .mk src ops, us, h, hu => by
    simp only [unparseTabular, Option.bind_eq_bind, Option.pure_def, Option.bind_eq_some_iff,
      Option.some.injEq] at h
    obtain ⟨s, _, os, ho, rfl⟩ := h
    simp only [TabAll]
    exact ops_of_unparse ops os ho (hu.mono fun u h => by simp [h])
theorem ops_of_unparse : ∀ (ops : OpList) (us : List UTok), unparseOps ops = some us → UOK P us →
    OpsAll (LE P) (LL P) ops
  | .nil, _, _, _ => by simp [OpsAll]
  | .cons o os, us, h, hu => by
    simp only [unparseOps, Option.bind_eq_bind, Option.pure_def, Option.bind_eq_some_iff,
      Option.some.injEq] at h
    obtain ⟨a, ha, b, hb, rfl⟩ := h
    simp only [OpsAll]
    exact ⟨op_of_unparse o a ha (hu.mono fun u h => by simp [h]),
      ops_of_unparse os b hb (hu.mono fun u h => by simp [h])⟩
theorem op_of_unparse : ∀ (o : Op) (us : List UTok), unparseOp o = some us → UOK P us →
    OpAll (LE P) (LL P) o
  | .count .., _, _, _ => by simp [OpAll]
  | .as_ .., _, _, _ => by simp [OpAll]
  | .render .., _, _, _ => by simp [OpAll]
  | .where_ p k e, us, h, hu => by
    simp only [unparseOp, Option.bind_eq_bind, Option.pure_def, Option.bind_eq_some_iff,
      Option.some.injEq] at h
    obtain ⟨xs, hx, rfl⟩ := h
    simp only [OpAll]
    exact leavesE_of_unparse P e xs hx (hu.mono fun u h => by simp [h])
  | .take p k n, us, h, hu => by
    simp only [unparseOp, Option.bind_eq_bind, Option.pure_def, Option.bind_eq_some_iff,
      Option.some.injEq] at h
    obtain ⟨xs, hx, rfl⟩ := h
    simp only [OpAll]
    exact leavesE_of_unparse P n xs hx (hu.mono fun u h => by simp [h])
  | .top p k n b c, us, h, hu => by
    simp only [unparseOp, Option.bind_eq_bind, Option.pure_def, Option.bind_eq_some_iff,
      Option.some.injEq] at h
    obtain ⟨xs, hx, col, hc, cs, hcs, rfl⟩ := h
    simp only [OpAll]
    refine ⟨leavesE_of_unparse P n xs hx (hu.mono fun u h => by simp [h]), ?_⟩
    intro t ht
    rw [hc] at ht
    cases ht
    exact sortTerm_of_unparse P col cs hcs (hu.mono fun u h => by simp [h])
  | .sort p k ts, us, h, hu => by
    simp only [unparseOp, Option.bind_eq_bind, Option.pure_def] at h
    split at h
    · simp at h
    · simp only [Option.bind_eq_some_iff, Option.some.injEq] at h
      obtain ⟨tss, htss, rfl⟩ := h
      simp only [OpAll]
      exact sepList_of_unparse P unparseSortTerm (·.x) (sortTerm_of_unparse P) ts tss htss
        (hu.mono fun u h => by simp [h])
  | .project p k cs, us, h, hu => by
    simp only [unparseOp, Option.bind_eq_bind, Option.pure_def] at h
    split at h
    · simp at h
    · simp only [Option.bind_eq_some_iff, Option.some.injEq] at h
      obtain ⟨css, hcss, rfl⟩ := h
      simp only [OpAll]
      intro c hc
      exact Or.inr (sepList_of_unparse P (unparseColumn true) (·.x) (column_of_unparse P true) cs css hcss
        (hu.mono fun u h => by simp [h]) c hc)
  | .extend p k cs, us, h, hu => by
    simp only [unparseOp, Option.bind_eq_bind, Option.pure_def] at h
    split at h
    · simp at h
    · simp only [Option.bind_eq_some_iff, Option.some.injEq] at h
      obtain ⟨css, hcss, rfl⟩ := h
      simp only [OpAll]
      exact sepList_of_unparse P (unparseColumn false) (·.x) (column_of_unparse P false) cs css hcss
        (hu.mono fun u h => by simp [h])
  | .summarize p k cs b gs, us, h, hu => by
    simp only [unparseOp, Option.bind_eq_bind, Option.pure_def, Option.bind_eq_some_iff] at h
    obtain ⟨css, hcss, gss, hgss, h⟩ := h
    simp only [OpAll]
    split at h
    · split at h
      · simp at h
      · simp only [Option.some.injEq] at h
        subst h
        exact ⟨sepList_of_unparse P (unparseColumn false) (·.x) (column_of_unparse P false) cs css hcss
            (hu.mono fun u h => by simp [h]),
          sepList_of_unparse P (unparseColumn false) (·.x) (column_of_unparse P false) gs gss hgss
            (hu.mono fun u h => by simp [h])⟩
    · split at h
      · simp at h
      · next hg =>
        simp only [Option.some.injEq] at h
        subst h
        refine ⟨sepList_of_unparse P (unparseColumn false) (·.x) (column_of_unparse P false) cs css hcss
            (hu.mono fun u h => by simp [h]), ?_⟩
        have : gs = [] := by
          simp only [Bool.or_eq_true, Bool.not_eq_true', not_or, Bool.not_eq_true] at hg
          simpa using hg.2
        subst this
        simp
  | .join p k kind ka fl lp right rp on conds, us, h, hu => by
    simp only [unparseOp, Option.bind_eq_bind, Option.pure_def, Option.bind_eq_some_iff] at h
    obtain ⟨r, hr, cs, hcs, h⟩ := h
    split at h
    · simp at h
    · have hex : ∃ hdr : List UTok, us = sym TokKind.pipe p :: kwTok ["join"] k :: hdr ++
          sym TokKind.lparen lp :: r ++ sym TokKind.rparen rp :: kwTok ["on"] on :: cs := by
        split at h
        · simp only [Option.bind_some, Option.some.injEq] at h
          exact ⟨_, h.symm⟩
        · split at h
          · simp at h
          · simp only [Option.bind_some, Option.some.injEq] at h
            exact ⟨_, h.symm⟩
      obtain ⟨hdr, rfl⟩ := hex
      simp only [OpAll]
      exact ⟨tab_of_unparse right r hr (hu.mono fun u h => by simp [h]),
        leavesL_of_unparse P conds cs hcs (hu.mono fun u h => by simp [h])⟩
end

theorem stmt_of_unparse (s : Stmt) (us : List UTok) (h : unparseStmt s = some us) (hu : UOK P us) :
    StmtAll (LE P) (LL P) s := by
  cases s with
  | let_ kw name asg x =>
    simp only [unparseStmt, Option.bind_eq_bind, Option.pure_def, Option.bind_eq_some_iff,
      Option.some.injEq] at h
    obtain ⟨n, _, xs, hx, rfl⟩ := h
    simp only [StmtAll]
    exact leavesE_of_unparse P x xs hx (hu.mono fun u h => by simp [h])
  | tabular t =>
    simp only [unparseStmt] at h
    simp only [StmtAll]
    exact tab_of_unparse P t us h hu

end

/-! ### non-empty lists -/

mutual
/-- the lists SQL needs non-empty are non-empty, at any nesting depth of joins -/
def TabNE : Tabular → Bool
  | .nil => true
  | .mk _ ops => OpsNE ops
def OpNE : Op → Bool
  | .sort _ _ ts => !ts.isEmpty
  | .project _ _ cs => !cs.isEmpty
  | .summarize _ _ cs _ gs => !(gs ++ cs).isEmpty
  | .join _ _ _ _ _ _ right _ _ conds => TabNE right && conds.length != 0
  | _ => true
def OpsNE : OpList → Bool
  | .nil => true
  | .cons o os => OpNE o && OpsNE os
end

mutual
theorem tabNE_of_unparse : ∀ (t : Tabular) (us : List UTok), unparseTabular t = some us → TabNE t = true
  | .nil, _, _ => by simp [TabNE]
  | .mk src ops, us, h => by
    simp only [unparseTabular, Option.bind_eq_bind, Option.pure_def, Option.bind_eq_some_iff,
      Option.some.injEq] at h
    obtain ⟨s, _, os, ho, rfl⟩ := h
    simp only [TabNE]
    exact opsNE_of_unparse ops os ho
theorem opsNE_of_unparse : ∀ (ops : OpList) (us : List UTok), unparseOps ops = some us → OpsNE ops = true
  | .nil, _, _ => by simp [OpsNE]
  | .cons o os, us, h => by
    simp only [unparseOps, Option.bind_eq_bind, Option.pure_def, Option.bind_eq_some_iff,
      Option.some.injEq] at h
    obtain ⟨a, ha, b, hb, rfl⟩ := h
    simp only [OpsNE, Bool.and_eq_true]
    exact ⟨opNE_of_unparse o a ha, opsNE_of_unparse os b hb⟩
theorem opNE_of_unparse : ∀ (o : Op) (us : List UTok), unparseOp o = some us → OpNE o = true
  | .count .., _, _ => by simp [OpNE]
  | .as_ .., _, _ => by simp [OpNE]
  | .render .., _, _ => by simp [OpNE]
  | .where_ .., _, _ => by simp [OpNE]
  | .take .., _, _ => by simp [OpNE]
  | .top .., _, _ => by simp [OpNE]
  | .extend .., _, _ => by simp [OpNE]
  | .sort p k ts, us, h => by
    simp only [unparseOp, Option.bind_eq_bind, Option.pure_def] at h
    split at h
    · simp at h
    · next hne => simpa [OpNE] using hne
  | .project p k cs, us, h => by
    simp only [unparseOp, Option.bind_eq_bind, Option.pure_def] at h
    split at h
    · simp at h
    · next hne => simpa [OpNE] using hne
  | .summarize p k cs b gs, us, h => by
    simp only [unparseOp, Option.bind_eq_bind, Option.pure_def, Option.bind_eq_some_iff] at h
    obtain ⟨css, hcss, gss, hgss, h⟩ := h
    simp only [OpNE]
    split at h
    · split at h
      · simp at h
      · next hne => cases gs <;> simp_all
    · split at h
      · simp at h
      · next hne => cases cs <;> simp_all
  | .join p k kind ka fl lp right rp on conds, us, h => by
    simp only [unparseOp, Option.bind_eq_bind, Option.pure_def, Option.bind_eq_some_iff] at h
    obtain ⟨r, hr, cs, hcs, h⟩ := h
    split at h
    · simp at h
    · next hne =>
      simp only [OpNE, Bool.and_eq_true, bne_iff_ne, ne_eq]
      exact ⟨tabNE_of_unparse right r hr, hne⟩
end

/-! ### `accounts`: plain `unparse` tokens carry the kind and value of a source token -/

theorem accounts_mem (pos : Bool) : ∀ (us : List UTok) (ts : List Token), accounts pos us ts = true →
    ∀ u ∈ us, u.alts = [] → u.kind = .error ∨ ∃ t ∈ ts, t.kind = u.kind ∧ t.value = u.value
  | [], _, _, u, hu, _ => by cases hu
  | u :: us, [], h, _, _, _ => by simp [accounts] at h
  | u :: us, t :: ts, h, u', hu', ha => by
    have hm : ∀ (t : Token), tokMatches u t = true → u.alts = [] →
        u.kind = .error ∨ (t.kind = u.kind ∧ t.value = u.value) := by
      intro t hm ha
      simp only [tokMatches, ha, List.isEmpty_nil, if_true, Bool.and_eq_true, beq_iff_eq,
        Bool.or_eq_true] at hm
      rcases hm.2 with h | h
      · exact Or.inl h
      · exact Or.inr ⟨hm.1.symm, h.symm⟩
    unfold accounts at h
    split at h
    · next hc =>
      simp only [Bool.and_eq_true] at hc
      rcases List.mem_cons.1 hu' with rfl | hu'
      · rcases hm t hc.1 ha with h1 | h1
        · exact Or.inl h1
        · exact Or.inr ⟨t, by simp, h1⟩
      · rcases accounts_mem pos us ts h u' hu' ha with h1 | ⟨t', ht', h1⟩
        · exact Or.inl h1
        · exact Or.inr ⟨t', List.mem_cons_of_mem _ ht', h1⟩
    · split at h
      · split at h
        · next t2 ts2 =>
          simp only [Bool.and_eq_true] at h
          rcases List.mem_cons.1 hu' with rfl | hu'
          · rcases hm t2 h.1.1 ha with h1 | h1
            · exact Or.inl h1
            · exact Or.inr ⟨t2, by simp, h1⟩
          · rcases accounts_mem pos us ts2 h.2 u' hu' ha with h1 | ⟨t', ht', h1⟩
            · exact Or.inl h1
            · exact Or.inr ⟨t', List.mem_cons_of_mem _ (List.mem_cons_of_mem _ ht'), h1⟩
        · cases h
      · cases h

/-- **Leaves of parsed trees come from tokens.**  If `P` holds of the kind and value of every token
    of `ts` (and of the kind `error` with any value), then every literal and function name in
    a translated expression of a statement of an error-free parse of `ts` satisfies `P`; and the
    lists the grammar needs non-empty are non-empty. -/
theorem parseTokens_leaves (P : LP) (hPe : ∀ v, P .error v = true) (srcLen : Nat) (ts : List Token)
    (stmts : List Stmt) (hok : TokOK ts) (hP : ∀ t ∈ ts, P t.kind t.value = true)
    (h : parseTokens srcLen ts = (stmts, [])) :
    ∀ s ∈ stmts, StmtAll (LE P) (LL P) s ∧ (∀ t, s = .tabular t → TabNE t = true) := by
  have hacc := parseTokens_acc srcLen ts stmts hok h
  have hsub := splitStatementsToks_sublist ts
  generalize splitStatementsToks ts = gs at hacc hsub
  clear h
  induction hacc with
  | nil => intro s hs; cases hs
  | @cons st g l₁ l₂ hR _ ih =>
    intro s hs
    rcases List.mem_cons.1 hs with rfl | hs
    · obtain ⟨us, hus, ha⟩ := hR
      have hg := hsub g (by simp)
      have hu : UOK P us := by
        intro u hu hal
        rcases accounts_mem true us g ha u hu hal with h1 | ⟨t, ht, hk, hv⟩
        · rw [h1]; exact hPe _
        · rw [← hk, ← hv]; exact hP t (hg.subset ht)
      refine ⟨stmt_of_unparse P s us hus hu, ?_⟩
      rintro t rfl
      exact tabNE_of_unparse t us hus
    · exact ih (fun g hg => hsub g (List.mem_cons_of_mem _ hg)) s hs

end Pql.ParsedOK
