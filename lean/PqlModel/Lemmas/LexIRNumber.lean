/-
`(*scanner).numberOrDot` as translated, third part: the whole function against the model's
`scanNumberOrDot`, case by case along the first `switch`.
-/
import PqlModel.Lemmas.LexIRHex
namespace Pql.LexIR
open Pql
set_option linter.unusedSimpArgs false
set_option linter.unusedVariables false

/-- the Go token of a model lexeme at offset `p0`; the value of an error token is its message, which
    the model does not keep (`msg`) -/
def lexTok (p0 : Nat) (lx : Lexeme) (msg : Bytes) : Val :=
  .tok lx.kind p0 (p0 + lx.width) (if lx.kind = .error then msg else lx.value)

/-! ### the model, case by case -/

theorem m_zero_dot (r : Bytes) : scanNumberOrDot (48 :: 46 :: r) = finishNumber (48 :: 46 :: r) 2 true := rfl

theorem m_zero_e (c2 : UInt8) (r : Bytes) (h : c2 = 101 ∨ c2 = 69) :
    scanNumberOrDot (48 :: c2 :: r) =
      ⟨.number, normalizeNumber ((48 :: c2 :: r).take (1 + exponentLen (c2 :: r))), 1 + exponentLen (c2 :: r)⟩ := by
  rcases h with rfl | rfl <;> simp [scanNumberOrDot, Nat.add_comm]

theorem m_zero_digit (c2 : UInt8) (r : Bytes) (h : isDigit c2 = true) :
    scanNumberOrDot (48 :: c2 :: r) = finishNumber (48 :: c2 :: r) 2 false := by
  have hd := h
  rw [isDigit_iff] at hd
  simp only [Bool.and_eq_true, decide_eq_true_eq] at hd
  have n1 : c2 ≠ 46 := by intro e; subst e; simp at hd
  have n2 : c2 ≠ 101 := by intro e; subst e; simp at hd
  have n3 : c2 ≠ 69 := by intro e; subst e; simp at hd
  have n4 : c2 ≠ 120 := by intro e; subst e; simp at hd
  have n5 : c2 ≠ 88 := by intro e; subst e; simp at hd
  simp [scanNumberOrDot, n1, n2, n3, n4, n5, h]

theorem m_zero_other (c2 : UInt8) (r : Bytes) (h : ¬ isDigit c2 = true) (n1 : c2 ≠ 46) (n2 : ¬ (c2 = 101 ∨ c2 = 69))
    (n3 : ¬ (c2 = 120 ∨ c2 = 88)) :
    scanNumberOrDot (48 :: c2 :: r) = finishNumber (48 :: c2 :: r) 1 false := by
  have a1 : c2 ≠ 101 := fun e => n2 (Or.inl e)
  have a2 : c2 ≠ 69 := fun e => n2 (Or.inr e)
  have a3 : c2 ≠ 120 := fun e => n3 (Or.inl e)
  have a4 : c2 ≠ 88 := fun e => n3 (Or.inr e)
  simp [scanNumberOrDot, n1, a1, a2, a3, a4, h]

theorem m_dot (c2 : UInt8) (r : Bytes) :
    scanNumberOrDot (46 :: c2 :: r) = if isDigit c2 then finishNumber (46 :: c2 :: r) 2 true else ⟨.dot, [], 1⟩ := by
  simp [scanNumberOrDot]

theorem m_digit (c : UInt8) (r : Bytes) (h : isDigit c = true) (n0 : c ≠ 48) :
    scanNumberOrDot (c :: r) = finishNumber (c :: r) 1 false := by
  have hd := h
  rw [isDigit_iff] at hd
  simp only [Bool.and_eq_true, decide_eq_true_eq] at hd
  have n1 : c ≠ 46 := by intro e; subst e; simp at hd
  simp [scanNumberOrDot, n0, n1]

/-- the hexadecimal case of the model is `hexOut` -/
theorem m_zero_x (pre : Bytes) (c2 : UInt8) (r : Bytes) (h : c2 = 120 ∨ c2 = 88) :
    ∃ msg, lexTok pre.length (scanNumberOrDot (48 :: c2 :: r)) msg = (hexOut pre r).1 ∧
      (scanNumberOrDot (48 :: c2 :: r)).width = (hexOut pre r).2 := by
  have hm : scanNumberOrDot (48 :: c2 :: r) =
      (let n := hexDigitsLen r
       if n == 0 then ⟨.error, [], 2⟩
       else
         let v := hexToNat (r.take n)
         if v < 18446744073709551616 then ⟨.number, natToDec v, n + 2⟩ else ⟨.error, [], n + 2⟩) := by
    rcases h with rfl | rfl <;> simp [scanNumberOrDot]
  rw [hm]
  unfold hexOut lexTok
  by_cases hn : hexDigitsLen r = 0
  · exact ⟨Bytes.ofString "invalid hex literal", by simp [hn], by simp [hn]⟩
  · by_cases hv : hexToNat (r.take (hexDigitsLen r)) < 18446744073709551616
    · exact ⟨[], by simp [hn, hv], by simp [hn, hv]⟩
    · exact ⟨[], by simp [hn, hv], by simp [hn, hv]⟩

/-! ### the function -/

/-- **`numberOrDot` is the model's `scanNumberOrDot`**: started at the beginning of `s` (after any
    prefix `pre`), on a source that is empty or begins with a digit or '.', the translated function
    returns the model's lexeme as a token at that offset and leaves the cursor after it -/
theorem numberOrDot_spec (lib : Lib) (env : Env) (fuel : Nat) (E : NumberEnv lib env fuel) (pre s : Bytes) (l : Nat)
    (hf : s.length < fuel) (hs : ∀ c rest, s = c :: rest → (isDigit c || c == 46) = true) :
    ∃ l' msg, interpFn env fuel numberOrDotDecl [.scanner] (hp pre s 0 l) =
      .ok ([lexTok pre.length (scanNumberOrDot s) msg], hp pre s (scanNumberOrDot s).width l') := by
  obtain ⟨fN, hN, sN⟩ := E.cursor.next
  obtain ⟨fP, hP, sP⟩ := E.cursor.prev
  obtain ⟨fA, hA, sA0⟩ := E.newSpan
  have sA : ∀ a b h, fA [.int a, .int b] h = .ok ([.span a b], h) := sA0
  obtain ⟨fI, hI, sI0⟩ := E.indexSpan
  have sI : ∀ a h, fI [.int a] h = .ok ([.span a a], h) := sI0
  obtain ⟨fX, hX, sX⟩ := E.exponent
  have hD := E.cursor.isDigit
  have hE := E.errorToken
  unfold HasPrim at hD hE
  cases s with
  | nil =>
    refine ⟨l, [], ?_⟩
    unfold numberOrDotDecl lexTok
    lx_simp [hN, hI, sI, hE, prims, next_end sN pre [] 0 l (by simp), scanNumberOrDot]
  | cons c rest =>
    have hc := hs c rest rfl
    obtain ⟨r0, w0, hd0, _, hq0, hdg0, _, hw0⟩ := rune_facts c rest
    have hlt0 : c.toNat < 128 := by
      by_cases h : isDigit c = true
      · exact isDigit_lt c h
      · simp only [h, Bool.false_or, beq_iff_eq] at hc
        subst hc; decide
    have hw : w0 = 1 := hw0 hlt0
    subst hw
    have nx0 := next_cons' sN pre (c :: rest) 0 l c rest r0 1 rfl hd0
    simp only [Nat.add_zero, Nat.zero_add] at nx0
    by_cases h48 : c = 48
    · subst h48
      have hr0 : r0 = 48 := (hq0 48 (by omega)).mpr rfl
      subst hr0
      cases rest with
      | nil =>
        refine ⟨pre.length, [], ?_⟩
        have hm : scanNumberOrDot [48] = ⟨.number, [48], 1⟩ := by simp [scanNumberOrDot]
        rw [hm]
        unfold numberOrDotDecl lexTok firstSwitch zeroCase
        lx_simp [hN, hA, sA, nx0, next_end sN pre [48] 1 pre.length (by simp), kind_number, ofString_zero]
      | cons c2 rest2 =>
        obtain ⟨r2, w2, hd2, _, hq2, hdg2, _, hw2⟩ := rune_facts c2 rest2
        have nx1 := next_cons' sN pre (48 :: c2 :: rest2) 1 pre.length c2 rest2 r2 w2 rfl hd2
        by_cases c46 : c2 = 46
        · subst c46
          have hr2 : r2 = 46 := (hq2 46 (by omega)).mpr rfl
          subst hr2
          have hw : w2 = 1 := hw2 (by decide)
          subst hw
          obtain ⟨b', l', hl⟩ := mant_loop lib env fuel E pre (48 :: 46 :: rest2) 48 true hf fuel 2 true (pre.length + 1)
            (by simp) (by simp at hf ⊢; omega)
          simp only [mSt, mVars] at hl
          refine ⟨l', [], ?_⟩
          rw [m_zero_dot, finishNumber_eq_finW]
          unfold numberOrDotDecl lexTok firstSwitch zeroCase
          lx_simp [hN, nx0, nx1, hl, numVal]
        · have q46 : ¬ r2 = 46 := fun h => c46 ((hq2 46 (by omega)).mp h)
          by_cases ce : c2 = 101 ∨ c2 = 69
          · have hw : w2 = 1 := hw2 (by rcases ce with rfl | rfl <;> decide)
            subst hw
            have hr2 : r2 = 101 ∨ r2 = 69 := by
              rcases ce with rfl | rfl
              · exact Or.inl ((hq2 101 (by omega)).mpr rfl)
              · exact Or.inr ((hq2 69 (by omega)).mpr rfl)
            obtain ⟨l', hx⟩ := sX pre (48 :: c2 :: rest2) 1 (pre.length + 1) (by simp) hf
            have hdr : List.drop 1 (48 :: c2 :: rest2) = c2 :: rest2 := rfl
            rw [hdr] at hx
            have hle : 1 + exponentLen (c2 :: rest2) ≤ (48 :: c2 :: rest2).length := by
              have := exponentLen_le (c2 :: rest2)
              simp at this ⊢; omega
            have hr := ret_normalized lib env fuel E pre (48 :: c2 :: rest2) (1 + exponentLen (c2 :: rest2)) l' hle
              [("ok", .bool true), ("c", .int r2), ("hasDecimalPoint", .bool false), ("ok", .bool true), ("c", .int 48),
                ("start", .int pre.length), ("s", .scanner)] [] (by simp) (by simp)
            refine ⟨l', [], ?_⟩
            rw [m_zero_e c2 rest2 ce]
            clear hq2 hd2 hw2
            rcases hr2 with rfl | rfl
            all_goals (
              unfold numberOrDotDecl lexTok firstSwitch zeroCase
              lx_simp [hN, hP, hX, nx0, nx1, hx, hr, numVal, prev_hp sP pre (48 :: c2 :: rest2) 1])
          · have qe1 : ¬ r2 = 101 := fun h => ce (Or.inl ((hq2 101 (by omega)).mp h))
            have qe2 : ¬ r2 = 69 := fun h => ce (Or.inr ((hq2 69 (by omega)).mp h))
            by_cases cx : c2 = 120 ∨ c2 = 88
            · have hw : w2 = 1 := hw2 (by rcases cx with rfl | rfl <;> decide)
              subst hw
              have hr2 : r2 = 120 ∨ r2 = 88 := by
                rcases cx with rfl | rfl
                · exact Or.inl ((hq2 120 (by omega)).mpr rfl)
                · exact Or.inr ((hq2 88 (by omega)).mpr rfl)
              obtain ⟨X, l', hb⟩ := hex_branch lib env fuel E pre (48 :: c2 :: rest2) (pre.length + 1) (by simp) hf
                [("ok", .bool true), ("c", .int r2), ("hasDecimalPoint", .bool false), ("ok", .bool true), ("c", .int 48),
                  ("start", .int pre.length), ("s", .scanner)] (by simp) (by simp)
              have hdr : List.drop 2 (48 :: c2 :: rest2) = rest2 := rfl
              rw [hdr] at hb
              obtain ⟨msg, hm1, hm2⟩ := m_zero_x pre c2 rest2 cx
              refine ⟨l', msg, ?_⟩
              rw [hm1, hm2]
              clear hq2 hd2 hw2
              rcases hr2 with rfl | rfl
              all_goals (
                unfold numberOrDotDecl firstSwitch zeroCase
                lx_simp [hN, nx0, nx1, hb])
            · have qx1 : ¬ r2 = 120 := fun h => cx (Or.inl ((hq2 120 (by omega)).mp h))
              have qx2 : ¬ r2 = 88 := fun h => cx (Or.inr ((hq2 88 (by omega)).mp h))
              by_cases hdig : isDigit c2 = true
              · have hw : w2 = 1 := hw2 (isDigit_lt c2 hdig)
                subst hw
                obtain ⟨b', l', hl⟩ := mant_loop lib env fuel E pre (48 :: c2 :: rest2) 48 true hf fuel 2 false
                  (pre.length + 1) (by simp) (by simp at hf ⊢; omega)
                simp only [mSt, mVars] at hl
                refine ⟨l', [], ?_⟩
                rw [m_zero_digit c2 rest2 hdig, finishNumber_eq_finW]
                unfold numberOrDotDecl lexTok firstSwitch zeroCase
                lx_simp [hN, nx0, nx1, q46, qe1, qe2, qx1, qx2, hD, prims, hdg2, hdig, hl, numVal]
              · obtain ⟨b', l', hl⟩ := mant_loop lib env fuel E pre (48 :: c2 :: rest2) 48 true hf fuel 1 false
                  (pre.length + 1) (by simp) (by simp at hf ⊢; omega)
                simp only [mSt, mVars] at hl
                refine ⟨l', [], ?_⟩
                rw [m_zero_other c2 rest2 hdig c46 ce cx, finishNumber_eq_finW]
                unfold numberOrDotDecl lexTok firstSwitch zeroCase
                lx_simp [hN, hP, nx0, nx1, q46, qe1, qe2, qx1, qx2, hD, prims, hdg2, hdig, hl, numVal,
                  prev_hp sP pre (48 :: c2 :: rest2) 1]
    · have q48 : ¬ r0 = 48 := fun h => h48 ((hq0 48 (by omega)).mp h)
      by_cases h46 : c = 46
      · subst h46
        have hr0 : r0 = 46 := (hq0 46 (by omega)).mpr rfl
        subst hr0
        cases rest with
        | nil =>
          refine ⟨pre.length, [], ?_⟩
          have hm : scanNumberOrDot [46] = ⟨.dot, [], 1⟩ := by simp [scanNumberOrDot]
          rw [hm]
          unfold numberOrDotDecl lexTok firstSwitch dotCase
          lx_simp [hN, hA, sA, nx0, next_end sN pre [46] 1 pre.length (by simp), kind_dot, ofString_empty]
        | cons c2 rest2 =>
          obtain ⟨r2, w2, hd2, _, hq2, hdg2, _, hw2⟩ := rune_facts c2 rest2
          have nx1 := next_cons' sN pre (46 :: c2 :: rest2) 1 pre.length c2 rest2 r2 w2 rfl hd2
          rw [m_dot]
          by_cases hdig : isDigit c2 = true
          · have hw : w2 = 1 := hw2 (isDigit_lt c2 hdig)
            subst hw
            obtain ⟨b', l', hl⟩ := mant_loop lib env fuel E pre (46 :: c2 :: rest2) 46 true hf fuel 2 true (pre.length + 1)
              (by simp) (by simp at hf ⊢; omega)
            simp only [mSt, mVars] at hl
            refine ⟨l', [], ?_⟩
            simp only [hdig, if_true, finishNumber_eq_finW]
            unfold numberOrDotDecl lexTok firstSwitch dotCase
            lx_simp [hN, nx0, nx1, hD, prims, hdg2, hdig, hl, numVal]
          · refine ⟨pre.length + 1, [], ?_⟩
            simp only [hdig, if_false]
            unfold numberOrDotDecl lexTok firstSwitch dotCase
            lx_simp [hN, hP, hA, sA, nx0, nx1, hD, prims, hdg2, hdig, prev_hp sP pre (46 :: c2 :: rest2) 1, kind_dot,
              ofString_empty]
      · have q46 : ¬ r0 = 46 := fun h => h46 ((hq0 46 (by omega)).mp h)
        have hdig : isDigit c = true := by
          simpa [h46] using hc
        obtain ⟨b', l', hl⟩ := mant_loop lib env fuel E pre (c :: rest) r0 true hf fuel 1 false (pre.length + 0)
          (by simp) (by simp at hf ⊢; omega)
        simp only [mSt, mVars, Nat.add_zero, Nat.zero_add] at hl
        refine ⟨l', [], ?_⟩
        rw [m_digit c rest hdig h48, finishNumber_eq_finW]
        unfold numberOrDotDecl lexTok firstSwitch otherCase
        lx_simp [hN, nx0, q48, q46, hD, prims, hdg0, hdig, hl, numVal]


end Pql.LexIR
