/-
`evalSelect` of a join-free SELECT reading one named table, in stages.
-/
import PqlModel.Spec.Intended
import PqlModel.Spec.Rel
namespace Pql.SelSem
open Pql Sql

abbrev ORow := Env × List Env × List Val

/-- output columns -/
def outColsOf (s : Select) (t : Table) : List Bytes :=
  s.items.flatMap fun it => if it.star then t.cols else [it.alias.getD (Bytes.ofString "?")]

def srcRowsOf (t : Table) : List (Env × List Val) := t.rows.map fun r => (envOfRow [] t.cols r, r)

def whereRows (s : Select) (t : Table) : List (Env × List Val) :=
  match s.where_ with
  | some w => (srcRowsOf t).filter fun r => evalS [] r.1 w == .bool true
  | none => srcRowsOf t

def isAggQ (s : Select) : Bool := !s.groupBy.isEmpty || s.items.any fun it => !it.star && hasAgg it.expr

def outRowsOf (s : Select) (t : Table) : List ORow :=
  if isAggQ s then
    let groups : List (List Val × List (Env × List Val)) :=
      if s.groupBy.isEmpty then [([], whereRows s t)]
      else groupBy (fun r => s.groupBy.map fun g => evalS [] r.1 g) (whereRows s t)
    groups.map fun (_, members) =>
      let genv := members.map (·.1)
      let env := (genv.head?).getD []
      let vals := s.items.flatMap fun it => if it.star then ((members.head?).map (·.2)).getD [] else [evalS genv env it.expr]
      (env, genv, vals)
  else
    (whereRows s t).map fun (env, flat) =>
      (env, [], s.items.flatMap fun it => if it.star then flat else [evalS [] env it.expr])

def sortStep (orderBy : List OrderTerm) (outCols : List Bytes) (rows : List ORow) : List ORow :=
  if orderBy.isEmpty then rows
  else
    sortByKeys (orderBy.map fun o => (o.asc, o.nullsFirst))
      (fun (r : ORow) =>
        let env := envOfRow [] outCols r.2.2 ++ r.1
        orderBy.map fun o => evalS r.2.1 env o.expr) rows

def limitStep (limit : Option SExpr) (rows : List ORow) : List ORow :=
  match limit with
  | some l => match limitOf (evalS [] [] l) with | some n => rows.take n | none => rows
  | none => rows

theorem evalSelect_table (db : DB) (ctes : List (Bytes × Table)) (s : Select) (n : Bytes)
    (hsrc : s.source = .named n none) (hj : s.join = none) (hd : s.distinct = false) :
    evalSelect db ctes s =
      let t := lookupTable db ctes n
      ⟨outColsOf s t, (limitStep s.limit (sortStep s.orderBy (outColsOf s t) (outRowsOf s t))).map (·.2.2)⟩ := by
  simp only [evalSelect, hsrc, hj, hd, refTable, Option.getD_none]
  rfl

end Pql.SelSem
