/-
ParseRoundtrip, stage (c): the shapes of SQL the writer emits, at token level.  `ExprP ts w`:
the token list `ts`, followed by anything that cannot continue an expression, is read by
`pExprS · 0` as `w` (up to `normS`); `UnitP` / `AtomP`: the same for `pUnaryS` / `pAtomS`, i.e.
`ts` is a *unit* that every operator context reads as one operand.
-/
import PqlModel.Lemmas.SqlRoundtripComb
namespace Pql.RT
open Pql Sql CompileOracle

def ExprP (ts : List STok) (w : SExpr) : Prop :=
  ∀ rest, Ends stopTok rest → ∃ s, normS s = normS w ∧ PE 0 (ts ++ rest) s rest
def UnitP (ts : List STok) (w : SExpr) : Prop :=
  ∀ rest, Ends unaryEndTok rest → ∃ s, normS s = normS w ∧ PU (ts ++ rest) s rest
def AtomP (ts : List STok) (w : SExpr) : Prop :=
  ∀ rest, Ends atomEndTok rest → ∃ s, normS s = normS w ∧ PA (ts ++ rest) s rest

theorem AtomP.toUnit {ts : List STok} {w : SExpr} (h : AtomP ts w) : UnitP ts w := fun rest hr => by
  obtain ⟨s, hs, ha⟩ := h rest (unaryEnd_atomEnd hr)
  exact ⟨s, hs, U_atom ha (P_stop hr)⟩

theorem UnitP.toExpr {ts : List STok} {w : SExpr} (h : UnitP ts w) : ExprP ts w := fun rest hr => by
  obtain ⟨s, hs, hu⟩ := h rest (stop_unaryEnd hr)
  exact ⟨s, hs, E_unary hu (T_stop hr)⟩

theorem AtomP.toExpr {ts : List STok} {w : SExpr} (h : AtomP ts w) : ExprP ts w := h.toUnit.toExpr

/-- a unit at any minimum precedence -/
theorem UnitP.atLevel {ts : List STok} {w : SExpr} (h : UnitP ts w) (m : Nat) (rest : List STok)
    (hr : Ends stopTok rest) : ∃ s, normS s = normS w ∧ PE m (ts ++ rest) s rest := by
  obtain ⟨s, hs, hu⟩ := h rest (stop_unaryEnd hr)
  exact ⟨s, hs, E_unary hu (T_stop hr)⟩

theorem ExprP.head {ts : List STok} {w : SExpr} (h : ExprP ts w) : ∃ t tl, ts = t :: tl ∧ startTok t = true := by
  obtain ⟨s, _, hp⟩ := h [] trivial
  rw [List.append_nil] at hp
  exact PE_head hp

/-! ### stop tokens inside the output -/

theorem stop_rparen : stopTok (S ")") = true := by decide
theorem stop_rbrack : stopTok (S "]") = true := by decide
theorem stop_comma : stopTok (S ",") = true := by decide
theorem stop_THEN : stopTok (W "THEN") = true := by simp [stopTok, unaryEndTok, atomEndTok, infixPrec]
theorem stop_ELSE : stopTok (W "ELSE") = true := by simp [stopTok, unaryEndTok, atomEndTok, infixPrec]
theorem stop_END : stopTok (W "END") = true := by simp [stopTok, unaryEndTok, atomEndTok, infixPrec]

/-! ### parentheses -/

theorem ExprP.paren {ts : List STok} {w : SExpr} (h : ExprP ts w) : AtomP (S "(" :: (ts ++ [S ")"])) w :=
  fun rest _ => by
    obtain ⟨s, hs, hp⟩ := h (S ")" :: rest) stop_rparen
    refine ⟨s, hs, ?_⟩
    have := A_paren hp
    simpa using this

/-! ### signs -/

theorem UnitP.neg {ts : List STok} {w : SExpr} (h : UnitP ts w) : UnitP (S "-" :: ts) (.neg w) := fun rest hr => by
  obtain ⟨s, hs, hu⟩ := h rest hr
  exact ⟨.neg s, by simp [normS, hs], U_neg hu⟩

theorem UnitP.pos {ts : List STok} {w : SExpr} (h : UnitP ts w) : UnitP (S "+" :: ts) (.pos w) := fun rest hr => by
  obtain ⟨s, hs, hu⟩ := h rest hr
  exact ⟨.pos s, by simp [normS, hs], U_pos hu⟩

/-! ### literals, columns, constants -/

theorem numP (v : Bytes) : AtomP [.num v] (.num v) := fun _ _ => ⟨.num v, rfl, A_num⟩
theorem strP (v : Bytes) : AtomP [.str v] (.str v) := fun _ _ => ⟨.str v, rfl, A_str⟩

theorem constP {w : Bytes} {c : String}
    (hw : (upper w == "TRUE" || upper w == "FALSE" || upper w == "NULL" || upper w == "CURRENT_TIMESTAMP") = true)
    (hc : upper w = c) : AtomP [.word w] (.const c) := fun rest hr => by
  subst hc
  exact ⟨_, rfl, A_const hw hr⟩

/-- `"a"."b"."c"` after the first part -/
def colTailToks (ns : List Bytes) : List STok := ns.flatMap fun n => [S ".", .qid n]

theorem colTailP (ns acc : List Bytes) (rest : List STok) (hr : Ends atomEndTok rest) :
    PC acc (colTailToks ns ++ rest) (.col (acc ++ ns)) rest := by
  induction ns generalizing acc with
  | nil => simpa [colTailToks] using C_stop hr
  | cons n ns ih =>
    have := C_step (ih (acc ++ [n]))
    simpa [colTailToks] using this

theorem colP (n : Bytes) (ns : List Bytes) : AtomP (.qid n :: colTailToks ns) (.col (n :: ns)) := fun rest hr => by
  refine ⟨_, rfl, ?_⟩
  have := A_col (colTailP ns [n] rest hr)
  simpa using this

/-! ### infix operators -/

/-- what the trail needs to know about an operator token -/
structure InfixTok (t : STok) (op : String) (p : Nat) : Prop where
  prec : infixPrec t = some (op, p)
  notIs : isWord t "IS" = false
  notIn : isWord t "IN" = false
  unaryEnd : unaryEndTok t = true

theorem infix_sym {s : String} {p : Nat} (h : infixPrec (S s) = some (s, p))
    (h1 : (s == ".") = false) (h2 : (s == "[") = false) (h3 : (s == "(") = false) : InfixTok (S s) s p :=
  ⟨h, rfl, rfl, by simp [unaryEndTok, atomEndTok, h1, h2, h3]⟩

theorem infix_eq : InfixTok (S "=") "=" 4 := infix_sym (by decide) (by decide) (by decide) (by decide)
theorem infix_ne : InfixTok (S "<>") "<>" 4 := infix_sym (by decide) (by decide) (by decide) (by decide)
theorem infix_lt : InfixTok (S "<") "<" 4 := infix_sym (by decide) (by decide) (by decide) (by decide)
theorem infix_le : InfixTok (S "<=") "<=" 4 := infix_sym (by decide) (by decide) (by decide) (by decide)
theorem infix_gt : InfixTok (S ">") ">" 4 := infix_sym (by decide) (by decide) (by decide) (by decide)
theorem infix_ge : InfixTok (S ">=") ">=" 4 := infix_sym (by decide) (by decide) (by decide) (by decide)
theorem infix_concat : InfixTok (S "||") "||" 5 := infix_sym (by decide) (by decide) (by decide) (by decide)
theorem infix_plus : InfixTok (S "+") "+" 6 := infix_sym (by decide) (by decide) (by decide) (by decide)
theorem infix_minus : InfixTok (S "-") "-" 6 := infix_sym (by decide) (by decide) (by decide) (by decide)
theorem infix_star : InfixTok (S "*") "*" 7 := infix_sym (by decide) (by decide) (by decide) (by decide)
theorem infix_slash : InfixTok (S "/") "/" 7 := infix_sym (by decide) (by decide) (by decide) (by decide)
theorem infix_mod : InfixTok (S "%") "%" 7 := infix_sym (by decide) (by decide) (by decide) (by decide)
theorem infix_AND : InfixTok (W "AND") "AND" 2 :=
  ⟨by simp [infixPrec], by simp, by simp, by simp [unaryEndTok, atomEndTok]⟩
theorem infix_OR : InfixTok (W "OR") "OR" 1 :=
  ⟨by simp [infixPrec], by simp, by simp, by simp [unaryEndTok, atomEndTok]⟩

/-- `x op y` with both operands units: whatever the precedence of `op`, the reader applies it to
    exactly these two operands -/
theorem binP {tx ty : List STok} {wx wy : SExpr} {t : STok} {op : String} {p : Nat} (ht : InfixTok t op p)
    (hx : UnitP tx wx) (hy : UnitP ty wy) : ExprP (tx ++ t :: ty) (.bin op wx wy) := fun rest hr => by
  obtain ⟨sy, hsy, hy⟩ := hy.atLevel (p + 1) rest hr
  obtain ⟨sx, hsx, hx⟩ := hx (t :: (ty ++ rest)) ht.unaryEnd
  refine ⟨.bin op sx sy, by simp [normS, hsx, hsy], ?_⟩
  have := E_unary hx (T_bin ht.prec ht.notIs ht.notIn (Nat.zero_le p) hy (T_stop hr))
  simpa using this

/-! ### function calls -/

theorem ws_coalesce : wordSafe (Bytes.ofString "coalesce") = true := by simp [wordSafe, operatorWords]
theorem ws_lower : wordSafe (Bytes.ofString "lower") = true := by simp [wordSafe, operatorWords]
theorem ws_LOWER : wordSafe (Bytes.ofString "LOWER") = true := by simp [wordSafe, operatorWords]
theorem ws_UPPER : wordSafe (Bytes.ofString "UPPER") = true := by simp [wordSafe, operatorWords]
theorem ws_count : wordSafe (Bytes.ofString "count") = true := by simp [wordSafe, operatorWords]

theorem falseP : ExprP [W "FALSE"] (.const "FALSE") := (constP (by simp) (by simp)).toExpr

/-- `name(e)` -/
theorem call1P {name : Bytes} {ts : List STok} {w : SExpr} (hn : wordSafe name = true) (h : ExprP ts w) :
    AtomP (.word name :: S "(" :: (ts ++ [S ")"])) (.call name false (.cons w .nil) .none_) := fun rest hr => by
  obtain ⟨t, tl, rfl, ht⟩ := h.head
  obtain ⟨s, hs, hp⟩ := h (S ")" :: rest) stop_rparen
  refine ⟨.call name false (.cons s .nil) .none_, by simp [normS, normL, hs], ?_⟩
  have hl : PL (t :: tl ++ S ")" :: rest) (.cons s .nil) (S ")" :: rest) := L_one hp (by simp [Ends])
  have := A_call_args hn ht (by simp) hl hr
  simpa using this

/-- `coalesce(e, FALSE)` -/
theorem coalesceP {ts : List STok} {w : SExpr} (h : ExprP ts w) :
    AtomP (W "coalesce" :: S "(" :: (ts ++ [S ",", W "FALSE", S ")"])) (coalesceFalse w) := fun rest hr => by
  obtain ⟨t, tl, rfl, ht⟩ := h.head
  obtain ⟨s, hs, hp⟩ := h (S "," :: W "FALSE" :: S ")" :: rest) stop_comma
  obtain ⟨sf, hsf, hf⟩ := falseP (S ")" :: rest) stop_rparen
  refine ⟨.call (Bytes.ofString "coalesce") false (.cons s (.cons sf .nil)) .none_, ?_, ?_⟩
  · simp [coalesceFalse, fnCall, normS, normL, hs, hsf]
  · have hl : PL (t :: tl ++ S "," :: W "FALSE" :: S ")" :: rest) (.cons s (.cons sf .nil)) (S ")" :: rest) :=
      L_cons hp (L_one hf (by simp [Ends]))
    have := A_call_args ws_coalesce ht (by simp) hl hr
    simpa using this

/-! ### argument lists -/

def ofL (l : List SExpr) : SExprList := l.foldr SExprList.cons .nil

/-- tokens of `a, b, c` given the token lists of the elements after the first -/
def sepTail (sep : STok) (bs : List (List STok × SExpr)) : List STok := bs.flatMap fun b => sep :: b.1

theorem commaP (bs : List (List STok × SExpr)) : ∀ (a : List STok × SExpr), ExprP a.1 a.2 →
    (∀ b ∈ bs, ExprP b.1 b.2) → ∀ rest, ∃ vs, normL vs = normL (ofL (a.2 :: bs.map (·.2))) ∧
      PL (a.1 ++ sepTail (S ",") bs ++ S ")" :: rest) vs (S ")" :: rest) := by
  induction bs with
  | nil =>
    intro a ha _ rest
    obtain ⟨s, hs, hp⟩ := ha (S ")" :: rest) stop_rparen
    exact ⟨.cons s .nil, by simp [ofL, normL, hs], by simpa [sepTail] using L_one hp (by simp [Ends])⟩
  | cons b bs ih =>
    intro a ha hbs rest
    obtain ⟨vs, hvs, hl⟩ := ih b (hbs b (by simp)) (fun c hc => hbs c (by simp [hc])) rest
    obtain ⟨s, hs, hp⟩ := ha (S "," :: (b.1 ++ sepTail (S ",") bs ++ S ")" :: rest)) stop_comma
    refine ⟨.cons s vs, ?_, ?_⟩
    · simp only [ofL, List.map_cons, List.foldr_cons, normL] at hvs ⊢
      rw [hs, hvs]
    · have := L_cons hp hl
      simpa [sepTail] using this

/-- `name(a, b, …)` with at least one argument -/
theorem callNP {name : Bytes} (hn : wordSafe name = true) (a : List STok × SExpr) (bs : List (List STok × SExpr))
    (ha : ExprP a.1 a.2) (hbs : ∀ b ∈ bs, ExprP b.1 b.2) :
    AtomP (.word name :: S "(" :: (a.1 ++ sepTail (S ",") bs ++ [S ")"]))
      (.call name false (ofL (a.2 :: bs.map (·.2))) .none_) := fun rest hr => by
  obtain ⟨vs, hvs, hl⟩ := commaP bs a ha hbs rest
  obtain ⟨t, tl, hta, ht⟩ := ha.head
  refine ⟨.call name false vs .none_, by simp [normS, hvs], ?_⟩
  rw [hta] at hl
  have := A_call_args hn ht (by simp) hl hr
  rw [hta]
  simpa using this

/-- `name()` -/
theorem call0P {name : Bytes} (hn : wordSafe name = true) :
    AtomP [.word name, S "(", S ")"] (.call name false .nil .none_) := fun rest hr =>
  ⟨_, rfl, by simpa using A_call_empty hn hr⟩

/-- `count() FILTER (WHERE c)` -/
theorem countifP {ts : List STok} {w : SExpr} (h : ExprP ts w) :
    AtomP ([W "count", S "(", S ")", W "FILTER", S "(", W "WHERE"] ++ (ts ++ [S ")"]))
      (.call (Bytes.ofString "count") false .nil w) := fun rest _ => by
  obtain ⟨s, hs, hp⟩ := h (S ")" :: rest) stop_rparen
  refine ⟨.call (Bytes.ofString "count") false .nil s, by simp [normS, normL, hs], ?_⟩
  have := A_call_filter ws_count hp
  simpa using this

/-- `CASE WHEN coalesce(c, FALSE) THEN a ELSE b END` -/
theorem caseP {tc ta tb : List STok} {wc wa wb : SExpr} (hc : ExprP tc wc) (ha : ExprP ta wa) (hb : ExprP tb wb) :
    AtomP (W "CASE" :: W "WHEN" :: W "coalesce" :: S "(" ::
        (tc ++ [S ",", W "FALSE", S ")", W "THEN"] ++ ta ++ [W "ELSE"] ++ tb ++ [W "END"]))
      (.case_ (coalesceFalse wc) wa wb) := fun rest _ => by
  obtain ⟨sb, hsb, hpb⟩ := hb (W "END" :: rest) stop_END
  obtain ⟨sa, hsa, hpa⟩ := ha (W "ELSE" :: (tb ++ W "END" :: rest)) stop_ELSE
  obtain ⟨sc, hsc, hpc⟩ := (coalesceP hc).toExpr (W "THEN" :: (ta ++ W "ELSE" :: (tb ++ W "END" :: rest))) stop_THEN
  refine ⟨.case_ sc sa sb, by simp [normS, hsc, hsa, hsb], ?_⟩
  have := A_case hpc hpa hpb
  simpa using this

/-! ### `||` chains -/

theorem concat_unaryEnd : unaryEndTok (S "||") = true := by decide

theorem strcatTailP (bs : List (List STok × SExpr)) : ∀ (acc sacc : SExpr), normS sacc = normS acc →
    (∀ b ∈ bs, UnitP b.1 b.2) → ∀ rest, Ends stopTok rest →
    ∃ s, normS s = normS (bs.foldl (fun acc b => .bin "||" acc b.2) acc) ∧
      PT 0 sacc (sepTail (S "||") bs ++ rest) s rest := by
  induction bs with
  | nil => intro acc sacc h _ rest hr; exact ⟨sacc, h, by simpa [sepTail] using T_stop hr⟩
  | cons b bs ih =>
    intro acc sacc h hbs rest hr
    -- the operand `b` is read at level 6 and stops before the next `||` (level 5) or at `rest`
    have hb : ∃ sb, normS sb = normS b.2 ∧
        PE 6 (b.1 ++ (sepTail (S "||") bs ++ rest)) sb (sepTail (S "||") bs ++ rest) := by
      cases bs with
      | nil => simpa [sepTail] using (hbs b (by simp)).atLevel 6 rest hr
      | cons c cs =>
        obtain ⟨sb, hsb, hu⟩ := hbs b (by simp) (S "||" :: (c.1 ++ (sepTail (S "||") cs ++ rest))) concat_unaryEnd
        refine ⟨sb, hsb, ?_⟩
        have := E_unary hu (T_low (m := 6) infix_concat.prec infix_concat.notIs infix_concat.notIn (by omega))
        simpa [sepTail] using this
    obtain ⟨sb, hsb, hpb⟩ := hb
    obtain ⟨s, hs, ht⟩ := ih (.bin "||" acc b.2) (.bin "||" sacc sb) (by simp [normS, h, hsb])
      (fun c hc => hbs c (by simp [hc])) rest hr
    refine ⟨s, by simpa using hs, ?_⟩
    have := T_bin (x := sacc) infix_concat.prec infix_concat.notIs infix_concat.notIn (Nat.zero_le 5) hpb ht
    simpa [sepTail] using this

/-- `a || b || c`, each operand a unit: read left-associated -/
theorem strcatP (a : List STok × SExpr) (bs : List (List STok × SExpr)) (ha : UnitP a.1 a.2)
    (hbs : ∀ b ∈ bs, UnitP b.1 b.2) :
    ExprP (a.1 ++ sepTail (S "||") bs) (bs.foldl (fun acc b => .bin "||" acc b.2) a.2) := fun rest hr => by
  have hend : Ends unaryEndTok (sepTail (S "||") bs ++ rest) := by
    cases bs with
    | nil => simpa [sepTail] using stop_unaryEnd hr
    | cons b bs => simp [sepTail, Ends, concat_unaryEnd]
  obtain ⟨sa, hsa, hu⟩ := ha _ hend
  obtain ⟨s, hs, ht⟩ := strcatTailP bs a.2 sa hsa hbs rest hr
  exact ⟨s, hs, by simpa using E_unary hu ht⟩

/-! ### `IN`, subscripts, `IS [NOT] NULL`, `NOT` -/

theorem inP {tx : List STok} {wx : SExpr} (hx : UnitP tx wx) (a : List STok × SExpr)
    (bs : List (List STok × SExpr)) (ha : ExprP a.1 a.2) (hbs : ∀ b ∈ bs, ExprP b.1 b.2) :
    ExprP (tx ++ W "IN" :: S "(" :: (a.1 ++ sepTail (S ",") bs ++ [S ")"]))
      (.inList wx (ofL (a.2 :: bs.map (·.2)))) := fun rest hr => by
  obtain ⟨vs, hvs, hl⟩ := commaP bs a ha hbs rest
  obtain ⟨sx, hsx, hu⟩ := hx (W "IN" :: S "(" :: (a.1 ++ sepTail (S ",") bs ++ S ")" :: rest))
    (by simp [Ends, unaryEndTok, atomEndTok])
  refine ⟨.inList sx vs, by simp [normS, hsx, hvs], ?_⟩
  have := E_unary hu (T_in (Nat.zero_le 4) hl (T_stop hr))
  simpa using this

theorem indexP {tx ti : List STok} {wx wi : SExpr} (hx : AtomP tx wx) (hi : ExprP ti wi) :
    UnitP (tx ++ S "[" :: (ti ++ [S "]"])) (.index wx wi) := fun rest hr => by
  obtain ⟨si, hsi, hpi⟩ := hi (S "]" :: rest) stop_rbrack
  obtain ⟨sx, hsx, hpx⟩ := hx (S "[" :: (ti ++ S "]" :: rest)) (show atomEndTok (S "[") = true by decide)
  refine ⟨.index sx si, by simp [normS, hsx, hsi], ?_⟩
  have := U_atom hpx (P_index hpi (P_stop hr))
  simpa using this

theorem isnullP {tx : List STok} {wx : SExpr} (hx : UnitP tx wx) :
    ExprP (tx ++ [W "IS", W "NULL"]) (.isNull wx false) := fun rest hr => by
  obtain ⟨sx, hsx, hu⟩ := hx (W "IS" :: W "NULL" :: rest) (by simp [Ends, unaryEndTok, atomEndTok])
  refine ⟨.isNull sx false, by simp [normS, hsx], ?_⟩
  have := E_unary hu (T_isnull (Nat.zero_le 4) (T_stop hr))
  simpa using this

theorem isnotnullP {tx : List STok} {wx : SExpr} (hx : UnitP tx wx) :
    ExprP (tx ++ [W "IS", W "NOT", W "NULL"]) (.isNull wx true) := fun rest hr => by
  obtain ⟨sx, hsx, hu⟩ := hx (W "IS" :: W "NOT" :: W "NULL" :: rest) (by simp [Ends, unaryEndTok, atomEndTok])
  refine ⟨.isNull sx true, by simp [normS, hsx], ?_⟩
  have := E_unary hu (T_isnotnull (Nat.zero_le 4) (T_stop hr))
  simpa using this

theorem notP {tx : List STok} {wx : SExpr} (hx : UnitP tx wx) : ExprP (W "NOT" :: tx) (.not_ wx) := fun rest hr => by
  obtain ⟨sx, hsx, hp⟩ := hx.atLevel 3 rest hr
  refine ⟨.not_ sx, by simp [normS, hsx], ?_⟩
  have := E_not (Nat.zero_le 3) hp (T_stop hr)
  simpa using this

theorem nowP : AtomP [W "CURRENT_TIMESTAMP"] (.const "CURRENT_TIMESTAMP") := constP (by simp) (by simp)

end Pql.RT
