/-
Side conditions discharged for parsed trees (part 4): translatability.

`tr join e` (the intended translation, Spec/CompileOracle.lean) is defined for every expression
that is structurally OK (`sOK`: what the parser builds without error) and in which every
built-in is called with a documented number of arguments (`arOK`).  The latter follows from
`Misuse.badExpr … = false`, i.e. (C13) from successful compilation.
-/
import PqlModel.Lemmas.ParsedOKExpr
import PqlModel.Lemmas.ExactBasic
import PqlModel.Spec.CompileOracle
namespace Pql.ParsedOK
open Pql Pql.Exact CompileOracle Sql

mutual
/-- every built-in below the expression is called with a documented number of arguments -/
def arOK : Expr → Bool
  | .call fn _ args _ => !Misuse.wrongArity fn.name args.length && arOKL args
  | .unary _ _ x => arOK x
  | .paren _ x _ => arOK x
  | .binary x _ _ y => arOK x && arOK y
  | .index x _ y _ => arOK x && arOK y
  | .inE x _ _ vs _ => arOK x && arOKL vs
  | .nil => true
  | .qident _ => true
  | .lit .. => true
def arOKL : ExprList → Bool
  | .nil => true
  | .cons e es => arOK e && arOKL es
end

mutual
theorem arOK_of_notBad (pos : Misuse.Pos) (bound : List Bytes) : ∀ e : Expr,
    Misuse.badExpr pos bound e = false → arOK e = true
  | .nil, _ => by simp [arOK]
  | .qident _, _ => by simp [arOK]
  | .lit .., _ => by simp [arOK]
  | .unary _ _ x, h => by
    simp only [Misuse.badExpr] at h
    simp only [arOK]; exact arOK_of_notBad pos bound x h
  | .paren _ x _, h => by
    simp only [Misuse.badExpr] at h
    simp only [arOK]; exact arOK_of_notBad pos bound x h
  | .binary x _ _ y, h => by
    simp only [Misuse.badExpr, Bool.or_eq_false_iff] at h
    simp only [arOK, Bool.and_eq_true]
    exact ⟨arOK_of_notBad pos bound x h.1, arOK_of_notBad pos bound y h.2⟩
  | .index x _ y _, h => by
    simp only [Misuse.badExpr, Bool.or_eq_false_iff] at h
    simp only [arOK, Bool.and_eq_true]
    exact ⟨arOK_of_notBad pos bound x h.1, arOK_of_notBad pos bound y h.2⟩
  | .inE x _ _ vs _, h => by
    simp only [Misuse.badExpr, Bool.or_eq_false_iff] at h
    simp only [arOK, Bool.and_eq_true]
    exact ⟨arOK_of_notBad pos bound x h.1, arOKL_of_notBad pos bound vs h.2⟩
  | .call fn _ args _, h => by
    simp only [Misuse.badExpr, Bool.or_eq_false_iff] at h
    simp only [arOK, Bool.and_eq_true, Bool.not_eq_true']
    exact ⟨h.1, arOKL_of_notBad pos bound args h.2⟩
theorem arOKL_of_notBad (pos : Misuse.Pos) (bound : List Bytes) : ∀ l : ExprList,
    Misuse.badList pos bound l = false → arOKL l = true
  | .nil, _ => by simp [arOKL]
  | .cons e es, h => by
    simp only [Misuse.badList, Bool.or_eq_false_iff] at h
    simp only [arOKL, Bool.and_eq_true]
    exact ⟨arOK_of_notBad pos bound e h.1, arOKL_of_notBad pos bound es h.2⟩
end

/-! ### documented arities, name by name -/

theorem wa_exact (name : String) (k n : Nat)
    (h : Misuse.arities.find? (fun a => Misuse.bytesEq (Bytes.ofString name) a.1) = some (name, true, k)) :
    Misuse.wrongArity (Bytes.ofString name) n = (n != k) := by
  unfold Misuse.wrongArity; rw [h]; rfl

theorem isName_eq {b : Bytes} {s : String} (h : isName b s = true) : b = Bytes.ofString s := by
  simpa [isName] using h

theorem len1 {α : Type} {l : List α} (h : l.length = 1) : ∃ a, l = [a] := by
  match l, h with
  | [a], _ => exact ⟨a, rfl⟩

theorem len3 {α : Type} {l : List α} (h : l.length = 3) : ∃ a b c, l = [a, b, c] := by
  match l, h with
  | [a, b, c], _ => exact ⟨a, b, c, rfl⟩

theorem trList_length (join : Bool) : ∀ (l : ExprList) (as : SExprList), trList join l = some as →
    as.toList.length = l.length
  | .nil, as, h => by
    simp only [trList, Option.some.injEq] at h
    subst h; rfl
  | .cons e es, as, h => by
    simp only [trList, Option.bind_eq_bind, Option.pure_def, Option.bind_eq_some_iff,
      Option.some.injEq] at h
    obtain ⟨a, _, as', has, rfl⟩ := h
    simp [SExprList.toList, ExprList.length, trList_length join es as' has]

/-- the call case of `tr`, given the translated arguments -/
theorem tr_call_isSome (join : Bool) (fn : Ident) (lp rp : Span) (args : ExprList) (as : SExprList)
    (has : trList join args = some as)
    (hw : Misuse.wrongArity fn.name args.length = false) :
    (tr join (.call fn lp args rp)).isSome = true := by
  have hlen := trList_length join args as has
  simp only [tr, has, Option.bind_eq_bind, Option.bind_some, Option.pure_def]
  rw [← hlen] at hw
  generalize as.toList = l at hw ⊢
  generalize fn.name = n at hw ⊢
  have e1 : ∀ (s : String) (k : Nat), isName n s = true →
      Misuse.arities.find? (fun a => Misuse.bytesEq (Bytes.ofString s) a.1) = some (s, true, k) →
      l.length = k := by
    intro s k hs hf
    rw [isName_eq hs, wa_exact s k _ hf] at hw
    simpa using hw
  split
  · next h => obtain ⟨a, rfl⟩ := len1 (e1 "not" 1 h (by decide)); rfl
  split
  · next h => obtain ⟨a, rfl⟩ := len1 (e1 "isnull" 1 h (by decide)); rfl
  split
  · next h => obtain ⟨a, rfl⟩ := len1 (e1 "isnotnull" 1 h (by decide)); rfl
  split
  · next h =>
    have : l.length = 3 := by
      rcases Bool.or_eq_true_iff.1 h with h | h
      · exact e1 "iff" 3 h (by decide)
      · exact e1 "iif" 3 h (by decide)
    obtain ⟨a, b, c, rfl⟩ := len3 this; rfl
  split
  · next h =>
    rw [isName_eq h] at hw
    have hf : Misuse.arities.find? (fun a => Misuse.bytesEq (Bytes.ofString "strcat") a.1) =
        some ("strcat", false, 1) := by decide
    unfold Misuse.wrongArity at hw
    rw [hf] at hw
    cases l with
    | nil => simp at hw
    | cons a rest => rfl
  split
  · next h => obtain ⟨a, rfl⟩ := len1 (e1 "tolower" 1 h (by decide)); rfl
  split
  · next h => obtain ⟨a, rfl⟩ := len1 (e1 "toupper" 1 h (by decide)); rfl
  split
  · next h =>
    have := List.eq_nil_of_length_eq_zero (e1 "now" 0 h (by decide))
    subst this; rfl
  split
  · next h =>
    have := List.eq_nil_of_length_eq_zero (e1 "count" 0 h (by decide))
    subst this; rfl
  split
  · next h => obtain ⟨a, rfl⟩ := len1 (e1 "countif" 1 h (by decide)); rfl
  rfl

theorem tr_binary_isSome (join : Bool) (x y : Expr) (os : Span) (op : TokKind) (a b : SExpr)
    (hx : tr join x = some a) (hy : tr join y = some b) (hk : knownBinOp op = true) :
    (tr join (.binary x os op y)).isSome = true := by
  simp only [tr, hx, hy, Option.bind_eq_bind, Option.bind_some, Option.pure_def]
  split
  · split <;> rfl
  split
  · rfl
  split
  · rfl
  split
  · rfl
  cases op <;> first
    | rfl
    | (exfalso; revert hk; decide)
    | simp_all

mutual
/-- **Translatability.**  A structurally OK expression whose built-ins are called with documented
    arities has an intended translation, in plain and in join mode. -/
theorem tr_isSome (join : Bool) : ∀ e : Expr, sOK e = true → arOK e = true → (tr join e).isSome = true
  | .nil, h, _ => by simp [sOK] at h
  | .qident parts, _, _ => by
    simp only [tr]
    split
    · split
      · rfl
      · split
        · rfl
        · split <;> rfl
    · rfl
  | .lit _ k v, h, _ => by
    simp only [sOK, Bool.or_eq_true, decide_eq_true_eq] at h
    rcases h with rfl | rfl <;> simp [tr]
  | .unary _ op x, h, ha => by
    simp only [sOK, Bool.and_eq_true, Bool.or_eq_true, decide_eq_true_eq] at h
    simp only [arOK] at ha
    obtain ⟨a, hx⟩ := Option.isSome_iff_exists.1 (tr_isSome join x h.2 ha)
    simp only [tr, hx, Option.bind_eq_bind, Option.bind_some, Option.pure_def]
    rcases h.1 with rfl | rfl <;> simp
  | .paren _ x _, h, ha => by
    simp only [sOK] at h
    simp only [arOK] at ha
    simp only [tr]
    exact tr_isSome join x h ha
  | .binary x os op y, h, ha => by
    simp only [sOK, Bool.and_eq_true] at h
    simp only [arOK, Bool.and_eq_true] at ha
    obtain ⟨a, hx⟩ := Option.isSome_iff_exists.1 (tr_isSome join x h.2.1 ha.1)
    obtain ⟨b, hy⟩ := Option.isSome_iff_exists.1 (tr_isSome join y h.2.2 ha.2)
    exact tr_binary_isSome join x y os op a b hx hy h.1
  | .index x _ y _, h, ha => by
    simp only [sOK, Bool.and_eq_true] at h
    simp only [arOK, Bool.and_eq_true] at ha
    obtain ⟨a, hx⟩ := Option.isSome_iff_exists.1 (tr_isSome join x h.1 ha.1)
    obtain ⟨b, hy⟩ := Option.isSome_iff_exists.1 (tr_isSome join y h.2 ha.2)
    simp [tr, hx, hy]
  | .inE x _ _ vs _, h, ha => by
    simp only [sOK, Bool.and_eq_true] at h
    simp only [arOK, Bool.and_eq_true] at ha
    obtain ⟨a, hx⟩ := Option.isSome_iff_exists.1 (tr_isSome join x h.1 ha.1)
    obtain ⟨b, hy⟩ := Option.isSome_iff_exists.1 (trList_isSome join vs h.2.1 ha.2)
    simp [tr, hx, hy]
  | .call fn lp args rp, h, ha => by
    simp only [sOK, Bool.and_eq_true] at h
    simp only [arOK, Bool.and_eq_true, Bool.not_eq_true'] at ha
    obtain ⟨as, has⟩ := Option.isSome_iff_exists.1 (trList_isSome join args h.2 ha.2)
    exact tr_call_isSome join fn lp rp args as has ha.1
theorem trList_isSome (join : Bool) : ∀ l : ExprList, sOKList l = true → arOKL l = true →
    (trList join l).isSome = true
  | .nil, _, _ => by simp [trList]
  | .cons e es, h, ha => by
    simp only [sOKList, Bool.and_eq_true] at h
    simp only [arOKL, Bool.and_eq_true] at ha
    obtain ⟨a, hx⟩ := Option.isSome_iff_exists.1 (tr_isSome join e h.1 ha.1)
    obtain ⟨b, hy⟩ := Option.isSome_iff_exists.1 (trList_isSome join es h.2 ha.2)
    simp [trList, hx, hy]
end

end Pql.ParsedOK
