/-
C13 exactness, stage 1 (expressions): `writeExpr` agrees with `Misuse.badExpr` on every
expression whose binary operators are ones the compiler translates (`opsKnown`; the parser
produces no others).  Nil sub-expressions need no exclusion here: both sides accept them.
-/
import PqlModel.Lemmas.ExactBasic
namespace Pql.Exact
open Pql

theorem arityRejects_ne {w : String} {k n : Nat}
    (h1 : Facts.writerArityGuard.find? (·.1 == w) = some (w, "!=", k))
    (h : arityRejects w n = false) : n = k := by
  unfold arityRejects at h
  rw [h1] at h
  simpa using h

theorem arityRejects_eq0 {w : String} {n : Nat}
    (h1 : Facts.writerArityGuard.find? (·.1 == w) = some (w, "==", 0))
    (h : arityRejects w n = false) : n ≠ 0 := by
  unfold arityRejects at h
  rw [h1] at h
  simpa using h

theorem assembleKnown_ok :
    ∀ row ∈ Facts.knownFunctions, ∀ l : List (Expr × List Chunk),
      arityRejects row.2.1 l.length = false → ∃ cs, assembleKnown row.2.1 l = .ok cs := by
  intro row hrow l h
  simp only [Facts.knownFunctions, List.mem_cons, List.not_mem_nil, or_false] at hrow
  rcases hrow with hr | hr | hr | hr | hr | hr | hr | hr | hr | hr | hr <;> subst hr
  · exact ⟨_, rfl⟩
  · have := arityRejects_ne (k := 1) (by decide) h
    match l, this with
    | [a], _ => exact ⟨_, rfl⟩
  · have := arityRejects_ne (k := 3) (by decide) h
    match l, this with
    | [a, b, c], _ => exact ⟨_, rfl⟩
  · have := arityRejects_ne (k := 3) (by decide) h
    match l, this with
    | [a, b, c], _ => exact ⟨_, rfl⟩
  · have := arityRejects_ne (k := 1) (by decide) h
    match l, this with
    | [a], _ => exact ⟨_, rfl⟩
  · have := arityRejects_ne (k := 1) (by decide) h
    match l, this with
    | [a], _ => exact ⟨_, rfl⟩
  · have := arityRejects_ne (k := 1) (by decide) h
    match l, this with
    | [a], _ => exact ⟨_, rfl⟩
  · exact ⟨_, rfl⟩
  · have := arityRejects_eq0 (by decide) h
    match l, this with
    | a :: l', _ => exact ⟨_, rfl⟩
  · have := arityRejects_ne (k := 1) (by decide) h
    match l, this with
    | [a], _ => exact ⟨_, rfl⟩
  · have := arityRejects_ne (k := 1) (by decide) h
    match l, this with
    | [a], _ => exact ⟨_, rfl⟩

/-! ### expressions -/

/-- the binary operators `writeExpression` translates (all the parser produces) -/
def knownBinOp (op : TokKind) : Bool :=
  op == .eq || op == .ne || op == .cieq || op == .cine || (binaryOpText op).isSome

mutual
/-- every binary operator below the expression is one the compiler translates -/
def opsKnown : Expr → Bool
  | .nil => true
  | .qident _ => true
  | .lit .. => true
  | .unary _ _ x => opsKnown x
  | .binary x _ op y => knownBinOp op && (opsKnown x && opsKnown y)
  | .inE x _ _ vals _ => opsKnown x && opsKnownList vals
  | .paren _ x _ => opsKnown x
  | .call _ _ args _ => opsKnownList args
  | .index x _ idx _ => opsKnown x && opsKnown idx
def opsKnownList : ExprList → Bool
  | .nil => true
  | .cons e es => opsKnown e && opsKnownList es
end

def posOf : Mode → Misuse.Pos
  | .default => .plain
  | .join => .join
  | .let_ => .letValue

theorem posOf_letValue (m : Mode) : (posOf m == Misuse.Pos.letValue) = decide (m = .let_) := by
  cases m <;> rfl

theorem posOf_ne_join (m : Mode) : (posOf m != Misuse.Pos.join) = decide (m ≠ .join) := by
  cases m <;> rfl

theorem writeList_length (ctx : Ctx) : ∀ (es : ExprList) (as : List (List Chunk)),
    writeList ctx es = .ok as → as.length = es.length
  | .nil, as, h => by
    rw [writeList] at h
    cases h; rfl
  | .cons e es, as, h => by
    rw [writeList] at h
    cases hx : writeExpr ctx e with
    | error e' => rw [hx] at h; cases h
    | ok x =>
      cases hxs : writeList ctx es with
      | error e' => rw [hx, hxs] at h; cases h
      | ok xs =>
        rw [hx, hxs] at h
        cases h
        simp only [List.length_cons, ExprList.length]
        rw [writeList_length ctx es xs hxs]

theorem toList_length : ∀ es : ExprList, es.toList.length = es.length
  | .nil => rfl
  | .cons e es => by simp only [ExprList.toList, ExprList.length, List.length_cons, toList_length es]

theorem Agrees.ite_err {α : Type} (c : Bool) (x : α) :
    Agrees (if c = true then (Except.error .err : Except WErr α) else .ok x) c := by
  cases c
  · exact Agrees.ok _
  · exact Agrees.err

theorem writeQident_one (ctx : Ctx) (p : Ident) :
    Agrees (writeExpr ctx (.qident [p]))
      (Misuse.badExpr (posOf ctx.mode) (names ctx.scope) (.qident [p])) := by
  rw [writeExpr, Misuse.badExpr]
  rw [← lookupScope_isSome, ← builtinIdent_isSome, posOf_letValue, posOf_ne_join, isAlias_eq]
  cases hq : p.quoted <;> cases hl : lookupScope ctx.scope p.name <;>
    cases hb : builtinIdent p.name <;> by_cases hm : ctx.mode = .let_ <;>
    simp only [hm, hq, Bool.not_true, Bool.not_false, Option.isSome_some, Option.isSome_none, if_true, if_false,
      Bool.false_eq_true, Bool.true_and, Bool.false_and, Bool.or_false, Bool.or_true,
      decide_true, decide_false, List.any_cons, List.any_nil, reduceCtorEq, not_false_eq_true, ne_eq]
  all_goals first
    | exact Agrees.ok _
    | exact Agrees.err
    | exact Agrees.ite_err _ _

theorem writeQident_many (ctx : Ctx) (parts : List Ident) (h : ∀ p, parts ≠ [p]) :
    Agrees (writeExpr ctx (.qident parts))
      (Misuse.badExpr (posOf ctx.mode) (names ctx.scope) (.qident parts)) := by
  rw [writeExpr, Misuse.badExpr]
  · rw [posOf_letValue, posOf_ne_join]
    by_cases hm : ctx.mode = .let_
    · simp only [hm, decide_true, if_true]
      exact Agrees.err
    · simp only [hm, decide_false, if_false, Bool.false_eq_true]
      have : (parts.any fun p => !p.quoted && (p.name == leftAlias || p.name == rightAlias) && decide (ctx.mode ≠ Mode.join))
          = ((parts.any fun p => !p.quoted && Misuse.isAlias p.name) && decide (ctx.mode ≠ Mode.join)) := by
        cases decide (ctx.mode ≠ Mode.join)
        · simp only [Bool.and_false, List.any_eq_false]
          intro x _ hx; cases hx
        · simp only [Bool.and_true, isAlias_eq]
      rw [this]
      exact Agrees.ite_err _ _
  all_goals exact fun p hp => h p hp

theorem writeQident_agrees (ctx : Ctx) (parts : List Ident) :
    Agrees (writeExpr ctx (.qident parts))
      (Misuse.badExpr (posOf ctx.mode) (names ctx.scope) (.qident parts)) := by
  match parts with
  | [p] => exact writeQident_one ctx p
  | [] => exact writeQident_many ctx _ (fun p hp => by cases hp)
  | p :: q :: r => exact writeQident_many ctx _ (fun p hp => by cases hp)

theorem binaryOpText_eq_none_of (op : TokKind) (h : knownBinOp op = true)
    (h1 : op ≠ .eq) (h2 : op ≠ .ne) (h3 : op ≠ .cieq) (h4 : op ≠ .cine) :
    ∃ sql, binaryOpText op = some sql := by
  unfold knownBinOp at h
  simp only [Bool.or_eq_true, beq_iff_eq, h1, h2, h3, h4, false_or] at h
  exact Option.isSome_iff_exists.1 h

mutual
theorem writeExpr_agrees (ctx : Ctx) : ∀ e : Expr, opsKnown e = true →
    Agrees (writeExpr ctx e) (Misuse.badExpr (posOf ctx.mode) (names ctx.scope) e)
  | .nil, _ => by rw [writeExpr, Misuse.badExpr]; exact Agrees.ok _
  | .qident parts, _ => writeQident_agrees ctx parts
  | .lit _ k v, _ => by
    rw [writeExpr, Misuse.badExpr]
    split
    · exact Agrees.ok _
    · split <;> exact Agrees.ok _
  | .paren _ x _, h => by
    rw [writeExpr, Misuse.badExpr]
    rw [opsKnown] at h
    exact writeExpr_agrees ctx x h
  | .unary _ op x, h => by
    rw [writeExpr, Misuse.badExpr]
    rw [opsKnown] at h
    exact Agrees.bind_pure _ (Agrees.map _ (writeExpr_agrees ctx x h))
  | .binary x _ op y, h => by
    rw [opsKnown, Bool.and_eq_true, Bool.and_eq_true] at h
    have ihx := writeExpr_agrees ctx x h.2.1
    have ihy := writeExpr_agrees ctx y h.2.2
    rw [writeExpr, Misuse.badExpr]
    split
    · dsimp only
      split <;> exact Agrees.bind (Agrees.map _ ihx) (fun xs => Agrees.bind_pure _ (Agrees.map _ ihy))
    · next h1 =>
      split
      · exact Agrees.bind (Agrees.map _ ihx) (fun xs => Agrees.bind_pure _ (Agrees.map _ ihy))
      · next h2 =>
        split
        · exact Agrees.bind ihx (fun xs => Agrees.bind_pure _ ihy)
        · next h3 =>
          split
          · exact Agrees.bind ihx (fun xs => Agrees.bind_pure _ ihy)
          · next h4 =>
            obtain ⟨sql, hs⟩ := binaryOpText_eq_none_of op h.1 h1 h2 h3 h4
            rw [hs]
            exact Agrees.bind (Agrees.map _ ihx) (fun xs => Agrees.bind_pure _ (Agrees.map _ ihy))
  | .inE x _ _ vals _, h => by
    rw [opsKnown, Bool.and_eq_true] at h
    rw [writeExpr, Misuse.badExpr]
    exact Agrees.bind (Agrees.map _ (writeExpr_agrees ctx x h.1))
      (fun xs => Agrees.bind_pure _ (writeListMaybeParen_agrees ctx vals h.2))
  | .index x _ idx _, h => by
    rw [opsKnown, Bool.and_eq_true] at h
    rw [writeExpr, Misuse.badExpr]
    exact Agrees.bind (Agrees.map _ (writeExpr_agrees ctx x h.1))
      (fun xs => Agrees.bind_pure _ (writeExpr_agrees ctx idx h.2))
  | .call fn _ args _, h => by
    rw [opsKnown] at h
    have ih := writeList_agrees ctx args h
    rw [writeExpr, Misuse.badExpr]
    cases hk : knownFunction fn.name with
    | none =>
      rw [wrongArity_of_unknown hk, Bool.false_or]
      exact Agrees.bind_pure _ ih
    | some wn =>
      obtain ⟨writer, np⟩ := wn
      obtain ⟨row, hrow, hname, hw⟩ := knownFunction_some hk
      have har := arity_agrees_all row hrow args.length
      rw [hw, ← hname] at har
      rw [← har]
      simp only []
      cases hrej : arityRejects writer args.length with
      | true => simp only [if_true, Bool.true_or]; exact Agrees.err
      | false =>
        simp only [Bool.false_eq_true, if_false, Bool.false_or]
        refine (Agrees.bind' ih (b2 := false) ?_).of_eq (Bool.or_false _)
        intro as has
        have hlen : (args.toList.zip as).length = args.length := by
          rw [List.length_zip, toList_length, writeList_length ctx args as has, Nat.min_self]
        rw [← hlen, ← hw] at hrej
        obtain ⟨cs, hcs⟩ := assembleKnown_ok row hrow _ hrej
        rw [← hw, hcs]
        exact Agrees.ok _
theorem writeList_agrees (ctx : Ctx) : ∀ es : ExprList, opsKnownList es = true →
    Agrees (writeList ctx es) (Misuse.badList (posOf ctx.mode) (names ctx.scope) es)
  | .nil, _ => by rw [writeList, Misuse.badList]; exact Agrees.ok _
  | .cons e es, h => by
    rw [opsKnownList, Bool.and_eq_true] at h
    rw [writeList, Misuse.badList]
    exact Agrees.bind (writeExpr_agrees ctx e h.1) (fun x => Agrees.bind_pure _ (writeList_agrees ctx es h.2))
theorem writeListMaybeParen_agrees (ctx : Ctx) : ∀ es : ExprList, opsKnownList es = true →
    Agrees (writeListMaybeParen' ctx es) (Misuse.badList (posOf ctx.mode) (names ctx.scope) es)
  | .nil, _ => by rw [writeListMaybeParen', Misuse.badList]; exact Agrees.ok _
  | .cons e es, h => by
    rw [opsKnownList, Bool.and_eq_true] at h
    rw [writeListMaybeParen', Misuse.badList]
    exact Agrees.bind (Agrees.map _ (writeExpr_agrees ctx e h.1))
      (fun x => Agrees.bind_pure _ (writeListMaybeParen_agrees ctx es h.2))
end
end Pql.Exact
