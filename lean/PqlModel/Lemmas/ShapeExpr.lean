/-
The expression writer is parametric in contents: writing `mapE φ e` gives the output of writing
`e` with related pieces (`MapCong φ R`), and the same error when `e` does not compile —
provided the content map is inert on `e` (fixes the names the writer looks at).
-/
import PqlModel.Lemmas.ShapeInert
namespace Pql

section
variable {φ : CMap} {R : List Chunk → List Chunk → Prop}

/-! ### unfolding `writeExpr` on identifiers -/

def aliasErr (m : Mode) (p : Ident) : Bool :=
  !p.quoted && (p.name == leftAlias || p.name == rightAlias) && decide (m ≠ .join)

theorem writeExpr_qident_single (ctx : Ctx) (p : Ident) : writeExpr ctx (.qident [p]) =
    if p.quoted then (if ctx.mode = .let_ then .error .err else .ok [.qid p.name])
    else match lookupScope ctx.scope p.name with
      | some sql => .ok sql
      | none => match builtinIdent p.name with
        | some sql => .ok [.txt sql]
        | none => if ctx.mode = .let_ then .error .err
          else if aliasErr ctx.mode p then .error .err else .ok [.qid p.name] := by
  obtain ⟨n, sp, q⟩ := p
  simp only [writeExpr, List.any_cons, List.any_nil, Bool.or_false, List.map_cons, List.map_nil, sepChunks, aliasErr]
  cases q with
  | true =>
    simp only [Bool.not_true, Bool.false_eq_true, if_false, Bool.false_and, if_true]
    by_cases hm : ctx.mode = .let_ <;> simp only [hm, if_true, if_false]
  | false =>
    simp only [Bool.not_false, if_true, Bool.true_and, Bool.false_eq_true, if_false]
    cases lookupScope ctx.scope n with
    | some sql => rfl
    | none =>
      dsimp only
      cases builtinIdent n with
      | some sql => rfl
      | none =>
        dsimp only
        by_cases hm : ctx.mode = .let_ <;> simp only [hm, if_true, if_false]

theorem writeExpr_qident_multi (ctx : Ctx) (parts : List Ident) (h : parts.length ≠ 1) : writeExpr ctx (.qident parts) =
    if ctx.mode = .let_ then .error .err
    else if parts.any (aliasErr ctx.mode) then .error .err
    else .ok (sepChunks "." (parts.map fun p => [.qid p.name])) := by
  match parts, h with
  | [], _ =>
    simp only [writeExpr]
    by_cases hm : ctx.mode = .let_ <;> simp only [hm, if_true, if_false] <;> rfl
  | _ :: _ :: _, _ =>
    simp only [writeExpr]
    by_cases hm : ctx.mode = .let_ <;> simp only [hm, if_true, if_false] <;> rfl
  | [p], h => simp at h

/-! ### identifiers -/

theorem aliasErr_ident {s : Scope} {m : Mode} {single : Bool} {p : Ident}
    (h : inertPart s m φ single p = true) : aliasErr m (φ.ident p) = aliasErr m p :=
  inertPart_aliasErr h

theorem fn_of_key {s : Scope} {m : Mode} {single : Bool} {p : Ident}
    (h : inertPart s m φ single p = true) (hk : keyName s m single p = true) : φ.fn p.name = p.name := by
  exact inertPart_key h hk

theorem qident_single_rel (hR : MapCong φ R) {src src' : Bytes} {s s' : Scope} {m : Mode}
    (hs : ScopeRel R s s') (p : Ident) (h : inertPart s m φ true p = true) :
    ExRel R (writeExpr ⟨src, s, m⟩ (.qident [p])) (writeExpr ⟨src', s', m⟩ (.qident [φ.ident p])) := by
  have hal := aliasErr_ident h
  rw [writeExpr_qident_single, writeExpr_qident_single]
  simp only [CMap.ident_quoted, CMap.ident_name, hal]
  cases hk : keyName s m true p with
  | true =>
    have hn := fn_of_key h hk
    rw [hn]
    have hq0 := hR.qid p.name
    rw [hn] at hq0
    have hsc := hs p.name
    repeat' apply ExRel.ite
    · exact ExRel.error_error _
    · exact hq0
    · revert hsc
      generalize lookupScope s p.name = l1
      generalize lookupScope s' p.name = l2
      intro hsc
      cases hsc with
      | some hab => exact hab
      | none =>
        dsimp only
        cases hb : builtinIdent p.name with
        | some sql => exact hR.txt _
        | none =>
          dsimp only
          repeat' apply ExRel.ite
          · exact ExRel.error_error _
          · exact ExRel.error_error _
          · exact hq0
  | false =>
    have hk' := inertPart_notKey h hk
    have hk'' : keyName s' m true (φ.ident p) = false := by rw [keyName_scopeRel hs]; exact hk'
    cases hq : p.quoted with
    | true =>
      simp only [if_true]
      apply ExRel.ite
      · exact ExRel.error_error _
      · exact hR.qid _
    | false =>
      simp only [Bool.false_eq_true, if_false]
      simp only [keyName, hq, Bool.not_false, Bool.true_or, Bool.and_true, Bool.true_and, Bool.or_eq_false_iff,
        Option.isSome_eq_false_iff, Option.isNone_iff_eq_none, CMap.ident_quoted, CMap.ident_name] at hk hk''
      rw [hk.2.1, hk.2.2, hk''.2.1, hk''.2.2]
      dsimp only
      repeat' apply ExRel.ite
      · exact ExRel.error_error _
      · exact ExRel.error_error _
      · exact hR.qid _

theorem qident_rel (hR : MapCong φ R) {src src' : Bytes} {s s' : Scope} {m : Mode}
    (hs : ScopeRel R s s') (parts : List Ident) (h : inertE s m φ (.qident parts) = true) :
    ExRel R (writeExpr ⟨src, s, m⟩ (.qident parts)) (writeExpr ⟨src', s', m⟩ (mapE φ (.qident parts))) := by
  simp only [inertE, List.all_eq_true] at h
  simp only [mapE]
  by_cases hl : parts.length = 1
  · match parts, hl with
    | [p], _ => exact qident_single_rel hR hs p (h p (List.mem_cons_self ..))
  · rw [writeExpr_qident_multi _ _ hl, writeExpr_qident_multi _ _ (by rw [List.length_map]; exact hl)]
    have hany : (parts.map φ.ident).any (aliasErr m) = parts.any (aliasErr m) :=
      any_map_congr _ _ _ fun x hx => aliasErr_ident (h x hx)
    have hsep : R (sepChunks "." (parts.map fun p => [Chunk.qid p.name]))
        (sepChunks "." ((parts.map φ.ident).map fun p => [Chunk.qid p.name])) := by
      apply hR.sepChunks
      clear h hl hany
      induction parts with
      | nil => exact .nil
      | cons a l ih => exact .cons (hR.qid _) ih
    simp only [hany]
    repeat' apply ExRel.ite
    · exact ExRel.error_error _
    · exact ExRel.error_error _
    · exact hsep

/-! ### the built-in rewrites -/

/-- an argument of a known function: its plain output, and its output in operand position -/
def MArgRel (R : List Chunk → List Chunk → Prop) (p p' : Expr × List Chunk) : Prop :=
  R p.2 p'.2 ∧ R (wrapMaybe p.1 p.2) (wrapMaybe p'.1 p'.2)

theorem assembleKnown_mrel (hR : MapCong φ R) (w : String)
    {l l' : List (Expr × List Chunk)} (h : ListRel (MArgRel R) l l') :
    ExRel R (assembleKnown w l) (assembleKnown w l') := by
  have hmp : ListRel R (l.map fun a => wrapMaybe a.1 a.2) (l'.map fun a => wrapMaybe a.1 a.2) :=
    h.map fun _ _ hab => hab.2
  unfold assembleKnown
  dsimp only
  repeat' apply ExRel.ite
  -- not
  · cases h with
    | nil => exact ExRel.error_error _
    | cons hab _ => exact hR.cons_txt _ hab.2
  -- now
  · exact hR.txt _
  -- isnull
  · cases h with
    | nil => exact ExRel.error_error _
    | cons hab _ => exact hR.append hab.2 (hR.txt _)
  -- isnotnull
  · cases h with
    | nil => exact ExRel.error_error _
    | cons hab _ => exact hR.append hab.2 (hR.txt _)
  -- strcat
  · cases h with
    | nil => exact ExRel.error_error _
    | cons hab _ => exact hR.sepChunks _ hmp
  -- count
  · exact hR.txt _
  -- countif
  · cases h with
    | nil => exact ExRel.error_error _
    | cons hab _ => exact hR.cons_txt _ (hR.append hab.1 (hR.txt _))
  -- iff
  · cases h with
    | nil => exact ExRel.error_error _
    | cons ha h =>
      cases h with
      | nil => exact ExRel.error_error _
      | cons hb h =>
        cases h with
        | nil => exact ExRel.error_error _
        | cons hc _ =>
          have h1 := ha.1
          have h2 := hb.1
          have h3 := hc.1
          show R _ _
          map_frame hR
  -- tolower
  · cases h with
    | nil => exact ExRel.error_error _
    | cons hab _ => exact hR.cons_txt _ (hR.append hab.1 (hR.txt _))
  -- toupper
  · cases h with
    | nil => exact ExRel.error_error _
    | cons hab _ => exact hR.cons_txt _ (hR.append hab.1 (hR.txt _))
  · exact ExRel.error_error _

/-! ### the induction -/

/-- relation between the two argument lists of a call -/
def MArgsRel (R : List Chunk → List Chunk → Prop) (es es' : ExprList) (as as' : List (List Chunk)) : Prop :=
  ListRel R as as' ∧ ListRel (MArgRel R) (es.toList.zip as) (es'.toList.zip as')

variable {src src' : Bytes} {s s' : Scope} {m : Mode}

theorem mrel_wrapMaybe (hR : MapCong φ R) (x : Expr)
    (h : ExRel R (writeExpr ⟨src, s, m⟩ x) (writeExpr ⟨src', s', m⟩ (mapE φ x))) :
    ExRel R ((writeExpr ⟨src, s, m⟩ x).map (wrapMaybe x))
      ((writeExpr ⟨src', s', m⟩ (mapE φ x)).map (wrapMaybe (mapE φ x))) :=
  h.map fun _ _ hab => hR.wrapMaybe x hab

theorem mrel_wrapTight (hR : MapCong φ R) (x : Expr)
    (h : ExRel R (writeExpr ⟨src, s, m⟩ x) (writeExpr ⟨src', s', m⟩ (mapE φ x))) :
    ExRel R ((writeExpr ⟨src, s, m⟩ x).map (wrapTight x))
      ((writeExpr ⟨src', s', m⟩ (mapE φ x)).map (wrapTight (mapE φ x))) :=
  h.map fun _ _ hab => hR.wrapTight x hab

mutual
theorem mapE_rel (hR : MapCong φ R) (hs : ScopeRel R s s') :
    (e : Expr) → inertE s m φ e = true →
      ExRel R (writeExpr ⟨src, s, m⟩ e) (writeExpr ⟨src', s', m⟩ (mapE φ e))
  | .paren _ x _, hi => by
    simp only [inertE] at hi
    simp only [mapE, writeExpr]
    exact mapE_rel hR hs x hi
  | .qident parts, hi => qident_rel hR hs parts hi
  | .lit _ k val, _ => by
    simp only [mapE, writeExpr, CMap.lit]
    by_cases hk : k = .number
    · subst hk
      simp only [if_true, show ¬(TokKind.number = TokKind.string) by decide, if_false]
      exact hR.num _
    · by_cases hk2 : k = .string
      · subst hk2
        simp only [if_true, show ¬(TokKind.string = TokKind.number) by decide, if_false]
        exact hR.qstr _
      · simp only [hk, hk2, if_false]
        exact hR.txt _
  | .nil, _ => by
    simp only [mapE, writeExpr]
    exact hR.txt _
  | .unary _ op x, hi => by
    simp only [inertE] at hi
    simp only [mapE, writeExpr]
    refine ExRel.bind (mrel_wrapTight hR x (mapE_rel hR hs x hi)) fun a a' ha => ExRel.pure_pure ?_
    exact hR.cons_txt _ ha
  | .index x _ idx _, hi => by
    simp only [inertE, Bool.and_eq_true] at hi
    simp only [mapE, writeExpr]
    refine ExRel.bind (mrel_wrapTight hR x (mapE_rel hR hs x hi.1)) fun a a' ha =>
      ExRel.bind (mapE_rel hR hs idx hi.2) fun b b' hb => ExRel.pure_pure ?_
    map_frame hR
  | .inE x _ _ vals _, hi => by
    simp only [inertE, Bool.and_eq_true] at hi
    simp only [mapE, writeExpr]
    refine ExRel.bind (mrel_wrapMaybe hR x (mapE_rel hR hs x hi.1)) fun a a' ha =>
      ExRel.bind (mapLMP_rel hR hs vals hi.2) fun b b' hb => ExRel.pure_pure ?_
    have := hR.sepChunks ", " hb
    map_frame hR
  | .call fn _ args _, hi => by
    simp only [inertE] at hi
    simp only [mapE, writeExpr, mapL_length, CMap.fnIdent_name]
    split
    · split
      · exact ExRel.error_error _
      · exact ExRel.bind (mapL_rel hR hs args hi) fun a a' ha => assembleKnown_mrel hR _ ha.2
    · refine ExRel.bind (mapL_rel hR hs args hi) fun a a' ha => ExRel.pure_pure ?_
      have := hR.sepChunks ", " ha.1
      map_frame hR
  | .binary x _ op y, hi => by
    simp only [inertE, Bool.and_eq_true] at hi
    have hx0 := mapE_rel hR hs x hi.1
    have hy0 := mapE_rel hR hs y hi.2
    have hx := mrel_wrapMaybe hR x hx0
    have hy := mrel_wrapMaybe hR y hy0
    simp only [mapE, writeExpr]
    have hjoin : (m = .join ∧ ((hasJoinTerms (mapE φ x)).1 || (hasJoinTerms (mapE φ y)).1) = true ∧
        ((hasJoinTerms (mapE φ x)).2 || (hasJoinTerms (mapE φ y)).2) = true) ↔
        (m = .join ∧ ((hasJoinTerms x).1 || (hasJoinTerms y).1) = true ∧
        ((hasJoinTerms x).2 || (hasJoinTerms y).2) = true) := by
      by_cases hm : m = .join
      · subst hm
        rw [hasJoinTerms_mapE x hi.1, hasJoinTerms_mapE y hi.2]
      · simp only [hm, false_and]
    simp only [hjoin]
    repeat' apply ExRel.ite
    · refine ExRel.bind hx fun a a' ha => ExRel.bind hy fun b b' hb => ExRel.pure_pure ?_
      map_frame hR
    · refine ExRel.bind hx fun a a' ha => ExRel.bind hy fun b b' hb => ExRel.pure_pure ?_
      map_frame hR
    · refine ExRel.bind hx fun a a' ha => ExRel.bind hy fun b b' hb => ExRel.pure_pure ?_
      map_frame hR
    · refine ExRel.bind hx0 fun a a' ha => ExRel.bind hy0 fun b b' hb => ExRel.pure_pure ?_
      map_frame hR
    · refine ExRel.bind hx0 fun a a' ha => ExRel.bind hy0 fun b b' hb => ExRel.pure_pure ?_
      map_frame hR
    · split
      · refine ExRel.bind hx fun a a' ha => ExRel.bind hy fun b b' hb => ExRel.pure_pure ?_
        map_frame hR
      · exact hR.txt _

theorem mapL_rel (hR : MapCong φ R) (hs : ScopeRel R s s') :
    (es : ExprList) → inertL s m φ es = true →
      ExRel (MArgsRel R es (mapL φ es)) (writeList ⟨src, s, m⟩ es) (writeList ⟨src', s', m⟩ (mapL φ es))
  | .nil, _ => by
    simp only [mapL, writeList]
    exact ⟨.nil, .nil⟩
  | .cons e es, hi => by
    simp only [inertL, Bool.and_eq_true] at hi
    have h0 := mapE_rel hR hs e hi.1
    simp only [mapL, writeList]
    refine ExRel.bind h0 fun a a' haa => ?_
    refine ExRel.bind (mapL_rel hR hs es hi.2) fun b b' hb => ExRel.pure_pure ?_
    exact ⟨.cons haa hb.1, .cons ⟨haa, hR.wrapMaybe e haa⟩ hb.2⟩

theorem mapLMP_rel (hR : MapCong φ R) (hs : ScopeRel R s s') :
    (es : ExprList) → inertL s m φ es = true →
      ExRel (ListRel R) (writeListMaybeParen' ⟨src, s, m⟩ es) (writeListMaybeParen' ⟨src', s', m⟩ (mapL φ es))
  | .nil, _ => by
    simp only [mapL, writeListMaybeParen']
    exact .nil
  | .cons e es, hi => by
    simp only [inertL, Bool.and_eq_true] at hi
    simp only [mapL, writeListMaybeParen']
    exact ExRel.bind (mrel_wrapMaybe hR e (mapE_rel hR hs e hi.1)) fun a a' ha =>
      ExRel.bind (mapLMP_rel hR hs es hi.2) fun b b' hb => ExRel.pure_pure (.cons ha hb)
end

end

end Pql
