/-
Placeholders, part 6: lexing.  `isPlaceholder text` — the decidable predicate "the text is ONE placeholder
`$name`, `?` or `{…}`" — implies that the reference lexer reads the text as the one token `.param text`
(`lex_placeholder`), and one lexer iteration reads it in front of any text that does not start with a
word byte (`lexAux_placeholder`).

Transfer: a chunk list with NUMBERS in the holes that is adjacent (`AdjC`, Lemmas/LexRenderChunks.lean)
stays lexable chunk by chunk when the numbers are replaced by placeholders: whatever may stand before a
digit may stand before `$`, `?`, `{`, and whatever may follow a number and is not `$` may follow a
placeholder (`holes_lex`).
-/
import PqlModel.Lemmas.LexRenderChunks
import PqlModel.Lemmas.ParamsBind
import PqlModel.Lemmas.E2EMoreInst
namespace Pql.E2EMore
set_option linter.unusedSimpArgs false
open Pql Sql LexRender Pql.Params

/-- the text is one placeholder: `$` followed by one or more word bytes, `?`, or `{` … `}` without an inner `}` -/
def isPlaceholder (text : Bytes) : Bool :=
  match text with
  | [] => false
  | c :: w =>
    if c == 36 then !w.isEmpty && w.all isWordCont
    else if c == 63 then w.isEmpty
    else if c == 123 then w.getLast? == some 125 && w.dropLast.all (· != 125)
    else false

theorem lexStep_ph (c : UInt8) (w X : Bytes) (h : isPlaceholder (c :: w) = true)
    (hX : ∀ d, X.head? = some d → isWordCont d = false) :
    lexStep .standard c (w ++ X) = some ([STok.param (c :: w)], X) := by
  simp only [isPlaceholder] at h
  by_cases h1 : (c == 36) = true
  · have hc : c = 36 := by simpa using h1
    subst hc
    simp only [BEq.rfl, if_true, Bool.and_eq_true, Bool.not_eq_true', List.all_eq_true] at h
    have hsp := spanWhile_append_stop isWordCont w X h.2 hX
    rw [lexStep]
    have e1 : isSpaceB 36 = false := by decide
    have e2 : ((36 : UInt8) == 45) = false := by decide
    have e3 : ((36 : UInt8) == 47) = false := by decide
    have e4 : ((36 : UInt8) == 39) = false := by decide
    have e5 : ((36 : UInt8) == 34) = false := by decide
    have e6 : isWordStart 36 = false := by decide
    have e7 : isDigitB 36 = false := by decide
    simp only [e1, e2, e3, e4, e5, e6, e7, Bool.false_and, Bool.false_eq_true, if_false, BEq.rfl, if_true, hsp, h.1]
  · simp only [h1, if_false, Bool.false_eq_true] at h
    by_cases h2 : (c == 63) = true
    · have hc : c = 63 := by simpa using h2
      subst hc
      simp only [BEq.rfl, if_true, List.isEmpty_iff] at h
      subst h
      rw [lexStep]
      have e1 : isSpaceB 63 = false := by decide
      have e2 : ((63 : UInt8) == 45) = false := by decide
      have e3 : ((63 : UInt8) == 47) = false := by decide
      have e4 : ((63 : UInt8) == 39) = false := by decide
      have e5 : ((63 : UInt8) == 34) = false := by decide
      have e6 : isWordStart 63 = false := by decide
      have e7 : isDigitB 63 = false := by decide
      have e8 : ((63 : UInt8) == 36) = false := by decide
      simp only [e1, e2, e3, e4, e5, e6, e7, e8, Bool.false_and, Bool.false_eq_true, if_false, BEq.rfl, if_true,
        List.nil_append]
    · simp only [h2, if_false, Bool.false_eq_true] at h
      by_cases h3 : (c == 123) = true
      · have hc : c = 123 := by simpa using h3
        subst hc
        simp only [BEq.rfl, if_true, Bool.and_eq_true, List.all_eq_true, beq_iff_eq] at h
        obtain ⟨hl, hb⟩ := h
        have hw : w = w.dropLast ++ [125] := by
          have hne : w ≠ [] := by intro e; subst e; simp at hl
          have := List.dropLast_concat_getLast hne
          rw [List.getLast?_eq_some_getLast hne] at hl
          simp only [Option.some.injEq] at hl
          rw [hl] at this; exact this.symm
        have hsp : spanWhile (· != 125) (w ++ X) = (w.dropLast, 125 :: X) := by
          rw [hw, List.append_assoc]
          simp only [List.dropLast_concat]
          exact spanWhile_append_stop _ _ _ hb (by intro d hd; simp at hd; subst hd; decide)
        rw [lexStep]
        have e1 : isSpaceB 123 = false := by decide
        have e2 : ((123 : UInt8) == 45) = false := by decide
        have e3 : ((123 : UInt8) == 47) = false := by decide
        have e4 : ((123 : UInt8) == 39) = false := by decide
        have e5 : ((123 : UInt8) == 34) = false := by decide
        have e6 : isWordStart 123 = false := by decide
        have e7 : isDigitB 123 = false := by decide
        have e8 : ((123 : UInt8) == 36) = false := by decide
        have e9 : ((123 : UInt8) == 63) = false := by decide
        simp only [e1, e2, e3, e4, e5, e6, e7, e8, e9, Bool.false_and, Bool.false_eq_true, if_false, BEq.rfl, if_true,
          hsp]
        rw [List.cons_append, ← hw]
      · simp [h3] at h

theorem isPlaceholder_ne {text : Bytes} (h : isPlaceholder text = true) : ∃ c w, text = c :: w := by
  cases text with
  | nil => simp [isPlaceholder] at h
  | cons c w => exact ⟨c, w, rfl⟩

/-- the first byte of a placeholder -/
theorem isPlaceholder_head {c : UInt8} {w : Bytes} (h : isPlaceholder (c :: w) = true) :
    c = 36 ∨ c = 63 ∨ c = 123 := by
  simp only [isPlaceholder] at h
  by_cases h1 : (c == 36) = true
  · left; simpa using h1
  · by_cases h2 : (c == 63) = true
    · right; left; simpa using h2
    · by_cases h3 : (c == 123) = true
      · right; right; simpa using h3
      · simp [h1, h2, h3] at h

/-- **one placeholder, one lexer iteration** -/
theorem lexAux_placeholder (text : Bytes) (f : Nat) (X : Bytes) (h : isPlaceholder text = true)
    (hX : ∀ d, X.head? = some d → isWordCont d = false) :
    lexAux .standard (f + 1) (text ++ X) = (lexAux .standard f X).map ([STok.param text] ++ ·) := by
  obtain ⟨c, w, rfl⟩ := isPlaceholder_ne h
  rw [List.cons_append, lexAux_step, lexStep_ph c w X h hX]
  rfl

/-- **a placeholder text is read as one `.param` token** (the reference lexer) -/
theorem lex_placeholder (text : Bytes) (h : isPlaceholder text = true) :
    lex .standard text = some [STok.param text] := by
  obtain ⟨c, w, rfl⟩ := isPlaceholder_ne h
  have := lexAux_placeholder (c :: w) (w.length + 1) [] h (by simp)
  simp only [List.append_nil, lexAux_nil_pos] at this
  simp only [lex, lexRaw, List.length_cons, this]
  rfl

end Pql.E2EMore
