/-
Basic lemmas for property C07 (forward direction: every program of the grammar is parsed to
the tree the grammar prescribes).

* inversion of `accounts`: from `accounts true (us₁ ++ us₂) ts` back to a decomposition of `ts`;
* what a single matched token looks like (`tokOk_sym_inv` …);
* `NoLparenComma ts` — no comma token directly after a `(` token.  `accounts` allows a comma
  before the `)` of a call whether or not the call has arguments; the parser allows it only
  after an argument (`f(,)` is rejected), so the forward theorem needs this hypothesis;
* `Real e ts` — the token list `ts` realises the tree `e` (`unparse` accounts for it, with
  positions) — and its inversion lemmas, one per constructor.
-/
import PqlModel.Lemmas.AccountedBasic
namespace Pql
open Grammar

/-! ### no comma directly after `(` -/

/-- no comma token directly follows a `(` token -/
def NoLparenComma : List Token → Bool
  | [] => true
  | a :: ts =>
    (match ts with
     | b :: _ => !(a.kind == .lparen && b.kind == .comma)
     | [] => true) && NoLparenComma ts

theorem nlc_tail {a : Token} {ts : List Token} (h : NoLparenComma (a :: ts) = true) :
    NoLparenComma ts = true := by
  simp only [NoLparenComma, Bool.and_eq_true] at h
  exact h.2

theorem nlc_right : ∀ {a b : List Token}, NoLparenComma (a ++ b) = true → NoLparenComma b = true
  | [], _, h => h
  | _ :: a, b, h => nlc_right (a := a) (nlc_tail h)

theorem nlc_left : ∀ {a b : List Token}, NoLparenComma (a ++ b) = true → NoLparenComma a = true
  | [], _, _ => rfl
  | [x], b, h => by simp [NoLparenComma]
  | x :: y :: a, b, h => by
    have ih := nlc_left (a := y :: a) (b := b) (nlc_tail h)
    simp only [List.cons_append, NoLparenComma, Bool.and_eq_true] at h ih ⊢
    exact ⟨h.1, ih⟩

theorem nlc_head {a b : Token} {ts : List Token} (h : NoLparenComma (a :: b :: ts) = true)
    (ha : a.kind = .lparen) : b.kind ≠ .comma := by
  simp only [NoLparenComma, Bool.and_eq_true] at h
  intro hb
  simp [ha, hb] at h

/-! ### inversion of `accounts` -/

theorem accounts_cons_inv {u : UTok} {us : List UTok} {ts : List Token} (ho : u.optComma = false)
    (h : accounts true (u :: us) ts = true) :
    ∃ t ts', ts = t :: ts' ∧ tokOk u t = true ∧ accounts true us ts' = true := by
  cases ts with
  | nil => simp [accounts] at h
  | cons t ts' =>
    unfold accounts at h
    split at h
    · rename_i hm
      simp only [Bool.not_true, Bool.false_or] at hm
      exact ⟨t, ts', rfl, by simpa [tokOk] using hm, h⟩
    · simp [ho] at h

/-- with the optional comma: either the token itself, or a comma and then the token -/
theorem accounts_cons_inv_opt {u : UTok} {us : List UTok} {ts : List Token}
    (h : accounts true (u :: us) ts = true) :
    (∃ t ts', ts = t :: ts' ∧ tokOk u t = true ∧ accounts true us ts' = true) ∨
    (∃ cm t ts', ts = cm :: t :: ts' ∧ cm.kind = .comma ∧ tokOk u t = true ∧ accounts true us ts' = true ∧
      u.optComma = true) := by
  cases ts with
  | nil => simp [accounts] at h
  | cons t ts' =>
    unfold accounts at h
    split at h
    · rename_i hm
      simp only [Bool.not_true, Bool.false_or] at hm
      exact Or.inl ⟨t, ts', rfl, by simpa [tokOk] using hm, h⟩
    · split at h
      · rename_i hc
        cases ts' with
        | nil => simp at h
        | cons t2 ts2 =>
          simp only [Bool.not_true, Bool.false_or, Bool.and_eq_true] at h
          simp only [Bool.and_eq_true, beq_iff_eq] at hc
          exact Or.inr ⟨t, t2, ts2, rfl, hc.2, by simpa [tokOk, Bool.and_eq_true] using h.1, h.2, hc.1⟩
      · simp at h

theorem accounts_split : ∀ {us1 us2 : List UTok} {ts : List Token},
    accounts true (us1 ++ us2) ts = true →
    ∃ ts1 ts2, ts = ts1 ++ ts2 ∧ accounts true us1 ts1 = true ∧ accounts true us2 ts2 = true
  | [], us2, ts, h => ⟨[], ts, rfl, accounts_nil _, by simpa using h⟩
  | u :: us1, us2, [], h => by simp [accounts] at h
  | u :: us1, us2, t :: ts, h => by
    simp only [List.cons_append] at h
    unfold accounts at h
    split at h
    · rename_i hm
      obtain ⟨ts1, ts2, rfl, h1, h2⟩ := accounts_split h
      refine ⟨t :: ts1, ts2, rfl, ?_, h2⟩
      unfold accounts
      rw [if_pos hm]
      exact h1
    · rename_i hm
      split at h
      · rename_i hc
        cases ts with
        | nil => simp at h
        | cons t2 ts' =>
          simp only [Bool.and_eq_true] at h
          obtain ⟨ts1, ts2, rfl, h1, h2⟩ := accounts_split h.2
          refine ⟨t :: t2 :: ts1, ts2, rfl, ?_, h2⟩
          unfold accounts
          rw [if_neg hm, if_pos hc]
          simp only [Bool.and_eq_true]
          exact ⟨h.1, h1⟩
      · simp at h

/-! ### what a matched token looks like -/

theorem span_eq {t : Token} {sp : Span} (h1 : sp.start = (t.start : Int)) (h2 : sp.stop = (t.stop : Int)) :
    t.span = sp := by
  cases sp; simp only [Token.span] at *; simp [h1, h2]

theorem tokOk_sym_inv {k : TokKind} {sp : Span} {t : Token} (h : tokOk (sym k sp) t = true) :
    t.kind = k ∧ t.span = sp := by
  simp only [tokOk, tokMatches, posMatches, sym, Bool.and_eq_true, beq_iff_eq] at h
  exact ⟨h.1.1.symm, span_eq h.2.1 h.2.2⟩

theorem tokOk_symOpt_inv {k : TokKind} {sp : Span} {t : Token} {b : Bool}
    (h : tokOk { sym k sp with optComma := b } t = true) : t.kind = k ∧ t.span = sp := by
  simp only [tokOk, tokMatches, posMatches, sym, Bool.and_eq_true, beq_iff_eq] at h
  exact ⟨h.1.1.symm, span_eq h.2.1 h.2.2⟩

theorem tokOk_commaTok_inv {t : Token} (h : tokOk commaTok t = true) : t.kind = .comma := by
  simp only [tokOk, tokMatches, commaTok, Bool.and_eq_true, beq_iff_eq] at h
  exact h.1.1.symm

theorem tokOk_dot_inv {t : Token} (h : tokOk { kind := .dot } t = true) : t.kind = .dot := by
  simp only [tokOk, tokMatches, Bool.and_eq_true, beq_iff_eq] at h
  exact h.1.1.symm

/-- an identifier token: the parser's `Ident` built from it is the tree's -/
theorem tokOk_identTok_inv {i : Ident} {t : Token} (h : tokOk (identTok i) t = true) :
    (t.kind = .ident ∨ t.kind = .qident) ∧ i = ⟨t.value, t.span, t.kind = .qident⟩ := by
  obtain ⟨name, sp, q⟩ := i
  simp only [tokOk, tokMatches, posMatches, identTok, Bool.and_eq_true, beq_iff_eq] at h
  obtain ⟨⟨hk, hv⟩, hs1, hs2⟩ := h
  have hsp := span_eq hs1 hs2
  cases q with
  | true =>
    simp only [if_true] at hk hv
    have hv' : name = t.value := by
      simpa [← hk] using hv
    refine ⟨Or.inr hk.symm, ?_⟩
    simp [hv', hsp, ← hk]
  | false =>
    simp only [Bool.false_eq_true, if_false] at hk hv
    have hv' : name = t.value := by
      simpa [← hk] using hv
    refine ⟨Or.inl hk.symm, ?_⟩
    simp [hv', hsp, ← hk]

theorem tokOk_lit_inv {k : TokKind} {v : Bytes} {sp : Span} {t : Token} (hk : k ≠ .error)
    (h : tokOk { kind := k, value := v, start := some sp.start, stop := some sp.stop } t = true) :
    t.kind = k ∧ t.value = v ∧ t.span = sp := by
  simp only [tokOk, tokMatches, posMatches, Bool.and_eq_true, beq_iff_eq] at h
  obtain ⟨⟨hk', hv⟩, hs1, hs2⟩ := h
  refine ⟨hk'.symm, ?_, span_eq hs1 hs2⟩
  simp only [List.isEmpty_nil, if_true, Bool.or_eq_true, beq_iff_eq] at hv
  rcases hv with hv | hv
  · exact absurd hv hk
  · exact hv.symm

/-! ### `Real e ts`: the token list realises the tree -/

/-- `ts` realises `e`: `unparse e` accounts for `ts` including every claimed position, and no
    comma directly follows a `(` -/
def Real (e : Expr) (ts : List Token) : Prop :=
  ∃ us, unparseExpr e = some us ∧ accounts true us ts = true ∧ NoLparenComma ts = true

def RealL (l : ExprList) (ts : List Token) : Prop :=
  ∃ us, unparseExprList l = some us ∧ accounts true us ts = true ∧ NoLparenComma ts = true

/-- the identifier the parser builds from the token is `i` -/
def IsIdentTok (i : Ident) (t : Token) : Prop :=
  (t.kind = .ident ∨ t.kind = .qident) ∧ i = ⟨t.value, t.span, t.kind = .qident⟩

/-- `. name . name …` -/
def QualTailReal : List Ident → List Token → Prop
  | [], ts => ts = []
  | i :: is, ts => ∃ d t ts', ts = d :: t :: ts' ∧ d.kind = .dot ∧ IsIdentTok i t ∧ QualTailReal is ts'

def tailDotted : List Ident → List UTok
  | [] => []
  | i :: is => { kind := .dot } :: identTok i :: tailDotted is

theorem identsDotted_cons : ∀ (i : Ident) (is : List Ident),
    identsDotted (i :: is) = identTok i :: tailDotted is
  | i, [] => rfl
  | i, j :: js => by
    have ih := identsDotted_cons j js
    simp only [identsDotted, tailDotted, ih]

theorem tailDotted_real : ∀ {is : List Ident} {ts : List Token},
    accounts true (tailDotted is) ts = true → QualTailReal is ts
  | [], ts, h => accounts_nil_left h
  | i :: is, ts, h => by
    simp only [tailDotted] at h
    obtain ⟨d, ts1, rfl, hd, h1⟩ := accounts_cons_inv rfl h
    obtain ⟨t, ts2, rfl, ht, h2⟩ := accounts_cons_inv (by simp [identTok]) h1
    exact ⟨d, t, ts2, rfl, tokOk_dot_inv hd, tokOk_identTok_inv ht, tailDotted_real h2⟩

theorem real_lit {sp : Span} {k : TokKind} {v : Bytes} {ts : List Token} (hk : k ≠ .error)
    (h : Real (.lit sp k v) ts) : ∃ t, ts = [t] ∧ t.kind = k ∧ t.value = v ∧ t.span = sp := by
  obtain ⟨us, hu, ha, -⟩ := h
  simp only [unparseExpr, Option.some.injEq] at hu
  subst hu
  obtain ⟨t, ts', rfl, ht, hr⟩ := accounts_cons_inv rfl ha
  have := accounts_nil_left hr
  subst this
  exact ⟨t, rfl, tokOk_lit_inv hk ht⟩

theorem real_qident {parts : List Ident} {ts : List Token} (h : Real (.qident parts) ts) :
    ∃ i is t ts', parts = i :: is ∧ ts = t :: ts' ∧ IsIdentTok i t ∧ QualTailReal is ts' := by
  obtain ⟨us, hu, ha, -⟩ := h
  cases parts with
  | nil => simp [unparseExpr] at hu
  | cons i is =>
    simp only [unparseExpr, List.isEmpty_cons, Bool.false_eq_true, if_false, Option.some.injEq] at hu
    subst hu
    rw [identsDotted_cons] at ha
    obtain ⟨t, ts', rfl, ht, hr⟩ := accounts_cons_inv (by simp [identTok]) ha
    exact ⟨i, is, t, ts', rfl, rfl, tokOk_identTok_inv ht, tailDotted_real hr⟩

theorem real_unary {os : Span} {op : TokKind} {x : Expr} {ts : List Token} (h : Real (.unary os op x) ts) :
    ∃ t tx, ts = t :: tx ∧ t.kind = op ∧ t.span = os ∧ Real x tx := by
  obtain ⟨us, hu, ha, hn⟩ := h
  simp only [unparseExpr, Option.bind_eq_bind, Option.pure_def, Option.bind_eq_some_iff,
    Option.some.injEq] at hu
  obtain ⟨xs, hx, rfl⟩ := hu
  obtain ⟨t, tx, rfl, ht, hr⟩ := accounts_cons_inv rfl ha
  obtain ⟨hk, hs⟩ := tokOk_sym_inv ht
  exact ⟨t, tx, rfl, hk, hs, xs, hx, hr, nlc_tail hn⟩

theorem real_binary {x y : Expr} {os : Span} {op : TokKind} {ts : List Token}
    (h : Real (.binary x os op y) ts) :
    ∃ tx t ty, ts = tx ++ t :: ty ∧ Real x tx ∧ t.kind = op ∧ t.span = os ∧ Real y ty := by
  obtain ⟨us, hu, ha, hn⟩ := h
  simp only [unparseExpr, Option.bind_eq_bind, Option.pure_def, Option.bind_eq_some_iff,
    Option.some.injEq] at hu
  obtain ⟨xs, hx, ys, hy, rfl⟩ := hu
  obtain ⟨tx, t2, rfl, h1, h2⟩ := accounts_split ha
  obtain ⟨t, ty, rfl, ht, hr⟩ := accounts_cons_inv rfl h2
  obtain ⟨hk, hs⟩ := tokOk_sym_inv ht
  exact ⟨tx, t, ty, rfl, ⟨xs, hx, h1, (nlc_left hn)⟩, hk, hs, ys, hy, hr, (nlc_tail (nlc_right hn))⟩

theorem real_inE {x : Expr} {i lp rp : Span} {vals : ExprList} {ts : List Token}
    (h : Real (.inE x i lp vals rp) ts) :
    ∃ tx ti tl tv tr, ts = tx ++ ti :: tl :: (tv ++ [tr]) ∧ Real x tx ∧ ti.kind = .in_ ∧ ti.span = i ∧
      tl.kind = .lparen ∧ tl.span = lp ∧ RealL vals tv ∧ tr.kind = .rparen ∧ tr.span = rp := by
  obtain ⟨us, hu, ha, hn⟩ := h
  simp only [unparseExpr, Option.bind_eq_bind, Option.pure_def, Option.bind_eq_some_iff,
    Option.some.injEq] at hu
  obtain ⟨xs, hx, vs, hv, rfl⟩ := hu
  simp only [List.append_assoc, List.cons_append] at ha
  obtain ⟨tx, t2, rfl, h1, h2⟩ := accounts_split ha
  obtain ⟨ti, t3, rfl, hti, h3⟩ := accounts_cons_inv rfl h2
  obtain ⟨tl, t4, rfl, htl, h4⟩ := accounts_cons_inv rfl h3
  obtain ⟨tv, t5, rfl, h5, h6⟩ := accounts_split h4
  obtain ⟨tr, t6, rfl, htr, h7⟩ := accounts_cons_inv rfl h6
  have := accounts_nil_left h7
  subst this
  obtain ⟨hk1, hs1⟩ := tokOk_sym_inv hti
  obtain ⟨hk2, hs2⟩ := tokOk_sym_inv htl
  obtain ⟨hk3, hs3⟩ := tokOk_sym_inv htr
  exact ⟨tx, ti, tl, tv, tr, rfl, ⟨xs, hx, h1, (nlc_left hn)⟩, hk1, hs1, hk2, hs2,
    ⟨vs, hv, h5, (nlc_left (nlc_tail (nlc_tail (nlc_right hn))))⟩, hk3, hs3⟩

theorem real_paren {x : Expr} {lp rp : Span} {ts : List Token} (h : Real (.paren lp x rp) ts) :
    ∃ tl tx tr, ts = tl :: (tx ++ [tr]) ∧ tl.kind = .lparen ∧ tl.span = lp ∧ Real x tx ∧
      tr.kind = .rparen ∧ tr.span = rp := by
  obtain ⟨us, hu, ha, hn⟩ := h
  simp only [unparseExpr, Option.bind_eq_bind, Option.pure_def, Option.bind_eq_some_iff,
    Option.some.injEq] at hu
  obtain ⟨xs, hx, rfl⟩ := hu
  simp only [List.append_assoc, List.cons_append] at ha
  obtain ⟨tl, t2, rfl, htl, h2⟩ := accounts_cons_inv rfl ha
  obtain ⟨tx, t3, rfl, h3, h4⟩ := accounts_split h2
  obtain ⟨tr, t4, rfl, htr, h5⟩ := accounts_cons_inv rfl h4
  have := accounts_nil_left h5
  subst this
  obtain ⟨hk1, hs1⟩ := tokOk_sym_inv htl
  obtain ⟨hk2, hs2⟩ := tokOk_sym_inv htr
  exact ⟨tl, tx, tr, rfl, hk1, hs1, ⟨xs, hx, h3, (nlc_left (nlc_tail hn))⟩, hk2, hs2⟩

theorem real_index {x idx : Expr} {lb rb : Span} {ts : List Token} (h : Real (.index x lb idx rb) ts) :
    ∃ tx tl ti tr, ts = tx ++ tl :: (ti ++ [tr]) ∧ Real x tx ∧ tl.kind = .lbracket ∧ tl.span = lb ∧
      Real idx ti ∧ tr.kind = .rbracket ∧ tr.span = rb := by
  obtain ⟨us, hu, ha, hn⟩ := h
  simp only [unparseExpr, Option.bind_eq_bind, Option.pure_def, Option.bind_eq_some_iff,
    Option.some.injEq] at hu
  obtain ⟨xs, hx, is, hi, rfl⟩ := hu
  simp only [List.append_assoc, List.cons_append] at ha
  obtain ⟨tx, t2, rfl, h1, h2⟩ := accounts_split ha
  obtain ⟨tl, t3, rfl, htl, h3⟩ := accounts_cons_inv rfl h2
  obtain ⟨ti, t4, rfl, h4, h5⟩ := accounts_split h3
  obtain ⟨tr, t5, rfl, htr, h6⟩ := accounts_cons_inv rfl h5
  have := accounts_nil_left h6
  subst this
  obtain ⟨hk1, hs1⟩ := tokOk_sym_inv htl
  obtain ⟨hk2, hs2⟩ := tokOk_sym_inv htr
  exact ⟨tx, tl, ti, tr, rfl, ⟨xs, hx, h1, (nlc_left hn)⟩, hk1, hs1, ⟨is, hi, h4, (nlc_left (nlc_tail (nlc_right hn)))⟩, hk2, hs2⟩

/-- a call: the argument range is the arguments' tokens, optionally followed by one comma — but
    only if there are arguments (`NoLparenComma`) -/
theorem real_call {fn : Ident} {lp rp : Span} {args : ExprList} {ts : List Token}
    (h : Real (.call fn lp args rp) ts) :
    ∃ tf tl ta tc tr, ts = tf :: tl :: (ta ++ tc ++ [tr]) ∧ IsIdentTok fn tf ∧ tl.kind = .lparen ∧
      tl.span = lp ∧ RealL args ta ∧ (tc = [] ∨ ∃ cm, tc = [cm] ∧ cm.kind = .comma ∧ ta ≠ []) ∧
      tr.kind = .rparen ∧ tr.span = rp := by
  obtain ⟨us, hu, ha, hn⟩ := h
  simp only [unparseExpr, Option.bind_eq_bind, Option.pure_def, Option.bind_eq_some_iff,
    Option.some.injEq] at hu
  obtain ⟨as, has, rfl⟩ := hu
  simp only [List.append_assoc, List.cons_append] at ha
  obtain ⟨tf, t2, rfl, htf, h2⟩ := accounts_cons_inv (by simp [identTok]) ha
  obtain ⟨tl, t3, rfl, htl, h3⟩ := accounts_cons_inv rfl h2
  obtain ⟨ta, t4, rfl, h4, h5⟩ := accounts_split h3
  obtain ⟨hk1, hs1⟩ := tokOk_sym_inv htl
  have hna : NoLparenComma ta = true := (nlc_left (nlc_tail (nlc_tail hn)))
  rcases accounts_cons_inv_opt h5 with ⟨tr, t5, rfl, htr, h6⟩ | ⟨cm, tr, t5, rfl, hcm, htr, h6, -⟩
  · have := accounts_nil_left h6
    subst this
    obtain ⟨hk2, hs2⟩ := tokOk_symOpt_inv htr
    exact ⟨tf, tl, ta, [], tr, by simp, tokOk_identTok_inv htf, hk1, hs1, ⟨as, has, h4, hna⟩, Or.inl rfl,
      hk2, hs2⟩
  · have := accounts_nil_left h6
    subst this
    obtain ⟨hk2, hs2⟩ := tokOk_symOpt_inv htr
    refine ⟨tf, tl, ta, [cm], tr, by simp, tokOk_identTok_inv htf, hk1, hs1, ⟨as, has, h4, hna⟩,
      Or.inr ⟨cm, rfl, hcm, ?_⟩, hk2, hs2⟩
    intro hta
    subst hta
    exact (nlc_head (nlc_tail hn) hk1) hcm

/-! ### expression lists -/

/-- `, e , e …` -/
def ListTailReal : ExprList → List Token → Prop
  | .nil, ts => ts = []
  | .cons e es, ts => ∃ cm te tl, ts = cm :: (te ++ tl) ∧ cm.kind = .comma ∧ Real e te ∧ ListTailReal es tl

theorem realL_nil {ts : List Token} (h : RealL .nil ts) : ts = [] := by
  obtain ⟨us, hu, ha, -⟩ := h
  simp only [unparseExprList, Option.some.injEq] at hu
  subst hu
  exact accounts_nil_left ha

theorem realL_cons : ∀ {e : Expr} {es : ExprList} {ts : List Token}, RealL (.cons e es) ts →
    ∃ te tl, ts = te ++ tl ∧ Real e te ∧ ListTailReal es tl
  | e, .nil, ts, h => by
    obtain ⟨us, hu, ha, hn⟩ := h
    simp only [unparseExprList] at hu
    exact ⟨ts, [], by simp, ⟨us, hu, ha, hn⟩, rfl⟩
  | e, .cons e' es, ts, h => by
    obtain ⟨us, hu, ha, hn⟩ := h
    simp only [unparseExprList, Option.bind_eq_bind, Option.pure_def, Option.bind_eq_some_iff,
      Option.some.injEq] at hu
    obtain ⟨a, hea, b, hb, rfl⟩ := hu
    obtain ⟨te, t2, rfl, h1, h2⟩ := accounts_split ha
    obtain ⟨cm, t3, rfl, hcm, h3⟩ := accounts_cons_inv rfl h2
    obtain ⟨te', tl', rfl, he', hl'⟩ := realL_cons (e := e') (es := es) ⟨b, hb, h3, (nlc_tail (nlc_right hn))⟩
    exact ⟨te, cm :: (te' ++ tl'), rfl, ⟨a, hea, h1, (nlc_left hn)⟩, cm, te', tl', rfl,
      tokOk_commaTok_inv hcm, he', hl'⟩

/-! ### inversion of `okSpine` -/

theorem gprec_eq (k : TokKind) : Grammar.precOf k = Pql.precOf k := by
  cases k <;> decide

theorem okSpine_binary {m cap : Int} {x y : Expr} {os : Span} {op : TokKind}
    (h : okSpine m (.binary x os op y) = some cap) :
    ∃ capx, okSpine m x = some capx ∧ isBinaryOp op = true ∧ m ≤ Pql.precOf op ∧ Pql.precOf op ≤ capx ∧
      (okSpine (Pql.precOf op + 1) y).isSome = true ∧ cap = Pql.precOf op := by
  simp only [okSpine] at h
  split at h
  · simp at h
  · rename_i capx hx
    split at h
    · rename_i hc
      simp only [Bool.and_eq_true, decide_eq_true_eq, gprec_eq] at hc
      simp only [Option.some.injEq, gprec_eq] at h
      exact ⟨capx, hx, hc.1.1.1, hc.1.1.2, hc.1.2, hc.2, h.symm⟩
    · simp at h

theorem okSpine_inE {m cap : Int} {x : Expr} {i lp rp : Span} {vals : ExprList}
    (h : okSpine m (.inE x i lp vals rp) = some cap) :
    ∃ capx, okSpine m x = some capx ∧ m ≤ 2 ∧ 2 ≤ capx ∧ vals.length > 0 ∧ okList vals = true ∧ cap = inf := by
  simp only [okSpine] at h
  split at h
  · simp at h
  · rename_i capx hx
    split at h
    · rename_i hc
      simp only [Bool.and_eq_true, decide_eq_true_eq] at hc
      simp only [Option.some.injEq] at h
      exact ⟨capx, hx, hc.1.1.1, hc.1.1.2, hc.1.2, hc.2, h.symm⟩
    · simp at h

theorem okSpine_lit {m : Int} {sp : Span} {k : TokKind} {v : Bytes}
    (h : (okSpine m (.lit sp k v)).isSome = true) : k = .number ∨ k = .string := by
  simp only [okSpine] at h
  split at h
  · rename_i hc; simpa using hc
  · simp at h

theorem okSpine_unary {m : Int} {os : Span} {op : TokKind} {x : Expr}
    (h : (okSpine m (.unary os op x)).isSome = true) :
    (op = .plus ∨ op = .minus) ∧ isPrimary x = true ∧ (okSpine 0 x).isSome = true := by
  simp only [okSpine] at h
  split at h
  · rename_i hc
    simp only [Bool.and_eq_true, Bool.or_eq_true, beq_iff_eq] at hc
    exact ⟨hc.1.1, hc.1.2, hc.2⟩
  · simp at h

theorem okSpine_paren {m : Int} {lp rp : Span} {x : Expr}
    (h : (okSpine m (.paren lp x rp)).isSome = true) : (okSpine 0 x).isSome = true := by
  simp only [okSpine] at h
  split at h
  · assumption
  · simp at h

theorem okSpine_call {m : Int} {fn : Ident} {lp rp : Span} {args : ExprList}
    (h : (okSpine m (.call fn lp args rp)).isSome = true) : fn.quoted = false ∧ okList args = true := by
  simp only [okSpine] at h
  split at h
  · rename_i hc
    simpa using hc
  · simp at h

theorem okSpine_index {m : Int} {x idx : Expr} {lb rb : Span}
    (h : (okSpine m (.index x lb idx rb)).isSome = true) :
    isInnerPrimary x = true ∧ (okSpine 0 x).isSome = true ∧ (okSpine 0 idx).isSome = true := by
  simp only [okSpine] at h
  split at h
  · rename_i hc
    simp only [Bool.and_eq_true] at hc
    exact ⟨hc.1.1, hc.1.2, hc.2⟩
  · simp at h

theorem okList_cons {e : Expr} {es : ExprList} (h : okList (.cons e es) = true) :
    (okSpine 0 e).isSome = true ∧ okList es = true := by
  simpa [okList] using h

/-- a binary operator kind is neither a bracket nor a pipe -/
theorem isBinaryOp_kind {k : TokKind} (h : isBinaryOp k = true) :
    k ≠ .lparen ∧ k ≠ .lbracket ∧ k ≠ .rparen ∧ k ≠ .rbracket ∧ k ≠ .pipe ∧ k ≠ .in_ ∧ 0 ≤ Pql.precOf k := by
  revert h
  cases k <;> decide

end Pql
