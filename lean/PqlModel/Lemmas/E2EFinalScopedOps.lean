/-
Programs with lets, part 3 (Lemmas/ParseStmtOps.lean under a let-built scope): the select items and
the GROUP BY expressions written under the scope are read back as the items of the RESOLVED columns
(`substColumn env`).  Extend / summarize columns must be `name = expr` (`ColNamed`: an implicit name is
sliced from the source text, which the resolved program does not have).
-/
import PqlModel.Lemmas.E2EFinalScopedParts
import PqlModel.Lemmas.ParseStmtOps
import PqlModel.Lemmas.ParsedOKLets
namespace Pql.E2EFinal
set_option linter.unusedSimpArgs false
set_option linter.unusedVariables false
open Pql Sql CompileOracle Intended Pql.RT Pql.C05 Pql.C06

theorem substExpr_ne_nil (env : List (Bytes × Expr)) {e : Expr} (h : e ≠ .nil) : substExpr env e ≠ .nil := by
  cases e with
  | nil => exact absurd rfl h
  | qident ps =>
    match ps with
    | [] => simp [substExpr]
    | [p] =>
      simp only [substExpr]
      split
      · simp
      · split <;> simp
    | _ :: _ :: _ => simp [substExpr]
  | _ => simp [substExpr]

/-- the expression a `project` column stands for -/
def projExpr (c : Column) : Expr :=
  match c.x with
  | .nil => .qident (match c.name with | some n => [n] | none => [])
  | x => x

theorem projCol_eq (ctx : Ctx) (c : Column) :
    projCol ctx c = (do let x ← writeExpr ctx (projExpr c); pure (x ++ [.txt " AS ", .qid (identName c.name)])) := by
  unfold projCol projExpr
  cases c.x <;> rfl

theorem projectItem_eq (c : Column) :
    projectItem c = (do let e ← tr false (projExpr c); pure ⟨false, e, some (identName c.name)⟩) := by
  unfold projectItem projExpr
  cases c.x <;> rfl

theorem substColumn_name (env : List (Bytes × Expr)) (c : Column) : (substColumn env c).name = c.name := by
  unfold substColumn
  split
  · split
    · split <;> rfl
    · rfl
  · rfl

/-- the resolved `project` column stands for the resolved expression -/
theorem projExpr_subst (env : List (Bytes × Expr)) (c : Column) (hok : projColOK (substColumn env c) = true) :
    projExpr (substColumn env c) = substExpr env (projExpr c) ∧ exprOK (substExpr env (projExpr c)) = true := by
  by_cases hx : c.x = .nil
  · cases hn : c.name with
    | none =>
      -- no expression and no name: excluded by `projColOK`
      exfalso
      unfold substColumn at hok
      rw [hx, hn] at hok
      simp only [substExpr] at hok
      simp [projColOK, hn] at hok
    | some n =>
      have hpe : projExpr c = .qident [n] := by unfold projExpr; rw [hx, hn]
      rw [hpe]
      have hq : exprOK (.qident [n]) = true := by
        obtain ⟨w, hw⟩ := tr_single n
        simp [exprOKin, Expr.lexOK, shapeOK, hw]
      unfold substColumn at hok ⊢
      rw [hx, hn] at hok ⊢
      simp only at hok ⊢
      simp only [substExpr]
      cases hf : env.find? (·.1 == n.name) with
      | none =>
        rw [hf] at hok
        simp only at hok ⊢
        have : projExpr c = .qident [n] := hpe
        by_cases hqd : n.quoted = true
        · simp only [hqd, if_true]; exact ⟨hpe, hq⟩
        · simp only [hqd, Bool.false_eq_true, if_false]; exact ⟨hpe, hq⟩
      | some kv =>
        obtain ⟨k, v⟩ := kv
        rw [hf] at hok
        simp only at hok ⊢
        by_cases hqd : n.quoted = true
        · simp only [hqd, if_true] at hok ⊢; exact ⟨hpe, hq⟩
        · simp only [hqd, Bool.false_eq_true, if_false] at hok ⊢
          refine ⟨by simp [projExpr], ?_⟩
          simpa [projColOK] using hok
  · have h1 : (substColumn env c).x = substExpr env c.x := ParsedOK.substColumn_x hx
    have h2 : projExpr c = c.x := by
      unfold projExpr
      cases hc : c.x <;> first | rfl | exact absurd hc hx
    have h3 := substExpr_ne_nil env hx
    have h4 : projExpr (substColumn env c) = substExpr env c.x := by
      unfold projExpr
      rw [h1]
      cases hc : substExpr env c.x <;> first | rfl | exact absurd hc h3
    rw [h2, h4]
    refine ⟨rfl, ?_⟩
    unfold projColOK at hok
    rw [h1] at hok
    cases hc : substExpr env c.x <;> first | exact absurd hc h3 | (rw [hc] at hok; exact hok)

/-- `mapM_spec` with a predicate on the elements that is not a Boolean -/
theorem mapM_spec' {α β γ : Type} {f : α → Except WErr β} {g : α → Option γ} {R : β → γ → Prop} {P : α → Prop}
    (h1 : ∀ a b, P a → f a = .ok b → ∃ c, g a = some c ∧ R b c) :
    ∀ (as : List α) (bs : List β), (∀ a ∈ as, P a) → as.mapM f = .ok bs →
      ∃ cs, as.mapM g = some cs ∧ ListRel R bs cs
  | [], bs, _, h => by
    simp only [List.mapM_nil, pure, Except.pure, Except.ok.injEq] at h
    subst h
    exact ⟨[], rfl, .nil⟩
  | a :: as, bs, hP, h => by
    simp only [List.mapM_cons, bind, Except.bind, pure, Except.pure] at h
    cases ha : f a with
    | error e => rw [ha] at h; cases h
    | ok b =>
      rw [ha] at h
      cases hs : as.mapM f with
      | error e => rw [hs] at h; cases h
      | ok bs' =>
        rw [hs] at h
        simp only [Except.ok.injEq] at h
        subst h
        obtain ⟨c, hc, hr⟩ := h1 a b (hP a (by simp)) ha
        obtain ⟨cs, hcs, hrel⟩ := mapM_spec' h1 as bs' (fun x hx => hP x (by simp [hx])) hs
        exact ⟨c :: cs, by simp [List.mapM_cons, hc, hcs], .cons hr hrel⟩

theorem mapM_map_opt {α β γ : Type} (f : α → β) (g : β → Option γ) (as : List α) :
    (as.map f).mapM g = as.mapM (fun a => g (f a)) := by
  induction as with
  | nil => rfl
  | cons a as ih => simp only [List.map_cons, List.mapM_cons, ih]

section
variable {src : Bytes} {scope : Scope} {env : List (Bytes × Expr)} (hsc : ScopeLetsEnv src scope env)
  (hjs : envJoinSafe env = true)
include hsc hjs

theorem projCol_spec_s (c : Column) (x : List Chunk) (hok : projColOK (substColumn env c) = true)
    (h : projCol ⟨src, scope, .default⟩ c = .ok x) :
    ∃ w, projectItem (substColumn env c) = some w ∧ ItemP (toksOf x) w := by
  rw [projCol_eq] at h
  obtain ⟨he, heok⟩ := projExpr_subst env c hok
  cases hy : writeExpr ⟨src, scope, .default⟩ (projExpr c) with
  | error e => rw [hy] at h; cases h
  | ok y =>
    rw [hy] at h
    simp only [bind, Except.bind, pure, Except.pure, Except.ok.injEq] at h
    subst h
    obtain ⟨want, ht, hP⟩ := exprP_default_s hsc hjs heok hy
    refine ⟨⟨false, want, some (identName c.name)⟩, ?_, by simpa using itemP_alias hP up_AS (identName c.name)⟩
    rw [projectItem_eq, he, substColumn_name]
    simp only [ht, Option.bind_eq_bind, Option.bind_some, Option.pure_def]

theorem column_spec_s (c : Column) (hn : ColNamed c) (x : List Chunk) (hok : colOK (substColumn env c) = true)
    (h : (do let x ← writeExpr ⟨src, scope, .default⟩ c.x
             let a ← columnAlias ⟨src, scope, .default⟩ c
             pure (x ++ a) : Pql.W) = .ok x) : ∃ w, itemOf src (substColumn env c) = some w ∧ ItemP (toksOf x) w := by
  have h1 : (substColumn env c).x = substExpr env c.x := ParsedOK.substColumn_x hn.2
  cases hy : writeExpr ⟨src, scope, .default⟩ c.x with
  | error e => rw [hy] at h; cases h
  | ok y =>
    rw [hy] at h
    cases ha : columnAlias ⟨src, scope, .default⟩ c with
    | error e => rw [ha] at h; cases h
    | ok a =>
      rw [ha] at h
      simp only [bind, Except.bind, pure, Except.pure, Except.ok.injEq] at h
      subst h
      obtain ⟨n, hnm⟩ := Option.isSome_iff_exists.1 hn.1
      have hal : a = [.txt " AS ", .qid n.name] := by
        unfold columnAlias at ha
        rw [hnm] at ha
        simp only [Except.ok.injEq] at ha
        exact ha.symm
      have halias : aliasOf src (substColumn env c) = n.name := by
        unfold aliasOf
        rw [substColumn_name, hnm]
      rw [hal]
      simp only [colOK, h1] at hok
      obtain ⟨want, ht, hP⟩ := exprP_default_s hsc hjs hok hy
      refine ⟨⟨false, want, some n.name⟩, ?_, by simpa using itemP_alias hP up_AS n.name⟩
      simp only [itemOf, h1, ht, halias, Option.bind_eq_bind, Option.bind_some, Option.pure_def]

theorem writeColumns_spec_s (cols : List Column) (hn : ∀ c ∈ cols, ColNamed c) (cs : List (List Chunk))
    (hok : (cols.map (substColumn env)).all colOK = true)
    (h : writeColumns ⟨src, scope, .default⟩ cols = .ok cs) :
    ∃ witems, (cols.map (substColumn env)).mapM (itemOf src) = some witems ∧ ListRel ItemP (cs.map toksOf) witems := by
  rw [writeColumns_eq_mapM] at h
  simp only [List.all_map, List.all_eq_true, Function.comp] at hok
  obtain ⟨w, hw, hrel⟩ := mapM_spec' (g := fun c => itemOf src (substColumn env c))
    (R := fun b c => ItemP (toksOf b) c) (P := fun c => ColNamed c ∧ colOK (substColumn env c) = true)
    (fun c b hc hb => column_spec_s hsc hjs c hc.1 b hc.2 hb) cols cs (fun c hc => ⟨hn c hc, hok c hc⟩) h
  exact ⟨w, by rw [mapM_map_opt]; exact hw, ListRel.map_left hrel⟩

theorem groupExprs_spec_s (cols : List Column) (hn : ∀ c ∈ cols, ColNamed c) (cs : List (List Chunk))
    (hok : (cols.map (substColumn env)).all colOK = true)
    (h : cols.mapM (fun c : Column => writeExpr ⟨src, scope, .default⟩ c.x) = .ok cs) :
    ∃ w, (cols.map (substColumn env)).mapM (fun c => tr false c.x) = some w ∧ ListRel ExprP (cs.map toksOf) w := by
  simp only [List.all_map, List.all_eq_true, Function.comp] at hok
  obtain ⟨w, hw, hrel⟩ := mapM_spec' (g := fun c => tr false (substColumn env c).x)
    (R := fun b c => ExprP (toksOf b) c) (P := fun c => ColNamed c ∧ colOK (substColumn env c) = true)
    (fun c b hc hb => by
      have h1 : (substColumn env c).x = substExpr env c.x := ParsedOK.substColumn_x hc.1.2
      have := hc.2
      simp only [colOK, h1] at this
      rw [h1]
      exact exprP_default_s hsc hjs this hb) cols cs (fun c hc => ⟨hn c hc, hok c hc⟩) h
  exact ⟨w, by rw [mapM_map_opt]; exact hw, ListRel.map_left hrel⟩

theorem projCols_spec_s (cols : List Column) (cs : List (List Chunk))
    (hok : (cols.map (substColumn env)).all projColOK = true)
    (h : cols.mapM (projCol ⟨src, scope, .default⟩) = .ok cs) :
    ∃ witems, (cols.map (substColumn env)).mapM projectItem = some witems ∧ ListRel ItemP (cs.map toksOf) witems := by
  simp only [List.all_map, List.all_eq_true, Function.comp] at hok
  obtain ⟨w, hw, hrel⟩ := mapM_spec' (g := fun c => projectItem (substColumn env c))
    (R := fun b c => ItemP (toksOf b) c) (P := fun c => projColOK (substColumn env c) = true)
    (fun c b hc hb => projCol_spec_s hsc hjs c b hc hb) cols cs hok h
  exact ⟨w, by rw [mapM_map_opt]; exact hw, ListRel.map_left hrel⟩

end

end Pql.E2EFinal
