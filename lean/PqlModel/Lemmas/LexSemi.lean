/-
Facts about semicolon tokens: the scanner produces one only at the byte ';' (59),
it is one byte wide and carries no value.
-/
import PqlModel.Lemmas.LexBasic
namespace Pql

theorem ofGoName_and : TokKind.ofGoName "TokenAnd" = some .and_ := by decide
theorem ofGoName_by : TokKind.ofGoName "TokenBy" = some .by_ := by decide
theorem ofGoName_in : TokKind.ofGoName "TokenIn" = some .in_ := by decide
theorem ofGoName_or : TokKind.ofGoName "TokenOr" = some .or_ := by decide

theorem keywordKind_cases (text : Bytes) (k : TokKind) (h : keywordKind text = some k) :
    k = .and_ ∨ k = .by_ ∨ k = .in_ ∨ k = .or_ := by
  unfold keywordKind at h
  simp only [Facts.keywords, List.find?] at h
  split at h
  · rename_i kv heq
    repeat' split at heq
    all_goals cases heq
    all_goals simp_all [ofGoName_and, ofGoName_by, ofGoName_in, ofGoName_or]
  · cases h

theorem scanOne_semi_head (v : Bytes) : scanOne (59 :: v) = ⟨some (.semi, []), 1⟩ := by
  simp [scanOne, isAsciiSpace, isIdentStart, isAlpha, isDigit, inRanges, Facts.isAlphaRanges, Facts.isDigitRanges, scanPunct, singleKind, Step.sym]

theorem scanIdent_kind_ne_semi (s : Bytes) : (scanIdent s).kind ≠ .semi := by
  simp only [scanIdent]
  split
  · rename_i k hk
    rcases keywordKind_cases _ _ hk with h | h | h | h <;> simp [h]
  · simp

theorem scanNumberOrDot_kind_ne_semi (s : Bytes) : (scanNumberOrDot s).kind ≠ .semi := by
  unfold scanNumberOrDot
  simp only [finishNumber]
  repeat' split
  all_goals simp

theorem scanString_kind_ne_semi (s : Bytes) : (scanString s).kind ≠ .semi := by
  unfold scanString
  repeat' split
  all_goals simp

theorem scanQuotedIdent_kind_ne_semi (s : Bytes) : (scanQuotedIdent s).kind ≠ .semi := by
  unfold scanQuotedIdent
  repeat' split
  all_goals simp

theorem scanNonAscii_tok_ne_semi (s : Bytes) (v : Bytes) : (scanNonAscii s).tok ≠ some (.semi, v) := by
  unfold scanNonAscii
  simp only [Step.skip, Step.sym]
  split <;> simp

theorem singleKind_semi (c : UInt8) (h : singleKind c = some .semi) : c = 59 := by
  unfold singleKind at h
  repeat' split at h
  all_goals simp_all

theorem scanPunct_semi (c : UInt8) (rest v : Bytes) (h : (scanPunct c rest).tok = some (.semi, v)) :
    c = 59 := by
  unfold scanPunct at h
  simp only [Step.skip, Step.sym] at h
  split at h
  · rename_i k hk
    simp at h
    exact singleKind_semi c (by rw [hk, h.1])
  · repeat' split at h
    all_goals simp at h

/-- A semicolon token can only start at the byte ';', and is one byte wide. -/
theorem scanOne_semi (c : UInt8) (rest v : Bytes) (h : (scanOne (c :: rest)).tok = some (.semi, v)) :
    c = 59 := by
  unfold scanOne at h
  simp only [Step.ofLexeme, Step.skip] at h
  repeat' split at h
  · exact absurd h (scanNonAscii_tok_ne_semi _ _)
  · simp at h
  · simp at h; exact absurd h.1 (scanIdent_kind_ne_semi _)
  · simp at h; exact absurd h.1 (scanNumberOrDot_kind_ne_semi _)
  · simp at h; exact absurd h.1 (scanString_kind_ne_semi _)
  · simp at h; exact absurd h.1 (scanQuotedIdent_kind_ne_semi _)
  · exact scanPunct_semi c rest v h

theorem scanOne_semi_width (c : UInt8) (rest v : Bytes)
    (h : (scanOne (c :: rest)).tok = some (.semi, v)) :
    c = 59 ∧ (scanOne (c :: rest)).width = 1 ∧ v = [] := by
  have hc := scanOne_semi c rest v h
  subst hc
  rw [scanOne_semi_head] at h ⊢
  simp at h
  simp [h]

end Pql
