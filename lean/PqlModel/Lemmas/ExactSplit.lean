/-
C13 exactness, stage 3b: `splitQueries` / `splitOps` on well-formed trees.  The result is a
list of subqueries of the invariant shape (`subOK`) whose stored operators, sort terms and row
counts carry exactly the not-yet-checked part of `Misuse.badTabular`; the join conditions are
checked on the spot.
-/
import PqlModel.Lemmas.ExactWrite
namespace Pql.Exact
open Pql

/-- what a split step returns, against the specification verdict `bad` of the operators it
    consumed: on success every subquery has the invariant shape, the verdicts stored in the
    subqueries are the old ones plus `bad`, and at least `n` subqueries exist -/
def SplitSpec (src : Bytes) (bound : List Bytes) (dst : List Subquery) (bad : Bool) (n : Nat)
    (r : Except WErr (List Subquery)) : Prop :=
  match r with
  | .ok dst' =>
    (∀ s ∈ dst', subOK src s = true) ∧
    dst'.any (badSub bound) = (dst.any (badSub bound) || bad) ∧ n ≤ dst'.length
  | .error .err => bad = true
  | .error .panic => False

variable {src : Bytes} {bound : List Bytes}

theorem SplitSpec.of_eq {dst : List Subquery} {b b' : Bool} {n : Nat} {r : Except WErr (List Subquery)}
    (h : SplitSpec src bound dst b n r) (hb : b = b') : SplitSpec src bound dst b' n r := hb ▸ h

/-- a pure bookkeeping step (`dst ↦ dst2`, accounting for `b1`) followed by a split from `dst2` -/
theorem SplitSpec.of_step {dst dst2 : List Subquery} {b1 b2 : Bool} {n : Nat} {r : Except WErr (List Subquery)}
    (hany : dst2.any (badSub bound) = (dst.any (badSub bound) || b1))
    (hlen : n ≤ dst2.length)
    (h : SplitSpec src bound dst2 b2 dst2.length r) : SplitSpec src bound dst (b1 || b2) n r := by
  cases r with
  | ok dst' =>
    obtain ⟨h1, h2, h3⟩ := h
    exact ⟨h1, by rw [h2, hany, Bool.or_assoc], Nat.le_trans hlen h3⟩
  | error e =>
    cases e with
    | err =>
      have hb : b2 = true := h
      show (b1 || b2) = true
      rw [hb, Bool.or_true]
    | panic => exact absurd h id

theorem SplitSpec.bind {dst : List Subquery} {b1 b2 : Bool} {n1 n : Nat}
    {r : Except WErr (List Subquery)} {f : List Subquery → Except WErr (List Subquery)}
    (h1 : SplitSpec src bound dst b1 n1 r)
    (h2 : ∀ dst1, (∀ s ∈ dst1, subOK src s = true) → n1 ≤ dst1.length →
      SplitSpec src bound dst1 b2 n (f dst1)) :
    SplitSpec src bound dst (b1 || b2) n (r >>= f) := by
  cases r with
  | ok dst1 =>
    obtain ⟨ha, hb, hc⟩ := h1
    have := h2 dst1 ha hc
    show SplitSpec src bound dst (b1 || b2) n (f dst1)
    cases hf : f dst1 with
    | ok dst' =>
      rw [hf] at this
      obtain ⟨h1', h2', h3'⟩ := this
      exact ⟨h1', by rw [h2', hb, Bool.or_assoc], h3'⟩
    | error e =>
      rw [hf] at this
      cases e with
      | err =>
        have hb2 : b2 = true := this
        show (b1 || b2) = true
        rw [hb2, Bool.or_true]
      | panic => exact absurd this id
  | error e =>
    cases e with
    | err =>
      have hb : b1 = true := h1
      show (b1 || b2) = true
      rw [hb, Bool.true_or]
    | panic => exact absurd h1 id

/-- a writer step (the join condition) followed by a split -/
theorem SplitSpec.bindA {α : Type} {dst : List Subquery} {b1 b2 : Bool} {n : Nat}
    {r : Except WErr α} {f : α → Except WErr (List Subquery)}
    (h1 : Agrees r b1) (h2 : ∀ x, SplitSpec src bound dst b2 n (f x)) :
    SplitSpec src bound dst (b1 || b2) n (r >>= f) := by
  cases r with
  | ok x =>
    have hb : b1 = false := h1
    rw [hb, Bool.false_or]
    exact h2 x
  | error e =>
    cases e with
    | err =>
      have hb : b1 = true := h1
      show (b1 || b2) = true
      rw [hb, Bool.true_or]
    | panic => exact absurd h1 id

/-! ### list bookkeeping -/

theorem setLast_append_singleton (init : List Subquery) (l : Subquery) (f : Subquery → Subquery) :
    setLast (init ++ [l]) f = init ++ [f l] := by
  unfold setLast
  simp

theorem lastOf_some {dst : List Subquery} {dstStart : Nat} {l : Subquery}
    (h : lastOf dst dstStart = some l) : ∃ init, dst = init ++ [l] := by
  unfold lastOf at h
  split at h
  · exact List.getLast?_eq_some_iff.1 h
  · cases h

theorem forall_mem_append_singleton {dst : List Subquery} {s : Subquery} {P : Subquery → Prop}
    (hd : ∀ x ∈ dst, P x) (hs : P s) : ∀ x ∈ dst ++ [s], P x := by
  intro x hx
  rcases List.mem_append.1 hx with hx | hx
  · exact hd x hx
  · rw [List.mem_singleton.1 hx]; exact hs

theorem any_append_singleton (dst : List Subquery) (s : Subquery) (p : Subquery → Bool) :
    (dst ++ [s]).any p = (dst.any p || p s) := by
  rw [List.any_append, List.any_cons, List.any_nil, Bool.or_false]

/-- attaching sort terms / a row count to the last subquery, or to a fresh one -/
theorem attach_step (dst : List Subquery) (chain : Subquery) (f : Subquery → Subquery)
    (P : Subquery → Prop) (e : Bool) (attach : Bool)
    (hattach : attach = true → ∃ init l, dst = init ++ [l] ∧ P l)
    (hchainP : P chain) (hchain_ok : subOK src chain = true) (hchain_bad : badSub bound chain = false)
    (hf_ok : ∀ l, P l → subOK src l = true → subOK src (f l) = true)
    (hf_bad : ∀ l, P l → badSub bound (f l) = (badSub bound l || e))
    (hdst : ∀ s ∈ dst, subOK src s = true) :
    (∀ s ∈ setLast (if attach = true then dst else dst ++ [chain]) f, subOK src s = true) ∧
    (setLast (if attach = true then dst else dst ++ [chain]) f).any (badSub bound)
      = (dst.any (badSub bound) || e) ∧
    dst.length ≤ (setLast (if attach = true then dst else dst ++ [chain]) f).length := by
  cases attach with
  | false =>
    rw [if_neg (by simp), setLast_append_singleton]
    refine ⟨forall_mem_append_singleton hdst (hf_ok _ hchainP hchain_ok), ?_, ?_⟩
    · rw [any_append_singleton, hf_bad _ hchainP, hchain_bad, Bool.false_or]
    · rw [List.length_append]; exact Nat.le_add_right _ _
  | true =>
    obtain ⟨init, l, hdl, hP⟩ := hattach rfl
    subst hdl
    rw [if_pos rfl, setLast_append_singleton]
    refine ⟨forall_mem_append_singleton (fun x hx => hdst x (List.mem_append_left _ hx))
      (hf_ok _ hP (hdst l (by simp))), ?_, ?_⟩
    · rw [any_append_singleton, any_append_singleton, hf_bad _ hP, Bool.or_assoc]
    · rw [List.length_append, List.length_append]; exact Nat.le_refl _


/-! ### the operator loop -/

theorem joinKw_some (name : Bytes) (h : isJoinType name = true) :
    ∃ kw, (if (name == Bytes.ofString "inner" || name == Bytes.ofString "innerunique") = true then some " JOIN "
      else if (name == Bytes.ofString "leftouter") = true then some " LEFT JOIN " else (none : Option String)) = some kw := by
  unfold isJoinType Facts.joinTypes at h
  simp only [List.any_cons, List.any_nil, Bool.or_false, beq_comm_bytes _ name] at h
  revert h
  generalize Bytes.ofString "inner" = s1
  generalize Bytes.ofString "innerunique" = s2
  generalize Bytes.ofString "leftouter" = s3
  cases name == s1 <;> cases name == s2 <;> cases name == s3 <;> intro h <;>
    first
      | (cases h; done)
      | exact ⟨_, rfl⟩

/-- storing an operator in a fresh subquery -/
theorem store_step (dst : List Subquery) (chain : Subquery) (o : Op)
    (hchain : chain.op = none ∧ chain.sort = none ∧ chain.take = none)
    (hst : storedOp o = true) (hwf : wfOp o = true) (hsp : spansOp src o = true)
    (hdst : ∀ s ∈ dst, subOK src s = true) :
    (∀ s ∈ dst ++ [{ chain with op := some o }], subOK src s = true) ∧
    (dst ++ [{ chain with op := some o }]).any (badSub bound) = (dst.any (badSub bound) || Misuse.badOp bound o) ∧
    dst.length ≤ (dst ++ [{ chain with op := some o }]).length := by
  obtain ⟨h1, h2, h3⟩ := hchain
  refine ⟨forall_mem_append_singleton hdst ?_, ?_, ?_⟩
  · simp only [subOK, h2, h3, hst, hwf, hsp, Bool.and_self]
  · rw [any_append_singleton]
    simp only [badSub, h2, h3, badOptOp, badOptSort, badOptTake, Bool.or_false]
  · rw [List.length_append]; exact Nat.le_add_right _ _

theorem chain_fields (dst : List Subquery) (dstStart : Nat) (source : Option Ident) :
    (chainSubquery dst dstStart source).op = none ∧ (chainSubquery dst dstStart source).sort = none ∧
      (chainSubquery dst dstStart source).take = none := ⟨rfl, rfl, rfl⟩

mutual
theorem splitQueries_spec (src : Bytes) (scope : List (Bytes × List Chunk)) :
    ∀ (t : Tabular) (dst : List Subquery), wfTabular t = true → spansTabular src t = true →
      (∀ s ∈ dst, subOK src s = true) →
      SplitSpec src (names scope) dst (Misuse.badTabular (names scope) t) (dst.length + 1)
        (splitQueries src scope dst t)
  | .nil, dst, hw, _, _ => by rw [wfTabular] at hw; cases hw
  | .mk source ops, dst, hw, hs, hd => by
    rw [wfTabular] at hw
    rw [spansTabular] at hs
    rw [splitQueries, Misuse.badTabular]
    refine (SplitSpec.bind (splitOps_spec src scope ops source dst.length dst hw hs hd) (b2 := false)
      (fun dst1 hok hlen => ?_)).of_eq (Bool.or_false _)
    by_cases hl : dst1.length = dst.length
    · rw [if_pos hl]
      refine ⟨forall_mem_append_singleton hok rfl, ?_, ?_⟩
      · have hc : badSub (names scope) (chainSubquery dst1 dst.length source) = false := rfl
        rw [any_append_singleton, hc]
      · rw [List.length_append, hl]; exact Nat.le_refl _
    · rw [if_neg hl]
      exact ⟨hok, (Bool.or_false _).symm, by omega⟩
theorem splitOps_spec (src : Bytes) (scope : List (Bytes × List Chunk)) :
    ∀ (ops : OpList) (source : Option Ident) (dstStart : Nat) (dst : List Subquery),
      wfOps ops = true → spansOps src ops = true → (∀ s ∈ dst, subOK src s = true) →
      SplitSpec src (names scope) dst (Misuse.badOps (names scope) ops) dst.length
        (splitOps src scope source dstStart dst ops)
  | .nil, source, dstStart, dst, _, _, hd => by
    rw [splitOps, Misuse.badOps]
    exact ⟨hd, (Bool.or_false _).symm, Nat.le_refl _⟩
  | .cons (.count p k) rest, source, dstStart, dst, hw, hs, hd => by
    rw [wfOps, Bool.and_eq_true] at hw
    rw [spansOps, Bool.and_eq_true] at hs
    simp only [splitOps]
    rw [Misuse.badOps]
    obtain ⟨h1, h2, h3⟩ := store_step (src := src) (bound := names scope) dst (chainSubquery dst dstStart source)
      (.count p k) (chain_fields ..) rfl hw.1 hs.1 hd
    exact SplitSpec.of_step h2 h3 (splitOps_spec src scope rest source dstStart _ hw.2 hs.2 h1)
  | .cons (.where_ p k e) rest, source, dstStart, dst, hw, hs, hd => by
    rw [wfOps, Bool.and_eq_true] at hw
    rw [spansOps, Bool.and_eq_true] at hs
    simp only [splitOps]
    rw [Misuse.badOps]
    obtain ⟨h1, h2, h3⟩ := store_step (src := src) (bound := names scope) dst (chainSubquery dst dstStart source)
      (.where_ p k e) (chain_fields ..) rfl hw.1 hs.1 hd
    exact SplitSpec.of_step h2 h3 (splitOps_spec src scope rest source dstStart _ hw.2 hs.2 h1)
  | .cons (.project p k cs) rest, source, dstStart, dst, hw, hs, hd => by
    rw [wfOps, Bool.and_eq_true] at hw
    rw [spansOps, Bool.and_eq_true] at hs
    simp only [splitOps]
    rw [Misuse.badOps]
    obtain ⟨h1, h2, h3⟩ := store_step (src := src) (bound := names scope) dst (chainSubquery dst dstStart source)
      (.project p k cs) (chain_fields ..) rfl hw.1 hs.1 hd
    exact SplitSpec.of_step h2 h3 (splitOps_spec src scope rest source dstStart _ hw.2 hs.2 h1)
  | .cons (.extend p k cs) rest, source, dstStart, dst, hw, hs, hd => by
    rw [wfOps, Bool.and_eq_true] at hw
    rw [spansOps, Bool.and_eq_true] at hs
    simp only [splitOps]
    rw [Misuse.badOps]
    obtain ⟨h1, h2, h3⟩ := store_step (src := src) (bound := names scope) dst (chainSubquery dst dstStart source)
      (.extend p k cs) (chain_fields ..) rfl hw.1 hs.1 hd
    exact SplitSpec.of_step h2 h3 (splitOps_spec src scope rest source dstStart _ hw.2 hs.2 h1)
  | .cons (.summarize p k cs b gs) rest, source, dstStart, dst, hw, hs, hd => by
    rw [wfOps, Bool.and_eq_true] at hw
    rw [spansOps, Bool.and_eq_true] at hs
    simp only [splitOps]
    rw [Misuse.badOps]
    obtain ⟨h1, h2, h3⟩ := store_step (src := src) (bound := names scope) dst (chainSubquery dst dstStart source)
      (.summarize p k cs b gs) (chain_fields ..) rfl hw.1 hs.1 hd
    exact SplitSpec.of_step h2 h3 (splitOps_spec src scope rest source dstStart _ hw.2 hs.2 h1)
  | .cons (.render p k ch w lp props rp) rest, source, dstStart, dst, hw, hs, hd => by
    rw [wfOps, Bool.and_eq_true] at hw
    rw [spansOps, Bool.and_eq_true] at hs
    simp only [splitOps]
    rw [Misuse.badOps]
    obtain ⟨h1, h2, h3⟩ := store_step (src := src) (bound := names scope) dst (chainSubquery dst dstStart source)
      (.render p k ch w lp props rp) (chain_fields ..) rfl hw.1 hs.1 hd
    exact SplitSpec.of_step h2 h3 (splitOps_spec src scope rest source dstStart _ hw.2 hs.2 h1)
  | .cons (.as_ p k n) rest, source, dstStart, dst, hw, hs, hd => by
    rw [wfOps, Bool.and_eq_true] at hw
    rw [spansOps, Bool.and_eq_true] at hs
    simp only [splitOps]
    rw [Misuse.badOps]
    obtain ⟨h1, h2, h3⟩ := store_step (src := src) (bound := names scope) dst
      { chainSubquery dst dstStart source with name := identName n }
      (.as_ p k n) ⟨rfl, rfl, rfl⟩ rfl hw.1 hs.1 hd
    exact SplitSpec.of_step h2 h3 (splitOps_spec src scope rest source dstStart _ hw.2 hs.2 h1)
  | .cons (.sort p k terms) rest, source, dstStart, dst, hw, hs, hd => by
    rw [wfOps, Bool.and_eq_true, wfOp] at hw
    rw [spansOps, Bool.and_eq_true] at hs
    simp only [splitOps]
    rw [Misuse.badOps, Misuse.badOp]
    obtain ⟨h1, h2, h3⟩ := attach_step (src := src) (bound := names scope) dst (chainSubquery dst dstStart source)
      (fun s => { s with sort := some terms }) (fun l => l.sort = none) (badSortTerms (names scope) terms)
      (match lastOf dst dstStart with
        | some l => canAttachSort l.op && l.sort.isNone && l.take.isNone
        | none => false)
      (by
        intro h
        cases hl : lastOf dst dstStart with
        | none => rw [hl] at h; cases h
        | some l =>
          rw [hl] at h
          obtain ⟨init, hi⟩ := lastOf_some hl
          simp only [Bool.and_eq_true, Option.isNone_iff_eq_none] at h
          exact ⟨init, l, hi, h.1.2⟩)
      rfl rfl rfl
      (by
        intro l hP hl
        simp only [subOK, Bool.and_eq_true] at hl ⊢
        exact ⟨hl.1, hw.1, hl.2.2⟩)
      (by
        intro l hP
        simp only [badSub, badOptSort, hP, Bool.false_or]
        cases badOptOp (names scope) l.op <;> cases badOptTake (names scope) l.take <;>
          cases badSortTerms (names scope) terms <;> rfl)
      hd
    exact SplitSpec.of_step h2 h3 (splitOps_spec src scope rest source dstStart _ hw.2 hs.2 h1)
  | .cons (.take p k n) rest, source, dstStart, dst, hw, hs, hd => by
    rw [wfOps, Bool.and_eq_true, wfOp] at hw
    rw [spansOps, Bool.and_eq_true] at hs
    simp only [splitOps]
    rw [Misuse.badOps, Misuse.badOp]
    obtain ⟨h1, h2, h3⟩ := attach_step (src := src) (bound := names scope) dst (chainSubquery dst dstStart source)
      (fun s => { s with take := some n }) (fun l => l.take = none) (Misuse.badExpr .plain (names scope) n)
      (match lastOf dst dstStart with
        | some l => canAttachSort l.op && l.take.isNone
        | none => false)
      (by
        intro h
        cases hl : lastOf dst dstStart with
        | none => rw [hl] at h; cases h
        | some l =>
          rw [hl] at h
          obtain ⟨init, hi⟩ := lastOf_some hl
          simp only [Bool.and_eq_true, Option.isNone_iff_eq_none] at h
          exact ⟨init, l, hi, h.2⟩)
      rfl rfl rfl
      (by
        intro l hP hl
        simp only [subOK, Bool.and_eq_true] at hl ⊢
        exact ⟨hl.1, hl.2.1, hw.1⟩)
      (by
        intro l hP
        simp only [badSub, badOptTake, hP, Bool.or_false]
        rw [Bool.or_assoc])
      hd
    exact SplitSpec.of_step h2 h3 (splitOps_spec src scope rest source dstStart _ hw.2 hs.2 h1)
  | .cons (.top p k n b none) rest, source, dstStart, dst, hw, hs, hd => by
    rw [wfOps, Bool.and_eq_true, wfOp] at hw
    simp only [Bool.and_false, Bool.false_eq_true, false_and] at hw
  | .cons (.top p k n b (some c)) rest, source, dstStart, dst, hw, hs, hd => by
    rw [wfOps, Bool.and_eq_true, wfOp, Bool.and_eq_true] at hw
    rw [spansOps, Bool.and_eq_true] at hs
    simp only [splitOps]
    rw [Misuse.badOps, Misuse.badOp]
    obtain ⟨h1, h2, h3⟩ := attach_step (src := src) (bound := names scope) dst (chainSubquery dst dstStart source)
      (fun s => { s with sort := some [c], take := some n }) (fun l => l.sort = none ∧ l.take = none)
      (Misuse.badExpr .plain (names scope) n || Misuse.badExpr .plain (names scope) c.x)
      (match lastOf dst dstStart with
        | some l => canAttachSort l.op && l.sort.isNone && l.take.isNone
        | none => false)
      (by
        intro h
        cases hl : lastOf dst dstStart with
        | none => rw [hl] at h; cases h
        | some l =>
          rw [hl] at h
          obtain ⟨init, hi⟩ := lastOf_some hl
          simp only [Bool.and_eq_true, Option.isNone_iff_eq_none] at h
          exact ⟨init, l, hi, h.1.2, h.2⟩)
      ⟨rfl, rfl⟩ rfl rfl
      (by
        intro l hP hl
        simp only [subOK, Bool.and_eq_true] at hl ⊢
        refine ⟨hl.1, ?_, hw.1.1⟩
        simp only [sortTermsWf, List.all_cons, List.all_nil, Bool.and_true]
        exact hw.1.2)
      (by
        intro l hP
        simp only [badSub, badOptTake, badOptSort, hP.1, hP.2, Bool.or_false, badSortTerms, List.any_cons,
          List.any_nil]
        cases badOptOp (names scope) l.op <;> cases Misuse.badExpr .plain (names scope) n <;>
          cases Misuse.badExpr .plain (names scope) c.x <;> rfl)
      hd
    exact SplitSpec.of_step h2 h3 (splitOps_spec src scope rest source dstStart _ hw.2 hs.2 h1)
  | .cons (.join p k kind ka fl lp right rp on conds) rest, source, dstStart, dst, hw, hs, hd => by
    rw [wfOps, Bool.and_eq_true, wfOp, Bool.and_eq_true, Bool.and_eq_true] at hw
    rw [spansOps, Bool.and_eq_true, spansOp] at hs
    obtain ⟨⟨hfl, hwr, hwc⟩, hwrest⟩ := hw
    rw [Misuse.badOps, Misuse.badOp, Bool.or_assoc]
    have ihr := splitQueries_spec src scope right dst hwr hs.1 hd
    have hcond := buildJoin_agrees src scope conds hwc
    cases fl with
    | none =>
      simp only [splitOps]
      refine SplitSpec.bind ihr (fun dst1 hok hlen => ?_)
      split
      · next heq => exact absurd heq (by decide)
      · refine SplitSpec.bindA hcond (fun cond => ?_)
        refine (SplitSpec.of_step (b1 := false) ?_ ?_
          (splitOps_spec src scope rest source dstStart _ hwrest hs.2
            (forall_mem_append_singleton hok rfl))).of_eq (Bool.false_or _)
        · rw [any_append_singleton, Bool.or_false]; exact Bool.or_false _
        · rw [List.length_append]; omega
    | some f =>
      simp only [splitOps]
      refine SplitSpec.bind ihr (fun dst1 hok hlen => ?_)
      split
      · next heq =>
        obtain ⟨kw, hkw⟩ := joinKw_some f.name hfl
        rw [hkw] at heq
        cases heq
      · refine SplitSpec.bindA hcond (fun cond => ?_)
        refine (SplitSpec.of_step (b1 := false) ?_ ?_
          (splitOps_spec src scope rest source dstStart _ hwrest hs.2
            (forall_mem_append_singleton hok rfl))).of_eq (Bool.false_or _)
        · rw [any_append_singleton, Bool.or_false]; exact Bool.or_false _
        · rw [List.length_append]; omega
end
end Pql.Exact
