/-
Where the positioned error leaves of the parser come from (property C10, failed parses).

`ErrsIn P es`  : every leaf of `es` that carries a position carries one that satisfies `P`;
`ToksIn P ts`  : the span of every token of `ts` satisfies `P`;
`ResIn P r`    : both, for the errors and the remaining tokens of a production's result.

For a predicate `P` that holds of the EOF index and of the span of every token handed to a
production, `ResIn P` holds of the production's result: every error leaf is `errAt`/`nfAt` of
the span of a token of the input, or of the EOF index; out-of-fuel leaves and `errNoPos` carry
no position; `mkOpaque` and `++` preserve positions; sub-parsers run on `split` prefixes, whose
tokens are tokens of the whole.  No fuel bound is needed: the invariant holds for every fuel.
-/
import PqlModel.Lemmas.SplitBasic
namespace Pql

/-- every positioned leaf of `es` has a span satisfying `P` -/
def ErrsIn (P : Span → Prop) (es : Errs) : Prop := ∀ e ∈ es, ∀ sp, e.span = some sp → P sp

/-- every token of `ts` has a span satisfying `P` -/
def ToksIn (P : Span → Prop) (ts : List Token) : Prop := ∀ t ∈ ts, P t.span

/-- the errors and the remaining tokens of a result stay inside `P` -/
structure ResIn (P : Span → Prop) {α : Type} (r : PRes α) : Prop where
  errs : ErrsIn P r.errs
  rest : ToksIn P r.rest

section
variable {P : Span → Prop}

@[simp] theorem ErrsIn_nil : ErrsIn P [] ↔ True := by simp [ErrsIn]

@[simp] theorem ErrsIn_append (a b : Errs) : ErrsIn P (a ++ b) ↔ ErrsIn P a ∧ ErrsIn P b := by
  simp only [ErrsIn, List.mem_append]
  constructor
  · intro h; exact ⟨fun e he => h e (Or.inl he), fun e he => h e (Or.inr he)⟩
  · rintro ⟨h1, h2⟩ e (he | he)
    · exact h1 e he
    · exact h2 e he

@[simp] theorem ErrsIn_mkOpaque (a : Errs) : ErrsIn P (mkOpaque a) ↔ ErrsIn P a := by
  simp only [ErrsIn, mkOpaque, List.mem_map]
  constructor
  · intro h e he sp hsp
    exact h _ ⟨e, he, rfl⟩ sp hsp
  · rintro h e ⟨e', he', rfl⟩ sp hsp
    exact h e' he' sp hsp

@[simp] theorem ErrsIn_errAt (s : Span) : ErrsIn P (errAt s) ↔ P s := by
  simp [ErrsIn, errAt]

@[simp] theorem ErrsIn_nfAt (s : Span) : ErrsIn P (nfAt s) ↔ P s := by
  simp [ErrsIn, nfAt]

@[simp] theorem ErrsIn_errNoPos : ErrsIn P errNoPos ↔ True := by simp [ErrsIn, errNoPos]

@[simp] theorem ErrsIn_errFuel : ErrsIn P errFuel ↔ True := by simp [ErrsIn, errFuel]

@[simp] theorem ToksIn_nil : ToksIn P [] ↔ True := by simp [ToksIn]

@[simp] theorem ToksIn_cons (t : Token) (ts : List Token) :
    ToksIn P (t :: ts) ↔ P t.span ∧ ToksIn P ts := by
  simp [ToksIn]

theorem ToksIn_append (a b : List Token) : ToksIn P (a ++ b) ↔ ToksIn P a ∧ ToksIn P b := by
  simp only [ToksIn, List.mem_append]
  constructor
  · intro h; exact ⟨fun e he => h e (Or.inl he), fun e he => h e (Or.inr he)⟩
  · rintro ⟨h1, h2⟩ e (he | he)
    · exact h1 e he
    · exact h2 e he

theorem ErrsIn_endSplit {ts : List Token} (h : ToksIn P ts) : ErrsIn P (endSplit ts) := by
  cases ts with
  | nil => simp [endSplit]
  | cons t ts => simp only [endSplit, ErrsIn_errAt]; exact ((ToksIn_cons t ts).mp h).1

theorem ToksIn.split1 {k : TokKind} {ts : List Token} (h : ToksIn P ts) : ToksIn P (split k ts).1 := by
  rw [← split_append k ts, ToksIn_append] at h; exact h.1

theorem ToksIn.split2 {k : TokKind} {ts : List Token} (h : ToksIn P ts) : ToksIn P (split k ts).2 := by
  rw [← split_append k ts, ToksIn_append] at h; exact h.2

theorem ToksIn.splitSemi1 {ts : List Token} (h : ToksIn P ts) : ToksIn P (splitSemi ts).1 := by
  rw [← splitSemi_append ts, ToksIn_append] at h; exact h.1

theorem ToksIn.splitSemi2 {ts : List Token} (h : ToksIn P ts) : ToksIn P (splitSemi ts).2 := by
  rw [← splitSemi_append ts, ToksIn_append] at h; exact h.2

theorem resIn_mk {α : Type} (v : α) (e : Errs) (r : List Token) :
    ResIn P (PRes.mk v e r) ↔ ErrsIn P e ∧ ToksIn P r :=
  ⟨fun h => ⟨h.errs, h.rest⟩, fun h => ⟨h.1, h.2⟩⟩

/-- the errors of a sub-parser on a `split` prefix, made opaque, plus its `endSplit` check -/
theorem ErrsIn_sub {α : Type} {r : PRes α} (h : ResIn P r) :
    ErrsIn P (mkOpaque r.errs ++ endSplit r.rest) := by
  rw [ErrsIn_append, ErrsIn_mkOpaque]
  exact ⟨h.errs, ErrsIn_endSplit h.rest⟩

end

/-- closes leaf goals: the facts are in the context, up to the algebra of `ErrsIn` / `ToksIn` -/
macro "in_leaf" : tactic =>
  `(tactic| first
    | assumption
    | (simp_all only [resIn_mk, ErrsIn_nil, ErrsIn_append, ErrsIn_mkOpaque, ErrsIn_errAt,
        ErrsIn_nfAt, ErrsIn_errNoPos, ErrsIn_errFuel, ToksIn_nil, ToksIn_cons, and_self, and_true,
        true_and]; done))

/-! ### identifiers -/

section
variable {P : Span → Prop} {c : PCtx}

theorem pIdent_in (hP : P c.eof) (ts : List Token) (ht : ToksIn P ts) : ResIn P (pIdent c ts) := by
  unfold pIdent
  split
  · split <;> in_leaf
  · in_leaf

theorem pQualTail_in (hP : P c.eof) : ∀ (fuel : Nat) (parts : List Ident) (ts : List Token),
    ToksIn P ts → ResIn P (pQualTail c fuel parts ts) := by
  intro fuel
  induction fuel with
  | zero => intro parts ts ht; simp only [pQualTail]; in_leaf
  | succ fuel ih =>
    intro parts ts ht
    simp only [pQualTail]
    split
    · rename_i t rest
      have hi := pIdent_in hP rest ((ToksIn_cons t rest).mp ht).2
      split
      · split
        · exact ih _ _ hi.rest
        · obtain ⟨hie, hir⟩ := hi; in_leaf
      · in_leaf
    · in_leaf

theorem pQualifiedIdent_in (hP : P c.eof) (ts : List Token) (ht : ToksIn P ts) :
    ResIn P (pQualifiedIdent c ts) := by
  have hi := pIdent_in hP ts ht
  simp only [pQualifiedIdent]
  split
  · obtain ⟨hie, hir⟩ := hi; in_leaf
  · have hq := pQualTail_in hP ((pIdent c ts).rest.length + 1) [‹Ident›] _ hi.rest
    obtain ⟨hqe, hqr⟩ := hq; in_leaf

end

/-! ### expressions -/

structure ExprIn (P : Span → Prop) (c : PCtx) (fuel : Nat) : Prop where
  expr : ∀ ts, ToksIn P ts → ResIn P (pExpr c fuel ts)
  trail : ∀ x m acc ts, ErrsIn P acc → ToksIn P ts → ResIn P (pTrail c fuel x m acc ts)
  higher : ∀ y p acc ts, ErrsIn P acc → ToksIn P ts → ResIn P (pHigher c fuel y p acc ts)
  unary : ∀ ts, ToksIn P ts → ResIn P (pUnary c fuel ts)
  primary : ∀ ts, ToksIn P ts → ResIn P (pPrimary c fuel ts)
  inner : ∀ ts, ToksIn P ts → ResIn P (pInner c fuel ts)
  exprList : ∀ ts, ToksIn P ts → ResIn P (pExprList c fuel ts)
  exprListTail : ∀ acc ts, ToksIn P ts → ResIn P (pExprListTail c fuel acc ts)

section
variable {P : Span → Prop} {c : PCtx}

theorem ExprIn.zero : ExprIn P c 0 := by
  constructor <;> intros <;>
    simp only [pExpr, pTrail, pHigher, pUnary, pPrimary, pInner, pExprList, pExprListTail] <;>
    in_leaf

theorem pExpr_in_step (fuel : Nat) (ih : ExprIn P c fuel) (ts : List Token) (ht : ToksIn P ts) :
    ResIn P (pExpr c (fuel + 1) ts) := by
  simp only [pExpr]
  have h1 := ih.unary ts ht
  split
  · exact h1
  · have h2 := ih.trail (pUnary c fuel ts).val 0 [] (pUnary c fuel ts).rest (by simp) h1.rest
    exact ⟨(ErrsIn_append _ _).mpr ⟨h1.errs, h2.errs⟩, h2.rest⟩

theorem pTrail_in_step (hP : P c.eof) (fuel : Nat) (ih : ExprIn P c fuel) (x : Expr) (m : Int)
    (acc : Errs) (ts : List Token) (hacc : ErrsIn P acc) (ht : ToksIn P ts) :
    ResIn P (pTrail c (fuel + 1) x m acc ts) := by
  simp only [pTrail]
  split
  · in_leaf
  · rename_i op1 rest
    obtain ⟨hop, hrest⟩ := (ToksIn_cons op1 rest).mp ht
    split
    · in_leaf
    · split
      · split
        · in_leaf
        · rename_i lp rest2
          obtain ⟨hlp, hrest2⟩ := (ToksIn_cons lp rest2).mp hrest
          split
          · in_leaf
          · have hl := ih.exprList _ (hrest2.split1 (k := .rparen))
            have h2 := hrest2.split2 (k := .rparen)
            have hacc' : ErrsIn P (acc ++ mkOpaque (pExprList c fuel (split .rparen rest2).1).errs ++
                endSplit (pExprList c fuel (split .rparen rest2).1).rest) := by
              rw [List.append_assoc, ErrsIn_append]
              exact ⟨hacc, ErrsIn_sub hl⟩
            split
            · in_leaf
            · rename_i rp rest3 heq
              rw [heq] at h2
              obtain ⟨hrp, hrest3⟩ := (ToksIn_cons rp rest3).mp h2
              split
              · in_leaf
              · exact ih.trail _ _ _ _ hacc' hrest3
      · have hu := ih.unary rest hrest
        have hh := ih.higher (pUnary c fuel rest).val (precOf op1.kind)
          (acc ++ mkOpaque (pUnary c fuel rest).errs) (pUnary c fuel rest).rest
          (by rw [ErrsIn_append, ErrsIn_mkOpaque]; exact ⟨hacc, hu.errs⟩) hu.rest
        exact ih.trail _ _ _ _ hh.errs hh.rest

theorem pHigher_in_step (fuel : Nat) (ih : ExprIn P c fuel) (y : Expr) (p : Int)
    (acc : Errs) (ts : List Token) (hacc : ErrsIn P acc) (ht : ToksIn P ts) :
    ResIn P (pHigher c (fuel + 1) y p acc ts) := by
  simp only [pHigher]
  split
  · in_leaf
  · rename_i op2 rest
    split
    · in_leaf
    · have h1 := ih.trail y (p + 1) [] (op2 :: rest) (by simp) ht
      exact ih.higher _ _ _ _ (by rw [ErrsIn_append, ErrsIn_mkOpaque]; exact ⟨hacc, h1.errs⟩) h1.rest

theorem pUnary_in_step (hP : P c.eof) (fuel : Nat) (ih : ExprIn P c fuel) (ts : List Token)
    (ht : ToksIn P ts) : ResIn P (pUnary c (fuel + 1) ts) := by
  simp only [pUnary]
  split
  · in_leaf
  · rename_i t rest
    obtain ⟨htt, hrest⟩ := (ToksIn_cons t rest).mp ht
    split
    · have h1 := ih.primary rest hrest
      exact ⟨(ErrsIn_mkOpaque _).mpr h1.errs, h1.rest⟩
    · exact ih.primary _ ht

theorem pPrimary_in_step (hP : P c.eof) (fuel : Nat) (ih : ExprIn P c fuel) (ts : List Token)
    (ht : ToksIn P ts) : ResIn P (pPrimary c (fuel + 1) ts) := by
  simp only [pPrimary]
  have h1 := ih.inner ts ht
  split
  · exact h1
  · split
    · in_leaf
    · rename_i t rest heq
      have hr := h1.rest
      rw [heq] at hr
      obtain ⟨htt, hrest⟩ := (ToksIn_cons t rest).mp hr
      split
      · have hi := ih.expr _ (hrest.split1 (k := .rbracket))
        have h2 := hrest.split2 (k := .rbracket)
        have he := ErrsIn_sub hi
        split
        · in_leaf
        · rename_i rb rest2 heq2
          rw [heq2] at h2
          obtain ⟨hrb, hrest2⟩ := (ToksIn_cons rb rest2).mp h2
          split
          · exact ⟨he, hrest2⟩
          · exact ⟨(ErrsIn_append _ _).mpr ⟨he, (ErrsIn_errAt _).mpr hrb⟩, hrest2⟩
      · exact ⟨by simp, h1.rest⟩

theorem pInner_in_step (hP : P c.eof) (fuel : Nat) (ih : ExprIn P c fuel) (ts : List Token)
    (ht : ToksIn P ts) : ResIn P (pInner c (fuel + 1) ts) := by
  simp only [pInner]
  split
  · in_leaf
  · rename_i t rest
    obtain ⟨htt, hrest⟩ := (ToksIn_cons t rest).mp ht
    have hq := pQualifiedIdent_in hP (t :: rest) ht
    split
    · in_leaf
    · split
      · split
        · exact ⟨hq.errs, hq.rest⟩
        · rename_i parts hval
          split
          · exact ⟨hq.errs, hq.rest⟩
          · split
            · exact ⟨by simp, hq.rest⟩
            · split
              · in_leaf
              · rename_i lp rest2 heq
                have hr := hq.rest
                rw [heq] at hr
                obtain ⟨hlp, hrest2⟩ := (ToksIn_cons lp rest2).mp hr
                split
                · exact ⟨by simp, hq.rest⟩
                · have ha := ih.exprList _ (hrest2.split1 (k := .rparen))
                  have h2 := hrest2.split2 (k := .rparen)
                  have he : ErrsIn P ((if isNF (pExprList c fuel (split .rparen rest2).1).errs then []
                      else (pExprList c fuel (split .rparen rest2).1).errs) ++
                      endSplit (if (pExprList c fuel (split .rparen rest2).1).errs = [] then
                        match (pExprList c fuel (split .rparen rest2).1).rest with
                        | cm :: more => if cm.kind = .comma then more
                            else (pExprList c fuel (split .rparen rest2).1).rest
                        | [] => []
                        else (pExprList c fuel (split .rparen rest2).1).rest)) := by
                    rw [ErrsIn_append]
                    constructor
                    · split
                      · simp
                      · exact ha.errs
                    · apply ErrsIn_endSplit
                      have har := ha.rest
                      split
                      · split
                        · rename_i cm more heq3
                          have har0 := har
                          rw [heq3] at har
                          split
                          · exact ((ToksIn_cons cm more).mp har).2
                          · exact har0
                        · simp
                      · exact har
                  split
                  · exact ⟨(ErrsIn_append _ _).mpr ⟨he, (ErrsIn_errAt _).mpr hP⟩, by simp⟩
                  · rename_i rp rest3 heq3
                    have h2' := h2
                    rw [heq3] at h2'
                    obtain ⟨hrp, hrest3⟩ := (ToksIn_cons rp rest3).mp h2'
                    split
                    · exact ⟨he, hrest3⟩
                    · exact ⟨(ErrsIn_append _ _).mpr ⟨he, (ErrsIn_errAt _).mpr hrp⟩, h2⟩
      · split
        · split
          · exact ⟨hq.errs, hq.rest⟩
          · exact ⟨hq.errs, hq.rest⟩
        · split
          · have hx := ih.expr _ (hrest.split1 (k := .rparen))
            have h2 := hrest.split2 (k := .rparen)
            have he := ErrsIn_sub hx
            split
            · exact ⟨(ErrsIn_append _ _).mpr ⟨he, (ErrsIn_errAt _).mpr hP⟩, by simp⟩
            · rename_i rp rest2 heq2
              rw [heq2] at h2
              obtain ⟨hrp, hrest2⟩ := (ToksIn_cons rp rest2).mp h2
              split
              · exact ⟨he, hrest2⟩
              · exact ⟨(ErrsIn_append _ _).mpr ⟨he, (ErrsIn_errAt _).mpr hrp⟩, hrest2⟩
          · in_leaf

theorem pExprList_in_step (fuel : Nat) (ih : ExprIn P c fuel) (ts : List Token)
    (ht : ToksIn P ts) : ResIn P (pExprList c (fuel + 1) ts) := by
  simp only [pExprList]
  have h1 := ih.expr ts ht
  split
  · exact ⟨h1.errs, h1.rest⟩
  · exact ih.exprListTail _ _ h1.rest

theorem pExprListTail_in_step (fuel : Nat) (ih : ExprIn P c fuel) (acc : ExprList)
    (ts : List Token) (ht : ToksIn P ts) : ResIn P (pExprListTail c (fuel + 1) acc ts) := by
  simp only [pExprListTail]
  split
  · in_leaf
  · rename_i t rest
    obtain ⟨htt, hrest⟩ := (ToksIn_cons t rest).mp ht
    split
    · exact ⟨by simp, ht⟩
    · have h1 := ih.expr rest hrest
      split
      · exact ⟨by simp, ht⟩
      · split
        · exact ⟨(ErrsIn_mkOpaque _).mpr h1.errs, h1.rest⟩
        · exact ih.exprListTail _ _ h1.rest

theorem exprIn (hP : P c.eof) (fuel : Nat) : ExprIn P c fuel := by
  induction fuel with
  | zero => exact ExprIn.zero
  | succ fuel ih =>
    exact
      { expr := pExpr_in_step fuel ih
        trail := pTrail_in_step hP fuel ih
        higher := pHigher_in_step fuel ih
        unary := pUnary_in_step hP fuel ih
        primary := pPrimary_in_step hP fuel ih
        inner := pInner_in_step hP fuel ih
        exprList := pExprList_in_step fuel ih
        exprListTail := pExprListTail_in_step fuel ih }

theorem pExpr_in (hP : P c.eof) (fuel : Nat) (ts : List Token) (ht : ToksIn P ts) :
    ResIn P (pExpr c fuel ts) := (exprIn hP fuel).expr ts ht

theorem pExprList_in (hP : P c.eof) (fuel : Nat) (ts : List Token) (ht : ToksIn P ts) :
    ResIn P (pExprList c fuel ts) := (exprIn hP fuel).exprList ts ht

end

end Pql
