/-
Property C16, semantic half — `Parse` on `prelude ++ statement`.

`parse_semi_nl`  : `Parse` at the separator ";\n" cmd/pql writes behind an accepted let;
`prelude_parse_at` / `prelude_parse` : the statements of `preludeOf ls ++ s` are the statements of
   the let texts (each parsed alone, moved to its offset) followed by the statements of `s` moved by
   the length of the prelude; error-free iff all parts are.
The only hypothesis is `SemiEnds l` for every let text (the ';' behind it is a token).
-/
import PqlModel.Lemmas.CliSemDefs
import PqlModel.Lemmas.CliLemmasLast
import PqlModel.Props.C15Parse
namespace Pql.CliSem
open Pql Pql.Piecewise

/-! ### the scan at ";\n" -/

theorem scanFrom_nl_cons (b : Bytes) (off : Nat) : scanFrom (10 :: b) off = scanFrom b (off + 1) := by
  rw [scanFrom_step (by simp)]
  have : scanOne (10 :: b) = ⟨none, 1⟩ := by simp [scanOne, isAsciiSpace, Step.skip]
  simp [this, Step.toks]

theorem scan_nl_cons (b : Bytes) : scan (10 :: b) = (scan b).map (Token.shift 1) := by
  unfold scan
  rw [scanFrom_nl_cons, scanFrom_eq_map_scan]
  rfl

/-- the scan of `a ++ ";\n" ++ b` when the ';' is on a step boundary -/
theorem scan_sep_split (a b : Bytes) (hr : Reaches (a ++ 59 :: 10 :: b) a.length) :
    scan (a ++ 59 :: 10 :: b) = scan a ++ ⟨.semi, a.length, a.length + 1, []⟩ ::
      (scan b).map (Token.shift (a.length + 2)) := by
  rw [scan_semi_split a (10 :: b) hr, scan_nl_cons, List.map_map]
  congr 2
  apply List.map_congr_left
  intro t _
  simp only [Function.comp, Token.shift_shift]
  congr 1
  omega

/-- **`Parse` at ";\n".** -/
theorem parse_semi_nl (a b : Bytes)
    (H : scan (a ++ 59 :: 10 :: b) = scan a ++ ⟨.semi, a.length, a.length + 1, []⟩ ::
      (scan b).map (Token.shift (a.length + 2))) :
    (parse (a ++ 59 :: 10 :: b)).1 = (parse a).1 ++ (parse b).1.map (shStmt (a.length + 2)) ∧
    ((parse (a ++ 59 :: 10 :: b)).2 = [] ↔ (parse a).2 = [] ∧ (parse b).2 = []) := by
  have h0 : parse (a ++ 59 :: 10 :: b) =
      pStatements ⟨(a ++ 59 :: 10 :: b).length⟩ (((scan b).map (Token.shift (a.length + 2))).length + 1)
        (pStatements ⟨(a ++ 59 :: 10 :: b).length⟩ ((scan a).length + 1) [] [] (scan a)).1
        (pStatements ⟨(a ++ 59 :: 10 :: b).length⟩ ((scan a).length + 1) [] [] (scan a)).2
        ((scan b).map (Token.shift (a.length + 2))) := by
    rw [parse, parseTokens, H]
    exact pStatements_append _ _ [] [] _ _ _ rfl (Nat.lt_succ_self _)
  have ha := parse_in_context a (a ++ 59 :: 10 :: b).length 0
  rw [map_shift_zero, map_shStmt_zero] at ha
  have hb := parse_in_context b (a ++ 59 :: 10 :: b).length (a.length + 2)
  rw [List.length_map] at h0
  constructor
  · rw [h0, pStatements_acc_fst, ha, hb]
  · rw [h0, pStatements_errs_nil, ha, hb]
    simp

theorem snoc_induction {α : Type} {P : List α → Prop} (hnil : P [])
    (hsnoc : ∀ l a, P l → P (l ++ [a])) : ∀ l, P l := by
  have : ∀ l : List α, P l.reverse := by
    intro l
    induction l with
    | nil => exact hnil
    | cons a l ih => rw [List.reverse_cons]; exact hsnoc _ _ ih
  intro l
  have := this l.reverse
  rwa [List.reverse_reverse] at this

/-! ### `SemiEnds` -/

/-- what `SemiEnds` is used for: whatever follows the ';' (needs the independence lemma of
    Lemmas/CliSemLex.lean, passed as `hind`) -/
def SemiClosed (l : Bytes) : Prop := ∀ v, Reaches (l ++ 59 :: v) l.length

theorem SemiClosed.semiEnds {l : Bytes} (h : SemiClosed l) : SemiEnds l := h []

/-! ### the prelude -/

theorem preludeOf_nil : preludeOf [] = [] := rfl

theorem preludeOf_cons (l : Bytes) (ls : List Bytes) :
    preludeOf (l :: ls) = l ++ 59 :: 10 :: preludeOf ls := by
  simp [preludeOf, sep]

theorem preludeOf_append (a b : List Bytes) : preludeOf (a ++ b) = preludeOf a ++ preludeOf b := by
  simp [preludeOf]

theorem preludeOf_snoc (ls : List Bytes) (l : Bytes) :
    preludeOf (ls ++ [l]) = preludeOf ls ++ l ++ [59, 10] := by
  simp [preludeOf, sep]

/-- a prelude ends with a newline (or is empty): the scanner always has a step boundary behind it -/
theorem closed_preludeOf (ls : List Bytes) : Closed (preludeOf ls) := by
  rcases List.eq_nil_or_concat ls with h | ⟨ls', l, h⟩
  · subst h; exact closed_nil
  · rw [h, List.concat_eq_append, preludeOf_snoc]
    have := closed_newline (preludeOf ls' ++ l ++ [59])
    simpa [List.append_assoc] using this

theorem letsAt_append (off : Nat) (a b : List Bytes) :
    letsAt off (a ++ b) = letsAt off a ++ letsAt (off + (preludeOf a).length) b := by
  induction a generalizing off with
  | nil => simp [letsAt, preludeOf]
  | cons l a ih =>
    simp only [List.cons_append, letsAt, ih, preludeOf_cons, List.length_append, List.length_cons,
      List.append_assoc]
    congr 3
    omega

theorem letsAt_snoc (ls : List Bytes) (l : Bytes) :
    letsAt 0 (ls ++ [l]) = letsAt 0 ls ++ (parse l).1.map (shStmt (preludeOf ls).length) := by
  rw [letsAt_append]
  simp [letsAt]

/-- step boundary at the ';' behind `P ++ l` when `P` is closed -/
theorem reaches_closed_append {P l v : Bytes} (hP : Closed P) (hl : Reaches (l ++ 59 :: v) l.length) :
    Reaches ((P ++ l) ++ 59 :: v) (P ++ l).length := by
  have h1 := hP (l ++ 59 :: v)
  have h2 : Reaches ((P ++ (l ++ 59 :: v)).drop P.length) l.length := by
    rw [List.drop_left]; exact hl
  have := Reaches.trans h1 h2
  simpa [List.append_assoc] using this

/-- **Deliverable 1 (`Parse` on prelude ++ statement).**  For let texts `ls`, each with a token
    boundary at the ';' written behind it, and ANY text `s`:
    the statements of `preludeOf ls ++ s` are the statements of `l1`, …, `lk` (each parsed alone,
    moved to its offset) followed by the statements of `s` moved by the length of the prelude, and
    the whole is error-free iff every `l_i` and `s` are. -/
theorem prelude_parse (ls : List Bytes) (hls : ∀ l ∈ ls, SemiClosed l) (s : Bytes) :
    (parse (preludeOf ls ++ s)).1 =
        letsAt 0 ls ++ (parse s).1.map (shStmt (preludeOf ls).length) ∧
      ((parse (preludeOf ls ++ s)).2 = [] ↔ (∀ l ∈ ls, (parse l).2 = []) ∧ (parse s).2 = []) := by
  revert hls s
  refine snoc_induction (P := fun ls => (∀ l ∈ ls, SemiClosed l) → ∀ s : Bytes,
    (parse (preludeOf ls ++ s)).1 =
        letsAt 0 ls ++ (parse s).1.map (shStmt (preludeOf ls).length) ∧
      ((parse (preludeOf ls ++ s)).2 = [] ↔ (∀ l ∈ ls, (parse l).2 = []) ∧ (parse s).2 = [])) ?_ ?_ ls
  · intro _ s
    simp [preludeOf_nil, letsAt, map_shStmt_zero]
  · intro ls l ih hls s
    have hls' : ∀ l' ∈ ls, SemiClosed l' := fun l' h => hls l' (by simp [h])
    have hl : SemiClosed l := hls l (by simp)
    have hr : Reaches ((preludeOf ls ++ l) ++ 59 :: 10 :: s) (preludeOf ls ++ l).length :=
      reaches_closed_append (closed_preludeOf ls) (hl (10 :: s))
    have hp := parse_semi_nl (preludeOf ls ++ l) s (scan_sep_split _ _ hr)
    have e : preludeOf (ls ++ [l]) ++ s = (preludeOf ls ++ l) ++ 59 :: 10 :: s := by
      rw [preludeOf_snoc]; simp [List.append_assoc]
    have elen : (preludeOf (ls ++ [l])).length = (preludeOf ls ++ l).length + 2 := by
      rw [preludeOf_snoc]; simp [List.length_append]; omega
    obtain ⟨ih1, ih2⟩ := ih hls' l
    rw [e, elen]
    constructor
    · rw [hp.1, ih1, letsAt_snoc, List.append_assoc]
    · rw [hp.2, ih2]
      simp only [List.mem_append, List.mem_singleton]
      constructor
      · rintro ⟨⟨h1, h2⟩, h3⟩
        exact ⟨fun l' hl' => hl'.elim (h1 l') (fun h => h ▸ h2), h3⟩
      · rintro ⟨h1, h3⟩
        exact ⟨⟨fun l' hl' => h1 l' (Or.inl hl'), h1 l (Or.inr rfl)⟩, h3⟩

/-- the probe text `prelude ++ l ++ ";X"` of cmd/pql -/
theorem probe_parse (ls : List Bytes) (hls : ∀ l ∈ ls, SemiClosed l) (l : Bytes) (hl : SemiClosed l)
    (x : Bytes) :
    (parse (preludeOf ls ++ l ++ 59 :: x)).1 =
        letsAt 0 ls ++ (parse l).1.map (shStmt (preludeOf ls).length) ++
          (parse x).1.map (shStmt ((preludeOf ls).length + l.length + 1)) ∧
      ((parse (preludeOf ls ++ l ++ 59 :: x)).2 = [] ↔
        (∀ l' ∈ ls, (parse l').2 = []) ∧ (parse l).2 = [] ∧ (parse x).2 = []) := by
  have hr : Reaches ((preludeOf ls ++ l) ++ 59 :: x) (preludeOf ls ++ l).length :=
    reaches_closed_append (closed_preludeOf ls) (hl x)
  have hp := C15_parse_semicolon_of_reaches (preludeOf ls ++ l) x hr
  obtain ⟨h1, h2⟩ := prelude_parse ls hls l
  constructor
  · rw [hp.1, h1]
    simp [List.length_append]
  · rw [hp.2, h2, and_assoc]

end Pql.CliSem
