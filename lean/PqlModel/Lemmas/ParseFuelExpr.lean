/-
Fuel sufficiency for the expression block: with `4 * (remaining tokens) + rank` units of fuel no
production of the block can reach its out-of-fuel branch.  The ranks are

  pInner 1, pExprListTail 1, pTrail 1, pPrimary 2, pHigher 2, pUnary 3, pExpr 4, pExprList 5.

Every recursive call passes `fuel - 1`; a call on the same token list goes to a production of
strictly smaller rank, every other call is on a list that is at least one token shorter (which
pays 4).  The only place where "shorter" is not syntactically evident is the loop of `pHigher`,
which relies on the progress of `pTrail` (`pTrail_progress`).
-/
import PqlModel.Lemmas.ParseFuelLen
namespace Pql

structure ExprNF (c : PCtx) (fuel : Nat) : Prop where
  expr : ∀ ts, 4 * ts.length + 4 ≤ fuel → NoFuel (pExpr c fuel ts).errs
  trail : ∀ x m acc ts, 4 * ts.length + 1 ≤ fuel → NoFuel acc → NoFuel (pTrail c fuel x m acc ts).errs
  higher : ∀ y p acc ts, 4 * ts.length + 2 ≤ fuel → NoFuel acc → NoFuel (pHigher c fuel y p acc ts).errs
  unary : ∀ ts, 4 * ts.length + 3 ≤ fuel → NoFuel (pUnary c fuel ts).errs
  primary : ∀ ts, 4 * ts.length + 2 ≤ fuel → NoFuel (pPrimary c fuel ts).errs
  inner : ∀ ts, 4 * ts.length + 1 ≤ fuel → NoFuel (pInner c fuel ts).errs
  exprList : ∀ ts, 4 * ts.length + 5 ≤ fuel → NoFuel (pExprList c fuel ts).errs
  exprListTail : ∀ acc ts, 4 * ts.length + 1 ≤ fuel → NoFuel (pExprListTail c fuel acc ts).errs

theorem ExprNF.zero (c : PCtx) : ExprNF c 0 := by
  constructor <;> intros <;> omega

theorem pExpr_nf_step (c : PCtx) (fuel : Nat) (ih : ExprNF c fuel) (ts : List Token)
    (hf : 4 * ts.length + 4 ≤ fuel + 1) : NoFuel (pExpr c (fuel + 1) ts).errs := by
  simp only [pExpr]
  have h1 := ih.unary ts (by omega)
  have hl := (exprLen c fuel).unary ts
  split
  · exact h1
  · exact NoFuel.append h1 (ih.trail _ _ _ _ (by omega) NoFuel.nil)

theorem pTrail_nf_step (c : PCtx) (fuel : Nat) (ih : ExprNF c fuel) (x : Expr) (m : Int) (acc : Errs)
    (ts : List Token) (hf : 4 * ts.length + 1 ≤ fuel + 1) (hacc : NoFuel acc) :
    NoFuel (pTrail c (fuel + 1) x m acc ts).errs := by
  simp only [pTrail]
  split
  · exact hacc
  · rename_i op1 rest
    simp only [List.length_cons] at hf
    split
    · exact hacc
    · split
      · split
        · exact NoFuel.append hacc (NoFuel.errAt _)
        · rename_i lp rest2
          simp only [List.length_cons] at hf
          split
          · exact NoFuel.append hacc (NoFuel.errAt _)
          · have hs := split_length .rparen rest2
            have hl : NoFuel (pExprList c fuel (split .rparen rest2).1).errs :=
              ih.exprList _ (by omega)
            have hacc' : NoFuel (acc ++ mkOpaque (pExprList c fuel (split .rparen rest2).1).errs ++
                endSplit (pExprList c fuel (split .rparen rest2).1).rest) :=
              NoFuel.append (NoFuel.append hacc hl.mkOpaque) (NoFuel.endSplit _)
            split
            · exact NoFuel.append hacc' (NoFuel.errAt _)
            · rename_i rp rest3 heq
              rw [heq] at hs
              simp only [List.length_cons] at hs
              split
              · exact NoFuel.append hacc' (NoFuel.errAt _)
              · exact ih.trail _ _ _ _ (by omega) hacc'
      · have hu : NoFuel (pUnary c fuel rest).errs := ih.unary rest (by omega)
        have hul := (exprLen c fuel).unary rest
        have hh := ih.higher (pUnary c fuel rest).val (precOf op1.kind)
          (acc ++ mkOpaque (pUnary c fuel rest).errs) (pUnary c fuel rest).rest (by omega)
          (NoFuel.append hacc hu.mkOpaque)
        have hhl := (exprLen c fuel).higher (pUnary c fuel rest).val (precOf op1.kind)
          (acc ++ mkOpaque (pUnary c fuel rest).errs) (pUnary c fuel rest).rest
        exact ih.trail _ _ _ _ (by omega) hh

theorem pHigher_nf_step (c : PCtx) (fuel : Nat) (ih : ExprNF c fuel) (y : Expr) (p : Int) (acc : Errs)
    (ts : List Token) (hf : 4 * ts.length + 2 ≤ fuel + 1) (hacc : NoFuel acc) :
    NoFuel (pHigher c (fuel + 1) y p acc ts).errs := by
  simp only [pHigher]
  split
  · exact hacc
  · rename_i op2 rest
    simp only [List.length_cons] at hf
    split
    · exact hacc
    · rename_i hp
      have ht : NoFuel (pTrail c fuel y (p + 1) [] (op2 :: rest)).errs :=
        ih.trail _ _ _ _ (by simp only [List.length_cons]; omega) NoFuel.nil
      have hprog : (pTrail c fuel y (p + 1) [] (op2 :: rest)).rest.length ≤ rest.length := by
        cases fuel with
        | zero => omega
        | succ f => exact pTrail_progress c f y (p + 1) [] op2 rest (by omega)
      exact ih.higher _ _ _ _ (by omega) (NoFuel.append hacc ht.mkOpaque)

theorem pUnary_nf_step (c : PCtx) (fuel : Nat) (ih : ExprNF c fuel) (ts : List Token)
    (hf : 4 * ts.length + 3 ≤ fuel + 1) : NoFuel (pUnary c (fuel + 1) ts).errs := by
  simp only [pUnary]
  split
  · exact NoFuel.nfAt _
  · rename_i t rest
    simp only [List.length_cons] at hf
    split
    · exact (ih.primary rest (by omega)).mkOpaque
    · exact ih.primary (t :: rest) (by simp only [List.length_cons]; omega)

theorem pPrimary_nf_step (c : PCtx) (fuel : Nat) (ih : ExprNF c fuel) (ts : List Token)
    (hf : 4 * ts.length + 2 ≤ fuel + 1) : NoFuel (pPrimary c (fuel + 1) ts).errs := by
  simp only [pPrimary]
  have h1 := ih.inner ts (by omega)
  have hl := (exprLen c fuel).inner ts
  split
  · exact h1
  · split
    · exact NoFuel.nil
    · rename_i t rest heq
      rw [heq] at hl
      simp only [List.length_cons] at hl
      split
      · have hs := split_length .rbracket rest
        have hi : NoFuel (pExpr c fuel (split .rbracket rest).1).errs := ih.expr _ (by omega)
        have he : NoFuel (mkOpaque (pExpr c fuel (split .rbracket rest).1).errs ++
            endSplit (pExpr c fuel (split .rbracket rest).1).rest) :=
          NoFuel.append hi.mkOpaque (NoFuel.endSplit _)
        split
        · exact NoFuel.append he (NoFuel.errAt _)
        · split
          · exact he
          · exact NoFuel.append he (NoFuel.errAt _)
      · exact NoFuel.nil

theorem pInner_nf_step (c : PCtx) (fuel : Nat) (ih : ExprNF c fuel) (ts : List Token)
    (hf : 4 * ts.length + 1 ≤ fuel + 1) : NoFuel (pInner c (fuel + 1) ts).errs := by
  simp only [pInner]
  split
  · exact NoFuel.nfAt _
  · rename_i t rest
    simp only [List.length_cons] at hf
    have hq := pQualifiedIdent_noFuel c (t :: rest)
    have hql := pQualifiedIdent_rest_le c (t :: rest)
    simp only [List.length_cons] at hql
    split
    · exact NoFuel.nil
    · split
      · split
        · exact hq
        · rename_i parts hval
          have hql := pQualifiedIdent_some_rest c (t :: rest) parts hval
          simp only [List.length_cons] at hql
          split
          · exact hq
          · split
            · exact NoFuel.nil
            · split
              · exact NoFuel.nil
              · rename_i lp rest2 heq
                rw [heq] at hql
                simp only [List.length_cons] at hql
                split
                · exact NoFuel.nil
                · have hs := split_length .rparen rest2
                  have ha : NoFuel (pExprList c fuel (split .rparen rest2).1).errs :=
                    ih.exprList _ (by omega)
                  have he : NoFuel ((if isNF (pExprList c fuel (split .rparen rest2).1).errs then []
                      else (pExprList c fuel (split .rparen rest2).1).errs) ++
                      endSplit (if (pExprList c fuel (split .rparen rest2).1).errs = [] then
                        match (pExprList c fuel (split .rparen rest2).1).rest with
                        | cm :: more => if cm.kind = .comma then more
                            else (pExprList c fuel (split .rparen rest2).1).rest
                        | [] => []
                        else (pExprList c fuel (split .rparen rest2).1).rest)) := by
                    apply NoFuel.append
                    · split
                      · exact NoFuel.nil
                      · exact ha
                    · exact NoFuel.endSplit _
                  split
                  · exact NoFuel.append he (NoFuel.errAt _)
                  · split
                    · exact he
                    · exact NoFuel.append he (NoFuel.errAt _)
      · split
        · split
          · exact hq
          · exact hq
        · split
          · have hs := split_length .rparen rest
            have hx : NoFuel (pExpr c fuel (split .rparen rest).1).errs := ih.expr _ (by omega)
            have he : NoFuel (mkOpaque (pExpr c fuel (split .rparen rest).1).errs ++
                endSplit (pExpr c fuel (split .rparen rest).1).rest) :=
              NoFuel.append hx.mkOpaque (NoFuel.endSplit _)
            split
            · exact NoFuel.append he (NoFuel.errAt _)
            · split
              · exact he
              · exact NoFuel.append he (NoFuel.errAt _)
          · exact NoFuel.nfAt _

theorem pExprList_nf_step (c : PCtx) (fuel : Nat) (ih : ExprNF c fuel) (ts : List Token)
    (hf : 4 * ts.length + 5 ≤ fuel + 1) : NoFuel (pExprList c (fuel + 1) ts).errs := by
  simp only [pExprList]
  have h1 := ih.expr ts (by omega)
  have hl := (exprLen c fuel).expr ts
  split
  · exact h1
  · exact ih.exprListTail _ _ (by omega)

theorem pExprListTail_nf_step (c : PCtx) (fuel : Nat) (ih : ExprNF c fuel) (acc : ExprList)
    (ts : List Token) (hf : 4 * ts.length + 1 ≤ fuel + 1) :
    NoFuel (pExprListTail c (fuel + 1) acc ts).errs := by
  simp only [pExprListTail]
  split
  · exact NoFuel.nil
  · rename_i t rest
    simp only [List.length_cons] at hf
    split
    · exact NoFuel.nil
    · have h1 := ih.expr rest (by omega)
      have hl := (exprLen c fuel).expr rest
      split
      · exact NoFuel.nil
      · split
        · exact h1.mkOpaque
        · exact ih.exprListTail _ _ (by omega)

theorem exprNF (c : PCtx) (fuel : Nat) : ExprNF c fuel := by
  induction fuel with
  | zero => exact ExprNF.zero c
  | succ fuel ih =>
    exact
      { expr := pExpr_nf_step c fuel ih
        trail := pTrail_nf_step c fuel ih
        higher := pHigher_nf_step c fuel ih
        unary := pUnary_nf_step c fuel ih
        primary := pPrimary_nf_step c fuel ih
        inner := pInner_nf_step c fuel ih
        exprList := pExprList_nf_step c fuel ih
        exprListTail := pExprListTail_nf_step c fuel ih }

/-- `expr` never runs out of fuel when given `4 * (tokens) + 4` -/
theorem pExpr_noFuel (c : PCtx) (fuel : Nat) (ts : List Token) (hf : 4 * ts.length + 4 ≤ fuel) :
    NoFuel (pExpr c fuel ts).errs := (exprNF c fuel).expr ts hf

/-- `exprList` never runs out of fuel when given `4 * (tokens) + 5` -/
theorem pExprList_noFuel (c : PCtx) (fuel : Nat) (ts : List Token) (hf : 4 * ts.length + 5 ≤ fuel) :
    NoFuel (pExprList c fuel ts).errs := (exprNF c fuel).exprList ts hf

end Pql
