/-
End-to-end composition, part 4: the side condition of the syntactic half (`C05.tabularOK`: every
expression is `lexOK`, `shapeOK` and translatable) implies the side condition of the lexical half
(`Tabular.lexOK`), so the composed theorem needs only the former.
-/
import PqlModel.Lemmas.ParseStmtOK
import PqlModel.Lemmas.LexStmtSplit
namespace Pql.E2E
open Pql Sql CompileOracle Intended C05

theorem exprOKin_lexOK {j : Bool} {e : Expr} (h : exprOKin j e = true) : e.lexOK = true := by
  simp only [exprOKin, Bool.and_eq_true] at h
  exact h.1.1

theorem rewrite_lexOK_eq (c : Expr) : (rewriteSimpleJoinCondition c).lexOK = c.lexOK := by
  unfold rewriteSimpleJoinCondition
  split
  · split
    · rfl
    · simp [Expr.lexOK]
  · rfl

theorem go_lexOK_eq : ∀ (ys : ExprList) (x : Expr),
    (buildJoinCondition.go x ys).lexOK = (x.lexOK && ys.lexOK)
  | .nil, x => by rw [buildJoinCondition.go]; simp [ExprList.lexOK]
  | .cons y ys, x => by
    rw [buildJoinCondition.go, go_lexOK_eq ys]
    simp only [Expr.lexOK, ExprList.lexOK, rewrite_lexOK_eq, Bool.and_assoc]

/-- the assembled join condition is `lexOK` exactly when the written conditions are -/
theorem buildJoin_lexOK_eq (conds : ExprList) : (buildJoinCondition conds).lexOK = conds.lexOK := by
  cases conds with
  | nil => simp [buildJoinCondition, Expr.lexOK, ExprList.lexOK]
  | cons c rest =>
    rw [buildJoinCondition, go_lexOK_eq, rewrite_lexOK_eq]
    simp only [ExprList.lexOK]

theorem projColOK_projOK (c : Column) (h : projColOK c = true) : c.projOK = true := by
  unfold projColOK at h
  unfold Column.projOK
  split at h
  · rename_i hx; simp only [hx]
  · rename_i x hx
    split
    · rfl
    · exact exprOKin_lexOK h

mutual
/-- **`tabularOK` implies `Tabular.lexOK`** -/
theorem tabularOK_lexOK : (t : Tabular) → tabularOK t = true → t.lexOK = true
  | .nil, _ => rfl
  | .mk _ ops, h => by
    simp only [tabularOK] at h
    simp only [Tabular.lexOK]
    exact opsOK_lexOK ops h
theorem opsOK_lexOK : (ops : OpList) → opsOK ops = true → ops.lexOK = true
  | .nil, _ => rfl
  | .cons o os, h => by
    simp only [opsOK, Bool.and_eq_true] at h
    simp only [OpList.lexOK, Bool.and_eq_true]
    exact ⟨opOK1_lexOK o h.1, opsOK_lexOK os h.2⟩
theorem opOK1_lexOK : (o : Op) → opOK1 o = true → o.lexOK = true
  | .count .., _ => rfl
  | .as_ .., _ => rfl
  | .render .., _ => rfl
  | .where_ _ _ e, h => by
    simp only [opOK1, opOK] at h
    simp only [Op.lexOK]; exact exprOKin_lexOK h
  | .sort _ _ ts, h => by
    simp only [opOK1, sortOK, Bool.and_eq_true, List.all_eq_true] at h
    simp only [Op.lexOK, List.all_eq_true]
    exact fun t ht => exprOKin_lexOK (h.2 t ht)
  | .take _ _ n, h => by
    simp only [opOK1] at h
    simp only [Op.lexOK]; exact exprOKin_lexOK h
  | .top _ _ n _ col, h => by
    simp only [opOK1, Bool.and_eq_true] at h
    simp only [Op.lexOK, Bool.and_eq_true]
    refine ⟨exprOKin_lexOK h.1, ?_⟩
    cases col with
    | none => rfl
    | some c => exact exprOKin_lexOK h.2
  | .project _ _ cs, h => by
    simp only [opOK1, opOK, Bool.and_eq_true, List.all_eq_true] at h
    simp only [Op.lexOK, List.all_eq_true]
    exact fun c hc => projColOK_projOK c (h.2 c hc)
  | .extend _ _ cs, h => by
    simp only [opOK1, opOK, List.all_eq_true] at h
    simp only [Op.lexOK, List.all_eq_true]
    exact fun c hc => exprOKin_lexOK (h c hc)
  | .summarize _ _ cs _ gs, h => by
    simp only [opOK1, opOK, Bool.and_eq_true, List.all_eq_true] at h
    simp only [Op.lexOK, Bool.and_eq_true, List.all_eq_true]
    exact ⟨fun c hc => exprOKin_lexOK (h.1.2 c hc), fun c hc => exprOKin_lexOK (h.2 c hc)⟩
  | .join _ _ _ _ _ _ right _ _ conds, h => by
    simp only [opOK1, Bool.and_eq_true] at h
    simp only [Op.lexOK, Bool.and_eq_true]
    exact ⟨tabularOK_lexOK right h.1, by rw [← buildJoin_lexOK_eq]; exact exprOKin_lexOK h.2⟩
end

end Pql.E2E
