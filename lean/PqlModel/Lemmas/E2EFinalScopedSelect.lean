/-
Programs with lets, part 5 (Lemmas/ParseStmtOne.lean, ParseStmtCtes.lean under a let-built scope): one
SELECT and the WITH list — what `Subquery.write` / `writeCtes` emit under the scope for an erased link
is read by `pSelect` / `pCtes` as the intended SELECT of the RESOLVED link (`substSubA env`).
-/
import PqlModel.Lemmas.E2EFinalScopedOpSpec
import PqlModel.Lemmas.ParseStmtTop
namespace Pql.E2EFinal
set_option linter.unusedSimpArgs false
set_option linter.unusedVariables false
open Pql Sql CompileOracle Intended Pql.RT Pql.C05 Pql.C06

section
variable {src : Bytes} {scope : Scope} {env : List (Bytes × Expr)} (hsc : ScopeLetsEnv src scope env)
  (hjs : envJoinSafe env = true)
include hsc hjs

theorem select_parse_s (a : SubA) (sub : Subquery) (cs : List Chunk) (rest : List STok)
    (he : EraseRel src scope a sub) (hn : optColsNamed a.op) (hok : subOK (substSubA env a) = true)
    (hw : sub.write ⟨src, scope, .default⟩ = .ok cs) (hrest : Closer rest) :
    ∃ sel want, pSelect (toksOf cs ++ rest) = some (sel, rest) ∧ selOf src (substSubA env a) = some want ∧
      SelRel sel want := by
  simp only [subOK, Bool.and_eq_true] at hok
  obtain ⟨⟨⟨hsrcOK, hopOK⟩, hsortOK⟩, htakeOK⟩ := hok
  rw [write_eq, he.op, he.sort, he.take] at hw
  cases hb : bodyOf ⟨src, scope, .default⟩ a.op sub.source with
  | error e => rw [hb] at hw; cases hw
  | ok b =>
    rw [hb] at hw
    obtain ⟨body, rfl, itemTs, mid, witems, wwh, wgb, htoks, hitems, hne, ⟨hmidEnds, hmidParse⟩, hbodyA⟩ :=
      op_spec_s hsc hjs a.op hn hopOK sub.source b hb
    have hw' : tailOf ⟨src, scope, .default⟩ a.sort a.take (some body) = .ok cs := hw
    obtain ⟨tl, wob, wlim, hcs, hord, hlim, htlEnds, htlParse⟩ :=
      tail_spec_s hsc hjs a.sort a.take hsortOK htakeOK body cs hw'
    obtain ⟨wsrc, wjn, hsrcA, hsrcParse⟩ := src_spec_s hsc hjs a.source hsrcOK sub.source he.source
    have E5 := htlEnds rest hrest
    have E3 := hmidEnds _ E5
    obtain ⟨items, h1, relItems⟩ := pItems_select hitems hne (toksOf sub.source ++ (mid ++ (tl ++ rest)))
    obtain ⟨jn, r3, h2, h3, relJoin⟩ := hsrcParse _ E3
    obtain ⟨wh, gb, r5, h4, h5, relWh, relGb⟩ := hmidParse _ E5
    obtain ⟨ob, lim, r7, h6, h7, relOb, relLim⟩ := htlParse rest hrest
    have hsel := pSelect_build h1 h2 h3 h4 h5 h6 h7
    refine ⟨{ items, source := wsrc, join := jn, where_ := wh, groupBy := gb, orderBy := ob, limit := lim }, _, ?_,
      selOf_of_parts (s := substSubA env a) hsrcA (hbodyA wsrc wjn) hord hlim,
      ⟨rfl, relItems, rfl, relJoin, relWh, relGb, relOb, relLim⟩⟩
    rw [← hsel, hcs, htoks]
    simp only [List.append_assoc, List.cons_append]

theorem ctes_parse_s {ctesA : List SubA} {ctes : List Subquery}
    (hrel : ListRel (EraseRel src scope) ctesA ctes) (hn : ∀ a ∈ ctesA, optColsNamed a.op)
    (hok : AllOK (ctesA.map (substSubA env))) (hne : ctes ≠ []) :
    ∀ c, writeCtes ⟨src, scope, .default⟩ ctes = .ok c → ∀ r, Ends (fun t => !isSym t ",") r →
      ∀ fuel, ctes.length ≤ fuel →
      ∃ parsed wants, pCtes fuel (toksOf c ++ r) = some (parsed, r) ∧
        (ctesA.map (substSubA env)).mapM (cteOf src) = some wants ∧ ListRel CteRel parsed wants := by
  induction hrel with
  | nil => exact absurd rfl hne
  | @cons a s restA rest hab hrest ih =>
    intro c hc r hr fuel hf
    obtain ⟨f, rfl⟩ : ∃ f, fuel = f + 1 := ⟨fuel - 1, by simp at hf; omega⟩
    have haOK : subOK (substSubA env a) = true := hok _ (by simp)
    have haN : optColsNamed a.op := hn a (by simp)
    have hrestOK : AllOK (restA.map (substSubA env)) := fun b hb => hok b (by
      simp only [List.map_cons]; exact List.mem_cons_of_mem _ hb)
    have hrestN : ∀ b ∈ restA, optColsNamed b.op := fun b hb => hn b (List.mem_cons_of_mem _ hb)
    cases hrest with
    | nil =>
      simp only [writeCtes] at hc
      cases hb : s.write ⟨src, scope, .default⟩ with
      | error e => rw [hb] at hc; cases hc
      | ok b =>
        rw [hb] at hc
        simp only [bind, Except.bind, pure, Except.pure, Except.ok.injEq] at hc
        subst hc
        obtain ⟨sel, want, hp, hw, hsr⟩ :=
          select_parse_s hsc hjs a s b (S ")" :: r) hab haN haOK hb ⟨r, Or.inl rfl⟩
        refine ⟨[(s.name, sel)], [(a.name, want)], ?_, ?_, .cons ⟨hab.name, hsr⟩ .nil⟩
        · cases r with
          | nil => simp [pCtes, hp]
          | cons t tl =>
            simp only [Ends, Bool.not_eq_true'] at hr
            simp [pCtes, hp, hr]
        · have hcte : cteOf src (substSubA env a) = some (a.name, want) := by
            simp only [cteOf, hw, Option.bind_eq_bind, Option.bind_some, Option.pure_def]; rfl
          simp only [List.map_cons, List.map_nil, List.mapM_cons, List.mapM_nil, hcte, Option.bind_eq_bind,
            Option.bind_some, Option.pure_def]
    | @cons a2 s2 restA2 rest2 hab2 hrest2 =>
      simp only [writeCtes] at hc
      cases hb : s.write ⟨src, scope, .default⟩ with
      | error e => rw [hb] at hc; cases hc
      | ok b =>
        rw [hb] at hc
        cases hr2 : writeCtes ⟨src, scope, .default⟩ (s2 :: rest2) with
        | error e => rw [hr2] at hc; simp only [bind, Except.bind] at hc; cases hc
        | ok c2 =>
          rw [hr2] at hc
          simp only [bind, Except.bind, pure, Except.pure, Except.ok.injEq] at hc
          subst hc
          obtain ⟨parsed, wants, hpc, hwm, hrl⟩ := ih hrestN hrestOK (by simp) c2 hr2 r hr f (by simp at hf ⊢; omega)
          obtain ⟨sel, want, hp, hw, hsr⟩ :=
            select_parse_s hsc hjs a s b (S ")" :: S "," :: (toksOf c2 ++ r)) hab haN haOK hb ⟨_, Or.inl rfl⟩
          refine ⟨(s.name, sel) :: parsed, (a.name, want) :: wants, ?_, ?_, .cons ⟨hab.name, hsr⟩ hrl⟩
          · simp [pCtes, hp, hpc]
          · have hcte : cteOf src (substSubA env a) = some (a.name, want) := by
              simp only [cteOf, hw, Option.bind_eq_bind, Option.bind_some, Option.pure_def]; rfl
            have hwm' : List.mapM (cteOf src) (substSubA env a2 :: List.map (substSubA env) restA2) = some wants := hwm
            simp only [List.map_cons, List.mapM_cons, hcte, Option.bind_eq_bind, Option.bind_some, Option.pure_def]
            simp only [List.mapM_cons, Option.bind_eq_bind, Option.pure_def] at hwm'
            rw [hwm']
            rfl

end

end Pql.E2EFinal
