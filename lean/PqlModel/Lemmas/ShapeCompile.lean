/-
Whole programs: the statement loop, the CTE writer and `compileChunks` are parametric in contents.
-/
import PqlModel.Lemmas.ShapeSplit
namespace Pql

/-- let names are key names (they decide which identifiers are replaced): not renamed -/
def mapStmt (φ : CMap) : Stmt → Stmt
  | .let_ kw name asg x => .let_ (φ.fsp kw) (name.map φ.fnIdent) (φ.fsp asg) (mapE φ x)
  | .tabular t => .tabular (mapT φ t)

/-- inertness of a program: every let value in the scope built so far (let mode), and the query
    in the final scope.  Runs the statement loop of the model to know the scopes. -/
def inertProg (src : Bytes) (φ : CMap) : List Stmt → Scope → Option Tabular → Bool
  | [], scope, q =>
    match q with
    | some t => inertT scope φ t
    | none => true
  | .tabular t :: rest, scope, q =>
    match q with
    | some _ => true
    | none => inertProg src φ rest scope (some t)
  | .let_ _ name _ x :: rest, scope, q =>
    match q with
    | some _ => inertProg src φ rest scope q
    | none =>
      inertE scope .let_ φ x &&
      match (writeExpr ⟨src, scope, .let_⟩ x).map (wrapTight x), name with
      | .ok sql, some n => inertProg src φ rest ((n.name, sql) :: scope) q
      | _, _ => true

section
variable {φ : CMap} {R : List Chunk → List Chunk → Prop} {src src' : Bytes}

/-- the result of the statement loop: related scopes, the image of the query, which is inert in
    the final scope and satisfies any predicate all queries of the program satisfy -/
def StmtsRel (φ : CMap) (R : List Chunk → List Chunk → Prop) (P : Tabular → Prop)
    (r r' : Scope × Option Tabular) : Prop :=
  ScopeRel R r.1 r'.1 ∧ r'.2 = r.2.map (mapT φ) ∧
    ∀ t, r.2 = some t → inertT r.1 φ t = true ∧ P t

theorem compileStmts_mrel (hR : MapCong φ R) (P : Tabular → Prop) :
    (stmts : List Stmt) → (scope scope' : Scope) → ScopeRel R scope scope' → (q : Option Tabular) →
      inertProg src φ stmts scope q = true → (∀ t, q = some t → P t) → (∀ t, Stmt.tabular t ∈ stmts → P t) →
      ExRel (StmtsRel φ R P) (compileStmts src stmts scope q)
        (compileStmts src' (stmts.map (mapStmt φ)) scope' (q.map (mapT φ)))
  | [], scope, scope', hs, q, hi, hq, _ => by
    simp only [List.map_nil, compileStmts]
    refine ⟨hs, rfl, fun t ht => ?_⟩
    subst ht
    exact ⟨by simpa only [inertProg] using hi, hq t rfl⟩
  | .tabular t :: rest, scope, scope', hs, q, hi, hq, hall => by
    simp only [List.map_cons, mapStmt, compileStmts]
    cases q with
    | some _ => exact ExRel.error_error _
    | none =>
      simp only [Option.map_none]
      simp only [inertProg] at hi
      exact compileStmts_mrel hR P rest scope scope' hs (some t) hi
        (fun t' ht' => by cases ht'; exact hall t (List.mem_cons_self ..))
        (fun t' ht' => hall t' (List.mem_cons_of_mem _ ht'))
  | .let_ kw name asg x :: rest, scope, scope', hs, q, hi, hq, hall => by
    simp only [List.map_cons, mapStmt, compileStmts]
    cases q with
    | some t =>
      simp only [Option.map_some]
      simp only [inertProg] at hi
      exact compileStmts_mrel hR P rest scope scope' hs (some t) hi hq
        (fun t' ht' => hall t' (List.mem_cons_of_mem _ ht'))
    | none =>
      simp only [Option.map_none]
      simp only [inertProg, Bool.and_eq_true] at hi
      have hx := mrel_wrapTight hR x (mapE_rel (src := src) (src' := src') hR hs x hi.1)
      have hi2 := hi.2
      revert hx hi2
      generalize (writeExpr ⟨src, scope, .let_⟩ x).map (wrapTight x) = r
      generalize (writeExpr ⟨src', scope', .let_⟩ (mapE φ x)).map (wrapTight (mapE φ x)) = r'
      intro hx hi2
      cases r with
      | error e =>
        cases r' with
        | error e' =>
          have : e = e' := hx
          subst this
          exact ExRel.error_error _
        | ok _ => exact hx.elim
      | ok sql =>
        cases r' with
        | error _ => exact hx.elim
        | ok sql' =>
          have hsql : R sql sql' := hx
          cases name with
          | none => exact ExRel.error_error _
          | some n =>
            simp only [Option.map_some, CMap.fnIdent_name]
            have h := compileStmts_mrel hR P rest ((n.name, sql) :: scope)
              ((n.name, sql') :: scope') (hs.cons n.name hsql) none hi2 (fun _ h => by cases h)
              (fun t' ht' => hall t' (List.mem_cons_of_mem _ ht'))
            exact h

/-! ### the CTE writer -/

variable {s s' : Scope}

theorem writeCtes_mrel (hR : MapCong φ R) (hs : ScopeRel R s s') {as bs : List Subquery}
    (h : ListRel (WSubRel φ R src src' s) as bs) :
    ExRel R (writeCtes ⟨src, s, .default⟩ as) (writeCtes ⟨src', s', .default⟩ bs) := by
  induction h with
  | nil => exact hR.nil
  | @cons a b as bs hab hrest ih =>
    have hw := Subquery.write_mrel (m := .default) hR hs hab.toMSubRel hab.inert hab.ok
    cases hrest with
    | nil =>
      simp only [writeCtes]
      refine ExRel.bind hw fun x x' hx => ExRel.pure_pure ?_
      refine hR.cons_of hab.name (hR.cons_txt _ (hR.append hx ?_))
      exact hR.cons_txt _ (hR.txt _)
    | cons hab' hrest' =>
      simp only [writeCtes]
      refine ExRel.bind hw fun x x' hx => ExRel.bind ih fun r r' hr => ExRel.pure_pure ?_
      refine hR.cons_of hab.name (hR.cons_txt _ (hR.append hx ?_))
      exact hR.cons_txt _ (hR.cons_txt _ hr)

/-! ### `compileChunks` -/

theorem paramScope_rel (hR : MapCong φ R) : (params : List (Bytes × Bytes)) →
    ScopeRel R (params.map fun kv => (kv.1, [Chunk.raw kv.2])) (params.map fun kv => (kv.1, [Chunk.raw kv.2]))
  | [] => ScopeRel.nil R
  | kv :: params => by
    simp only [List.map_cons]
    exact (paramScope_rel hR params).cons kv.1 (hR.raw kv.2)

/-- **compilation is parametric in contents** (chunks of the whole statement) -/
theorem compileChunks_mrel (H : SplitCong φ R) (params : List (Bytes × Bytes)) (stmts : List Stmt)
    (hi : inertProg src φ stmts (params.map fun kv => (kv.1, [Chunk.raw kv.2])) none = true)
    (hok : ∀ t, Stmt.tabular t ∈ stmts → TabOK φ R src src' t) :
    ExRel R (compileChunks src params stmts) (compileChunks src' params (stmts.map (mapStmt φ))) := by
  have hR := H.cong
  unfold compileChunks
  dsimp only
  refine ExRel.bind (compileStmts_mrel (src := src) (src' := src') hR (TabOK φ R src src') stmts _ _
    (paramScope_rel hR params) none hi (fun _ h => by cases h) hok) fun r r' hr => ?_
  obtain ⟨scope, q⟩ := r
  obtain ⟨scope', q'⟩ := r'
  obtain ⟨hs, hq, hP⟩ := hr
  dsimp only at hs hq hP ⊢
  subst hq
  cases q with
  | none => exact ExRel.error_error _
  | some t =>
    simp only [Option.map_some]
    obtain ⟨hit, hokt⟩ := hP t rfl
    refine ExRel.bind (msplitQueries_rel H hs t hit hokt [] [] .nil) fun subs subs' hsubs => ?_
    have hrev := hsubs.reverse
    revert hrev
    generalize subs.reverse = rv
    generalize subs'.reverse = rv'
    intro hrev
    cases hrev with
    | nil => exact ExRel.error_error _
    | @cons query query' ctesRev ctesRev' hquery hctes =>
      dsimp only
      have hc := hctes.reverse
      rw [← hc.isEmpty_eq]
      have hbody := Subquery.write_mrel (src := src) (src' := src') (m := .default) hR hs hquery.toMSubRel
        hquery.inert hquery.ok
      split
      · refine ExRel.bind (ExRel.pure_pure (R := R) hR.nil) fun w w' hw => ?_
        refine ExRel.bind hbody fun b b' hb => ExRel.pure_pure ?_
        exact hR.append (hR.append hw hb) (hR.txt _)
      · refine ExRel.bind (writeCtes_mrel hR hs hc) fun c c' hcc => ?_
        refine ExRel.bind (ExRel.pure_pure (R := R) (hR.cons_txt "WITH " hcc)) fun w w' hw => ?_
        refine ExRel.bind hbody fun b b' hb => ExRel.pure_pure ?_
        exact hR.append (hR.append hw hb) (hR.txt _)

end

end Pql
