/-
Parameters, part 6: two initial scopes with the same keys whose stored chunk lists have the same
bytes (or the same tokens, or agree under any other chunk-wise reading `r`) compile to chunk lists
with the same bytes (tokens, …) — and fail alike.

Route: both scopes are fillings of ONE scope of holes (entry number `i` is the hole `.raw (enc i)`),
`compileFrom_bindScope` for both, and a chunk-wise reading of `bindRaw σ cs` depends on `σ` only
through the readings of the `σ v`.
-/
import PqlModel.Lemmas.ParamsBindTop
import PqlModel.Spec.ChunkToks
namespace Pql.Params
open Pql

/-- the name of hole number `i` -/
def enc (i : Nat) : Bytes := List.replicate i 0

/-- entry number `i` is bound to hole number `i` -/
def holeScope (keys : List Bytes) : Scope := keys.zipIdx.map fun p => (p.1, [Chunk.raw (enc p.2)])

/-- hole number `i` is filled with what `sc` stores in entry number `i` -/
def fill (sc : Scope) : Bytes → List Chunk := fun v => ((sc[v.length]?).map (·.2)).getD []

theorem bindScope_holes (sc : Scope) : bindScope (fill sc) (holeScope (sc.map (·.1))) = sc := by
  apply List.ext_getElem?
  intro i
  simp only [bindScope, holeScope, List.getElem?_map, List.getElem?_zipIdx, Option.map_map]
  cases h : sc[i]? with
  | none => rfl
  | some kv =>
    simp only [Option.map_some, Function.comp, Option.some.injEq]
    have : fill sc (enc (0 + i)) = kv.2 := by
      simp [fill, enc, h]
    simp only [bindRaw, List.flatMap_cons, List.flatMap_nil, bindC, this, List.append_nil]

theorem flatMap_bindRaw_congr {γ : Type} (r : Chunk → List γ) (σ σ' : Bytes → List Chunk)
    (h : ∀ v, (σ v).flatMap r = (σ' v).flatMap r) (cs : List Chunk) :
    (bindRaw σ cs).flatMap r = (bindRaw σ' cs).flatMap r := by
  induction cs with
  | nil => rfl
  | cons c cs ih =>
    cases c with
    | raw v => simp only [bindRaw_raw, List.flatMap_append, h v, ih]
    | _ => simp [ih]

/-- **same keys, same readings of the stored values ⟹ same reading of the result** -/
theorem compileFrom_flat_congr {γ : Type} (r : Chunk → List γ) (src : Bytes) (s1 s2 : Scope) (stmts : List Stmt)
    (hk : s1.map (·.1) = s2.map (·.1))
    (hv : (s1.map fun kv => kv.2.flatMap r) = (s2.map fun kv => kv.2.flatMap r)) :
    (compileFrom src s1 stmts).map (fun cs => cs.flatMap r) = (compileFrom src s2 stmts).map (fun cs => cs.flatMap r) := by
  have h1 := compileFrom_bindScope (fill s1) src (holeScope (s1.map (·.1))) stmts
  have h2 := compileFrom_bindScope (fill s2) src (holeScope (s2.map (·.1))) stmts
  rw [bindScope_holes] at h1 h2
  rw [h1, h2, hk]
  have hfill : ∀ v, (fill s1 v).flatMap r = (fill s2 v).flatMap r := by
    intro v
    have := congrArg (fun l => l[v.length]?) hv
    simp only [List.getElem?_map] at this
    simp only [fill]
    cases h1 : s1[v.length]? <;> cases h2 : s2[v.length]? <;> rw [h1, h2] at this <;>
      simp only [Option.map_some, Option.map_none, Option.some.injEq, reduceCtorEq] at this
    all_goals first | exact this | rfl
  cases compileFrom src (holeScope (s2.map (·.1))) stmts with
  | error e => rfl
  | ok cs =>
    simp only [exmap_ok]
    rw [flatMap_bindRaw_congr r _ _ hfill cs]

/-- **one skeleton**: two initial scopes with the same keys compile to ONE chunk list with holes, filled
    with the values of the one scope resp. the other (hole number `i` = entry number `i`); in particular
    the two results have the same chunks outside the stored values, at the same places -/
theorem compileFrom_common_skeleton (src : Bytes) (s1 s2 : Scope) (stmts : List Stmt)
    (hk : s1.map (·.1) = s2.map (·.1)) :
    ∃ r0 : W, compileFrom src s1 stmts = r0.map (bindRaw (fill s1)) ∧
      compileFrom src s2 stmts = r0.map (bindRaw (fill s2)) := by
  have h1 := compileFrom_bindScope (fill s1) src (holeScope (s1.map (·.1))) stmts
  have h2 := compileFrom_bindScope (fill s2) src (holeScope (s2.map (·.1))) stmts
  rw [bindScope_holes] at h1 h2
  rw [hk] at h1
  exact ⟨_, h1, h2⟩

/-- bytes -/
theorem compileFrom_render_congr (src : Bytes) (s1 s2 : Scope) (stmts : List Stmt)
    (hk : s1.map (·.1) = s2.map (·.1))
    (hv : (s1.map fun kv => renderChunks kv.2) = (s2.map fun kv => renderChunks kv.2)) :
    (compileFrom src s1 stmts).map renderChunks = (compileFrom src s2 stmts).map renderChunks :=
  compileFrom_flat_congr Chunk.bytes src s1 s2 stmts hk hv

/-- tokens -/
theorem compileFrom_toks_congr (src : Bytes) (s1 s2 : Scope) (stmts : List Stmt)
    (hk : s1.map (·.1) = s2.map (·.1))
    (hv : (s1.map fun kv => toksOf kv.2) = (s2.map fun kv => toksOf kv.2)) :
    (compileFrom src s1 stmts).map toksOf = (compileFrom src s2 stmts).map toksOf :=
  compileFrom_flat_congr chunkToks src s1 s2 stmts hk hv

end Pql.Params
