/-
ParsedOK, lexical part: what the PQL scanner hands to the parser already satisfies the lexical
side conditions of the bridge (Spec/ChunkToks.lean).

 * every number token value (`normalizeNumber` of a decimal spelling, or `natToDec` of a hex
   literal) is read by the SQL lexer as exactly one number token (`numOK`);
 * every identifier token value has the shape `[A-Za-z_$][A-Za-z0-9_]*` (`identShaped`), and an
   identifier-shaped value is a single SQL word token iff it does not start with `$`.
-/
import PqlModel.Lemmas.LexNumber
import PqlModel.Lemmas.LexRenderOK
import PqlModel.Lemmas.LexReach
import PqlModel.Lemmas.LexRefines
import PqlModel.Spec.ChunkToks
namespace Pql.ParsedOK
open Pql Sql LexRender

/-! ### byte classes -/

theorem isDigit_eq (c : UInt8) : isDigit c = isDigitB c := by
  rw [isDigit_iff]; rfl

theorem digits_B {ds : Bytes} (h : ∀ c ∈ ds, isDigit c = true) : ∀ c ∈ ds, isDigitB c = true :=
  fun c hc => by rw [← isDigit_eq]; exact h c hc

theorem digitB_range {c : UInt8} (h : isDigitB c = true) : 48 ≤ c.toNat ∧ c.toNat ≤ 57 := by
  simpa [isDigitB] using h

theorem digitB_ne {c : UInt8} (h : isDigitB c = true) :
    (c == 46) = false ∧ (c == 101) = false ∧ (c == 69) = false ∧ (c == 43) = false ∧
      (c == 45) = false := by
  have := digitB_range h
  simp only [beq_iff_toNat]
  refine ⟨?_, ?_, ?_, ?_, ?_⟩ <;> simp <;> omega

theorem not_digitB_of {c : UInt8} (h : c = 46 ∨ c = 101 ∨ c = 69) : isDigitB c = false := by
  rcases h with rfl | rfl | rfl <;> decide

/-! ### the SQL lexer on `digits [. digits] [exponent]` -/

theorem spanWhile_digits (w : Bytes) (hw : ∀ b ∈ w, isDigitB b = true) :
    spanWhile isDigitB w = (w, []) := by
  have := spanWhile_append_stop isDigitB w [] hw (by simp)
  simpa using this

/-- an exponent in the sense of the PQL scanner is an exponent for the SQL lexer -/
theorem lexExponent_isExp (E : Bytes) (h : IsExp E) : lexExponent E = (E, []) := by
  rcases h with rfl | ⟨e, ds, he, hne, hds, hE⟩
  · rfl
  · have hds' := digits_B hds
    have he' : (e == 101 || e == 69) = true := by rcases he with rfl | rfl <;> rfl
    rcases ds with _ | ⟨d0, ds'⟩
    · exact absurd rfl hne
    · have hd0 : isDigitB d0 = true := hds' d0 (by simp)
      have hsp := spanWhile_digits (d0 :: ds') hds'
      rcases hE with rfl | rfl | rfl
      · rcases ds' with _ | ⟨d1, r⟩
        · simp only [lexExponent, if_pos he', if_pos hd0]
        · obtain ⟨_, _, _, h43, h45⟩ := digitB_ne hd0
          simp only [lexExponent, if_pos he', h43, h45, Bool.or_self, Bool.false_and,
            Bool.false_eq_true, if_false, if_pos hd0, hsp]
      · simp only [lexExponent, if_pos he', hd0, beq_self_eq_true, Bool.true_or, Bool.and_self,
          if_true, hsp]
      · simp only [lexExponent, if_pos he', hd0, beq_self_eq_true, Bool.or_true, Bool.and_self,
          if_true, hsp]

theorem numTail_isExp (pre E : Bytes) (h : IsExp E) : numTail pre E = some (pre ++ E, []) := by
  simp [numTail, lexExponent_isExp E h]

theorem isExp_head {E : Bytes} (h : IsExp E) :
    ∀ c, E.head? = some c → c = 46 ∨ c = 101 ∨ c = 69 := by
  intro c hc
  rcases h with rfl | ⟨e, ds, he, _, _, rfl | rfl | rfl⟩
  · simp at hc
  all_goals
    simp only [List.head?_cons, Option.some.injEq] at hc
    subst hc
    rcases he with rfl | rfl <;> simp

theorem numStep_exp (ds E : Bytes) (hds : ∀ c ∈ ds, isDigitB c = true) (hE : IsExp E) :
    numStep (ds ++ E) = some (ds ++ E, []) := by
  have hsp : spanWhile isDigitB (ds ++ E) = (ds, E) :=
    spanWhile_append_stop isDigitB ds E hds (fun c hc => not_digitB_of (isExp_head hE c hc))
  rw [numStep_eq, hsp]
  dsimp only
  rcases hEq : E with _ | ⟨d, r⟩
  · dsimp only
    have : IsExp [] := Or.inl rfl
    rw [numTail_isExp _ _ this]
  · dsimp only
    have hd : (d == 46) = false := by
      rcases hE with h0 | ⟨e, ds', he, _, _, h1 | h1 | h1⟩
      · rw [h0] at hEq; cases hEq
      all_goals
        rw [h1] at hEq
        injection hEq with h2 _
        subst h2
        rcases he with rfl | rfl <;> rfl
    rw [hd]
    simp only [Bool.false_eq_true, if_false]
    rw [numTail_isExp _ _ (hEq ▸ hE)]

theorem numStep_frac (ds fs E : Bytes) (hds : ∀ c ∈ ds, isDigitB c = true)
    (hfs : ∀ c ∈ fs, isDigitB c = true) (hE : IsExp E) :
    numStep (ds ++ 46 :: fs ++ E) = some (ds ++ 46 :: fs ++ E, []) := by
  have hsp : spanWhile isDigitB (ds ++ (46 :: (fs ++ E))) = (ds, 46 :: (fs ++ E)) :=
    spanWhile_append_stop isDigitB ds _ hds (fun c hc => by
      simp only [List.head?_cons, Option.some.injEq] at hc; subst hc; rfl)
  have hsp2 : spanWhile isDigitB (fs ++ E) = (fs, E) :=
    spanWhile_append_stop isDigitB fs E hfs (fun c hc => not_digitB_of (isExp_head hE c hc))
  have e1 : ds ++ 46 :: fs ++ E = ds ++ (46 :: (fs ++ E)) := by simp
  rw [e1, numStep_eq, hsp]
  dsimp only
  rw [hsp2]
  simp only [beq_self_eq_true, if_true]
  rw [numTail_isExp _ _ hE]
  simp

/-- a first digit followed by text that the number branch consumes entirely -/
theorem numOK_of_numStep (d : UInt8) (rest : Bytes) (hd : isDigitB d = true)
    (h : numStep rest = some (rest, [])) : numOK (d :: rest) = true := by
  have hl : lexAux .standard ((d :: rest).length + 1) (d :: rest) = some [STok.num (d :: rest)] := by
    simp only [List.length_cons]
    rw [lexAux_step, lexStep_digit _ _ _ hd, h]
    simp [andThen, lexAux]
  rw [numOK, lex, lexRaw, hl]
  simp

/-! ### the value of a decimal number token -/

theorem trim_digits (ds X : Bytes) (hds : ∀ c ∈ ds, isDigitB c = true) :
    (∃ d ds', trimLeftZeros (ds ++ X) = d :: (ds' ++ X) ∧ isDigitB d = true ∧ (d == 48) = false ∧
        ∀ c ∈ ds', isDigitB c = true) ∨
      trimLeftZeros (ds ++ X) = trimLeftZeros X := by
  induction ds with
  | nil => right; rfl
  | cons c ds ih =>
    by_cases hc : (c == 48) = true
    · have : trimLeftZeros (c :: ds ++ X) = trimLeftZeros (ds ++ X) := by
        simp only [List.cons_append, trimLeftZeros, if_pos hc]
      rw [this]
      exact ih (fun x hx => hds x (by simp [hx]))
    · left
      refine ⟨c, ds, ?_, hds c (by simp), by simpa using hc, fun x hx => hds x (by simp [hx])⟩
      simp only [List.cons_append, trimLeftZeros, if_neg hc]

/-- `normalizeNumber` on digits followed by a tail that is empty or starts with `.`/`e`/`E`:
    a digit, digits, and the tail unchanged -/
theorem normalize_shape (ds X : Bytes) (hds : ∀ c ∈ ds, isDigitB c = true)
    (hX : ∀ c, X.head? = some c → c = 46 ∨ c = 101 ∨ c = 69) :
    ∃ d ds', normalizeNumber (ds ++ X) = d :: (ds' ++ X) ∧ isDigitB d = true ∧
      ∀ c ∈ ds', isDigitB c = true := by
  rcases trim_digits ds X hds with ⟨d, ds', h, hd, _, hds'⟩ | h
  · refine ⟨d, ds', ?_, hd, hds'⟩
    obtain ⟨h46, h101, h69, _, _⟩ := digitB_ne hd
    simp only [normalizeNumber, h, h46, h101, h69, Bool.or_self, Bool.false_eq_true, if_false]
  · refine ⟨48, [], ?_, by decide, by simp⟩
    rcases X with _ | ⟨c, r⟩
    · rw [normalizeNumber, h]; rfl
    · have hc := hX c rfl
      have h48 : (c == 48) = false := by rcases hc with rfl | rfl | rfl <;> rfl
      have hc' : (c == 46 || c == 101 || c == 69) = true := by
        rcases hc with rfl | rfl | rfl <;> rfl
      simp only [normalizeNumber, h, trimLeftZeros, h48, Bool.false_eq_true, if_false, if_pos hc',
        List.nil_append]

theorem numOK_normalize (t : Bytes) (h : IsDecimal t) : numOK (normalizeNumber t) = true := by
  obtain ⟨ds, fs, E, hds, hfs, hE, ⟨_, rfl⟩ | ⟨_, rfl⟩⟩ := h
  · obtain ⟨d, ds', hn, hd, hds'⟩ := normalize_shape ds E (digits_B hds) (isExp_head hE)
    rw [hn]
    exact numOK_of_numStep d _ hd (numStep_exp ds' E hds' hE)
  · have e1 : ds ++ 46 :: fs ++ E = ds ++ (46 :: fs ++ E) := by simp
    obtain ⟨d, ds', hn, hd, hds'⟩ := normalize_shape ds (46 :: fs ++ E) (digits_B hds)
      (fun c hc => by simp only [List.cons_append, List.head?_cons, Option.some.injEq] at hc
                      exact Or.inl hc.symm)
    rw [e1, hn]
    have e2 : ds' ++ (46 :: fs ++ E) = ds' ++ 46 :: fs ++ E := by simp
    rw [e2]
    exact numOK_of_numStep d _ hd (numStep_frac ds' fs E hds' (digits_B hfs) hE)

/-! ### the value of a hexadecimal number token -/

theorem natToDec_digits (n : Nat) :
    natToDec n ≠ [] ∧ ∀ c ∈ natToDec n, isDigitB c = true := by
  refine ⟨by simp [natToDec, Nat.toDigits_ne_nil], ?_⟩
  intro c hc
  simp only [natToDec, List.mem_map] at hc
  obtain ⟨ch, hch, rfl⟩ := hc
  have h1 : ch.isDigit = true := Nat.isDigit_of_mem_toDigits (by decide) (by decide) hch
  have h2 : 48 ≤ ch.toNat ∧ ch.toNat ≤ 57 := by simpa using Char.isDigit_iff_toNat.mp h1
  have h3 : (UInt8.ofNat ch.toNat).toNat = ch.toNat := by
    simp only [UInt8.toNat_ofNat']; omega
  simp only [isDigitB, h3, Bool.and_eq_true, decide_eq_true_eq]
  exact h2

theorem numOK_natToDec (n : Nat) : numOK (natToDec n) = true := by
  obtain ⟨hne, hd⟩ := natToDec_digits n
  rcases hv : natToDec n with _ | ⟨d, ds⟩
  · exact absurd hv hne
  · rw [hv] at hd
    have := numStep_exp ds [] (fun c hc => hd c (by simp [hc])) (Or.inl rfl)
    simp only [List.append_nil] at this
    exact numOK_of_numStep d ds (hd d (by simp)) this

/-! ### which branch of `scanOne` produced a token -/

set_option maxRecDepth 8000 in
theorem singleKind_ok (c : UInt8) :
    (match singleKind c with
      | some k => k != .ident && k != .number
      | none => true) = true :=
  forall_uint8 (fun c => match singleKind c with
      | some k => k != .ident && k != .number
      | none => true) (by decide) c

theorem singleKind_kind {c : UInt8} {k : TokKind} (h : singleKind c = some k) :
    k ≠ .ident ∧ k ≠ .number := by
  have := singleKind_ok c
  rw [h] at this
  simpa using this

theorem scanPunct_kind {c : UInt8} {rest : Bytes} {k : TokKind} {v : Bytes}
    (h : (scanPunct c rest).tok = some (k, v)) : k ≠ .ident ∧ k ≠ .number := by
  unfold scanPunct at h
  split at h
  · rename_i k' hk'
    simp only [Step.sym, Option.some.injEq, Prod.mk.injEq] at h
    obtain ⟨rfl, _⟩ := h
    exact singleKind_kind hk'
  · simp only [Step.sym, Step.skip] at h
    repeat' split at h
    all_goals (cases h <;> exact ⟨nofun, nofun⟩)

theorem keywordKind_kind {text : Bytes} {k : TokKind} (h : keywordKind text = some k) :
    k ≠ .ident ∧ k ≠ .number := by
  rw [keywordKind_eq] at h
  simp only [LexSpec.keywords, List.find?] at h
  repeat' split at h
  all_goals (cases h <;> exact ⟨nofun, nofun⟩)

theorem scanNumberOrDot_kind (s : Bytes) : (scanNumberOrDot s).kind ≠ .ident := by
  unfold scanNumberOrDot
  simp only [finishNumber]
  repeat' split
  all_goals simp

theorem scanString_kind (s : Bytes) :
    (scanString s).kind ≠ .ident ∧ (scanString s).kind ≠ .number := by
  unfold scanString
  repeat' split
  all_goals simp

theorem scanQuotedIdent_kind (s : Bytes) :
    (scanQuotedIdent s).kind ≠ .ident ∧ (scanQuotedIdent s).kind ≠ .number := by
  unfold scanQuotedIdent
  repeat' split
  all_goals simp

theorem scanNonAscii_kind {s : Bytes} {k : TokKind} {v : Bytes}
    (h : (scanNonAscii s).tok = some (k, v)) : k ≠ .ident ∧ k ≠ .number := by
  unfold scanNonAscii at h
  simp only [Step.sym, Step.skip] at h
  split at h
  · cases h
  · injection h with h; injection h with h _; subst h; exact ⟨by decide, by decide⟩

/-- a token of `scanOne` comes from the identifier scanner, from the number scanner, or has a
    kind that is neither `ident` nor `number` -/
theorem scanOne_source (s : Bytes) (k : TokKind) (v : Bytes)
    (h : (scanOne s).tok = some (k, v)) :
    (∃ c rest, s = c :: rest ∧ isIdentStart c = true ∧
        (scanIdent s).kind = k ∧ (scanIdent s).value = v) ∨
    (∃ c rest, s = c :: rest ∧ (isDigit c || c == 46) = true ∧
        (scanNumberOrDot s).kind = k ∧ (scanNumberOrDot s).value = v) ∨
    (k ≠ .ident ∧ k ≠ .number) := by
  unfold scanOne at h
  split at h
  · cases h
  · rename_i c rest
    split at h
    · exact Or.inr (Or.inr (scanNonAscii_kind h))
    split at h
    · cases h
    split at h
    · rename_i hid
      simp only [Step.ofLexeme, Option.some.injEq, Prod.mk.injEq] at h
      exact Or.inl ⟨c, rest, rfl, hid, h.1, h.2⟩
    split at h
    · rename_i hd
      simp only [Step.ofLexeme, Option.some.injEq, Prod.mk.injEq] at h
      exact Or.inr (Or.inl ⟨c, rest, rfl, hd, h.1, h.2⟩)
    split at h
    · simp only [Step.ofLexeme, Option.some.injEq, Prod.mk.injEq] at h
      have := scanString_kind (c :: rest)
      rw [h.1] at this
      exact Or.inr (Or.inr this)
    split at h
    · simp only [Step.ofLexeme, Option.some.injEq, Prod.mk.injEq] at h
      have := scanQuotedIdent_kind (c :: rest)
      rw [h.1] at this
      exact Or.inr (Or.inr this)
    · exact Or.inr (Or.inr (scanPunct_kind h))

theorem scanIdent_kind_value {s : Bytes} {k : TokKind} {v : Bytes}
    (hk : (scanIdent s).kind = k) (hv : (scanIdent s).value = v) :
    (k ≠ .ident ∧ k ≠ .number) ∨
      (k = .ident ∧ v = s.take (identLoop s.tail + 1)) := by
  simp only [scanIdent] at hk hv
  split at hk
  · rename_i k' hk'
    simp only at hk
    subst hk
    exact Or.inl (keywordKind_kind hk')
  · rename_i hk'
    rw [hk'] at hv
    simp only at hk hv
    exact Or.inr ⟨hk.symm, hv.symm⟩

/-! ### deliverable 1, 2: number tokens -/

/-- **Every number token value the PQL scanner produces is one SQL number token.** -/
theorem scanOne_number_numOK (s v : Bytes) (h : (scanOne s).tok = some (TokKind.number, v)) :
    numOK v = true := by
  rcases scanOne_source s .number v h with ⟨c, rest, rfl, _, hk, hv⟩ | ⟨c, rest, rfl, hc, hk, hv⟩ |
    ⟨_, h2⟩
  · rcases scanIdent_kind_value hk hv with ⟨_, h2⟩ | ⟨h1, _⟩
    · exact absurd rfl h2
    · cases h1
  · have hL : scanNumberOrDot (c :: rest) = ⟨.number, v, (scanNumberOrDot (c :: rest)).width⟩ := by
      rw [← hk, ← hv]
    rcases scanNumberOrDot_shape c rest v _ hc hL with ⟨hdec, hv'⟩ | ⟨x, hs, _, _, _, _, hv', _⟩
    · rw [hv']; exact numOK_normalize _ hdec
    · rw [hv']; exact numOK_natToDec _
  · exact absurd rfl h2

theorem scan_number_numOK (src : Bytes) (t : Token) (ht : t ∈ scan src) (hk : t.kind = .number) :
    numOK t.value = true := by
  obtain ⟨n, _, _, _, h, _⟩ := reaches_of_mem src 0 t ht
  rw [hk] at h
  exact scanOne_number_numOK _ _ h

/-! ### deliverable 3: identifier tokens -/

/-- `[A-Za-z_$][A-Za-z0-9_]*` -/
def identShaped (v : Bytes) : Bool :=
  match v with
  | [] => false
  | c :: w => isIdentStart c && w.all isIdentCont

theorem take_identLoop (r : Bytes) : ∀ c ∈ r.take (identLoop r), isIdentCont c = true := by
  fun_induction identLoop r <;> simp_all

theorem scanOne_ident_shaped (s v : Bytes) (h : (scanOne s).tok = some (TokKind.ident, v)) :
    identShaped v = true := by
  rcases scanOne_source s .ident v h with ⟨c, rest, rfl, hid, hk, hv⟩ | ⟨c, rest, rfl, _, hk, _⟩ |
    ⟨h1, _⟩
  · rcases scanIdent_kind_value hk hv with ⟨h1, _⟩ | ⟨_, rfl⟩
    · exact absurd rfl h1
    · simp only [List.tail_cons, List.take_succ_cons, identShaped, hid, Bool.true_and,
        List.all_eq_true]
      exact take_identLoop rest
  · exact absurd hk (scanNumberOrDot_kind _)
  · exact absurd rfl h1

theorem scan_ident_shaped (src : Bytes) (t : Token) (ht : t ∈ scan src) (hk : t.kind = .ident) :
    identShaped t.value = true := by
  obtain ⟨n, _, _, _, h, _⟩ := reaches_of_mem src 0 t ht
  rw [hk] at h
  exact scanOne_ident_shaped _ _ h

/-! ### deliverable 4: identifier-shaped values as SQL words -/

theorem identStart_wordStart {c : UInt8} (h : isIdentStart c = true) (h36 : c ≠ 36) :
    isWordStart c = true := by
  rw [isIdentStart_iff] at h
  have : c.toNat ≠ 36 := fun e => h36 (UInt8.toNat_inj.mp e)
  simp only [isWordStart, beq_iff_toNat]
  simp only [Bool.or_eq_true, Bool.and_eq_true, decide_eq_true_eq] at h ⊢
  have e95 : (95 : UInt8).toNat = 95 := rfl
  omega

theorem identCont_wordCont {c : UInt8} (h : isIdentCont c = true) : isWordCont c = true := by
  rw [isIdentCont_iff] at h
  simp only [isWordCont, isWordStart, isDigitB, beq_iff_toNat]
  simp only [Bool.or_eq_true, Bool.and_eq_true, decide_eq_true_eq] at h ⊢
  have e95 : (95 : UInt8).toNat = 95 := rfl
  omega

theorem nameOK_of_identShaped_pos (v : Bytes) (h : identShaped v = true)
    (h36 : v.head? ≠ some 36) : nameOK v = true := by
  rcases v with _ | ⟨c, w⟩
  · cases h
  · simp only [identShaped, Bool.and_eq_true, List.all_eq_true] at h
    have hc : isWordStart c = true :=
      identStart_wordStart h.1 (fun e => h36 (by rw [e]; rfl))
    have hw : ∀ b ∈ w, isWordCont b = true := fun b hb => identCont_wordCont (h.2 b hb)
    have hs := lexStep_word .standard c w [] hc hw (by simp)
    rw [List.append_nil] at hs
    have hl : lexAux .standard ((c :: w).length + 1) (c :: w) = some [STok.word (c :: w)] := by
      simp only [List.length_cons]
      rw [lexAux_step, hs]
      simp [andThen, lexAux]
    rw [nameOK, lex, lexRaw, hl]
    simp

theorem lexStep_dollar (w : Bytes) :
    lexStep .standard 36 w =
      if (spanWhile isWordCont w).1.isEmpty then none
      else some ([STok.param (36 :: (spanWhile isWordCont w).1)], (spanWhile isWordCont w).2) := by
  rw [lexStep]
  have h1 : isSpaceB 36 = false := by decide
  have h2 : isWordStart 36 = false := by decide
  have h3 : isDigitB 36 = false := by decide
  simp [h1, h2, h3]

theorem nameOK_of_identShaped_neg (v : Bytes) (h36 : v.head? = some 36) : nameOK v = false := by
  rcases v with _ | ⟨c, w⟩
  · cases h36
  · simp only [List.head?_cons, Option.some.injEq] at h36
    subst h36
    have hl : lex .standard (36 :: w) ≠ some [STok.word (36 :: w)] := by
      intro hl
      obtain ⟨ts, hts, hf⟩ := lex_eq_some hl
      simp only [List.length_cons] at hts
      rw [lexAux_step, lexStep_dollar] at hts
      split at hts
      · cases hts
      · simp only [andThen, Option.map_eq_some_iff] at hts
        obtain ⟨ts', _, rfl⟩ := hts
        simp at hf
    simpa [nameOK] using hl

theorem nameOK_of_identShaped (v : Bytes) (h : identShaped v = true) :
    nameOK v = (v.head? != some 36) := by
  by_cases h36 : v.head? = some 36
  · rw [nameOK_of_identShaped_neg v h36, h36]; simp
  · rw [nameOK_of_identShaped_pos v h h36]; simp [h36]

end Pql.ParsedOK
