/-
The statement terminator, part 3: apart from the final `.txt ";"`, the chunk list of a compiled
program is semicolon-free.  No hypothesis on the program (only: no parameters).
-/
import PqlModel.Lemmas.LexStmtSemiExpr
namespace Pql.C05
open Pql Sql LexRender

theorem SF_commaList : ∀ (cs : List (List Chunk)), (∀ c ∈ cs, SF c = true) →
    SF (cs.flatMap fun c => Chunk.txt ", " :: c) = true
  | [], _ => rfl
  | c :: cs, h => by
    have h1 := h c List.mem_cons_self
    have h2 := SF_commaList cs (fun x hx => h x (List.mem_cons_of_mem _ hx))
    simp only [List.flatMap_cons]
    sf_close

theorem SF_renderProps : ∀ (props : List RenderProp),
    SF (props.flatMap fun p =>
      [Chunk.txt ",\n    ", .qstr (renderPropValue p.value), .txt " as ",
       .qid (Bytes.ofString "render_prop_" ++ identName p.name)]) = true
  | [] => rfl
  | p :: ps => by
    have ih := SF_renderProps ps
    have h1 : ∀ v, semiFree (.qstr v) = true := fun _ => rfl
    have h2 : ∀ v, semiFree (.qid v) = true := fun _ => rfl
    simp only [List.flatMap_cons]
    sf_close

theorem SF_commaSep (vs : List (List Chunk)) (h : ∀ v ∈ vs, SF v = true) : SF (sepChunks ", " vs) = true :=
  SF_sepChunks (by decide) vs h

section
variable (ctx : Ctx) (hscope : ScopeSF ctx.scope)
include hscope

theorem projCol_sf {c : Column} {cs : List Chunk} (h : projCol ctx c = .ok cs) : SF cs = true := by
  unfold projCol at h
  have h2 : ∀ v, semiFree (.qid v) = true := fun _ => rfl
  split at h
  · obtain ⟨x, hx, h⟩ := bind_ok h
    cases h
    have := writeExpr_sf ctx hscope _ _ hx
    sf_close
  · obtain ⟨x, hx, h⟩ := bind_ok h
    cases h
    have := writeExpr_sf ctx hscope _ _ hx
    sf_close

omit hscope in
theorem columnAlias_sf {c : Column} {a : List Chunk} (h : columnAlias ctx c = .ok a) : SF a = true := by
  unfold columnAlias at h
  split at h
  · cases h; rfl
  · obtain ⟨t, _, h⟩ := bind_ok h
    cases h; rfl

theorem writeColumns_sf : ∀ (cols : List Column) (cs : List (List Chunk)),
    writeColumns ctx cols = .ok cs → ∀ c ∈ cs, SF c = true
  | [], cs, h => by
    rw [writeColumns] at h; cases h; simp
  | c :: cols, cs, h => by
    rw [writeColumns] at h
    obtain ⟨x, hx, h⟩ := bind_ok h
    obtain ⟨a, ha, h⟩ := bind_ok h
    obtain ⟨r, hr, h⟩ := bind_ok h
    cases h
    intro y hy
    rcases List.mem_cons.mp hy with rfl | hy
    · rw [SF_append, writeExpr_sf ctx hscope _ _ hx, columnAlias_sf ctx ha]; rfl
    · exact writeColumns_sf cols r hr y hy

theorem writeSortTerms_sf : ∀ (ts : List SortTerm) (cs : List (List Chunk)),
    writeSortTerms ctx ts = .ok cs → ∀ c ∈ cs, SF c = true
  | [], cs, h => by
    rw [writeSortTerms] at h; cases h; simp
  | t :: ts, cs, h => by
    rw [writeSortTerms] at h
    obtain ⟨x, hx, h⟩ := bind_ok h
    obtain ⟨r, hr, h⟩ := bind_ok h
    cases h
    intro y hy
    rcases List.mem_cons.mp hy with rfl | hy
    · rw [SF_append, writeExpr_sf ctx hscope _ _ hx]
      cases t.asc <;> cases t.nullsFirst <;> decide
    · exact writeSortTerms_sf ts r hr y hy

theorem bodyOf_sf (op : Option Op) {source : List Chunk} (hs : SF source = true) {body : List Chunk}
    (h : bodyOf ctx op source = .ok (some body)) : SF body = true := by
  rcases op with _ | o
  · simp only [bodyOf] at h; cases h; sf_close
  cases o with
  | as_ p k n => simp only [bodyOf] at h; cases h; sf_close
  | count p k => simp only [bodyOf] at h; cases h; sf_close
  | project p k cols =>
    simp only [bodyOf] at h
    obtain ⟨cs, hcs, h⟩ := bind_ok h
    cases h
    have hg := SF_commaSep cs (mapM_forall cols (fun c _ b hb => projCol_sf ctx hscope hb) cs hcs)
    sf_close
  | extend p k cols =>
    simp only [bodyOf] at h
    obtain ⟨cs, hcs, h⟩ := bind_ok h
    cases h
    have hg := SF_commaList cs (writeColumns_sf ctx hscope cols cs hcs)
    sf_close
  | summarize p k cols b groupBy =>
    simp only [bodyOf] at h
    obtain ⟨gs, hgs, h⟩ := bind_ok h
    obtain ⟨cs, hcs, h⟩ := bind_ok h
    obtain ⟨gb, hgb, h⟩ := bind_ok h
    cases h
    have hg1 := writeColumns_sf ctx hscope groupBy gs hgs
    have hg2 := writeColumns_sf ctx hscope cols cs hcs
    have hg3 := SF_commaSep gb (mapM_forall groupBy (fun c _ b hb => writeExpr_sf ctx hscope _ b hb) gb hgb)
    have hall := SF_commaSep (gs ++ cs) (by
      intro v hv
      rcases List.mem_append.mp hv with hv | hv
      · exact hg1 v hv
      · exact hg2 v hv)
    split <;> sf_close
  | where_ p k pred =>
    simp only [bodyOf] at h
    obtain ⟨ps, hps, h⟩ := bind_ok h
    cases h
    have := writeExpr_sf ctx hscope _ _ hps
    sf_close
  | render p k chart w lp props rp =>
    simp only [bodyOf] at h; cases h
    have := SF_renderProps props
    have h1 : ∀ v, semiFree (.qstr v) = true := fun _ => rfl
    sf_close
  | sort p k ts => simp only [bodyOf] at h; cases h
  | take p k n => simp only [bodyOf] at h; cases h
  | top p k n b c => simp only [bodyOf] at h; cases h
  | join p k kind ka fl lp right rp on conds => simp only [bodyOf] at h; cases h

theorem tailOf_sf {sort : Option (List SortTerm)} {take : Option Expr}
    {body : Option (List Chunk)} (hb : ∀ b, body = some b → SF b = true) {cs : List Chunk}
    (h : tailOf ctx sort take body = .ok cs) : SF cs = true := by
  rcases body with _ | b
  · simp only [tailOf] at h; cases h; decide
  have hb' := hb b rfl
  rcases sort with _ | ts <;> rcases take with _ | n <;> simp only [tailOf, pure_bind] at h
  · cases h; sf_close
  · obtain ⟨x, hx, h⟩ := bind_ok h
    cases h
    have := writeExpr_sf ctx hscope _ _ hx
    sf_close
  · obtain ⟨xs, hxs, h⟩ := bind_ok h
    cases h
    have := SF_commaSep xs (writeSortTerms_sf ctx hscope ts xs hxs)
    sf_close
  · obtain ⟨xs, hxs, h⟩ := bind_ok h
    obtain ⟨x, hx, h⟩ := bind_ok h
    cases h
    have := SF_commaSep xs (writeSortTerms_sf ctx hscope ts xs hxs)
    have := writeExpr_sf ctx hscope _ _ hx
    sf_close

theorem write_sf {sub : Subquery} (hsub : SF sub.source = true) {cs : List Chunk} (h : sub.write ctx = .ok cs) :
    SF cs = true := by
  rw [write_eq] at h
  obtain ⟨body, hbody, h⟩ := bind_ok h
  refine tailOf_sf ctx hscope ?_ h
  intro b hb
  subst hb
  exact bodyOf_sf ctx hscope sub.op hsub hbody

theorem writeCtes_sf : ∀ (l : List Subquery), (∀ s ∈ l, SF s.source = true) → ∀ cs, writeCtes ctx l = .ok cs →
    SF cs = true
  | [], _, cs, h => by
    simp only [writeCtes] at h; cases h; rfl
  | [s], hl, cs, h => by
    simp only [writeCtes] at h
    obtain ⟨b, hb, h⟩ := bind_ok h
    cases h
    have hg := write_sf ctx hscope (hl s (by simp)) hb
    have h2 : ∀ v, semiFree (.qid v) = true := fun _ => rfl
    sf_close
  | s :: s2 :: l, hl, cs, h => by
    simp only [writeCtes] at h
    obtain ⟨b, hb, h⟩ := bind_ok h
    obtain ⟨r, hr, h⟩ := bind_ok h
    cases h
    have hg := write_sf ctx hscope (hl s (by simp)) hb
    have ih := writeCtes_sf (s2 :: l) (fun x hx => hl x (List.mem_cons_of_mem _ hx)) r hr
    have h2 : ∀ v, semiFree (.qid v) = true := fun _ => rfl
    sf_close

end

/-! ### `splitQueries`: every source is semicolon-free -/

def SrcSF (s : Subquery) : Prop := SF s.source = true

theorem chain_srcSF (dst : List Subquery) (k : Nat) (source : Option Ident) :
    SrcSF (chainSubquery dst k source) := by
  unfold SrcSF chainSubquery
  dsimp only
  split
  · split <;> rfl
  · rfl

theorem attach_srcSF {dst : List Subquery} (hd : ∀ s ∈ dst, SrcSF s) (attach : Bool) (k : Nat)
    (source : Option Ident) {f : Subquery → Subquery} (hf : ∀ s, (f s).source = s.source) :
    ∀ s ∈ setLast (if attach = true then dst else dst ++ [chainSubquery dst k source]) f, SrcSF s := by
  refine setLast_forall ?_ (fun s hs => by unfold SrcSF; rw [hf s]; exact hs)
  split
  · exact hd
  · exact forall_snoc hd (chain_srcSF ..)

theorem joinSource_sf (unique : Bool) {leftSrc cond : List Chunk} (hl : SF leftSrc = true) (hc : SF cond = true)
    {kw : String} (hkw : kw = " JOIN " ∨ kw = " LEFT JOIN ") (rightName : Bytes) :
    SF ((if unique = true then [Chunk.txt "(SELECT DISTINCT * FROM "] else []) ++ leftSrc ++
      (if unique = true then [Chunk.txt ")"] else []) ++
      [.txt (" AS \"" ++ Facts.leftJoinTableAlias ++ "\""), .txt kw, .qid rightName,
       .txt (" AS \"" ++ Facts.rightJoinTableAlias ++ "\" ON ")] ++ cond) = true := by
  have h2 : ∀ v, semiFree (.qid v) = true := fun _ => rfl
  have hk : semiFree (.txt kw) = true := by rcases hkw with rfl | rfl <;> decide
  cases unique <;> sf_close

mutual
theorem splitQueries_srcSF (src : Bytes) (scope : List (Bytes × List Chunk)) (hsc : ScopeSF scope) :
    ∀ (t : Tabular) (dst out : List Subquery), (∀ s ∈ dst, SrcSF s) →
      splitQueries src scope dst t = .ok out → ∀ s ∈ out, SrcSF s
  | .nil, dst, out, _, h => by rw [splitQueries] at h; cases h
  | .mk source ops, dst, out, hd, h => by
    rw [splitQueries] at h
    obtain ⟨dst1, h1, h⟩ := bind_ok h
    have ih := splitOps_srcSF src scope hsc ops source dst.length dst dst1 hd h1
    split at h
    · cases h; exact forall_snoc ih (chain_srcSF ..)
    · cases h; exact ih
theorem splitOps_srcSF (src : Bytes) (scope : List (Bytes × List Chunk)) (hsc : ScopeSF scope) :
    ∀ (ops : OpList) (source : Option Ident) (dstStart : Nat) (dst out : List Subquery),
      (∀ s ∈ dst, SrcSF s) →
      splitOps src scope source dstStart dst ops = .ok out → ∀ s ∈ out, SrcSF s
  | .nil, source, dstStart, dst, out, hd, h => by
    rw [splitOps] at h; cases h; exact hd
  | .cons (.count p k) rest, source, dstStart, dst, out, hd, h => by
    simp only [splitOps] at h
    refine splitOps_srcSF src scope hsc rest source dstStart _ out (forall_snoc hd ?_) h
    exact chain_srcSF dst dstStart source
  | .cons (.where_ p k e) rest, source, dstStart, dst, out, hd, h => by
    simp only [splitOps] at h
    refine splitOps_srcSF src scope hsc rest source dstStart _ out (forall_snoc hd ?_) h
    exact chain_srcSF dst dstStart source
  | .cons (.project p k cs) rest, source, dstStart, dst, out, hd, h => by
    simp only [splitOps] at h
    refine splitOps_srcSF src scope hsc rest source dstStart _ out (forall_snoc hd ?_) h
    exact chain_srcSF dst dstStart source
  | .cons (.extend p k cs) rest, source, dstStart, dst, out, hd, h => by
    simp only [splitOps] at h
    refine splitOps_srcSF src scope hsc rest source dstStart _ out (forall_snoc hd ?_) h
    exact chain_srcSF dst dstStart source
  | .cons (.summarize p k cs b gs) rest, source, dstStart, dst, out, hd, h => by
    simp only [splitOps] at h
    refine splitOps_srcSF src scope hsc rest source dstStart _ out (forall_snoc hd ?_) h
    exact chain_srcSF dst dstStart source
  | .cons (.render p k ch w lp props rp) rest, source, dstStart, dst, out, hd, h => by
    simp only [splitOps] at h
    refine splitOps_srcSF src scope hsc rest source dstStart _ out (forall_snoc hd ?_) h
    exact chain_srcSF dst dstStart source
  | .cons (.as_ p k n) rest, source, dstStart, dst, out, hd, h => by
    simp only [splitOps] at h
    refine splitOps_srcSF src scope hsc rest source dstStart _ out (forall_snoc hd ?_) h
    exact chain_srcSF dst dstStart source
  | .cons (.sort p k terms) rest, source, dstStart, dst, out, hd, h => by
    simp only [splitOps] at h
    refine splitOps_srcSF src scope hsc rest source dstStart _ out ?_ h
    exact attach_srcSF hd _ dstStart source (fun _ => rfl)
  | .cons (.take p k n) rest, source, dstStart, dst, out, hd, h => by
    simp only [splitOps] at h
    refine splitOps_srcSF src scope hsc rest source dstStart _ out ?_ h
    exact attach_srcSF hd _ dstStart source (fun _ => rfl)
  | .cons (.top p k n b none) rest, source, dstStart, dst, out, hd, h => by
    simp only [splitOps] at h; cases h
  | .cons (.top p k n b (some c)) rest, source, dstStart, dst, out, hd, h => by
    simp only [splitOps] at h
    refine splitOps_srcSF src scope hsc rest source dstStart _ out ?_ h
    exact attach_srcSF hd _ dstStart source (fun _ => rfl)
  | .cons (.join p k kind ka fl lp right rp on conds) rest, source, dstStart, dst, out, hd, h => by
    simp only [splitOps] at h
    obtain ⟨dst1, h1, h⟩ := bind_ok h
    have ihr := splitQueries_srcSF src scope hsc right dst dst1 hd h1
    split at h
    · cases h
    · rename_i kw hkw
      obtain ⟨cond, hc, h⟩ := bind_ok h
      have hcond := writeExpr_sf ⟨src, scope, .join⟩ hsc _ _ hc
      refine splitOps_srcSF src scope hsc rest source dstStart _ out (forall_snoc ihr ?_) h
      refine joinSource_sf _ ?_ hcond (joinKw_cases hkw) _
      split
      · split <;> rfl
      · rfl
end

/-! ### the statement loop and the assembly -/

theorem compileStmts_sf (src : Bytes) :
    ∀ (stmts : List Stmt) (scope : List (Bytes × List Chunk)) (q : Option Tabular)
      (scope' : List (Bytes × List Chunk)) (q' : Option Tabular),
      ScopeSF scope → compileStmts src stmts scope q = .ok (scope', q') → ScopeSF scope'
  | [], scope, q, scope', q', hs, h => by
    rw [compileStmts] at h; cases h; exact hs
  | .tabular t :: rest, scope, q, scope', q', hs, h => by
    cases q with
    | some t0 => simp only [compileStmts] at h; cases h
    | none =>
      simp only [compileStmts] at h
      exact compileStmts_sf src rest scope (some t) scope' q' hs h
  | .let_ kw name asg x :: rest, scope, q, scope', q', hs, h => by
    cases q with
    | some t0 =>
      simp only [compileStmts] at h
      exact compileStmts_sf src rest scope (some t0) scope' q' hs h
    | none =>
      simp only [compileStmts] at h
      split at h
      · cases h
      · rename_i sql hsql
        obtain ⟨body, hbody, rfl⟩ := map_ok hsql
        split at h
        · cases h
        · rename_i n
          refine compileStmts_sf src rest _ none scope' q' ?_ h
          intro p hp
          rcases List.mem_cons.mp hp with rfl | hp
          · rw [SF_wrapTight]; exact writeExpr_sf ⟨src, scope, .let_⟩ hs x body hbody
          · exact hs p hp

theorem finish_sf (src : Bytes) (scope : List (Bytes × List Chunk)) (hsc : ScopeSF scope) (t : Tabular)
    (cs : List Chunk) (hc : C14.finishChunks src scope (some t) = .ok cs) :
    ∃ init, cs = init ++ [Chunk.txt ";"] ∧ SF init = true := by
  simp only [C14.finishChunks] at hc
  obtain ⟨subs, hs, hc⟩ := bind_ok hc
  have hall := splitQueries_srcSF src scope hsc t [] subs (by simp) hs
  split at hc
  · cases hc
  · rename_i query ctesRev hrev
    have hmem : ∀ s ∈ query :: ctesRev, SrcSF s := by
      intro s h; rw [← hrev] at h; exact hall s (List.mem_reverse.mp h)
    have hq := hmem query List.mem_cons_self
    split at hc
    · obtain ⟨wp, hwp, hc⟩ := bind_ok hc
      obtain ⟨body, hb, hc⟩ := bind_ok hc
      cases hwp; cases hc
      refine ⟨_, rfl, ?_⟩
      have := write_sf ⟨src, scope, .default⟩ hsc hq hb
      sf_close
    · obtain ⟨c, hcte, hc⟩ := bind_ok hc
      obtain ⟨wp, hwp, hc⟩ := bind_ok hc
      obtain ⟨body, hb, hc⟩ := bind_ok hc
      cases hwp; cases hc
      refine ⟨_, rfl, ?_⟩
      have := write_sf ⟨src, scope, .default⟩ hsc hq hb
      have := writeCtes_sf ⟨src, scope, .default⟩ hsc ctesRev.reverse
        (fun s h => hmem s (List.mem_cons_of_mem _ (List.mem_reverse.mp h))) c hcte
      sf_close

/-- **the only explicit terminator**: the chunks of a program compiled from a semicolon-free
    initial scope are a semicolon-free list followed by the one `.txt ";"` -/
theorem program_sf_from (src : Bytes) (scope0 : List (Bytes × List Chunk)) (hs0 : ScopeSF scope0)
    (stmts : List Stmt) (cs : List Chunk)
    (hc : (compileStmts src stmts scope0 none >>= fun r => C14.finishChunks src r.1 r.2) = .ok cs) :
    ∃ init, cs = init ++ [Chunk.txt ";"] ∧ SF init = true := by
  obtain ⟨⟨scope, q⟩, hx, hc⟩ := bind_ok hc
  have hsc := compileStmts_sf src stmts scope0 none scope q hs0 hx
  dsimp only at hc
  cases q with
  | none => simp only [C14.finishChunks] at hc; cases hc
  | some t => exact finish_sf src scope hsc t cs hc

/-- the same without parameters; no hypothesis on the program -/
theorem program_sf (src : Bytes) (stmts : List Stmt) (cs : List Chunk)
    (hc : compileChunks src [] stmts = .ok cs) : ∃ init, cs = init ++ [Chunk.txt ";"] ∧ SF init = true := by
  rw [C14.compileChunks_eq] at hc
  exact program_sf_from src [] scopeSF_nil stmts cs hc

end Pql.C05
