/-
C05, syntactic half, stage 2 (h): one SELECT — what `Subquery.write` emits for an erased link is
read by `pSelect` as the intended SELECT `selOf`, field by field up to `normS`.
-/
import PqlModel.Lemmas.ParseStmtOpSpec
namespace Pql.C05
set_option linter.unusedSimpArgs false
set_option linter.unusedVariables false
open Pql Sql CompileOracle Intended Pql.RT

theorem select_parse (src : Bytes) (a : SubA) (sub : Subquery) (cs : List Chunk) (rest : List STok)
    (he : EraseRel src [] a sub) (hok : subOK a = true)
    (hw : sub.write ⟨src, [], .default⟩ = .ok cs) (hrest : Closer rest) :
    ∃ sel want, pSelect (toksOf cs ++ rest) = some (sel, rest) ∧ selOf src a = some want ∧ SelRel sel want := by
  simp only [subOK, Bool.and_eq_true] at hok
  obtain ⟨⟨⟨hsrcOK, hopOK⟩, hsortOK⟩, htakeOK⟩ := hok
  rw [write_eq, he.op, he.sort, he.take] at hw
  cases hb : bodyOf ⟨src, [], .default⟩ a.op sub.source with
  | error e => rw [hb] at hw; cases hw
  | ok b =>
    rw [hb] at hw
    obtain ⟨body, rfl, itemTs, mid, witems, wwh, wgb, htoks, hitems, hne, ⟨hmidEnds, hmidParse⟩, hbodyA⟩ :=
      op_spec src a.op hopOK sub.source b hb
    have hw' : tailOf ⟨src, [], .default⟩ a.sort a.take (some body) = .ok cs := hw
    obtain ⟨tl, wob, wlim, hcs, hord, hlim, htlEnds, htlParse⟩ := tail_spec src a.sort a.take hsortOK htakeOK body cs hw'
    obtain ⟨wsrc, wjn, hsrcA, hsrcParse⟩ := src_spec src a.source hsrcOK sub.source he.source
    have E5 := htlEnds rest hrest
    have E3 := hmidEnds _ E5
    obtain ⟨items, h1, relItems⟩ := pItems_select hitems hne (toksOf sub.source ++ (mid ++ (tl ++ rest)))
    obtain ⟨jn, r3, h2, h3, relJoin⟩ := hsrcParse _ E3
    obtain ⟨wh, gb, r5, h4, h5, relWh, relGb⟩ := hmidParse _ E5
    obtain ⟨ob, lim, r7, h6, h7, relOb, relLim⟩ := htlParse rest hrest
    have hsel := pSelect_build h1 h2 h3 h4 h5 h6 h7
    refine ⟨{ items, source := wsrc, join := jn, where_ := wh, groupBy := gb, orderBy := ob, limit := lim }, _, ?_,
      selOf_of_parts hsrcA (hbodyA wsrc wjn) hord hlim, ⟨rfl, relItems, rfl, relJoin, relWh, relGb, relOb, relLim⟩⟩
    rw [← hsel, hcs, htoks]
    simp only [List.append_assoc, List.cons_append]

end Pql.C05
