/-
C13 / C01 glue, source level, part 1: the scanner on `T | where name(a, a, …, a)` for ALL n.

`srcCall name n` are the source bytes, `toksCall name n` the tokens (kinds, values, exact
positions) `scan` returns for them when `name` is an identifier (`identName`).
-/
import PqlModel.Lemmas.LexReach
import PqlModel.Lemmas.GlueArity
namespace Pql.Glue
open Pql

/-- `w` is what the scanner reads as ONE plain identifier token: an identifier-start byte, then
    identifier-continuation bytes, and not one of the keywords `and by in or` -/
def identName (w : Bytes) : Bool :=
  match w with
  | [] => false
  | c :: r => isIdentStart c && r.all isIdentCont && (keywordKind w).isNone

/-! ### single steps of the scanner -/

theorem identStart_ascii {c : UInt8} (h : isIdentStart c = true) :
    ¬ (128 ≤ c.toNat) ∧ isAsciiSpace c = false := by
  simp only [isIdentStart, isAlpha, inRanges, Facts.isAlphaRanges, List.any_cons, List.any_nil, Bool.or_false,
    Bool.or_eq_true, Bool.and_eq_true, decide_eq_true_eq, beq_iff_eq] at h
  have h95 : (95 : UInt8).toNat = 95 := by decide
  have h36 : (36 : UInt8).toNat = 36 := by decide
  have hlt : c.toNat = 95 ∨ c.toNat = 36 ∨ (97 ≤ c.toNat ∧ c.toNat ≤ 122) ∨ (65 ≤ c.toNat ∧ c.toNat ≤ 90) := by
    rcases h with (h | h) | h
    · exact Or.inr (Or.inr h)
    · subst h; exact Or.inl h95
    · subst h; exact Or.inr (Or.inl h36)
  refine ⟨by omega, ?_⟩
  simp only [isAsciiSpace, Bool.or_eq_false_iff, beq_eq_false_iff_ne, ne_eq]
  refine ⟨⟨⟨⟨⟨?_, ?_⟩, ?_⟩, ?_⟩, ?_⟩, ?_⟩ <;> (intro he; subst he; revert hlt; decide)

theorem identLoop_word (r : Bytes) (d : UInt8) (rest : Bytes) (hr : r.all isIdentCont = true)
    (hd : isIdentCont d = false) : identLoop (r ++ d :: rest) = r.length := by
  induction r with
  | nil => simp [identLoop, hd]
  | cons c r ih =>
    simp only [List.all_cons, Bool.and_eq_true] at hr
    simp only [List.cons_append, identLoop, hr.1, if_true, ih hr.2, List.length_cons]

theorem scanOne_ident (w : Bytes) (d : UInt8) (rest : Bytes) (hw : identName w = true)
    (hd : isIdentCont d = false) :
    scanOne (w ++ d :: rest) = ⟨some (.ident, w), w.length⟩ := by
  cases w with
  | nil => simp [identName] at hw
  | cons c r =>
    simp only [identName, Bool.and_eq_true, Option.isNone_iff_eq_none] at hw
    obtain ⟨⟨hc, hr⟩, hk⟩ := hw
    obtain ⟨h128, hsp⟩ := identStart_ascii hc
    have htake : List.take (r.length + 1) (c :: (r ++ d :: rest)) = c :: r := by
      simp
    simp only [List.cons_append, scanOne, h128, if_false, hsp, Bool.false_eq_true, hc, if_true, scanIdent,
      List.tail_cons, identLoop_word r d rest hr hd, htake, hk, Step.ofLexeme, List.length_cons]

theorem scanFrom_ident (w : Bytes) (d : UInt8) (rest : Bytes) (off : Nat) (hw : identName w = true)
    (hd : isIdentCont d = false) :
    scanFrom (w ++ d :: rest) off = ⟨.ident, off, off + w.length, w⟩ :: scanFrom (d :: rest) (off + w.length) := by
  rw [scanFrom_step (by simp), scanOne_ident w d rest hw hd]
  simp [Step.toks]

theorem scanFrom_space (rest : Bytes) (off : Nat) : scanFrom (32 :: rest) off = scanFrom rest (off + 1) := by
  have h : scanOne (32 :: rest) = ⟨none, 1⟩ := by
    simp [scanOne, isAsciiSpace, Step.skip]
  rw [scanFrom_step (by simp), h]
  simp [Step.toks]

theorem scanOne_sym (c : UInt8) (k : TokKind) (rest : Bytes)
    (h : (c, k) ∈ [((124 : UInt8), TokKind.pipe), (40, .lparen), (41, .rparen), (44, .comma)]) :
    scanOne (c :: rest) = ⟨some (k, []), 1⟩ := by
  simp only [List.mem_cons, Prod.mk.injEq, List.not_mem_nil, or_false] at h
  rcases h with ⟨rfl, rfl⟩ | ⟨rfl, rfl⟩ | ⟨rfl, rfl⟩ | ⟨rfl, rfl⟩ <;>
    simp [scanOne, isAsciiSpace, isIdentStart, isAlpha, isDigit, inRanges, Facts.isAlphaRanges,
      Facts.isDigitRanges, scanPunct, singleKind, Step.sym]

theorem scanFrom_sym (c : UInt8) (k : TokKind) (rest : Bytes) (off : Nat)
    (h : (c, k) ∈ [((124 : UInt8), TokKind.pipe), (40, .lparen), (41, .rparen), (44, .comma)]) :
    scanFrom (c :: rest) off = ⟨k, off, off + 1, []⟩ :: scanFrom rest (off + 1) := by
  rw [scanFrom_step (by simp), scanOne_sym c k rest h]
  simp [Step.toks]

/-! ### the source text and its tokens -/

/-- after an argument: `)` or `, a` and what follows -/
def restBytes : Nat → Bytes
  | 0 => [41]
  | k + 1 => 44 :: 32 :: 97 :: restBytes k

/-- after `(`: `)` or `a` and what follows -/
def argBytes : Nat → Bytes
  | 0 => [41]
  | k + 1 => 97 :: restBytes k

/-- the source text `T | where name(a, a, …, a)` with `n` arguments -/
def srcCall (name : Bytes) (n : Nat) : Bytes := B "T | where " ++ name ++ 40 :: argBytes n

def restToks (p : Nat) : Nat → List Token
  | 0 => [⟨.rparen, p, p + 1, []⟩]
  | k + 1 => ⟨.comma, p, p + 1, []⟩ :: ⟨.ident, p + 2, p + 3, B "a"⟩ :: restToks (p + 3) k

def argToks (p : Nat) : Nat → List Token
  | 0 => [⟨.rparen, p, p + 1, []⟩]
  | k + 1 => ⟨.ident, p, p + 1, B "a"⟩ :: restToks (p + 1) k

/-- the tokens of `srcCall name n` -/
def toksCall (name : Bytes) (n : Nat) : List Token :=
  ⟨.ident, 0, 1, B "T"⟩ :: ⟨.pipe, 2, 3, []⟩ :: ⟨.ident, 4, 9, B "where"⟩ ::
    ⟨.ident, 10, 10 + name.length, name⟩ :: ⟨.lparen, 10 + name.length, 11 + name.length, []⟩ ::
    argToks (11 + name.length) n

theorem identName_a : identName (B "a") = true := by decide
theorem identName_T : identName (B "T") = true := by decide
theorem identName_where : identName (B "where") = true := by decide

theorem restBytes_head (k : Nat) : ∃ d rest, restBytes k = d :: rest ∧ isIdentCont d = false := by
  cases k with
  | zero => exact ⟨41, [], rfl, by decide⟩
  | succ k => exact ⟨44, _, rfl, by decide⟩

theorem scan_restBytes (k : Nat) : ∀ p, scanFrom (restBytes k) p = restToks p k := by
  induction k with
  | zero =>
    intro p
    simp only [restBytes, restToks]
    rw [scanFrom_sym 41 .rparen [] p (by simp), scanFrom_nil]
  | succ k ih =>
    intro p
    obtain ⟨d, rest, hd, hc⟩ := restBytes_head k
    simp only [restBytes, restToks]
    rw [scanFrom_sym 44 .comma _ p (by simp), scanFrom_space]
    have h := scanFrom_ident (B "a") d rest (p + 1 + 1) identName_a hc
    have hB : B "a" = [97] := by decide
    rw [hB] at h
    simp only [List.cons_append, List.nil_append, List.length_cons, List.length_nil] at h
    rw [hd, h, ← hd, ih]
    simp only [hB]

theorem scan_argBytes (n : Nat) (p : Nat) : scanFrom (argBytes n) p = argToks p n := by
  cases n with
  | zero =>
    simp only [argBytes, argToks]
    rw [scanFrom_sym 41 .rparen [] p (by simp), scanFrom_nil]
  | succ k =>
    obtain ⟨d, rest, hd, hc⟩ := restBytes_head k
    simp only [argBytes, argToks]
    have h := scanFrom_ident (B "a") d rest p identName_a hc
    have hB : B "a" = [97] := by decide
    rw [hB] at h
    simp only [List.cons_append, List.nil_append, List.length_cons, List.length_nil] at h
    rw [hd, h, ← hd, scan_restBytes]
    simp only [hB, Nat.zero_add]

/-- **the scanner on the family.** -/
theorem scan_srcCall (name : Bytes) (n : Nat) (hn : identName name = true) :
    scan (srcCall name n) = toksCall name n := by
  have hsrc : srcCall name n =
      B "T" ++ 32 :: 124 :: 32 :: (B "where" ++ 32 :: (name ++ 40 :: argBytes n)) := by
    have h1 : B "T | where " = B "T" ++ 32 :: 124 :: 32 :: (B "where" ++ [32]) := by decide
    simp only [srcCall, h1, List.append_assoc, List.cons_append, List.nil_append]
  have hT : (B "T").length = 1 := by decide
  have hW : (B "where").length = 5 := by decide
  rw [scan, hsrc, scanFrom_ident (B "T") 32 _ 0 identName_T (by decide), scanFrom_space,
    scanFrom_sym 124 .pipe _ _ (by simp), scanFrom_space,
    scanFrom_ident (B "where") 32 _ _ identName_where (by decide), scanFrom_space,
    scanFrom_ident name 40 _ _ hn (by decide), scanFrom_sym 40 .lparen _ _ (by simp), scan_argBytes]
  simp only [toksCall, hT, hW, Nat.zero_add, Nat.reduceAdd]
  have e1 : 10 + name.length + 1 = 11 + name.length := by omega
  rw [e1]

end Pql.Glue
