/-
Glue, shared part: every expression position of a statement of an error-free parse stands for
a contiguous run of tokens of the scan, WITH positions.

C08 (`parseTokens_acc`) says that the `unparse` of every statement accounts, with positions,
for its token group.  Here that is pushed down through operators, columns, sort terms, join
sub-pipelines, to every top-level expression (`ESeg`) and expression list (`LSeg`) of the
statement (`StmtAll`), and (`expr_sub_acc`) further to every sub-expression at any depth.
Consequences used by the glue theorems: the span of every such expression is the extent of
its tokens (`ESeg.extent`), a literal node is one token of the scan with that kind, value and
span (`ESeg.lit`).
-/
import PqlModel.Lemmas.ParsedOKLeaves
import PqlModel.Lemmas.SpanExtentParts
import PqlModel.Props.C10Extent
namespace Pql.Glue
open Pql Grammar ParsedOK

/-- `us` accounts, with positions, for a run `seg` of tokens taken (in order) from `ts` -/
def Inf (us : List UTok) (ts : List Token) : Prop :=
  ∃ seg, seg.Sublist ts ∧ accounts true us seg = true

theorem Inf.mid {a m b : List UTok} {ts : List Token} (h : Inf (a ++ m ++ b) ts) : Inf m ts := by
  obtain ⟨seg, hs, ha⟩ := h
  obtain ⟨s12, s3, rfl, h12, _⟩ := accounts_append_split ha
  obtain ⟨s1, s2, rfl, _, h2⟩ := accounts_append_split h12
  exact ⟨s2, ((List.sublist_append_right s1 s2).trans (List.sublist_append_left _ s3)).trans hs, h2⟩

theorem Inf.of_eq {us : List UTok} {a m b : List UTok} {ts : List Token} (h : Inf us ts)
    (e : us = a ++ m ++ b) : Inf m ts := by
  subst e; exact h.mid

theorem Inf.left {a b : List UTok} {ts : List Token} (h : Inf (a ++ b) ts) : Inf a ts :=
  h.of_eq (a := []) (m := a) (b := b) (by simp)

theorem Inf.right {a b : List UTok} {ts : List Token} (h : Inf (a ++ b) ts) : Inf b ts :=
  h.of_eq (a := a) (m := b) (b := []) (by simp)

theorem Inf.tail {u : UTok} {us : List UTok} {ts : List Token} (h : Inf (u :: us) ts) : Inf us ts :=
  h.of_eq (a := [u]) (m := us) (b := []) (by simp)

theorem Inf.mono {us : List UTok} {ts ts' : List Token} (h : Inf us ts) (hs : ts.Sublist ts') :
    Inf us ts' := by
  obtain ⟨seg, h1, h2⟩ := h
  exact ⟨seg, h1.trans hs, h2⟩

theorem Inf.sepBy {sep : UTok} : ∀ {ys : List (List UTok)} {ts : List Token},
    Inf (sepBy sep ys) ts → ∀ y ∈ ys, Inf y ts
  | [], _, _, _, hy => by cases hy
  | [x], _, h, y, hy => by
    simp only [List.mem_singleton] at hy
    subst hy
    simpa [Grammar.sepBy] using h
  | x :: x' :: xs, ts, h, y, hy => by
    have e : Grammar.sepBy sep (x :: x' :: xs) = x ++ sep :: Grammar.sepBy sep (x' :: xs) := rfl
    rw [e] at h
    rcases List.mem_cons.1 hy with rfl | hy
    · exact h.left
    · exact Inf.sepBy h.right.tail y hy

/-- the expression stands for a run of tokens of `ts`, positions included -/
def ESeg (ts : List Token) (e : Expr) : Prop := ∃ us, unparseExpr e = some us ∧ Inf us ts
def LSeg (ts : List Token) (l : ExprList) : Prop := ∃ us, unparseExprList l = some us ∧ Inf us ts

theorem ESeg.mono {ts ts' : List Token} {e : Expr} (h : ESeg ts e) (hs : ts.Sublist ts') : ESeg ts' e := by
  obtain ⟨us, h1, h2⟩ := h; exact ⟨us, h1, h2.mono hs⟩

theorem LSeg.mono {ts ts' : List Token} {l : ExprList} (h : LSeg ts l) (hs : ts.Sublist ts') : LSeg ts' l := by
  obtain ⟨us, h1, h2⟩ := h; exact ⟨us, h1, h2.mono hs⟩

section
variable (ts : List Token)

theorem sortTerm_seg (t : SortTerm) (us : List UTok) (h : unparseSortTerm t = some us)
    (hu : Inf us ts) : ESeg ts t.x := by
  simp only [unparseSortTerm, Option.bind_eq_bind, Option.pure_def, Option.bind_eq_some_iff,
    Option.some.injEq] at h
  obtain ⟨xs, hx, rfl⟩ := h
  exact ⟨xs, hx, hu.left.left⟩

theorem column_seg (b : Bool) (c : Column) (us : List UTok) (h : unparseColumn b c = some us)
    (hu : Inf us ts) : c.x = .nil ∨ ESeg ts c.x := by
  unfold unparseColumn at h
  split at h
  · split at h
    · simp only [Option.bind_eq_bind, Option.pure_def, Option.bind_eq_some_iff,
        Option.some.injEq] at h
      obtain ⟨xs, hx, rfl⟩ := h
      exact Or.inr ⟨xs, hx, hu.tail.tail⟩
    · split at h
      · split at h
        · next hx => exact Or.inl hx
        · cases h
      · cases h
  · split at h
    · cases h
    · exact Or.inr ⟨us, h, hu⟩

/-- in `extend` / `summarize` position the expression is always there -/
theorem column_seg_false (c : Column) (us : List UTok) (h : unparseColumn false c = some us)
    (hu : Inf us ts) : ESeg ts c.x := by
  unfold unparseColumn at h
  split at h
  · split at h
    · simp only [Option.bind_eq_bind, Option.pure_def, Option.bind_eq_some_iff,
        Option.some.injEq] at h
      obtain ⟨xs, hx, rfl⟩ := h
      exact ⟨xs, hx, hu.tail.tail⟩
    · simp at h
  · split at h
    · cases h
    · exact ⟨us, h, hu⟩

theorem sepList_seg {α : Type} (f : α → Option (List UTok)) (E : α → Prop)
    (hf : ∀ x us, f x = some us → Inf us ts → E x)
    (xs : List α) (ys : List (List UTok)) (h : listM f xs = some ys) (hu : Inf (Grammar.sepBy commaTok ys) ts) :
    ∀ x ∈ xs, E x := by
  intro x hx
  obtain ⟨y, hy, hfx⟩ := listM_mem f xs ys h x hx
  exact hf x y hfx (hu.sepBy y hy)

mutual
theorem tab_seg : ∀ (t : Tabular) (us : List UTok), unparseTabular t = some us → Inf us ts →
    TabAll (ESeg ts) (LSeg ts) t
  | .nil, _, _, _ => by simp [TabAll]
  | .mk src ops, us, h, hu => by
    simp only [unparseTabular, Option.bind_eq_bind, Option.pure_def, Option.bind_eq_some_iff,
      Option.some.injEq] at h
    obtain ⟨s, _, os, ho, rfl⟩ := h
    simp only [TabAll]
    exact ops_seg ops os ho hu.tail
theorem ops_seg : ∀ (ops : OpList) (us : List UTok), unparseOps ops = some us → Inf us ts →
    OpsAll (ESeg ts) (LSeg ts) ops
  | .nil, _, _, _ => by simp [OpsAll]
  | .cons o os, us, h, hu => by
    simp only [unparseOps, Option.bind_eq_bind, Option.pure_def, Option.bind_eq_some_iff,
      Option.some.injEq] at h
    obtain ⟨a, ha, b, hb, rfl⟩ := h
    simp only [OpsAll]
    exact ⟨op_seg o a ha hu.left, ops_seg os b hb hu.right⟩
theorem op_seg : ∀ (o : Op) (us : List UTok), unparseOp o = some us → Inf us ts →
    OpAll (ESeg ts) (LSeg ts) o
  | .count .., _, _, _ => by simp [OpAll]
  | .as_ .., _, _, _ => by simp [OpAll]
  | .render .., _, _, _ => by simp [OpAll]
  | .where_ p k e, us, h, hu => by
    simp only [unparseOp, Option.bind_eq_bind, Option.pure_def, Option.bind_eq_some_iff,
      Option.some.injEq] at h
    obtain ⟨xs, hx, rfl⟩ := h
    simp only [OpAll]
    exact ⟨xs, hx, hu.tail.tail⟩
  | .take p k n, us, h, hu => by
    simp only [unparseOp, Option.bind_eq_bind, Option.pure_def, Option.bind_eq_some_iff,
      Option.some.injEq] at h
    obtain ⟨xs, hx, rfl⟩ := h
    simp only [OpAll]
    exact ⟨xs, hx, hu.tail.tail⟩
  | .top p k n b c, us, h, hu => by
    simp only [unparseOp, Option.bind_eq_bind, Option.pure_def, Option.bind_eq_some_iff,
      Option.some.injEq] at h
    obtain ⟨xs, hx, col, hc, cs, hcs, rfl⟩ := h
    simp only [OpAll]
    refine ⟨⟨xs, hx, hu.left.tail.tail⟩, ?_⟩
    intro t ht
    rw [hc] at ht
    cases ht
    exact sortTerm_seg ts col cs hcs hu.right.tail
  | .sort p k tms, us, h, hu => by
    simp only [unparseOp, Option.bind_eq_bind, Option.pure_def] at h
    split at h
    · simp at h
    · simp only [Option.bind_eq_some_iff, Option.some.injEq] at h
      obtain ⟨tss, htss, rfl⟩ := h
      simp only [OpAll]
      exact sepList_seg ts unparseSortTerm (fun t => ESeg ts t.x) (sortTerm_seg ts) tms tss htss
        hu.tail.tail.tail
  | .project p k cs, us, h, hu => by
    simp only [unparseOp, Option.bind_eq_bind, Option.pure_def] at h
    split at h
    · simp at h
    · simp only [Option.bind_eq_some_iff, Option.some.injEq] at h
      obtain ⟨css, hcss, rfl⟩ := h
      simp only [OpAll]
      exact sepList_seg ts (unparseColumn true) (fun c => c.x = .nil ∨ ESeg ts c.x) (column_seg ts true)
        cs css hcss hu.tail.tail
  | .extend p k cs, us, h, hu => by
    simp only [unparseOp, Option.bind_eq_bind, Option.pure_def] at h
    split at h
    · simp at h
    · simp only [Option.bind_eq_some_iff, Option.some.injEq] at h
      obtain ⟨css, hcss, rfl⟩ := h
      simp only [OpAll]
      exact sepList_seg ts (unparseColumn false) (fun c => ESeg ts c.x) (column_seg_false ts)
        cs css hcss hu.tail.tail
  | .summarize p k cs b gs, us, h, hu => by
    simp only [unparseOp, Option.bind_eq_bind, Option.pure_def, Option.bind_eq_some_iff] at h
    obtain ⟨css, hcss, gss, hgss, h⟩ := h
    simp only [OpAll]
    split at h
    · split at h
      · simp at h
      · simp only [Option.some.injEq] at h
        subst h
        exact ⟨sepList_seg ts (unparseColumn false) (fun c => ESeg ts c.x) (column_seg_false ts) cs css hcss
            hu.left.tail.tail,
          sepList_seg ts (unparseColumn false) (fun c => ESeg ts c.x) (column_seg_false ts) gs gss hgss
            hu.right.tail⟩
    · split at h
      · simp at h
      · next hg =>
        simp only [Option.some.injEq] at h
        subst h
        refine ⟨sepList_seg ts (unparseColumn false) (fun c => ESeg ts c.x) (column_seg_false ts) cs css hcss
            hu.tail.tail, ?_⟩
        have : gs = [] := by
          simp only [Bool.or_eq_true, Bool.not_eq_true', not_or, Bool.not_eq_true] at hg
          simpa using hg.2
        subst this
        simp
  | .join p k kind ka fl lp right rp on conds, us, h, hu => by
    simp only [unparseOp, Option.bind_eq_bind, Option.pure_def, Option.bind_eq_some_iff] at h
    obtain ⟨r, hr, cs, hcs, h⟩ := h
    split at h
    · simp at h
    · have hex : ∃ hdr : List UTok, us = sym TokKind.pipe p :: kwTok ["join"] k :: hdr ++
          sym TokKind.lparen lp :: r ++ sym TokKind.rparen rp :: kwTok ["on"] on :: cs := by
        split at h
        · simp only [Option.bind_some, Option.some.injEq] at h
          exact ⟨_, h.symm⟩
        · split at h
          · simp at h
          · simp only [Option.bind_some, Option.some.injEq] at h
            exact ⟨_, h.symm⟩
      obtain ⟨hdr, rfl⟩ := hex
      simp only [OpAll]
      exact ⟨tab_seg right r hr hu.left.right.tail, ⟨cs, hcs, hu.right.tail.tail⟩⟩
end

theorem stmt_seg (s : Stmt) (us : List UTok) (h : unparseStmt s = some us) (hu : Inf us ts) :
    StmtAll (ESeg ts) (LSeg ts) s := by
  cases s with
  | let_ kw name asg x =>
    simp only [unparseStmt, Option.bind_eq_bind, Option.pure_def, Option.bind_eq_some_iff,
      Option.some.injEq] at h
    obtain ⟨n, _, xs, hx, rfl⟩ := h
    simp only [StmtAll]
    exact ⟨xs, hx, hu.tail.tail.tail⟩
  | tabular t =>
    simp only [unparseStmt] at h
    simp only [StmtAll]
    exact tab_seg ts t us h hu

end

/-- **Every expression position of an error-free parse is a run of tokens of the scan**, with
    positions: for every statement, every top-level expression (operator arguments, column
    expressions, sort terms, join conditions at any join depth, `let` values) unparses to tokens
    that `accounts true` matches against a sublist of `scan src`. -/
theorem parsed_segs (src : Bytes) (stmts : List Stmt) (h : parse src = (stmts, [])) :
    ∀ s ∈ stmts, StmtAll (ESeg (scan src)) (LSeg (scan src)) s := by
  have hp : parseTokens src.length (scan src) = (stmts, []) := h
  have hacc := parseTokens_acc src.length (scan src) stmts (scan_tokOK src) hp
  have hsub := splitStatementsToks_sublist (scan src)
  generalize splitStatementsToks (scan src) = gs at hacc hsub
  clear h hp
  induction hacc with
  | nil => intro s hs; cases hs
  | @cons st g l₁ l₂ hR _ ih =>
    intro s hs
    rcases List.mem_cons.1 hs with rfl | hs
    · obtain ⟨us, hus, ha⟩ := hR
      exact stmt_seg (scan src) s us hus ⟨g, hsub g (by simp), ha⟩
    · exact ih (fun g hg => hsub g (List.mem_cons_of_mem _ hg)) s hs

/-! ### what a segment gives -/

/-- sub-expressions at any depth inherit the segment -/
theorem ESeg.sub {ts : List Token} {d e : Expr} (h : ESeg ts e) (hs : Expr.Sub d e) : ESeg ts d := by
  obtain ⟨us, hu, seg, hsub, ha⟩ := h
  obtain ⟨p, seg', q, us', rfl, hu', ha'⟩ := expr_sub_acc hs us seg hu ha
  exact ⟨us', hu', seg', ((List.sublist_append_right p seg').trans (List.sublist_append_left _ q)).trans hsub, ha'⟩

/-- the elements of a list that stands for a run of tokens do so themselves -/
theorem LSeg.mem {ts : List Token} {l : ExprList} (h : LSeg ts l) : ∀ e ∈ l.toList, ESeg ts e := by
  obtain ⟨us, hu, seg, hsub, ha⟩ := h
  intro e he
  obtain ⟨p, s, q, us', rfl, hu', ha'⟩ := (exprList_placed l us seg hu ha).acc e he
  exact ⟨us', hu', s, ((List.sublist_append_right p s).trans (List.sublist_append_left _ q)).trans hsub, ha'⟩

/-- the span of the expression is the extent of its (non-empty) run of tokens -/
theorem ESeg.extent {ts : List Token} {e : Expr} (h : ESeg ts e) (hok : TokOK ts) :
    ∃ seg : List Token, seg.Sublist ts ∧ ∃ hne : seg ≠ [],
      e.spanOf = ⟨(seg.head hne).start, (seg.getLast hne).stop⟩ := by
  obtain ⟨us, hu, seg, hsub, ha⟩ := h
  exact ⟨seg, hsub, C10.C10_span_extent_expr e us seg hu (hok.sublist hsub) ha⟩

/-- a literal node is one token of the list: same kind (unless `error`), value and span -/
theorem ESeg.lit {ts : List Token} {sp : Span} {k : TokKind} {v : Bytes} (h : ESeg ts (.lit sp k v)) :
    ∃ t ∈ ts, sp = t.span ∧ t.kind = k ∧ (k ≠ .error → t.value = v) := by
  obtain ⟨us, hu, seg, hsub, ha⟩ := h
  simp only [unparseExpr, Option.some.injEq] at hu
  subst hu
  cases seg with
  | nil => simp [accounts] at ha
  | cons t rest =>
    unfold accounts at ha
    split at ha
    · next hm =>
      simp only [Bool.not_true, Bool.false_or, Bool.and_eq_true] at hm
      refine ⟨t, hsub.subset (by simp), posMatches_span rfl rfl hm.2, ?_⟩
      have := hm.1
      simp only [tokMatches, List.isEmpty_nil, if_true, Bool.and_eq_true, beq_iff_eq,
        Bool.or_eq_true] at this
      refine ⟨this.1.symm, fun hk => ?_⟩
      rcases this.2 with h1 | h1
      · exact absurd h1 hk
      · exact h1.symm
    · simp at ha

end Pql.Glue
