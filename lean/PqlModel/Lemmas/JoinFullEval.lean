/-
C03 / C02, the general statement theorem, helper 4: the value of a link (`linkVal`), of a list of
links bound in order as common table expressions (`evalLinks`), and: the reference SQL evaluator
computes exactly that (`link_eval`, `runCtes_eq_evalLinks`).
-/
import PqlModel.Lemmas.JoinFullLink
namespace Pql.JoinFull
open Pql Sql CompileOracle Intended SplitQ SelSem C02

/-- the table a link's FROM clause denotes -/
def srcVal (db : DB) (E : List (Bytes × Table)) : SrcA → Table
  | .table n => lookupTable db E n
  | .join u l ln rn cond => JoinSem.joinTables u l (lookupTable db E ln) (lookupTable db E rn) cond

/-- the documented value of a link: its clauses (operator; sort; take) applied to what it reads -/
def linkVal (src : Bytes) (db : DB) (E : List (Bytes × Table)) (a : SubA) : Table :=
  subEvalA src db (srcVal db E a.source) a

/-- the links bound one after the other, each seeing the earlier ones -/
def evalLinks (src : Bytes) (db : DB) (E : List (Bytes × Table)) (links : List SubA) : List (Bytes × Table) :=
  links.foldl (fun acc a => acc ++ [(a.name, linkVal src db acc a)]) E

def isJoinSrc : SrcA → Bool
  | .join .. => true
  | .table _ => false

/-- the side conditions of one link: ORDER BY only where `canAttachSort` allows; the operator's
    aggregate side condition (`opOk`), and it is not a join; a join link carries no operator and its
    ORDER BY terms do not mention the join aliases -/
def linkOk (a : SubA) : Bool :=
  sortOkA a && (match a.op with | some o => opOk o && !isJoin o | none => true) &&
  (!isJoinSrc a.source || (a.op.isNone && (match a.sort with | some ts => aliasFreeTerms ts | none => true)))

/-- links whose evaluation needs rectangular tables: join links with an ORDER BY -/
def needsRect (a : SubA) : Bool := isJoinSrc a.source && a.sort.isSome

theorem linkOk_sort {a : SubA} (h : linkOk a = true) : sortOkA a = true := by
  simp only [linkOk, Bool.and_eq_true] at h; exact h.1.1

theorem linkOk_op {a : SubA} (h : linkOk a = true) (o : Op) (ho : a.op = some o) :
    opOk o = true ∧ isJoin o = false := by
  simp only [linkOk, Bool.and_eq_true, ho] at h
  exact ⟨h.1.2.1, by simpa using h.1.2.2⟩

theorem linkOk_join {a : SubA} (h : linkOk a = true) (hj : isJoinSrc a.source = true) :
    a.op = none ∧ ∀ ts, a.sort = some ts → aliasFreeTerms ts = true := by
  simp only [linkOk, Bool.and_eq_true, hj, Bool.not_true, Bool.false_or, Option.isNone_iff_eq_none] at h
  refine ⟨h.2.1, fun ts hts => ?_⟩
  have := h.2.2
  rw [hts] at this
  exact this

/-- **one link**: the SELECT of a link evaluates to the link's documented value -/
theorem link_eval (src : Bytes) (db : DB) (E : List (Bytes × Table)) (a : SubA) (sel : Select)
    (hsel : selOf src a = some sel) (hok : linkOk a = true)
    (hrect : needsRect a = true → RectDB db ∧ RectCtes E) :
    evalSelect db E sel = linkVal src db E a := by
  cases hs : a.source with
  | table n =>
    rw [C02_sel src db E a n sel hs hsel (linkOk_sort hok) (fun o ho => (linkOk_op hok o ho).1)]
    simp only [linkVal, hs, srcVal]
  | join u left l r cond =>
    obtain ⟨hop, hal⟩ := linkOk_join hok (by rw [hs]; rfl)
    rw [evalSelect_join_sort src db E a u left l r cond sel hs hop hsel hal]
    · simp only [linkVal, hs, srcVal, subEvalA, subClausesA, opPartA, hop, List.nil_append]
    · intro hsome
      obtain ⟨h1, h2⟩ := hrect (by simp only [needsRect, hs, isJoinSrc, hsome, Bool.and_self])
      exact Rect_lookup db E l h1 h2

theorem Rect_foldl_clauses (src : Bytes) (db : DB) : ∀ (cs : List Clause) (t : Table),
    (∀ c ∈ cs, ∀ o, c = .op o → isJoin o = false) → Rect t → Rect (cs.foldl (interpClause src db) t)
  | [], t, _, h => h
  | c :: cs, t, hc, h => by
    simp only [List.foldl_cons]
    exact Rect_foldl_clauses src db cs _ (fun c' hc' => hc c' (List.mem_cons_of_mem _ hc'))
      (Rect_interpClause src db t c (hc c (List.mem_cons_self ..)) h)

theorem Rect_linkVal (src : Bytes) (db : DB) (E : List (Bytes × Table)) (a : SubA) (hok : linkOk a = true)
    (hdb : RectDB db) (hE : RectCtes E) : Rect (linkVal src db E a) := by
  unfold linkVal subEvalA
  apply Rect_foldl_clauses
  · intro c hc o hco
    subst hco
    simp only [subClausesA, opPartA, sortTakeA, List.mem_append] at hc
    rcases hc with hc | hc | hc
    · cases hop : a.op with
      | none => simp [hop] at hc
      | some o' =>
        simp only [hop, List.mem_singleton, Clause.op.injEq] at hc
        subst hc
        exact (linkOk_op hok o hop).2
    · cases hso : a.sort <;> simp [hso] at hc
    · cases hta : a.take <;> simp [hta] at hc
  · cases hs : a.source with
    | table n => exact Rect_lookup db E n hdb hE
    | join u left l r cond =>
      exact Rect_joinTables u left _ _ cond (Rect_lookup db E l hdb hE) (Rect_lookup db E r hdb hE)

/-! ### lists of links -/

theorem evalLinks_nil (src : Bytes) (db : DB) (E : List (Bytes × Table)) : evalLinks src db E [] = E := rfl

theorem evalLinks_cons (src : Bytes) (db : DB) (E : List (Bytes × Table)) (a : SubA) (rest : List SubA) :
    evalLinks src db E (a :: rest) = evalLinks src db (E ++ [(a.name, linkVal src db E a)]) rest := rfl

theorem evalLinks_append (src : Bytes) (db : DB) (E : List (Bytes × Table)) (xs ys : List SubA) :
    evalLinks src db E (xs ++ ys) = evalLinks src db (evalLinks src db E xs) ys := by
  simp [evalLinks, List.foldl_append]

theorem evalLinks_snoc (src : Bytes) (db : DB) (E : List (Bytes × Table)) (xs : List SubA) (a : SubA) :
    evalLinks src db E (xs ++ [a]) =
      evalLinks src db E xs ++ [(a.name, linkVal src db (evalLinks src db E xs) a)] := by
  rw [evalLinks_append]; rfl

theorem evalLinks_names (src : Bytes) (db : DB) : ∀ (xs : List SubA) (E : List (Bytes × Table)),
    (evalLinks src db E xs).map (·.1) = E.map (·.1) ++ xs.map (·.name)
  | [], E => by simp [evalLinks]
  | a :: rest, E => by
    rw [evalLinks_cons, evalLinks_names src db rest]
    simp

theorem evalLinks_prefix (src : Bytes) (db : DB) : ∀ (xs : List SubA) (E : List (Bytes × Table)),
    ∃ more, evalLinks src db E xs = E ++ more
  | [], E => ⟨[], by simp [evalLinks]⟩
  | a :: rest, E => by
    obtain ⟨more, h⟩ := evalLinks_prefix src db rest (E ++ [(a.name, linkVal src db E a)])
    exact ⟨(a.name, linkVal src db E a) :: more, by rw [evalLinks_cons, h]; simp⟩

/-- **the CTE list**: binding the SELECTs of the links in order (the loop of `evalStatement`) binds every
    name to the documented value of its link -/
theorem runCtes_eq_evalLinks (src : Bytes) (db : DB) : ∀ (links : List SubA) (E : List (Bytes × Table))
    (sels : List (Bytes × Select)),
    links.mapM (JoinSem.linkSel src) = some sels → (∀ a ∈ links, linkOk a = true) →
    ((∀ a ∈ links, needsRect a = false) ∨ (RectDB db ∧ RectCtes E)) →
    JoinSem.runCtes db E sels = evalLinks src db E links
  | [], E, sels, hm, _, _ => by
    simp only [List.mapM_nil, pure, Option.some.injEq] at hm
    subst hm; rfl
  | a :: rest, E, sels, hm, hok, hrect => by
    simp only [List.mapM_cons, bind, Option.bind] at hm
    cases h1 : JoinSem.linkSel src a with
    | none => simp [h1] at hm
    | some x =>
      cases h2 : rest.mapM (JoinSem.linkSel src) with
      | none => simp [h1, h2] at hm
      | some xs =>
        simp only [h1, h2, pure, Option.some.injEq] at hm
        subst hm
        simp only [JoinSem.linkSel, bind, Option.bind, pure] at h1
        cases hsel : selOf src a with
        | none => simp [hsel] at h1
        | some sel =>
          simp only [hsel, Option.some.injEq] at h1
          subst h1
          have hv : evalSelect db E sel = linkVal src db E a := by
            apply link_eval src db E a sel hsel (hok a (List.mem_cons_self ..))
            intro hn
            rcases hrect with h | h
            · rw [h a (List.mem_cons_self ..)] at hn; cases hn
            · exact h
          have hstep : JoinSem.runCtes db E ((a.name, sel) :: xs) =
              JoinSem.runCtes db (E ++ [(a.name, evalSelect db E sel)]) xs := rfl
          rw [hstep, hv, evalLinks_cons]
          apply runCtes_eq_evalLinks src db rest _ xs h2 (fun b hb => hok b (List.mem_cons_of_mem _ hb))
          rcases hrect with h | h
          · exact .inl fun b hb => h b (List.mem_cons_of_mem _ hb)
          · exact .inr ⟨h.1, RectCtes_snoc h.2 _ _ (Rect_linkVal src db E a (hok a (List.mem_cons_self ..)) h.1 h.2)⟩

end Pql.JoinFull
