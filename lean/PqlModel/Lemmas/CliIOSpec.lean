/-
`CliSpec.run` unfolded into a closed form over the list of statement pieces:
per-statement records (`steps`), output = the SQL texts in statement order, error count =
number of failed records (+1 for a read error).  Lemmas for `C16_main_spec` and friends.

NEW SPECIFICATION-LEVEL DEFINITIONS: `Outcome`, `queryOutcome`, `outcome`, `Step`, `steps`,
`preludeAfter`, `sqlText`, `nFailed`, `finalOutcome`, `runPieces`.
-/
import PqlModel.Lemmas.CliLemmasLast
namespace Pql.CliIO
open Pql Pql.CliSpec

/-- what happens to one statement -/
inductive Outcome where
  | letOk                 -- a `let` that compiles (with the prelude and a dummy query): accepted
  | letFail               -- a `let` that does not: logged, NOT added to the prelude
  | sql (s : Bytes)       -- a query that compiles: `s`, newline, newline are written
  | queryFail             -- a query that does not: logged, nothing written
  deriving DecidableEq, Repr

def Outcome.failed : Outcome → Bool
  | .letFail | .queryFail => true
  | _ => false

def Outcome.sql? : Outcome → Option Bytes
  | .sql s => some s
  | _ => none

def Outcome.accepted : Outcome → Bool
  | .letOk => true
  | _ => false

/-- compile `stmt` as a query behind the prelude `lets` -/
def queryOutcome (compile : Bytes → Option Bytes) (lets stmt : Bytes) : Outcome :=
  match compile (lets ++ stmt) with
  | some s => .sql s
  | none => .queryFail

/-- one `;`-terminated statement behind the prelude `lets` -/
def outcome (compile : Bytes → Option Bytes) (lets stmt : Bytes) : Outcome :=
  if isLetStatement stmt then
    if (compile (lets ++ stmt ++ Bytes.ofString ";X")).isSome then .letOk else .letFail
  else queryOutcome compile lets stmt

/-- record of one processed statement: the prelude it was compiled with, its text, the result -/
structure Step where
  prelude : Bytes
  stmt : Bytes
  res : Outcome
  deriving DecidableEq, Repr

/-- the prelude after the records `tr`, starting from `lets`: the accepted lets, each followed
    by ";\n", in order -/
def preludeAfter (lets : Bytes) (tr : List Step) : Bytes :=
  lets ++ (tr.filter (·.res.accepted)).flatMap fun p => p.stmt ++ Bytes.ofString ";\n"

/-- the records of the terminated statements `ss`, starting with prelude `lets` -/
def steps (compile : Bytes → Option Bytes) (lets : Bytes) : List Bytes → List Step
  | [] => []
  | s :: ss =>
    let o := outcome compile lets s
    ⟨lets, s, o⟩ :: steps compile (if o.accepted then lets ++ s ++ Bytes.ofString ";\n" else lets) ss

/-- standard output: each SQL followed by a blank line, in order -/
def sqlText (os : List Outcome) : Bytes := (os.filterMap Outcome.sql?).flatMap (· ++ [10, 10])

def nFailed (os : List Outcome) : Nat := os.countP Outcome.failed

/-- the unterminated last piece: ignored iff it has no token, else compiled as a query -/
def finalOutcome (compile : Bytes → Option Bytes) (lets last : Bytes) : List Outcome :=
  if (scan last).isEmpty then [] else [queryOutcome compile lets last]

/-- all outcomes, in statement order -/
def allOutcomes (compile : Bytes → Option Bytes) (pieces : List Bytes) : List Outcome :=
  let tr := steps compile [] pieces.dropLast
  tr.map (·.res) ++ finalOutcome compile (preludeAfter [] tr) (pieces.getLast?.getD [])

/-- **closed form of the tool** as a function of the statement pieces -/
def runPieces (compile : Bytes → Option Bytes) (pieces : List Bytes) (readErr : Bool) :
    CliResult :=
  let all := allOutcomes compile pieces
  let n := nFailed all + (if readErr then 1 else 0)
  ⟨sqlText all, n, decide (n > 0)⟩

/-! ### `steps` -/

theorem steps_stmts (compile : Bytes → Option Bytes) (lets : Bytes) (ss : List Bytes) :
    (steps compile lets ss).map (·.stmt) = ss := by
  induction ss generalizing lets with
  | nil => rfl
  | cons s ss ih => simp [steps, ih]

theorem steps_length (compile : Bytes → Option Bytes) (lets : Bytes) (ss : List Bytes) :
    (steps compile lets ss).length = ss.length := by
  have := congrArg List.length (steps_stmts compile lets ss)
  simpa using this

theorem steps_res (compile : Bytes → Option Bytes) (lets : Bytes) (ss : List Bytes) :
    ∀ st ∈ steps compile lets ss, st.res = outcome compile st.prelude st.stmt := by
  induction ss generalizing lets with
  | nil => simp [steps]
  | cons s ss ih =>
    intro st hst
    simp only [steps, List.mem_cons] at hst
    rcases hst with rfl | hst
    · rfl
    · exact ih _ st hst

theorem preludeAfter_nil (lets : Bytes) : preludeAfter lets [] = lets := by
  simp [preludeAfter]

theorem preludeAfter_cons (lets : Bytes) (p : Step) (tr : List Step) :
    preludeAfter lets (p :: tr) =
      preludeAfter (if p.res.accepted then lets ++ p.stmt ++ Bytes.ofString ";\n" else lets) tr := by
  unfold preludeAfter
  by_cases h : p.res.accepted = true
  · simp [h]
  · simp [h]

theorem preludeAfter_append (lets : Bytes) (a b : List Step) :
    preludeAfter lets (a ++ b) = preludeAfter (preludeAfter lets a) b := by
  simp [preludeAfter, List.filter_append]

/-- the prelude of each record is exactly the accepted lets of the records before it -/
theorem steps_prelude (compile : Bytes → Option Bytes) (lets : Bytes) (ss : List Bytes)
    (pre post : List Step) (st : Step) (h : steps compile lets ss = pre ++ st :: post) :
    st.prelude = preludeAfter lets pre := by
  induction ss generalizing lets pre with
  | nil => simp [steps] at h
  | cons s ss ih =>
    simp only [steps] at h
    cases pre with
    | nil =>
      simp only [List.nil_append, List.cons.injEq] at h
      rw [← h.1, preludeAfter_nil]
    | cons p pre' =>
      simp only [List.cons_append, List.cons.injEq] at h
      rw [preludeAfter_cons, ← h.1]
      exact ih _ pre' h.2

theorem steps_append (compile : Bytes → Option Bytes) (lets : Bytes) (a b : List Bytes) :
    steps compile lets (a ++ b) =
      steps compile lets a ++ steps compile (preludeAfter lets (steps compile lets a)) b := by
  induction a generalizing lets with
  | nil => simp [steps, preludeAfter_nil]
  | cons s a ih =>
    simp only [List.cons_append, steps, ih, preludeAfter_cons]

/-! ### the specification's fold is the record list -/

theorem sqlText_append (a b : List Outcome) : sqlText (a ++ b) = sqlText a ++ sqlText b := by
  simp [sqlText, List.filterMap_append]

theorem nFailed_append (a b : List Outcome) : nFailed (a ++ b) = nFailed a + nFailed b := by
  simp [nFailed, List.countP_append]

theorem statement_eq (compile : Bytes → Option Bytes) (a : Acc) (s : Bytes) :
    statement compile a s =
      ⟨if (outcome compile a.lets s).accepted then a.lets ++ s ++ Bytes.ofString ";\n" else a.lets,
        a.out ++ sqlText [outcome compile a.lets s],
        a.nErrors + nFailed [outcome compile a.lets s]⟩ := by
  unfold statement outcome queryOutcome
  by_cases hl : isLetStatement s = true
  · simp only [hl, if_true]
    cases compile (a.lets ++ s ++ Bytes.ofString ";X") <;>
      simp [Outcome.accepted, sqlText, nFailed, Outcome.sql?, Outcome.failed]
  · simp only [hl]
    cases compile (a.lets ++ s) <;>
      simp [Outcome.accepted, sqlText, nFailed, Outcome.sql?, Outcome.failed]

theorem foldl_statement_eq (compile : Bytes → Option Bytes) (ss : List Bytes) (a : Acc) :
    ss.foldl (statement compile) a =
      ⟨preludeAfter a.lets (steps compile a.lets ss),
        a.out ++ sqlText ((steps compile a.lets ss).map (·.res)),
        a.nErrors + nFailed ((steps compile a.lets ss).map (·.res))⟩ := by
  induction ss generalizing a with
  | nil => simp [steps, preludeAfter_nil, sqlText, nFailed]
  | cons s ss ih =>
    rw [List.foldl_cons, ih, statement_eq]
    simp only [steps, preludeAfter_cons, List.map_cons]
    rw [show (outcome compile a.lets s :: List.map (·.res) (steps compile
        (if (outcome compile a.lets s).accepted = true then a.lets ++ s ++ Bytes.ofString ";\n"
          else a.lets) ss)) = [outcome compile a.lets s] ++ List.map (·.res) (steps compile
        (if (outcome compile a.lets s).accepted = true then a.lets ++ s ++ Bytes.ofString ";\n"
          else a.lets) ss) from rfl, sqlText_append, nFailed_append]
    simp [List.append_assoc, Nat.add_assoc]

/-- **The specification in closed form.** -/
theorem specFrom_eq_runPieces (compile : Bytes → Option Bytes) (text : Bytes) (readErr : Bool) :
    specFrom compile {} text readErr = runPieces compile (splitStatements text) readErr := by
  unfold specFrom specFinish runPieces allOutcomes finalOutcome lastPiece
  rw [foldl_statement_eq]
  simp only [List.nil_append, Nat.zero_add]
  generalize steps compile [] (splitStatements text).dropLast = tr
  generalize (splitStatements text).getLast?.getD [] = last
  by_cases hs : (scan last).isEmpty = true
  · cases readErr <;> simp [hs, sqlText, nFailed]
  · simp only [hs, Bool.false_eq_true, if_false, queryOutcome]
    cases hc : compile (preludeAfter [] tr ++ last) with
    | none =>
      cases readErr <;>
        simp [hc, sqlText, nFailed, Outcome.sql?, Outcome.failed]
      all_goals omega
    | some q =>
      cases readErr <;>
        simp [hc, sqlText, nFailed, Outcome.sql?, Outcome.failed]

theorem failed_not_accepted {o : Outcome} (h : o.failed = true) : o.accepted = false := by
  cases o <;> simp_all [Outcome.failed, Outcome.accepted]

theorem failed_no_sql {o : Outcome} (h : o.failed = true) : o.sql? = none := by
  cases o <;> simp_all [Outcome.failed, Outcome.sql?]

/-- with a `compile` that never fails no statement fails -/
theorem nFailed_of_total (compile : Bytes → Option Bytes) (h : ∀ x, (compile x).isSome = true)
    (pieces : List Bytes) : nFailed (allOutcomes compile pieces) = 0 := by
  have hq : ∀ l s, (queryOutcome compile l s).failed = false := by
    intro l s
    unfold queryOutcome
    have := h (l ++ s)
    cases hc : compile (l ++ s) with
    | none => rw [hc] at this; simp at this
    | some q => rfl
  have ho : ∀ l s, (outcome compile l s).failed = false := by
    intro l s
    unfold outcome
    split
    · simp [h, Outcome.failed]
    · exact hq l s
  unfold nFailed
  rw [List.countP_eq_zero]
  intro o hmem
  unfold allOutcomes finalOutcome at hmem
  rcases List.mem_append.mp hmem with hm | hm
  · obtain ⟨st, hst, rfl⟩ := List.mem_map.mp hm
    rw [steps_res compile [] _ st hst, ho]; simp
  · split at hm
    · simp at hm
    · simp only [List.mem_singleton] at hm
      rw [hm, hq]; simp

theorem getLast?_append_ne {α} (a b : List α) (h : b ≠ []) : (a ++ b).getLast? = b.getLast? := by
  rw [List.getLast?_append]
  cases hb : b.getLast? with
  | none => exact absurd (List.getLast?_eq_none_iff.mp hb) h
  | some x => rfl

theorem allOutcomes_insert_failed (compile : Bytes → Option Bytes) (pre post : List Bytes)
    (s : Bytes) (hpost : post ≠ [])
    (hf : (outcome compile (preludeAfter [] (steps compile [] pre)) s).failed = true) :
    ∃ A B, allOutcomes compile (pre ++ post) = A ++ B ∧
      allOutcomes compile (pre ++ s :: post) =
        A ++ outcome compile (preludeAfter [] (steps compile [] pre)) s :: B := by
  have hacc := failed_not_accepted hf
  have hd1 : (pre ++ s :: post).dropLast = pre ++ s :: post.dropLast := by
    rw [List.dropLast_append_of_ne_nil (by simp), List.dropLast_cons_of_ne_nil hpost]
  have hd2 : (pre ++ post).dropLast = pre ++ post.dropLast := by
    rw [List.dropLast_append_of_ne_nil hpost]
  have hl1 : (pre ++ s :: post).getLast? = post.getLast? := by
    rw [getLast?_append_ne pre (s :: post) (by simp), ← List.singleton_append, getLast?_append_ne [s] post hpost]
  have hl2 : (pre ++ post).getLast? = post.getLast? := by
    rw [getLast?_append_ne pre post hpost]
  refine ⟨(steps compile [] pre).map (·.res), ?_, ?_, ?_⟩
  rotate_left
  · unfold allOutcomes
    simp only [hd2, hl2, steps_append, List.map_append, List.append_assoc]
    rfl
  · unfold allOutcomes
    simp only [hd1, hl1, steps_append, steps, hacc, Bool.false_eq_true, if_false, List.map_append,
      List.map_cons, List.append_assoc, List.cons_append, preludeAfter_append, preludeAfter_cons]

theorem outcome_trichotomy (os : List Outcome) :
    os.length = (os.filterMap Outcome.sql?).length + os.countP Outcome.accepted + nFailed os := by
  induction os with
  | nil => rfl
  | cons o os ih =>
    cases o <;>
      simp [List.filterMap_cons, List.countP_cons, nFailed, Outcome.sql?, Outcome.accepted,
        Outcome.failed] at ih ⊢ <;> omega

end Pql.CliIO
