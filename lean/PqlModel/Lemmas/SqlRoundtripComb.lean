/-
ParseRoundtrip, stage (b): the SQL expression parser as a set of composable judgements.
`PE m ts s r` — with enough fuel `pExprS · m ts` returns `s` and leaves `r`; likewise `PT`
(trail), `PU` (unary), `PP` (postfix), `PA` (atom), `PC` (column tail), `PL` (list).  One lemma
per grammar production; all fuel arithmetic is confined to this file.
-/
import PqlModel.Lemmas.SqlRoundtripToks
namespace Pql.RT
set_option linter.unusedSimpArgs false
open Pql Sql

def PE (m : Nat) (ts : List STok) (s : SExpr) (r : List STok) : Prop :=
  ∃ N, ∀ n, N ≤ n → pExprS n m ts = some (s, r)
def PT (m : Nat) (x : SExpr) (ts : List STok) (s : SExpr) (r : List STok) : Prop :=
  ∃ N, ∀ n, N ≤ n → pTrailS n m x ts = some (s, r)
def PU (ts : List STok) (s : SExpr) (r : List STok) : Prop :=
  ∃ N, ∀ n, N ≤ n → pUnaryS n ts = some (s, r)
def PP (x : SExpr) (ts : List STok) (s : SExpr) (r : List STok) : Prop :=
  ∃ N, ∀ n, N ≤ n → pPostfixS n x ts = some (s, r)
def PA (ts : List STok) (s : SExpr) (r : List STok) : Prop :=
  ∃ N, ∀ n, N ≤ n → pAtomS n ts = some (s, r)
def PC (parts : List Bytes) (ts : List STok) (s : SExpr) (r : List STok) : Prop :=
  ∃ N, ∀ n, N ≤ n → pColTail n parts ts = some (s, r)
def PL (ts : List STok) (vs : SExprList) (r : List STok) : Prop :=
  ∃ N, ∀ n, N ≤ n → pListS n ts = some (vs, r)

/-- a property of the first token of what follows (nothing following is fine) -/
def Ends (p : STok → Bool) : List STok → Prop
  | [] => True
  | t :: _ => p t = true

/-- what may follow an atom: anything but `.` (column continuation), `FILTER` (aggregate filter)
    and `(` (a constant word followed by `(` is read as a function name) -/
def atomEndTok (t : STok) : Bool := !isSym t "." && !isWord t "FILTER" && !isSym t "("
/-- what may follow a signed term: additionally no `[` -/
def unaryEndTok (t : STok) : Bool := atomEndTok t && !isSym t "["
/-- a token that cannot continue an expression -/
def stopTok (t : STok) : Bool :=
  unaryEndTok t && (infixPrec t).isNone && !isWord t "IS" && !isWord t "IN"

theorem Ends.mono {p q : STok → Bool} (h : ∀ t, p t = true → q t = true) {r : List STok} (hr : Ends p r) :
    Ends q r := by
  cases r with
  | nil => trivial
  | cons t _ => exact h t hr

theorem stop_unaryEnd {r : List STok} (h : Ends stopTok r) : Ends unaryEndTok r :=
  h.mono fun t ht => by simp only [stopTok, Bool.and_eq_true] at ht; exact ht.1.1.1

theorem unaryEnd_atomEnd {r : List STok} (h : Ends unaryEndTok r) : Ends atomEndTok r :=
  h.mono fun t ht => by simp only [unaryEndTok, Bool.and_eq_true] at ht; exact ht.1

theorem atomEnd_filter {t : STok} (h : atomEndTok t = true) : isWord t "FILTER" = false := by
  simp only [atomEndTok, Bool.and_eq_true, Bool.not_eq_true'] at h; exact h.1.2

theorem atomEnd_lparen {t : STok} (h : atomEndTok t = true) : isSym t "(" = false := by
  simp only [atomEndTok, Bool.and_eq_true, Bool.not_eq_true'] at h; exact h.2

theorem succ_of_le {N n : Nat} (h : N + 1 ≤ n) : ∃ k, n = k + 1 ∧ N ≤ k := ⟨n - 1, by omega, by omega⟩

/-! ### trail -/

theorem T_stop {m : Nat} {x : SExpr} {r : List STok} (hr : Ends stopTok r) : PT m x r x r := by
  refine ⟨1, fun n hn => ?_⟩
  obtain ⟨k, rfl, _⟩ := succ_of_le hn
  cases r with
  | nil => simp only [pTrailS]
  | cons t rest =>
    simp only [Ends, stopTok, Bool.and_eq_true, Bool.not_eq_true', Option.isNone_iff_eq_none] at hr
    obtain ⟨⟨⟨_, h1⟩, h2⟩, h3⟩ := hr
    simp only [pTrailS, h1, h2, h3, Bool.false_and, Bool.false_eq_true, if_false]

theorem T_bin {m p : Nat} {op : String} {t : STok} {x y s : SExpr} {rest r1 r2 : List STok}
    (hop : infixPrec t = some (op, p)) (his : isWord t "IS" = false) (hin : isWord t "IN" = false)
    (hp : m ≤ p) (hy : PE (p + 1) rest y r1) (ht : PT m (.bin op x y) r1 s r2) : PT m x (t :: rest) s r2 := by
  obtain ⟨N1, h1⟩ := hy; obtain ⟨N2, h2⟩ := ht
  refine ⟨N1 + N2 + 1, fun n hn => ?_⟩
  obtain ⟨k, rfl, hk⟩ := succ_of_le hn
  have hlt : ¬ p < m := by omega
  simp only [pTrailS, his, hin, hop, Bool.false_and, Bool.false_eq_true, if_false, hlt,
    h1 k (by omega), h2 k (by omega)]

theorem T_low {m p : Nat} {op : String} {t : STok} {x : SExpr} {rest : List STok}
    (hop : infixPrec t = some (op, p)) (his : isWord t "IS" = false) (hin : isWord t "IN" = false)
    (hp : p < m) : PT m x (t :: rest) x (t :: rest) := by
  refine ⟨1, fun n hn => ?_⟩
  obtain ⟨k, rfl, _⟩ := succ_of_le hn
  simp only [pTrailS, his, hin, hop, Bool.false_and, Bool.false_eq_true, if_false, hp, if_true]

theorem T_isnull {m : Nat} {x s : SExpr} {r r2 : List STok} (hm : m ≤ 4)
    (ht : PT m (.isNull x false) r s r2) : PT m x (W "IS" :: W "NULL" :: r) s r2 := by
  obtain ⟨N, h⟩ := ht
  refine ⟨N + 1, fun n hn => ?_⟩
  obtain ⟨k, rfl, hk⟩ := succ_of_le hn
  simp [pTrailS, hm, h k hk]

theorem T_isnotnull {m : Nat} {x s : SExpr} {r r2 : List STok} (hm : m ≤ 4)
    (ht : PT m (.isNull x true) r s r2) : PT m x (W "IS" :: W "NOT" :: W "NULL" :: r) s r2 := by
  obtain ⟨N, h⟩ := ht
  refine ⟨N + 1, fun n hn => ?_⟩
  obtain ⟨k, rfl, hk⟩ := succ_of_le hn
  simp [pTrailS, hm, h k hk]

theorem T_in {m : Nat} {x s : SExpr} {vs : SExprList} {r1 r3 r' : List STok} (hm : m ≤ 4)
    (hl : PL r1 vs (S ")" :: r3)) (ht : PT m (.inList x vs) r3 s r') :
    PT m x (W "IN" :: S "(" :: r1) s r' := by
  obtain ⟨N1, h1⟩ := hl; obtain ⟨N2, h2⟩ := ht
  refine ⟨N1 + N2 + 1, fun n hn => ?_⟩
  obtain ⟨k, rfl, hk⟩ := succ_of_le hn
  simp [pTrailS, hm, h1 k (by omega), h2 k (by omega)]

/-! ### atoms -/

/-- words that are not operator words of the SQL expression grammar: exactly the words `pAtomS`
    reads as a function name when `(` follows -/
def wordSafe (w : Bytes) : Bool :=
  let u := upper w
  !(u == "CASE") && !operatorWords.contains u

theorem A_str {v : Bytes} {r : List STok} : PA (.str v :: r) (.str v) r :=
  ⟨1, fun n hn => by obtain ⟨k, rfl, _⟩ := succ_of_le hn; simp only [pAtomS]⟩

theorem A_num {v : Bytes} {r : List STok} : PA (.num v :: r) (.num v) r :=
  ⟨1, fun n hn => by obtain ⟨k, rfl, _⟩ := succ_of_le hn; simp only [pAtomS]⟩

theorem A_col {v : Bytes} {s : SExpr} {rest r : List STok} (h : PC [v] rest s r) : PA (.qid v :: rest) s r := by
  obtain ⟨N, h⟩ := h
  refine ⟨N + 1, fun n hn => ?_⟩
  obtain ⟨k, rfl, hk⟩ := succ_of_le hn
  simp only [pAtomS, h k hk]

theorem C_step {parts : List Bytes} {v : Bytes} {s : SExpr} {rest r : List STok}
    (h : PC (parts ++ [v]) rest s r) : PC parts (S "." :: .qid v :: rest) s r := by
  obtain ⟨N, h⟩ := h
  refine ⟨N + 1, fun n hn => ?_⟩
  obtain ⟨k, rfl, hk⟩ := succ_of_le hn
  simp [pColTail, h k hk]

theorem C_stop {parts : List Bytes} {r : List STok} (hr : Ends atomEndTok r) : PC parts r (.col parts) r := by
  refine ⟨1, fun n hn => ?_⟩
  obtain ⟨k, rfl, _⟩ := succ_of_le hn
  match r, hr with
  | [], _ => simp only [pColTail]
  | [t], _ => simp only [pColTail]
  | t :: .qid v :: rest, hr =>
    simp only [Ends, atomEndTok, Bool.and_eq_true, Bool.not_eq_true'] at hr
    simp only [pColTail, hr.1.1, Bool.false_eq_true, if_false]
  | t :: .word _ :: rest, _ => simp only [pColTail]
  | t :: .str _ :: rest, _ => simp only [pColTail]
  | t :: .num _ :: rest, _ => simp only [pColTail]
  | t :: .sym _ :: rest, _ => simp only [pColTail]
  | t :: .param _ :: rest, _ => simp only [pColTail]
  | t :: .comment :: rest, _ => simp only [pColTail]

theorem A_paren {ts r : List STok} {x : SExpr} (h : PE 0 ts x (S ")" :: r)) : PA (S "(" :: ts) x r := by
  obtain ⟨N, h⟩ := h
  refine ⟨N + 1, fun n hn => ?_⟩
  obtain ⟨k, rfl, hk⟩ := succ_of_le hn
  simp [pAtomS, h k hk]

theorem A_const {w : Bytes} {r : List STok}
    (hw : (upper w == "TRUE" || upper w == "FALSE" || upper w == "NULL" || upper w == "CURRENT_TIMESTAMP") = true)
    (hr : Ends atomEndTok r) : PA (.word w :: r) (.const (upper w)) r := by
  refine ⟨1, fun n hn => ?_⟩
  obtain ⟨k, rfl, _⟩ := succ_of_le hn
  cases r with
  | nil => simp only [pAtomS, hw, Bool.not_false, Bool.and_self, if_true]
  | cons t r' =>
    have := atomEnd_lparen hr
    simp only [pAtomS, hw, this, Bool.not_false, Bool.and_self, if_true]

theorem wordSafe_iff {w : Bytes} (hw : wordSafe w = true) :
    (upper w == "CASE") = false ∧ operatorWords.contains (upper w) = false := by
  simp only [wordSafe, Bool.and_eq_true, Bool.not_eq_true'] at hw
  exact ⟨hw.1, hw.2⟩

/-- `name()` -/
theorem A_call_empty {w : Bytes} {r : List STok} (hw : wordSafe w = true) (hr : Ends atomEndTok r) :
    PA (.word w :: S "(" :: S ")" :: r) (.call w false .nil .none_) r := by
  obtain ⟨h2, h3⟩ := wordSafe_iff hw
  have h3' : ¬ upper w ∈ operatorWords := by simpa using h3
  refine ⟨1, fun n hn => ?_⟩
  obtain ⟨k, rfl, _⟩ := succ_of_le hn
  match r, hr with
  | [], _ => simp [pAtomS, h2, h3']
  | [a], hr => simp [pAtomS, h2, h3']
  | [a, b], hr => simp [pAtomS, h2, h3']
  | a :: b :: c :: r', hr =>
    have := atomEnd_filter hr
    simp [pAtomS, h2, h3', this]

/-- a token that can start an expression is neither `)` nor `*` -/
def startTok (t : STok) : Bool := !isSym t ")" && !isSym t "*"

/-- `name(args)` -/
theorem A_call_args {w : Bytes} {t : STok} {tl r : List STok} {as : SExprList} (hw : wordSafe w = true)
    (ht : startTok t = true) (htl : tl ≠ []) (hl : PL (t :: tl) as (S ")" :: r)) (hr : Ends atomEndTok r) :
    PA (.word w :: S "(" :: t :: tl) (.call w false as .none_) r := by
  obtain ⟨h2, h3⟩ := wordSafe_iff hw
  have h3' : ¬ upper w ∈ operatorWords := by simpa using h3
  simp only [startTok, Bool.and_eq_true, Bool.not_eq_true'] at ht
  obtain ⟨N, hl⟩ := hl
  refine ⟨N + 1, fun n hn => ?_⟩
  obtain ⟨k, rfl, hk⟩ := succ_of_le hn
  obtain ⟨a, tl', rfl⟩ : ∃ a tl', tl = a :: tl' := by
    cases tl with
    | nil => exact absurd rfl htl
    | cons a tl' => exact ⟨a, tl', rfl⟩
  have hl := hl k hk
  match r, hr with
  | [], _ => simp [pAtomS, h2, h3', ht.1, ht.2, hl]
  | [a], hr => simp [pAtomS, h2, h3', ht.1, ht.2, hl]
  | [a, b], hr => simp [pAtomS, h2, h3', ht.1, ht.2, hl]
  | a :: b :: c :: r', hr =>
    have := atomEnd_filter hr
    simp [pAtomS, h2, h3', ht.1, ht.2, hl, this]

/-- `name() FILTER (WHERE c)` -/
theorem A_call_filter {w : Bytes} {r2 r4 : List STok} {c : SExpr} (hw : wordSafe w = true)
    (hc : PE 0 r2 c (S ")" :: r4)) :
    PA (.word w :: S "(" :: S ")" :: W "FILTER" :: S "(" :: W "WHERE" :: r2) (.call w false .nil c) r4 := by
  obtain ⟨h2, h3⟩ := wordSafe_iff hw
  have h3' : ¬ upper w ∈ operatorWords := by simpa using h3
  obtain ⟨N, hc⟩ := hc
  refine ⟨N + 1, fun n hn => ?_⟩
  obtain ⟨k, rfl, hk⟩ := succ_of_le hn
  simp [pAtomS, h2, h3', hc k hk]

/-- `CASE WHEN c THEN a ELSE b END` -/
theorem A_case {r1 r3 r5 r7 : List STok} {c a b : SExpr} (hc : PE 0 r1 c (W "THEN" :: r3))
    (ha : PE 0 r3 a (W "ELSE" :: r5)) (hb : PE 0 r5 b (W "END" :: r7)) :
    PA (W "CASE" :: W "WHEN" :: r1) (.case_ c a b) r7 := by
  obtain ⟨N1, hc⟩ := hc; obtain ⟨N2, ha⟩ := ha; obtain ⟨N3, hb⟩ := hb
  refine ⟨N1 + N2 + N3 + 1, fun n hn => ?_⟩
  obtain ⟨k, rfl, hk⟩ := succ_of_le hn
  simp [pAtomS, hc k (by omega), ha k (by omega), hb k (by omega)]

/-! ### lists -/

theorem L_one {ts r : List STok} {x : SExpr} (hx : PE 0 ts x r) (hr : Ends (fun t => !isSym t ",") r) :
    PL ts (.cons x .nil) r := by
  obtain ⟨N, hx⟩ := hx
  refine ⟨N + 1, fun n hn => ?_⟩
  obtain ⟨k, rfl, hk⟩ := succ_of_le hn
  cases r with
  | nil => simp [pListS, hx k hk]
  | cons t r' =>
    simp only [Ends, Bool.not_eq_true'] at hr
    simp [pListS, hx k hk, hr]

theorem L_cons {ts r2 r : List STok} {x : SExpr} {vs : SExprList} (hx : PE 0 ts x (S "," :: r2))
    (hl : PL r2 vs r) : PL ts (.cons x vs) r := by
  obtain ⟨N1, hx⟩ := hx; obtain ⟨N2, hl⟩ := hl
  refine ⟨N1 + N2 + 1, fun n hn => ?_⟩
  obtain ⟨k, rfl, hk⟩ := succ_of_le hn
  simp [pListS, hx k (by omega), hl k (by omega)]

/-! ### postfix -/

theorem P_stop {x : SExpr} {r : List STok} (hr : Ends unaryEndTok r) : PP x r x r := by
  refine ⟨1, fun n hn => ?_⟩
  obtain ⟨k, rfl, _⟩ := succ_of_le hn
  cases r with
  | nil => simp only [pPostfixS]
  | cons t r' =>
    simp only [Ends, unaryEndTok, Bool.and_eq_true, Bool.not_eq_true'] at hr
    simp only [pPostfixS, hr.2, Bool.false_eq_true, if_false]

theorem P_index {x i s : SExpr} {rest r2 r' : List STok} (hi : PE 0 rest i (S "]" :: r2))
    (hp : PP (.index x i) r2 s r') : PP x (S "[" :: rest) s r' := by
  obtain ⟨N1, hi⟩ := hi; obtain ⟨N2, hp⟩ := hp
  refine ⟨N1 + N2 + 1, fun n hn => ?_⟩
  obtain ⟨k, rfl, hk⟩ := succ_of_le hn
  simp [pPostfixS, hi k (by omega), hp k (by omega)]

/-! ### unary -/

theorem pAtomS_head {n : Nat} {t : STok} {tl : List STok} {res : SExpr × List STok}
    (h : pAtomS n (t :: tl) = some res) :
    isSym t "-" = false ∧ isSym t "+" = false ∧ isSym t ")" = false ∧ isSym t "*" = false ∧
      isWord t "NOT" = false := by
  cases n with
  | zero => simp [pAtomS] at h
  | succ k =>
    cases t with
    | sym s =>
      by_cases hs : s = "("
      · subst hs; simp
      · simp [pAtomS, hs] at h
    | word w =>
      refine ⟨rfl, rfl, rfl, rfl, ?_⟩
      simp only [isWord_word]
      by_cases hN : upper w = "NOT"
      · simp [pAtomS, hN, operatorWords] at h
      · simpa using hN
    | comment => simp [pAtomS] at h
    | _ => simp

theorem U_atom {ts r r' : List STok} {x s : SExpr} (ha : PA ts x r) (hp : PP x r s r') : PU ts s r' := by
  obtain ⟨N1, ha⟩ := ha; obtain ⟨N2, hp⟩ := hp
  refine ⟨N1 + N2 + 1, fun n hn => ?_⟩
  obtain ⟨k, rfl, hk⟩ := succ_of_le hn
  have ha := ha k (by omega)
  cases ts with
  | nil => cases k <;> simp [pAtomS] at ha
  | cons t tl =>
    obtain ⟨h1, h2, _⟩ := pAtomS_head ha
    simp only [pUnaryS, h1, h2, Bool.false_eq_true, if_false, ha, hp k (by omega)]

theorem U_neg {ts r : List STok} {x : SExpr} (hu : PU ts x r) : PU (S "-" :: ts) (.neg x) r := by
  obtain ⟨N, hu⟩ := hu
  refine ⟨N + 1, fun n hn => ?_⟩
  obtain ⟨k, rfl, hk⟩ := succ_of_le hn
  simp [pUnaryS, hu k hk]

theorem U_pos {ts r : List STok} {x : SExpr} (hu : PU ts x r) : PU (S "+" :: ts) (.pos x) r := by
  obtain ⟨N, hu⟩ := hu
  refine ⟨N + 1, fun n hn => ?_⟩
  obtain ⟨k, rfl, hk⟩ := succ_of_le hn
  simp [pUnaryS, hu k hk]

theorem pUnaryS_head {n : Nat} {ts : List STok} {res : SExpr × List STok} (h : pUnaryS n ts = some res) :
    ∃ t tl, ts = t :: tl ∧ startTok t = true ∧ isWord t "NOT" = false := by
  cases n with
  | zero => simp [pUnaryS] at h
  | succ k =>
    cases ts with
    | nil => simp [pUnaryS] at h
    | cons t tl =>
      refine ⟨t, tl, rfl, ?_⟩
      by_cases hm : isSym t "-" = true
      · cases t <;> simp_all [startTok]
      · by_cases hp : isSym t "+" = true
        · cases t <;> simp_all [startTok]
        · simp only [pUnaryS, hm, hp, if_false] at h
          cases ha : pAtomS k (t :: tl) with
          | none => simp [ha] at h
          | some res' =>
            obtain ⟨_, _, h3, h4, h5⟩ := pAtomS_head ha
            simp [startTok, h3, h4, h5]

/-! ### expressions -/

theorem E_unary {m : Nat} {ts r r' : List STok} {x s : SExpr} (hu : PU ts x r) (ht : PT m x r s r') :
    PE m ts s r' := by
  obtain ⟨N1, hu⟩ := hu; obtain ⟨N2, ht⟩ := ht
  refine ⟨N1 + N2 + 1, fun n hn => ?_⟩
  obtain ⟨k, rfl, hk⟩ := succ_of_le hn
  have hu := hu k (by omega)
  obtain ⟨t, tl, rfl, _, hnot⟩ := pUnaryS_head hu
  simp only [pExprS, hnot, Bool.false_and, Bool.false_eq_true, if_false, hu, ht k (by omega)]

/-- `NOT x` (the keyword in any letter case) -/
theorem E_not_word {m : Nat} {w : Bytes} {rest r r' : List STok} {x s : SExpr} (hw : upper w = "NOT") (hm : m ≤ 3)
    (hx : PE 3 rest x r) (ht : PT m (.not_ x) r s r') : PE m (.word w :: rest) s r' := by
  obtain ⟨N1, hx⟩ := hx; obtain ⟨N2, ht⟩ := ht
  refine ⟨N1 + N2 + 1, fun n hn => ?_⟩
  obtain ⟨k, rfl, hk⟩ := succ_of_le hn
  simp [pExprS, hw, hm, hx k (by omega), ht k (by omega)]

theorem E_not {m : Nat} {rest r r' : List STok} {x s : SExpr} (hm : m ≤ 3) (hx : PE 3 rest x r)
    (ht : PT m (.not_ x) r s r') : PE m (W "NOT" :: rest) s r' := E_not_word up_NOT hm hx ht

/-- a judgement determines its result -/
theorem PE.unique {m : Nat} {ts r r' : List STok} {s s' : SExpr} (h : PE m ts s r) (h' : PE m ts s' r') :
    s = s' ∧ r = r' := by
  obtain ⟨N, h⟩ := h; obtain ⟨N', h'⟩ := h'
  have := (h (N + N') (by omega)).symm.trans (h' (N + N') (by omega))
  simpa using this

theorem PE_head {m : Nat} {ts r : List STok} {s : SExpr} (h : PE m ts s r) :
    ∃ t tl, ts = t :: tl ∧ startTok t = true := by
  obtain ⟨N, h⟩ := h
  have h := h (N + 1) (by omega)
  cases ts with
  | nil => simp [pExprS] at h
  | cons t tl =>
    refine ⟨t, tl, rfl, ?_⟩
    by_cases hn : (isWord t "NOT" && decide (m ≤ 3)) = true
    · cases t <;> simp_all [startTok]
    · simp only [pExprS, hn, if_false] at h
      cases hu : pUnaryS N (t :: tl) with
      | none => simp [hu] at h
      | some res =>
        obtain ⟨t', tl', heq, hs, _⟩ := pUnaryS_head hu
        cases heq; exact hs

end Pql.RT
