/-
Implicit column names, part 2: `Subquery.write`, `writeCtes` and the assembly of the statement write a
named query like the original one, whenever they succeed on the original.
-/
import PqlModel.Lemmas.E2EMoreNames
namespace Pql.E2EMore
set_option linter.unusedSimpArgs false
open Pql Pql.Params Pql.Rel

theorem nameColumn_x (src : Bytes) (c : Column) : (nameColumn src c).x = c.x := by
  unfold nameColumn; cases c.name <;> rfl

theorem columnAlias_name (ctx : Ctx) (c : Column) (a : List Chunk) (h : columnAlias ctx c = .ok a) :
    columnAlias ctx (nameColumn ctx.src c) = .ok a := by
  unfold nameColumn
  cases hn : c.name with
  | some n => simp only; exact h
  | none =>
    simp only [columnAlias, hn] at h ⊢
    unfold sliceSource at h
    split at h
    · rename_i hr
      simp only [bind, Except.bind, pure, Except.pure, Except.ok.injEq] at h
      subst h
      simp only [colName, hn, hr.1, hr.2.1, and_self, if_true]
    · cases h

theorem writeColumns_name (ctx : Ctx) : ∀ (cs : List Column) (r : List (List Chunk)),
    writeColumns ctx cs = .ok r → writeColumns ctx (cs.map (nameColumn ctx.src)) = .ok r
  | [], r, h => h
  | c :: cs, r, h => by
    simp only [writeColumns, List.map_cons, nameColumn_x] at h ⊢
    cases hx : writeExpr ctx c.x with
    | error e => rw [hx] at h; cases h
    | ok x =>
      rw [hx] at h
      simp only [bind, Except.bind] at h ⊢
      cases ha : columnAlias ctx c with
      | error e => rw [ha] at h; cases h
      | ok a =>
        rw [ha] at h
        rw [columnAlias_name ctx c a ha]
        simp only at h ⊢
        cases hr : writeColumns ctx cs with
        | error e => rw [hr] at h; cases h
        | ok rest =>
          rw [hr] at h
          rw [writeColumns_name ctx cs rest hr]
          exact h

theorem mapM_name (ctx : Ctx) (gs : List Column) :
    (gs.map (nameColumn ctx.src)).mapM (fun (c : Column) => writeExpr ctx c.x) =
      gs.mapM (fun (c : Column) => writeExpr ctx c.x) := by
  rw [List.mapM_map]
  congr 1
  funext c
  simp only [Function.comp, nameColumn_x]

/-- **a named subquery is written like the original one** -/
theorem write_name (ctx : Ctx) (s : Subquery) (b : List Chunk) (h : s.write ctx = .ok b) :
    (nameS ctx.src s).write ctx = .ok b := by
  obtain ⟨name, source, op, sort, take⟩ := s
  cases op with
  | none => exact h
  | some o =>
    cases o with
    | extend p k cols =>
      simp only [nameS, Option.map_some, nameOp]
      unfold Subquery.write at h ⊢
      simp only [bind, Except.bind] at h ⊢
      cases hw : writeColumns ctx cols with
      | error e => simp only [hw] at h; cases h
      | ok cs =>
        simp only [hw] at h
        simp only [writeColumns_name ctx cols cs hw]
        exact h
    | summarize p k cols by_ gs =>
      simp only [nameS, Option.map_some, nameOp]
      unfold Subquery.write at h ⊢
      simp only [bind, Except.bind, mapM_name, List.isEmpty_map] at h ⊢
      cases hg : writeColumns ctx gs with
      | error e => simp only [hg] at h; cases h
      | ok g =>
        simp only [hg] at h
        simp only [writeColumns_name ctx gs g hg]
        cases hw : writeColumns ctx cols with
        | error e => simp only [hw] at h; cases h
        | ok cs =>
          simp only [hw] at h
          simp only [writeColumns_name ctx cols cs hw]
          exact h
    | _ => exact h

theorem writeCtes_name (ctx : Ctx) : ∀ (subs : List Subquery) (r : List Chunk),
    writeCtes ctx subs = .ok r → writeCtes ctx (subs.map (nameS ctx.src)) = .ok r
  | [], r, h => h
  | [s], r, h => by
    simp only [writeCtes, List.map_cons, List.map_nil, bind, Except.bind] at h ⊢
    cases hw : s.write ctx with
    | error e => simp only [hw] at h; cases h
    | ok b =>
      simp only [hw] at h
      simp only [write_name ctx s b hw]
      exact h
  | s :: s2 :: rest, r, h => by
    simp only [writeCtes, List.map_cons, bind, Except.bind] at h ⊢
    cases hw : s.write ctx with
    | error e => simp only [hw] at h; cases h
    | ok b =>
      simp only [hw] at h
      simp only [write_name ctx s b hw]
      cases hr : writeCtes ctx (s2 :: rest) with
      | error e => simp only [hr] at h; cases h
      | ok r' =>
        simp only [hr] at h
        have := writeCtes_name ctx (s2 :: rest) r' hr
        simp only [List.map_cons] at this
        simp only [this]
        exact h

/-- **the statement of a named query is the statement of the query** -/
theorem finishChunks_name (src : Bytes) (sc : Scope) (t : Tabular) (cs : List Chunk)
    (h : C14.finishChunks src sc (some t) = .ok cs) :
    C14.finishChunks src sc (some (nameTabular src t)) = .ok cs := by
  unfold C14.finishChunks at h ⊢
  have hs := splitQueries_name src sc t []
  simp only [List.map_nil] at hs
  simp only [hs]
  cases hq : splitQueries src sc [] t with
  | error e => simp only [hq, bind, Except.bind] at h; cases h
  | ok subs =>
    simp only [hq, bind, Except.bind, exmap_ok] at h ⊢
    rw [← List.map_reverse]
    cases hr : subs.reverse with
    | nil => simp only [hr] at h; cases h
    | cons query ctesRev =>
      simp only [hr, List.map_cons, ← List.map_reverse, List.isEmpty_map] at h ⊢
      have hctx : (⟨src, sc, .default⟩ : Ctx).src = src := rfl
      by_cases he : ctesRev.reverse.isEmpty = true
      · simp only [he, if_true, pure, Except.pure] at h ⊢
        cases hw : query.write ⟨src, sc, .default⟩ with
        | error e => simp only [hw] at h; cases h
        | ok b =>
          simp only [hw] at h
          have := write_name ⟨src, sc, .default⟩ query b hw
          simp only [hctx] at this
          simp only [this]
          exact h
      · simp only [he, if_false, Bool.false_eq_true, pure, Except.pure] at h ⊢
        cases hc : writeCtes ⟨src, sc, .default⟩ ctesRev.reverse with
        | error e => simp only [hc] at h; cases h
        | ok c =>
          simp only [hc] at h
          have hc' := writeCtes_name ⟨src, sc, .default⟩ _ c hc
          simp only [hctx] at hc'
          simp only [hc']
          cases hw : query.write ⟨src, sc, .default⟩ with
          | error e => simp only [hw] at h; cases h
          | ok b =>
            simp only [hw] at h
            have := write_name ⟨src, sc, .default⟩ query b hw
            simp only [hctx] at this
            simp only [this]
            exact h

end Pql.E2EMore
