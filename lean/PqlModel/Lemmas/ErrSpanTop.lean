/-
`ResIn P` (see ErrSpanLemmas.lean) for the tabular block (`pTabular` / `pOps` / `pOperator` /
`pJoin`), and `ErrsIn P` for `pStatement`, `pStatements` and `parseTokens`.
-/
import PqlModel.Lemmas.ErrSpanOps
namespace Pql

/-- the result of `pOperator`, if any, stays inside `P` -/
def OptIn (P : Span → Prop) : Option (PRes Op) → Prop
  | none => True
  | some r => ResIn P r

structure TabIn (P : Span → Prop) (c : PCtx) (fuel : Nat) : Prop where
  tabular : ∀ ts, ToksIn P ts → ResIn P (pTabular c fuel ts)
  ops : ∀ ops acc ts, ErrsIn P acc → ToksIn P ts → ResIn P (pOps c fuel ops acc ts)
  operator : ∀ pipe name ts, P name.span → ToksIn P ts → OptIn P (pOperator c fuel pipe name ts)
  join : ∀ pipe kw ts, ToksIn P ts → ResIn P (pJoin c fuel pipe kw ts)

section
variable {P : Span → Prop} {c : PCtx}

theorem TabIn.zero : TabIn P c 0 := by
  constructor <;> intros <;> simp only [pTabular, pOps, pOperator, pJoin, OptIn] <;> in_leaf

theorem pTabular_in_step (hP : P c.eof) (fuel : Nat) (ih : TabIn P c fuel) (ts : List Token)
    (ht : ToksIn P ts) : ResIn P (pTabular c (fuel + 1) ts) := by
  obtain ⟨hie, hir⟩ := pIdent_in hP ts ht
  simp only [pTabular]
  split
  · in_leaf
  · obtain ⟨h1e, h1r⟩ := ih.ops .nil [] (pIdent c ts).rest (by simp) hir
    in_leaf

theorem pOps_in_step (fuel : Nat) (ih : TabIn P c fuel) (ops : OpList) (acc : Errs)
    (ts : List Token) (hacc : ErrsIn P acc) (ht : ToksIn P ts) :
    ResIn P (pOps c (fuel + 1) ops acc ts) := by
  simp only [pOps]
  split
  · in_leaf
  · rename_i pipeTok rest
    obtain ⟨hpipe, hrest⟩ := (ToksIn_cons pipeTok rest).mp ht
    have h1 := hrest.split1 (k := .pipe)
    have h2 := hrest.split2 (k := .pipe)
    split
    · in_leaf
    · split
      · exact ih.ops _ _ _ (by in_leaf) h2
      · rename_i name opToks heq
        rw [heq] at h1
        obtain ⟨hname, hop⟩ := (ToksIn_cons name opToks).mp h1
        split
        · exact ih.ops _ _ _ (by in_leaf) h2
        · have hopr := ih.operator pipeTok.span name opToks hname hop
          split
          · exact ih.ops _ _ _ (by in_leaf) h2
          · rename_i r hr
            rw [hr] at hopr
            have hopr : ResIn P r := hopr
            refine ih.ops _ _ _ ?_ h2
            rw [List.append_assoc, ErrsIn_append, ErrsIn_append]
            exact ⟨hacc, hopr.errs, ErrsIn_endSplit hopr.rest⟩

theorem ResIn.opaque {α : Type} {r : PRes α} (h : ResIn P r) (v : Op) :
    ResIn P (PRes.mk v (mkOpaque r.errs) r.rest) :=
  ⟨(ErrsIn_mkOpaque _).mpr h.errs, h.rest⟩

theorem ResIn.val {α β : Type} {r : PRes α} (h : ResIn P r) (v : β) :
    ResIn P (PRes.mk v r.errs r.rest) := ⟨h.errs, h.rest⟩

theorem pOperator_in_step (hP : P c.eof) (fuel : Nat) (ih : TabIn P c fuel) (pipe : Span)
    (name : Token) (ts : List Token) (hname : P name.span) (ht : ToksIn P ts) :
    OptIn P (pOperator c (fuel + 1) pipe name ts) := by
  generalize ho : pOperator c (fuel + 1) pipe name ts = o
  rw [pOperator.eq_def] at ho
  dsimp only at ho
  by_cases h1 : (name.value == Bytes.ofString "count") = true
  · rw [if_pos h1] at ho; subst ho; exact ⟨by simp, ht⟩
  rw [if_neg h1] at ho
  by_cases h2 : (name.value == Bytes.ofString "where" || name.value == Bytes.ofString "filter") = true
  · rw [if_pos h2] at ho; subst ho; exact (pExpr_in hP fuel ts ht).opaque _
  rw [if_neg h2] at ho
  by_cases h3 : (name.value == Bytes.ofString "sort" || name.value == Bytes.ofString "order") = true
  · rw [if_pos h3] at ho
    split at ho
    · subst ho; show ResIn P _; in_leaf
    · rename_i by_ rest
      obtain ⟨hby, hrest⟩ := (ToksIn_cons by_ rest).mp ht
      split at ho
      · subst ho; show ResIn P _; in_leaf
      · subst ho; exact (pSortTerms_in hP fuel _ _ _ hrest).val _
  rw [if_neg h3] at ho
  by_cases h4 : (name.value == Bytes.ofString "take" || name.value == Bytes.ofString "limit") = true
  · rw [if_pos h4] at ho; subst ho; exact (pRowCount_in hP fuel ts ht).opaque _
  rw [if_neg h4] at ho
  by_cases h5 : (name.value == Bytes.ofString "top") = true
  · rw [if_pos h5] at ho
    have hr := pRowCount_in hP fuel ts ht
    split at ho
    · subst ho; exact hr.opaque _
    · split at ho
      · subst ho; show ResIn P _; in_leaf
      · rename_i by_ rest heq
        have hrr := hr.rest
        rw [heq] at hrr
        obtain ⟨hby, hrest⟩ := (ToksIn_cons by_ rest).mp hrr
        split at ho
        · subst ho; exact ⟨(ErrsIn_errAt _).mpr hby, hr.rest⟩
        · subst ho; exact (pSortTerm_in hP fuel rest hrest).opaque _
  rw [if_neg h5] at ho
  by_cases h6 : (name.value == Bytes.ofString "project") = true
  · rw [if_pos h6] at ho; subst ho
    exact (pProjectCols_in hP fuel _ _ _ ht).val _
  rw [if_neg h6] at ho
  by_cases h7 : (name.value == Bytes.ofString "extend") = true
  · rw [if_pos h7] at ho; subst ho
    exact (pExtendCols_in hP fuel _ _ _ ht).val _
  rw [if_neg h7] at ho
  by_cases h8 : (name.value == Bytes.ofString "summarize") = true
  · rw [if_pos h8] at ho; subst ho
    exact pSummarize_in hP fuel pipe name.span ts ht
  rw [if_neg h8] at ho
  by_cases h9 : (name.value == Bytes.ofString "join") = true
  · rw [if_pos h9] at ho; subst ho
    exact ih.join pipe name.span ts ht
  rw [if_neg h9] at ho
  by_cases h10 : (name.value == Bytes.ofString "as") = true
  · rw [if_pos h10] at ho; subst ho
    exact (pIdent_in hP ts ht).opaque _
  rw [if_neg h10] at ho
  by_cases h11 : (name.value == Bytes.ofString "render") = true
  · rw [if_pos h11] at ho; subst ho
    exact pRender_in hP fuel pipe name.span hname ts ht
  rw [if_neg h11] at ho
  subst ho; trivial

theorem pJoin_in_step (hP : P c.eof) (fuel : Nat) (ih : TabIn P c fuel) (pipe kw : Span)
    (ts : List Token) (ht : ToksIn P ts) : ResIn P (pJoin c (fuel + 1) pipe kw ts) := by
  simp only [pJoin]
  split
  · in_leaf
  · rename_i t0 rest0
    obtain ⟨ht0, hrest0⟩ := (ToksIn_cons t0 rest0).mp ht
    split
    · -- the header already failed
      rename_i r heq
      split at heq
      · split at heq
        · cases heq; in_leaf
        · split at heq
          · cases heq; in_leaf
          · split at heq
            · cases heq; in_leaf
            · split at heq
              · cases heq; in_leaf
              · cases heq
      · cases heq
    · in_leaf
    · rename_i kind ka fl e0 rest heq
      have hh : ErrsIn P e0 ∧ ToksIn P rest := by
        split at heq
        · split at heq
          · cases heq
          · split at heq
            · cases heq
            · split at heq
              · cases heq
              · split at heq
                · cases heq
                · simp only [Sum.inl.injEq, Option.some.injEq, Prod.mk.injEq] at heq
                  obtain ⟨_, _, _, rfl, rfl⟩ := heq
                  constructor
                  · split
                    · simp
                    · in_leaf
                  · in_leaf
        · simp only [Sum.inl.injEq, Option.some.injEq, Prod.mk.injEq] at heq
          obtain ⟨_, _, _, rfl, rfl⟩ := heq
          exact ⟨by simp, ht⟩
      obtain ⟨he0, hrest⟩ := hh
      split
      · in_leaf
      · rename_i lp rest1
        obtain ⟨hlp, hrest1⟩ := (ToksIn_cons lp rest1).mp hrest
        split
        · in_leaf
        · have hr := ih.tabular _ (hrest1.split1 (k := .rparen))
          have h2 := hrest1.split2 (k := .rparen)
          have he1 : ErrsIn P (e0 ++ mkOpaque (pTabular c fuel (split .rparen rest1).1).errs ++
              endSplit (pTabular c fuel (split .rparen rest1).1).rest) := by
            rw [List.append_assoc, ErrsIn_append]
            exact ⟨he0, ErrsIn_sub hr⟩
          split
          · exact ⟨(ErrsIn_append _ _).mpr ⟨he1, (ErrsIn_errAt _).mpr hP⟩, by simp⟩
          · rename_i rp rest2 heq2
            rw [heq2] at h2
            obtain ⟨hrp, hrest2⟩ := (ToksIn_cons rp rest2).mp h2
            split
            · exact ⟨(ErrsIn_append _ _).mpr ⟨he1, (ErrsIn_errAt _).mpr hrp⟩, hrest2⟩
            · split
              · exact ⟨(ErrsIn_append _ _).mpr ⟨he1, (ErrsIn_errAt _).mpr hP⟩, by simp⟩
              · rename_i on rest3
                obtain ⟨hon, hrest3⟩ := (ToksIn_cons on rest3).mp hrest2
                split
                · exact ⟨(ErrsIn_append _ _).mpr ⟨he1, (ErrsIn_errAt _).mpr hon⟩, hrest3⟩
                · have hc := pExprList_in hP fuel rest3 hrest3
                  exact ⟨(ErrsIn_append _ _).mpr ⟨he1, (ErrsIn_mkOpaque _).mpr hc.errs⟩, hc.rest⟩

theorem tabIn (hP : P c.eof) (fuel : Nat) : TabIn P c fuel := by
  induction fuel with
  | zero => exact TabIn.zero
  | succ fuel ih =>
    exact
      { tabular := pTabular_in_step hP fuel ih
        ops := pOps_in_step fuel ih
        operator := pOperator_in_step hP fuel ih
        join := pJoin_in_step hP fuel ih }

theorem pTabular_in (hP : P c.eof) (fuel : Nat) (ts : List Token) (ht : ToksIn P ts) :
    ResIn P (pTabular c fuel ts) := (tabIn hP fuel).tabular ts ht

/-! ### statements -/

theorem pStatement_in (hP : P c.eof) (ts : List Token) (ht : ToksIn P ts) :
    ErrsIn P (pStatement c ts).2.1 := by
  have hl := pLet_in hP (fuelFor ts.length) ts ht
  have htab := pTabular_in hP (fuelFor ts.length) ts ht
  unfold pStatement
  extract_lets fuel rl rt first
  have hfirst : ResIn P first := by
    simp only [first]
    split
    · exact hl
    · split
      · exact ⟨htab.errs, htab.rest⟩
      · exact ⟨htab.errs, htab.rest⟩
  obtain ⟨hfe, hfr⟩ := hfirst
  split
  · split
    · simp
    · rename_i t rest heq
      rw [heq] at hfr
      simp only [ErrsIn_append, ErrsIn_errAt]
      exact ⟨hfe, ((ToksIn_cons t rest).mp hfr).1⟩
  · simp only [ErrsIn_append, ErrsIn_mkOpaque]
    exact ⟨hfe, ErrsIn_endSplit hfr⟩

theorem pStatements_in (hP : P c.eof) : ∀ (n : Nat) (acc : List Stmt) (errs : Errs)
    (ts : List Token), ErrsIn P errs → ToksIn P ts → ErrsIn P (pStatements c n acc errs ts).2 := by
  intro n
  induction n with
  | zero => intro acc errs ts he ht; simp only [pStatements]; in_leaf
  | succ n ih =>
    intro acc errs ts he ht
    have h1 := pStatement_in hP _ (ht.splitSemi1)
    have h2 := ht.splitSemi2
    simp only [pStatements]
    have herrs : ErrsIn P (if (pStatement c (splitSemi ts).1).2.2 = true then
        (pStatement c (splitSemi ts).1).2.1 else errs ++ (pStatement c (splitSemi ts).1).2.1) := by
      split
      · exact h1
      · exact (ErrsIn_append _ _).mpr ⟨he, h1⟩
    split
    · exact herrs
    · rename_i t rest heq
      rw [heq] at h2
      exact ih _ _ _ herrs ((ToksIn_cons t rest).mp h2).2

/-- every positioned error leaf of `Parse` on a token list is at a token of the list or at the
    EOF index -/
theorem parseTokens_in (srcLen : Nat) (ts : List Token) (hP : P (Span.index srcLen))
    (ht : ToksIn P ts) : ErrsIn P (parseTokens srcLen ts).2 := by
  unfold parseTokens
  exact pStatements_in (c := ⟨srcLen⟩) hP _ _ _ _ (by simp) ht

end

end Pql
