/-
Every token of a (well-grouped) expression has an expression kind: no `=`, `|`, `;`, `by`.
-/
import PqlModel.Lemmas.ForwardSplit
namespace Pql
open Grammar

/-- the token kinds that occur in expressions -/
def exprKind (k : TokKind) : Bool :=
  k != .assign && k != .pipe && k != .semi && k != .by_ && k != .error

def AllExprKind (ts : List Token) : Prop := ∀ t ∈ ts, exprKind t.kind = true

theorem allExprKind_nil : AllExprKind [] := by intro t ht; cases ht

theorem allExprKind_append {a b : List Token} (ha : AllExprKind a) (hb : AllExprKind b) :
    AllExprKind (a ++ b) := by
  intro t ht
  rcases List.mem_append.1 ht with h | h
  · exact ha t h
  · exact hb t h

theorem allExprKind_single {t : Token} (h : exprKind t.kind = true) : AllExprKind [t] := by
  intro t' ht'
  simp only [List.mem_singleton] at ht'
  subst ht'; exact h

theorem allExprKind_kind {t : Token} {k : TokKind} (hk : t.kind = k) (h : exprKind k = true := by decide) :
    AllExprKind [t] := allExprKind_single (hk ▸ h)

theorem isIdentTok_exprKind {i : Ident} {t : Token} (h : IsIdentTok i t) : AllExprKind [t] := by
  rcases h.1 with hk | hk
  · exact allExprKind_kind hk
  · exact allExprKind_kind hk

theorem qualTail_kinds : ∀ {is : List Ident} {ts : List Token}, QualTailReal is ts → AllExprKind ts
  | [], ts, h => by
    have : ts = [] := h
    subst this; exact allExprKind_nil
  | i :: is, ts, h => by
    obtain ⟨d, t, ts', rfl, hd, ht, hr⟩ := h
    exact allExprKind_append (a := [d]) (allExprKind_kind hd)
      (allExprKind_append (a := [t]) (isIdentTok_exprKind ht) (qualTail_kinds hr))

theorem isBinaryOp_exprKind {k : TokKind} (h : isBinaryOp k = true) : exprKind k = true := by
  revert h; cases k <;> decide

mutual
theorem real_kinds : (e : Expr) → (m : Int) → (ts : List Token) → (okSpine m e).isSome = true →
    Real e ts → AllExprKind ts
  | .nil, _, _, _, h => (real_nil_false h).elim
  | .qident parts, _, ts, _, h => by
    obtain ⟨i, is, t, ts', -, rfl, ht, hr⟩ := real_qident h
    exact allExprKind_append (a := [t]) (isIdentTok_exprKind ht) (qualTail_kinds hr)
  | .lit sp k v, _, ts, hok, h => by
    have hk := okSpine_lit hok
    obtain ⟨t, rfl, hk', -, -⟩ := real_lit (by rcases hk with rfl | rfl <;> decide) h
    rcases hk with rfl | rfl
    · exact allExprKind_kind hk'
    · exact allExprKind_kind hk'
  | .unary os op x, _, ts, hok, h => by
    obtain ⟨hop, -, hx⟩ := okSpine_unary hok
    obtain ⟨t, tx, rfl, hk, -, hrx⟩ := real_unary h
    refine allExprKind_append (a := [t]) ?_ (real_kinds x 0 tx hx hrx)
    rcases hop with rfl | rfl
    · exact allExprKind_kind hk
    · exact allExprKind_kind hk
  | .binary x os op y, m, ts, hok, h => by
    obtain ⟨cap, hcap⟩ := Option.isSome_iff_exists.1 hok
    obtain ⟨capx, hx, hop, -, -, hy, -⟩ := okSpine_binary hcap
    obtain ⟨tx, t, ty, rfl, hrx, hk, -, hry⟩ := real_binary h
    exact allExprKind_append (real_kinds x m tx (by rw [hx]; rfl) hrx)
      (allExprKind_append (a := [t]) (allExprKind_kind hk (isBinaryOp_exprKind hop)) (real_kinds y _ ty hy hry))
  | .inE x i lp vals rp, m, ts, hok, h => by
    obtain ⟨cap, hcap⟩ := Option.isSome_iff_exists.1 hok
    obtain ⟨capx, hx, -, -, -, hvl, -⟩ := okSpine_inE hcap
    obtain ⟨tx, ti, tl, tv, tr, rfl, hrx, hk1, -, hk2, -, hv, hk3, -⟩ := real_inE h
    exact allExprKind_append (real_kinds x m tx (by rw [hx]; rfl) hrx)
      (allExprKind_append (a := [ti]) (allExprKind_kind hk1)
        (allExprKind_append (a := [tl]) (allExprKind_kind hk2)
          (allExprKind_append (realL_kinds vals tv hvl hv) (allExprKind_kind hk3))))
  | .paren lp x rp, _, ts, hok, h => by
    obtain ⟨tl, tx, tr, rfl, hk1, -, hx, hk2, -⟩ := real_paren h
    exact allExprKind_append (a := [tl]) (allExprKind_kind hk1)
      (allExprKind_append (real_kinds x 0 tx (okSpine_paren hok) hx) (allExprKind_kind hk2))
  | .call fn lp args rp, _, ts, hok, h => by
    obtain ⟨tf, tl, ta, tc, tr, rfl, hf, hk1, -, ha, hc, hk2, -⟩ := real_call h
    refine allExprKind_append (a := [tf]) (isIdentTok_exprKind hf)
      (allExprKind_append (a := [tl]) (allExprKind_kind hk1)
        (allExprKind_append (allExprKind_append (realL_kinds args ta (okSpine_call hok).2 ha) ?_)
          (allExprKind_kind hk2)))
    rcases hc with rfl | ⟨cm, rfl, hcm, -⟩
    · exact allExprKind_nil
    · exact allExprKind_kind hcm
  | .index x lb idx rb, _, ts, hok, h => by
    obtain ⟨-, hox, hoi⟩ := okSpine_index hok
    obtain ⟨tx, tl, ti, tr, rfl, hx, hk1, -, hi, hk2, -⟩ := real_index h
    exact allExprKind_append (real_kinds x 0 tx hox hx)
      (allExprKind_append (a := [tl]) (allExprKind_kind hk1)
        (allExprKind_append (real_kinds idx 0 ti hoi hi) (allExprKind_kind hk2)))
theorem realL_kinds : (l : ExprList) → (ts : List Token) → okList l = true → RealL l ts → AllExprKind ts
  | .nil, ts, _, h => by
    have := realL_nil h
    subst this; exact allExprKind_nil
  | .cons e es, ts, hok, h => by
    obtain ⟨te, tl, rfl, he, hl⟩ := realL_cons h
    exact allExprKind_append (real_kinds e 0 te (okList_cons hok).1 he) (listTail_kinds es tl (okList_cons hok).2 hl)
theorem listTail_kinds : (l : ExprList) → (ts : List Token) → okList l = true → ListTailReal l ts →
    AllExprKind ts
  | .nil, ts, _, h => by
    have : ts = [] := h
    subst this; exact allExprKind_nil
  | .cons e es, ts, hok, h => by
    obtain ⟨cm, te, tl, rfl, hcm, he, hl⟩ := h
    exact allExprKind_append (a := [cm]) (allExprKind_kind hcm)
      (allExprKind_append (real_kinds e 0 te (okList_cons hok).1 he) (listTail_kinds es tl (okList_cons hok).2 hl))
end

/-- an expression has at least one token -/
theorem real_ne_nil : (e : Expr) → (ts : List Token) → Real e ts → ts ≠ []
  | .nil, _, h => (real_nil_false h).elim
  | .qident _, ts, h => by obtain ⟨i, is, t, ts', -, rfl, -⟩ := real_qident h; simp
  | .lit sp k v, ts, h => by
    obtain ⟨us, hu, ha, -⟩ := h
    simp only [unparseExpr, Option.some.injEq] at hu
    subst hu
    obtain ⟨t, ts', rfl, -⟩ := accounts_cons_inv rfl ha
    simp
  | .unary .., ts, h => by obtain ⟨t, tx, rfl, -⟩ := real_unary h; simp
  | .binary .., ts, h => by obtain ⟨tx, t, ty, rfl, -⟩ := real_binary h; simp
  | .inE .., ts, h => by obtain ⟨tx, ti, tl, tv, tr, rfl, -⟩ := real_inE h; simp
  | .paren .., ts, h => by obtain ⟨tl, tx, tr, rfl, -⟩ := real_paren h; simp
  | .call .., ts, h => by obtain ⟨tf, tl, ta, tc, tr, rfl, -⟩ := real_call h; simp
  | .index .., ts, h => by obtain ⟨tx, tl, ti, tr, rfl, -⟩ := real_index h; simp

end Pql
