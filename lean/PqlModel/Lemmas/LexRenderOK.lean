/-
LexRender, part 4: the semantic side conditions of the bridge (`numOK`, `nameOK`: "the SQL lexer
reads this spelling as one number / one word") turned into scanning facts, and the resulting
one-step lemmas for number and function-name chunks with an abstract following text.
-/
import PqlModel.Lemmas.LexRenderNum
import PqlModel.Spec.ChunkToks
namespace Pql.LexRender
open Pql Sql

theorem lexStep_wordStart (mode : QuoteMode) (c : UInt8) (rest : Bytes) (hc : isWordStart c = true) :
    lexStep mode c rest =
      some ([STok.word (c :: (spanWhile isWordCont rest).1)], (spanWhile isWordCont rest).2) := by
  have hp := wordStart_pre c
  simp only [hc, Bool.not_true, Bool.false_or] at hp
  obtain ⟨h1, h2, h3, h4, h5⟩ := preWord_elim hp
  rw [lexStep]
  simp only [h1, h2, h3, h4, h5, hc, Bool.false_and, Bool.false_eq_true, if_false, if_true]

theorem lexStep_digit (mode : QuoteMode) (c : UInt8) (rest : Bytes) (hc : isDigitB c = true) :
    lexStep mode c rest =
      match numStep rest with
      | some (t, r) => some ([STok.num (c :: t)], r)
      | none => none := by
  have hp := digit_pre c
  simp only [hc, Bool.not_true, Bool.false_or, Bool.and_eq_true, Bool.not_eq_true'] at hp
  obtain ⟨h1, h2, h3, h4, h5⟩ := preWord_elim hp.1
  rw [lexStep]
  simp only [h1, h2, h3, h4, h5, hp.2, hc, Bool.false_and, Bool.false_eq_true, if_false, if_true]
  cases numStep rest <;> rfl

/-- the raw token list behind a successful filtered lexing -/
theorem lex_eq_some {s : Bytes} {out : List STok} (h : lex .standard s = some out) :
    ∃ ts, lexAux .standard (s.length + 1) s = some ts ∧ ts.filter (· != .comment) = out := by
  simpa [lex, lexRaw] using h

theorem numOK_scan (v : Bytes) (h : numOK v = true) :
    ∃ c v', v = c :: v' ∧ isDigitB c = true ∧ numStep v' = some (v', []) := by
  have h' : lex .standard v = some [.num v] := by simpa [numOK] using h
  obtain ⟨ts, hts, hf⟩ := lex_eq_some h'
  have hmem : STok.num v ∈ ts := by
    have : STok.num v ∈ ts.filter (· != .comment) := by rw [hf]; simp
    exact (List.mem_filter.mp this).1
  have hsh : ∃ c r, v = c :: r ∧ isDigitB c = true := lexAux_shape _ _ _ _ hts _ hmem
  obtain ⟨c, v', rfl, hc⟩ := hsh
  refine ⟨c, v', rfl, hc, ?_⟩
  simp only [List.length_cons] at hts
  rw [lexAux_step, lexStep_digit _ _ _ hc] at hts
  rcases hn : numStep v' with _ | ⟨t, r⟩
  · rw [hn] at hts; cases hts
  · rw [hn] at hts
    simp only [andThen, Option.map_eq_some_iff] at hts
    obtain ⟨ts', _, rfl⟩ := hts
    have hne : (STok.num (c :: t) != STok.comment) = true := by simp
    simp only [List.cons_append, List.nil_append, List.filter_cons, hne, if_true, List.cons.injEq,
      STok.num.injEq] at hf
    obtain ⟨⟨_, rfl⟩, _⟩ := hf
    have hp := numStep_partition _ _ _ hn
    have hl := congrArg List.length hp
    simp only [List.length_append] at hl
    have : r = [] := List.eq_nil_of_length_eq_zero (by omega)
    rw [this]

theorem nameOK_scan (v : Bytes) (h : nameOK v = true) :
    ∃ c w, v = c :: w ∧ isWordStart c = true ∧ ∀ b ∈ w, isWordCont b = true := by
  have h' : lex .standard v = some [.word v] := by simpa [nameOK] using h
  obtain ⟨ts, hts, hf⟩ := lex_eq_some h'
  have hmem : STok.word v ∈ ts := by
    have : STok.word v ∈ ts.filter (· != .comment) := by rw [hf]; simp
    exact (List.mem_filter.mp this).1
  have hsh : ∃ c r, v = c :: r ∧ isWordStart c = true := lexAux_shape _ _ _ _ hts _ hmem
  obtain ⟨c, w, rfl, hc⟩ := hsh
  refine ⟨c, w, rfl, hc, ?_⟩
  simp only [List.length_cons] at hts
  rw [lexAux_step, lexStep_wordStart _ _ _ hc] at hts
  simp only [andThen, Option.map_eq_some_iff] at hts
  obtain ⟨ts', _, rfl⟩ := hts
  have hne : (STok.word (c :: (spanWhile isWordCont w).1) != STok.comment) = true := by simp
  simp only [List.cons_append, List.nil_append, List.filter_cons, hne, if_true, List.cons.injEq,
    STok.word.injEq] at hf
  obtain ⟨⟨_, hw⟩, _⟩ := hf
  have := spanWhile_all isWordCont w
  rw [hw] at this; exact this

/-- **a number chunk, one lexer step.**  A spelling the lexer reads as one number is still read
    as exactly that number when text follows that does not start with a digit, `.` or a word
    byte. -/
theorem lexStep_num (v rest : Bytes) (hv : numOK v = true)
    (hr : ∀ d, rest.head? = some d → numBad d = false) :
    ∃ c v', v = c :: v' ∧ lexStep .standard c (v' ++ rest) = some ([STok.num v], rest) := by
  obtain ⟨c, v', rfl, hc, hn⟩ := numOK_scan v hv
  refine ⟨c, v', rfl, ?_⟩
  rw [lexStep_digit _ _ _ hc, numStep_append v' v' [] rest hn hr]
  rfl

/-- **a function-name chunk, one lexer step.** -/
theorem lexStep_fname (v rest : Bytes) (hv : nameOK v = true)
    (hr : ∀ d, rest.head? = some d → isWordCont d = false) :
    ∃ c w, v = c :: w ∧ lexStep .standard c (w ++ rest) = some ([STok.word v], rest) := by
  obtain ⟨c, w, rfl, hc, hw⟩ := nameOK_scan v hv
  exact ⟨c, w, rfl, lexStep_word _ c w rest hc hw hr⟩

end Pql.LexRender
