/-
Scoped ParseRoundtrip (task R5), part 5: join conditions.  A let value is written (and translated)
in let mode; a reference to it inside a join condition is translated in join mode.  The two agree
when no binding is called `$left` / `$right` and no (resolved) value mentions them: `envJoinSafe`.
-/
import PqlModel.Lemmas.ScopeRTAll
namespace Pql.RT
open Pql Sql CompileOracle

/-- decidable: no binding is called `$left` / `$right`, no value mentions an identifier so called -/
def envJoinSafe (env : List (Bytes × Expr)) : Bool :=
  env.all fun kv =>
    !(kv.1 == leftAlias) && !(kv.1 == rightAlias) &&
    !((exprIdents kv.2).any (·.name == leftAlias)) && !((exprIdents kv.2).any (·.name == rightAlias))

theorem envJoinSafe_elim {env : List (Bytes × Expr)} (h : envJoinSafe env = true) :
    (∀ kv ∈ env, (kv.1 == leftAlias) = false ∧ IdsFree leftAlias (exprIdents kv.2)) ∧
    (∀ kv ∈ env, (kv.1 == rightAlias) = false ∧ IdsFree rightAlias (exprIdents kv.2)) := by
  simp only [envJoinSafe, List.all_eq_true, Bool.and_eq_true, Bool.not_eq_true'] at h
  exact ⟨fun kv hkv => ⟨(h kv hkv).1.1.1, (h kv hkv).1.2⟩, fun kv hkv => ⟨(h kv hkv).1.1.2, (h kv hkv).2⟩⟩

mutual
theorem idents_substEnv_any (a : Bytes) (env : List (Bytes × Expr))
    (hv : ∀ kv ∈ env, (kv.1 == a) = false ∧ IdsFree a (exprIdents kv.2)) :
    (e : Expr) → (exprIdents (substExpr env e)).any (·.name == a) = (exprIdents e).any (·.name == a)
  | .paren _ x _ => by
    simp only [substExpr, exprIdents]
    exact idents_substEnv_any a env hv x
  | .qident [p] => by
    simp only [substExpr]
    cases hq : p.quoted with
    | true => rfl
    | false =>
      cases hf : env.find? (·.1 == p.name) with
      | none => rfl
      | some kv =>
        obtain ⟨n, v⟩ := kv
        have hm := List.mem_of_find?_eq_some hf
        have hp := List.find?_some hf
        have hnp : p.name = n := (eq_of_beq hp).symm
        obtain ⟨h1, h2⟩ := hv _ hm
        simp only [Bool.false_eq_true, if_false, exprIdents, List.any_cons, List.any_nil, Bool.or_false, hnp]
        rw [h1]
        exact h2
  | .qident [] => by simp only [substExpr]
  | .qident (_ :: _ :: _) => by simp only [substExpr]
  | .nil => by simp only [substExpr]
  | .lit .. => by simp only [substExpr]
  | .unary _ _ x => by
    simp only [substExpr, exprIdents]
    exact idents_substEnv_any a env hv x
  | .binary x _ _ y => by
    simp only [substExpr, exprIdents, List.any_append, idents_substEnv_any a env hv x, idents_substEnv_any a env hv y]
  | .index x _ y _ => by
    simp only [substExpr, exprIdents, List.any_append, idents_substEnv_any a env hv x, idents_substEnv_any a env hv y]
  | .inE x _ _ vals _ => by
    simp only [substExpr, exprIdents, List.any_append, idents_substEnv_any a env hv x, identsL_substEnv_any a env hv vals]
  | .call _ _ args _ => by
    simp only [substExpr, exprIdents]
    exact identsL_substEnv_any a env hv args
theorem identsL_substEnv_any (a : Bytes) (env : List (Bytes × Expr))
    (hv : ∀ kv ∈ env, (kv.1 == a) = false ∧ IdsFree a (exprIdents kv.2)) :
    (es : ExprList) → (exprListIdents (substList env es)).any (·.name == a) = (exprListIdents es).any (·.name == a)
  | .nil => by simp only [substList]
  | .cons e es => by
    simp only [substList, exprListIdents, List.any_append, idents_substEnv_any a env hv e, identsL_substEnv_any a env hv es]
end

theorem hasJoinTerms_substEnv {env : List (Bytes × Expr)} (h : envJoinSafe env = true) (x : Expr) :
    hasJoinTerms (substExpr env x) = hasJoinTerms x := by
  obtain ⟨hl, hr⟩ := envJoinSafe_elim h
  unfold hasJoinTerms
  dsimp only
  rw [idents_substEnv_any leftAlias env hl x, idents_substEnv_any rightAlias env hr x]

theorem joinOK_of_safe {ctx : Ctx} {env : List (Bytes × Expr)} (h : ctx.mode = .join → envJoinSafe env = true) :
    JoinOK ctx env := fun hm x => hasJoinTerms_substEnv (h hm) x

/-! ### a value that mentions neither alias is translated alike inside and outside join conditions -/

mutual
theorem tr_join_irrelevant : (v : Expr) → AliasFree v → tr true v = tr false v
  | .nil, _ => by simp only [tr]
  | .paren _ x _, h => by
    simp only [tr]
    exact tr_join_irrelevant x (by simpa only [AliasFree, exprIdents] using h)
  | .qident _, _ => by simp only [tr]
  | .lit .., _ => by simp only [tr]
  | .unary _ _ x, h => by
    simp only [tr]
    rw [tr_join_irrelevant x (by simpa only [AliasFree, exprIdents] using h)]
  | .binary x _ op y, h => by
    simp only [AliasFree, exprIdents, IdsFree.append] at h
    have hx : AliasFree x := ⟨h.1.1, h.2.1⟩
    have hy : AliasFree y := ⟨h.1.2, h.2.2⟩
    simp only [tr]
    rw [tr_join_irrelevant x hx, tr_join_irrelevant y hy, hx.hasJoinTerms, hy.hasJoinTerms]
    simp
  | .inE x _ _ vals _, h => by
    simp only [AliasFree, exprIdents, IdsFree.append] at h
    simp only [tr]
    rw [tr_join_irrelevant x ⟨h.1.1, h.2.1⟩, trList_join_irrelevant vals ⟨h.1.2, h.2.2⟩]
  | .index x _ idx _, h => by
    simp only [AliasFree, exprIdents, IdsFree.append] at h
    simp only [tr]
    rw [tr_join_irrelevant x ⟨h.1.1, h.2.1⟩, tr_join_irrelevant idx ⟨h.1.2, h.2.2⟩]
  | .call _ _ args _, h => by
    simp only [tr]
    simp only [AliasFree, exprIdents] at h
    rw [trList_join_irrelevant args h]
theorem trList_join_irrelevant : (es : ExprList) → AliasFreeL es → trList true es = trList false es
  | .nil, _ => by simp only [trList]
  | .cons e es, h => by
    simp only [AliasFreeL, exprListIdents, IdsFree.append] at h
    simp only [trList]
    rw [tr_join_irrelevant e ⟨h.1.1, h.2.1⟩, trList_join_irrelevant es ⟨h.1.2, h.2.2⟩]
end

theorem aliasFree_of_safe {env : List (Bytes × Expr)} (h : envJoinSafe env = true) {kv : Bytes × Expr}
    (hkv : kv ∈ env) : AliasFree kv.2 := by
  obtain ⟨hl, hr⟩ := envJoinSafe_elim h
  exact ⟨(hl kv hkv).2, (hr kv hkv).2⟩

/-- transfer of the scope invariant from let mode to the mode of use -/
theorem scopeRT_join {scope : Scope} {env : List (Bytes × Expr)} (hS : ScopeRT false scope env)
    (j : Bool) (hj : j = true → envJoinSafe env = true) : ScopeRT j scope env := by
  cases j with
  | false => exact hS
  | true =>
    refine ⟨fun name sql hl => ?_, hS.free⟩
    obtain ⟨n, v, hf, hv⟩ := hS.bound name sql hl
    refine ⟨n, v, hf, fun want hw => hv want ?_⟩
    have := aliasFree_of_safe (hj rfl) (List.mem_of_find?_eq_some hf)
    rw [← tr_join_irrelevant v this]
    exact hw

end Pql.RT
