/-
Fuel sufficiency at the entry points: `pStatement` (which supplies `fuelFor n = 8 * n + 32` where
`4 * n + 4` would do) and the statement loop `pStatements` (one iteration per remaining token,
plus one; every iteration but the last consumes a semicolon).
-/
import PqlModel.Lemmas.ParseFuelTab
namespace Pql

/-- what `pStatement` needs from its fuel: both alternatives (`let` statement, tabular statement)
    are free of out-of-fuel leaves as soon as `4 * tokens + 4 ≤ fuel` -/
theorem statement_fuel_bound (c : PCtx) (fuel : Nat) (ts : List Token) (hf : 4 * ts.length + 4 ≤ fuel) :
    NoFuel (pLet c fuel ts).errs ∧ NoFuel (pTabular c fuel ts).errs :=
  ⟨pLet_noFuel c fuel ts hf, pTabular_noFuel c fuel ts (by omega)⟩

/-- the fuel the model supplies is more than that -/
theorem fuelFor_ge (n : Nat) : 4 * n + 4 ≤ fuelFor n := by unfold fuelFor; omega

theorem pStatement_noFuel (c : PCtx) (ts : List Token) : NoFuel (pStatement c ts).2.1 := by
  obtain ⟨hl, ht⟩ := statement_fuel_bound c (fuelFor ts.length) ts (fuelFor_ge _)
  simp only [pStatement]
  generalize pLet c (fuelFor ts.length) ts = rl at hl ⊢
  generalize pTabular c (fuelFor ts.length) ts = rt at ht ⊢
  by_cases hb : (!isNF rl.errs) = true
  · simp only [if_pos hb]
    repeat' split
    all_goals first
      | exact NoFuel.nil
      | exact NoFuel.append hl (NoFuel.errAt _)
      | exact NoFuel.append hl.mkOpaque (NoFuel.endSplit _)
  · simp only [if_neg hb]
    repeat' split
    all_goals first
      | exact NoFuel.nil
      | exact NoFuel.append ht (NoFuel.errAt _)
      | exact NoFuel.append ht.mkOpaque (NoFuel.endSplit _)

theorem pStatements_noFuel (c : PCtx) : ∀ (k : Nat) (acc : List Stmt) (errs : Errs) (ts : List Token),
    ts.length + 1 ≤ k → NoFuel errs → NoFuel (pStatements c k acc errs ts).2 := by
  intro k
  induction k with
  | zero => intro acc errs ts hk; omega
  | succ k ih =>
    intro acc errs ts hk herrs
    have hs := splitSemi_length ts
    have hst := pStatement_noFuel c (splitSemi ts).1
    have herrs' : NoFuel (if (pStatement c (splitSemi ts).1).2.2 then (pStatement c (splitSemi ts).1).2.1
        else errs ++ (pStatement c (splitSemi ts).1).2.1) := by
      split
      · exact hst
      · exact NoFuel.append herrs hst
    simp only [pStatements]
    split
    · exact herrs'
    · rename_i t rest heq
      rw [heq] at hs
      simp only [List.length_cons] at hs
      exact ih _ _ _ (by omega) herrs'

end Pql
