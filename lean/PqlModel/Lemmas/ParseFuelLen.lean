/-
"No growth": every production of the expression block returns a remainder that is no longer
than the token list it was given, whatever the fuel.  Mutual induction on fuel; one step lemma
per production.
-/
import PqlModel.Lemmas.ParseFuelBasic
namespace Pql

/-- all productions of the expression block, at one fuel value, return no more than they got -/
structure ExprLen (c : PCtx) (fuel : Nat) : Prop where
  expr : ∀ ts, (pExpr c fuel ts).rest.length ≤ ts.length
  trail : ∀ x m acc ts, (pTrail c fuel x m acc ts).rest.length ≤ ts.length
  higher : ∀ y p acc ts, (pHigher c fuel y p acc ts).rest.length ≤ ts.length
  unary : ∀ ts, (pUnary c fuel ts).rest.length ≤ ts.length
  primary : ∀ ts, (pPrimary c fuel ts).rest.length ≤ ts.length
  inner : ∀ ts, (pInner c fuel ts).rest.length ≤ ts.length
  exprList : ∀ ts, (pExprList c fuel ts).rest.length ≤ ts.length
  exprListTail : ∀ acc ts, (pExprListTail c fuel acc ts).rest.length ≤ ts.length

theorem ExprLen.zero (c : PCtx) : ExprLen c 0 := by
  constructor <;> intros <;> simp [pExpr, pTrail, pHigher, pUnary, pPrimary, pInner, pExprList, pExprListTail]

theorem pExpr_len_step (c : PCtx) (fuel : Nat) (ih : ExprLen c fuel) (ts : List Token) :
    (pExpr c (fuel + 1) ts).rest.length ≤ ts.length := by
  simp only [pExpr]
  have h1 := ih.unary ts
  split
  · exact h1
  · have h2 := ih.trail (pUnary c fuel ts).val 0 [] (pUnary c fuel ts).rest
    simp only; omega

theorem pTrail_len_step (c : PCtx) (fuel : Nat) (ih : ExprLen c fuel) (x : Expr) (m : Int) (acc : Errs)
    (ts : List Token) : (pTrail c (fuel + 1) x m acc ts).rest.length ≤ ts.length := by
  simp only [pTrail]
  split
  · simp
  · rename_i op1 rest
    split
    · simp
    · split
      · split
        · simp
        · rename_i lp rest2
          split
          · simp only [List.length_cons]; omega
          · have hs := split_snd_le .rparen rest2
            split
            · simp
            · rename_i rp rest3 heq
              rw [heq] at hs
              simp only [List.length_cons] at hs ⊢
              split
              · simp only; omega
              · have h := ih.trail
                  (.inE x op1.span lp.span (pExprList c fuel (split .rparen rest2).1).val rp.span) m
                  (acc ++ mkOpaque (pExprList c fuel (split .rparen rest2).1).errs ++
                    endSplit (pExprList c fuel (split .rparen rest2).1).rest) rest3
                omega
      · have h1 := ih.unary rest
        have h2 := ih.higher (pUnary c fuel rest).val (precOf op1.kind)
          (acc ++ mkOpaque (pUnary c fuel rest).errs) (pUnary c fuel rest).rest
        have h3 := ih.trail
          (.binary x op1.span op1.kind (pHigher c fuel (pUnary c fuel rest).val (precOf op1.kind)
            (acc ++ mkOpaque (pUnary c fuel rest).errs) (pUnary c fuel rest).rest).val) m
          (pHigher c fuel (pUnary c fuel rest).val (precOf op1.kind)
            (acc ++ mkOpaque (pUnary c fuel rest).errs) (pUnary c fuel rest).rest).errs
          (pHigher c fuel (pUnary c fuel rest).val (precOf op1.kind)
            (acc ++ mkOpaque (pUnary c fuel rest).errs) (pUnary c fuel rest).rest).rest
        simp only [List.length_cons]; omega

/-- progress: when `exprBinaryTrail` sees an acceptable operator it consumes it -/
theorem pTrail_progress_step (c : PCtx) (fuel : Nat) (ih : ExprLen c fuel) (x : Expr) (m : Int) (acc : Errs)
    (op1 : Token) (rest : List Token) (hp : ¬ (precOf op1.kind < 0 ∨ precOf op1.kind < m)) :
    (pTrail c (fuel + 1) x m acc (op1 :: rest)).rest.length ≤ rest.length := by
  simp only [pTrail, hp, if_false]
  split
  · split
    · simp
    · rename_i lp rest2
      split
      · simp only [List.length_cons]; omega
      · have hs := split_snd_le .rparen rest2
        split
        · simp
        · rename_i rp rest3 heq
          rw [heq] at hs
          simp only [List.length_cons] at hs ⊢
          split
          · simp only; omega
          · have h := ih.trail
              (.inE x op1.span lp.span (pExprList c fuel (split .rparen rest2).1).val rp.span) m
              (acc ++ mkOpaque (pExprList c fuel (split .rparen rest2).1).errs ++
                endSplit (pExprList c fuel (split .rparen rest2).1).rest) rest3
            omega
  · have h1 := ih.unary rest
    have h2 := ih.higher (pUnary c fuel rest).val (precOf op1.kind)
      (acc ++ mkOpaque (pUnary c fuel rest).errs) (pUnary c fuel rest).rest
    have h3 := ih.trail
      (.binary x op1.span op1.kind (pHigher c fuel (pUnary c fuel rest).val (precOf op1.kind)
        (acc ++ mkOpaque (pUnary c fuel rest).errs) (pUnary c fuel rest).rest).val) m
      (pHigher c fuel (pUnary c fuel rest).val (precOf op1.kind)
        (acc ++ mkOpaque (pUnary c fuel rest).errs) (pUnary c fuel rest).rest).errs
      (pHigher c fuel (pUnary c fuel rest).val (precOf op1.kind)
        (acc ++ mkOpaque (pUnary c fuel rest).errs) (pUnary c fuel rest).rest).rest
    omega

theorem pHigher_len_step (c : PCtx) (fuel : Nat) (ih : ExprLen c fuel) (y : Expr) (p : Int) (acc : Errs)
    (ts : List Token) : (pHigher c (fuel + 1) y p acc ts).rest.length ≤ ts.length := by
  simp only [pHigher]
  split
  · simp
  · rename_i op2 rest
    split
    · simp
    · have h1 := ih.trail y (p + 1) [] (op2 :: rest)
      have h2 := ih.higher (pTrail c fuel y (p + 1) [] (op2 :: rest)).val p
        (acc ++ mkOpaque (pTrail c fuel y (p + 1) [] (op2 :: rest)).errs)
        (pTrail c fuel y (p + 1) [] (op2 :: rest)).rest
      omega

theorem pUnary_len_step (c : PCtx) (fuel : Nat) (ih : ExprLen c fuel) (ts : List Token) :
    (pUnary c (fuel + 1) ts).rest.length ≤ ts.length := by
  simp only [pUnary]
  split
  · simp
  · rename_i t rest
    split
    · have := ih.primary rest
      simp only [List.length_cons]; omega
    · exact ih.primary (t :: rest)

theorem pPrimary_len_step (c : PCtx) (fuel : Nat) (ih : ExprLen c fuel) (ts : List Token) :
    (pPrimary c (fuel + 1) ts).rest.length ≤ ts.length := by
  simp only [pPrimary]
  have h1 := ih.inner ts
  split
  · exact h1
  · split
    · simp
    · rename_i t rest heq
      rw [heq] at h1
      simp only [List.length_cons] at h1
      split
      · have hs := split_snd_le .rbracket rest
        split
        · simp
        · rename_i rb rest2 heq2
          rw [heq2] at hs
          simp only [List.length_cons] at hs
          split <;> (simp only; omega)
      · simp only [heq, List.length_cons]; omega

theorem pInner_len_step (c : PCtx) (fuel : Nat) (_ih : ExprLen c fuel) (ts : List Token) :
    (pInner c (fuel + 1) ts).rest.length ≤ ts.length := by
  simp only [pInner]
  split
  · simp
  · rename_i t rest
    have hq := pQualifiedIdent_rest_le c (t :: rest)
    split
    · simp
    · split
      · split
        · exact hq
        · split
          · exact hq
          · split
            · exact hq
            · split
              · simp
              · rename_i lp rest2 heq
                rw [heq] at hq
                simp only [List.length_cons] at hq
                split
                · simp only [heq, List.length_cons]; omega
                · have hs := split_length .rparen rest2
                  split
                  · simp
                  · rename_i rp rest3 heq2
                    rw [heq2] at hs
                    simp only [List.length_cons] at hs
                    split
                    · simp only [List.length_cons]; omega
                    · show (split TokKind.rparen rest2).2.length ≤ rest.length + 1
                      rw [heq2, List.length_cons]; omega
      · split
        · split
          · exact hq
          · exact hq
        · split
          · have hs := split_length .rparen rest
            split
            · simp
            · rename_i rp rest2 heq2
              rw [heq2] at hs
              simp only [List.length_cons] at hs
              split <;> (simp only [List.length_cons]; omega)
          · simp

theorem pExprList_len_step (c : PCtx) (fuel : Nat) (ih : ExprLen c fuel) (ts : List Token) :
    (pExprList c (fuel + 1) ts).rest.length ≤ ts.length := by
  simp only [pExprList]
  have h1 := ih.expr ts
  split
  · exact h1
  · have h2 := ih.exprListTail (.cons (pExpr c fuel ts).val .nil) (pExpr c fuel ts).rest
    omega

theorem pExprListTail_len_step (c : PCtx) (fuel : Nat) (ih : ExprLen c fuel) (acc : ExprList)
    (ts : List Token) : (pExprListTail c (fuel + 1) acc ts).rest.length ≤ ts.length := by
  simp only [pExprListTail]
  split
  · simp
  · rename_i t rest
    split
    · simp
    · have h1 := ih.expr rest
      split
      · simp
      · split
        · simp only [List.length_cons]; omega
        · refine Nat.le_trans (ih.exprListTail _ _) ?_
          simp only [List.length_cons]; omega

theorem exprLen (c : PCtx) (fuel : Nat) : ExprLen c fuel := by
  induction fuel with
  | zero => exact ExprLen.zero c
  | succ fuel ih =>
    exact
      { expr := pExpr_len_step c fuel ih
        trail := pTrail_len_step c fuel ih
        higher := pHigher_len_step c fuel ih
        unary := pUnary_len_step c fuel ih
        primary := pPrimary_len_step c fuel ih
        inner := pInner_len_step c fuel ih
        exprList := pExprList_len_step c fuel ih
        exprListTail := pExprListTail_len_step c fuel ih }

theorem pExpr_rest_le (c : PCtx) (fuel : Nat) (ts : List Token) : (pExpr c fuel ts).rest.length ≤ ts.length :=
  (exprLen c fuel).expr ts
theorem pExprList_rest_le (c : PCtx) (fuel : Nat) (ts : List Token) :
    (pExprList c fuel ts).rest.length ≤ ts.length := (exprLen c fuel).exprList ts

/-- progress of `exprBinaryTrail` on an acceptable operator (any positive fuel) -/
theorem pTrail_progress (c : PCtx) (fuel : Nat) (x : Expr) (m : Int) (acc : Errs)
    (op1 : Token) (rest : List Token) (hp : ¬ (precOf op1.kind < 0 ∨ precOf op1.kind < m)) :
    (pTrail c (fuel + 1) x m acc (op1 :: rest)).rest.length ≤ rest.length :=
  pTrail_progress_step c fuel (exprLen c fuel) x m acc op1 rest hp

end Pql
