/-
`ResIn P` (see ErrSpanLemmas.lean) for the non-recursive tabular operators, their column / term /
property loops, and `let`.
-/
import PqlModel.Lemmas.ErrSpanLemmas
namespace Pql

section
variable {P : Span → Prop} {c : PCtx}

/-! ### rowCount, sortTerm -/

theorem pRowCount_in (hP : P c.eof) (fuel : Nat) (ts : List Token) (ht : ToksIn P ts) :
    ResIn P (pRowCount c fuel ts) := by
  have h1 := pExpr_in hP fuel ts ht
  simp only [pRowCount]
  split
  · exact h1
  · split
    · split
      · exact h1
      · exact ⟨by simp, h1.rest⟩
    · exact h1

theorem pSortTerm_in (hP : P c.eof) (fuel : Nat) (ts : List Token) (ht : ToksIn P ts) :
    ResIn P (pSortTerm c fuel ts) := by
  obtain ⟨h1e, h1r⟩ := pExpr_in hP fuel ts ht
  simp only [pSortTerm]
  split
  · in_leaf
  · generalize (pExpr c fuel ts).rest = rr at h1r ⊢
    cases rr with
    | nil => simp [resIn_mk]
    | cons t rest =>
      by_cases ha : isIdentNamed t "asc" = true
      · simp only [ha, if_true, Bool.not_true, Bool.false_eq_true, if_false]
        repeat' split
        all_goals in_leaf
      · by_cases hd : isIdentNamed t "desc" = true
        · simp only [ha, hd, if_true, Bool.not_true, Bool.false_eq_true, if_false]
          repeat' split
          all_goals in_leaf
        · by_cases hn : isIdentNamed t "nulls" = true
          · simp only [ha, hd, hn, if_true, Bool.not_true, Bool.false_eq_true, if_false]
            repeat' split
            all_goals in_leaf
          · simp only [ha, hd, hn, if_true, Bool.not_false, Bool.false_eq_true, if_false]
            in_leaf

theorem pSortTerms_in (hP : P c.eof) (fuel : Nat) : ∀ (k : Nat) (acc : List SortTerm)
    (ts : List Token), ToksIn P ts → ResIn P (pSortTerms c fuel k acc ts) := by
  intro k
  induction k with
  | zero => intro acc ts ht; simp only [pSortTerms]; in_leaf
  | succ k ih =>
    intro acc ts ht
    obtain ⟨h1e, h1r⟩ := pSortTerm_in hP fuel ts ht
    simp only [pSortTerms]
    split
    · in_leaf
    · split
      · rename_i t rest heq
        rw [heq] at h1r
        split
        · exact ih _ _ ((ToksIn_cons t rest).mp h1r).2
        · in_leaf
      · in_leaf

/-! ### named columns (extend / summarize) -/

theorem pNamedColumn_in (hP : P c.eof) (fuel : Nat) (ts : List Token) (ht : ToksIn P ts) :
    ResIn P (pNamedColumn c fuel ts) := by
  simp only [pNamedColumn]
  split
  · rename_i id asg rest heq
    have hr : ToksIn P rest := by
      have hi := (pIdent_in hP ts ht).rest
      split at heq
      · rename_i id' t rest' hv hrest
        rw [hrest] at hi
        split at heq
        · simp only [Option.some.injEq, Prod.mk.injEq] at heq
          obtain ⟨_, _, rfl⟩ := heq
          exact ((ToksIn_cons t rest').mp hi).2
        · cases heq
      · cases heq
    obtain ⟨h1e, h1r⟩ := pExpr_in hP fuel rest hr
    in_leaf
  · obtain ⟨h1e, h1r⟩ := pExpr_in hP fuel ts ht
    in_leaf

theorem pExtendCols_in (hP : P c.eof) (fuel : Nat) : ∀ (k : Nat) (acc : List Column)
    (ts : List Token), ToksIn P ts → ResIn P (pExtendCols c fuel k acc ts) := by
  intro k
  induction k with
  | zero => intro acc ts ht; simp only [pExtendCols]; in_leaf
  | succ k ih =>
    intro acc ts ht
    obtain ⟨h1e, h1r⟩ := pNamedColumn_in hP fuel ts ht
    simp only [pExtendCols]
    split
    · in_leaf
    · split
      · rename_i t rest heq
        rw [heq] at h1r
        split
        · exact ih _ _ ((ToksIn_cons t rest).mp h1r).2
        · in_leaf
      · in_leaf

theorem pProjectCols_in (hP : P c.eof) (fuel : Nat) : ∀ (k : Nat) (acc : List Column)
    (ts : List Token), ToksIn P ts → ResIn P (pProjectCols c fuel k acc ts) := by
  intro k
  induction k with
  | zero => intro acc ts ht; simp only [pProjectCols]; in_leaf
  | succ k ih =>
    intro acc ts ht
    obtain ⟨hie, hir⟩ := pIdent_in hP ts ht
    simp only [pProjectCols]
    split
    · in_leaf
    · split
      · in_leaf
      · rename_i sep rest heq
        rw [heq] at hir
        obtain ⟨hsep, hrest⟩ := (ToksIn_cons sep rest).mp hir
        split
        · exact ih _ _ hrest
        · split
          · obtain ⟨hee, her⟩ := pExpr_in hP fuel rest hrest
            split
            · in_leaf
            · split
              · in_leaf
              · rename_i sep2 rest2 heq2
                rw [heq2] at her
                obtain ⟨hsep2, hrest2⟩ := (ToksIn_cons sep2 rest2).mp her
                split
                · exact ih _ _ hrest2
                · in_leaf
          · in_leaf

/-! ### summarize -/

/-- a pending comma span (if any) satisfies `P` -/
def CommaIn (P : Span → Prop) (cm : Option Span) : Prop := ∀ s, cm = some s → P s

theorem pSummarizeCols_in (hP : P c.eof) (fuel : Nat) :
    ∀ (k : Nat) (acc : List Column) (cm : Option Span) (ts : List Token),
    CommaIn P cm → ToksIn P ts →
      ResIn P (pSummarizeCols c fuel k acc cm ts) ∧
      CommaIn P (pSummarizeCols c fuel k acc cm ts).val.comma := by
  intro k
  induction k with
  | zero => intro acc cm ts hcm ht; simp only [pSummarizeCols]; exact ⟨by in_leaf, hcm⟩
  | succ k ih =>
    intro acc cm ts hcm ht
    obtain ⟨h1e, h1r⟩ := pNamedColumn_in hP fuel ts ht
    have hnone : CommaIn P none := fun s hs => by cases hs
    simp only [pSummarizeCols]
    split
    · exact ⟨by in_leaf, hcm⟩
    · split
      · exact ⟨by in_leaf, hnone⟩
      · split
        · exact ⟨by in_leaf, hnone⟩
        · rename_i t rest heq
          have h1r' := h1r
          rw [heq] at h1r'
          obtain ⟨htt, hrest⟩ := (ToksIn_cons t rest).mp h1r'
          split
          · exact ih _ _ _ (fun s hs => by cases hs; exact htt) hrest
          · exact ⟨⟨by simp, h1r⟩, hnone⟩

theorem pGroupByCols_in (hP : P c.eof) (fuel : Nat) : ∀ (k : Nat) (acc : List Column)
    (ts : List Token), ToksIn P ts → ResIn P (pGroupByCols c fuel k acc ts) := by
  intro k
  induction k with
  | zero => intro acc ts ht; simp only [pGroupByCols]; in_leaf
  | succ k ih =>
    intro acc ts ht
    obtain ⟨h1e, h1r⟩ := pNamedColumn_in hP fuel ts ht
    simp only [pGroupByCols]
    split
    · in_leaf
    · split
      · in_leaf
      · split
        · in_leaf
        · rename_i t rest heq
          have h1r' := h1r
          rw [heq] at h1r'
          split
          · exact ih _ _ ((ToksIn_cons t rest).mp h1r').2
          · exact ⟨by simp, h1r⟩

theorem pSummarize_in (hP : P c.eof) (fuel : Nat) (pipe kw : Span) (ts : List Token)
    (ht : ToksIn P ts) : ResIn P (pSummarize c fuel pipe kw ts) := by
  obtain ⟨⟨h1e, h1r⟩, h1c⟩ :=
    pSummarizeCols_in hP fuel (ts.length + 1) [] none ts (fun s hs => by cases hs) ht
  simp only [pSummarize]
  split
  · in_leaf
  · split
    · split
      · in_leaf
      · split
        · rename_i cm hcm
          have := h1c cm hcm
          in_leaf
        · in_leaf
    · rename_i sep rest heq
      have h1r' := h1r
      rw [heq] at h1r'
      obtain ⟨hsep, hrest⟩ := (ToksIn_cons sep rest).mp h1r'
      split
      · split
        · exact ⟨(ErrsIn_errAt _).mpr hsep, h1r⟩
        · split
          · rename_i cm hcm
            exact ⟨(ErrsIn_errAt _).mpr (h1c cm hcm), h1r⟩
          · exact ⟨by simp, h1r⟩
      · obtain ⟨h2e, h2r⟩ := pGroupByCols_in hP fuel (rest.length + 1) [] rest hrest
        in_leaf

/-! ### render -/

theorem pRenderProp_in (hP : P c.eof) (fuel : Nat) (ts : List Token) (ht : ToksIn P ts) :
    ResIn P (pRenderProp c fuel ts) := by
  obtain ⟨hie, hir⟩ := pIdent_in hP ts ht
  simp only [pRenderProp]
  split
  · in_leaf
  · split
    · in_leaf
    · rename_i t rest heq
      rw [heq] at hir
      obtain ⟨htt, hrest⟩ := (ToksIn_cons t rest).mp hir
      obtain ⟨hee, her⟩ := pExpr_in hP fuel rest hrest
      split
      · in_leaf
      · split
        · in_leaf
        · in_leaf

theorem pRenderProps_in (hP : P c.eof) (fuel : Nat) : ∀ (k : Nat) (acc : List RenderProp)
    (ts : List Token), ToksIn P ts → ResIn P (pRenderProps c fuel k acc ts) := by
  intro k
  induction k with
  | zero => intro acc ts ht; simp only [pRenderProps]; in_leaf
  | succ k ih =>
    intro acc ts ht
    obtain ⟨h1e, h1r⟩ := pRenderProp_in hP fuel ts ht
    simp only [pRenderProps]
    split
    · in_leaf
    · split
      · in_leaf
      · rename_i t rest heq
        rw [heq] at h1r
        obtain ⟨htt, hrest⟩ := (ToksIn_cons t rest).mp h1r
        split
        · in_leaf
        · split
          · in_leaf
          · exact ih _ _ hrest

theorem pRender_in (hP : P c.eof) (fuel : Nat) (pipe kw : Span) (hkw : P kw) (ts : List Token)
    (ht : ToksIn P ts) : ResIn P (pRender c fuel pipe kw ts) := by
  obtain ⟨hie, hir⟩ := pIdent_in hP ts ht
  simp only [pRender]
  split
  · in_leaf
  · split
    · in_leaf
    · rename_i t rest heq
      have hir' := hir
      rw [heq] at hir'
      obtain ⟨htt, hrest⟩ := (ToksIn_cons t rest).mp hir'
      split
      · exact ⟨by simp, hir⟩
      · split
        · in_leaf
        · rename_i lp rest2
          obtain ⟨hlp, hrest2⟩ := (ToksIn_cons lp rest2).mp hrest
          split
          · in_leaf
          · obtain ⟨h2e, h2r⟩ := pRenderProps_in hP fuel (rest2.length + 1) [] rest2 hrest2
            in_leaf

/-! ### let -/

theorem pLet_in (hP : P c.eof) (fuel : Nat) (ts : List Token) (ht : ToksIn P ts) :
    ResIn P (pLet c fuel ts) := by
  simp only [pLet]
  split
  · in_leaf
  · rename_i kwd rest
    obtain ⟨hkwd, hrest⟩ := (ToksIn_cons kwd rest).mp ht
    obtain ⟨hie, hir⟩ := pIdent_in hP rest hrest
    split
    · in_leaf
    · split
      · in_leaf
      · split
        · in_leaf
        · rename_i asg rest2 heq
          rw [heq] at hir
          obtain ⟨hasg, hrest2⟩ := (ToksIn_cons asg rest2).mp hir
          split
          · in_leaf
          · obtain ⟨hee, her⟩ := pExpr_in hP fuel rest2 hrest2
            in_leaf

end

end Pql
