/-
No internal placeholder, part 2: `Subquery.write`, `writeCtes`, `splitQueries`, the statement loop
and the final assembly.

* `stmtPhFree` (decidable, tree level): every expression the compiler writes is `phFree`
  (a `project` column may lack its expression: the name is written instead);
* `subPhFree` (decidable): what a subquery stores — the operator is absent or one of the stored
  kinds (`Exact.storedOp`: not the default case of the type switch of `(*subquery).write`) with
  `phFree` expressions, the sort terms and the row count are `phFree`;
* `write_cf`: such a subquery with a comment-free source is written comment-free;
* `splitQueries_subCF`: every subquery `splitQueries` builds from a `tabPhFree` tree satisfies both
  (mutual structural induction, as Lemmas/LexStmtSemiStmt.lean);
* `program_cf_from` / `program_cf`: the whole chunk list.
-/
import PqlModel.Lemmas.WriteInvExpr
import PqlModel.Lemmas.ExactWrite
namespace Pql.WriteInv
open Pql Sql LexRender Pql.C05

/-! ### tree predicates -/

def termsPhFree (ts : List SortTerm) : Bool := ts.all fun t => phFree t.x
def colsPhFree (cs : List Column) : Bool := cs.all fun c => phFree c.x
/-- `project name`: the expression may be absent -/
def projColsPhFree (cs : List Column) : Bool := cs.all fun c => Exact.isNilExpr c.x || phFree c.x

mutual
def tabPhFree : Tabular → Bool
  | .nil => true
  | .mk _ ops => opsPhFree ops
def opPhFree : Op → Bool
  | .count .. => true
  | .where_ _ _ e => phFree e
  | .sort _ _ ts => termsPhFree ts
  | .take _ _ n => phFree n
  | .top _ _ n _ c => phFree n && (match c with | some t => phFree t.x | none => true)
  | .project _ _ cs => projColsPhFree cs
  | .extend _ _ cs => colsPhFree cs
  | .summarize _ _ cs _ gs => colsPhFree cs && colsPhFree gs
  | .join _ _ _ _ _ _ right _ _ conds => tabPhFree right && phFreeList conds
  | .as_ .. => true
  | .render .. => true
def opsPhFree : OpList → Bool
  | .nil => true
  | .cons o os => opPhFree o && opsPhFree os
end

/-- every expression of the statement the compiler writes is free of placeholder sites -/
def stmtPhFree : Stmt → Bool
  | .let_ _ _ _ x => phFree x
  | .tabular t => tabPhFree t

/-- what a subquery stores is free of placeholder sites; in particular its operator is not one of
    the default case of `(*subquery).write` -/
def subPhFree (s : Subquery) : Bool :=
  (match s.op with
   | none => true
   | some o => Exact.storedOp o && opPhFree o) &&
  ((match s.sort with | none => true | some ts => termsPhFree ts) &&
   (match s.take with | none => true | some n => phFree n))

/-! ### lists -/

theorem CF_commaList : ∀ (cs : List (List Chunk)), (∀ c ∈ cs, CF c = true) →
    CF (cs.flatMap fun c => Chunk.txt ", " :: c) = true
  | [], _ => rfl
  | c :: cs, h => by
    have h1 := h c List.mem_cons_self
    have h2 := CF_commaList cs (fun x hx => h x (List.mem_cons_of_mem _ hx))
    simp only [List.flatMap_cons]
    cf_close

theorem CF_renderProps : ∀ (props : List RenderProp),
    CF (props.flatMap fun p =>
      [Chunk.txt ",\n    ", .qstr (renderPropValue p.value), .txt " as ",
       .qid (Bytes.ofString "render_prop_" ++ identName p.name)]) = true
  | [] => rfl
  | p :: ps => by
    have ih := CF_renderProps ps
    simp only [List.flatMap_cons]
    cf_close

theorem CF_commaSep (vs : List (List Chunk)) (h : ∀ v ∈ vs, CF v = true) : CF (sepChunks ", " vs) = true :=
  CF_sepChunks (by decide) vs h

/-! ### `Subquery.write` -/

section
variable (ctx : Ctx) (hscope : ScopeCF ctx.scope)
include hscope

theorem projCol_cf {c : Column} (hc : (Exact.isNilExpr c.x || phFree c.x) = true) {cs : List Chunk}
    (h : projCol ctx c = .ok cs) : CF cs = true := by
  unfold projCol at h
  split at h
  · obtain ⟨x, hx, h⟩ := bind_ok h
    cases h
    have := writeExpr_cf ctx hscope _ rfl _ hx
    cf_close
  · rename_i hne
    obtain ⟨x, hx, h⟩ := bind_ok h
    cases h
    have hp : phFree c.x = true := by
      rcases Bool.or_eq_true _ _ |>.mp hc with h1 | h1
      · cases hcx : c.x <;> simp_all [Exact.isNilExpr]
      · exact h1
    have := writeExpr_cf ctx hscope _ hp _ hx
    cf_close

omit hscope in
theorem columnAlias_cf {c : Column} {a : List Chunk} (h : columnAlias ctx c = .ok a) : CF a = true := by
  unfold columnAlias at h
  split at h
  · cases h; rfl
  · obtain ⟨t, _, h⟩ := bind_ok h
    cases h; rfl

theorem writeColumns_cf : ∀ (cols : List Column), colsPhFree cols = true → ∀ (cs : List (List Chunk)),
    writeColumns ctx cols = .ok cs → ∀ c ∈ cs, CF c = true
  | [], _, cs, h => by
    rw [writeColumns] at h; cases h; simp
  | c :: cols, hok, cs, h => by
    rw [writeColumns] at h
    simp only [colsPhFree, List.all_cons, Bool.and_eq_true] at hok
    obtain ⟨x, hx, h⟩ := bind_ok h
    obtain ⟨a, ha, h⟩ := bind_ok h
    obtain ⟨r, hr, h⟩ := bind_ok h
    cases h
    intro y hy
    rcases List.mem_cons.mp hy with rfl | hy
    · rw [CF_append, writeExpr_cf ctx hscope _ hok.1 _ hx, columnAlias_cf ctx ha]; rfl
    · exact writeColumns_cf cols hok.2 r hr y hy

theorem writeSortTerms_cf : ∀ (ts : List SortTerm), termsPhFree ts = true → ∀ (cs : List (List Chunk)),
    writeSortTerms ctx ts = .ok cs → ∀ c ∈ cs, CF c = true
  | [], _, cs, h => by
    rw [writeSortTerms] at h; cases h; simp
  | t :: ts, hok, cs, h => by
    rw [writeSortTerms] at h
    simp only [termsPhFree, List.all_cons, Bool.and_eq_true] at hok
    obtain ⟨x, hx, h⟩ := bind_ok h
    obtain ⟨r, hr, h⟩ := bind_ok h
    cases h
    intro y hy
    rcases List.mem_cons.mp hy with rfl | hy
    · rw [CF_append, writeExpr_cf ctx hscope _ hok.1 _ hx]
      cases t.asc <;> cases t.nullsFirst <;> decide
    · exact writeSortTerms_cf ts hok.2 r hr y hy

/-- the operator part: a stored operator never reaches the default case -/
theorem bodyOf_cf (op : Option Op)
    (hop : (match op with | none => true | some o => Exact.storedOp o && opPhFree o) = true)
    {source : List Chunk} (hs : CF source = true) {body : Option (List Chunk)}
    (h : bodyOf ctx op source = .ok body) : ∃ b, body = some b ∧ CF b = true := by
  rcases op with _ | o
  · simp only [bodyOf] at h; cases h; exact ⟨_, rfl, by cf_close⟩
  simp only [Bool.and_eq_true] at hop
  obtain ⟨hst, hph⟩ := hop
  cases o with
  | as_ p k n => simp only [bodyOf] at h; cases h; exact ⟨_, rfl, by cf_close⟩
  | count p k => simp only [bodyOf] at h; cases h; exact ⟨_, rfl, by cf_close⟩
  | project p k cols =>
    simp only [bodyOf] at h
    simp only [opPhFree, projColsPhFree, List.all_eq_true] at hph
    obtain ⟨cs, hcs, h⟩ := bind_ok h
    cases h
    have hg := CF_commaSep cs (mapM_forall cols (fun c hc b hb => projCol_cf ctx hscope (hph c hc) hb) cs hcs)
    exact ⟨_, rfl, by cf_close⟩
  | extend p k cols =>
    simp only [bodyOf] at h
    simp only [opPhFree] at hph
    obtain ⟨cs, hcs, h⟩ := bind_ok h
    cases h
    have hg := CF_commaList cs (writeColumns_cf ctx hscope cols hph cs hcs)
    exact ⟨_, rfl, by cf_close⟩
  | summarize p k cols b groupBy =>
    simp only [bodyOf] at h
    simp only [opPhFree, Bool.and_eq_true] at hph
    obtain ⟨gs, hgs, h⟩ := bind_ok h
    obtain ⟨cs, hcs, h⟩ := bind_ok h
    obtain ⟨gb, hgb, h⟩ := bind_ok h
    cases h
    have hg1 := writeColumns_cf ctx hscope groupBy hph.2 gs hgs
    have hg2 := writeColumns_cf ctx hscope cols hph.1 cs hcs
    have hgc : ∀ c ∈ groupBy, phFree c.x = true := by
      have := hph.2; simp only [colsPhFree, List.all_eq_true] at this; exact this
    have hg3 := CF_commaSep gb
      (mapM_forall groupBy (fun c hc b hb => writeExpr_cf ctx hscope _ (hgc c hc) b hb) gb hgb)
    have hall := CF_commaSep (gs ++ cs) (by
      intro v hv
      rcases List.mem_append.mp hv with hv | hv
      · exact hg1 v hv
      · exact hg2 v hv)
    refine ⟨_, rfl, ?_⟩
    split <;> cf_close
  | where_ p k pred =>
    simp only [bodyOf] at h
    simp only [opPhFree] at hph
    obtain ⟨ps, hps, h⟩ := bind_ok h
    cases h
    have := writeExpr_cf ctx hscope _ hph _ hps
    exact ⟨_, rfl, by cf_close⟩
  | render p k chart w lp props rp =>
    simp only [bodyOf] at h; cases h
    have := CF_renderProps props
    exact ⟨_, rfl, by cf_close⟩
  | sort p k ts => simp [Exact.storedOp] at hst
  | take p k n => simp [Exact.storedOp] at hst
  | top p k n b c => simp [Exact.storedOp] at hst
  | join p k kind ka fl lp right rp on conds => simp [Exact.storedOp] at hst

theorem tailOf_cf {sort : Option (List SortTerm)} {take : Option Expr}
    (hsort : (match sort with | none => true | some ts => termsPhFree ts) = true)
    (htake : (match take with | none => true | some n => phFree n) = true)
    {b : List Chunk} (hb : CF b = true) {cs : List Chunk}
    (h : tailOf ctx sort take (some b) = .ok cs) : CF cs = true := by
  rcases sort with _ | ts <;> rcases take with _ | n <;> simp only [tailOf, pure_bind] at h
  · cases h; cf_close
  · obtain ⟨x, hx, h⟩ := bind_ok h
    cases h
    have := writeExpr_cf ctx hscope _ htake _ hx
    cf_close
  · obtain ⟨xs, hxs, h⟩ := bind_ok h
    cases h
    have := CF_commaSep xs (writeSortTerms_cf ctx hscope ts hsort xs hxs)
    cf_close
  · obtain ⟨xs, hxs, h⟩ := bind_ok h
    obtain ⟨x, hx, h⟩ := bind_ok h
    cases h
    have := CF_commaSep xs (writeSortTerms_cf ctx hscope ts hsort xs hxs)
    have := writeExpr_cf ctx hscope _ htake _ hx
    cf_close

/-- **`Subquery.write` writes no placeholder** for a subquery that stores no placeholder site and
    whose source is comment-free -/
theorem write_cf {sub : Subquery} (hsrc : CF sub.source = true) (hsub : subPhFree sub = true)
    {cs : List Chunk} (h : sub.write ctx = .ok cs) : CF cs = true := by
  rw [Pql.write_eq] at h
  simp only [subPhFree, Bool.and_eq_true] at hsub
  obtain ⟨body, hbody, h⟩ := bind_ok h
  obtain ⟨b, rfl, hb⟩ := bodyOf_cf ctx hscope sub.op hsub.1 hsrc hbody
  exact tailOf_cf ctx hscope hsub.2.1 hsub.2.2 hb h

theorem writeCtes_cf : ∀ (l : List Subquery), (∀ s ∈ l, CF s.source = true ∧ subPhFree s = true) →
    ∀ cs, writeCtes ctx l = .ok cs → CF cs = true
  | [], _, cs, h => by
    simp only [writeCtes] at h; cases h; rfl
  | [s], hl, cs, h => by
    simp only [writeCtes] at h
    obtain ⟨b, hb, h⟩ := bind_ok h
    cases h
    have hg := write_cf ctx hscope (hl s (by simp)).1 (hl s (by simp)).2 hb
    cf_close
  | s :: s2 :: l, hl, cs, h => by
    simp only [writeCtes] at h
    obtain ⟨b, hb, h⟩ := bind_ok h
    obtain ⟨r, hr, h⟩ := bind_ok h
    cases h
    have hg := write_cf ctx hscope (hl s (by simp)).1 (hl s (by simp)).2 hb
    have ih := writeCtes_cf (s2 :: l) (fun x hx => hl x (List.mem_cons_of_mem _ hx)) r hr
    cf_close

end

/-! ### `splitQueries` -/

/-- the invariant of the subqueries `splitQueries` builds from `tabPhFree` trees -/
def SubCF (s : Subquery) : Prop := CF s.source = true ∧ subPhFree s = true

theorem chain_subCF (dst : List Subquery) (k : Nat) (source : Option Ident) :
    SubCF (chainSubquery dst k source) := by
  refine ⟨?_, rfl⟩
  unfold chainSubquery
  dsimp only
  split
  · split <;> rfl
  · rfl

theorem store_subCF {chain : Subquery} (hc : SubCF chain) (hnone : chain.sort = none ∧ chain.take = none)
    (o : Op) (hst : Exact.storedOp o = true) (ho : opPhFree o = true) :
    SubCF { chain with op := some o } := by
  refine ⟨hc.1, ?_⟩
  simp only [subPhFree, hst, ho, hnone.1, hnone.2, Bool.and_self]

theorem attach_subCF {dst : List Subquery} (hd : ∀ s ∈ dst, SubCF s) (attach : Bool) (k : Nat)
    (source : Option Ident) {f : Subquery → Subquery} (hf : ∀ s, SubCF s → SubCF (f s)) :
    ∀ s ∈ setLast (if attach = true then dst else dst ++ [chainSubquery dst k source]) f, SubCF s := by
  refine setLast_forall ?_ hf
  split
  · exact hd
  · exact forall_snoc hd (chain_subCF ..)

theorem setSort_subCF (ts : List SortTerm) (hts : termsPhFree ts = true) (s : Subquery) (h : SubCF s) :
    SubCF { s with sort := some ts } := by
  refine ⟨h.1, ?_⟩
  have h2 := h.2
  simp only [subPhFree, Bool.and_eq_true] at h2 ⊢
  exact ⟨h2.1, hts, h2.2.2⟩

theorem setTake_subCF (n : Expr) (hn : phFree n = true) (s : Subquery) (h : SubCF s) :
    SubCF { s with take := some n } := by
  refine ⟨h.1, ?_⟩
  have h2 := h.2
  simp only [subPhFree, Bool.and_eq_true] at h2 ⊢
  exact ⟨h2.1, h2.2.1, hn⟩

theorem joinSource_cf (unique : Bool) {leftSrc cond : List Chunk} (hl : CF leftSrc = true) (hc : CF cond = true)
    {kw : String} (hkw : kw = " JOIN " ∨ kw = " LEFT JOIN ") (rightName : Bytes) :
    CF ((if unique = true then [Chunk.txt "(SELECT DISTINCT * FROM "] else []) ++ leftSrc ++
      (if unique = true then [Chunk.txt ")"] else []) ++
      [.txt (" AS \"" ++ Facts.leftJoinTableAlias ++ "\""), .txt kw, .qid rightName,
       .txt (" AS \"" ++ Facts.rightJoinTableAlias ++ "\" ON ")] ++ cond) = true := by
  have hk : cf (.txt kw) = true := by rcases hkw with rfl | rfl <;> decide
  cases unique <;> cf_close

/-! #### join conditions -/

theorem rewrite_phFree (c : Expr) (h : phFree c = true) : phFree (rewriteSimpleJoinCondition c) = true := by
  unfold rewriteSimpleJoinCondition
  split
  · split
    · exact h
    · simp [phFree, binKnown]
  · exact h

theorem and_known : binKnown .and_ = true := by decide

theorem go_phFree : ∀ (ys : ExprList) (x : Expr), phFree x = true → phFreeList ys = true →
    phFree (buildJoinCondition.go x ys) = true
  | .nil, x, hx, _ => by rw [buildJoinCondition.go]; exact hx
  | .cons y ys, x, hx, hy => by
    rw [phFreeList, Bool.and_eq_true] at hy
    rw [buildJoinCondition.go]
    refine go_phFree ys _ ?_ hy.2
    simp only [phFree, hx, rewrite_phFree y hy.1, and_known, Bool.and_self]

theorem buildJoin_phFree (conds : ExprList) (h : phFreeList conds = true) :
    phFree (buildJoinCondition conds) = true := by
  cases conds with
  | nil => simp [buildJoinCondition, phFree]
  | cons c rest =>
    rw [phFreeList, Bool.and_eq_true] at h
    rw [buildJoinCondition]
    exact go_phFree rest _ (rewrite_phFree c h.1) h.2

mutual
theorem splitQueries_subCF (src : Bytes) (scope : List (Bytes × List Chunk)) (hsc : ScopeCF scope) :
    ∀ (t : Tabular) (dst out : List Subquery), tabPhFree t = true → (∀ s ∈ dst, SubCF s) →
      splitQueries src scope dst t = .ok out → ∀ s ∈ out, SubCF s
  | .nil, dst, out, _, _, h => by rw [splitQueries] at h; cases h
  | .mk source ops, dst, out, ht, hd, h => by
    rw [splitQueries] at h
    rw [tabPhFree] at ht
    obtain ⟨dst1, h1, h⟩ := bind_ok h
    have ih := splitOps_subCF src scope hsc ops source dst.length dst dst1 ht hd h1
    split at h
    · cases h; exact forall_snoc ih (chain_subCF ..)
    · cases h; exact ih
theorem splitOps_subCF (src : Bytes) (scope : List (Bytes × List Chunk)) (hsc : ScopeCF scope) :
    ∀ (ops : OpList) (source : Option Ident) (dstStart : Nat) (dst out : List Subquery),
      opsPhFree ops = true → (∀ s ∈ dst, SubCF s) →
      splitOps src scope source dstStart dst ops = .ok out → ∀ s ∈ out, SubCF s
  | .nil, source, dstStart, dst, out, _, hd, h => by
    rw [splitOps] at h; cases h; exact hd
  | .cons (.count p k) rest, source, dstStart, dst, out, ht, hd, h => by
    simp only [splitOps] at h
    rw [opsPhFree, Bool.and_eq_true] at ht
    refine splitOps_subCF src scope hsc rest source dstStart _ out ht.2 (forall_snoc hd ?_) h
    exact store_subCF (chain_subCF dst dstStart source) ⟨rfl, rfl⟩ _ rfl ht.1
  | .cons (.where_ p k e) rest, source, dstStart, dst, out, ht, hd, h => by
    simp only [splitOps] at h
    rw [opsPhFree, Bool.and_eq_true] at ht
    refine splitOps_subCF src scope hsc rest source dstStart _ out ht.2 (forall_snoc hd ?_) h
    exact store_subCF (chain_subCF dst dstStart source) ⟨rfl, rfl⟩ _ rfl ht.1
  | .cons (.project p k cs) rest, source, dstStart, dst, out, ht, hd, h => by
    simp only [splitOps] at h
    rw [opsPhFree, Bool.and_eq_true] at ht
    refine splitOps_subCF src scope hsc rest source dstStart _ out ht.2 (forall_snoc hd ?_) h
    exact store_subCF (chain_subCF dst dstStart source) ⟨rfl, rfl⟩ _ rfl ht.1
  | .cons (.extend p k cs) rest, source, dstStart, dst, out, ht, hd, h => by
    simp only [splitOps] at h
    rw [opsPhFree, Bool.and_eq_true] at ht
    refine splitOps_subCF src scope hsc rest source dstStart _ out ht.2 (forall_snoc hd ?_) h
    exact store_subCF (chain_subCF dst dstStart source) ⟨rfl, rfl⟩ _ rfl ht.1
  | .cons (.summarize p k cs b gs) rest, source, dstStart, dst, out, ht, hd, h => by
    simp only [splitOps] at h
    rw [opsPhFree, Bool.and_eq_true] at ht
    refine splitOps_subCF src scope hsc rest source dstStart _ out ht.2 (forall_snoc hd ?_) h
    exact store_subCF (chain_subCF dst dstStart source) ⟨rfl, rfl⟩ _ rfl ht.1
  | .cons (.render p k ch w lp props rp) rest, source, dstStart, dst, out, ht, hd, h => by
    simp only [splitOps] at h
    rw [opsPhFree, Bool.and_eq_true] at ht
    refine splitOps_subCF src scope hsc rest source dstStart _ out ht.2 (forall_snoc hd ?_) h
    exact store_subCF (chain_subCF dst dstStart source) ⟨rfl, rfl⟩ _ rfl ht.1
  | .cons (.as_ p k n) rest, source, dstStart, dst, out, ht, hd, h => by
    simp only [splitOps] at h
    rw [opsPhFree, Bool.and_eq_true] at ht
    refine splitOps_subCF src scope hsc rest source dstStart _ out ht.2 (forall_snoc hd ?_) h
    exact store_subCF (chain := { chainSubquery dst dstStart source with name := identName n })
      ⟨(chain_subCF dst dstStart source).1, rfl⟩ ⟨rfl, rfl⟩ _ rfl ht.1
  | .cons (.sort p k terms) rest, source, dstStart, dst, out, ht, hd, h => by
    simp only [splitOps] at h
    rw [opsPhFree, Bool.and_eq_true, opPhFree] at ht
    refine splitOps_subCF src scope hsc rest source dstStart _ out ht.2 ?_ h
    exact attach_subCF hd _ dstStart source (setSort_subCF terms ht.1)
  | .cons (.take p k n) rest, source, dstStart, dst, out, ht, hd, h => by
    simp only [splitOps] at h
    rw [opsPhFree, Bool.and_eq_true, opPhFree] at ht
    refine splitOps_subCF src scope hsc rest source dstStart _ out ht.2 ?_ h
    exact attach_subCF hd _ dstStart source (setTake_subCF n ht.1)
  | .cons (.top p k n b none) rest, source, dstStart, dst, out, _, hd, h => by
    simp only [splitOps] at h; cases h
  | .cons (.top p k n b (some c)) rest, source, dstStart, dst, out, ht, hd, h => by
    simp only [splitOps] at h
    rw [opsPhFree, Bool.and_eq_true, opPhFree, Bool.and_eq_true] at ht
    refine splitOps_subCF src scope hsc rest source dstStart _ out ht.2 ?_ h
    refine attach_subCF hd _ dstStart source (fun s hs => ?_)
    have h1 := setSort_subCF [c] (by simpa [termsPhFree] using ht.1.2) s hs
    exact setTake_subCF n ht.1.1 _ h1
  | .cons (.join p k kind ka fl lp right rp on conds) rest, source, dstStart, dst, out, ht, hd, h => by
    simp only [splitOps] at h
    rw [opsPhFree, Bool.and_eq_true, opPhFree, Bool.and_eq_true] at ht
    obtain ⟨dst1, h1, h⟩ := bind_ok h
    have ihr := splitQueries_subCF src scope hsc right dst dst1 ht.1.1 hd h1
    split at h
    · cases h
    · rename_i kw hkw
      obtain ⟨cond, hc, h⟩ := bind_ok h
      have hcond := writeExpr_cf ⟨src, scope, .join⟩ hsc _ (buildJoin_phFree conds ht.1.2) _ hc
      refine splitOps_subCF src scope hsc rest source dstStart _ out ht.2 (forall_snoc ihr ?_) h
      refine ⟨joinSource_cf _ ?_ hcond (joinKw_cases hkw) _, rfl⟩
      split
      · split <;> rfl
      · rfl
end

/-! ### the statement loop and the assembly -/

theorem compileStmts_cf (src : Bytes) :
    ∀ (stmts : List Stmt) (scope : List (Bytes × List Chunk)) (q : Option Tabular)
      (scope' : List (Bytes × List Chunk)) (q' : Option Tabular),
      (∀ s ∈ stmts, stmtPhFree s = true) → (∀ t, q = some t → tabPhFree t = true) → ScopeCF scope →
      compileStmts src stmts scope q = .ok (scope', q') →
      ScopeCF scope' ∧ ∀ t, q' = some t → tabPhFree t = true
  | [], scope, q, scope', q', _, hq, hs, h => by
    rw [compileStmts] at h; cases h; exact ⟨hs, hq⟩
  | .tabular t :: rest, scope, q, scope', q', hst, hq, hs, h => by
    cases q with
    | some t0 => simp only [compileStmts] at h; cases h
    | none =>
      simp only [compileStmts] at h
      refine compileStmts_cf src rest scope (some t) scope' q'
        (fun s hs' => hst s (List.mem_cons_of_mem _ hs')) ?_ hs h
      intro t' ht'
      cases ht'
      exact hst (.tabular t) List.mem_cons_self
  | .let_ kw name asg x :: rest, scope, q, scope', q', hst, hq, hs, h => by
    have hrest : ∀ s ∈ rest, stmtPhFree s = true := fun s hs' => hst s (List.mem_cons_of_mem _ hs')
    cases q with
    | some t0 =>
      simp only [compileStmts] at h
      exact compileStmts_cf src rest scope (some t0) scope' q' hrest hq hs h
    | none =>
      simp only [compileStmts] at h
      split at h
      · cases h
      · rename_i sql hsql
        obtain ⟨body, hbody, rfl⟩ := map_ok hsql
        split at h
        · cases h
        · rename_i n
          refine compileStmts_cf src rest _ none scope' q' hrest hq ?_ h
          intro p hp
          rcases List.mem_cons.mp hp with rfl | hp
          · rw [CF_wrapTight]
            exact writeExpr_cf ⟨src, scope, .let_⟩ hs x (hst _ List.mem_cons_self) body hbody
          · exact hs p hp

theorem finish_cf (src : Bytes) (scope : List (Bytes × List Chunk)) (hsc : ScopeCF scope) (t : Tabular)
    (ht : tabPhFree t = true) (cs : List Chunk) (hc : C14.finishChunks src scope (some t) = .ok cs) :
    CF cs = true := by
  simp only [C14.finishChunks] at hc
  obtain ⟨subs, hs, hc⟩ := bind_ok hc
  have hall := splitQueries_subCF src scope hsc t [] subs ht (by simp) hs
  split at hc
  · cases hc
  · rename_i query ctesRev hrev
    have hmem : ∀ s ∈ query :: ctesRev, SubCF s := by
      intro s h; rw [← hrev] at h; exact hall s (List.mem_reverse.mp h)
    have hq := hmem query List.mem_cons_self
    split at hc
    · obtain ⟨wp, hwp, hc⟩ := bind_ok hc
      obtain ⟨body, hb, hc⟩ := bind_ok hc
      cases hwp; cases hc
      have := write_cf ⟨src, scope, .default⟩ hsc hq.1 hq.2 hb
      cf_close
    · obtain ⟨c, hcte, hc⟩ := bind_ok hc
      obtain ⟨wp, hwp, hc⟩ := bind_ok hc
      obtain ⟨body, hb, hc⟩ := bind_ok hc
      cases hwp; cases hc
      have := write_cf ⟨src, scope, .default⟩ hsc hq.1 hq.2 hb
      have := writeCtes_cf ⟨src, scope, .default⟩ hsc ctesRev.reverse
        (fun s h => hmem s (List.mem_cons_of_mem _ (List.mem_reverse.mp h))) c hcte
      cf_close

/-- the chunks of a program without placeholder sites, compiled from a comment-free initial scope -/
theorem program_cf_from (src : Bytes) (scope0 : List (Bytes × List Chunk)) (hs0 : ScopeCF scope0)
    (stmts : List Stmt) (hst : ∀ s ∈ stmts, stmtPhFree s = true) (cs : List Chunk)
    (hc : (compileStmts src stmts scope0 none >>= fun r => C14.finishChunks src r.1 r.2) = .ok cs) :
    CF cs = true := by
  obtain ⟨⟨scope, q⟩, hx, hc⟩ := bind_ok hc
  obtain ⟨hsc, hq⟩ := compileStmts_cf src stmts scope0 none scope q hst (fun _ h => by cases h) hs0 hx
  dsimp only at hc
  cases q with
  | none => simp only [C14.finishChunks] at hc; cases hc
  | some t => exact finish_cf src scope hsc t (hq t rfl) cs hc

/-- … for every parameter list (parameters are raw SQL text) -/
theorem program_cf (src : Bytes) (params : List (Bytes × Bytes)) (stmts : List Stmt)
    (hst : ∀ s ∈ stmts, stmtPhFree s = true) (cs : List Chunk)
    (hc : compileChunks src params stmts = .ok cs) : CF cs = true := by
  rw [C14.compileChunks_eq] at hc
  exact program_cf_from src _ (scopeCF_params params) stmts hst cs hc

end Pql.WriteInv
