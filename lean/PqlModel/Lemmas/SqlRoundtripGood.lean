/-
ParseRoundtrip, stage (c)/(d): the invariant `Good ctx e` of the structural induction — what the
writer emits for `e` is read as the intended translation of `e`, as an expression, and, when
`writeExpressionMaybeParen` leaves it bare, as a unit / an atom — and the exclusions `shapeOK`.
-/
import PqlModel.Lemmas.SqlRoundtripForms
namespace Pql.RT
open Pql Sql CompileOracle

mutual
/-- trees on which the round trip can hold at all (see `C01Syntactic.lean` for the counterexamples
    outside): identifiers have at least one part, `in` has at least one value, and a pass-through
    function name is not an operator word of the SQL expression grammar -/
def shapeOK : Expr → Bool
  | .nil => false
  | .qident parts => !parts.isEmpty
  | .lit .. => true
  | .unary _ _ x => shapeOK x
  | .binary x _ _ y => shapeOK x && shapeOK y
  | .inE x _ _ vals _ => shapeOK x && shapeOKList vals && vals.length != 0
  | .paren _ x _ => shapeOK x
  | .call fn _ args _ => ((knownFunction fn.name).isSome || wordSafe fn.name) && shapeOKList args
  | .index x _ idx _ => shapeOK x && shapeOK idx
def shapeOKList : ExprList → Bool
  | .nil => true
  | .cons e es => shapeOK e && shapeOKList es
end

def Good (ctx : Ctx) (e : Expr) : Prop :=
  ∀ cs want, writeExpr ctx e = .ok cs → tr (ctx.mode == .join) e = some want →
    ExprP (toksOf cs) want ∧
    (needsWrap e = false → UnitP (toksOf cs) want) ∧
    (needsWrap e = false → isSigned e = false → AtomP (toksOf cs) want)

theorem Good.ofExpr {ctx : Ctx} {e : Expr} (hw : needsWrap e = true)
    (h : ∀ cs want, writeExpr ctx e = .ok cs → tr (ctx.mode == .join) e = some want → ExprP (toksOf cs) want) :
    Good ctx e := by
  intro cs want h1 h2
  refine ⟨h cs want h1 h2, ?_, ?_⟩
  · intro h'; rw [hw] at h'; cases h'
  · intro h'; rw [hw] at h'; cases h'


theorem Good.ofUnit {ctx : Ctx} {e : Expr} (hs : isSigned e = true)
    (h : ∀ cs want, writeExpr ctx e = .ok cs → tr (ctx.mode == .join) e = some want → UnitP (toksOf cs) want) :
    Good ctx e := by
  intro cs want h1 h2
  refine ⟨(h cs want h1 h2).toExpr, fun _ => h cs want h1 h2, ?_⟩
  intro _ h'; rw [hs] at h'; cases h'


theorem Good.ofAtom {ctx : Ctx} {e : Expr}
    (h : ∀ cs want, writeExpr ctx e = .ok cs → tr (ctx.mode == .join) e = some want → AtomP (toksOf cs) want) :
    Good ctx e := fun cs want h1 h2 =>
  ⟨(h cs want h1 h2).toExpr, fun _ => (h cs want h1 h2).toUnit, fun _ _ => h cs want h1 h2⟩

theorem toksOf_paren (body : List Chunk) : toksOf (parenthesise body) = S "(" :: (toksOf body ++ [S ")"]) := by
  simp [parenthesise]

/-- an operand written by `writeExpressionMaybeParen` is a unit -/
theorem Good.unit {ctx : Ctx} {x : Expr} (g : Good ctx x) {body : List Chunk} {w : SExpr}
    (h1 : writeExpr ctx x = .ok body) (h2 : tr (ctx.mode == .join) x = some w) :
    UnitP (toksOf (wrapMaybe x body)) w := by
  obtain ⟨he, hu, _⟩ := g body w h1 h2
  unfold wrapMaybe
  cases hn : needsWrap x with
  | true => simp only [if_true, toksOf_paren]; exact he.paren.toUnit
  | false => simpa using hu hn

/-- an operand written by `writeExpressionTight` is an atom -/
theorem Good.tight {ctx : Ctx} {x : Expr} (g : Good ctx x) {body : List Chunk} {w : SExpr}
    (h1 : writeExpr ctx x = .ok body) (h2 : tr (ctx.mode == .join) x = some w) :
    AtomP (toksOf (wrapTight x body)) w := by
  obtain ⟨he, _, ha⟩ := g body w h1 h2
  unfold wrapTight wrapMaybe
  cases hs : isSigned x with
  | true => simp only [if_true, toksOf_paren]; exact he.paren
  | false =>
    cases hn : needsWrap x with
    | true => simp only [Bool.false_eq_true, if_false, if_true, toksOf_paren]; exact he.paren
    | false => simpa using ha hn hs

theorem Good.expr {ctx : Ctx} {x : Expr} (g : Good ctx x) {body : List Chunk} {w : SExpr}
    (h1 : writeExpr ctx x = .ok body) (h2 : tr (ctx.mode == .join) x = some w) : ExprP (toksOf body) w :=
  (g body w h1 h2).1

/-! ### parentheses, literals -/

theorem good_paren {ctx : Ctx} {x : Expr} (a b : Span) (g : Good ctx x) : Good ctx (.paren a x b) := by
  intro cs want h1 h2
  simp only [writeExpr] at h1
  simp only [tr] at h2
  simp only [needsWrap, isSigned]
  exact g cs want h1 h2

theorem good_lit {ctx : Ctx} (sp : Span) (k : TokKind) (v : Bytes) (hok : (Expr.lit sp k v).lexOK = true) :
    Good ctx (.lit sp k v) := by
  apply Good.ofAtom
  intro cs want h1 h2
  simp only [Expr.lexOK] at hok
  by_cases hk : k = .number
  · simp only [writeExpr, hk, if_true, Except.ok.injEq] at h1
    simp only [tr, hk, if_true, Option.some.injEq] at h2
    subst h1 h2
    simpa using numP v
  · simp only [hk, if_false, decide_eq_true_eq] at hok
    subst hok
    simp only [writeExpr, reduceCtorEq, if_false, if_true, Except.ok.injEq] at h1
    simp only [tr, reduceCtorEq, if_false, if_true, Option.some.injEq] at h2
    subst h1 h2
    simpa using strP v

end Pql.RT
