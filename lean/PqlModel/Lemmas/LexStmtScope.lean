/-
LexRender for whole statements, part 0: `writeExpr_good` generalised from the empty scope to
every scope satisfying `ScopeAdj` (each bound chunk list is adjacent before every separator and
does not start with `-`).  This is what `let` statements establish: a scope entry is
`wrapTight x (writeExpr ⟨src, scope, .let_⟩ x)` for an `Expr.lexOK` value `x`.

The mutual induction is the one of Lemmas/LexRenderExpr.lean with the identifier case extended
by the scope lookup.
-/
import PqlModel.Lemmas.LexRenderExpr
namespace Pql.C05
open Pql Sql LexRender

/-- the invariant on scopes -/
def ScopeAdj (scope : List (Bytes × List Chunk)) : Prop :=
  ∀ p ∈ scope, Good p.2 ∧ HeadNotMinus p.2

theorem lookupScope_mem {scope : List (Bytes × List Chunk)} {name : Bytes} {sql : List Chunk}
    (h : lookupScope scope name = some sql) : ∃ p ∈ scope, p.2 = sql := by
  unfold lookupScope at h
  obtain ⟨p, hp, rfl⟩ := Option.map_eq_some_iff.mp h
  exact ⟨p, List.mem_of_find?_eq_some hp, rfl⟩

theorem writeExpr_qident_scope {ctx : Ctx} {parts : List Ident} {cs : List Chunk}
    (h : writeExpr ctx (.qident parts) = .ok cs) :
    (∃ p ∈ ctx.scope, p.2 = cs) ∨
    (∃ sql, cs = [.txt sql] ∧ sql ∈ ["FALSE", "NULL", "TRUE"]) ∨
      cs = sepChunks "." (parts.map fun p => [Chunk.qid p.name]) := by
  have tail : ∀ {r : W}, (if ctx.mode = Mode.let_ then some (Except.error WErr.err) else none) = some r →
      r ≠ .ok cs := by
    intro r hr; split at hr
    · cases hr; intro e; cases e
    · cases hr
  have fin : ∀ {c : Prop} [Decidable c] {ps : List Ident},
      (if c then Except.error WErr.err else Except.ok (sepChunks "." (ps.map fun p => [Chunk.qid p.name]))) = Except.ok cs →
      cs = sepChunks "." (ps.map fun p => [Chunk.qid p.name]) := by
    intro c _ ps hh; split at hh
    · cases hh
    · cases hh; rfl
  rcases parts with _ | ⟨p, _ | ⟨q, ps⟩⟩
  · simp only [writeExpr] at h
    split at h
    · rename_i r hr; exact absurd h (tail hr)
    · exact Or.inr (Or.inr (fin h))
  · simp only [writeExpr] at h
    split at h
    · rename_i r hr
      split at hr
      · split at hr
        · rename_i sql hl
          cases hr
          cases h
          exact Or.inl (lookupScope_mem hl)
        · split at hr
          · rename_i sql hb
            cases hr
            cases h
            exact Or.inr (Or.inl ⟨sql, rfl, builtin_mem hb⟩)
          · exact absurd h (tail hr)
      · exact absurd h (tail hr)
    · exact Or.inr (Or.inr (fin h))
  · simp only [writeExpr] at h
    split at h
    · rename_i r hr; exact absurd h (tail hr)
    · exact Or.inr (Or.inr (fin h))
mutual

theorem writeExpr_good_scope (ctx : Ctx) (hscope : ScopeAdj ctx.scope) :
    (e : Expr) → e.lexOK = true → (cs : List Chunk) → writeExpr ctx e = .ok cs → ExprInv e cs
  | .nil, hok, _, _ => by simp [Expr.lexOK] at hok
  | .paren _ x _, hok, cs, h => by
    simp only [writeExpr] at h
    simp only [Expr.lexOK] at hok
    have ih := writeExpr_good_scope ctx hscope x hok cs h
    exact ⟨ih.1, fun hs hw => ih.2 (by simpa [isSigned] using hs) (by simpa [needsWrap] using hw)⟩
  | .qident parts, _, cs, h => by
    rcases writeExpr_qident_scope h with ⟨p, hp, rfl⟩ | ⟨sql, rfl, hm⟩ | rfl
    · exact ⟨(hscope p hp).1, fun _ _ => (hscope p hp).2⟩
    · have := good_builtin hm
      exact ⟨this.1, fun _ _ => this.2⟩
    · exact ⟨fun rest hr => adj_qids parts rest (sepHead_not_dq hr), fun _ _ => head_qids parts⟩
  | .lit _ k v, hok, cs, h => by
    simp only [writeExpr] at h
    simp only [Expr.lexOK] at hok
    by_cases hk : k = .number
    · rw [if_pos hk] at h hok
      cases h
      exact ⟨good_num hok, fun _ _ => head_num hok⟩
    · rw [if_neg hk] at h hok
      have hk2 : k = .string := by simpa using hok
      rw [if_pos hk2] at h
      cases h
      exact ⟨good_qstr v, fun _ _ => head_qstr v⟩
  | .unary _ op x, hok, cs, h => by
    simp only [writeExpr] at h
    simp only [Expr.lexOK, Bool.and_eq_true, Bool.or_eq_true, decide_eq_true_eq] at hok
    obtain ⟨xs', hx', hcs⟩ := bind_ok h
    obtain ⟨xs, hx, rfl⟩ := map_ok hx'
    have ih := writeExpr_good_scope ctx hscope x hok.2 xs hx
    have hg := good_wrapTight x ih.1
    have hh := head_wrapTight x ih.2
    refine ⟨fun rest hr => ?_, fun hs => by simp [isSigned] at hs⟩
    rcases hok.1 with rfl | rfl
    · simp only [if_true] at hcs
      cases hcs
      exact adj_txt_inert (by decide) (hg rest hr)
    · have : ¬ (TokKind.minus = TokKind.plus) := by decide
      simp only [this, if_false, if_true] at hcs
      cases hcs
      exact AdjC_cons (adj_minus (hh rest (sepHead_not_minus hr))) (hg rest hr)
  | .binary x _ op y, hok, cs, h => by
    simp only [writeExpr] at h
    simp only [Expr.lexOK, Bool.and_eq_true] at hok
    refine ⟨?_, fun _ hw => by rw [needsWrap_binary] at hw; cases hw⟩
    have wrapped : ∀ {k : List Chunk → List Chunk → List Chunk},
        (do let xs ← Except.map (wrapMaybe x) (writeExpr ctx x)
            let ys ← Except.map (wrapMaybe y) (writeExpr ctx y)
            pure (k xs ys) : W) = .ok cs →
        ∃ xs ys, Good xs ∧ Good ys ∧ cs = k xs ys := by
      intro k hh
      obtain ⟨xs', hx', hh⟩ := bind_ok hh
      obtain ⟨ys', hy', hh⟩ := bind_ok hh
      obtain ⟨xs, hx, rfl⟩ := map_ok hx'
      obtain ⟨ys, hy, rfl⟩ := map_ok hy'
      cases hh
      exact ⟨_, _, good_wrapMaybe x (writeExpr_good_scope ctx hscope x hok.1 xs hx).1,
        good_wrapMaybe y (writeExpr_good_scope ctx hscope y hok.2 ys hy).1, rfl⟩
    have plain : ∀ {k : List Chunk → List Chunk → List Chunk},
        (do let xs ← writeExpr ctx x
            let ys ← writeExpr ctx y
            pure (k xs ys) : W) = .ok cs →
        ∃ xs ys, Good xs ∧ Good ys ∧ cs = k xs ys := by
      intro k hh
      obtain ⟨xs, hx, hh⟩ := bind_ok hh
      obtain ⟨ys, hy, hh⟩ := bind_ok hh
      cases hh
      exact ⟨_, _, (writeExpr_good_scope ctx hscope x hok.1 xs hx).1,
        (writeExpr_good_scope ctx hscope y hok.2 ys hy).1, rfl⟩
    by_cases h1 : op = .eq
    · rw [if_pos h1] at h
      split at h
      · obtain ⟨xs, ys, hx, hy, rfl⟩ := wrapped (k := fun xs ys => xs ++ Chunk.txt " = " :: ys) h
        intro rest hr; adj_chain
      · obtain ⟨xs, ys, hx, hy, rfl⟩ := wrapped
          (k := fun xs ys => Chunk.txt "coalesce(" :: xs ++ Chunk.txt " = " :: ys ++ [Chunk.txt ", FALSE)"]) h
        intro rest hr; adj_chain
    rw [if_neg h1] at h
    by_cases h2 : op = .ne
    · rw [if_pos h2] at h
      obtain ⟨xs, ys, hx, hy, rfl⟩ := wrapped
        (k := fun xs ys => Chunk.txt "coalesce(" :: xs ++ Chunk.txt " <> " :: ys ++ [Chunk.txt ", FALSE)"]) h
      intro rest hr; adj_chain
    rw [if_neg h2] at h
    by_cases h3 : op = .cieq
    · rw [if_pos h3] at h
      obtain ⟨xs, ys, hx, hy, rfl⟩ := plain
        (k := fun xs ys => Chunk.txt "lower(" :: xs ++ Chunk.txt ") = lower(" :: ys ++ [Chunk.txt ")"]) h
      intro rest hr; adj_chain
    rw [if_neg h3] at h
    by_cases h4 : op = .cine
    · rw [if_pos h4] at h
      obtain ⟨xs, ys, hx, hy, rfl⟩ := plain
        (k := fun xs ys => Chunk.txt "lower(" :: xs ++ Chunk.txt ") <> lower(" :: ys ++ [Chunk.txt ")"]) h
      intro rest hr; adj_chain
    rw [if_neg h4] at h
    cases hb : binaryOpText op with
    | none =>
      rw [hb] at h
      cases h
      intro rest _
      exact adj_txt_inert (good_unhandled_binary op) (AdjC_nil _)
    | some sql =>
      rw [hb] at h
      obtain ⟨xs, ys, hx, hy, rfl⟩ := wrapped
        (k := fun xs ys => xs ++ Chunk.txt " " :: Chunk.txt sql :: Chunk.txt " " :: ys) h
      have hm := binaryOp_mem hb
      simp only [List.mem_cons, List.not_mem_nil, or_false] at hm
      intro rest hr
      rcases hm with rfl | rfl | rfl | rfl | rfl | rfl | rfl | rfl | rfl | rfl | rfl <;> adj_chain
  | .inE x _ _ vals _, hok, cs, h => by
    simp only [writeExpr] at h
    simp only [Expr.lexOK, Bool.and_eq_true] at hok
    refine ⟨?_, fun _ hw => by rw [needsWrap_in] at hw; cases hw⟩
    obtain ⟨xs', hx', h⟩ := bind_ok h
    obtain ⟨vs, hv, h⟩ := bind_ok h
    obtain ⟨xs, hx, rfl⟩ := map_ok hx'
    cases h
    have hx := good_wrapMaybe x (writeExpr_good_scope ctx hscope x hok.1 xs hx).1
    have hvs := good_sepChunks (sep := ", ") (by decide) (by decide) vs
      (writeListMP_good_scope ctx hscope vals hok.2 vs hv)
    intro rest hr; adj_chain
  | .index x _ idx _, hok, cs, h => by
    simp only [writeExpr] at h
    simp only [Expr.lexOK, Bool.and_eq_true] at hok
    refine ⟨?_, fun _ hw => by rw [needsWrap_index] at hw; cases hw⟩
    obtain ⟨xs', hx', h⟩ := bind_ok h
    obtain ⟨is, hi, h⟩ := bind_ok h
    obtain ⟨xs, hx, rfl⟩ := map_ok hx'
    cases h
    have hx := good_wrapTight x (writeExpr_good_scope ctx hscope x hok.1 xs hx).1
    have hi := (writeExpr_good_scope ctx hscope idx hok.2 is hi).1
    intro rest hr; adj_chain
  | .call fn _ args _, hok, cs, h => by
    simp only [writeExpr] at h
    simp only [Expr.lexOK, Bool.and_eq_true, Bool.or_eq_true] at hok
    cases hk : knownFunction fn.name with
    | some wf =>
      obtain ⟨writer, flag⟩ := wf
      rw [hk] at h
      dsimp only at h
      split at h
      · cases h
      · obtain ⟨as, has, h⟩ := bind_ok h
        have hall := writeList_good_scope ctx hscope args hok.2 as has
        have := assembleKnown_good (known_mem hk) (args.toList.zip as)
          (fun a ha => hall a.2 (List.of_mem_zip (a := a.1) (b := a.2) ha).2) cs h
        refine ⟨this.1, fun _ hw => this.2 ?_⟩
        simp only [needsWrap, hk] at hw
        cases flag
        · rfl
        · simp at hw
    | none =>
      rw [hk] at h
      dsimp only at h
      obtain ⟨as, has, h⟩ := bind_ok h
      cases h
      have hname : nameOK fn.name = true := by
        rcases hok.1 with h1 | h1
        · rw [hk] at h1; cases h1
        · exact h1
      have has' := good_sepChunks (sep := ", ") (by decide) (by decide) as
        (writeList_good_scope ctx hscope args hok.2 as has)
      refine ⟨fun rest hr => ?_, fun _ _ => head_fname hname _⟩
      refine AdjC_cons (adj_fname hname (fname_follow _ rest)) ?_
      adj_chain

theorem writeList_good_scope (ctx : Ctx) (hscope : ScopeAdj ctx.scope) :
    (es : ExprList) → es.lexOK = true → (as : List (List Chunk)) → writeList ctx es = .ok as →
      ∀ b ∈ as, Good b
  | .nil, _, as, h => by
    simp only [writeList] at h; cases h; simp
  | .cons e es, hok, as, h => by
    simp only [writeList] at h
    simp only [ExprList.lexOK, Bool.and_eq_true] at hok
    obtain ⟨x, hx, h⟩ := bind_ok h
    obtain ⟨xs, hxs, h⟩ := bind_ok h
    cases h
    intro b hb
    rcases List.mem_cons.mp hb with rfl | hb
    · exact (writeExpr_good_scope ctx hscope e hok.1 _ hx).1
    · exact writeList_good_scope ctx hscope es hok.2 xs hxs b hb

theorem writeListMP_good_scope (ctx : Ctx) (hscope : ScopeAdj ctx.scope) :
    (es : ExprList) → es.lexOK = true → (vs : List (List Chunk)) → writeListMaybeParen' ctx es = .ok vs →
      ∀ b ∈ vs, Good b
  | .nil, _, vs, h => by
    simp only [writeListMaybeParen'] at h; cases h; simp
  | .cons e es, hok, vs, h => by
    simp only [writeListMaybeParen'] at h
    simp only [ExprList.lexOK, Bool.and_eq_true] at hok
    obtain ⟨x', hx', h⟩ := bind_ok h
    obtain ⟨xs, hxs, h⟩ := bind_ok h
    obtain ⟨x, hx, rfl⟩ := map_ok hx'
    cases h
    intro b hb
    rcases List.mem_cons.mp hb with rfl | hb
    · exact good_wrapMaybe e (writeExpr_good_scope ctx hscope e hok.1 _ hx).1
    · exact writeListMP_good_scope ctx hscope es hok.2 xs hxs b hb

end


theorem scopeAdj_nil : ScopeAdj [] := fun _ h => by cases h

/-- what a `let` statement adds to the scope -/
theorem scopeAdj_cons {scope : List (Bytes × List Chunk)} (hs : ScopeAdj scope) (src : Bytes) (mode : Mode)
    {x : Expr} (hx : x.lexOK = true) {body : List Chunk} (h : writeExpr ⟨src, scope, mode⟩ x = .ok body)
    (name : Bytes) : ScopeAdj ((name, wrapTight x body) :: scope) := by
  have ih := writeExpr_good_scope ⟨src, scope, mode⟩ hs x hx body h
  intro p hp
  rcases List.mem_cons.mp hp with rfl | hp
  · exact ⟨good_wrapTight x ih.1, head_wrapTight x ih.2⟩
  · exact hs p hp

end Pql.C05
