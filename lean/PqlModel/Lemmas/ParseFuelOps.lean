/-
Fuel sufficiency for the non-recursive tabular operators: the column / term / property loops are
given `ts.length + 1` iterations, and every iteration but the last consumes a separator token.
`fuel` is the fuel handed to the expression parser, which needs `4 * ts.length + 4`.
-/
import PqlModel.Lemmas.ParseFuelExpr
namespace Pql

/-! ### rowCount, sortTerm -/

theorem pRowCount_noFuel (c : PCtx) (fuel : Nat) (ts : List Token) (hf : 4 * ts.length + 4 ≤ fuel) :
    NoFuel (pRowCount c fuel ts).errs := by
  have h1 := pExpr_noFuel c fuel ts hf
  simp only [pRowCount]
  split
  · exact h1
  · split
    · split
      · exact h1
      · exact NoFuel.errNoPos
    · exact h1

theorem pRowCount_rest_le (c : PCtx) (fuel : Nat) (ts : List Token) :
    (pRowCount c fuel ts).rest.length ≤ ts.length := by
  have h1 := pExpr_rest_le c fuel ts
  simp only [pRowCount]
  split
  · exact h1
  · split
    · split
      · exact h1
      · exact h1
    · exact h1

theorem pSortTerm_rest_le (c : PCtx) (fuel : Nat) (ts : List Token) :
    (pSortTerm c fuel ts).rest.length ≤ ts.length := by
  have h1 := pExpr_rest_le c fuel ts
  simp only [pSortTerm]
  split
  · exact h1
  · generalize (pExpr c fuel ts).rest = rr at h1 ⊢
    cases rr with
    | nil => simp
    | cons t rest =>
      simp only [List.length_cons] at h1
      by_cases ha : isIdentNamed t "asc" = true
      · simp only [ha, if_true, Bool.not_true, Bool.false_eq_true, if_false]
        repeat' split
        all_goals (simp only [List.length_cons, List.length_nil] at *; omega)
      · by_cases hd : isIdentNamed t "desc" = true
        · simp only [ha, hd, if_true, Bool.not_true, Bool.false_eq_true, if_false]
          repeat' split
          all_goals (simp only [List.length_cons, List.length_nil] at *; omega)
        · by_cases hn : isIdentNamed t "nulls" = true
          · simp only [ha, hd, hn, if_true, Bool.not_true, Bool.false_eq_true, if_false]
            repeat' split
            all_goals (simp only [List.length_cons, List.length_nil] at *; omega)
          · simp only [ha, hd, hn, if_true, Bool.not_false, Bool.false_eq_true, if_false,
              List.length_cons]
            omega

/-- closes leaf goals `NoFuel es` where `es` is one of the primitive error lists -/
macro "nf_leaf" : tactic =>
  `(tactic| first
    | exact NoFuel.nil | exact NoFuel.errAt _ | exact NoFuel.nfAt _ | exact NoFuel.errNoPos
    | assumption)

theorem pSortTerm_noFuel (c : PCtx) (fuel : Nat) (ts : List Token) (hf : 4 * ts.length + 4 ≤ fuel) :
    NoFuel (pSortTerm c fuel ts).errs := by
  have h1 := pExpr_noFuel c fuel ts hf
  simp only [pSortTerm]
  split
  · exact h1
  · repeat' split
    all_goals nf_leaf

/-- the term loop of `sort by`: one iteration per remaining token (plus one) suffices -/
theorem pSortTerms_noFuel (c : PCtx) (fuel : Nat) : ∀ (k : Nat) (acc : List SortTerm) (ts : List Token),
    4 * ts.length + 4 ≤ fuel → ts.length + 1 ≤ k → NoFuel (pSortTerms c fuel k acc ts).errs := by
  intro k
  induction k with
  | zero => intro acc ts _ hk; omega
  | succ k ih =>
    intro acc ts hf hk
    have h1 := pSortTerm_noFuel c fuel ts hf
    have hl := pSortTerm_rest_le c fuel ts
    simp only [pSortTerms]
    split
    · exact h1.mkOpaque
    · split
      · rename_i t rest heq
        rw [heq] at hl
        simp only [List.length_cons] at hl
        split
        · exact ih _ _ (by omega) (by omega)
        · exact NoFuel.nil
      · exact NoFuel.nil

/-! ### named columns (extend / summarize) -/

theorem pNamedColumn_rest_le (c : PCtx) (fuel : Nat) (ts : List Token) :
    (pNamedColumn c fuel ts).rest.length ≤ ts.length := by
  simp only [pNamedColumn]
  split
  · rename_i id asg rest heq
    have hr : rest.length ≤ ts.length := by
      split at heq
      · rename_i id' t rest' hv hrest
        have := pIdent_some_rest c ts id' hv
        rw [hrest] at this
        simp only [List.length_cons] at this
        split at heq
        · simp only [Option.some.injEq, Prod.mk.injEq] at heq
          obtain ⟨_, _, rfl⟩ := heq
          omega
        · cases heq
      · cases heq
    exact Nat.le_trans (pExpr_rest_le c fuel rest) hr
  · exact pExpr_rest_le c fuel ts

theorem pNamedColumn_noFuel (c : PCtx) (fuel : Nat) (ts : List Token) (hf : 4 * ts.length + 4 ≤ fuel) :
    NoFuel (pNamedColumn c fuel ts).errs := by
  simp only [pNamedColumn]
  split
  · rename_i id asg rest heq
    have hr : rest.length ≤ ts.length := by
      split at heq
      · rename_i id' t rest' hv hrest
        have := pIdent_some_rest c ts id' hv
        rw [hrest] at this
        simp only [List.length_cons] at this
        split at heq
        · simp only [Option.some.injEq, Prod.mk.injEq] at heq
          obtain ⟨_, _, rfl⟩ := heq
          omega
        · cases heq
      · cases heq
    exact (pExpr_noFuel c fuel rest (by omega)).mkOpaque
  · exact pExpr_noFuel c fuel ts hf

/-- `extend` column loop -/
theorem pExtendCols_noFuel (c : PCtx) (fuel : Nat) : ∀ (k : Nat) (acc : List Column) (ts : List Token),
    4 * ts.length + 4 ≤ fuel → ts.length + 1 ≤ k → NoFuel (pExtendCols c fuel k acc ts).errs := by
  intro k
  induction k with
  | zero => intro acc ts _ hk; omega
  | succ k ih =>
    intro acc ts hf hk
    have h1 := pNamedColumn_noFuel c fuel ts hf
    have hl := pNamedColumn_rest_le c fuel ts
    simp only [pExtendCols]
    split
    · exact h1.mkOpaque
    · split
      · rename_i t rest heq
        rw [heq] at hl
        simp only [List.length_cons] at hl
        split
        · exact ih _ _ (by omega) (by omega)
        · exact NoFuel.nil
      · exact NoFuel.nil

/-- `project` column loop -/
theorem pProjectCols_noFuel (c : PCtx) (fuel : Nat) : ∀ (k : Nat) (acc : List Column) (ts : List Token),
    4 * ts.length + 4 ≤ fuel → ts.length + 1 ≤ k → NoFuel (pProjectCols c fuel k acc ts).errs := by
  intro k
  induction k with
  | zero => intro acc ts _ hk; omega
  | succ k ih =>
    intro acc ts hf hk
    have hi := pIdent_noFuel c ts
    have hil := pIdent_rest_le c ts
    simp only [pProjectCols]
    split
    · exact hi.mkOpaque
    · split
      · exact NoFuel.nil
      · rename_i sep rest heq
        rw [heq] at hil
        simp only [List.length_cons] at hil
        split
        · exact ih _ _ (by omega) (by omega)
        · split
          · have he := pExpr_noFuel c fuel rest (by omega)
            have hel := pExpr_rest_le c fuel rest
            split
            · exact he.mkOpaque
            · split
              · exact NoFuel.nil
              · rename_i sep2 rest2 heq2
                rw [heq2] at hel
                simp only [List.length_cons] at hel
                split
                · exact ih _ _ (by omega) (by omega)
                · exact NoFuel.errNoPos
          · exact NoFuel.nil

/-! ### summarize -/

theorem pSummarizeCols_rest_le (c : PCtx) (fuel : Nat) :
    ∀ (k : Nat) (acc : List Column) (cm : Option Span) (ts : List Token),
    (pSummarizeCols c fuel k acc cm ts).rest.length ≤ ts.length := by
  intro k
  induction k with
  | zero => intro acc cm ts; simp [pSummarizeCols]
  | succ k ih =>
    intro acc cm ts
    have hl := pNamedColumn_rest_le c fuel ts
    simp only [pSummarizeCols]
    split
    · simp
    · split
      · exact hl
      · split
        · simp
        · rename_i t rest heq
          rw [heq] at hl
          simp only [List.length_cons] at hl
          split
          · exact Nat.le_trans (ih _ _ _) (by omega)
          · simp only [heq, List.length_cons]; omega

theorem pSummarizeCols_noFuel (c : PCtx) (fuel : Nat) :
    ∀ (k : Nat) (acc : List Column) (cm : Option Span) (ts : List Token),
    4 * ts.length + 4 ≤ fuel → ts.length + 1 ≤ k → NoFuel (pSummarizeCols c fuel k acc cm ts).errs := by
  intro k
  induction k with
  | zero => intro acc cm ts _ hk; omega
  | succ k ih =>
    intro acc cm ts hf hk
    have h1 := pNamedColumn_noFuel c fuel ts hf
    have hl := pNamedColumn_rest_le c fuel ts
    simp only [pSummarizeCols]
    split
    · exact NoFuel.nil
    · split
      · exact h1.mkOpaque
      · split
        · exact NoFuel.nil
        · rename_i t rest heq
          rw [heq] at hl
          simp only [List.length_cons] at hl
          split
          · exact ih _ _ _ (by omega) (by omega)
          · exact NoFuel.nil

theorem pGroupByCols_noFuel (c : PCtx) (fuel : Nat) : ∀ (k : Nat) (acc : List Column) (ts : List Token),
    4 * ts.length + 4 ≤ fuel → ts.length + 1 ≤ k → NoFuel (pGroupByCols c fuel k acc ts).errs := by
  intro k
  induction k with
  | zero => intro acc ts _ hk; omega
  | succ k ih =>
    intro acc ts hf hk
    have h1 := pNamedColumn_noFuel c fuel ts hf
    have hl := pNamedColumn_rest_le c fuel ts
    simp only [pGroupByCols]
    split
    · exact h1.mkOpaque
    · split
      · exact h1.mkOpaque
      · split
        · exact NoFuel.nil
        · rename_i t rest heq
          rw [heq] at hl
          simp only [List.length_cons] at hl
          split
          · exact ih _ _ (by omega) (by omega)
          · exact NoFuel.nil

theorem pSummarize_noFuel (c : PCtx) (fuel : Nat) (pipe kw : Span) (ts : List Token)
    (hf : 4 * ts.length + 4 ≤ fuel) : NoFuel (pSummarize c fuel pipe kw ts).errs := by
  have h1 := pSummarizeCols_noFuel c fuel (ts.length + 1) [] none ts hf (Nat.le_refl _)
  have hl := pSummarizeCols_rest_le c fuel (ts.length + 1) [] none ts
  simp only [pSummarize]
  split
  · exact h1
  · split
    · repeat' split
      all_goals nf_leaf
    · rename_i sep rest heq
      rw [heq] at hl
      simp only [List.length_cons] at hl
      split
      · repeat' split
        all_goals nf_leaf
      · exact pGroupByCols_noFuel c fuel _ _ _ (by omega) (Nat.le_refl _)

/-! ### render -/

theorem pRenderProp_rest_le (c : PCtx) (fuel : Nat) (ts : List Token) :
    (pRenderProp c fuel ts).rest.length ≤ ts.length := by
  have hil := pIdent_rest_le c ts
  simp only [pRenderProp]
  split
  · exact hil
  · split
    · simp
    · rename_i t rest heq
      rw [heq] at hil
      simp only [List.length_cons] at hil
      have hel := pExpr_rest_le c fuel rest
      split
      · simp only; omega
      · split <;> (simp only; omega)

theorem pRenderProp_noFuel (c : PCtx) (fuel : Nat) (ts : List Token) (hf : 4 * ts.length + 4 ≤ fuel) :
    NoFuel (pRenderProp c fuel ts).errs := by
  have hi := pIdent_noFuel c ts
  have hil := pIdent_rest_le c ts
  simp only [pRenderProp]
  split
  · exact hi
  · split
    · exact NoFuel.errAt _
    · rename_i t rest heq
      rw [heq] at hil
      simp only [List.length_cons] at hil
      have he := pExpr_noFuel c fuel rest (by omega)
      split
      · exact NoFuel.errAt _
      · split
        · exact he
        · exact NoFuel.nil

theorem pRenderProps_noFuel (c : PCtx) (fuel : Nat) :
    ∀ (k : Nat) (acc : List RenderProp) (ts : List Token),
    4 * ts.length + 4 ≤ fuel → ts.length + 1 ≤ k → NoFuel (pRenderProps c fuel k acc ts).errs := by
  intro k
  induction k with
  | zero => intro acc ts _ hk; omega
  | succ k ih =>
    intro acc ts hf hk
    have h1 := pRenderProp_noFuel c fuel ts hf
    have hl := pRenderProp_rest_le c fuel ts
    simp only [pRenderProps]
    split
    · exact h1.mkOpaque
    · split
      · exact NoFuel.errAt _
      · rename_i t rest heq
        rw [heq] at hl
        simp only [List.length_cons] at hl
        split
        · exact NoFuel.nil
        · split
          · exact NoFuel.errAt _
          · exact ih _ _ (by omega) (by omega)

theorem pRender_noFuel (c : PCtx) (fuel : Nat) (pipe kw : Span) (ts : List Token)
    (hf : 4 * ts.length + 4 ≤ fuel) : NoFuel (pRender c fuel pipe kw ts).errs := by
  have hil := pIdent_rest_le c ts
  simp only [pRender]
  split
  · exact NoFuel.errAt _
  · split
    · exact NoFuel.nil
    · rename_i t rest heq
      rw [heq] at hil
      simp only [List.length_cons] at hil
      split
      · exact NoFuel.nil
      · split
        · exact NoFuel.errAt _
        · rename_i lp rest2
          simp only [List.length_cons] at hil
          split
          · exact NoFuel.errAt _
          · exact pRenderProps_noFuel c fuel _ _ _ (by omega) (Nat.le_refl _)

/-! ### let -/

theorem pLet_noFuel (c : PCtx) (fuel : Nat) (ts : List Token) (hf : 4 * ts.length + 4 ≤ fuel) :
    NoFuel (pLet c fuel ts).errs := by
  simp only [pLet]
  split
  · exact NoFuel.nfAt _
  · rename_i kwd rest
    simp only [List.length_cons] at hf
    have hi := pIdent_noFuel c rest
    have hil := pIdent_rest_le c rest
    split
    · exact NoFuel.nfAt _
    · split
      · exact hi.mkOpaque
      · split
        · exact NoFuel.errAt _
        · rename_i asg rest2 heq
          rw [heq] at hil
          simp only [List.length_cons] at hil
          split
          · exact NoFuel.errAt _
          · exact (pExpr_noFuel c fuel rest2 (by omega)).mkOpaque

end Pql
