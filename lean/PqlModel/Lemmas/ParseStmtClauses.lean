/-
C05, syntactic half, stage 2 (b): one lemma per clause of `pSelect` — what each clause parser
returns on the token shapes the writer emits, given that the expressions inside are read as intended
(`ExprP`, from the C01 round trip) — at the fuel `pSelect` actually uses.
-/
import PqlModel.Lemmas.ParseStmtSelect
namespace Pql.C05
set_option linter.unusedSimpArgs false
set_option linter.unusedVariables false
open Pql Sql CompileOracle Intended Pql.RT

def NormEq (s w : SExpr) : Prop := normS s = normS w

/-- the round trip of one expression at the statement parser's fuel -/
theorem _root_.Pql.RT.ExprP.atFuel {ts : List STok} {w : SExpr} {rest : List STok} (h : ExprP ts w) (hr : Ends stopTok rest) :
    ∃ s, NormEq s w ∧ pExprS (fuelOf (ts ++ rest)) 0 (ts ++ rest) = some (s, rest) := by
  obtain ⟨s, hs, N, hN⟩ := h rest hr
  exact ⟨s, hs, pExprS_fuelOf (hN N (Nat.le_refl _))⟩

theorem _root_.Pql.RT.ExprP.ne_nil {ts : List STok} {w : SExpr} (h : ExprP ts w) : 1 ≤ ts.length := by
  obtain ⟨t, tl, rfl, _⟩ := h.head
  simp

/-! ### comma-separated token lists -/

def sepToks : List (List STok) → List STok
  | [] => []
  | [x] => x
  | x :: y :: ys => x ++ S "," :: sepToks (y :: ys)

theorem sepToks_cons (x : List STok) (xs : List (List STok)) :
    sepToks (x :: xs) = x ++ xs.flatMap fun y => S "," :: y := by
  induction xs generalizing x with
  | nil => simp [sepToks]
  | cons y ys ih => simp [sepToks, ih y]

theorem toksOf_sepChunks (xs : List (List Chunk)) : toksOf (sepChunks ", " xs) = sepToks (xs.map toksOf) := by
  match xs with
  | [] => rfl
  | [x] => simp [sepChunks, sepToks]
  | x :: y :: ys =>
    have ih := toksOf_sepChunks (y :: ys)
    simp only [sepChunks, toksOf_append, toksOf_cons, chunkToks_txt, tt_comma, List.map_cons, sepToks] at ih ⊢
    rw [ih]
    simp

theorem toksOf_commaFlat (xs : List (List Chunk)) :
    toksOf (xs.flatMap fun c => .txt ", " :: c) = (xs.map toksOf).flatMap fun y => S "," :: y := by
  induction xs with
  | nil => rfl
  | cons x xs ih => simp [ih]

theorem sepToks_length (xs : List (List STok)) (h : ∀ x ∈ xs, 1 ≤ x.length) : xs.length ≤ (sepToks xs).length := by
  match xs with
  | [] => simp
  | [x] => simpa [sepToks] using h x (by simp)
  | x :: y :: ys =>
    have ih := sepToks_length (y :: ys) (fun z hz => h z (List.mem_cons_of_mem _ hz))
    have := h x (by simp)
    simp only [sepToks, List.length_cons, List.length_append] at ih ⊢
    omega

/-! ### WHERE, LIMIT -/

theorem wherePart_some {ts : List STok} {w : SExpr} {r : List STok} (h : ExprP ts w) (hr : Ends stopTok r) :
    ∃ s, NormEq s w ∧ wherePart (RT.W "WHERE" :: (ts ++ r)) = some (some s, r) := by
  obtain ⟨s, hs, hp⟩ := h.atFuel hr
  exact ⟨s, hs, by simp [wherePart, hp]⟩

theorem wherePart_none {r : List STok} (hr : Ends (endTok ["WHERE"]) r) : wherePart r = some (none, r) := by
  cases r with
  | nil => rfl
  | cons t tl =>
    have := endTok_word (k := "WHERE") hr (by simp)
    simp [wherePart, this]

theorem limitPart_some {ts : List STok} {w : SExpr} {r : List STok} (h : ExprP ts w) (hr : Ends stopTok r) :
    ∃ s, NormEq s w ∧ limitPart (RT.W "LIMIT" :: (ts ++ r)) = some (some s, r) := by
  obtain ⟨s, hs, hp⟩ := h.atFuel hr
  exact ⟨s, hs, by simp [limitPart, hp]⟩

theorem limitPart_none {r : List STok} (hr : Ends (endTok ["LIMIT"]) r) : limitPart r = some (none, r) := by
  cases r with
  | nil => rfl
  | cons t tl =>
    have := endTok_word (k := "LIMIT") hr (by simp)
    simp [limitPart, this]

/-! ### GROUP BY -/

theorem pExprsComma_list {tss : List (List STok)} {wants : List SExpr} (h : ListRel ExprP tss wants) (hne : tss ≠ [])
    {r : List STok} (hr : Ends (endTok []) r) :
    ∀ fuel, tss.length ≤ fuel → ∃ es, pExprsComma fuel (sepToks tss ++ r) = some (es, r) ∧ ListRel NormEq es wants := by
  induction h with
  | nil => exact absurd rfl hne
  | @cons ts w tss' wants' hw hrest ih =>
    intro fuel hf
    obtain ⟨f, rfl⟩ : ∃ f, fuel = f + 1 := ⟨fuel - 1, by simp at hf; omega⟩
    cases hrest with
    | nil =>
      obtain ⟨s, hs, hp⟩ := hw.atFuel (endTok_stop hr)
      refine ⟨[s], ?_, .cons hs .nil⟩
      cases r with
      | nil => simp [sepToks, pExprsComma, hp] at hp ⊢; simp [hp]
      | cons t tl =>
        have hc := endTok_comma hr
        simp [sepToks, pExprsComma, hp, hc]
    | @cons ts2 w2 tss2 wants2 hw2 hrest2 =>
      obtain ⟨es, hes, hrel⟩ := ih (by simp) f (by simp at hf ⊢; omega)
      obtain ⟨s, hs, hp⟩ := hw.atFuel (rest := S "," :: (sepToks (ts2 :: tss2) ++ r)) stop_comma
      refine ⟨s :: es, ?_, .cons hs hrel⟩
      simp only [sepToks, List.append_assoc, List.cons_append]
      simp [pExprsComma, hp, hes]

theorem groupPart_none {r : List STok} (hr : Ends (endTok ["GROUP"]) r) : groupPart r = some ([], r) := by
  match r, hr with
  | [], _ => rfl
  | [t], _ => rfl
  | t :: b :: tl, hr =>
    have := endTok_word (k := "GROUP") hr (by simp)
    simp [groupPart, this]

theorem groupPart_some {tss : List (List STok)} {wants : List SExpr} (h : ListRel ExprP tss wants) (hne : tss ≠ [])
    {r : List STok} (hr : Ends (endTok []) r) :
    ∃ es, groupPart (RT.W "GROUP" :: RT.W "BY" :: (sepToks tss ++ r)) = some (es, r) ∧ ListRel NormEq es wants := by
  have hlen : tss.length ≤ (sepToks tss ++ r).length + 1 := by
    have : ∀ x ∈ tss, 1 ≤ x.length := by
      intro x hx
      clear hne
      induction h with
      | nil => cases hx
      | cons hw _ ih =>
        rcases List.mem_cons.1 hx with rfl | hx
        · exact hw.ne_nil
        · exact ih hx
    have := sepToks_length tss this
    simp only [List.length_append]
    omega
  obtain ⟨es, hes, hrel⟩ := pExprsComma_list h hne hr _ hlen
  exact ⟨es, by simpa [groupPart] using hes, hrel⟩

/-! ### ORDER BY -/

def OrdRel (o w : OrderTerm) : Prop := NormEq o.expr w.expr ∧ o.asc = w.asc ∧ o.nullsFirst = w.nullsFirst

def ordToks (E : List STok) (asc nf : Bool) : List STok :=
  E ++ [RT.W (if asc then "ASC" else "DESC"), RT.W "NULLS", RT.W (if nf then "FIRST" else "LAST")]

/-- the tokens of one sort term stand for the intended term -/
def OrdP (ts : List STok) (w : OrderTerm) : Prop := ∃ E, ts = ordToks E w.asc w.nullsFirst ∧ ExprP E w.expr

theorem stop_dir (asc : Bool) : stopTok (RT.W (if asc then "ASC" else "DESC")) = true := by
  cases asc
  · exact stop_kw (by simp [C01.clauseWords])
  · exact stop_kw (by simp [C01.clauseWords])

theorem pOrderTerms_list {tss : List (List STok)} {wants : List OrderTerm} (h : ListRel OrdP tss wants) (hne : tss ≠ [])
    {r : List STok} (hr : Ends (endTok []) r) :
    ∀ fuel, tss.length ≤ fuel → ∃ obs, pOrderTerms fuel (sepToks tss ++ r) = some (obs, r) ∧ ListRel OrdRel obs wants := by
  induction h with
  | nil => exact absurd rfl hne
  | @cons ts w tss' wants' hw hrest ih =>
    intro fuel hf
    obtain ⟨f, rfl⟩ : ∃ f, fuel = f + 1 := ⟨fuel - 1, by simp at hf; omega⟩
    obtain ⟨E, rfl, hE⟩ := hw
    obtain ⟨e, asc, nf⟩ := w
    cases hrest with
    | nil =>
      obtain ⟨s, hs, hp⟩ := hE.atFuel (rest := RT.W (if asc then "ASC" else "DESC") :: RT.W "NULLS" ::
        RT.W (if nf then "FIRST" else "LAST") :: r) (stop_dir asc)
      refine ⟨[⟨s, asc, nf⟩], ?_, .cons ⟨hs, rfl, rfl⟩ .nil⟩
      cases r with
      | nil => cases asc <;> cases nf <;> simp [sepToks, ordToks, pOrderTerms, hp] at hp ⊢ <;> simp [hp]
      | cons t tl =>
        have hc := endTok_comma hr
        cases asc <;> cases nf <;> simp [sepToks, ordToks, pOrderTerms, hp, hc] at hp ⊢ <;> simp [hp, hc]
    | @cons ts2 w2 tss2 wants2 hw2 hrest2 =>
      obtain ⟨obs, hobs, hrel⟩ := ih (by simp) f (by simp at hf ⊢; omega)
      obtain ⟨s, hs, hp⟩ := hE.atFuel (rest := RT.W (if asc then "ASC" else "DESC") :: RT.W "NULLS" ::
        RT.W (if nf then "FIRST" else "LAST") :: S "," :: (sepToks (ts2 :: tss2) ++ r)) (stop_dir asc)
      refine ⟨⟨s, asc, nf⟩ :: obs, ?_, .cons ⟨hs, rfl, rfl⟩ hrel⟩
      simp only [sepToks, ordToks, List.append_assoc, List.cons_append, List.nil_append] at hp ⊢
      cases asc <;> cases nf <;> simp [pOrderTerms, hp, hobs] at hp ⊢ <;> simp [hp, hobs]

theorem orderPart_none {r : List STok} (hr : Ends (endTok ["ORDER"]) r) : orderPart r = some ([], r) := by
  match r, hr with
  | [], _ => rfl
  | [t], _ => rfl
  | t :: b :: tl, hr =>
    have := endTok_word (k := "ORDER") hr (by simp)
    simp [orderPart, this]

theorem OrdP.ne_nil {ts : List STok} {w : OrderTerm} (h : OrdP ts w) : 1 ≤ ts.length := by
  obtain ⟨E, rfl, _⟩ := h
  simp [ordToks]

theorem orderPart_some {tss : List (List STok)} {wants : List OrderTerm} (h : ListRel OrdP tss wants) (hne : tss ≠ [])
    {r : List STok} (hr : Ends (endTok []) r) :
    ∃ obs, orderPart (RT.W "ORDER" :: RT.W "BY" :: (sepToks tss ++ r)) = some (obs, r) ∧ ListRel OrdRel obs wants := by
  have hlen : tss.length ≤ (sepToks tss ++ r).length + 1 := by
    have : ∀ x ∈ tss, 1 ≤ x.length := by
      intro x hx
      clear hne
      induction h with
      | nil => cases hx
      | cons hw _ ih =>
        rcases List.mem_cons.1 hx with rfl | hx
        · exact hw.ne_nil
        · exact ih hx
    have := sepToks_length tss this
    simp only [List.length_append]
    omega
  obtain ⟨obs, hobs, hrel⟩ := pOrderTerms_list h hne hr _ hlen
  exact ⟨obs, by simpa [orderPart] using hobs, hrel⟩

/-! ### select items -/

def ItemRel (it w : SelectItem) : Prop := it.star = w.star ∧ NormEq it.expr w.expr ∧ it.alias = w.alias

/-- the tokens of one select item stand for the intended item, whatever follows -/
def ItemP (ts : List STok) (w : SelectItem) : Prop := ∀ r, ∃ it, pItem (ts ++ r) = some (it, r) ∧ ItemRel it w

theorem itemP_star : ItemP [S "*"] ⟨true, .none_, none⟩ :=
  fun r => ⟨⟨true, .none_, none⟩, by simp [pItem], rfl, rfl, rfl⟩

theorem pAlias_some {a : Bytes} (ha : upper a = "AS") (n : Bytes) (r : List STok) :
    pAlias (.word a :: .qid n :: r) = (some n, r) := by
  simp [pAlias, ha]

theorem pAlias_none {r : List STok} (hr : Ends (endTok ["AS"]) r) : pAlias r = (none, r) := by
  unfold pAlias
  split
  · have := endTok_word (k := "AS") hr (by simp)
    simp [this]
  · rfl

theorem ExprP.not_star {E : List STok} {w : SExpr} (h : ExprP E w) : ∃ t tl, E = t :: tl ∧ isSym t "*" = false := by
  obtain ⟨t, tl, rfl, ht⟩ := h.head
  refine ⟨t, tl, rfl, ?_⟩
  simp only [startTok, Bool.and_eq_true, Bool.not_eq_true'] at ht
  exact ht.2

/-- `expr AS "alias"` (the keyword in either case) -/
theorem itemP_alias {E : List STok} {w : SExpr} (h : ExprP E w) {a : Bytes} (ha : upper a = "AS") (n : Bytes) :
    ItemP (E ++ [.word a, .qid n]) ⟨false, w, some n⟩ := by
  intro r
  have hstop : stopTok (.word a) = true := stop_kw (by rw [ha]; simp [C01.clauseWords])
  obtain ⟨s, hs, hp⟩ := h.atFuel (rest := STok.word a :: .qid n :: r) hstop
  obtain ⟨t, tl, rfl, ht⟩ := ExprP.not_star h
  refine ⟨⟨false, s, some n⟩, ?_, rfl, hs, rfl⟩
  simp only [List.append_assoc, List.cons_append, List.nil_append] at hp ⊢
  simp only [pItem, ht, Bool.false_eq_true, if_false, hp, pAlias_some ha]

theorem ItemP.ne_nil {ts : List STok} {w : SelectItem} (h : ItemP ts w) : 1 ≤ ts.length := by
  obtain ⟨it, hp, _⟩ := h []
  cases ts with
  | nil => simp [pItem] at hp
  | cons t tl => simp

/-- a comma-separated item list followed by `FROM` -/
theorem pItems_list {tss : List (List STok)} {wants : List SelectItem} (h : ListRel ItemP tss wants) (hne : tss ≠ [])
    (r : List STok) :
    ∀ fuel, tss.length ≤ fuel →
      ∃ its, pItems fuel (sepToks tss ++ RT.W "FROM" :: r) = some (its, RT.W "FROM" :: r) ∧ ListRel ItemRel its wants := by
  induction h with
  | nil => exact absurd rfl hne
  | @cons ts w tss' wants' hw hrest ih =>
    intro fuel hf
    obtain ⟨f, rfl⟩ : ∃ f, fuel = f + 1 := ⟨fuel - 1, by simp at hf; omega⟩
    cases hrest with
    | nil =>
      obtain ⟨it, hp, hrel⟩ := hw (RT.W "FROM" :: r)
      exact ⟨[it], by simp [sepToks, pItems_succ, hp], .cons hrel .nil⟩
    | @cons ts2 w2 tss2 wants2 hw2 hrest2 =>
      obtain ⟨its, hits, hrel⟩ := ih (by simp) f (by simp at hf ⊢; omega)
      obtain ⟨it, hp, hr1⟩ := hw (S "," :: (sepToks (ts2 :: tss2) ++ RT.W "FROM" :: r))
      refine ⟨it :: its, ?_, .cons hr1 hrel⟩
      simp only [sepToks, List.append_assoc, List.cons_append]
      simp [pItems_succ, hp, hits]

/-- at the fuel `pSelect` uses -/
theorem pItems_select {tss : List (List STok)} {wants : List SelectItem} (h : ListRel ItemP tss wants) (hne : tss ≠ [])
    (r : List STok) :
    ∃ its, pItems ((sepToks tss ++ RT.W "FROM" :: r).length + 1) (sepToks tss ++ RT.W "FROM" :: r) =
        some (its, RT.W "FROM" :: r) ∧ ListRel ItemRel its wants := by
  have hlen : tss.length ≤ (sepToks tss ++ RT.W "FROM" :: r).length + 1 := by
    have : ∀ x ∈ tss, 1 ≤ x.length := by
      intro x hx
      clear hne
      induction h with
      | nil => cases hx
      | cons hw _ ih =>
        rcases List.mem_cons.1 hx with rfl | hx
        · exact hw.ne_nil
        · exact ih hx
    have := sepToks_length tss this
    simp only [List.length_append]
    omega
  exact pItems_list h hne r _ hlen

/-! ### FROM: the table reference and the join -/

theorem pTableRef_named (n : Bytes) {r : List STok} (hr : Ends (endTok ["AS"]) r) :
    pTableRef (.qid n :: r) = some (.named n none, r) := by
  simp [pTableRef, pAlias_none hr]

theorem joinPart_none {r : List STok} (hr : Ends (endTok ["JOIN", "LEFT"]) r) : joinPart r = some (none, r) := by
  cases r with
  | nil => rfl
  | cons t tl =>
    have h1 := endTok_word (k := "JOIN") hr (by simp)
    have h2 := endTok_word (k := "LEFT") hr (by simp)
    simp [joinPart, h1, h2]

/-- the tokens of a join source -/
def joinToks (unique left : Bool) (l r : Bytes) (cond : List STok) : List STok :=
  (if unique then [S "(", RT.W "SELECT", RT.W "DISTINCT", S "*", RT.W "FROM", STok.qid l, S ")"] else [STok.qid l]) ++
  [RT.W "AS", .qid (Bytes.ofString "$left")] ++ (if left then [RT.W "LEFT", RT.W "JOIN"] else [RT.W "JOIN"]) ++
  [STok.qid r, RT.W "AS", .qid (Bytes.ofString "$right"), RT.W "ON"] ++ cond

theorem join_parse (unique left : Bool) (l r : Bytes) {cond : List STok} {w : SExpr} (h : ExprP cond w)
    {rest : List STok} (hr : Ends stopTok rest) :
    ∃ c, NormEq c w ∧ ∃ r3,
      pTableRef (joinToks unique left l r cond ++ rest) =
        some (if unique then .distinctOf l (some (Bytes.ofString "$left")) else .named l (some (Bytes.ofString "$left")), r3) ∧
      joinPart r3 = some (some ⟨left, .named r (some (Bytes.ofString "$right")), c⟩, rest) := by
  obtain ⟨c, hc, hp⟩ := h.atFuel hr
  refine ⟨c, hc, (if left then [RT.W "LEFT", RT.W "JOIN"] else [RT.W "JOIN"]) ++
    [STok.qid r, RT.W "AS", .qid (Bytes.ofString "$right"), RT.W "ON"] ++ cond ++ rest, ?_, ?_⟩
  · cases unique <;> simp [joinToks, pTableRef, pAlias]
  · cases left <;> simp [joinPart, pTableRef, pAlias, hp]

end Pql.C05
