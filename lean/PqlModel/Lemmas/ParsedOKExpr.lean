/-
Side conditions of the headline theorems, discharged for parsed trees (part 1, expressions).

`sOK e` (decidable, tree level): the structural facts about an expression that the parser
guarantees when it reports no error and that the side conditions `Expr.lexOK`, `RT.shapeOK` and
"translatable" (`tr` defined) need:
* no `.nil` node; a qualified identifier has at least one part;
* a literal is a number or a string; a unary operator is a sign;
* a binary operator is one the compiler translates (`knownBinOp`);
* the list of an `in` test is non-empty (`x in ()` is a parse error);
* the function of a call is an unquoted identifier (the parser accepts a call only after an
  identifier token, not after a back-quoted one).

`pExpr_sOK`, `pExprList_sOK`: every expression (list) the parser returns without error is `sOK`.
-/
import PqlModel.Lemmas.ExactParseExpr
namespace Pql.ParsedOK
open Pql Pql.Exact

mutual
def sOK : Expr → Bool
  | .nil => false
  | .qident parts => !parts.isEmpty
  | .lit _ k _ => k = .number || k = .string
  | .unary _ op x => (op = .plus || op = .minus) && sOK x
  | .binary x _ op y => knownBinOp op && (sOK x && sOK y)
  | .inE x _ _ vals _ => sOK x && (sOKList vals && vals.length != 0)
  | .paren _ x _ => sOK x
  | .call fn _ args _ => !fn.quoted && sOKList args
  | .index x _ idx _ => sOK x && sOK idx
def sOKList : ExprList → Bool
  | .nil => true
  | .cons e es => sOK e && sOKList es
end

theorem sOKList_snoc : ∀ (acc : ExprList) (x : Expr), sOKList (acc.snoc x) = (sOKList acc && sOK x)
  | .nil, x => by simp [ExprList.snoc, sOKList]
  | .cons e es, x => by simp [ExprList.snoc, sOKList, sOKList_snoc es x, Bool.and_assoc]

theorem length_snoc : ∀ (acc : ExprList) (x : Expr), (acc.snoc x).length = acc.length + 1
  | .nil, x => by simp [ExprList.snoc, ExprList.length]
  | .cons e es, x => by simp [ExprList.snoc, ExprList.length, length_snoc es x]

theorem snocNonNil_sOK {acc : ExprList} (ha : sOKList acc = true) :
    ∀ v : Expr, sOK v = true → sOKList (match v with | .nil => acc | x => acc.snoc x) = true := by
  intro v hv
  cases v <;> first
    | (simp [sOK] at hv; done)
    | simp only [sOKList_snoc, ha, hv, Bool.and_self]

theorem snocNonNil_len {acc : ExprList} (ha : acc.length ≠ 0) :
    ∀ v : Expr, (match v with | .nil => acc | x => acc.snoc x).length ≠ 0 := by
  intro v
  cases v <;> first
    | exact ha
    | (simp only [length_snoc]; omega)

/-- what the expression productions guarantee at a given fuel when they report no error -/
structure SInv (c : PCtx) (fuel : Nat) : Prop where
  expr : ∀ ts, (pExpr c fuel ts).errs = [] → sOK (pExpr c fuel ts).val = true
  trail : ∀ x mp acc ts, (pTrail c fuel x mp acc ts).errs = [] → sOK x = true →
    sOK (pTrail c fuel x mp acc ts).val = true
  higher : ∀ y p1 acc ts, (pHigher c fuel y p1 acc ts).errs = [] → sOK y = true →
    sOK (pHigher c fuel y p1 acc ts).val = true
  unary : ∀ ts, (pUnary c fuel ts).errs = [] → sOK (pUnary c fuel ts).val = true
  primary : ∀ ts, (pPrimary c fuel ts).errs = [] → sOK (pPrimary c fuel ts).val = true
  inner : ∀ ts, (pInner c fuel ts).errs = [] → sOK (pInner c fuel ts).val = true
  list : ∀ ts, (pExprList c fuel ts).errs = [] →
    sOKList (pExprList c fuel ts).val = true ∧ (pExprList c fuel ts).val.length ≠ 0
  listTail : ∀ acc ts, (pExprListTail c fuel acc ts).errs = [] → sOKList acc = true → acc.length ≠ 0 →
    sOKList (pExprListTail c fuel acc ts).val = true ∧ (pExprListTail c fuel acc ts).val.length ≠ 0

theorem sInv_zero (c : PCtx) : SInv c 0 where
  expr := by simp [pExpr]
  trail := by simp [pTrail]
  higher := by simp [pHigher]
  unary := by simp [pUnary]
  primary := by simp [pPrimary]
  inner := by simp [pInner]
  list := by simp [pExprList]
  listTail := by simp [pExprListTail]

theorem sInv_expr {c : PCtx} {fuel : Nat} (ih : SInv c fuel) (ts : List Token)
    (h : (pExpr c (fuel + 1) ts).errs = []) : sOK (pExpr c (fuel + 1) ts).val = true := by
  simp only [pExpr] at h ⊢
  split at h
  · next hnf => exact absurd h (ne_nil_of_isNF hnf)
  · next hnf =>
    simp only [hnf]
    simp only [List.append_eq_nil_iff] at h
    exact ih.trail _ _ _ _ h.2 (ih.unary _ h.1)

theorem sInv_unary {c : PCtx} {fuel : Nat} (ih : SInv c fuel) (ts : List Token)
    (h : (pUnary c (fuel + 1) ts).errs = []) : sOK (pUnary c (fuel + 1) ts).val = true := by
  simp only [pUnary] at h ⊢
  split at h
  · simp at h
  · next t rest =>
    split at h
    · next hk =>
      simp only [hk, if_true, sOK]
      have hp := ih.primary _ (by simpa using h)
      rw [hp]
      rcases hk with hk | hk <;> simp [hk]
    · next hk =>
      simp only [hk, if_false]
      exact ih.primary _ h

theorem sInv_primary {c : PCtx} {fuel : Nat} (ih : SInv c fuel) (ts : List Token) :
    (pPrimary c (fuel + 1) ts).errs = [] → sOK (pPrimary c (fuel + 1) ts).val = true := by
  simp only [pPrimary]
  have hi := ih.inner ts
  split
  · next he => intro h; exact absurd h he
  · next he =>
    have hg := hi (by simpa using he)
    split
    · intro _; exact hg
    · next t rest hr =>
      split
      · split
        · simp
        · split
          · simp only [List.append_eq_nil_iff, mkOpaque_eq_nil, sOK]
            intro h
            rw [hg, ih.expr _ h.1]; rfl
          · simp
      · intro _; exact hg

theorem pQualTail_ne_nil (c : PCtx) : ∀ (fuel : Nat) (parts : List Ident) (ts : List Token),
    parts ≠ [] → (pQualTail c fuel parts ts).val ≠ []
  | 0, parts, ts, h => by simpa [pQualTail] using h
  | fuel + 1, parts, ts, h => by
    simp only [pQualTail]
    split
    · split
      · split
        · exact pQualTail_ne_nil c fuel _ _ (by simp)
        · exact h
      · exact h
    · exact h

theorem pQualifiedIdent_ne_nil {c : PCtx} {ts : List Token} {parts : List Ident}
    (h : (pQualifiedIdent c ts).val = some parts) : parts.isEmpty = false := by
  simp only [pQualifiedIdent] at h
  split at h
  · cases h
  · next id _ =>
    simp only [Option.some.injEq] at h
    subst h
    have := pQualTail_ne_nil c ((pIdent c ts).rest.length + 1) [id] (pIdent c ts).rest (by simp)
    simpa [List.isEmpty_eq_false_iff] using this

theorem sInv_inner {c : PCtx} {fuel : Nat} (ih : SInv c fuel) (ts : List Token) :
    (pInner c (fuel + 1) ts).errs = [] → sOK (pInner c (fuel + 1) ts).val = true := by
  simp only [pInner]
  split
  · simp
  · next t rest =>
    have hq := @pQualifiedIdent_val_of_errs c (t :: rest)
    have hne := @pQualifiedIdent_ne_nil c (t :: rest)
    split
    · next hk => intro _; rcases hk with hk | hk <;> simp [sOK, hk]
    · split
      · split
        · next hv => intro h; exact absurd hv (hq h)
        · next parts hv =>
          have hp : sOK (.qident parts) = true := by simp [sOK, hne hv]
          split
          · next he => intro h; exact absurd h he
          · split
            · intro _; exact hp
            · split
              · intro _; exact hp
              · next lp rest2 hr =>
                split
                · intro _; exact hp
                · have hl := ih.list (split TokKind.rparen rest2).fst
                  have hl2 := ((exprInv c fuel).list (split TokKind.rparen rest2).fst).2
                  generalize pExprList c fuel (split TokKind.rparen rest2).fst = ra at hl hl2 ⊢
                  have key : (if isNF ra.errs = true then [] else ra.errs) = [] → sOKList ra.val = true := by
                    split
                    · next hnf => intro _; rw [hl2 hnf]; rfl
                    · intro h; exact (hl h).1
                  split
                  · simp
                  · split
                    · simp only [List.append_eq_nil_iff, sOK]
                      intro h; rw [key h.1]; rfl
                    · simp
      · split
        · split
          · next hv => intro h; exact absurd hv (hq h)
          · next parts hv => intro _; simp [sOK, hne hv]
        · split
          · split
            · simp
            · split
              · simp only [List.append_eq_nil_iff, mkOpaque_eq_nil, sOK]
                intro h; exact ih.expr _ h.1
              · simp
          · simp

theorem sInv_list {c : PCtx} {fuel : Nat} (ih : SInv c fuel) (ts : List Token) :
    (pExprList c (fuel + 1) ts).errs = [] →
      sOKList (pExprList c (fuel + 1) ts).val = true ∧ (pExprList c (fuel + 1) ts).val.length ≠ 0 := by
  simp only [pExprList]
  split
  · next he => intro h; exact absurd h he
  · next he =>
    have he' : (pExpr c fuel ts).errs = [] := by simpa using he
    intro h
    exact ih.listTail _ _ h (by simp only [sOKList, ih.expr ts he', Bool.and_self])
      (by simp [ExprList.length])

theorem sInv_listTail {c : PCtx} {fuel : Nat} (ih : SInv c fuel) (acc : ExprList)
    (ts : List Token) :
    (pExprListTail c (fuel + 1) acc ts).errs = [] → sOKList acc = true → acc.length ≠ 0 →
      sOKList (pExprListTail c (fuel + 1) acc ts).val = true ∧
      (pExprListTail c (fuel + 1) acc ts).val.length ≠ 0 := by
  simp only [pExprListTail]
  split
  · intro _ ha hl; exact ⟨ha, hl⟩
  · next t rest =>
    split
    · intro _ ha hl; exact ⟨ha, hl⟩
    · split
      · intro _ ha hl; exact ⟨ha, hl⟩
      · have he := ih.expr rest
        generalize pExpr c fuel rest = r at he ⊢
        split
        · next hne =>
          intro h
          exact absurd (by simpa using h) hne
        · next hne =>
          have hr : r.errs = [] := by simpa using hne
          intro h ha hl
          exact ih.listTail _ _ h (snocNonNil_sOK ha _ (he hr)) (snocNonNil_len hl _)

theorem sInv_higher {c : PCtx} {fuel : Nat} (ih : SInv c fuel) (y : Expr) (p1 : Int)
    (acc : Errs) (ts : List Token) :
    (pHigher c (fuel + 1) y p1 acc ts).errs = [] → sOK y = true →
      sOK (pHigher c (fuel + 1) y p1 acc ts).val = true := by
  simp only [pHigher]
  split
  · intro _ hy; exact hy
  · next op2 rest =>
    split
    · intro _ hy; exact hy
    · intro h hy
      have h1 := ((exprInv c fuel).higher _ _ _ _ h).1
      simp only [List.append_eq_nil_iff, mkOpaque_eq_nil] at h1
      exact ih.higher _ _ _ _ h (ih.trail _ _ _ _ h1.2 hy)

theorem sInv_trail {c : PCtx} {fuel : Nat} (ih : SInv c fuel) (x : Expr) (mp : Int)
    (acc : Errs) (ts : List Token) :
    (pTrail c (fuel + 1) x mp acc ts).errs = [] → sOK x = true →
      sOK (pTrail c (fuel + 1) x mp acc ts).val = true := by
  simp only [pTrail]
  split
  · intro _ hx; exact hx
  · next op1 rest =>
    split
    · intro _ hx; exact hx
    · next hprec =>
      split
      · split
        · simp
        · next lp rest2 =>
          split
          · simp
          · have hl := ih.list (split TokKind.rparen rest2).fst
            generalize pExprList c fuel (split TokKind.rparen rest2).fst = rl at hl ⊢
            split
            · simp
            · next rp rest3 hsp =>
              split
              · simp
              · intro h hx
                have h1 := ((exprInv c fuel).trail _ _ _ _ h).1
                simp only [List.append_eq_nil_iff, mkOpaque_eq_nil] at h1
                refine ih.trail _ _ _ _ h ?_
                have := hl h1.1.2
                simp only [sOK, hx, this.1, Bool.true_and, bne_iff_ne, ne_eq]
                exact this.2
      · next hin =>
        intro h hx
        have h1 := ((exprInv c fuel).trail _ _ _ _ h).1
        have h2 := ((exprInv c fuel).higher _ _ _ _ h1).1
        simp only [List.append_eq_nil_iff, mkOpaque_eq_nil] at h2
        refine ih.trail _ _ _ _ h ?_
        have hk : knownBinOp op1.kind = true :=
          knownBinOp_of_prec _ (fun h => hprec (Or.inl h)) hin
        simp only [sOK, hk, hx, Bool.true_and]
        exact ih.higher _ _ _ _ h1 (ih.unary _ h2.2)

theorem sInv (c : PCtx) : ∀ fuel, SInv c fuel
  | 0 => sInv_zero c
  | fuel + 1 =>
    have ih := sInv c fuel
    { expr := sInv_expr ih
      trail := sInv_trail ih
      higher := sInv_higher ih
      unary := sInv_unary ih
      primary := sInv_primary ih
      inner := sInv_inner ih
      list := sInv_list ih
      listTail := sInv_listTail ih }

/-- An expression parsed without error is structurally OK. -/
theorem pExpr_sOK {c : PCtx} {fuel : Nat} {ts : List Token} (h : (pExpr c fuel ts).errs = []) :
    sOK (pExpr c fuel ts).val = true := (sInv c fuel).expr ts h

/-- An expression list parsed without error is structurally OK and not empty. -/
theorem pExprList_sOK {c : PCtx} {fuel : Nat} {ts : List Token}
    (h : (pExprList c fuel ts).errs = []) :
    sOKList (pExprList c fuel ts).val = true ∧ (pExprList c fuel ts).val.length ≠ 0 :=
  (sInv c fuel).list ts h

end Pql.ParsedOK
