/-
C16 input/output: concrete scripts (non-vacuity) and counterexamples for the hypotheses of the
theorems in Props/C16IO.lean.  Everything here is a kernel-checked evaluation of the model
(`decide`; `decide +kernel` where `scan`, a well-founded recursion, is involved).

`stub` stands in for `pql.Compile`: it fails on the empty text and on any text containing '!',
otherwise "compiles" to the text with its newlines removed (so the prelude handed to it is
visible in the output).
-/
import PqlModel.Lemmas.CliIOMulti
import PqlModel.Lemmas.CliIOLines
import PqlModel.Lemmas.CliIOSpec
namespace Pql.CliIO
open Pql Pql.CliSpec

def stub (s : Bytes) : Option Bytes :=
  if s.isEmpty || s.contains 33 then none else some (s.filter (· != 10))

local notation "E" => Bytes.ofString

/-! ### whole scripts through `cliMain` -/

/-- accepted let, query, failing query, failing let (not in later preludes), second let, two
    statements on one line, unterminated last statement: 3 SQL texts in statement order, each
    with the lets accepted before it, 2 logged errors, exit status non-zero -/
theorem ex_script :
    cliMain stub (E "let a = 1;\nX;\n!bad;\nlet !b = 2;\nlet c = 3; Y;\nZ") =
      ⟨E "let a = 1;X\n\nlet a = 1;let c = 3; Y\n\nlet a = 1;let c = 3;Z\n\n", 2, true⟩ := by
  decide +kernel

/-- its outcomes, one per processed piece -/
theorem ex_script_outcomes :
    allOutcomes stub (splitStatements (crlfToLf (ensureNL
      (E "let a = 1;\nX;\n!bad;\nlet !b = 2;\nlet c = 3; Y;\nZ")))) =
    [.letOk, .sql (E "let a = 1;X"), .queryFail, .letFail, .letOk,
      .sql (E "let a = 1;let c = 3; Y"), .sql (E "let a = 1;let c = 3;Z")] := by
  decide +kernel

/-- the same script with `\r\n` line ends and a final `\r`: same result -/
theorem ex_script_crlf :
    cliMain stub (E "let a = 1;\r\nX;\r\n!bad;\r\nlet !b = 2;\r\nlet c = 3; Y;\r\nZ\r") =
      cliMain stub (E "let a = 1;\nX;\n!bad;\nlet !b = 2;\nlet c = 3; Y;\nZ") := by
  decide +kernel

/-- an empty statement is a statement (it fails), an empty input is nothing -/
theorem ex_empty_statement :
    cliMain stub (E "X;;Y") = ⟨E "X\n\nY\n\n", 1, true⟩ ∧ cliMain stub [] = ⟨[], 0, false⟩ ∧
    cliMain stub (E "X;\n") = ⟨E "X\n\n", 0, false⟩ := by
  decide +kernel

/-- the records with their preludes: the failed let is not in the prelude of `X` -/
theorem ex_steps :
    steps stub [] [E "let a", E "let !b", E "X"] =
      [⟨[], E "let a", .letOk⟩, ⟨E "let a;\n", E "let !b", .letFail⟩,
        ⟨E "let a;\n", E "X", .sql (E "let a;X")⟩] := by
  decide +kernel

/-! ### lines -/

/-- which `\r` go: the one before '\n' and the one at the very end of an unterminated input -/
theorem ex_lines :
    bufioLines [97, 13, 13, 10, 13, 98, 13] = ([[97, 13], [13, 98]], false) ∧
    crlfToLf (ensureNL [97, 13, 13, 10, 13, 98, 13]) = [97, 13, 10, 13, 98, 10] ∧
    bufioLines [13] = ([[]], false) ∧ bufioLines [97] = ([[97]], false) ∧
    bufioLines [97, 10] = ([[97]], false) ∧ bufioLines [] = ([], false) ∧
    bufioLines [10, 10] = ([[], []], false) := by
  decide

/-- `C16_lines_identity` needs "no `\r\n`" -/
theorem lines_identity_needs_no_crlf :
    (bufioLines [13, 10]).2 = false ∧ normalise (bufioLines [13, 10]).1 ≠ ensureNL [13, 10] := by
  decide

/-- `normalise_inj` needs '\n'-free lines -/
theorem normalise_inj_needs_no_nl : normalise [[10]] = normalise [[], []] ∧ [[(10 : UInt8)]] ≠ [[], []] := by
  decide

/-- `rawLines_one_line` needs both hypotheses -/
theorem rawLines_one_line_needs : rawLines [] ≠ [[]] ∧ rawLines [10] ≠ [[10]] := by decide

/-- `C16_lines_lossless` needs "no over-long line": behind one, nothing is delivered -/
theorem lines_lossless_needs_short :
    (bufioLines (List.replicate maxLine 97)).2 = true ∧
    normalise (bufioLines (List.replicate maxLine 97)).1 ≠
      crlfToLf (ensureNL (List.replicate maxLine 97)) := by
  have hne : List.replicate maxLine (97 : UInt8) ≠ [] := by
    intro h0
    have := congrArg List.length h0
    rw [List.length_replicate] at this
    exact absurd this (by decide)
  have hnl : (10 : UInt8) ∉ List.replicate maxLine (97 : UInt8) := by
    intro hm; have := List.eq_of_mem_replicate hm; simp at this
  have hb : bufioLines (List.replicate maxLine 97) = ([], true) := by
    rw [bufioLines_eq, rawLines_one_line _ hne hnl]
    simp
  rw [hb]
  refine ⟨rfl, fun h => ?_⟩
  have h2 := congrArg (List.filter (· != 13)) h
  rw [crlfToLf_filter, ensureNL_no_nl _ hne hnl] at h2
  simp [normalise] at h2

/-- `C16_lines_prefix` needs the read error: without an over-long line there is none to find -/
theorem lines_prefix_needs_error :
    (bufioLines []).2 = false ∧
    ¬ ∃ (pre : List Bytes) (long : Bytes) (rest : List Bytes),
      ensureNL [] = normalise (pre ++ long :: rest) := by
  refine ⟨by decide, ?_⟩
  rintro ⟨pre, long, rest, h⟩
  have := congrArg List.length h
  simp [ensureNL, normalise] at this

/-- OBSERVATION (replayed on the real binary, see REPORT): when reading stops at an over-long
    line, the statement that was being collected is cut off there and still compiled — its SQL
    is written (the failure is logged and the exit status is non-zero).  Here the input is
    `T`, newline, then a line of 65536 bytes that would continue the statement. -/
theorem truncated_statement_is_compiled :
    cliMain stub (E "T\n" ++ List.replicate maxLine 97) = ⟨E "T\n\n", 1, true⟩ := by
  have hne : List.replicate maxLine (97 : UInt8) ≠ [] := by
    intro h0
    have := congrArg List.length h0
    rw [List.length_replicate] at this
    exact absurd this (by decide)
  have hnl : (10 : UInt8) ∉ List.replicate maxLine (97 : UInt8) := by
    intro hm; have := List.eq_of_mem_replicate hm; simp at this
  have hraw : rawLines (E "T\n" ++ List.replicate maxLine 97) = [E "T", List.replicate maxLine 97] := by
    apply normalise_inj _ _ (rawLines_no_nl _)
    · intro l hl
      simp only [List.mem_cons, List.not_mem_nil, or_false] at hl
      rcases hl with rfl | rfl
      · decide
      · exact hnl
    · have e : E "T\n" = E "T" ++ [10] := by decide
      rw [rawLines_join, ensureNL_append _ _ hne, ensureNL_no_nl _ hne hnl, e]
      simp [normalise]
  have hb : bufioLines (E "T\n" ++ List.replicate maxLine 97) = ([E "T"], true) := by
    rw [bufioLines_eq, hraw]
    have h1 : decide ((E "T").length < maxLine) = true := by decide
    have h2 : decide ((List.replicate maxLine (97 : UInt8)).length < maxLine) = false := by
      rw [List.length_replicate]; simp
    have h3 : dropCR (E "T") = E "T" := by decide
    have h4 : decide (maxLine ≤ (List.replicate maxLine (97 : UInt8)).length) = true := by
      rw [List.length_replicate]; simp
    rw [List.takeWhile_cons, if_pos h1, List.takeWhile_cons, h2]
    simp only [Bool.false_eq_true, if_false, List.map_cons, List.map_nil, h3, List.any_cons, h4,
      Bool.true_or, Bool.or_true]
  unfold cliMain
  simp only [hb]
  decide +kernel

/-! ### multi-reader -/

theorem multi_noErr_needed :
    noErr [[([1], .err)]] = false ∧
    inputStream [[([1], .err)]] ≠
      ((([[([1], .err)]] : List Reader).map fun r => (Reader.content r).1).flatten, .eof) := by
  decide

theorem multi_noErr_nonvacuous :
    noErr [[([1], .ok), ([], .ok), ([2], .eof)], [], [([3], .ok)]] = true ∧
    inputStream [[([1], .ok), ([], .ok), ([2], .eof)], [], [([3], .ok)]] = ([1, 2, 3], .eof) := by
  decide

theorem reader_alone_fuel_tight :
    drain Reader.read ([([1], Status.ok)] : Reader).length [([1], .ok)] = ([1], .outOfFuel) := by
  decide

theorem multi_chunking_needs_same_contents :
    inputStream [[([1], .eof)]] ≠ inputStream [[([2], .eof)]] := by decide

theorem multi_chunking_nonvacuous :
    ([[([1, 2], .eof)], [([3], .ok)]] : List Reader).map Reader.content =
      ([[([1], .ok), ([], .ok), ([2], .ok)], [([], .ok), ([3], .eof), ([9], .ok)]] : List Reader).map
        Reader.content := by decide

/-! ### failure isolation -/

/-- `C16_failure_isolated` needs `post ≠ []`: appended at the very end, the failing `s` (here
    an empty piece) takes the place of the unterminated last piece -/
theorem failure_isolated_needs_post :
    (outcome stub (preludeAfter [] (steps stub [] [E "X"])) []).failed = true ∧
    runPieces stub ([E "X"] ++ [] :: []) false = ⟨E "X\n\n", 0, false⟩ ∧
    runPieces stub ([E "X"] ++ []) false = ⟨E "X\n\n", 0, false⟩ := by
  decide +kernel

/-- `C16_failure_isolated` needs the inserted statement to fail -/
theorem failure_isolated_needs_failure :
    (outcome stub (preludeAfter [] (steps stub [] [E "X"])) (E "Y")).failed = false ∧
    runPieces stub ([E "X"] ++ E "Y" :: [[]]) false = ⟨E "X\n\nY\n\n", 0, false⟩ ∧
    runPieces stub ([E "X"] ++ [[]]) false = ⟨E "X\n\n", 0, false⟩ := by
  decide +kernel

/-- non-vacuity: a failing query and a failing let between two statements -/
theorem failure_isolated_nonvacuous :
    (outcome stub (preludeAfter [] (steps stub [] [E "let a"])) (E "!")).failed = true ∧
    (outcome stub (preludeAfter [] (steps stub [] [E "let a"])) (E "let !")).failed = true ∧
    runPieces stub ([E "let a"] ++ E "!" :: [E "X", []]) false = ⟨E "let a;X\n\n", 1, true⟩ ∧
    runPieces stub ([E "let a"] ++ E "let !" :: [E "X", []]) false = ⟨E "let a;X\n\n", 1, true⟩ ∧
    runPieces stub ([E "let a"] ++ [E "X", []]) false = ⟨E "let a;X\n\n", 0, false⟩ := by
  decide +kernel

/-- `C16_failed_let_not_in_prelude` needs the failure: an accepted let changes the prelude -/
theorem accepted_let_changes_prelude :
    steps stub [] [E "let a", E "X"] =
      [] ++ ⟨[], E "let a", .letOk⟩ :: ⟨E "let a;\n", E "X", .sql (E "let a;X")⟩ :: [] := by
  decide +kernel

/-- `nFailed_of_total` needs a `compile` that never fails -/
theorem nFailed_of_total_needs : nFailed (allOutcomes (fun _ => none) [E "X", []]) = 1 := by
  decide +kernel

end Pql.CliIO
