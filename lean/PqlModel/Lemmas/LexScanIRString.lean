/-
`(*scanner).string` as translated against the model's `scanString`: the loop by runes against the model's
loop by bytes; the value is the source slice while no escape has been met (`valueBuilder == nil`) and the
content of the `strings.Builder` afterwards — both are "what has been accumulated so far" (`VB.acc`).
-/
import PqlModel.Lemmas.LexScanIRQuoted
namespace Pql.ScanIR
open Pql
open Pql.LexIR (IErr M BinOp goPanic stuck irOf)
set_option linter.unusedSimpArgs false
set_option linter.unusedVariables false

/-! ### the model's loop -/

theorem str_cons (q c : UInt8) (r : Bytes) : stringLoop q (c :: r) =
    if c == q then .closed [] 1
    else if c == 10 then .bad 0
    else if c == 92 then
      (match r with
       | [] => QRes.bad 1
       | e :: rest' => if e == 10 then .bad 1 else
          (stringLoop q rest').shift 2 (some (if e == 110 then 10 else if e == 116 then 9 else e)))
    else (stringLoop q r).shift 1 (some c) := by
  cases r <;> rfl

/-- the bytes `x` in front of what the loop returns -/
def shiftV (x : Bytes) : QRes → QRes
  | .closed v w => .closed (x ++ v) (w + x.length)
  | .bad w => .bad (w + x.length)

theorem shiftV_nil (r : QRes) : shiftV [] r = r := by cases r <;> simp [shiftV]

theorem shift_shiftV (c : UInt8) (x : Bytes) (r : QRes) : (shiftV x r).shift 1 (some c) = shiftV (c :: x) r := by
  cases r <;> simp [shiftV, QRes.shift] <;> omega

/-- bytes that are neither the quote, a newline nor a backslash are copied -/
theorem stringLoop_skip (q : UInt8) (x y : Bytes) (hx : ∀ b ∈ x, b ≠ q ∧ b ≠ 10 ∧ b ≠ 92) :
    stringLoop q (x ++ y) = shiftV x (stringLoop q y) := by
  induction x with
  | nil => simp [shiftV_nil]
  | cons c x ih =>
    have hc := hx c List.mem_cons_self
    have := ih fun b hb => hx b (List.mem_cons_of_mem _ hb)
    rw [List.cons_append, str_cons]
    simp only [beq_iff_eq, hc.1, hc.2.1, hc.2.2, ↓reduceIte, this, shift_shiftV]

/-- the token of `string` when the model's loop, started `k` bytes into `s` with `acc` accumulated, ends as `r` -/
def strTok (pre : Bytes) (k : Nat) (acc : Bytes) : QRes → Val
  | .closed v w => .tok .string pre.length (pre.length + (k + w)) (acc ++ v)
  | .bad w => .tok .error pre.length (pre.length + (k + w)) []

theorem strTok_shiftV (pre : Bytes) (k : Nat) (acc x : Bytes) (r : QRes) :
    strTok pre k acc (shiftV x r) = strTok pre (k + x.length) (acc ++ x) r := by
  cases r <;> simp [strTok, shiftV] <;> omega

theorem strTok_shift2 (pre : Bytes) (k : Nat) (acc : Bytes) (e : UInt8) (r : QRes) :
    strTok pre k acc (r.shift 2 (some e)) = strTok pre (k + 2) (acc ++ [e]) r := by
  cases r <;> simp [strTok, QRes.shift] <;> omega

theorem width_shiftV (x : Bytes) (r : QRes) : (shiftV x r).width = r.width + x.length := by
  cases r <;> simp [shiftV]

/-! ### the builder -/

/-- `valueBuilder`: nil, or a builder at `addr` with content `acc` (the newest object of the store) -/
inductive VB
  | none
  | some (addr : Nat) (acc : Bytes)

def VB.val : VB → Val
  | .none => .bptr Option.none
  | .some a _ => .bptr (Option.some a)

def VB.blds (bs0 : List (Nat × Bytes)) : VB → List (Nat × Bytes)
  | .none => bs0
  | .some a acc => (a, acc) :: bs0

/-- what has been accumulated when the cursor is `k` bytes into `s`: the source slice, or the builder -/
def VB.acc (s : Bytes) (k : Nat) : VB → Bytes
  | .none => (s.drop 1).take (k - 1)
  | .some _ acc => acc

/-- the state inside `string` around the loop -/
def strSt (q p0 : Nat) (vb : Val) (h : Store) : State :=
  ⟨[("valueBuilder", vb), ("valueStart", .int (p0 + 1)), ("ok", .bool true), ("quoteChar", .int q), ("start", .int p0),
    ("s", .scanner)], h⟩

theorem leave_strSt (q p0 : Nat) (vb vb' : Val) (h h' : Store) (x y : String × Val) :
    (State.leave ⟨x :: y :: (strSt q p0 vb h).vars, h⟩ (strSt q p0 vb' h')) = strSt q p0 vb h := by
  simp [State.leave, strSt]

theorem take_extend (s : Bytes) (k w : Nat) (hk : 1 ≤ k) :
    (s.drop 1).take (k - 1) ++ (s.drop k).take w = (s.drop 1).take (k + w - 1) := by
  obtain ⟨j, rfl⟩ : ∃ j, k = j + 1 := ⟨k - 1, by omega⟩
  have e : s.drop (j + 1) = (s.drop 1).drop j := by rw [List.drop_drop]; congr 1; omega
  rw [e]
  have e2 : j + 1 + w - 1 = j + w := by omega
  simp only [Nat.add_one_sub_one, e2]
  exact (List.take_add).symm

theorem slice_vs (pre s : Bytes) (k : Nat) :
    List.take (pre.length + k - (pre.length + 1)) (List.drop (pre.length + 1) (pre ++ s)) = (s.drop 1).take (k - 1) := by
  have h1 : List.drop (pre.length + 1) (pre ++ s) = s.drop 1 := LexIR.drop_hp pre s 1
  rw [h1]
  congr 1
  omega

theorem slice_rune (pre s : Bytes) (k w : Nat) :
    List.take (pre.length + (k + w) - (pre.length + k)) (List.drop (pre.length + k) (pre ++ s)) = (s.drop k).take w := by
  rw [LexIR.drop_hp pre s k]
  congr 1
  omega

/-- what the loop of `string` calls -/
structure StrEnv (env : Env) : Prop where
  cur : CursorEnv env
  write : HasPrim env "strings.Builder.WriteString"
  rune : HasPrim env "strings.Builder.WriteRune"
  str : HasPrim env "strings.Builder.String"

theorem rune_q (c q : UInt8) (rest : Bytes) (hq : q.toNat < 128) :
    ((decodeRune (c :: rest)).1 = q.toNat) ↔ c = q := by
  rw [LexIR.rune_eq c rest q.toNat hq, UInt8.ofNat_toNat]

end Pql.ScanIR
