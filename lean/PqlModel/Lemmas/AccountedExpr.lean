/-
Stage 1 of property C08: the expression productions.  If a production succeeds without any
error, the tokens it consumed are accounted for (kinds, values, exact positions) by the
`unparse` of the tree it returns.
-/
import PqlModel.Lemmas.AccountedNF
namespace Pql
open Grammar

theorem TokWF.symVal {t : Token} {k : TokKind} (h : TokWF t) (hk : t.kind = k)
    (hn : k ≠ .ident ∧ k ≠ .qident ∧ k ≠ .number ∧ k ≠ .string := by decide) : t.value = [] :=
  h.val (hk ▸ hn.1) (hk ▸ hn.2.1) (hk ▸ hn.2.2.1) (hk ▸ hn.2.2.2)

/-! ### `unparse` equations -/

theorem unparse_lit (sp : Span) (k : TokKind) (v : Bytes) :
    unparseExpr (.lit sp k v) = some [{ kind := k, value := v, start := some sp.start, stop := some sp.stop }] := by
  simp [unparseExpr]

theorem unparse_qident {parts : List Ident} (h : parts ≠ []) :
    unparseExpr (.qident parts) = some (identsDotted parts) := by
  cases parts with
  | nil => exact absurd rfl h
  | cons a as => simp [unparseExpr]

theorem unparse_unary {x : Expr} {xs : List UTok} (os : Span) (op : TokKind) (h : unparseExpr x = some xs) :
    unparseExpr (.unary os op x) = some (sym op os :: xs) := by
  simp [unparseExpr, h]

theorem unparse_binary {x y : Expr} {xs ys : List UTok} (os : Span) (op : TokKind)
    (hx : unparseExpr x = some xs) (hy : unparseExpr y = some ys) :
    unparseExpr (.binary x os op y) = some (xs ++ sym op os :: ys) := by
  simp [unparseExpr, hx, hy]

theorem unparse_inE {x : Expr} {vals : ExprList} {xs vs : List UTok} (i lp rp : Span)
    (hx : unparseExpr x = some xs) (hv : unparseExprList vals = some vs) :
    unparseExpr (.inE x i lp vals rp) =
      some (xs ++ sym .in_ i :: sym .lparen lp :: vs ++ [sym .rparen rp]) := by
  simp [unparseExpr, hx, hv]

theorem unparse_paren {x : Expr} {xs : List UTok} (lp rp : Span) (hx : unparseExpr x = some xs) :
    unparseExpr (.paren lp x rp) = some (sym .lparen lp :: xs ++ [sym .rparen rp]) := by
  simp [unparseExpr, hx]

theorem unparse_call {args : ExprList} {as : List UTok} (fn : Ident) (lp rp : Span)
    (ha : unparseExprList args = some as) :
    unparseExpr (.call fn lp args rp) =
      some (identTok fn :: sym .lparen lp :: as ++ [{ sym .rparen rp with optComma := true }]) := by
  simp [unparseExpr, ha]

theorem unparse_index {x idx : Expr} {xs is : List UTok} (lb rb : Span)
    (hx : unparseExpr x = some xs) (hi : unparseExpr idx = some is) :
    unparseExpr (.index x lb idx rb) = some (xs ++ sym .lbracket lb :: is ++ [sym .rbracket rb]) := by
  simp [unparseExpr, hx, hi]

theorem unparseList_single (e : Expr) : unparseExprList (.cons e .nil) = unparseExpr e := by
  simp [unparseExprList]

theorem unparseList_snoc : ∀ (acc : ExprList) (x : Expr) (ua ux : List UTok), acc ≠ .nil →
    unparseExprList acc = some ua → unparseExpr x = some ux →
    unparseExprList (acc.snoc x) = some (ua ++ commaTok :: ux)
  | .nil, _, _, _, h, _, _ => absurd rfl h
  | .cons e .nil, x, ua, ux, _, ha, hx => by
    rw [unparseList_single] at ha
    simp [ExprList.snoc, unparseExprList, ha, hx]
  | .cons e (.cons e' es), x, ua, ux, _, ha, hx => by
    simp only [unparseExprList, Option.bind_eq_bind, Option.pure_def] at ha
    cases he : unparseExpr e with
    | none => simp [he] at ha
    | some a =>
      cases hes : unparseExprList (.cons e' es) with
      | none => simp [he, hes] at ha
      | some b =>
        simp only [he, hes, Option.bind_some, Option.some.injEq] at ha
        have ih := unparseList_snoc (.cons e' es) x b ux (by simp) hes hx
        subst ha
        simp only [ExprList.snoc] at ih ⊢
        simp [unparseExprList, he, ih]

theorem snoc_ne_nil (acc : ExprList) (x : Expr) : acc.snoc x ≠ .nil := by
  cases acc <;> simp [ExprList.snoc]

theorem identsDotted_snoc : ∀ (parts : List Ident) (s : Ident), parts ≠ [] →
    identsDotted (parts ++ [s]) = identsDotted parts ++ [{ kind := .dot }, identTok s]
  | [], _, h => absurd rfl h
  | [i], s, _ => by simp [identsDotted]
  | i :: j :: is, s, _ => by
    have ih := identsDotted_snoc (j :: is) s (by simp)
    simp only [List.cons_append] at ih ⊢
    simp [identsDotted, ih]

/-! ### qualified identifiers -/

theorem pIdent_some {c : PCtx} {t : Token} {rest : List Token} (hk : t.kind = .ident ∨ t.kind = .qident) :
    pIdent c (t :: rest) = ⟨some ⟨t.value, t.span, t.kind = .qident⟩, [], rest⟩ := by
  simp [pIdent, hk]

/-- `pIdent` without error: exactly one identifier token -/
theorem pIdent_acc {c : PCtx} {ts : List Token} {v : Option Ident} {rest : List Token}
    (h : pIdent c ts = ⟨v, [], rest⟩) :
    ∃ t, ts = t :: rest ∧ (t.kind = .ident ∨ t.kind = .qident) ∧
      v = some ⟨t.value, t.span, t.kind = .qident⟩ := by
  unfold pIdent at h
  split at h
  · rename_i t rest0
    split at h
    · rename_i hk
      simp only [PRes.mk.injEq, true_and] at h
      obtain ⟨rfl, rfl⟩ := h
      exact ⟨t, rfl, hk, rfl⟩
    · simp at h
  · simp at h

theorem pQualTail_acc (c : PCtx) (fuel : Nat) : ∀ (parts : List Ident) (ts : List Token)
    (parts' : List Ident) (rest : List Token), TokOK ts → parts ≠ [] →
    pQualTail c fuel parts ts = ⟨parts', [], rest⟩ →
    ∃ more cons, identsDotted parts' = identsDotted parts ++ more ∧ ts = cons ++ rest ∧
      accounts true more cons = true ∧ parts' ≠ [] ∧ (parts'.length ≤ parts.length → rest = ts) := by
  induction fuel with
  | zero => intro parts ts parts' rest _ _ h; simp [pQualTail] at h
  | succ f ih =>
    intro parts ts parts' rest hok hne h
    unfold pQualTail at h
    split at h
    · rename_i t rest0
      split at h
      · rename_i hdot
        dsimp only at h
        generalize hi : pIdent c rest0 = ri at h
        obtain ⟨iv, ie, irest⟩ := ri
        dsimp only at h
        split at h
        · rename_i sel
          -- the identifier after the dot
          have hie : ie = [] := by
            cases rest0 with
            | nil => simp [pIdent] at hi
            | cons t2 r2 =>
              simp only [pIdent] at hi
              split at hi
              · simp only [PRes.mk.injEq] at hi; exact hi.2.1.symm
              · simp only [PRes.mk.injEq] at hi; exact absurd hi.1 (by simp)
          subst hie
          obtain ⟨t2, rfl, hk2, hsel⟩ := pIdent_acc hi
          simp only [Option.some.injEq] at hsel
          obtain ⟨more, cons, hd, rfl, ha, hne', hlen⟩ :=
            ih (parts ++ [sel]) irest parts' rest hok.tail.tail (by simp) h
          refine ⟨[{ kind := .dot }, identTok sel] ++ more, t :: t2 :: cons, ?_, by simp, ?_, hne', ?_⟩
          · rw [hd, identsDotted_snoc _ _ hne]; simp
          · have hv := hok.head.symVal hdot
            rw [hsel]
            exact accounts_cons (tokOk_dot hdot hv) (accounts_cons (tokOk_identTok hk2) ha)
          · intro hl
            -- impossible: the result is longer than `parts`
            exfalso
            have hgrow : ∀ (ps : List Ident), ps ≠ [] → (identsDotted ps).length + 1 = 2 * ps.length := by
              intro ps
              induction ps with
              | nil => intro h; exact absurd rfl h
              | cons a as ih2 =>
                intro _
                cases as with
                | nil => simp [identsDotted]
                | cons b bs =>
                  have := ih2 (by simp)
                  simp only [identsDotted, List.length_cons] at this ⊢
                  omega
            have h1 := hgrow parts' hne'
            have h2 := hgrow (parts ++ [sel]) (by simp)
            have h4 : (identsDotted parts').length = (identsDotted (parts ++ [sel]) ++ more).length := by
              rw [hd]
            simp only [List.length_append, List.length_cons, List.length_nil] at h2 h4
            omega
        · simp only [PRes.mk.injEq, mkOpaque_eq_nil] at h
          obtain ⟨rfl, rfl, rfl⟩ := h
          -- pIdent failed, so it reported an error
          cases rest0 with
          | nil => simp [pIdent] at hi
          | cons t2 r2 =>
            simp only [pIdent] at hi
            split at hi <;> simp at hi
      · simp only [PRes.mk.injEq, true_and] at h
        obtain ⟨rfl, rfl⟩ := h
        exact ⟨[], [], by simp, by simp, accounts_nil _, hne, fun _ => rfl⟩
    · simp only [PRes.mk.injEq, true_and] at h
      obtain ⟨rfl, rfl⟩ := h
      exact ⟨[], [], by simp, by simp, accounts_nil _, hne, fun _ => rfl⟩

theorem pQualifiedIdent_acc {c : PCtx} {t : Token} {rest0 : List Token} {qv : Option (List Ident)}
    {qrest : List Token} (hk : t.kind = .ident ∨ t.kind = .qident) (hok : TokOK (t :: rest0))
    (h : pQualifiedIdent c (t :: rest0) = ⟨qv, [], qrest⟩) :
    ∃ parts cons, qv = some parts ∧ parts ≠ [] ∧ t :: rest0 = cons ++ qrest ∧
      accounts true (identsDotted parts) cons = true ∧ (parts.length ≤ 1 → qrest = rest0) := by
  unfold pQualifiedIdent at h
  rw [pIdent_some hk] at h
  dsimp only at h
  generalize hq : pQualTail c (rest0.length + 1) [⟨t.value, t.span, t.kind = .qident⟩] rest0 = q at h
  obtain ⟨parts', qe, qr⟩ := q
  simp only [PRes.mk.injEq] at h
  obtain ⟨rfl, rfl, rfl⟩ := h
  obtain ⟨more, cons, hd, hts, ha, hne, hlen⟩ := pQualTail_acc c _ _ _ _ _ hok.tail (by simp) hq
  refine ⟨parts', t :: cons, rfl, hne, by rw [hts]; simp, ?_, ?_⟩
  · rw [hd]
    simp only [identsDotted, List.cons_append, List.nil_append]
    exact accounts_cons (tokOk_identTok hk) ha
  · intro hl; exact hlen (by simpa using hl)

/-! ### the statements proved by induction on fuel -/

/-- `ts = consumed ++ rest` and the tree `e` accounts for `consumed` -/
def AccE (ts : List Token) (e : Expr) (rest : List Token) : Prop :=
  ∃ us cons, unparseExpr e = some us ∧ ts = cons ++ rest ∧ accounts true us cons = true

def AccL (ts : List Token) (l : ExprList) (rest : List Token) : Prop :=
  l ≠ .nil ∧ ∃ us cons, unparseExprList l = some us ∧ ts = cons ++ rest ∧ accounts true us cons = true

/-- continuation from an operand `x` already parsed: the result's tokens are `x`'s plus `more` -/
def AccMore (ts : List Token) (x e : Expr) (rest : List Token) : Prop :=
  ∀ ux, unparseExpr x = some ux →
    ∃ more cons, unparseExpr e = some (ux ++ more) ∧ ts = cons ++ rest ∧ accounts true more cons = true

def SExpr (c : PCtx) (f : Nat) : Prop :=
  ∀ ts e rest, TokOK ts → pExpr c f ts = ⟨e, [], rest⟩ → AccE ts e rest
def STrail (c : PCtx) (f : Nat) : Prop :=
  ∀ x m acc ts e rest, TokOK ts → pTrail c f x m acc ts = ⟨e, [], rest⟩ → AccMore ts x e rest
def SHigher (c : PCtx) (f : Nat) : Prop :=
  ∀ y p acc ts e rest, TokOK ts → pHigher c f y p acc ts = ⟨e, [], rest⟩ → AccMore ts y e rest
def SUnary (c : PCtx) (f : Nat) : Prop :=
  ∀ ts e rest, TokOK ts → pUnary c f ts = ⟨e, [], rest⟩ → AccE ts e rest
def SPrimary (c : PCtx) (f : Nat) : Prop :=
  ∀ ts e rest, TokOK ts → pPrimary c f ts = ⟨e, [], rest⟩ → AccE ts e rest
def SInner (c : PCtx) (f : Nat) : Prop :=
  ∀ ts e rest, TokOK ts → pInner c f ts = ⟨e, [], rest⟩ → AccE ts e rest
def SList (c : PCtx) (f : Nat) : Prop :=
  ∀ ts l rest, TokOK ts → pExprList c f ts = ⟨l, [], rest⟩ → AccL ts l rest
def SListTail (c : PCtx) (f : Nat) : Prop :=
  ∀ acc ts l rest, TokOK ts → pExprListTail c f acc ts = ⟨l, [], rest⟩ → acc ≠ .nil →
    ∀ ua, unparseExprList acc = some ua →
      l ≠ .nil ∧ ∃ more cons, unparseExprList l = some (ua ++ more) ∧ ts = cons ++ rest ∧
        accounts true more cons = true

theorem AccMore.refl (ts : List Token) (x : Expr) : AccMore ts x x ts :=
  fun ux hux => ⟨[], [], by simpa using hux, rfl, accounts_nil _⟩

theorem step_expr {c : PCtx} {f : Nat} (hU : SUnary c f) (hT : STrail c f) : SExpr c (f + 1) := by
  intro ts e rest hok h
  unfold pExpr at h
  dsimp only at h
  generalize h1 : pUnary c f ts = r1 at h
  obtain ⟨v1, e1, rest1⟩ := r1
  dsimp only at h
  split at h
  · rename_i hnf
    simp only [PRes.mk.injEq] at h
    obtain ⟨-, rfl, -⟩ := h
    simp at hnf
  · generalize h2 : pTrail c f v1 0 [] rest1 = r2 at h
    obtain ⟨v2, e2, rest2⟩ := r2
    simp only [PRes.mk.injEq, List.append_eq_nil_iff] at h
    obtain ⟨rfl, ⟨rfl, rfl⟩, rfl⟩ := h
    obtain ⟨u1, c1, hu1, rfl, ha1⟩ := hU _ _ _ hok h1
    obtain ⟨more, c2, hu2, rfl, ha2⟩ := hT _ _ _ _ _ _ hok.right h2 _ hu1
    exact ⟨_, c1 ++ c2, hu2, by simp, accounts_append ha1 ha2⟩

theorem step_higher {c : PCtx} {f : Nat} (hT : STrail c f) (hH : SHigher c f) : SHigher c (f + 1) := by
  intro y p acc ts e rest hok h
  unfold pHigher at h
  split at h
  · simp only [PRes.mk.injEq] at h
    obtain ⟨rfl, -, rfl⟩ := h
    exact AccMore.refl _ _
  · rename_i op2 tl
    dsimp only at h
    split at h
    · simp only [PRes.mk.injEq] at h
      obtain ⟨rfl, -, rfl⟩ := h
      exact AccMore.refl _ _
    · generalize hr : pTrail c f y (p + 1) [] (op2 :: tl) = r at h
      obtain ⟨rv, re, rrest⟩ := r
      dsimp only at h
      have hacc := (trail_errs_nil c f).2 _ _ _ _ (by rw [h])
      simp only [List.append_eq_nil_iff, mkOpaque_eq_nil] at hacc
      obtain ⟨rfl, rfl⟩ := hacc
      intro uy huy
      obtain ⟨m1, c1, hu1, hts, ha1⟩ := hT _ _ _ _ _ _ hok hr _ huy
      rw [hts] at hok ⊢
      obtain ⟨m2, c2, hu2, rfl, ha2⟩ := hH _ _ _ _ _ _ hok.right h _ hu1
      exact ⟨m1 ++ m2, c1 ++ c2, by rw [hu2]; simp, by simp, accounts_append ha1 ha2⟩

theorem step_unary {c : PCtx} {f : Nat} (hP : SPrimary c f) : SUnary c (f + 1) := by
  intro ts e rest hok h
  unfold pUnary at h
  split at h
  · simp at h
  · rename_i t rest0
    split at h
    · rename_i hk
      generalize hr : pPrimary c f rest0 = r at h
      obtain ⟨rv, re, rrest⟩ := r
      simp only [PRes.mk.injEq, mkOpaque_eq_nil] at h
      obtain ⟨rfl, rfl, rfl⟩ := h
      obtain ⟨us, cons, hu, rfl, ha⟩ := hP _ _ _ hok.tail hr
      have hv : t.value = [] := by
        rcases hk with hk | hk
        · exact hok.head.symVal hk
        · exact hok.head.symVal hk
      exact ⟨_, t :: cons, unparse_unary _ _ hu, by simp, accounts_cons (tokOk_sym rfl hv) ha⟩
    · exact hP _ _ _ hok h

theorem step_primary {c : PCtx} {f : Nat} (hI : SInner c f) (hE : SExpr c f) : SPrimary c (f + 1) := by
  intro ts e rest hok h
  unfold pPrimary at h
  dsimp only at h
  generalize hr : pInner c f ts = r at h
  obtain ⟨rv, re, rrest⟩ := r
  dsimp only at h
  split at h
  · rename_i hne
    simp only [PRes.mk.injEq] at h
    exact absurd h.2.1 hne
  · rename_i hre
    have hre' : re = [] := Classical.not_not.mp hre
    subst hre'
    obtain ⟨ux, cx, hux, hts, hax⟩ := hI _ _ _ hok hr
    split at h
    · simp only [PRes.mk.injEq, true_and] at h
      obtain ⟨rfl, rfl⟩ := h
      exact ⟨ux, cx, hux, hts, hax⟩
    · rename_i t rest1
      split at h
      · rename_i hlb
        generalize hi : pExpr c f (split .rbracket rest1).1 = ri at h
        obtain ⟨iv, ie, irest⟩ := ri
        dsimp only at h
        have hok1 : TokOK (t :: rest1) := hok.of_eq_append hts
        split at h
        · simp at h
        · rename_i rb rest2 hsp2
          split at h
          · rename_i hrb
            simp only [PRes.mk.injEq, List.append_eq_nil_iff, mkOpaque_eq_nil, endSplit_eq_nil] at h
            obtain ⟨rfl, ⟨rfl, rfl⟩, rfl⟩ := h
            obtain ⟨ui, ci, hui, hsp1, hai⟩ := hE _ _ _ hok1.tail.split1 hi
            simp only [List.append_nil] at hsp1
            have hrest1 : rest1 = ci ++ rb :: rest2 := by
              rw [← split_append .rbracket rest1, hsp2, hsp1]
            have hok2 : TokOK (rb :: rest2) := by
              have := hok1.tail.split2 (k := .rbracket); rwa [hsp2] at this
            refine ⟨_, cx ++ t :: ci ++ [rb], unparse_index _ _ hux hui, by rw [hts, hrest1]; simp, ?_⟩
            have hvt := hok1.head.symVal hlb
            have hvb := hok2.head.symVal hrb
            have : accounts true (ux ++ (sym .lbracket t.span :: (ui ++ [sym .rbracket rb.span])))
                (cx ++ (t :: (ci ++ [rb]))) = true :=
              accounts_append hax (accounts_cons (tokOk_sym hlb hvt)
                (accounts_append hai (accounts_single (tokOk_sym hrb hvb))))
            simpa using this
          · simp at h
      · simp only [PRes.mk.injEq, true_and] at h
        obtain ⟨rfl, rfl⟩ := h
        exact ⟨ux, cx, hux, hts, hax⟩

theorem step_trail {c : PCtx} {f : Nat} (hT : STrail c f) (hH : SHigher c f) (hU : SUnary c f)
    (hL : SList c f) : STrail c (f + 1) := by
  intro x m acc ts e rest hok h
  unfold pTrail at h
  split at h
  · simp only [PRes.mk.injEq] at h
    obtain ⟨rfl, -, rfl⟩ := h
    exact AccMore.refl _ _
  · rename_i op1 rest0
    dsimp only at h
    split at h
    · simp only [PRes.mk.injEq] at h
      obtain ⟨rfl, -, rfl⟩ := h
      exact AccMore.refl _ _
    · rename_i hprec
      have hprec' : ¬ precOf op1.kind < 0 := fun hh => hprec (Or.inl hh)
      split at h
      · -- x in ( … )
        rename_i hin
        split at h
        · simp at h
        · rename_i lp rest2
          split at h
          · simp at h
          · rename_i hlp
            have hlp' : lp.kind = .lparen := Classical.not_not.mp hlp
            generalize hl : pExprList c f (split .rparen rest2).1 = rl at h
            obtain ⟨lv, le, lrest⟩ := rl
            dsimp only at h
            split at h
            · simp at h
            · rename_i rp rest3 hsp2
              split at h
              · simp at h
              · rename_i hrp
                have hrp' : rp.kind = .rparen := Classical.not_not.mp hrp
                have hacc := (trail_errs_nil c f).1 _ _ _ _ (by rw [h])
                simp only [List.append_eq_nil_iff, mkOpaque_eq_nil, endSplit_eq_nil] at hacc
                obtain ⟨⟨rfl, rfl⟩, rfl⟩ := hacc
                have hok2 : TokOK rest2 := hok.tail.tail
                have hok3 : TokOK (rp :: rest3) := by
                  have := hok2.split2 (k := .rparen); rwa [hsp2] at this
                obtain ⟨-, ul, cl, hul, hsp1, hal⟩ := hL _ _ _ hok2.split1 hl
                simp only [List.append_nil] at hsp1
                have hrest2 : rest2 = cl ++ rp :: rest3 := by
                  rw [← split_append .rparen rest2, hsp2, hsp1]
                intro ux hux
                obtain ⟨m3, c3, hu3, hr3, ha3⟩ :=
                  hT _ _ _ _ _ _ hok3.tail h _ (unparse_inE op1.span lp.span rp.span hux hul)
                refine ⟨sym .in_ op1.span :: sym .lparen lp.span :: (ul ++ [sym .rparen rp.span]) ++ m3,
                  op1 :: lp :: (cl ++ [rp]) ++ c3, by rw [hu3]; simp, by rw [hrest2, hr3]; simp, ?_⟩
                have hv1 := hok.head.symVal hin
                have hv2 := hok.tail.head.symVal hlp'
                have hv3 := hok3.head.symVal hrp'
                exact accounts_append
                  (accounts_cons (tokOk_sym hin hv1) (accounts_cons (tokOk_sym hlp' hv2)
                    (accounts_append hal (accounts_single (tokOk_sym hrp' hv3))))) ha3
      · -- binary operator
        generalize hy : pUnary c f rest0 = ry at h
        obtain ⟨yv, ye, yrest⟩ := ry
        dsimp only at h
        generalize hh : pHigher c f yv (precOf op1.kind) (acc ++ mkOpaque ye) yrest = rh at h
        obtain ⟨hv, he, hrest⟩ := rh
        dsimp only at h
        have he0 := (trail_errs_nil c f).1 _ _ _ _ (by rw [h])
        subst he0
        have hacc := (trail_errs_nil c f).2 _ _ _ _ (by rw [hh])
        simp only [List.append_eq_nil_iff, mkOpaque_eq_nil] at hacc
        obtain ⟨rfl, rfl⟩ := hacc
        obtain ⟨uy, cy, huy, hr0, hay⟩ := hU _ _ _ hok.tail hy
        have hoky : TokOK yrest := hok.tail.of_eq_append hr0
        obtain ⟨mh, ch, huh, hr1, hah⟩ := hH _ _ _ _ _ _ hoky hh _ huy
        have hokh : TokOK hrest := hoky.of_eq_append hr1
        intro ux hux
        obtain ⟨m3, c3, hu3, hr3, ha3⟩ :=
          hT _ _ _ _ _ _ hokh h _ (unparse_binary op1.span op1.kind hux huh)
        refine ⟨sym op1.kind op1.span :: (uy ++ mh) ++ m3, op1 :: (cy ++ ch) ++ c3,
          by rw [hu3]; simp, by rw [hr0, hr1, hr3]; simp, ?_⟩
        have hv1 : op1.value = [] := hok.head.symVal rfl (prec_kind hprec')
        exact accounts_append (accounts_cons (tokOk_sym rfl hv1) (accounts_append hay hah)) ha3

theorem step_list {c : PCtx} {f : Nat} (hE : SExpr c f) (hLT : SListTail c f) : SList c (f + 1) := by
  intro ts l rest hok h
  unfold pExprList at h
  dsimp only at h
  generalize hr : pExpr c f ts = r at h
  obtain ⟨rv, re, rrest⟩ := r
  dsimp only at h
  split at h
  · rename_i hne
    simp only [PRes.mk.injEq] at h
    exact absurd h.2.1 hne
  · rename_i hre
    have hre' : re = [] := Classical.not_not.mp hre
    subst hre'
    obtain ⟨u1, c1, hu1, hts, ha1⟩ := hE _ _ _ hok hr
    obtain ⟨hne, m2, c2, hu2, hr2, ha2⟩ := hLT _ _ _ _ (hok.of_eq_append hts) h (by simp) u1
      (by rw [unparseList_single]; exact hu1)
    exact ⟨hne, u1 ++ m2, c1 ++ c2, hu2, by rw [hts, hr2]; simp, accounts_append ha1 ha2⟩

theorem step_listTail {c : PCtx} {f : Nat} (hE : SExpr c f) (hLT : SListTail c f) :
    SListTail c (f + 1) := by
  intro acc ts l rest hok h hacc ua hua
  unfold pExprListTail at h
  split at h
  · simp only [PRes.mk.injEq, true_and] at h
    obtain ⟨rfl, rfl⟩ := h
    exact ⟨hacc, [], [], by simpa using hua, rfl, accounts_nil _⟩
  · rename_i t rest0
    split at h
    · simp only [PRes.mk.injEq, true_and] at h
      obtain ⟨rfl, rfl⟩ := h
      exact ⟨hacc, [], [], by simpa using hua, rfl, accounts_nil _⟩
    · rename_i hcomma
      have hcomma' : t.kind = .comma := Classical.not_not.mp hcomma
      generalize hr : pExpr c f rest0 = r at h
      obtain ⟨rv, re, rrest⟩ := r
      dsimp only at h
      split at h
      · simp only [PRes.mk.injEq, true_and] at h
        obtain ⟨rfl, rfl⟩ := h
        exact ⟨hacc, [], [], by simpa using hua, rfl, accounts_nil _⟩
      · split at h
        · simp only [PRes.mk.injEq, mkOpaque_eq_nil] at h
          rename_i hne
          exact absurd h.2.1 hne
        · rename_i hre
          have hre' : re = [] := Classical.not_not.mp hre
          subst hre'
          obtain ⟨u1, c1, hu1, hts, ha1⟩ := hE _ _ _ hok.tail hr
          have h' : pExprListTail c f (acc.snoc rv) rrest = ⟨l, [], rest⟩ := by
            split at h
            · simp [unparseExpr] at hu1
            · exact h
          clear h
          have h := h'
          obtain ⟨hne, m2, c2, hu2, hr2, ha2⟩ := hLT _ _ _ _ (hok.tail.of_eq_append hts) h
            (snoc_ne_nil _ _) _ (unparseList_snoc _ _ _ _ hacc hua hu1)
          refine ⟨hne, commaTok :: u1 ++ m2, t :: c1 ++ c2, by rw [hu2]; simp, by rw [hts, hr2]; simp, ?_⟩
          have hv := hok.head.symVal hcomma'
          exact accounts_append (accounts_cons (tokOk_commaTok hcomma' hv) ha1) ha2

theorem step_inner {c : PCtx} {f : Nat} (hE : SExpr c f) (hL : SList c f) : SInner c (f + 1) := by
  intro ts e rest hok h
  unfold pInner at h
  split at h
  · simp at h
  · rename_i t rest0
    dsimp only at h
    split at h
    · -- literal
      simp only [PRes.mk.injEq, true_and] at h
      obtain ⟨rfl, rfl⟩ := h
      exact ⟨_, [t], unparse_lit _ _ _, rfl, accounts_single tokOk_lit⟩
    · split at h
      · -- identifier: qualified name or call
        rename_i hk
        generalize hq : pQualifiedIdent c (t :: rest0) = q at h
        obtain ⟨qv, qe, qrest⟩ := q
        dsimp only at h
        split at h
        · -- pQualifiedIdent returned nil: then it reported an error
          simp only [PRes.mk.injEq] at h
          obtain ⟨-, rfl, -⟩ := h
          obtain ⟨parts, _, hqv, _⟩ := pQualifiedIdent_acc (Or.inl hk) hok hq
          simp at hqv
        · rename_i parts
          split at h
          · rename_i hne
            simp only [PRes.mk.injEq] at h
            exact absurd h.2.1 hne
          · rename_i hqe
            have hqe' : qe = [] := Classical.not_not.mp hqe
            subst hqe'
            obtain ⟨parts', cq, hqv, hpne, hts, haq, hone⟩ := pQualifiedIdent_acc (Or.inl hk) hok hq
            simp only [Option.some.injEq] at hqv
            subst hqv
            have hqident : AccE (t :: rest0) (.qident parts) qrest :=
              ⟨_, cq, unparse_qident hpne, hts, haq⟩
            split at h
            · simp only [PRes.mk.injEq, true_and] at h
              obtain ⟨rfl, rfl⟩ := h
              exact hqident
            · rename_i hlen
              have hq0 : qrest = rest0 := hone (by omega)
              subst hq0
              split at h
              · simp only [PRes.mk.injEq, true_and] at h
                obtain ⟨rfl, rfl⟩ := h
                exact hqident
              · rename_i lp rest2
                split at h
                · simp only [PRes.mk.injEq, true_and] at h
                  obtain ⟨rfl, rfl⟩ := h
                  exact hqident
                · -- call
                  rename_i hlp
                  have hlp' : lp.kind = .lparen := Classical.not_not.mp hlp
                  generalize ha : pExprList c f (split .rparen rest2).1 = ra at h
                  obtain ⟨av, ae, arest⟩ := ra
                  dsimp only at h
                  split at h
                  · simp at h
                  · rename_i rp rest3 hsp2
                    split at h
                    · rename_i hrp
                      simp only [PRes.mk.injEq, List.append_eq_nil_iff, endSplit_eq_nil] at h
                      obtain ⟨rfl, ⟨he1, he2⟩, rfl⟩ := h
                      have hok2 : TokOK rest2 := hok.tail.tail
                      have hok3 : TokOK (rp :: rest3) := by
                        have := hok2.split2 (k := .rparen); rwa [hsp2] at this
                      have hv1 := hok.tail.head.symVal hlp'
                      have hv3 := hok3.head.symVal hrp
                      have hsplit : rest2 = (split .rparen rest2).1 ++ rp :: rest3 := by
                        rw [← hsp2, split_append]
                      by_cases hae : ae = []
                      · subst hae
                        simp only [if_true] at he2
                        obtain ⟨-, ua, ca, hua, hsp1, haa⟩ := hL _ _ _ hok2.split1 ha
                        -- nothing, or exactly one comma, is left of the argument range
                        cases arest with
                        | nil =>
                          simp only [List.append_nil] at hsp1
                          refine ⟨_, t :: lp :: (ca ++ [rp]), unparse_call _ _ _ hua,
                            by rw [hsplit, hsp1]; simp, ?_⟩
                          exact accounts_cons (tokOk_identTok_plain hk) (accounts_cons (tokOk_sym hlp' hv1)
                            (accounts_append haa (accounts_single (tokOk_symOpt hrp hv3 true))))
                        | cons cm more =>
                          dsimp only at he2
                          split at he2
                          · rename_i hcm
                            subst he2
                            refine ⟨_, t :: lp :: (ca ++ [cm, rp]), unparse_call _ _ _ hua,
                              by rw [hsplit, hsp1]; simp, ?_⟩
                            exact accounts_cons (tokOk_identTok_plain hk) (accounts_cons (tokOk_sym hlp' hv1)
                              (accounts_append haa (accounts_optComma rfl (by simp [sym]) hcm
                                (tokOk_symOpt hrp hv3 true) (accounts_nil _))))
                          · simp at he2
                      · have hnf : isNF ae = true := by
                          by_cases hnf : isNF ae = true
                          · exact hnf
                          · simp only [hnf] at he1; exact absurd he1 hae
                        simp only [hae, if_false] at he2
                        subst he2
                        have := (nf_expr c f).2.2.2.2.2.2.1 (split .rparen rest2).1 (by rw [ha]; exact hnf)
                        rw [ha] at this
                        dsimp only at this
                        obtain ⟨rfl, hsp1⟩ := this
                        refine ⟨_, [t, lp, rp], unparse_call (as := []) _ _ _ (by simp [unparseExprList]),
                          by rw [hsplit, ← hsp1]; simp, ?_⟩
                        exact accounts_cons (tokOk_identTok_plain hk) (accounts_cons (tokOk_sym hlp' hv1)
                          (accounts_single (tokOk_symOpt hrp hv3 true)))
                    · simp at h
      · split at h
        · -- quoted identifier
          rename_i hk
          generalize hq : pQualifiedIdent c (t :: rest0) = q at h
          obtain ⟨qv, qe, qrest⟩ := q
          dsimp only at h
          split at h
          · simp only [PRes.mk.injEq] at h
            obtain ⟨-, rfl, -⟩ := h
            obtain ⟨parts, _, hqv, _⟩ := pQualifiedIdent_acc (Or.inr hk) hok hq
            simp at hqv
          · rename_i parts
            simp only [PRes.mk.injEq] at h
            obtain ⟨rfl, rfl, rfl⟩ := h
            obtain ⟨parts', cq, hqv, hpne, hts, haq, -⟩ := pQualifiedIdent_acc (Or.inr hk) hok hq
            simp only [Option.some.injEq] at hqv
            subst hqv
            exact ⟨_, cq, unparse_qident hpne, hts, haq⟩
        · split at h
          · -- parenthesis
            rename_i hlp
            generalize hx : pExpr c f (split .rparen rest0).1 = rx at h
            obtain ⟨xv, xe, xrest⟩ := rx
            dsimp only at h
            split at h
            · simp at h
            · rename_i rp rest2 hsp2
              split at h
              · rename_i hrp
                simp only [PRes.mk.injEq, List.append_eq_nil_iff, mkOpaque_eq_nil, endSplit_eq_nil] at h
                obtain ⟨rfl, ⟨rfl, rfl⟩, rfl⟩ := h
                have hok3 : TokOK (rp :: rest2) := by
                  have := hok.tail.split2 (k := .rparen); rwa [hsp2] at this
                obtain ⟨ux, cx, hux, hsp1, hax⟩ := hE _ _ _ hok.tail.split1 hx
                simp only [List.append_nil] at hsp1
                have hsplit : rest0 = cx ++ rp :: rest2 := by
                  rw [← split_append .rparen rest0, hsp2, hsp1]
                have hv1 := hok.head.symVal hlp
                have hv3 := hok3.head.symVal hrp
                refine ⟨_, t :: (cx ++ [rp]), unparse_paren _ _ hux, by rw [hsplit]; simp, ?_⟩
                exact accounts_cons (tokOk_sym hlp hv1) (accounts_append hax (accounts_single (tokOk_sym hrp hv3)))
              · simp at h
          · simp at h

/-- Stage 1, all expression productions at once. -/
theorem acc_expr_all (c : PCtx) (fuel : Nat) :
    SExpr c fuel ∧ STrail c fuel ∧ SHigher c fuel ∧ SUnary c fuel ∧ SPrimary c fuel ∧ SInner c fuel ∧
    SList c fuel ∧ SListTail c fuel := by
  induction fuel with
  | zero =>
    refine ⟨?_, ?_, ?_, ?_, ?_, ?_, ?_, ?_⟩
    · intro ts e rest _ h; simp [pExpr] at h
    · intro x m acc ts e rest _ h; simp [pTrail] at h
    · intro y p acc ts e rest _ h; simp [pHigher] at h
    · intro ts e rest _ h; simp [pUnary] at h
    · intro ts e rest _ h; simp [pPrimary] at h
    · intro ts e rest _ h; simp [pInner] at h
    · intro ts l rest _ h; simp [pExprList] at h
    · intro acc ts l rest _ h; simp [pExprListTail] at h
  | succ f ih =>
    obtain ⟨hE, hT, hH, hU, hP, hI, hL, hLT⟩ := ih
    exact ⟨step_expr hU hT, step_trail hT hH hU hL, step_higher hT hH, step_unary hP,
      step_primary hI hE, step_inner hE hL, step_list hE hLT, step_listTail hE hLT⟩

theorem pExpr_acc {c : PCtx} {fuel : Nat} {ts : List Token} {e : Expr} {rest : List Token}
    (hok : TokOK ts) (h : pExpr c fuel ts = ⟨e, [], rest⟩) : AccE ts e rest :=
  (acc_expr_all c fuel).1 ts e rest hok h

theorem pExprList_acc {c : PCtx} {fuel : Nat} {ts : List Token} {l : ExprList} {rest : List Token}
    (hok : TokOK ts) (h : pExprList c fuel ts = ⟨l, [], rest⟩) : AccL ts l rest :=
  (acc_expr_all c fuel).2.2.2.2.2.2.1 ts l rest hok h

end Pql
