/-
Property C10 for the parts of operators: sort terms, columns, render properties, and
comma-separated lists of them.
-/
import PqlModel.Lemmas.SpanExtentExpr
import PqlModel.Lemmas.AccountedOps
namespace Pql
open Grammar

/-- what the induction proves for one kind of node: it stands for at least one token, and its
    span is the extent of the tokens it accounts for -/
def ExtSpec {α} (f : α → Option (List UTok)) (sp : α → Span) : Prop :=
  ∀ c us, f c = some us → us ≠ [] ∧ ∀ ts, TokOK ts → accounts true us ts = true → sp c = ext ts

theorem expr_extSpec : ExtSpec unparseExpr Expr.spanOf :=
  fun e us h => ⟨unparseExpr_ne_nil h, fun ts hok ha => expr_ext e us ts h hok ha⟩

/-! ### sort terms -/

theorem sortTerm_extSpec : ExtSpec unparseSortTerm SortTerm.spanOf := by
  intro t us h
  cases hx : unparseExpr t.x with
  | none => simp [unparseSortTerm, hx] at h
  | some xs =>
    rw [unparseSortTerm_eq hx, Option.some.injEq] at h
    subst h
    have hxne := unparseExpr_ne_nil hx
    refine ⟨by simp [hxne], ?_⟩
    intro ts hok ha
    rw [List.append_assoc] at ha
    obtain ⟨tx, r, rfl, hax, har⟩ := accounts_append_split ha
    have ihx := expr_ext t.x xs tx hx hok.left hax
    obtain ⟨td, tn, rfl, had, han⟩ := accounts_append_split har
    unfold dirOf at had
    unfold nullsOf at han
    cases hd : t.ascDescSpan.isValid <;> cases hn : t.nullsSpan.isValid
    · simp only [hd, Bool.false_eq_true, if_false] at had
      simp only [hn, Bool.false_eq_true, if_false] at han
      rw [accounts_nil_left had, accounts_nil_left han]
      have := unions_ext [tx] (by simpa using hok.left)
      simp only [SortTerm.spanOf, Span.unions, List.foldl_cons, List.foldl_nil, ihx,
        union_invalid_right hd, union_invalid_right hn]
      simpa [Span.unions] using this
    · simp only [hd, Bool.false_eq_true, if_false] at had
      simp only [hn, if_true] at han
      rw [accounts_nil_left had] at hok ⊢
      obtain ⟨t1, t2, r2, rfl, hsp, hr2⟩ := accounts_span2_cons t.nullsSpan rfl rfl rfl rfl han
      rw [accounts_nil_left hr2] at hok ⊢
      have := unions_ext [tx, [t1, t2]] (by simpa using hok)
      simp only [SortTerm.spanOf, Span.unions, List.foldl_cons, List.foldl_nil, ihx,
        union_invalid_right hd, hsp]
      simpa [Span.unions] using this
    · simp only [hd, if_true] at had
      simp only [hn, Bool.false_eq_true, if_false] at han
      rw [accounts_nil_left han] at hok ⊢
      obtain ⟨t1, rfl, hsp⟩ := accounts_span_single t.ascDescSpan rfl rfl rfl had
      have := unions_ext [tx, [t1]] (by simpa using hok)
      simp only [SortTerm.spanOf, Span.unions, List.foldl_cons, List.foldl_nil, ihx,
        union_invalid_right hn, hsp]
      simpa [Span.unions] using this
    · simp only [hd, if_true] at had
      simp only [hn, if_true] at han
      obtain ⟨t0, rfl, hsp0⟩ := accounts_span_single t.ascDescSpan rfl rfl rfl had
      obtain ⟨t1, t2, r2, rfl, hsp, hr2⟩ := accounts_span2_cons t.nullsSpan rfl rfl rfl rfl han
      rw [accounts_nil_left hr2] at hok ⊢
      have := unions_ext [tx, [t0], [t1, t2]] (by simpa using hok)
      simp only [SortTerm.spanOf, Span.unions, List.foldl_cons, List.foldl_nil, ihx, hsp, hsp0]
      simpa [Span.unions] using this

/-! ### columns -/

theorem column_extSpec (project : Bool) : ExtSpec (unparseColumn project) Column.spanOf := by
  intro c us h
  obtain ⟨name, asg, x⟩ := c
  cases name with
  | some n =>
    cases hv : asg.isValid
    · -- a bare name (project only)
      cases project
      · simp [unparseColumn, hv] at h
      · cases x <;> simp [unparseColumn, hv] at h
        subst h
        refine ⟨by simp, ?_⟩
        intro ts hok ha
        obtain ⟨t, rfl, hsp⟩ := accounts_span_single (u := identTok n) n.span rfl rfl rfl ha
        have := unions_ext [[t]] (by simpa using hok)
        simp only [Column.spanOf, Ident.spanOf, Expr.spanOf, Span.unions, List.foldl_cons, List.foldl_nil,
          union_invalid_right hv, union_null_right, hsp]
        simpa [Span.unions] using this
    · cases hx : unparseExpr x with
      | none => simp [unparseColumn, hv, hx] at h
      | some xs =>
        rw [unparseColumn_named hv hx, Option.some.injEq] at h
        subst h
        refine ⟨by simp, ?_⟩
        intro ts hok ha
        obtain ⟨tn, r1, rfl, hspn, har1⟩ := accounts_span_cons (u := identTok n) n.span rfl rfl rfl ha
        obtain ⟨ta, tx, rfl, hspa, hax⟩ := accounts_span_cons (u := sym .assign asg) asg rfl rfl rfl har1
        have ihx := expr_ext x xs tx hx hok.tail.tail hax
        have := unions_ext [[tn], [ta], tx] (by simpa using hok)
        simp only [Column.spanOf, Ident.spanOf, ihx, hspn, hspa]
        simpa using this
  | none =>
    cases hv : asg.isValid
    · cases project
      · simp only [unparseColumn, hv, Bool.or_self, Bool.false_eq_true, if_false] at h
        refine ⟨unparseExpr_ne_nil h, ?_⟩
        intro ts hok ha
        have ihx := expr_ext x us ts h hok ha
        have := unions_ext [ts] (by simpa using hok)
        simp only [Column.spanOf, Ident.spanOf, Span.unions, List.foldl_cons, List.foldl_nil,
          union_invalid_right hv, union_null_right, ihx]
        simpa [Span.unions] using this
      · simp [unparseColumn] at h
    · simp [unparseColumn, hv] at h

/-! ### render properties -/

theorem prop_extSpec : ExtSpec unparseProp RenderProp.spanOf := by
  intro c us h
  obtain ⟨name, asg, x⟩ := c
  cases name with
  | none => simp [unparseProp] at h
  | some n =>
    cases hx : unparseExpr x with
    | none => simp [unparseProp, hx] at h
    | some xs =>
      rw [unparseProp_eq hx, Option.some.injEq] at h
      subst h
      refine ⟨by simp, ?_⟩
      intro ts hok ha
      obtain ⟨tn, r1, rfl, hspn, har1⟩ := accounts_span_cons (u := identTok n) n.span rfl rfl rfl ha
      obtain ⟨ta, tx, rfl, hspa, hax⟩ := accounts_span_cons (u := sym .assign asg) asg rfl rfl rfl har1
      have ihx := expr_ext x xs tx hx hok.tail.tail hax
      have := unions_ext [[tn], [ta], tx] (by simpa using hok)
      simp only [RenderProp.spanOf, Ident.spanOf, ihx, hspn, hspa]
      simpa using this

/-! ### comma-separated lists -/

theorem listM_cons_inv {α β} {f : α → Option β} {x : α} {xs : List α} {r : List β}
    (h : listM f (x :: xs) = some r) : ∃ y ys, f x = some y ∧ listM f xs = some ys ∧ r = y :: ys := by
  simp only [listM, Option.bind_eq_bind, Option.pure_def, Option.bind_eq_some_iff, Option.some.injEq] at h
  obtain ⟨y, hy, ys, hys, rfl⟩ := h
  exact ⟨y, ys, hy, hys, rfl⟩

theorem listM_nil_inv {α β} {f : α → Option β} {r : List β} (h : listM f [] = some r) : r = [] := by
  simp only [listM, Option.some.injEq] at h
  exact h.symm

theorem sepBy_ne_nil {α} {f : α → Option (List UTok)} {sp : α → Span} (hf : ExtSpec f sp) {c : α} {cs : List α}
    {css : List (List UTok)} (h : listM f (c :: cs) = some css) : sepBy commaTok css ≠ [] := by
  obtain ⟨y, ys, hy, hys, rfl⟩ := listM_cons_inv h
  have hne := (hf c y hy).1
  cases ys with
  | nil => simpa [sepBy] using hne
  | cons z zs => simp [sepBy]

/-- the union of the spans of comma-separated items is the extent of the list's tokens -/
theorem sepBy_ext {α} {f : α → Option (List UTok)} {sp : α → Span} (hf : ExtSpec f sp) :
    ∀ (cs : List α) (css : List (List UTok)) (ts : List Token), listM f cs = some css → TokOK ts →
      accounts true (sepBy commaTok css) ts = true → sliceSpan (cs.map sp) = ext ts
  | [], css, ts, h, _, ha => by
    have hc := listM_nil_inv h
    subst hc
    have ha' : accounts true [] ts = true := by simpa [sepBy] using ha
    rw [accounts_nil_left ha']
    rfl
  | [c], css, ts, h, hok, ha => by
    obtain ⟨y, ys, hy, hys, rfl⟩ := listM_cons_inv h
    have hc := listM_nil_inv hys
    subst hc
    rw [sepBy_single] at ha
    have ih := (hf c y hy).2 ts hok ha
    rw [sliceSpan_eq_unions]
    have := unions_ext [ts] (by simpa using hok)
    simp only [List.map_cons, List.map_nil, ih]
    simpa using this
  | c :: c' :: cs, css, ts, h, hok, ha => by
    obtain ⟨y, ys, hy, hys, rfl⟩ := listM_cons_inv h
    obtain ⟨y', ys', hy', hys', rfl⟩ := listM_cons_inv hys
    rw [sepBy_cons_cons] at ha
    obtain ⟨ta, r, rfl, haa, har⟩ := accounts_append_split ha
    obtain ⟨tc, tb, rfl, hab⟩ := accounts_plain_cons (u := commaTok) rfl har
    have ihe := (hf c y hy).2 ta hok.left haa
    have ihs := sepBy_ext hf (c' :: cs) (y' :: ys') tb hys hok.right.tail hab
    have hne1 : ta ≠ [] := accounts_ne_nil (hf c y hy).1 haa
    have hne2 : tb ≠ [] := accounts_ne_nil (sepBy_ne_nil hf hys) hab
    rw [sliceSpan_eq_unions] at ihs ⊢
    rw [List.map_cons, ihe]
    exact unions_cons_gap hok hne1 hne2 ihs

end Pql
