/-
C05, syntactic half, stage 2 (g): `op_spec` — for every operator a link can carry, the body
`bodyOf` writes is `SELECT items FROM source [WHERE …] [GROUP BY …]` with items and clauses that are
read back as `bodyA` prescribes.
-/
import PqlModel.Lemmas.ParseStmtOps
namespace Pql.C05
set_option linter.unusedSimpArgs false
set_option linter.unusedVariables false
open Pql Sql CompileOracle Intended Pql.RT

/-- the body of a SELECT, at token level, against the intended items / WHERE / GROUP BY -/
def OpSpec (src : Bytes) (op : Option Op) (source body : List Chunk) : Prop :=
  ∃ itemTs mid witems wwh wgb,
    toksOf body = RT.W "SELECT" :: (sepToks itemTs ++ RT.W "FROM" :: (toksOf source ++ mid)) ∧
    ListRel ItemP itemTs witems ∧ itemTs ≠ [] ∧ MidP mid wwh wgb ∧
    ∀ s j, bodyA src op (baseSel s j) = some { baseSel s j with items := witems, where_ := wwh, groupBy := wgb }

theorem ne_nil_of_rel {α β : Type} {R : α → β → Prop} {as : List α} {bs : List β} (h : ListRel R as bs)
    (hb : bs ≠ []) : as ≠ [] := by
  cases h with
  | nil => exact absurd rfl hb
  | cons _ _ => simp

theorem mapM_length {α β : Type} {g : α → Option β} : ∀ {as : List α} {bs : List β}, as.mapM g = some bs → bs.length = as.length
  | [], bs, h => by simp at h; subst h; rfl
  | a :: as, bs, h => by
    simp only [List.mapM_cons, Option.bind_eq_bind, Option.pure_def] at h
    cases ha : g a with
    | none => simp [ha] at h
    | some b =>
      cases hs : as.mapM g with
      | none => simp [ha, hs] at h
      | some bs' =>
        simp [ha, hs] at h
        subst h
        simp [mapM_length hs]

theorem star_spec (src : Bytes) (source : List Chunk) :
    ∃ itemTs, RT.W "SELECT" :: S "*" :: RT.W "FROM" :: toksOf source =
        RT.W "SELECT" :: (sepToks itemTs ++ RT.W "FROM" :: (toksOf source ++ [])) ∧
      ListRel ItemP itemTs [starItem] ∧ itemTs ≠ [] :=
  ⟨[[S "*"]], by simp [sepToks], .cons itemP_star .nil, by simp⟩

theorem op_spec (src : Bytes) (op : Option Op) (hok : opOK op = true) (source : List Chunk) (b : Option (List Chunk))
    (hb : bodyOf ⟨src, [], .default⟩ op source = .ok b) : ∃ body, b = some body ∧ OpSpec src op source body := by
  have plain : ∀ o : Option Op, bodyOf ⟨src, [], .default⟩ o source = .ok (some (.txt "SELECT * FROM " :: source)) →
      (∀ s j, bodyA src o (baseSel s j) = some (baseSel s j)) →
      bodyOf ⟨src, [], .default⟩ o source = .ok b → ∃ body, b = some body ∧ OpSpec src o source body := by
    intro o h1 h2 h3
    rw [h1] at h3
    simp only [Except.ok.injEq] at h3
    subst h3
    refine ⟨_, rfl, [[S "*"]], [], [starItem], none, [], by simp [sepToks], .cons itemP_star .nil, by simp, midP_nil, ?_⟩
    intro s j
    rw [h2]
    rfl
  rcases op with _ | o
  · exact plain none rfl (fun _ _ => rfl) hb
  cases o with
  | as_ p k n => exact plain _ rfl (fun _ _ => rfl) hb
  | sort => simp [opOK] at hok
  | take => simp [opOK] at hok
  | top => simp [opOK] at hok
  | join => simp [opOK] at hok
  | where_ p k pred =>
    simp only [opOK] at hok
    simp only [bodyOf] at hb
    cases hp : writeExpr ⟨src, [], .default⟩ pred with
    | error e => rw [hp] at hb; cases hb
    | ok pc =>
      rw [hp] at hb
      simp only [bind, Except.bind, pure, Except.pure, Except.ok.injEq] at hb
      subst hb
      obtain ⟨want, ht, hP⟩ := exprP_default hok hp
      refine ⟨_, rfl, [[S "*"]], RT.W "WHERE" :: toksOf pc, [starItem], some want, [], by simp [sepToks],
        .cons itemP_star .nil, by simp, midP_where hP, ?_⟩
      intro s j
      simp only [bodyA, ht, Option.bind_eq_bind, Option.bind_some, Option.pure_def]
      rfl
  | count p k =>
    simp only [bodyOf, pure, Except.pure, Except.ok.injEq] at hb
    subst hb
    refine ⟨_, rfl, [[RT.W "COUNT", S "(", S "*", S ")", RT.W "AS", .qid (Bytes.ofString "count()")]], [], _, none, [],
      by simp [sepToks], .cons ?_ .nil, by simp, midP_nil, fun s j => rfl⟩
    exact itemP_alias countStarP.toExpr up_AS (Bytes.ofString "count()")
  | project p k cols =>
    simp only [opOK, Bool.and_eq_true, Bool.not_eq_true', List.isEmpty_eq_false_iff] at hok
    have hb' : (do let cs ← cols.mapM (projCol ⟨src, [], .default⟩)
                   pure (some (Chunk.txt "SELECT " :: sepChunks ", " cs ++ .txt " FROM " :: source)) :
                Except WErr (Option (List Chunk))) = .ok b := hb
    cases hcs : cols.mapM (projCol ⟨src, [], .default⟩) with
    | error e => rw [hcs] at hb'; cases hb'
    | ok cs =>
      rw [hcs] at hb'
      simp only [bind, Except.bind, pure, Except.pure, Except.ok.injEq] at hb'
      subst hb'
      obtain ⟨witems, hw, hrel⟩ := projCols_spec src cols cs hok.2 hcs
      have hne : cs.map toksOf ≠ [] := ne_nil_of_rel hrel (by
        intro he
        have := mapM_length hw
        rw [he] at this
        exact hok.1 (List.length_eq_zero_iff.1 this.symm))
      refine ⟨_, rfl, cs.map toksOf, [], witems, none, [], by simp [toksOf_sepChunks], hrel, hne, midP_nil, ?_⟩
      intro s j
      simp only [bodyA, hw, Option.bind_eq_bind, Option.bind_some, Option.pure_def]
      rfl
  | extend p k cols =>
    simp only [opOK] at hok
    simp only [bodyOf] at hb
    cases hcs : writeColumns ⟨src, [], .default⟩ cols with
    | error e => rw [hcs] at hb; cases hb
    | ok cs =>
      rw [hcs] at hb
      simp only [bind, Except.bind, pure, Except.pure, Except.ok.injEq] at hb
      subst hb
      obtain ⟨witems, hw, hrel⟩ := writeColumns_spec src cols cs hok hcs
      refine ⟨_, rfl, [S "*"] :: cs.map toksOf, [], starItem :: witems, none, [],
        by simp [toksOf_commaFlat, sepToks_cons], .cons itemP_star hrel, by simp, midP_nil, ?_⟩
      intro s j
      simp only [bodyA, hw, Option.bind_eq_bind, Option.bind_some, Option.pure_def]
      rfl
  | summarize p k cols byS groupBy =>
    simp only [opOK, Bool.and_eq_true, Bool.not_eq_true', List.isEmpty_eq_false_iff] at hok
    simp only [bodyOf] at hb
    cases hgs : writeColumns ⟨src, [], .default⟩ groupBy with
    | error e => rw [hgs] at hb; cases hb
    | ok gs =>
    cases hcs : writeColumns ⟨src, [], .default⟩ cols with
    | error e => rw [hgs, hcs] at hb; cases hb
    | ok cs =>
    cases hgb : groupBy.mapM (fun c : Column => writeExpr ⟨src, [], .default⟩ c.x) with
    | error e => rw [hgs, hcs, hgb] at hb; cases hb
    | ok gb =>
      rw [hgs, hcs, hgb] at hb
      simp only [bind, Except.bind, pure, Except.pure, Except.ok.injEq] at hb
      subst hb
      obtain ⟨wgs, hwgs, hrg⟩ := writeColumns_spec src groupBy gs hok.2 hgs
      obtain ⟨wcs, hwcs, hrc⟩ := writeColumns_spec src cols cs hok.1.2 hcs
      obtain ⟨wgb, hwgb, hrb⟩ := groupExprs_spec src groupBy gb hok.2 hgb
      have hrel : ListRel ItemP ((gs ++ cs).map toksOf) (wgs ++ wcs) := by
        rw [List.map_append]; exact hrg.append hrc
      have hne : (gs ++ cs).map toksOf ≠ [] := ne_nil_of_rel hrel (by
        intro he
        have h1 := mapM_length hwgs
        have h2 := mapM_length hwcs
        have : (wgs ++ wcs).length = 0 := by rw [he]; rfl
        rw [List.length_append, h1, h2, ← List.length_append] at this
        exact hok.1.1 (List.length_eq_zero_iff.1 this))
      have hbody : ∀ s j, bodyA src (some (.summarize p k cols byS groupBy)) (baseSel s j) =
          some { baseSel s j with items := wgs ++ wcs, where_ := none, groupBy := wgb } := by
        intro s j
        simp only [bodyA, hwgs, hwcs, hwgb, Option.bind_eq_bind, Option.bind_some, Option.pure_def]
        rfl
      cases hE : groupBy with
      | nil =>
        subst hE
        simp only [List.mapM_nil, pure, Except.pure, Except.ok.injEq] at hgb
        subst hgb
        simp only [List.mapM_nil, Option.pure_def, Option.some.injEq] at hwgb
        subst hwgb
        exact ⟨_, rfl, (gs ++ cs).map toksOf, [], wgs ++ wcs, none, [], by simp [toksOf_sepChunks], hrel, hne,
          midP_nil, hbody⟩
      | cons g gs' =>
        rw [hE] at hwgb
        have hgne : gb.map toksOf ≠ [] := ne_nil_of_rel hrb (by
          intro he
          have := mapM_length hwgb
          rw [he] at this
          simp at this)
        refine ⟨_, rfl, (gs ++ cs).map toksOf, RT.W "GROUP" :: RT.W "BY" :: sepToks (gb.map toksOf), wgs ++ wcs, none, wgb,
          by simp [toksOf_sepChunks], hrel, hne, midP_group hrb hgne, ?_⟩
        rw [← hE]
        exact hbody
  | render p k chart w lp props rp =>
    simp only [bodyOf, pure, Except.pure, Except.ok.injEq] at hb
    subst hb
    refine ⟨_, rfl, [S "*"] :: [.str (identName chart), RT.W "as", .qid (Bytes.ofString "render_type")] ::
        props.map (fun pr => [STok.str (renderPropValue pr.value), RT.W "as",
          .qid (Bytes.ofString "render_prop_" ++ identName pr.name)]), [], _, none, [],
      ?_, .cons itemP_star (.cons ?_ ?_), by simp, midP_nil, fun s j => rfl⟩
    · simp only [sepToks_cons, List.flatMap_cons]
      have : ∀ ps : List RenderProp, toksOf (ps.flatMap fun pr =>
            [.txt ",\n    ", .qstr (renderPropValue pr.value), .txt " as ",
             .qid (Bytes.ofString "render_prop_" ++ identName pr.name)]) =
          (ps.map fun pr => [STok.str (renderPropValue pr.value), RT.W "as",
            .qid (Bytes.ofString "render_prop_" ++ identName pr.name)]).flatMap fun y => S "," :: y := by
        intro ps
        induction ps with
        | nil => rfl
        | cons pr ps ih => simp [ih]
      simp [this]
    · exact itemP_alias (E := [.str (identName chart)]) (strP _).toExpr up_as (Bytes.ofString "render_type")
    · clear hok plain
      induction props with
      | nil => exact .nil
      | cons pr ps ih =>
        exact .cons (itemP_alias (E := [.str (renderPropValue pr.value)]) (strP _).toExpr up_as _) ih

end Pql.C05
