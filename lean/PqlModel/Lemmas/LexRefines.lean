/-
The model scanner refines the declarative grammar: `scanOne` agrees with `LexSpec.pieceAt`
on every non-empty suffix (one token class at a time), and `scan = LexSpec.tokens`.
-/
import PqlModel.Lemmas.RegexLemmas
set_option linter.unusedSimpArgs false
namespace Pql
open Re LexSpec

/-! ### `String.toUTF8.toList` -/

theorem byteArray_toList_loop (bs : ByteArray) (i : Nat) (r : List UInt8) :
    ByteArray.toList.loop bs i r = r.reverse ++ bs.data.toList.drop i := by
  fun_induction ByteArray.toList.loop bs i r with
  | case1 i r h ih =>
    rw [ih]
    have hi : i < bs.data.toList.length := by
      rw [Array.length_toList, ByteArray.size_data]; exact h
    rw [List.drop_eq_getElem_cons hi]
    have : bs.get! i = bs.data.toList[i] := by
      cases bs with
      | mk d =>
        simp only [ByteArray.get!]
        simp at hi
        simp [hi]
    simp [this]
  | case2 i r h =>
    have hi : bs.data.toList.length ≤ i := by
      rw [Array.length_toList, ByteArray.size_data]; omega
    simp [List.drop_eq_nil_of_le hi]

theorem byteArray_toList (bs : ByteArray) : bs.toList = bs.data.toList := by
  simp [ByteArray.toList, byteArray_toList_loop]

theorem ofString_ofList (l : List Char) :
    Bytes.ofString (String.ofList l) = l.flatMap String.utf8EncodeChar := by
  simp [Bytes.ofString, byteArray_toList, String.toByteArray_ofList, List.utf8Encode]

example : Bytes.ofString "and" = [97, 110, 100] := by
  have : "and" = String.ofList ['a', 'n', 'd'] := by decide
  rw [this, ofString_ofList]
  decide


theorem utf8EncodeChar_digit (c : Char) (h : c.isDigit = true) :
    String.utf8EncodeChar c = [UInt8.ofNat c.toNat] := by
  have h1 : 48 ≤ c.toNat ∧ c.toNat ≤ 57 := by simpa using Char.isDigit_iff_toNat.mp h
  have hsz : c.utf8Size = 1 := by
    have h2 : c.val.toNat ≤ 57 := h1.2
    simp only [Char.utf8Size]
    have : c.val ≤ 127 := by
      rw [UInt32.le_iff_toNat_le]
      have : (127 : UInt32).toNat = 127 := by decide
      omega
    simp [this]
  rw [String.utf8EncodeChar_eq_singleton hsz]
  rfl

theorem decimalOfNat_eq_natToDec (n : Nat) : decimalOfNat n = natToDec n := by
  have hl : ∀ c ∈ Nat.toDigits 10 n, c.isDigit = true :=
    fun c hc => Nat.isDigit_of_mem_toDigits (by decide) (by decide) hc
  have : decimalOfNat n = Bytes.ofString (String.ofList (Nat.toDigits 10 n)) := rfl
  rw [this, ofString_ofList, natToDec]
  generalize Nat.toDigits 10 n = l at hl
  induction l with
  | nil => rfl
  | cons c l ih =>
    simp only [List.flatMap_cons, List.map_cons]
    rw [utf8EncodeChar_digit c (hl c (by simp)), ih (fun d hd => hl d (by simp [hd]))]
    rfl


theorem ofString_and : Bytes.ofString "and" = [97, 110, 100] := by
  have : "and" = String.ofList ['a', 'n', 'd'] := by decide
  rw [this, ofString_ofList]; decide
theorem ofString_or : Bytes.ofString "or" = [111, 114] := by
  have : "or" = String.ofList ['o', 'r'] := by decide
  rw [this, ofString_ofList]; decide
theorem ofString_in : Bytes.ofString "in" = [105, 110] := by
  have : "in" = String.ofList ['i', 'n'] := by decide
  rw [this, ofString_ofList]; decide
theorem ofString_by : Bytes.ofString "by" = [98, 121] := by
  have : "by" = String.ofList ['b', 'y'] := by decide
  rw [this, ofString_ofList]; decide

theorem keywordKind_eq (text : Bytes) :
    keywordKind text = (LexSpec.keywords.find? (fun kv => kv.1 == text)).map (·.2) := by
  have e1 : TokKind.ofGoName "TokenAnd" = some .and_ := by decide
  have e2 : TokKind.ofGoName "TokenBy" = some .by_ := by decide
  have e3 : TokKind.ofGoName "TokenIn" = some .in_ := by decide
  have e4 : TokKind.ofGoName "TokenOr" = some .or_ := by decide
  simp only [keywordKind, Facts.keywords, LexSpec.keywords, List.find?, ofString_and, ofString_or,
    ofString_in, ofString_by]
  by_cases h1 : ([97, 110, 100] : Bytes) = text
  · subst h1; simp [e1]
  · by_cases h2 : ([98, 121] : Bytes) = text
    · subst h2; simp [e2]
    · by_cases h3 : ([105, 110] : Bytes) = text
      · subst h3; simp [e3]
      · by_cases h4 : ([111, 114] : Bytes) = text
        · subst h4; simp [e4]
        · have b1 : (([97, 110, 100] : Bytes) == text) = false := by simpa using h1
          have b2 : (([98, 121] : Bytes) == text) = false := by simpa using h2
          have b3 : (([105, 110] : Bytes) == text) = false := by simpa using h3
          have b4 : (([111, 114] : Bytes) == text) = false := by simpa using h4
          simp only [b1, b2, b3, b4, Option.map_none]

/-! ### small equivalences between model helpers and spec helpers -/

theorem normalizeDecimal_eq (s : Bytes) : normalizeDecimal s = normalizeNumber s := by
  have h : ∀ t : Bytes, t.dropWhile (· == 48) = trimLeftZeros t := by
    intro t
    induction t with
    | nil => rfl
    | cons c t ih =>
      simp only [List.dropWhile_cons, trimLeftZeros]
      split <;> simp_all
  simp only [normalizeDecimal, normalizeNumber, h]
  cases trimLeftZeros s <;> rfl

theorem hexDigitVal_eq (c : UInt8) (h : isHexDigit c = true) : hexDigitVal c = hexVal c := by
  rw [isHexDigit_iff] at h
  simp only [Bool.or_eq_true, Bool.and_eq_true, decide_eq_true_eq] at h
  simp only [hexDigitVal, hexVal, Bool.and_eq_true, decide_eq_true_eq]
  repeat' split
  all_goals omega

theorem hexValue_eq_hexToNat (ds : Bytes) (h : ∀ c ∈ ds, isHexDigit c = true) :
    LexSpec.hexValue ds = hexToNat ds := by
  simp only [LexSpec.hexValue, hexToNat]
  generalize 0 = acc
  induction ds generalizing acc with
  | nil => rfl
  | cons c ds ih =>
    simp only [List.foldl_cons]
    rw [hexDigitVal_eq c (h c (by simp))]
    exact ih (fun d hd => h d (by simp [hd])) _

/-! ### one piece = one step -/

def stepOfPiece : Piece → Step
  | .trivia w => ⟨none, w⟩
  | .tok k v w => ⟨some (k, v), w⟩

theorem decodeRune_ascii (c : UInt8) (rest : Bytes) (h : c.toNat < 128) :
    decodeRune (c :: rest) = (c.toNat, 1) := by
  simp [decodeRune_cons, h]

theorem isSpaceRune_ascii (c : UInt8) (h : c.toNat < 128) :
    isSpaceRune c.toNat = isAsciiSpace c := by
  simp only [isSpaceRune, isAsciiSpace, beq_iff_toNat]
  have e : ∀ k : Nat, (c.toNat == k) = decide (c.toNat = k) := by
    intro k; by_cases hk : c.toNat = k <;> simp [hk]
  simp only [e]
  have h1 : decide (c.toNat = 0x85) = false := by simp; omega
  have h2 : decide (c.toNat = 0xA0) = false := by simp; omega
  have h3 : decide (c.toNat = 0x1680) = false := by simp; omega
  have h4 : (decide (0x2000 ≤ c.toNat) && decide (c.toNat ≤ 0x200A)) = false := by simp; omega
  have h5 : decide (c.toNat = 0x2028) = false := by simp; omega
  have h6 : decide (c.toNat = 0x2029) = false := by simp; omega
  have h7 : decide (c.toNat = 0x202F) = false := by simp; omega
  have h8 : decide (c.toNat = 0x205F) = false := by simp; omega
  have h9 : decide (c.toNat = 0x3000) = false := by simp; omega
  simp [h1, h2, h3, h4, h5, h6, h7, h8, h9]

theorem pieceAt_eq_scanOne_ident (c : UInt8) (rest : Bytes) (h : isIdentStart c = true) :
    stepOfPiece (pieceAt (c :: rest)) = scanOne (c :: rest) := by
  have hi := h
  rw [isIdentStart_iff] at hi
  simp only [Bool.or_eq_true, Bool.and_eq_true, decide_eq_true_eq] at hi
  have h128 : c.toNat < 128 := by omega
  have hsp : isAsciiSpace c = false := by
    simp only [isAsciiSpace, beq_iff_toNat]; simp; omega
  have h47 : c.toNat ≠ 47 := by omega
  have hge : ¬ (128 ≤ c.toNat) := by omega
  simp only [pieceAt, decodeRune_ascii c rest h128, isSpaceRune_ascii c h128, hsp,
    reComment_longest_none c rest h47, reIdent_longest, h, scanOne, hge, scanIdent, keywordKind_eq]
  simp only [Bool.false_eq_true, if_false, if_true, List.tail_cons, Step.ofLexeme]
  cases List.find? (fun kv => kv.1 == List.take (identLoop rest + 1) (c :: rest)) LexSpec.keywords <;>
    simp [stepOfPiece]


theorem twoCharOps_none (c : UInt8) (o : Option UInt8)
    (h : c.toNat ≠ 61 ∧ c.toNat ≠ 33 ∧ c.toNat ≠ 60 ∧ c.toNat ≠ 62) :
    o.bind (fun d => twoCharOps.find? (fun o => o.1 == c && o.2.1 == d)) = none := by
  have e : ∀ k : UInt8, (k == c) = decide (c.toNat = k.toNat) := by
    intro k; rw [beq_iff_toNat]; by_cases hk : c.toNat = k.toNat <;> simp [hk] <;> omega
  cases o with
  | none => rfl
  | some d =>
    simp [twoCharOps, List.find?, e, h.1, h.2.1, h.2.2.1, h.2.2.2]

theorem oneCharOps_none (c : UInt8)
    (h : ∀ k ∈ [61, 60, 62, 43, 45, 42, 47, 37, 124, 46, 44, 59, 40, 41, 91, 93], c.toNat ≠ k) :
    oneCharOps.find? (fun o => o.1 == c) = none := by
  have e : ∀ k : UInt8, (k == c) = decide (c.toNat = k.toNat) := by
    intro k; rw [beq_iff_toNat]; by_cases hk : c.toNat = k.toNat <;> simp [hk] <;> omega
  simp only [List.mem_cons, List.mem_nil_iff, or_false, forall_eq_or_imp, forall_eq] at h
  simp [oneCharOps, List.find?, e, h]

theorem pieceAt_eq_scanOne_space (c : UInt8) (rest : Bytes) (h128 : c.toNat < 128)
    (h : isAsciiSpace c = true) :
    stepOfPiece (pieceAt (c :: rest)) = scanOne (c :: rest) := by
  have hge : ¬ (128 ≤ c.toNat) := by omega
  simp [pieceAt, decodeRune_ascii c rest h128, isSpaceRune_ascii c h128, h, scanOne, hge,
    stepOfPiece, Step.skip]

theorem pieceAt_eq_scanOne_nonAscii (c : UInt8) (rest : Bytes) (h128 : 128 ≤ c.toNat) :
    stepOfPiece (pieceAt (c :: rest)) = scanOne (c :: rest) := by
  have hw := decodeRune_width_pos c rest
  simp only [scanOne, h128, if_true, scanNonAscii]
  by_cases hsp : isSpaceRune (decodeRune (c :: rest)).1 = true
  · simp [pieceAt, hsp, stepOfPiece, Step.skip]
  · have hid : isIdentStart c = false := by
      rw [isIdentStart_iff]; simp; omega
    have hdg : isDigit c = false := by rw [isDigit_iff]; simp; omega
    have hq : (c == 39 || c == 34) = false := by simp [beq_iff_toNat]; omega
    have hb : (c == 96) = false := by simp [beq_iff_toNat]; omega
    have h2 := twoCharOps_none c rest.head? (by omega)
    have h1 := oneCharOps_none c (by simp; omega)
    simp only [pieceAt, hsp, reComment_longest_none c rest (by omega), reIdent_longest, hid,
      reHex_none_of_first c rest (by omega), reHexPrefix_none_of_first c rest (by omega),
      reDecimal_none c rest hdg (by omega), hq, hb, h2, h1]
    simp [stepOfPiece, Step.sym]
    omega

/-! ### operators -/

/-- the operator branch of `pieceAt` (for an ASCII byte: its rune width is 1) -/
def opPiece (c : UInt8) (o : Option UInt8) : Piece :=
  match o.bind (fun d => twoCharOps.find? (fun o => o.1 == c && o.2.1 == d)) with
  | some o => .tok o.2.2 [] 2
  | none =>
    match oneCharOps.find? (fun o => o.1 == c) with
    | some o => .tok o.2 [] 1
    | none => .tok .error [] 1

theorem opPiece_eq_scanPunct (c : UInt8) (rest : Bytes)
    (hne : ¬ (c = 47 ∧ rest.head? = some 47)) (h46 : c ≠ 46) :
    stepOfPiece (opPiece c rest.head?) = scanPunct c rest := by
  by_cases h44 : c = 44
  · subst h44
    cases rest.head? <;>
      simp [opPiece, twoCharOps, oneCharOps, List.find?, scanPunct, singleKind, stepOfPiece, Step.sym]
  by_cases h124 : c = 124
  · subst h124
    cases rest.head? <;>
      simp [opPiece, twoCharOps, oneCharOps, List.find?, scanPunct, singleKind, stepOfPiece, Step.sym]
  by_cases h40 : c = 40
  · subst h40
    cases rest.head? <;>
      simp [opPiece, twoCharOps, oneCharOps, List.find?, scanPunct, singleKind, stepOfPiece, Step.sym]
  by_cases h41 : c = 41
  · subst h41
    cases rest.head? <;>
      simp [opPiece, twoCharOps, oneCharOps, List.find?, scanPunct, singleKind, stepOfPiece, Step.sym]
  by_cases h91 : c = 91
  · subst h91
    cases rest.head? <;>
      simp [opPiece, twoCharOps, oneCharOps, List.find?, scanPunct, singleKind, stepOfPiece, Step.sym]
  by_cases h93 : c = 93
  · subst h93
    cases rest.head? <;>
      simp [opPiece, twoCharOps, oneCharOps, List.find?, scanPunct, singleKind, stepOfPiece, Step.sym]
  by_cases h43 : c = 43
  · subst h43
    cases rest.head? <;>
      simp [opPiece, twoCharOps, oneCharOps, List.find?, scanPunct, singleKind, stepOfPiece, Step.sym]
  by_cases h45 : c = 45
  · subst h45
    cases rest.head? <;>
      simp [opPiece, twoCharOps, oneCharOps, List.find?, scanPunct, singleKind, stepOfPiece, Step.sym]
  by_cases h42 : c = 42
  · subst h42
    cases rest.head? <;>
      simp [opPiece, twoCharOps, oneCharOps, List.find?, scanPunct, singleKind, stepOfPiece, Step.sym]
  by_cases h37 : c = 37
  · subst h37
    cases rest.head? <;>
      simp [opPiece, twoCharOps, oneCharOps, List.find?, scanPunct, singleKind, stepOfPiece, Step.sym]
  by_cases h59 : c = 59
  · subst h59
    cases rest.head? <;>
      simp [opPiece, twoCharOps, oneCharOps, List.find?, scanPunct, singleKind, stepOfPiece, Step.sym]
  by_cases h61 : c = 61
  · subst h61
    cases hh : rest.head? with
    | none =>
      simp [opPiece, twoCharOps, oneCharOps, List.find?, scanPunct, singleKind, stepOfPiece, Step.sym, hh]
    | some d =>
      by_cases hd1 : d = 61
      · subst hd1
        simp [opPiece, twoCharOps, oneCharOps, List.find?, scanPunct, singleKind, stepOfPiece, Step.sym, hh]
      · by_cases hd2 : d = 126
        · subst hd2
          simp [opPiece, twoCharOps, oneCharOps, List.find?, scanPunct, singleKind, stepOfPiece, Step.sym, hh]
        · have e1 : ((61 : UInt8) == d) = false := by simpa using Ne.symm hd1
          have e2 : ((126 : UInt8) == d) = false := by simpa using Ne.symm hd2
          simp [opPiece, twoCharOps, oneCharOps, List.find?, scanPunct, singleKind, stepOfPiece, Step.sym,
            hd1, hd2, e1, e2, hh]
  by_cases h33 : c = 33
  · subst h33
    cases hh : rest.head? with
    | none =>
      simp [opPiece, twoCharOps, oneCharOps, List.find?, scanPunct, singleKind, stepOfPiece, Step.sym, hh]
    | some d =>
      by_cases hd1 : d = 61
      · subst hd1
        simp [opPiece, twoCharOps, oneCharOps, List.find?, scanPunct, singleKind, stepOfPiece, Step.sym, hh]
      · by_cases hd2 : d = 126
        · subst hd2
          simp [opPiece, twoCharOps, oneCharOps, List.find?, scanPunct, singleKind, stepOfPiece, Step.sym, hh]
        · have e1 : ((61 : UInt8) == d) = false := by simpa using Ne.symm hd1
          have e2 : ((126 : UInt8) == d) = false := by simpa using Ne.symm hd2
          simp [opPiece, twoCharOps, oneCharOps, List.find?, scanPunct, singleKind, stepOfPiece, Step.sym,
            hd1, hd2, e1, e2, hh]
  by_cases h60 : c = 60
  · subst h60
    cases hh : rest.head? with
    | none =>
      simp [opPiece, twoCharOps, oneCharOps, List.find?, scanPunct, singleKind, stepOfPiece, Step.sym, hh]
    | some d =>
      by_cases hd1 : d = 61
      · subst hd1
        simp [opPiece, twoCharOps, oneCharOps, List.find?, scanPunct, singleKind, stepOfPiece, Step.sym, hh]
      · by_cases hd2 : d = 126
        · subst hd2
          simp [opPiece, twoCharOps, oneCharOps, List.find?, scanPunct, singleKind, stepOfPiece, Step.sym, hh]
        · have e1 : ((61 : UInt8) == d) = false := by simpa using Ne.symm hd1
          have e2 : ((126 : UInt8) == d) = false := by simpa using Ne.symm hd2
          simp [opPiece, twoCharOps, oneCharOps, List.find?, scanPunct, singleKind, stepOfPiece, Step.sym,
            hd1, hd2, e1, e2, hh]
  by_cases h62 : c = 62
  · subst h62
    cases hh : rest.head? with
    | none =>
      simp [opPiece, twoCharOps, oneCharOps, List.find?, scanPunct, singleKind, stepOfPiece, Step.sym, hh]
    | some d =>
      by_cases hd1 : d = 61
      · subst hd1
        simp [opPiece, twoCharOps, oneCharOps, List.find?, scanPunct, singleKind, stepOfPiece, Step.sym, hh]
      · by_cases hd2 : d = 126
        · subst hd2
          simp [opPiece, twoCharOps, oneCharOps, List.find?, scanPunct, singleKind, stepOfPiece, Step.sym, hh]
        · have e1 : ((61 : UInt8) == d) = false := by simpa using Ne.symm hd1
          have e2 : ((126 : UInt8) == d) = false := by simpa using Ne.symm hd2
          simp [opPiece, twoCharOps, oneCharOps, List.find?, scanPunct, singleKind, stepOfPiece, Step.sym,
            hd1, hd2, e1, e2, hh]
  by_cases h47 : c = 47
  · subst h47
    cases hh : rest.head? with
    | none =>
      simp [opPiece, twoCharOps, oneCharOps, List.find?, scanPunct, singleKind, stepOfPiece, Step.sym, hh]
    | some d =>
      have hd : d ≠ 47 := by
        intro h; subst h; exact hne ⟨rfl, hh⟩
      simp [opPiece, twoCharOps, oneCharOps, List.find?, scanPunct, singleKind, stepOfPiece, Step.sym, hh, hd]
  have e : ∀ k : UInt8, c ≠ k → c.toNat ≠ k.toNat := fun k hk h => hk (UInt8.toNat_inj.mp h)
  have h2 := twoCharOps_none c rest.head? ⟨e _ h61, e _ h33, e _ h60, e _ h62⟩
  have h1 := oneCharOps_none c (by
    simp only [List.mem_cons, List.mem_nil_iff, or_false, forall_eq_or_imp, forall_eq]
    exact ⟨e _ h61, e _ h60, e _ h62, e _ h43, e _ h45, e _ h42, e _ h47, e _ h37, e _ h124, e _ h46, e _ h44,
      e _ h59, e _ h40, e _ h41, e _ h91, e _ h93⟩)
  simp [opPiece, h2, h1, scanPunct, singleKind, stepOfPiece, Step.sym, h44, h124, h40, h41, h91, h93, h43, h45,
    h42, h37, h59, h61, h33, h60, h62, h47]


theorem toNat_ne_of_ne {c k : UInt8} (h : c ≠ k) : c.toNat ≠ k.toNat :=
  fun h' => h (UInt8.toNat_inj.mp h')

theorem pieceAt_ops (c : UInt8) (rest : Bytes) (h128 : c.toNat < 128)
    (hsp : isAsciiSpace c = false) (hid : isIdentStart c = false) (hdg : isDigit c = false)
    (h46 : c ≠ 46) (h34 : c ≠ 34) (h39 : c ≠ 39) (h96 : c ≠ 96)
    (hcom : reComment.longest (c :: rest) = none) :
    pieceAt (c :: rest) = opPiece c rest.head? := by
  have hq : (c == 39 || c == 34) = false := by simp [h34, h39]
  have hb : (c == 96) = false := by simp [h96]
  have n46 : c.toNat ≠ 46 := toNat_ne_of_ne h46
  have n48 : c.toNat ≠ 48 := by
    intro h; rw [isDigit_iff] at hdg; simp [h] at hdg
  simp only [pieceAt, decodeRune_ascii c rest h128, isSpaceRune_ascii c h128, hsp, hcom,
    reIdent_longest, hid, reHex_none_of_first c rest n48, reHexPrefix_none_of_first c rest n48,
    reDecimal_none c rest hdg n46, hq, hb, opPiece]
  simp
  rfl

theorem pieceAt_eq_scanOne_punct (c : UInt8) (rest : Bytes) (h128 : c.toNat < 128)
    (hsp : isAsciiSpace c = false) (hid : isIdentStart c = false) (hdg : isDigit c = false)
    (h46 : c ≠ 46) (h34 : c ≠ 34) (h39 : c ≠ 39) (h96 : c ≠ 96) :
    stepOfPiece (pieceAt (c :: rest)) = scanOne (c :: rest) := by
  have hge : ¬ (128 ≤ c.toNat) := by omega
  have hs : scanOne (c :: rest) = scanPunct c rest := by
    simp [scanOne, hge, hsp, hid, hdg, h46, h34, h39, h96]
  rw [hs]
  by_cases hcc : c = 47 ∧ rest.head? = some 47
  · obtain ⟨h47, hh⟩ := hcc
    subst h47
    cases rest with
    | nil => simp at hh
    | cons d r =>
      simp at hh
      subst hh
      have hcom := reComment_longest_slash 47 (47 :: r) (by decide)
      simp only [UInt8.reduceToNat, if_true] at hcom
      simp [pieceAt, decodeRune_ascii 47 (47 :: r) (by decide), isSpaceRune, hcom, stepOfPiece,
        scanPunct, singleKind, Step.skip]
  · have hcom : reComment.longest (c :: rest) = none := by
      by_cases h47 : c = 47
      · subst h47
        rw [reComment_longest_slash 47 rest (by decide)]
        cases rest with
        | nil => rfl
        | cons d r =>
          have : d ≠ 47 := by
            intro h; subst h; exact hcc ⟨rfl, rfl⟩
          have : d.toNat ≠ 47 := toNat_ne_of_ne this
          simp [this]
      · exact reComment_longest_none c rest (toNat_ne_of_ne h47)
    rw [pieceAt_ops c rest h128 hsp hid hdg h46 h34 h39 h96 hcom]
    exact opPiece_eq_scanPunct c rest hcc h46

/-! ### strings and quoted names -/

theorem pieceAt_eq_scanOne_string (c : UInt8) (rest : Bytes) (hc : c = 34 ∨ c = 39) :
    stepOfPiece (pieceAt (c :: rest)) = scanOne (c :: rest) := by
  have hq : c.toNat = 39 ∨ c.toNat = 34 := by rcases hc with rfl | rfl <;> simp
  have h128 : c.toNat < 128 := by omega
  have hge : ¬ (128 ≤ c.toNat) := by omega
  have hsp : isAsciiSpace c = false := by rcases hc with rfl | rfl <;> decide
  have hid : isIdentStart c = false := by rcases hc with rfl | rfl <;> decide
  have hdg : isDigit c = false := by rcases hc with rfl | rfl <;> decide
  have h46 : (c == 46) = false := by rcases hc with rfl | rfl <;> decide
  have hqq : (c == 39 || c == 34) = true := by rcases hc with rfl | rfl <;> decide
  have hqq' : (c == 34 || c == 39) = true := by rcases hc with rfl | rfl <;> decide
  have hs : scanOne (c :: rest) = .ofLexeme (scanString (c :: rest)) := by
    simp [scanOne, hge, hsp, hid, hdg, h46, hqq']
  rw [hs]
  simp only [pieceAt, decodeRune_ascii c rest h128, isSpaceRune_ascii c h128, hsp,
    reComment_longest_none c rest (by omega), reIdent_longest, hid,
    reHex_none_of_first c rest (by omega), reHexPrefix_none_of_first c rest (by omega),
    reDecimal_none c rest hdg (by omega), hqq, reStringClosed_longest c hq rest, scanString]
  cases hr : stringLoop c rest with
  | closed v w =>
    obtain ⟨h1, hv⟩ := stringLoop_value c rest v w hr
    obtain ⟨k, rfl⟩ : ∃ k, w = k + 1 := ⟨w - 1, by omega⟩
    simp only [Nat.add_sub_cancel] at hv
    simp [QRes.closedWidth, stepOfPiece, Step.ofLexeme, hv]
  | bad w =>
    have ho := reStringOpen_longest c hq rest w (by simp [hr, QRes.badWidth])
    simp [QRes.closedWidth, stepOfPiece, Step.ofLexeme, ho]

theorem pieceAt_eq_scanOne_qident (c : UInt8) (rest : Bytes) (hc : c = 96) :
    stepOfPiece (pieceAt (c :: rest)) = scanOne (c :: rest) := by
  subst hc
  have hs : scanOne (96 :: rest) = .ofLexeme (scanQuotedIdent (96 :: rest)) := by
    simp [scanOne, show isAsciiSpace 96 = false by decide, show isIdentStart 96 = false by decide,
      show isDigit 96 = false by decide]
  rw [hs]
  simp only [pieceAt, decodeRune_ascii 96 rest (by decide), isSpaceRune_ascii 96 (by decide),
    show isAsciiSpace 96 = false by decide,
    reComment_longest_none 96 rest (by decide), reIdent_longest,
    show isIdentStart 96 = false by decide,
    reHex_none_of_first 96 rest (by decide), reHexPrefix_none_of_first 96 rest (by decide),
    reDecimal_none 96 rest (by decide) (by decide), reQidentClosed_longest 96 (by decide) rest,
    reQidentOpen_longest 96 (by decide) rest, scanQuotedIdent, List.tail_cons]
  cases hr : qidentLoop rest with
  | closed v w =>
    obtain ⟨h1, h2, h3, h4⟩ := qidentLoop_closed rest v w hr
    obtain ⟨k, rfl⟩ : ∃ k, w = k + 1 := ⟨w - 1, by omega⟩
    simp only [Nat.add_sub_cancel] at h4
    have h2' : ¬ rest[k + 1]? = some 96 := by simpa using h2
    have h1' : longestFrom qS0 rest 1 none = some (k + 2) := by rw [h1]; congr 1; omega
    rw [h1']
    simp [stepOfPiece, Step.ofLexeme, h2', h4]
  | bad w =>
    obtain ⟨h1, h2⟩ := qidentLoop_bad rest w hr
    have h2' : longestFrom reQidentBody rest 1 none = some (w + 1) := by rw [h2]; congr 1; omega
    rw [h2']
    rcases h1 1 none with h | ⟨k, h, hk⟩
    · rw [h]
      simp [stepOfPiece, Step.ofLexeme]
    · have h' : longestFrom qS0 rest 1 none = some (k + 1) := by rw [h]; congr 1; omega
      rw [h']
      have hk' : rest[k]? = some 96 := by simpa using hk
      simp [stepOfPiece, Step.ofLexeme, hk']

/-! ### numbers -/

/-- width of `finishNumber s k b` -/
def fw (s : Bytes) (k : Nat) (b : Bool) : Nat :=
  k + mantissaLoop b (s.drop k) + exponentLen (s.drop (k + mantissaLoop b (s.drop k)))

theorem finishNumber_eq_fw (s : Bytes) (k : Nat) (b : Bool) :
    finishNumber s k b = ⟨.number, normalizeNumber (s.take (fw s k b)), fw s k b⟩ := rfl

theorem fw_dot (c : UInt8) (r : Bytes) : fw (c :: 46 :: r) 2 true = fw (c :: 46 :: r) 1 false := by
  simp only [fw, List.drop_succ_cons, List.drop_zero, mantissaLoop, beq_self_eq_true, Bool.not_false,
    Bool.and_self, if_true]
  have e : 1 + (mantissaLoop true r + 1) = 2 + mantissaLoop true r := by omega
  rw [e]

theorem fw_digit (c d : UInt8) (r : Bytes) (hd : isDigit d = true) :
    fw (c :: d :: r) 2 false = fw (c :: d :: r) 1 false := by
  have h46 : (d == 46) = false := by
    rw [beq_iff_toNat]; rw [isDigit_iff] at hd; simp at hd ⊢; omega
  simp only [fw, List.drop_succ_cons, List.drop_zero, mantissaLoop, h46, Bool.false_and,
    Bool.false_eq_true, if_false, hd, if_true]
  have e : 1 + (mantissaLoop false r + 1) = 2 + mantissaLoop false r := by omega
  rw [e]

theorem fw_one (c : UInt8) (rest : Bytes) :
    fw (c :: rest) 1 false =
      1 + mantissaLoop false rest + exponentLen (rest.drop (mantissaLoop false rest)) := by
  simp only [fw, List.drop_succ_cons, List.drop_zero]
  have : ∀ m, List.drop (1 + m) (c :: rest) = List.drop m rest := by
    intro m; rw [Nat.add_comm]; rfl
  rw [this]

theorem fw_two_true (c d : UInt8) (r : Bytes) :
    fw (c :: d :: r) 2 true = 2 + digitsLen r + exponentLen (r.drop (digitsLen r)) := by
  simp only [fw, List.drop_succ_cons, List.drop_zero, mantissaLoop_true]
  have : ∀ m, List.drop (2 + m) (c :: d :: r) = List.drop m r := by
    intro m; rw [Nat.add_comm]; rfl
  rw [this]


theorem mantissaLoop_false_stop (c : UInt8) (rest : Bytes) (h1 : (c == 46) = false)
    (h2 : isDigit c = false) : mantissaLoop false (c :: rest) = 0 := by
  simp [mantissaLoop, h1, h2]

/-- a decimal literal that starts with a digit: the model's case split is `finishNumber s 1` -/
theorem scanNumberOrDot_digit (c : UInt8) (rest : Bytes) (hd : isDigit c = true)
    (hx : ¬ (c = 48 ∧ (rest.head? = some 120 ∨ rest.head? = some 88))) :
    scanNumberOrDot (c :: rest) = finishNumber (c :: rest) 1 false := by
  have h46 : (c == 46) = false := by
    rw [beq_iff_toNat]; rw [isDigit_iff] at hd; simp at hd ⊢; omega
  unfold scanNumberOrDot
  simp only
  split
  · rename_i h0
    have h0' : c = 48 := by simpa using h0
    subst h0'
    split
    · simp [finishNumber_eq_fw, fw, mantissaLoop, exponentLen, normalizeNumber, trimLeftZeros]
    · rename_i c2 rest2
      split
      · rename_i hdot
        have : c2 = 46 := by simpa using hdot
        subst this
        rw [finishNumber_eq_fw, finishNumber_eq_fw, fw_dot]
      · rename_i hdot
        have hdot' : (c2 == 46) = false := by simpa using hdot
        split
        · rename_i he
          have hnd : isDigit c2 = false := by
            apply isDigit_not_e
            simpa [beq_iff_toNat] using he
          rw [finishNumber_eq_fw, fw_one, mantissaLoop_false_stop c2 rest2 hdot' hnd]
          simp [Nat.add_comm]
        · split
          · rename_i hxx
            exfalso
            apply hx
            refine ⟨rfl, ?_⟩
            simpa using hxx
          · split
            · rename_i hd2
              rw [finishNumber_eq_fw, finishNumber_eq_fw, fw_digit _ _ _ hd2]
            · rfl
  · simp [h46]


theorem digit_facts (c : UInt8) (hd : isDigit c = true) :
    c.toNat < 128 ∧ isAsciiSpace c = false ∧ isIdentStart c = false ∧ c.toNat ≠ 47 ∧
      c.toNat ≠ 46 := by
  rw [isDigit_iff] at hd
  simp only [Bool.and_eq_true, decide_eq_true_eq] at hd
  refine ⟨by omega, ?_, ?_, by omega, by omega⟩
  · simp only [isAsciiSpace, beq_iff_toNat]; simp; omega
  · rw [isIdentStart_iff]; simp; omega

theorem scanOne_number (c : UInt8) (rest : Bytes) (h128 : c.toNat < 128)
    (hsp : isAsciiSpace c = false) (hid : isIdentStart c = false)
    (hc : (isDigit c || c == 46) = true) :
    scanOne (c :: rest) = .ofLexeme (scanNumberOrDot (c :: rest)) := by
  have hge : ¬ (128 ≤ c.toNat) := by omega
  simp only [scanOne, hge, hsp, hid, hc, if_true, if_false, Bool.false_eq_true]

theorem pieceAt_eq_scanOne_decimal (c : UInt8) (rest : Bytes) (hd : isDigit c = true)
    (hx : ¬ (c = 48 ∧ (rest.head? = some 120 ∨ rest.head? = some 88))) :
    stepOfPiece (pieceAt (c :: rest)) = scanOne (c :: rest) := by
  obtain ⟨h128, hsp, hid, h47, h46⟩ := digit_facts c hd
  rw [scanOne_number c rest h128 hsp hid (by simp [hd]), scanNumberOrDot_digit c rest hd hx,
    finishNumber_eq_fw, fw_one]
  have hhex : reHex.longest (c :: rest) = none ∧ reHexPrefix.longest (c :: rest) = none := by
    by_cases h48 : c.toNat = 48
    · have hc48 : c = 48 := UInt8.toNat_inj.mp (by simpa using h48)
      rw [reHex_zero c rest h48, reHexPrefix_zero c rest h48]
      cases rest with
      | nil => exact ⟨rfl, rfl⟩
      | cons x r =>
        have hxx : ¬ (x.toNat = 120 ∨ x.toNat = 88) := by
          intro h
          apply hx
          refine ⟨hc48, ?_⟩
          rcases h with h | h
          · left; simp; exact UInt8.toNat_inj.mp (by simpa using h)
          · right; simp; exact UInt8.toNat_inj.mp (by simpa using h)
        simp [hxx]
    · exact ⟨reHex_none_of_first c rest h48, reHexPrefix_none_of_first c rest h48⟩
  simp only [pieceAt, decodeRune_ascii c rest h128, isSpaceRune_ascii c h128, hsp,
    reComment_longest_none c rest h47, reIdent_longest, hid, hhex.1, hhex.2,
    reDecimal_digit c rest hd, normalizeDecimal_eq]
  simp [stepOfPiece, Step.ofLexeme]


theorem pieceAt_eq_scanOne_hex (x : UInt8) (r : Bytes) (hx : x = 120 ∨ x = 88) :
    stepOfPiece (pieceAt (48 :: x :: r)) = scanOne (48 :: x :: r) := by
  obtain ⟨h128, hsp, hid, h47, h46⟩ := digit_facts 48 (by decide)
  rw [scanOne_number 48 (x :: r) h128 hsp hid (by decide)]
  have hx' : x.toNat = 120 ∨ x.toNat = 88 := by rcases hx with rfl | rfl <;> simp
  have hx1 : (x == 46) = false := by rcases hx with rfl | rfl <;> decide
  have hx2 : (x == 101 || x == 69) = false := by rcases hx with rfl | rfl <;> decide
  have hx3 : (x == 120 || x == 88) = true := by rcases hx with rfl | rfl <;> decide
  have hm : scanNumberOrDot (48 :: x :: r) =
      if hexDigitsLen r = 0 then ⟨.error, [], 2⟩
      else if hexToNat (r.take (hexDigitsLen r)) < 18446744073709551616 then
        ⟨.number, natToDec (hexToNat (r.take (hexDigitsLen r))), hexDigitsLen r + 2⟩
      else ⟨.error, [], hexDigitsLen r + 2⟩ := by
    simp [scanNumberOrDot, hx1, hx2, hx3]
  rw [hm]
  have hhex := reHex_zero 48 (x :: r) (by decide)
  have hpre := reHexPrefix_zero 48 (x :: r) (by decide)
  simp only [hx', if_true] at hhex hpre
  simp only [pieceAt, decodeRune_ascii 48 (x :: r) h128, isSpaceRune_ascii 48 h128, hsp,
    reComment_longest_none 48 (x :: r) h47, reIdent_longest, hid, hhex, hpre]
  by_cases hn : hexDigitsLen r = 0
  · simp [hn, stepOfPiece, Step.ofLexeme]
  · have hv : LexSpec.hexValue (((48 :: x :: r).take (hexDigitsLen r + 2)).drop 2) =
        hexToNat (r.take (hexDigitsLen r)) := by
      have : ((48 :: x :: r).take (hexDigitsLen r + 2)).drop 2 = r.take (hexDigitsLen r) := by simp
      rw [this]
      exact hexValue_eq_hexToNat _ (take_hexDigitsLen r)
    simp only [hn, if_false, hv, decimalOfNat_eq_natToDec]
    by_cases hlt : hexToNat (r.take (hexDigitsLen r)) < 18446744073709551616
    · simp [hlt, stepOfPiece, Step.ofLexeme]
    · simp [hlt, stepOfPiece, Step.ofLexeme]


theorem pieceAt_eq_scanOne_dot (rest : Bytes) :
    stepOfPiece (pieceAt (46 :: rest)) = scanOne (46 :: rest) := by
  have h128 : (46 : UInt8).toNat < 128 := by decide
  have hsp : isAsciiSpace 46 = false := by decide
  have hid : isIdentStart 46 = false := by decide
  rw [scanOne_number 46 rest h128 hsp hid (by decide)]
  have hdec := reDecimal_dot 46 rest (by decide)
  have h2 := twoCharOps_none 46 rest.head? (by decide)
  have h1 : oneCharOps.find? (fun o => o.1 == (46 : UInt8)) = some (46, .dot) := by decide
  simp only [pieceAt, decodeRune_ascii 46 rest h128, isSpaceRune_ascii 46 h128, hsp,
    reComment_longest_none 46 rest (by decide), reIdent_longest, hid,
    reHex_none_of_first 46 rest (by decide), reHexPrefix_none_of_first 46 rest (by decide), hdec,
    show ((46 : UInt8) == 39 || (46 : UInt8) == 34) = false by decide,
    show ((46 : UInt8) == 96) = false by decide]
  cases rest with
  | nil =>
    simp [h1, twoCharOps, stepOfPiece, Step.ofLexeme, scanNumberOrDot]
  | cons d r =>
    by_cases hd : isDigit d = true
    · have hs : scanNumberOrDot (46 :: d :: r) = finishNumber (46 :: d :: r) 2 true := by
        simp [scanNumberOrDot, hd]
      rw [hs, finishNumber_eq_fw, fw_two_true]
      simp [hd, stepOfPiece, Step.ofLexeme, normalizeDecimal_eq]
    · have hs : scanNumberOrDot (46 :: d :: r) = ⟨.dot, [], 1⟩ := by
        simp [scanNumberOrDot, hd]
      rw [hs]
      simp only [hd, Bool.false_eq_true, if_false, h2, h1]
      simp [stepOfPiece, Step.ofLexeme]

/-! ### all classes together, and the token lists -/

theorem pieceAt_eq_scanOne (c : UInt8) (rest : Bytes) :
    stepOfPiece (pieceAt (c :: rest)) = scanOne (c :: rest) := by
  by_cases h128 : 128 ≤ c.toNat
  · exact pieceAt_eq_scanOne_nonAscii c rest h128
  have h128' : c.toNat < 128 := by omega
  by_cases hsp : isAsciiSpace c = true
  · exact pieceAt_eq_scanOne_space c rest h128' hsp
  by_cases hid : isIdentStart c = true
  · exact pieceAt_eq_scanOne_ident c rest hid
  by_cases hdg : isDigit c = true
  · by_cases hx : c = 48 ∧ (rest.head? = some 120 ∨ rest.head? = some 88)
    · obtain ⟨rfl, hx⟩ := hx
      cases rest with
      | nil => simp at hx
      | cons x r =>
        simp only [List.head?_cons, Option.some.injEq] at hx
        exact pieceAt_eq_scanOne_hex x r hx
    · exact pieceAt_eq_scanOne_decimal c rest hdg hx
  by_cases h46 : c = 46
  · subst h46; exact pieceAt_eq_scanOne_dot rest
  by_cases hq : c = 34 ∨ c = 39
  · exact pieceAt_eq_scanOne_string c rest hq
  by_cases hb : c = 96
  · exact pieceAt_eq_scanOne_qident c rest hb
  exact pieceAt_eq_scanOne_punct c rest h128' (by simpa using hsp) (by simpa using hid)
    (by simpa using hdg) h46 (fun h => hq (Or.inl h)) (fun h => hq (Or.inr h)) hb

theorem stepOfPiece_width (p : Piece) : (stepOfPiece p).width = p.width := by
  cases p <;> rfl

theorem tokensFrom_eq_scanFrom (fuel : Nat) (s : Bytes) (off : Nat) (h : s.length < fuel) :
    tokensFrom fuel s off = scanFrom s off := by
  induction fuel generalizing s off with
  | zero => omega
  | succ fuel ih =>
    cases s with
    | nil => simp [tokensFrom, scanFrom]
    | cons c rest =>
      have hp := pieceAt_eq_scanOne c rest
      have hw : (pieceAt (c :: rest)).width = (scanOne (c :: rest)).width := by
        rw [← hp, stepOfPiece_width]
      have hpos := scanOne_width_pos c rest
      have hmax : max (pieceAt (c :: rest)).width 1 = (scanOne (c :: rest)).width := by
        rw [hw]; omega
      rw [scanFrom]
      simp only [tokensFrom, hmax]
      have hlen : ((c :: rest).drop (scanOne (c :: rest)).width).length < fuel := by
        simp only [List.length_drop, List.length_cons] at h ⊢
        omega
      rw [ih _ _ hlen]
      cases hpc : pieceAt (c :: rest) with
      | trivia w =>
        rw [hpc] at hp
        simp only [stepOfPiece] at hp
        rw [← hp]
      | tok k v w =>
        rw [hpc] at hp
        simp only [stepOfPiece] at hp
        rw [← hp]

theorem scan_eq_tokens (s : Bytes) : scan s = LexSpec.tokens s := by
  simp only [scan, tokens]
  exact (tokensFrom_eq_scanFrom _ s 0 (Nat.lt_succ_self _)).symm

end Pql
