/-
The cursor of the scanner on a string `pre ++ s` at offset `k` of `s` (`hp`), the rune `next`
delivers there versus the byte of the model, and the hexadecimal-digit loop of `numberOrDot`.
-/
import PqlModel.Lemmas.LexIRCore
import PqlModel.Lemmas.LexBasic
namespace Pql.LexIR
open Pql
set_option linter.unusedSimpArgs false
set_option linter.unusedVariables false

/-- the scanner on `pre ++ s`, cursor `k` bytes into `s` -/
def hp (pre s : Bytes) (k l : Nat) : Heap := ⟨pre ++ s, pre.length + k, l⟩

theorem drop_hp (pre s : Bytes) (k : Nat) : (pre ++ s).drop (pre.length + k) = s.drop k := by
  rw [List.drop_append]
  simp

theorem next_end {f : Fn} (sf : SpecNext f) (pre s : Bytes) (k l : Nat) (hk : s.length ≤ k) :
    f [.scanner] (hp pre s k l) = .ok ([.int 0, .bool false], hp pre s k l) := by
  rw [sf]
  have : (pre ++ s).length ≤ pre.length + k := by simp; omega
  simp [hp, this, hk]

theorem next_cons {f : Fn} (sf : SpecNext f) (pre s : Bytes) (k l : Nat) (c : UInt8) (rest : Bytes)
    (hd : s.drop k = c :: rest) :
    f [.scanner] (hp pre s k l) = .ok ([.int (decodeRune (c :: rest)).1, .bool true],
      hp pre s (k + (decodeRune (c :: rest)).2) (pre.length + k)) := by
  rw [sf]
  have hlt : k < s.length := by
    have := congrArg List.length hd
    simp at this; omega
  have : ¬ (pre ++ s).length ≤ pre.length + k := by simp; omega
  simp only [hp, this, if_false, drop_hp, hd, Nat.add_assoc]

/-- after `drop k = c :: rest`, the rest is `drop (k + 1)` -/
theorem drop_succ_of_cons {s : Bytes} {k : Nat} {c : UInt8} {rest : Bytes} (hd : s.drop k = c :: rest) :
    s.drop (k + 1) = rest := by
  have : s.drop (k + 1) = (s.drop k).drop 1 := by rw [List.drop_drop]
  rw [this, hd]; rfl

theorem lt_of_drop_cons {s : Bytes} {k : Nat} {c : UInt8} {rest : Bytes} (hd : s.drop k = c :: rest) :
    k < s.length := by
  have := congrArg List.length hd
  simp at this; omega

/-! ### the rune at the cursor against the byte of the model -/

theorem rune_eq (c : UInt8) (rest : Bytes) (n : Nat) (hn : n < 128) :
    ((decodeRune (c :: rest)).1 = n) ↔ c = UInt8.ofNat n := by
  rw [Dispatch.decodeRune_eq_ascii c rest n hn, toNat_eq_iff c n (by omega)]

theorem isDigit_lt (c : UInt8) (h : isDigit c = true) : c.toNat < 128 := by
  rw [isDigit_iff] at h
  simp at h; omega

theorem isHexDigit_lt (c : UInt8) (h : isHexDigit c = true) : c.toNat < 128 := by
  rw [isHexDigit_iff] at h
  simp at h; omega

theorem rune_isDigit (c : UInt8) (rest : Bytes) :
    Dispatch.inRangesNat Facts.isDigitRanges (decodeRune (c :: rest)).1 = isDigit c := by
  by_cases h : c.toNat < 128
  · rw [Dispatch.decodeRune_ascii' c rest h]; rfl
  · have hge := Dispatch.decodeRune_rune_ge c rest (by omega)
    have h1 : isDigit c = false := by
      cases hd : isDigit c with
      | false => rfl
      | true => exact absurd (isDigit_lt c hd) h
    rw [h1]
    simp [Dispatch.inRangesNat, Facts.isDigitRanges]; omega

theorem rune_isHex (c : UInt8) (rest : Bytes) :
    Dispatch.inRangesNat Facts.isHexDigitRanges (decodeRune (c :: rest)).1 = isHexDigit c := by
  by_cases h : c.toNat < 128
  · rw [Dispatch.decodeRune_ascii' c rest h]; rfl
  · have hge := Dispatch.decodeRune_rune_ge c rest (by omega)
    have h1 : isHexDigit c = false := by
      cases hd : isHexDigit c with
      | false => rfl
      | true => exact absurd (isHexDigit_lt c hd) h
    rw [h1]
    simp [Dispatch.inRangesNat, Facts.isHexDigitRanges]; omega

theorem width_ascii (c : UInt8) (rest : Bytes) (h : c.toNat < 128) : (decodeRune (c :: rest)).2 = 1 := by
  rw [Dispatch.decodeRune_ascii' c rest h]

/-- everything the proofs use about the rune at a byte -/
theorem rune_facts (c : UInt8) (rest : Bytes) : ∃ r w, decodeRune (c :: rest) = (r, w) ∧ 1 ≤ w ∧
    (∀ n, n < 128 → (r = n ↔ c = UInt8.ofNat n)) ∧
    Dispatch.inRangesNat Facts.isDigitRanges r = isDigit c ∧
    Dispatch.inRangesNat Facts.isHexDigitRanges r = isHexDigit c ∧
    (c.toNat < 128 → w = 1) :=
  ⟨(decodeRune (c :: rest)).1, (decodeRune (c :: rest)).2, rfl, decodeRune_width_pos c rest,
    fun n hn => rune_eq c rest n hn, rune_isDigit c rest, rune_isHex c rest, width_ascii c rest⟩

theorem next_cons' {f : Fn} (sf : SpecNext f) (pre s : Bytes) (k l : Nat) (c : UInt8) (rest : Bytes) (r w : Nat)
    (hd : s.drop k = c :: rest) (hr : decodeRune (c :: rest) = (r, w)) :
    f [.scanner] (hp pre s k l) = .ok ([.int r, .bool true], hp pre s (k + w) (pre.length + k)) := by
  rw [next_cons sf pre s k l c rest hd, hr]

/-! ### the other cursor functions on `hp` -/

@[simp] theorem hp_pos (pre s : Bytes) (k l : Nat) : (hp pre s k l).pos = pre.length + k := rfl
@[simp] theorem hp_last (pre s : Bytes) (k l : Nat) : (hp pre s k l).last = l := rfl
@[simp] theorem hp_src (pre s : Bytes) (k l : Nat) : (hp pre s k l).src = pre ++ s := rfl

/-- `s.prev()` right after a `s.next()` that started at `k` -/
theorem prev_hp {f : Fn} (sf : SpecPrev f) (pre s : Bytes) (k k' : Nat) :
    f [.scanner] (hp pre s k' (pre.length + k)) = .ok ([], hp pre s k (pre.length + k)) := by
  rw [sf]; rfl

theorem setPos_hp {f : Fn} (sf : SpecSetPos f) (pre s : Bytes) (k k' l : Nat) :
    f [.scanner, .int (pre.length + k)] (hp pre s k' l) = .ok ([], hp pre s k (pre.length + k)) := by
  rw [sf]; rfl

/-- what the cursor-level code calls -/
structure CursorEnv (lib : Lib) (env : Env) : Prop where
  next : ∃ f, env "scanner.next" = some f ∧ SpecNext f
  prev : ∃ f, env "scanner.prev" = some f ∧ SpecPrev f
  setPos : ∃ f, env "scanner.setPos" = some f ∧ SpecSetPos f
  isDigit : HasPrim lib env "isDigit"
  isHexDigit : HasPrim lib env "isHexDigit"

end Pql.LexIR
