/-
Programs with lets, part 6: the documented splitting `Intended.splitA` commutes with the resolution of
lets — the chain of the resolved pipeline `substTabular env t` is the chain of `t` with every link
resolved (`substSubA env`).  (The specification-level counterpart of `Pql.splitQueries_rel`.)
Alongside: every extend / summarize operator of the chain has named columns if the pipeline has
(`tabNamed`).
-/
import PqlModel.Lemmas.E2EFinalScopedParts
import PqlModel.Lemmas.ParsedOKLeaves
namespace Pql.E2EFinal
set_option linter.unusedSimpArgs false
set_option linter.unusedVariables false
open Pql Sql CompileOracle Intended Pql.ParsedOK

/-- the join condition commutes with the resolution of lets: no let is called `true`, or the condition
    list is not empty (as in every parsed program) -/
theorem buildJoin_subst' {env : List (Bytes × Expr)} {conds : ExprList}
    (h : TrueFree env ∨ (conds.length != 0) = true) :
    buildJoinCondition (substConds env conds) = substExpr env (buildJoinCondition conds) := by
  cases conds with
  | nil =>
    rcases h with h | h
    · exact buildJoin_subst env h .nil
    · simp [ExprList.length] at h
  | cons c cs =>
    simp only [substConds, buildJoinCondition, rewriteSimple_subst]
    exact buildJoinGo_subst env cs _

theorem opsNE_tail {env : List (Bytes × Expr)} {o : Op} {os : OpList} (h : TrueFree env ∨ OpsNE (.cons o os) = true) :
    TrueFree env ∨ OpsNE os = true :=
  h.imp id fun h => by simp only [OpsNE, Bool.and_eq_true] at h; exact h.2

theorem joinNE_right {env : List (Bytes × Expr)} {p k kind ka : Span} {fl : Option Ident} {lp : Span} {right : Tabular}
    {rp on : Span} {conds : ExprList} {os : OpList}
    (h : TrueFree env ∨ OpsNE (.cons (.join p k kind ka fl lp right rp on conds) os) = true) :
    TrueFree env ∨ TabNE right = true :=
  h.imp id fun h => by simp only [OpsNE, OpNE, Bool.and_eq_true] at h; exact h.1.1

theorem joinNE_conds {env : List (Bytes × Expr)} {p k kind ka : Span} {fl : Option Ident} {lp : Span} {right : Tabular}
    {rp on : Span} {conds : ExprList} {os : OpList}
    (h : TrueFree env ∨ OpsNE (.cons (.join p k kind ka fl lp right rp on conds) os) = true) :
    TrueFree env ∨ (conds.length != 0) = true :=
  h.imp id fun h => by simp only [OpsNE, OpNE, Bool.and_eq_true] at h; exact h.1.2

section
variable (env : List (Bytes × Expr))

local notation "σ" => substSubA env

def NamedAll (dst : List SubA) : Prop := ∀ a ∈ dst, optColsNamed a.op

theorem NamedAll.snoc {dst : List SubA} {a : SubA} (h : NamedAll dst) (ha : optColsNamed a.op) :
    NamedAll (dst ++ [a]) := by
  intro b hb
  rcases List.mem_append.1 hb with hb | hb
  · exact h b hb
  · simp only [List.mem_singleton] at hb; subst hb; exact ha

theorem getLast_name (dst : List SubA) :
    (match (dst.map σ).getLast? with | some s => s.name | none => []) =
    (match dst.getLast? with | some s => s.name | none => []) := by
  rw [List.getLast?_map]
  cases dst.getLast? <;> rfl

theorem getElem_name (dst : List SubA) (i : Nat) :
    (match (dst.map σ)[i]? with | some s => s.name | none => []) =
    (match dst[i]? with | some s => s.name | none => []) := by
  rw [List.getElem?_map]
  cases dst[i]? <;> rfl

theorem chainA_subst (dst : List SubA) (ds : Nat) (source : Option Ident) :
    chainA (dst.map σ) ds source = σ (chainA dst ds source) := by
  unfold chainA
  simp only [List.length_map, substSubA, substSrcA, Option.map_none]
  congr 2
  split
  · exact getLast_name env dst
  · rfl

theorem lastOfA_subst (dst : List SubA) (ds : Nat) : lastOfA (dst.map σ) ds = (lastOfA dst ds).map σ := by
  unfold lastOfA
  simp only [List.length_map, List.getLast?_map]
  split <;> rfl

theorem setLastA_subst (dst : List SubA) (f g : SubA → SubA) (hfg : ∀ s, g (σ s) = σ (f s)) :
    setLastA (dst.map σ) g = (setLastA dst f).map σ := by
  unfold setLastA
  rw [← List.map_reverse]
  cases dst.reverse with
  | nil => rfl
  | cons s rest =>
    simp only [List.map_cons, hfg, ← List.map_reverse, List.reverse_cons, List.map_append, List.map_nil]

theorem setLastA_named {dst : List SubA} (h : NamedAll dst) (f : SubA → SubA) (hf : ∀ s, (f s).op = s.op) :
    NamedAll (setLastA dst f) := by
  unfold setLastA
  intro a ha
  cases hr : dst.reverse with
  | nil => rw [hr] at ha; cases ha
  | cons s rest =>
    rw [hr] at ha
    simp only [List.reverse_cons, List.mem_append, List.mem_reverse, List.mem_singleton] at ha
    have hmem : ∀ x, x ∈ s :: rest → x ∈ dst := fun x hx => by
      have : x ∈ dst.reverse := hr ▸ hx
      exact List.mem_reverse.1 this
    rcases ha with ha | ha
    · exact h a (hmem a (List.mem_cons_of_mem _ ha))
    · subst ha
      rw [hf]
      exact h s (hmem s List.mem_cons_self)

theorem push_op_subst (dst : List SubA) (ds : Nat) (source : Option Ident) (o : Op) :
    (dst ++ [{ chainA dst ds source with op := some o }]).map σ =
      dst.map σ ++ [{ chainA (dst.map σ) ds source with op := some (substOp env o) }] := by
  rw [List.map_append, chainA_subst]
  rfl

theorem attach_subst (c : Bool) (dst : List SubA) (ds : Nat) (source : Option Ident) :
    (if c = true then dst.map σ else dst.map σ ++ [chainA (dst.map σ) ds source]) =
      (if c = true then dst else dst ++ [chainA dst ds source]).map σ := by
  cases c
  · simp only [Bool.false_eq_true, if_false, List.map_append, chainA_subst, List.map_cons, List.map_nil]
  · rfl

theorem attach_named {dst : List SubA} (h : NamedAll dst) (c : Bool) (ds : Nat) (source : Option Ident) :
    NamedAll (if c = true then dst else dst ++ [chainA dst ds source]) := by
  cases c
  · exact h.snoc trivial
  · exact h

theorem attach3_subst (l : Option SubA) :
    (match l.map σ with
      | some l => canAttachSort l.op && l.sort.isNone && l.take.isNone
      | none => false) =
    (match l with
      | some l => canAttachSort l.op && l.sort.isNone && l.take.isNone
      | none => false) := by
  cases l with
  | none => rfl
  | some l => simp only [Option.map_some, substSubA, canAttachSort_subst, Option.isNone_map]

theorem attach2_subst (l : Option SubA) :
    (match l.map σ with
      | some l => canAttachSort l.op && l.take.isNone
      | none => false) =
    (match l with
      | some l => canAttachSort l.op && l.take.isNone
      | none => false) := by
  cases l with
  | none => rfl
  | some l => simp only [Option.map_some, substSubA, canAttachSort_subst, Option.isNone_map]

variable {env}

mutual
theorem splitA_subst : (t : Tabular) → (TrueFree env ∨ TabNE t = true) → tabNamed t → (dst out : List SubA) → NamedAll dst →
    splitA dst t = some out →
    splitA (dst.map σ) (substTabular env t) = some (out.map σ) ∧ NamedAll out
  | .nil, _, _, dst, out, _, h => by simp [splitA] at h
  | .mk source ops, hJ, hN, dst, out, hd, h => by
    simp only [tabNamed] at hN
    have hJ' : TrueFree env ∨ OpsNE ops = true := hJ.imp id fun h => by simpa only [TabNE] using h
    simp only [splitA, Option.bind_eq_bind, Option.pure_def] at h
    simp only [substTabular, splitA, Option.bind_eq_bind, Option.pure_def, List.length_map]
    cases hs : splitOpsA source dst.length dst ops with
    | none => rw [hs] at h; cases h
    | some d =>
      rw [hs] at h
      obtain ⟨ih, ihN⟩ := splitOpsA_subst ops hJ' hN source dst.length dst d hd hs
      rw [ih]
      simp only [Option.bind_some, List.length_map] at h ⊢
      split at h
      · next hl =>
        simp only [Option.some.injEq] at h
        subst h
        simp only [hl, if_true, List.map_append, chainA_subst, List.map_cons, List.map_nil]
        exact ⟨trivial, ihN.snoc trivial⟩
      · next hl =>
        simp only [Option.some.injEq] at h
        subst h
        simp only [hl, if_false]
        exact ⟨trivial, ihN⟩

theorem splitOpsA_subst : (ops : OpList) → (TrueFree env ∨ OpsNE ops = true) → opsNamed ops → (source : Option Ident) → (ds : Nat) →
    (dst out : List SubA) → NamedAll dst → splitOpsA source ds dst ops = some out →
    splitOpsA source ds (dst.map σ) (substOps env ops) = some (out.map σ) ∧ NamedAll out
  | .nil, _, _, source, ds, dst, out, hd, h => by
    simp only [splitOpsA, Option.some.injEq] at h
    subst h
    simp only [substOps, splitOpsA]
    exact ⟨trivial, hd⟩
  | .cons (.as_ p k name) rest, hJ, hN, source, ds, dst, out, hd, h => by
    simp only [opsNamed] at hN
    simp only [splitOpsA] at h
    simp only [substOps, substOp, splitOpsA]
    have := splitOpsA_subst rest (opsNE_tail hJ) hN.2 source ds _ out (hd.snoc (a := { chainA dst ds source with name := identName name, op := some (.as_ p k name) }) trivial) h
    rw [List.map_append, List.map_cons, List.map_nil] at this
    rw [chainA_subst]
    exact this
  | .cons (.count p k) rest, hJ, hN, source, ds, dst, out, hd, h => by
    simp only [opsNamed] at hN
    simp only [splitOpsA] at h
    simp only [substOps, substOp, splitOpsA]
    have := splitOpsA_subst rest (opsNE_tail hJ) hN.2 source ds _ out (hd.snoc (a := { chainA dst ds source with op := some (.count p k) }) hN.1) h
    rw [push_op_subst] at this
    exact this
  | .cons (.render p k c w lp props rp) rest, hJ, hN, source, ds, dst, out, hd, h => by
    simp only [opsNamed] at hN
    simp only [splitOpsA] at h
    simp only [substOps, substOp, splitOpsA]
    have := splitOpsA_subst rest (opsNE_tail hJ) hN.2 source ds _ out (hd.snoc (a := { chainA dst ds source with op := some (.render p k c w lp props rp) }) hN.1) h
    rw [push_op_subst] at this
    exact this
  | .cons (.where_ p k e) rest, hJ, hN, source, ds, dst, out, hd, h => by
    simp only [opsNamed] at hN
    simp only [splitOpsA] at h
    simp only [substOps, substOp, splitOpsA]
    have := splitOpsA_subst rest (opsNE_tail hJ) hN.2 source ds _ out (hd.snoc (a := { chainA dst ds source with op := some (.where_ p k e) }) hN.1) h
    rw [push_op_subst] at this
    exact this
  | .cons (.project p k cs) rest, hJ, hN, source, ds, dst, out, hd, h => by
    simp only [opsNamed] at hN
    simp only [splitOpsA] at h
    simp only [substOps, substOp, splitOpsA]
    have := splitOpsA_subst rest (opsNE_tail hJ) hN.2 source ds _ out (hd.snoc (a := { chainA dst ds source with op := some (.project p k cs) }) hN.1) h
    rw [push_op_subst] at this
    exact this
  | .cons (.extend p k cs) rest, hJ, hN, source, ds, dst, out, hd, h => by
    simp only [opsNamed] at hN
    simp only [splitOpsA] at h
    simp only [substOps, substOp, splitOpsA]
    have := splitOpsA_subst rest (opsNE_tail hJ) hN.2 source ds _ out (hd.snoc (a := { chainA dst ds source with op := some (.extend p k cs) }) hN.1) h
    rw [push_op_subst] at this
    exact this
  | .cons (.summarize p k cs b gs) rest, hJ, hN, source, ds, dst, out, hd, h => by
    simp only [opsNamed] at hN
    simp only [splitOpsA] at h
    simp only [substOps, substOp, splitOpsA]
    have := splitOpsA_subst rest (opsNE_tail hJ) hN.2 source ds _ out (hd.snoc (a := { chainA dst ds source with op := some (.summarize p k cs b gs) }) hN.1) h
    rw [push_op_subst] at this
    exact this
  | .cons (.sort p k terms) rest, hJ, hN, source, ds, dst, out, hd, h => by
    simp only [opsNamed] at hN
    simp only [splitOpsA] at h
    simp only [substOps, substOp, splitOpsA, lastOfA_subst]
    generalize lastOfA dst ds = l at h ⊢
    cases l <;> simp only [Option.map_none, Option.map_some, substSubA, canAttachSort_subst, Option.isNone_map, attach_subst] at h ⊢
    all_goals (
      have := splitOpsA_subst rest (opsNE_tail hJ) hN.2 source ds _ out
        (setLastA_named (attach_named hd _ ds source) (fun s => { s with sort := some terms }) (fun _ => rfl)) h
      rw [← setLastA_subst env _ (fun s => { s with sort := some terms })
        (fun s => { s with sort := some (terms.map fun t => { t with x := substExpr env t.x }) }) (fun s => rfl)] at this
      exact this)
  | .cons (.take p k n) rest, hJ, hN, source, ds, dst, out, hd, h => by
    simp only [opsNamed] at hN
    simp only [splitOpsA] at h
    simp only [substOps, substOp, splitOpsA, lastOfA_subst]
    generalize lastOfA dst ds = l at h ⊢
    cases l <;> simp only [Option.map_none, Option.map_some, substSubA, canAttachSort_subst, Option.isNone_map, attach_subst] at h ⊢
    all_goals (
      have := splitOpsA_subst rest (opsNE_tail hJ) hN.2 source ds _ out
        (setLastA_named (attach_named hd _ ds source) (fun s => { s with take := some n }) (fun _ => rfl)) h
      rw [← setLastA_subst env _ (fun s => { s with take := some n })
        (fun s => { s with take := some (substExpr env n) }) (fun s => rfl)] at this
      exact this)
  | .cons (.top p k n b none) rest, hJ, hN, source, ds, dst, out, hd, h => by
    simp only [splitOpsA] at h
    cases h
  | .cons (.top p k n b (some c)) rest, hJ, hN, source, ds, dst, out, hd, h => by
    simp only [opsNamed] at hN
    simp only [splitOpsA] at h
    simp only [substOps, substOp, splitOpsA, lastOfA_subst, Option.map_some]
    generalize lastOfA dst ds = l at h ⊢
    cases l <;> simp only [Option.map_none, Option.map_some, substSubA, canAttachSort_subst, Option.isNone_map, attach_subst] at h ⊢
    all_goals (
      have := splitOpsA_subst rest (opsNE_tail hJ) hN.2 source ds _ out
        (setLastA_named (attach_named hd _ ds source) (fun s => { s with sort := some [c], take := some n }) (fun _ => rfl)) h
      rw [← setLastA_subst env _ (fun s => { s with sort := some [c], take := some n })
        (fun s => { s with sort := some [{ c with x := substExpr env c.x }], take := some (substExpr env n) })
        (fun s => rfl)] at this
      exact this)
  | .cons (.join p k kind ka flavor lp right rp on conds) rest, hJ, hN, source, ds, dst, out, hd, h => by
    simp only [opsNamed, opNamed] at hN
    simp only [splitOpsA, Option.bind_eq_bind] at h
    simp only [substOps, substOp, splitOpsA, Option.bind_eq_bind, List.length_map]
    cases hr : splitA dst right with
    | none => rw [hr] at h; cases h
    | some d =>
      rw [hr] at h
      obtain ⟨ih, ihN⟩ := splitA_subst right (joinNE_right hJ) hN.1 dst d hd hr
      rw [ih]
      simp only [Option.bind_some, List.length_map, buildJoin_subst' (joinNE_conds hJ), List.getLast?_map, List.getElem?_map] at h ⊢
      generalize d.getLast? = g at h ⊢
      generalize d[((dst.length : Int) - 1).toNat]? = e1 at h ⊢
      split at h
      · cases h
      · next left hleft =>
        have := splitOpsA_subst rest (opsNE_tail hJ) hN.2 source ds _ out (ihN.snoc (by exact trivial)) h
        rw [List.map_append, List.map_cons, List.map_nil] at this
        cases g <;> cases e1 <;> exact this
end

end

end Pql.E2EFinal
