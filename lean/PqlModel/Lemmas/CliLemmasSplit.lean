/-
`splitStatements` of `x ++ y` when `x.length` is a step boundary of the scan of `x ++ y`:
all pieces of `x` but the last, then the pieces of (last piece of `x`) ++ `y`.
-/
import PqlModel.Lemmas.LexSplit
import PqlModel.Lemmas.CliLemmasNewline
namespace Pql

/-- Step boundaries are totally ordered along the one scan: a later boundary is a boundary
    of the scan restarted at an earlier one. -/
theorem Reaches.cancel {s : Bytes} {n : Nat} (h : Reaches s n) :
    ∀ m, Reaches s m → n ≤ m → Reaches (s.drop n) (m - n) := by
  induction h with
  | here s => intro m hm _; simpa using hm
  | step s k hs hr ih =>
    intro m hm hle
    have hpos := scanOne_width_pos' hs
    cases hm with
    | here => omega
    | step _ m' _ hr' =>
      have := ih m' hr' (by omega)
      rw [List.drop_drop] at this
      have he : (scanOne s).width + m' - ((scanOne s).width + k) = m' - k := by omega
      rw [he]
      exact this

theorem reaches_append_aux {x : Bytes} {n : Nat} (h2 : Reaches x n) :
    ∀ (y : Bytes) (k : Nat), k = x.length → Reaches (x ++ y) k → Reaches (x ++ y) n := by
  induction h2 with
  | here s => intro y k _ _; exact Reaches.here _
  | step x m hne hr ih =>
    intro y k hk h1
    have hxl : 0 < x.length := List.length_pos_iff.mpr hne
    have hne' : x ++ y ≠ [] := by simp [hne]
    cases h1 with
    | here => omega
    | step _ m' _ hr' =>
      have hw : (scanOne (x ++ y)).width ≤ x.length := by omega
      have hx := scanOne_append x y hw
      rw [hx] at hr' hk hw
      rw [drop_append_of_le x y _ hw] at hr'
      have := ih y m' (by simp only [List.length_drop]; omega) hr'
      have h3 := Reaches.step (x ++ y) m hne' (by
        rw [hx, drop_append_of_le x y _ hw]; exact this)
      rwa [hx] at h3

/-- If `x.length` is a boundary of the scan of `x ++ y`, every boundary of the scan of `x` is
    one of the scan of `x ++ y`. -/
theorem reaches_append {x y : Bytes} {n : Nat} (h : Reaches (x ++ y) x.length)
    (h2 : Reaches x n) : Reaches (x ++ y) n :=
  reaches_append_aux h2 y x.length rfl h

theorem reaches_semi_succ {u w : Bytes} (h : Reaches (u ++ 59 :: w) u.length) :
    Reaches (u ++ 59 :: w) (u.length + 1) := by
  refine Reaches.trans h ?_
  rw [List.drop_left]
  have := Reaches.step (59 :: w) 0 (by simp) (Reaches.here _)
  rwa [scanOne_semi_head] at this

/-- the last piece of `SplitStatements` -/
def lastPiece (x : Bytes) : Bytes := (splitStatements x).getLast?.getD []

theorem splitStatements_ne_nil (x : Bytes) : splitStatements x ≠ [] :=
  splitAtSemis_ne_nil _ _ _

theorem getLast?_cons_of_ne_nil {α} (a : α) {l : List α} (h : l ≠ []) :
    (a :: l).getLast? = l.getLast? := by
  cases l with
  | nil => exact absurd rfl h
  | cons b l => simp [List.getLast?_cons_cons]

theorem dropLast_cons_of_ne_nil' {α} (a : α) {l : List α} (h : l ≠ []) :
    (a :: l).dropLast = a :: l.dropLast := by
  cases l with
  | nil => exact absurd rfl h
  | cons b l => rfl

/-- **`SplitStatements` of a concatenation at a step boundary.** -/
theorem splitStatements_append_aux (x y : Bytes) (h : Reaches (x ++ y) x.length) :
    splitStatements (x ++ y) =
        (splitStatements x).dropLast ++ splitStatements (lastPiece x ++ y) ∧
      Reaches (lastPiece x ++ y) (lastPiece x).length := by
  induction hn : x.length using Nat.strongRecOn generalizing x with
  | _ n ih =>
    subst hn
    rcases splitStatements_cases x with ⟨_, h2⟩ | ⟨u, v, h1, h2, h3, h4⟩
    · have hl : lastPiece x = x := by simp [lastPiece, h2]
      rw [hl, h2]
      exact ⟨by simp, h⟩
    · subst h1
      have hxy : (u ++ 59 :: v) ++ y = u ++ 59 :: (v ++ y) := by simp
      have hr' : Reaches (u ++ 59 :: (v ++ y)) u.length := by
        rw [← hxy]; exact reaches_append h h2
      have hs := splitStatements_semi u (v ++ y) hr' h3
      have hv : Reaches (v ++ y) v.length := by
        have h5 := reaches_semi_succ hr'
        have h6 := h5.cancel (u ++ 59 :: v).length (by rw [← hxy]; exact h)
          (by simp)
        have hd : (u ++ 59 :: (v ++ y)).drop (u.length + 1) = v ++ y := by
          have : u ++ 59 :: (v ++ y) = (u ++ [59]) ++ (v ++ y) := by simp
          rw [this, List.drop_left' (by simp)]
        rw [hd] at h6
        have he : (u ++ 59 :: v).length - (u.length + 1) = v.length := by
          simp only [List.length_append, List.length_cons]; omega
        rwa [he] at h6
      obtain ⟨ih1, ih2⟩ := ih v.length (by simp; omega) v hv rfl
      have hne := splitStatements_ne_nil v
      have hl : lastPiece (u ++ 59 :: v) = lastPiece v := by
        simp only [lastPiece, h4, getLast?_cons_of_ne_nil u hne]
      rw [hl, hxy, hs, h4, dropLast_cons_of_ne_nil' u hne, ih1]
      exact ⟨by simp, ih2⟩

theorem splitStatements_append (x y : Bytes) (h : Reaches (x ++ y) x.length) :
    splitStatements (x ++ y) =
      (splitStatements x).dropLast ++ splitStatements (lastPiece x ++ y) :=
  (splitStatements_append_aux x y h).1

/-- `Closed x`: whatever follows `x`, the scanner has a step boundary at the end of `x`. -/
def Closed (x : Bytes) : Prop := ∀ y, Reaches (x ++ y) x.length

theorem closed_nil : Closed [] := fun _ => Reaches.here _

theorem closed_newline (a : Bytes) : Closed (a ++ [10]) := by
  intro y
  have := reaches_after_newline a y
  simpa using this

theorem closed_lastPiece {x : Bytes} (h : Closed x) : Closed (lastPiece x) :=
  fun y => (splitStatements_append_aux x y (h y)).2

theorem lastPiece_mem (x : Bytes) : lastPiece x ∈ splitStatements x := by
  unfold lastPiece
  cases hl : (splitStatements x).getLast? with
  | none => exact absurd (List.getLast?_eq_none_iff.mp hl) (splitStatements_ne_nil x)
  | some p => exact List.mem_of_getLast? hl

end Pql
