/-
The substitution statement for whole queries: the subquery splitter and the subquery writer
commute with substitution, given that they do so for expressions.

Fixed throughout: the two scopes `sc` (with the lets) and `s0` (without), the environment
`env`, and the two expression-level facts `HD` (default mode) and `HJ` (join mode):
writing `e` under `sc` is related to writing `substExpr env e` under `s0`.
-/
import PqlModel.Lemmas.ScopeLets
import PqlModel.Lemmas.ScopeUnused
namespace Pql
open CompileOracle

/-! ### list utilities -/

inductive OptRel {α β : Type} (R : α → β → Prop) : Option α → Option β → Prop
  | none : OptRel R none none
  | some {a : α} {b : β} : R a b → OptRel R (some a) (some b)

namespace ListRel
variable {α β : Type} {R : α → β → Prop}

theorem length_eq {as : List α} {bs : List β} (h : ListRel R as bs) : as.length = bs.length := by
  induction h with
  | nil => rfl
  | cons _ _ ih => simp only [List.length_cons, ih]

theorem append {as as' : List α} {bs bs' : List β} (h : ListRel R as bs) (h' : ListRel R as' bs') :
    ListRel R (as ++ as') (bs ++ bs') := by
  induction h with
  | nil => exact h'
  | cons hab _ ih => exact .cons hab ih

theorem single {a : α} {b : β} (h : R a b) : ListRel R [a] [b] := .cons h .nil

theorem reverse {as : List α} {bs : List β} (h : ListRel R as bs) : ListRel R as.reverse bs.reverse := by
  induction h with
  | nil => exact .nil
  | cons hab _ ih =>
    simp only [List.reverse_cons]
    exact ih.append (single hab)

theorem head? {as : List α} {bs : List β} (h : ListRel R as bs) : OptRel R as.head? bs.head? := by
  cases h with
  | nil => exact .none
  | cons hab _ => exact .some hab

theorem getLast? {as : List α} {bs : List β} (h : ListRel R as bs) : OptRel R as.getLast? bs.getLast? := by
  rw [List.getLast?_eq_head?_reverse, List.getLast?_eq_head?_reverse]
  exact h.reverse.head?

theorem getElem? {as : List α} {bs : List β} (h : ListRel R as bs) (i : Nat) : OptRel R as[i]? bs[i]? := by
  induction h generalizing i with
  | nil => exact .none
  | cons hab _ ih =>
    cases i with
    | zero => exact .some hab
    | succ i => simpa only [List.getElem?_cons_succ] using ih i

theorem isEmpty_eq {as : List α} {bs : List β} (h : ListRel R as bs) : as.isEmpty = bs.isEmpty := by
  cases h <;> rfl

end ListRel

/-! ### join conditions commute with substitution -/

theorem builtinIdent_isSome (name : Bytes) : (builtinIdent name).isSome = Misuse.isBuiltinConst name := by
  unfold builtinIdent Misuse.isBuiltinConst Misuse.bytesEq
  simp only [Facts.builtinIdentifiers, List.find?_cons, List.find?_nil]
  have hc : ∀ a : Bytes, (a == name) = (name == a) := fun a => by
    cases h : name == a with
    | true => rw [eq_of_beq h]; simp
    | false =>
      cases h' : a == name with
      | false => rfl
      | true => rw [eq_of_beq h'] at h; simp at h
  rw [hc, hc, hc]
  cases name == Bytes.ofString "true" <;> cases name == Bytes.ofString "false" <;>
    cases name == Bytes.ofString "null" <;> rfl

section
variable (env : List (Bytes × Expr))

theorem substExpr_qident_two (a b : Ident) (rest : List Ident) :
    substExpr env (.qident (a :: b :: rest)) = .qident (a :: b :: rest) := by
  simp only [substExpr]

/-- `rewriteSimpleJoinCondition` commutes with `substCond` / `substExpr` -/
theorem rewriteSimple_subst (y : Expr) :
    rewriteSimpleJoinCondition (substCond env y) = substExpr env (rewriteSimpleJoinCondition y) := by
  unfold substCond
  cases y with
  | qident parts =>
    match parts with
    | [] => simp only [Misuse.isBareKey, Bool.false_eq_true, if_false, substExpr, rewriteSimpleJoinCondition]
    | _ :: _ :: _ =>
      simp only [Misuse.isBareKey, Bool.false_eq_true, if_false, substExpr, rewriteSimpleJoinCondition]
    | [p] =>
      have hb := builtinIdent_isSome p.name
      cases hq : p.quoted with
      | true =>
        simp only [Misuse.isBareKey, hq, Bool.not_true, Bool.false_and, Bool.false_eq_true, if_false,
          substExpr, if_true, rewriteSimpleJoinCondition, Bool.true_or]
      | false =>
        cases hc : Misuse.isBuiltinConst p.name with
        | false =>
          rw [hc] at hb
          simp only [Misuse.isBareKey, hq, hc, Bool.not_false, Bool.and_self, if_true,
            rewriteSimpleJoinCondition, hb, Bool.or_self, Bool.false_eq_true, if_false, substExpr]
        | true =>
          rw [hc] at hb
          simp only [Misuse.isBareKey, hq, hc, Bool.not_false, Bool.not_true, Bool.and_false,
            Bool.false_eq_true, if_false, rewriteSimpleJoinCondition, hb, Bool.or_true, if_true]
          simp only [substExpr, hq, Bool.false_eq_true, if_false]
          cases List.find? (fun x => x.fst == p.name) env with
          | none => simp only [hq, hb, Bool.or_true, if_true]
          | some kv => rfl
  | nil => simp only [Misuse.isBareKey, Bool.false_eq_true, if_false, substExpr, rewriteSimpleJoinCondition]
  | lit => simp only [Misuse.isBareKey, Bool.false_eq_true, if_false, substExpr, rewriteSimpleJoinCondition]
  | unary => simp only [Misuse.isBareKey, Bool.false_eq_true, if_false, substExpr, rewriteSimpleJoinCondition]
  | binary => simp only [Misuse.isBareKey, Bool.false_eq_true, if_false, substExpr, rewriteSimpleJoinCondition]
  | inE => simp only [Misuse.isBareKey, Bool.false_eq_true, if_false, substExpr, rewriteSimpleJoinCondition]
  | paren => simp only [Misuse.isBareKey, Bool.false_eq_true, if_false, substExpr, rewriteSimpleJoinCondition]
  | call => simp only [Misuse.isBareKey, Bool.false_eq_true, if_false, substExpr, rewriteSimpleJoinCondition]
  | index => simp only [Misuse.isBareKey, Bool.false_eq_true, if_false, substExpr, rewriteSimpleJoinCondition]

theorem buildJoinGo_subst : (ys : ExprList) → (x : Expr) →
    buildJoinCondition.go (substExpr env x) (substConds env ys) = substExpr env (buildJoinCondition.go x ys)
  | .nil, x => by simp only [substConds, buildJoinCondition.go]
  | .cons y ys, x => by
    simp only [substConds, buildJoinCondition.go, rewriteSimple_subst]
    rw [← buildJoinGo_subst ys]
    simp only [substExpr]

/-- no let is called `true` -/
def TrueFree : Prop :=
  substExpr env (.qident [⟨Bytes.ofString "true", .zero, false⟩]) = .qident [⟨Bytes.ofString "true", .zero, false⟩]

theorem buildJoin_subst (hT : TrueFree env) (conds : ExprList) :
    buildJoinCondition (substConds env conds) = substExpr env (buildJoinCondition conds) := by
  cases conds with
  | nil =>
    simp only [substConds, buildJoinCondition]
    exact hT.symm
  | cons c cs =>
    simp only [substConds, buildJoinCondition, rewriteSimple_subst]
    exact buildJoinGo_subst env cs _

end

/-! ### subqueries related by substitution -/

section
variable (env : List (Bytes × Expr))

def substTerm (t : SortTerm) : SortTerm := { t with x := substExpr env t.x }

/-- a column `name = expr` (an implicit name would be sliced from the source text of the
    column's expression, which substitution changes; a missing expression only arises from
    parse errors) -/
def ColNamed (c : Column) : Prop := c.name.isSome = true ∧ c.x ≠ .nil

def colsNamed : Op → Prop
  | .extend _ _ cs => ∀ c ∈ cs, ColNamed c
  | .summarize _ _ cs _ gs => (∀ c ∈ cs, ColNamed c) ∧ (∀ c ∈ gs, ColNamed c)
  | _ => True

def optColsNamed : Option Op → Prop
  | some o => colsNamed o
  | none => True

/-- `b` is `a` with its expressions substituted; sources may differ by parentheses (the join
    condition is part of the source) -/
structure SubRel (a b : Subquery) : Prop where
  name : b.name = a.name
  source : EqUpToParens a.source b.source
  op : b.op = a.op.map (substOp env)
  sort : b.sort = a.sort.map (·.map (substTerm env))
  take : b.take = a.take.map (substExpr env)
  named : optColsNamed a.op

theorem opTypeName_subst (o : Op) : opTypeName (substOp env o) = opTypeName o := by
  cases o <;> simp only [substOp, opTypeName]

theorem canAttachSort_subst (op : Option Op) : canAttachSort (op.map (substOp env)) = canAttachSort op := by
  cases op with
  | none => rfl
  | some o => simp only [Option.map_some, canAttachSort, opTypeName_subst]

variable {env}

theorem chain_rel {dst dst' : List Subquery} (h : ListRel (SubRel env) dst dst') (ds : Nat) (source : Option Ident) :
    chainSubquery dst' ds source = chainSubquery dst ds source := by
  unfold chainSubquery
  rw [← h.length_eq]
  have hg := h.getLast?
  revert hg
  generalize dst.getLast? = g
  generalize dst'.getLast? = g'
  intro hg
  cases hg with
  | none => rfl
  | some hab => simp only [hab.name]

theorem lastOf_rel {dst dst' : List Subquery} (h : ListRel (SubRel env) dst dst') (ds : Nat) :
    OptRel (SubRel env) (lastOf dst ds) (lastOf dst' ds) := by
  unfold lastOf
  rw [← h.length_eq]
  split
  · exact h.getLast?
  · exact .none

theorem setLast_rel {dst dst' : List Subquery} (h : ListRel (SubRel env) dst dst') {f g : Subquery → Subquery}
    (hf : ∀ a b, SubRel env a b → SubRel env (f a) (g b)) : ListRel (SubRel env) (setLast dst f) (setLast dst' g) := by
  unfold setLast
  have hr := h.reverse
  revert hr
  generalize dst.reverse = r
  generalize dst'.reverse = r'
  intro hr
  cases hr with
  | nil => exact .nil
  | cons hab hrest => exact (ListRel.cons (hf _ _ hab) hrest).reverse

theorem attach_dst_rel {dst dst' : List Subquery} (h : ListRel (SubRel env) dst dst') (c : Bool) (ds : Nat)
    (source : Option Ident) (hn : True := trivial) :
    ListRel (SubRel env) (if c = true then dst else dst ++ [chainSubquery dst ds source])
      (if c = true then dst' else dst' ++ [chainSubquery dst' ds source]) := by
  cases c with
  | true => exact h
  | false =>
    simp only [Bool.false_eq_true, if_false, chain_rel h]
    exact h.append (ListRel.single ⟨rfl, .refl _, rfl, rfl, rfl, hn⟩)

/-- pushing a subquery that carries an operator -/
theorem push_op_rel {dst dst' : List Subquery} (h : ListRel (SubRel env) dst dst') (ds : Nat)
    (source : Option Ident) (o : Op) (hn : colsNamed o) :
    ListRel (SubRel env) (dst ++ [{ chainSubquery dst ds source with op := some o }])
      (dst' ++ [{ chainSubquery dst' ds source with op := some (substOp env o) }]) := by
  rw [chain_rel h]
  exact h.append (ListRel.single ⟨rfl, .refl _, rfl, rfl, rfl, hn⟩)

end

/-! ### the splitter commutes with substitution -/

/-- writing under `sc` in mode `m` relates to writing the substituted expression under `s0` -/
def WriteRel (src : Bytes) (sc s0 : Scope) (env : List (Bytes × Expr)) (m : Mode) : Prop :=
  ∀ e, ExRel EqUpToParens (writeExpr ⟨src, sc, m⟩ e) (writeExpr ⟨src, s0, m⟩ (substExpr env e))

section
variable {src : Bytes} {sc s0 : Scope} {env : List (Bytes × Expr)}

theorem attach3_eq {a b : Subquery} (hab : SubRel env a b) :
    (canAttachSort b.op && b.sort.isNone && b.take.isNone) = (canAttachSort a.op && a.sort.isNone && a.take.isNone) := by
  rw [hab.op, hab.sort, hab.take, canAttachSort_subst]
  simp only [Option.isNone_map]

theorem attach2_eq {a b : Subquery} (hab : SubRel env a b) :
    (canAttachSort b.op && b.take.isNone) = (canAttachSort a.op && a.take.isNone) := by
  rw [hab.op, hab.take, canAttachSort_subst]
  simp only [Option.isNone_map]

mutual
/-- all extend / summarize columns of the query, at any depth, are named -/
def tabNamed : Tabular → Prop
  | .nil => True
  | .mk _ ops => opsNamed ops
def opsNamed : OpList → Prop
  | .nil => True
  | .cons o os => opNamed o ∧ opsNamed os
def opNamed : Op → Prop
  | .join _ _ _ _ _ _ right _ _ _ => tabNamed right
  | .extend _ _ cs => ∀ c ∈ cs, ColNamed c
  | .summarize _ _ cs _ gs => (∀ c ∈ cs, ColNamed c) ∧ (∀ c ∈ gs, ColNamed c)
  | _ => True
end

mutual
theorem splitQueries_rel (HJ : WriteRel src sc s0 env .join) (hT : TrueFree env) :
    (t : Tabular) → tabNamed t → (dst dst' : List Subquery) → ListRel (SubRel env) dst dst' →
      ExRel (ListRel (SubRel env)) (splitQueries src sc dst t) (splitQueries src s0 dst' (substTabular env t))
  | .nil, _, dst, dst', _ => by
    simp only [substTabular, splitQueries]
    exact ExRel.error_error _
  | .mk source ops, hN, dst, dst', h => by
    simp only [tabNamed] at hN
    simp only [substTabular, splitQueries]
    rw [← h.length_eq]
    refine ExRel.bind (splitOps_rel HJ hT ops hN source dst.length dst dst' h) fun d d' hd => ?_
    rw [← hd.length_eq, chain_rel hd]
    split
    · exact ExRel.pure_pure (hd.append (ListRel.single ⟨rfl, .refl _, rfl, rfl, rfl, trivial⟩))
    · exact ExRel.pure_pure hd

theorem splitOps_rel (HJ : WriteRel src sc s0 env .join) (hT : TrueFree env) :
    (ops : OpList) → opsNamed ops → (source : Option Ident) → (ds : Nat) → (dst dst' : List Subquery) →
      ListRel (SubRel env) dst dst' →
      ExRel (ListRel (SubRel env)) (splitOps src sc source ds dst ops)
        (splitOps src s0 source ds dst' (substOps env ops))
  | .nil, _, source, ds, dst, dst', h => by
    simp only [substOps, splitOps]
    exact ExRel.pure_pure h
  | .cons (.as_ p kw name) rest, hN, source, ds, dst, dst', h => by
    simp only [opsNamed] at hN
    simp only [substOps, substOp, splitOps]
    refine splitOps_rel HJ hT rest hN.2 source ds _ _ ?_
    rw [chain_rel h]
    exact h.append (ListRel.single ⟨rfl, .refl _, rfl, rfl, rfl, trivial⟩)
  | .cons (.count p kw) rest, hN, source, ds, dst, dst', h => by
    simp only [opsNamed] at hN
    simp only [substOps, substOp, splitOps]
    exact splitOps_rel HJ hT rest hN.2 source ds _ _ (push_op_rel h ds source (.count p kw) hN.1)
  | .cons (.render p kw c w lp props rp) rest, hN, source, ds, dst, dst', h => by
    simp only [opsNamed] at hN
    simp only [substOps, substOp, splitOps]
    exact splitOps_rel HJ hT rest hN.2 source ds _ _ (push_op_rel h ds source (.render p kw c w lp props rp) hN.1)
  | .cons (.where_ p kw e) rest, hN, source, ds, dst, dst', h => by
    simp only [opsNamed] at hN
    simp only [substOps, substOp, splitOps]
    exact splitOps_rel HJ hT rest hN.2 source ds _ _ (push_op_rel h ds source (.where_ p kw e) hN.1)
  | .cons (.project p kw cs) rest, hN, source, ds, dst, dst', h => by
    simp only [opsNamed] at hN
    simp only [substOps, substOp, splitOps]
    exact splitOps_rel HJ hT rest hN.2 source ds _ _ (push_op_rel h ds source (.project p kw cs) hN.1)
  | .cons (.extend p kw cs) rest, hN, source, ds, dst, dst', h => by
    simp only [opsNamed] at hN
    simp only [substOps, substOp, splitOps]
    exact splitOps_rel HJ hT rest hN.2 source ds _ _ (push_op_rel h ds source (.extend p kw cs) hN.1)
  | .cons (.summarize p kw cs b gs) rest, hN, source, ds, dst, dst', h => by
    simp only [opsNamed] at hN
    simp only [substOps, substOp, splitOps]
    exact splitOps_rel HJ hT rest hN.2 source ds _ _ (push_op_rel h ds source (.summarize p kw cs b gs) hN.1)
  | .cons (.sort p kw terms) rest, hN, source, ds, dst, dst', h => by
    simp only [opsNamed] at hN
    simp only [substOps, substOp, splitOps]
    have hl := lastOf_rel h ds
    revert hl
    generalize lastOf dst ds = l
    generalize lastOf dst' ds = l'
    intro hl
    cases hl with
    | none =>
      exact splitOps_rel HJ hT rest hN.2 source ds _ _ (setLast_rel (attach_dst_rel h false ds source)
        fun a b hab => ⟨hab.name, hab.source, hab.op, rfl, hab.take, hab.named⟩)
    | some hab =>
      simp only [attach3_eq hab]
      exact splitOps_rel HJ hT rest hN.2 source ds _ _ (setLast_rel (attach_dst_rel h _ ds source)
        fun a b hab => ⟨hab.name, hab.source, hab.op, rfl, hab.take, hab.named⟩)
  | .cons (.take p kw n) rest, hN, source, ds, dst, dst', h => by
    simp only [opsNamed] at hN
    simp only [substOps, substOp, splitOps]
    have hl := lastOf_rel h ds
    revert hl
    generalize lastOf dst ds = l
    generalize lastOf dst' ds = l'
    intro hl
    cases hl with
    | none =>
      exact splitOps_rel HJ hT rest hN.2 source ds _ _ (setLast_rel (attach_dst_rel h false ds source)
        fun a b hab => ⟨hab.name, hab.source, hab.op, hab.sort, rfl, hab.named⟩)
    | some hab =>
      simp only [attach2_eq hab]
      exact splitOps_rel HJ hT rest hN.2 source ds _ _ (setLast_rel (attach_dst_rel h _ ds source)
        fun a b hab => ⟨hab.name, hab.source, hab.op, hab.sort, rfl, hab.named⟩)
  | .cons (.top p kw n by_ col) rest, hN, source, ds, dst, dst', h => by
    simp only [opsNamed] at hN
    simp only [substOps, substOp, splitOps]
    cases col with
    | none => exact ExRel.error_error _
    | some c =>
      simp only [Option.map_some]
      have hl := lastOf_rel h ds
      revert hl
      generalize lastOf dst ds = l
      generalize lastOf dst' ds = l'
      intro hl
      cases hl with
      | none =>
        exact splitOps_rel HJ hT rest hN.2 source ds _ _ (setLast_rel (attach_dst_rel h false ds source)
          fun a b hab => ⟨hab.name, hab.source, hab.op, rfl, rfl, hab.named⟩)
      | some hab =>
        simp only [attach3_eq hab]
        exact splitOps_rel HJ hT rest hN.2 source ds _ _ (setLast_rel (attach_dst_rel h _ ds source)
          fun a b hab => ⟨hab.name, hab.source, hab.op, rfl, rfl, hab.named⟩)
  | .cons (.join p kw kind ka flavor lp right rp on conds) rest, hN, source, ds, dst, dst', h => by
    simp only [opsNamed, opNamed] at hN
    simp only [substOps, substOp, splitOps]
    refine ExRel.bind (splitQueries_rel HJ hT right hN.1 dst dst' h) fun d d' hd => ?_
    rw [buildJoin_subst env hT, ← h.length_eq, ← hd.length_eq]
    have hg := hd.getLast?
    have he := hd.getElem? ((dst.length : Int) - 1).toNat
    revert hg he
    generalize d.getLast? = g
    generalize d'.getLast? = g'
    generalize d[((dst.length : Int) - 1).toNat]? = e1
    generalize d'[((dst.length : Int) - 1).toNat]? = e1'
    intro hg he
    split
    · exact ExRel.error_error _
    · refine ExRel.bind (HJ _) fun c c' hc => ?_
      refine splitOps_rel HJ hT rest hN.2 source ds _ _
        (hd.append (ListRel.single ⟨rfl, ?_, rfl, rfl, rfl, trivial⟩))
      show EqUpToParens _ _
      cases hg with
      | none =>
        cases he with
        | none => exact EqUpToParens.append (.refl _) hc
        | some hab =>
          dsimp only
          rw [hab.name]
          exact EqUpToParens.append (.refl _) hc
      | some hab' =>
        cases he with
        | none =>
          dsimp only
          rw [hab'.name]
          exact EqUpToParens.append (.refl _) hc
        | some hab =>
          dsimp only
          rw [hab.name, hab'.name]
          exact EqUpToParens.append (.refl _) hc
end

end

end Pql
