/-
A let value is written in let mode; the substituted value is written in the mode of the place
where the name is used.  Whenever let mode succeeds, default mode gives the same chunks, and
so does join mode provided the value mentions neither `$left` nor `$right` (otherwise an
equality inside the value could be written without its `coalesce(…, FALSE)` — see the
counterexample in Props/C06Subst).
-/
import PqlModel.Lemmas.ScopeSubst
namespace Pql
open CompileOracle

/-! ### refinement of results: whenever the left succeeds, the right gives the same value -/

def OkLe {ε α : Type} (x y : Except ε α) : Prop := ∀ a, x = .ok a → y = .ok a

namespace OkLe
variable {ε α β : Type}

theorem refl (x : Except ε α) : OkLe x x := fun _ h => h

theorem of_error (e : ε) (y : Except ε α) : OkLe (.error e) y := fun _ h => by cases h

theorem bind {x y : Except ε α} {f g : α → Except ε β} (h : OkLe x y) (hf : ∀ a, OkLe (f a) (g a)) :
    OkLe (x >>= f) (y >>= g) := by
  cases x with
  | error e => exact of_error e _
  | ok a =>
    rw [h a rfl]
    exact hf a

theorem map {x y : Except ε α} (f : α → β) (h : OkLe x y) : OkLe (x.map f) (y.map f) := by
  cases x with
  | error e => exact of_error e _
  | ok a =>
    rw [h a rfl]
    exact refl _

theorem ite {c : Prop} [Decidable c] {a b a' b' : Except ε α} (h₁ : OkLe a a') (h₂ : OkLe b b') :
    OkLe (if c then a else b) (if c then a' else b') := by
  split
  · exact h₁
  · exact h₂

end OkLe

/-! ### identifiers named `$left` / `$right` -/

/-- none of the identifiers is named `a` -/
def IdsFree (a : Bytes) (ids : List Ident) : Prop := ids.any (·.name == a) = false

theorem IdsFree.append {a : Bytes} {xs ys : List Ident} :
    IdsFree a (xs ++ ys) ↔ IdsFree a xs ∧ IdsFree a ys := by
  simp only [IdsFree, List.any_append, Bool.or_eq_false_iff]

/-- the expression mentions neither join alias, at any depth, quoted or not -/
def AliasFree (e : Expr) : Prop := IdsFree leftAlias (exprIdents e) ∧ IdsFree rightAlias (exprIdents e)

def AliasFreeL (es : ExprList) : Prop := IdsFree leftAlias (exprListIdents es) ∧ IdsFree rightAlias (exprListIdents es)

theorem AliasFree.hasJoinTerms {e : Expr} (h : AliasFree e) : hasJoinTerms e = (false, false) := by
  unfold Pql.hasJoinTerms
  dsimp only
  rw [h.1, h.2]

/-- the join-mode test of an equality is off in every mode when neither side mentions an alias -/
theorem joinTest_false {m : Mode} {x y : Expr} (h : m = .join → AliasFree x ∧ AliasFree y) :
    ¬ (m = .join ∧ ((hasJoinTerms x).1 || (hasJoinTerms y).1) = true ∧
      ((hasJoinTerms x).2 || (hasJoinTerms y).2) = true) := by
  intro ⟨h1, h2, _⟩
  obtain ⟨hx, hy⟩ := h h1
  rw [hx.hasJoinTerms, hy.hasJoinTerms] at h2
  simp at h2

mutual
/-- **let mode is the strictest mode.** -/
theorem writeExpr_of_let {src : Bytes} {s : Scope} {m : Mode} :
    (v : Expr) → (m = .join → AliasFree v) → OkLe (writeExpr ⟨src, s, .let_⟩ v) (writeExpr ⟨src, s, m⟩ v)
  | .paren _ x _, h => by
    simp only [writeExpr]
    exact writeExpr_of_let x (fun hm => by have := h hm; simpa only [AliasFree, exprIdents] using this)
  | .qident [], _ => by
    simp only [writeExpr]
    exact OkLe.of_error _ _
  | .qident (_ :: _ :: _), _ => by
    simp only [writeExpr]
    exact OkLe.of_error _ _
  | .qident [p], _ => by
    intro b hb
    cases hq : p.quoted with
    | true => simp [writeExpr, hq] at hb
    | false =>
      cases hl : lookupScope s p.name with
      | some sql =>
        simp only [writeExpr, hq, hl] at hb ⊢
        exact hb
      | none =>
        cases hbi : builtinIdent p.name with
        | some sql =>
          simp only [writeExpr, hq, hl, hbi] at hb ⊢
          exact hb
        | none => simp [writeExpr, hq, hl, hbi] at hb
  | .lit .., _ => by
    simp only [writeExpr]
    exact OkLe.refl _
  | .nil, _ => by
    simp only [writeExpr]
    exact OkLe.refl _
  | .unary _ op x, h => by
    simp only [writeExpr]
    exact OkLe.bind (OkLe.map _ (writeExpr_of_let x (fun hm => by
      have := h hm; simpa only [AliasFree, exprIdents] using this))) fun _ => OkLe.refl _
  | .index x _ idx _, h => by
    have hx : m = .join → AliasFree x := fun hm => by
      have := h hm
      simp only [AliasFree, exprIdents, IdsFree.append] at this
      exact ⟨this.1.1, this.2.1⟩
    have hi : m = .join → AliasFree idx := fun hm => by
      have := h hm
      simp only [AliasFree, exprIdents, IdsFree.append] at this
      exact ⟨this.1.2, this.2.2⟩
    simp only [writeExpr]
    exact OkLe.bind (OkLe.map _ (writeExpr_of_let x hx)) fun _ =>
      OkLe.bind (writeExpr_of_let idx hi) fun _ => OkLe.refl _
  | .inE x _ _ vals _, h => by
    have hx : m = .join → AliasFree x := fun hm => by
      have := h hm
      simp only [AliasFree, exprIdents, IdsFree.append] at this
      exact ⟨this.1.1, this.2.1⟩
    have hvs : m = .join → AliasFreeL vals := fun hm => by
      have := h hm
      simp only [AliasFree, exprIdents, IdsFree.append] at this
      exact ⟨this.1.2, this.2.2⟩
    simp only [writeExpr]
    exact OkLe.bind (OkLe.map _ (writeExpr_of_let x hx)) fun _ =>
      OkLe.bind (writeListMP_of_let vals hvs) fun _ => OkLe.refl _
  | .call fn _ args _, h => by
    have ha : m = .join → AliasFreeL args := fun hm => by
      have := h hm
      simp only [AliasFree, exprIdents] at this
      exact this
    simp only [writeExpr]
    split
    · split
      · exact OkLe.refl _
      · exact OkLe.bind (writeList_of_let args ha) fun _ => OkLe.refl _
    · exact OkLe.bind (writeList_of_let args ha) fun _ => OkLe.refl _
  | .binary x _ op y, h => by
    have hx : m = .join → AliasFree x := fun hm => by
      have := h hm
      simp only [AliasFree, exprIdents, IdsFree.append] at this
      exact ⟨this.1.1, this.2.1⟩
    have hy : m = .join → AliasFree y := fun hm => by
      have := h hm
      simp only [AliasFree, exprIdents, IdsFree.append] at this
      exact ⟨this.1.2, this.2.2⟩
    have ex0 := writeExpr_of_let (src := src) (s := s) x hx
    have ey0 := writeExpr_of_let (src := src) (s := s) y hy
    have ex := OkLe.map (wrapMaybe x) ex0
    have ey := OkLe.map (wrapMaybe y) ey0
    have hj := joinTest_false (m := m) (x := x) (y := y) (fun hm => ⟨hx hm, hy hm⟩)
    have hjl : ¬ (Mode.let_ = .join ∧ ((hasJoinTerms x).1 || (hasJoinTerms y).1) = true ∧
      ((hasJoinTerms x).2 || (hasJoinTerms y).2) = true) := fun h => by cases h.1
    simp only [writeExpr, if_neg hj, if_neg hjl]
    repeat' apply OkLe.ite
    · exact OkLe.bind ex fun _ => OkLe.bind ey fun _ => OkLe.refl _
    · exact OkLe.bind ex fun _ => OkLe.bind ey fun _ => OkLe.refl _
    · exact OkLe.bind ex0 fun _ => OkLe.bind ey0 fun _ => OkLe.refl _
    · exact OkLe.bind ex0 fun _ => OkLe.bind ey0 fun _ => OkLe.refl _
    · split
      · exact OkLe.bind ex fun _ => OkLe.bind ey fun _ => OkLe.refl _
      · exact OkLe.refl _

theorem writeList_of_let {src : Bytes} {s : Scope} {m : Mode} :
    (es : ExprList) → (m = .join → AliasFreeL es) → OkLe (writeList ⟨src, s, .let_⟩ es) (writeList ⟨src, s, m⟩ es)
  | .nil, _ => by
    simp only [writeList]
    exact OkLe.refl _
  | .cons e es, h => by
    have he : m = .join → AliasFree e := fun hm => by
      have := h hm
      simp only [AliasFreeL, exprListIdents, IdsFree.append] at this
      exact ⟨this.1.1, this.2.1⟩
    have hes : m = .join → AliasFreeL es := fun hm => by
      have := h hm
      simp only [AliasFreeL, exprListIdents, IdsFree.append] at this
      exact ⟨this.1.2, this.2.2⟩
    simp only [writeList]
    exact OkLe.bind (writeExpr_of_let e he) fun _ => OkLe.bind (writeList_of_let es hes) fun _ => OkLe.refl _

theorem writeListMP_of_let {src : Bytes} {s : Scope} {m : Mode} :
    (es : ExprList) → (m = .join → AliasFreeL es) →
      OkLe (writeListMaybeParen' ⟨src, s, .let_⟩ es) (writeListMaybeParen' ⟨src, s, m⟩ es)
  | .nil, _ => by
    simp only [writeListMaybeParen']
    exact OkLe.refl _
  | .cons e es, h => by
    have he : m = .join → AliasFree e := fun hm => by
      have := h hm
      simp only [AliasFreeL, exprListIdents, IdsFree.append] at this
      exact ⟨this.1.1, this.2.1⟩
    have hes : m = .join → AliasFreeL es := fun hm => by
      have := h hm
      simp only [AliasFreeL, exprListIdents, IdsFree.append] at this
      exact ⟨this.1.2, this.2.2⟩
    simp only [writeListMaybeParen']
    exact OkLe.bind (OkLe.map _ (writeExpr_of_let e he)) fun _ =>
      OkLe.bind (writeListMP_of_let es hes) fun _ => OkLe.refl _
end

end Pql
