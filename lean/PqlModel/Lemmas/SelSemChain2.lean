/-
The chain of links of a join-free pipeline, and the evaluation of the CTE list.
-/
import PqlModel.Lemmas.SelSemChain
namespace Pql.SelSem
open Pql Sql CompileOracle Intended SplitQ C02

/-- the side conditions of every operator of the pipeline -/
def opsOk : OpList → Bool
  | .nil => true
  | .cons o rest => opOk o && opsOk rest

theorem splitOpsA_inv (source : Option Ident) : ∀ (ops : OpList) (dst out : List SubA),
    joinFree ops = true → opsOk ops = true → splitOpsA source 0 dst ops = some out →
    InvA (identName source) dst →
    InvA (identName source) out ∧
      out.flatMap subClausesA = dst.flatMap subClausesA ++ ops.toList.flatMap opClauses
  | .nil, dst, out, _, _, h, inv => by
    simp only [splitOpsA, Option.some.injEq] at h
    subst h
    exact ⟨inv, by simp [OpList.toList]⟩
  | .cons o rest, dst, out, hjf, hok, h, inv => by
    rw [joinFree_cons] at hjf
    simp only [Bool.and_eq_true, Bool.not_eq_true'] at hjf
    simp only [opsOk, Bool.and_eq_true] at hok
    obtain ⟨ht, h'⟩ := splitOpsA_cons source dst o rest out hjf.1 h
    obtain ⟨inv1, hc1⟩ := stepA_ok source dst o hjf.1 ht hok.1 inv
    obtain ⟨inv2, hc2⟩ := splitOpsA_inv source rest _ out hjf.2 hok.2 h' inv1
    exact ⟨inv2, by rw [hc2, hc1]; simp [OpList.toList]⟩

theorem splitA_inv (source : Option Ident) (ops : OpList) (subs : List SubA)
    (hjf : joinFree ops = true) (hok : opsOk ops = true) (h : splitA [] (.mk source ops) = some subs) :
    InvA (identName source) subs ∧ subs.flatMap subClausesA = ops.toList.flatMap opClauses ∧ subs ≠ [] := by
  simp only [splitA, bind, Option.bind, List.length_nil] at h
  cases hq : splitOpsA source 0 [] ops with
  | none => simp [hq] at h
  | some mid =>
    obtain ⟨inv, hc⟩ := splitOpsA_inv source ops [] mid hjf hok hq (InvA.nil _)
    simp only [hq] at h
    by_cases hlen : mid.length = 0
    · have : mid = [] := List.length_eq_zero_iff.mp hlen
      subst this
      simp only [List.length_nil, ↓reduceIte, List.nil_append, pure, Option.some.injEq] at h
      subst h
      refine ⟨(InvA.nil _).snoc _ (chainA_source source []) (by simp [sortOkA, chainA]) ?_, ?_, by simp⟩
      · intro o ho; cases ho
      · simpa [subClausesA, opPartA, sortTakeA, chainA] using hc
    · simp only [hlen, ↓reduceIte, pure, Option.some.injEq] at h
      subst h
      refine ⟨inv, by simpa using hc, ?_⟩
      intro he; subst he; simp at hlen

/-! ### evaluating the CTE list -/

theorem lookupTable_fresh (db : DB) (acc : List (Bytes × Table)) (name : Bytes) (T : Table)
    (h : name ∉ acc.map (·.1)) : lookupTable db (acc ++ [(name, T)]) name = T := by
  unfold lookupTable
  rw [List.find?_append]
  have : acc.find? (fun x => x.1 == name) = none := by
    rw [List.find?_eq_none]
    intro x hx hxe
    apply h
    simp only [List.mem_map]
    exact ⟨x, hx, by simpa using hxe⟩
  simp [this]

/-- the CTE list of `stmtOf`: name and SELECT of every link -/
def cteOf (src : Bytes) (s : SubA) : Option (Bytes × Select) := do
  let x ← selOf src s
  pure (s.name, x)

def cteStep (db : DB) (acc : List (Bytes × Table)) (c : Bytes × Select) : List (Bytes × Table) :=
  acc ++ [(c.1, evalSelect db acc c.2)]

theorem evalChain (src : Bytes) (db : DB) : ∀ (links : List SubA) (acc : List (Bytes × Table)) (prev : Bytes)
    (sels : List (Bytes × Select)),
    ChainFrom prev links → (∀ s ∈ links, sortOkA s = true) → (∀ s ∈ links, ∀ o, s.op = some o → opOk o = true) →
    links.mapM (cteOf src) = some sels →
    (links.map (·.name)).Nodup → (∀ s ∈ links, s.name ∉ acc.map (·.1)) →
    lookupTable db (sels.foldl (cteStep db) acc) (lastName prev links) =
      links.foldl (subEvalA src db) (lookupTable db acc prev)
  | [], acc, prev, sels, _, _, _, hm, _, _ => by
    simp only [List.mapM_nil, pure, Option.some.injEq] at hm
    subst hm
    simp [lastName]
  | s :: rest, acc, prev, sels, hch, hso, hop, hm, hnd, hfr => by
    simp only [List.mapM_cons, bind, Option.bind] at hm
    cases hc : cteOf src s with
    | none => simp [hc] at hm
    | some c =>
      cases hr : rest.mapM (cteOf src) with
      | none => simp [hc, hr] at hm
      | some sels' =>
        simp only [hc, hr, pure, Option.some.injEq] at hm
        subst hm
        simp only [cteOf, bind, Option.bind] at hc
        cases hsel : selOf src s with
        | none => simp [hsel] at hc
        | some sel =>
          simp only [hsel, pure, Option.some.injEq] at hc
          subst hc
          obtain ⟨hsrc, hch'⟩ := hch
          have hT := C02_sel src db acc s prev sel hsrc hsel (hso s (List.mem_cons_self ..))
            (hop s (List.mem_cons_self ..))
          simp only [List.map_cons, List.nodup_cons] at hnd
          have hfresh : s.name ∉ acc.map (·.1) := hfr s (List.mem_cons_self ..)
          have hlk := lookupTable_fresh db acc s.name (evalSelect db acc sel) hfresh
          have ih := evalChain src db rest (acc ++ [(s.name, evalSelect db acc sel)]) s.name sels' hch'
            (fun x hx => hso x (List.mem_cons_of_mem _ hx)) (fun x hx => hop x (List.mem_cons_of_mem _ hx)) hr hnd.2
            (by
              intro x hx hmem
              simp only [List.map_append, List.map_cons, List.map_nil, List.mem_append, List.mem_singleton] at hmem
              rcases hmem with hmem | hmem
              · exact hfr x (List.mem_cons_of_mem _ hx) hmem
              · exact hnd.1 (by rw [← hmem]; exact List.mem_map_of_mem hx))
          rw [lastName_cons, List.foldl_cons, List.foldl_cons]
          show lookupTable db (List.foldl (cteStep db) (acc ++ [(s.name, evalSelect db acc sel)]) sels') _ = _
          rw [ih, hlk, hT]

theorem foldl_subEvalA (src : Bytes) (db : DB) (subs : List SubA) (t : Table) :
    subs.foldl (subEvalA src db) t = (subs.flatMap subClausesA).foldl (interpClause src db) t := by
  induction subs generalizing t with
  | nil => rfl
  | cons s rest ih => simp [List.flatMap_cons, List.foldl_append, ih, subEvalA]

theorem stmtOf_snoc (src : Bytes) (init : List SubA) (q : SubA) (st : Statement)
    (h : stmtOf src (init ++ [q]) = some st) :
    ∃ sels body, init.mapM (cteOf src) = some sels ∧ selOf src q = some body ∧ st = ⟨sels, body⟩ := by
  unfold stmtOf at h
  simp only [List.reverse_append, List.reverse_cons, List.reverse_nil, List.nil_append, List.cons_append,
    List.reverse_reverse] at h
  change (do
      let ctes ← List.mapM (cteOf src) init
      let body ← selOf src q
      pure ({ ctes := ctes, body := body } : Statement)) = some st at h
  simp only [bind, Option.bind] at h
  cases hm : init.mapM (cteOf src) with
  | none => simp [hm] at h
  | some sels =>
    cases hb : selOf src q with
    | none => simp [hm, hb] at h
    | some body =>
      simp only [hm, hb, pure, Option.some.injEq] at h
      exact ⟨sels, body, rfl, rfl, h.symm⟩

theorem evalStatement_eq (db : DB) (sels : List (Bytes × Select)) (body : Select) :
    evalStatement db ⟨sels, body⟩ = evalSelect db (sels.foldl (cteStep db) []) body := rfl

end Pql.SelSem
