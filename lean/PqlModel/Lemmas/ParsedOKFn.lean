/-
Side conditions discharged for parsed trees (part 6): function names.

`stmtsFnAll p stmts` (decidable): every function identifier of a call in a translated expression
of the program satisfies `p`.  Instances:
* `fnNamesOK` — every pass-through function name is one SQL word (`nameOK`): what `lexOK` needs;
* in a parsed tree every function identifier is unquoted and its name is identifier-shaped
  (`[A-Za-z_$][A-Za-z0-9_]*`), so `nameOK` fails exactly for the names that begin with `$`.
-/
import PqlModel.Lemmas.ParsedOKTree
namespace Pql.ParsedOK
open Pql Pql.Exact CompileOracle Sql Pql.RT Pql.C05

mutual
def exprFnAll (p : Ident → Bool) : Expr → Bool
  | .call fn _ args _ => p fn && listFnAll p args
  | .unary _ _ x => exprFnAll p x
  | .paren _ x _ => exprFnAll p x
  | .binary x _ _ y => exprFnAll p x && exprFnAll p y
  | .index x _ y _ => exprFnAll p x && exprFnAll p y
  | .inE x _ _ vs _ => exprFnAll p x && listFnAll p vs
  | .nil => true
  | .qident _ => true
  | .lit .. => true
def listFnAll (p : Ident → Bool) : ExprList → Bool
  | .nil => true
  | .cons e es => exprFnAll p e && listFnAll p es
end

mutual
def tabFnAll (p : Ident → Bool) : Tabular → Bool
  | .nil => true
  | .mk _ ops => opsFnAll p ops
def opsFnAll (p : Ident → Bool) : OpList → Bool
  | .nil => true
  | .cons o os => opFnAll p o && opsFnAll p os
def opFnAll (p : Ident → Bool) : Op → Bool
  | .where_ _ _ e => exprFnAll p e
  | .take _ _ e => exprFnAll p e
  | .sort _ _ ts => ts.all fun t => exprFnAll p t.x
  | .top _ _ n _ c => exprFnAll p n && (match c with | some t => exprFnAll p t.x | none => true)
  | .project _ _ cs => cs.all fun c => exprFnAll p c.x
  | .extend _ _ cs => cs.all fun c => exprFnAll p c.x
  | .summarize _ _ cs _ gs => (cs.all fun c => exprFnAll p c.x) && (gs.all fun c => exprFnAll p c.x)
  | .join _ _ _ _ _ _ right _ _ conds => tabFnAll p right && listFnAll p conds
  | .count .. => true
  | .as_ .. => true
  | .render .. => true
end

/-- every function identifier in a translated expression of the program satisfies `p` -/
def stmtsFnAll (p : Ident → Bool) (stmts : List Stmt) : Bool :=
  stmts.all fun
    | .tabular t => tabFnAll p t
    | .let_ _ _ _ x => exprFnAll p x

/-- a pass-through function name must be one SQL word -/
def nameP (fn : Ident) : Bool := (knownFunction fn.name).isSome || nameOK fn.name

/-- **the decidable side condition of `parsed_lexOK`**: every pass-through (not built-in) function
    name in the program is read by the SQL lexer as one word -/
def fnNamesOK (stmts : List Stmt) : Bool := stmtsFnAll nameP stmts

mutual
theorem tabAll_fnAll (p : Ident → Bool) : ∀ t : Tabular, tabFnAll p t = true →
    TabAll (fun e => exprFnAll p e = true) (fun l => listFnAll p l = true) t
  | .nil, _ => by simp [TabAll]
  | .mk _ ops, h => by
    simp only [tabFnAll] at h
    simp only [TabAll]
    exact opsAll_fnAll p ops h
theorem opsAll_fnAll (p : Ident → Bool) : ∀ ops : OpList, opsFnAll p ops = true →
    OpsAll (fun e => exprFnAll p e = true) (fun l => listFnAll p l = true) ops
  | .nil, _ => by simp [OpsAll]
  | .cons o os, h => by
    simp only [opsFnAll, Bool.and_eq_true] at h
    simp only [OpsAll]
    exact ⟨opAll_fnAll p o h.1, opsAll_fnAll p os h.2⟩
theorem opAll_fnAll (p : Ident → Bool) : ∀ o : Op, opFnAll p o = true →
    OpAll (fun e => exprFnAll p e = true) (fun l => listFnAll p l = true) o
  | .count .., _ => by simp [OpAll]
  | .as_ .., _ => by simp [OpAll]
  | .render .., _ => by simp [OpAll]
  | .where_ _ _ e, h => by simpa [OpAll, opFnAll] using h
  | .take _ _ e, h => by simpa [OpAll, opFnAll] using h
  | .sort _ _ ts, h => by
    simp only [opFnAll, List.all_eq_true] at h
    simp only [OpAll]
    exact h
  | .top _ _ n _ c, h => by
    simp only [opFnAll, Bool.and_eq_true] at h
    simp only [OpAll]
    refine ⟨h.1, ?_⟩
    rintro t rfl
    exact h.2
  | .project _ _ cs, h => by
    simp only [opFnAll, List.all_eq_true] at h
    simp only [OpAll]
    exact fun c hc => Or.inr (h c hc)
  | .extend _ _ cs, h => by
    simp only [opFnAll, List.all_eq_true] at h
    simp only [OpAll]
    exact h
  | .summarize _ _ cs _ gs, h => by
    simp only [opFnAll, Bool.and_eq_true, List.all_eq_true] at h
    simp only [OpAll]
    exact h
  | .join _ _ _ _ _ _ right _ _ conds, h => by
    simp only [opFnAll, Bool.and_eq_true] at h
    simp only [OpAll]
    exact ⟨tabAll_fnAll p right h.1, h.2⟩
end

theorem stmtAll_fnAll (p : Ident → Bool) (stmts : List Stmt) (h : stmtsFnAll p stmts = true) :
    ∀ s ∈ stmts, StmtAll (fun e => exprFnAll p e = true) (fun l => listFnAll p l = true) s := by
  intro s hs
  simp only [stmtsFnAll, List.all_eq_true] at h
  have := h s hs
  cases s with
  | tabular t => exact tabAll_fnAll p t this
  | let_ kw n a x => exact this

/-! ### `lexOK` from `nameP` -/

mutual
theorem lexOK_of_names : ∀ e : Expr, sOK e = true → leavesE tokP e = true → exprFnAll nameP e = true →
    e.lexOK = true
  | .nil, h, _, _ => by simp [sOK] at h
  | .qident _, _, _, _ => by simp [Expr.lexOK]
  | .lit _ k v, h, hl, _ => by
    simp only [sOK, Bool.or_eq_true, decide_eq_true_eq] at h
    simp only [leavesE, tokP, Bool.and_eq_true, Bool.or_eq_true, bne_iff_ne, ne_eq] at hl
    rcases h with rfl | rfl
    · simpa [Expr.lexOK] using hl.1
    · simp [Expr.lexOK]
  | .unary _ op x, h, hl, hk => by
    simp only [sOK, Bool.and_eq_true] at h
    simp only [leavesE] at hl
    simp only [exprFnAll] at hk
    simp only [Expr.lexOK, Bool.and_eq_true]
    exact ⟨h.1, lexOK_of_names x h.2 hl hk⟩
  | .paren _ x _, h, hl, hk => by
    simp only [sOK] at h
    simp only [leavesE] at hl
    simp only [exprFnAll] at hk
    simp only [Expr.lexOK]
    exact lexOK_of_names x h hl hk
  | .binary x _ _ y, h, hl, hk => by
    simp only [sOK, Bool.and_eq_true] at h
    simp only [leavesE, Bool.and_eq_true] at hl
    simp only [exprFnAll, Bool.and_eq_true] at hk
    simp only [Expr.lexOK, Bool.and_eq_true]
    exact ⟨lexOK_of_names x h.2.1 hl.1 hk.1, lexOK_of_names y h.2.2 hl.2 hk.2⟩
  | .index x _ y _, h, hl, hk => by
    simp only [sOK, Bool.and_eq_true] at h
    simp only [leavesE, Bool.and_eq_true] at hl
    simp only [exprFnAll, Bool.and_eq_true] at hk
    simp only [Expr.lexOK, Bool.and_eq_true]
    exact ⟨lexOK_of_names x h.1 hl.1 hk.1, lexOK_of_names y h.2 hl.2 hk.2⟩
  | .inE x _ _ vs _, h, hl, hk => by
    simp only [sOK, Bool.and_eq_true] at h
    simp only [leavesE, Bool.and_eq_true] at hl
    simp only [exprFnAll, Bool.and_eq_true] at hk
    simp only [Expr.lexOK, Bool.and_eq_true]
    exact ⟨lexOK_of_names x h.1 hl.1 hk.1, lexOKList_of_names vs h.2.1 hl.2 hk.2⟩
  | .call fn _ args _, h, hl, hk => by
    simp only [sOK, Bool.and_eq_true] at h
    simp only [leavesE, Bool.and_eq_true] at hl
    simp only [exprFnAll, Bool.and_eq_true] at hk
    simp only [Expr.lexOK, Bool.and_eq_true]
    exact ⟨hk.1, lexOKList_of_names args h.2 hl.2 hk.2⟩
theorem lexOKList_of_names : ∀ l : ExprList, sOKList l = true → leavesL tokP l = true →
    listFnAll nameP l = true → l.lexOK = true
  | .nil, _, _, _ => by simp [ExprList.lexOK]
  | .cons e es, h, hl, hk => by
    simp only [sOKList, Bool.and_eq_true] at h
    simp only [leavesL, Bool.and_eq_true] at hl
    simp only [listFnAll, Bool.and_eq_true] at hk
    simp only [ExprList.lexOK, Bool.and_eq_true]
    exact ⟨lexOK_of_names e h.1 hl.1 hk.1, lexOKList_of_names es h.2 hl.2 hk.2⟩
end

/-! ### what function identifiers of parsed trees look like -/

/-- the function identifier of a call in a parsed tree: unquoted, identifier-shaped -/
def fnShape (fn : Ident) : Bool := !fn.quoted && identShaped fn.name

mutual
theorem fnShape_of : ∀ e : Expr, sOK e = true → leavesE tokP e = true → exprFnAll fnShape e = true
  | .nil, _, _ => by simp [exprFnAll]
  | .qident _, _, _ => by simp [exprFnAll]
  | .lit .., _, _ => by simp [exprFnAll]
  | .unary _ op x, h, hl => by
    simp only [sOK, Bool.and_eq_true] at h
    simp only [leavesE] at hl
    simp only [exprFnAll]
    exact fnShape_of x h.2 hl
  | .paren _ x _, h, hl => by
    simp only [sOK] at h
    simp only [leavesE] at hl
    simp only [exprFnAll]
    exact fnShape_of x h hl
  | .binary x _ _ y, h, hl => by
    simp only [sOK, Bool.and_eq_true] at h
    simp only [leavesE, Bool.and_eq_true] at hl
    simp only [exprFnAll, Bool.and_eq_true]
    exact ⟨fnShape_of x h.2.1 hl.1, fnShape_of y h.2.2 hl.2⟩
  | .index x _ y _, h, hl => by
    simp only [sOK, Bool.and_eq_true] at h
    simp only [leavesE, Bool.and_eq_true] at hl
    simp only [exprFnAll, Bool.and_eq_true]
    exact ⟨fnShape_of x h.1 hl.1, fnShape_of y h.2 hl.2⟩
  | .inE x _ _ vs _, h, hl => by
    simp only [sOK, Bool.and_eq_true] at h
    simp only [leavesE, Bool.and_eq_true] at hl
    simp only [exprFnAll, Bool.and_eq_true]
    exact ⟨fnShape_of x h.1 hl.1, fnShapeList_of vs h.2.1 hl.2⟩
  | .call fn _ args _, h, hl => by
    simp only [sOK, Bool.and_eq_true, Bool.not_eq_true'] at h
    simp only [leavesE, Bool.and_eq_true] at hl
    simp only [exprFnAll, Bool.and_eq_true]
    refine ⟨?_, fnShapeList_of args h.2 hl.2⟩
    have := hl.1
    simpa [fnShape, tokP, identKind, h.1] using this
theorem fnShapeList_of : ∀ l : ExprList, sOKList l = true → leavesL tokP l = true →
    listFnAll fnShape l = true
  | .nil, _, _ => by simp [listFnAll]
  | .cons e es, h, hl => by
    simp only [sOKList, Bool.and_eq_true] at h
    simp only [leavesL, Bool.and_eq_true] at hl
    simp only [listFnAll, Bool.and_eq_true]
    exact ⟨fnShape_of e h.1 hl.1, fnShapeList_of es h.2 hl.2⟩
end

/-- for the function identifiers of parsed trees, `nameOK` fails exactly on a leading `$` -/
theorem nameOK_of_fnShape (fn : Ident) (h : fnShape fn = true) :
    nameOK fn.name = (fn.name.head? != some 36) := by
  simp only [fnShape, Bool.and_eq_true] at h
  exact nameOK_of_identShaped _ h.2

end Pql.ParsedOK
