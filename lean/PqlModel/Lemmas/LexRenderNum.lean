/-
LexRender, part 3: number scanning with an abstract following text, and the shape of the
tokens the lexer emits (a number token starts with a digit, a word token with a word-start
byte) — what turns the semantic side conditions `numOK` / `nameOK` into scanning facts.
-/
import PqlModel.Lemmas.LexRenderBytes
namespace Pql.LexRender
open Pql Sql

theorem spanWhile_partition (p : UInt8 → Bool) (s : Bytes) :
    (spanWhile p s).1 ++ (spanWhile p s).2 = s := by
  induction s with
  | nil => rfl
  | cons c r ih =>
    by_cases h : p c = true
    · simp [spanWhile, h, ih]
    · simp [spanWhile, h]

theorem spanWhile_all (p : UInt8 → Bool) (s : Bytes) : ∀ b ∈ (spanWhile p s).1, p b = true := by
  induction s with
  | nil => simp [spanWhile]
  | cons c r ih =>
    by_cases h : p c = true
    · simp [spanWhile, h]; exact ih
    · simp [spanWhile, h]

theorem spanWhile_append (p : UInt8 → Bool) (s rest : Bytes)
    (hr : ∀ d, rest.head? = some d → p d = false) :
    spanWhile p (s ++ rest) = ((spanWhile p s).1, (spanWhile p s).2 ++ rest) := by
  induction s with
  | nil =>
    cases rest with
    | nil => rfl
    | cons d r => simp [spanWhile, hr d rfl]
  | cons c r ih =>
    by_cases h : p c = true
    · simp [spanWhile, h, ih]
    · simp [spanWhile, h]

/-- what must not directly follow a number -/
def numBad (d : UInt8) : Bool := isDigitB d || d == 46 || isWordStart d

theorem lexExponent_partition (s : Bytes) : (lexExponent s).1 ++ (lexExponent s).2 = s := by
  rcases s with _ | ⟨e, _ | ⟨sg, _ | ⟨d, r⟩⟩⟩
  · rfl
  · simp only [lexExponent]; split <;> rfl
  · simp only [lexExponent]; split
    · split <;> simp
    · rfl
  · simp only [lexExponent]
    split
    · split
      · have := spanWhile_partition isDigitB (d :: r)
        simp only [List.cons_append]; rw [this]
      · split
        · have := spanWhile_partition isDigitB (sg :: d :: r)
          simp only [List.cons_append]; rw [this]
        · rfl
    · rfl

theorem expByte_wordStart {e : UInt8} (h : (e == 101 || e == 69) = true) : isWordStart e = true := by
  simp only [Bool.or_eq_true, beq_iff_eq] at h
  rcases h with rfl | rfl <;> decide

theorem numBad_elim {d : UInt8} (h : numBad d = false) :
    isDigitB d = false ∧ (d == 46) = false ∧ isWordStart d = false := by
  simp only [numBad, Bool.or_eq_false_iff] at h
  exact ⟨h.1.1, h.1.2, h.2⟩

set_option maxRecDepth 8000 in
theorem digit_not_sign (d : UInt8) : (!isDigitB d || !(d == 43 || d == 45)) = true :=
  forall_uint8 (fun d => !isDigitB d || !(d == 43 || d == 45)) (by decide) d

theorem lexExponent_append (s rest : Bytes)
    (hr : ∀ d, rest.head? = some d → numBad d = false)
    (hs : ∀ d, (lexExponent s).2.head? = some d → isWordStart d = false) :
    lexExponent (s ++ rest) = ((lexExponent s).1, (lexExponent s).2 ++ rest) := by
  have hrd : ∀ d, rest.head? = some d → isDigitB d = false := fun d h => (numBad_elim (hr d h)).1
  rcases s with _ | ⟨e, t⟩
  · -- nothing left of the number: the following text starts no exponent
    rcases rest with _ | ⟨x, r⟩
    · rfl
    · have hx := (numBad_elim (hr x rfl)).2.2
      have : ¬ (x == 101 || x == 69) = true := fun h => by
        rw [expByte_wordStart h] at hx; cases hx
      simp only [List.nil_append, lexExponent, if_neg this]
  · by_cases he : (e == 101 || e == 69) = true
    · have hws := expByte_wordStart he
      rcases t with _ | ⟨sg, _ | ⟨d, r⟩⟩
      · have := hs e (by simp [lexExponent])
        rw [hws] at this; cases this
      · -- `e d`
        by_cases hd : isDigitB sg = true
        · rcases rest with _ | ⟨x, r⟩
          · simp
          · have hx := hrd x rfl
            have hns : (sg == 43 || sg == 45) = false := by
              have := digit_not_sign sg; simpa [hd] using this
            simp [lexExponent, he, hd, hx, hns, spanWhile]
        · have := hs e (by simp [lexExponent, he, hd])
          rw [hws] at this; cases this
      · by_cases h1 : ((sg == 43 || sg == 45) && isDigitB d) = true
        · have := spanWhile_append isDigitB (d :: r) rest hrd
          simp only [List.cons_append] at this
          simp only [List.cons_append, lexExponent, if_pos he, if_pos h1, this]
        · by_cases h2 : isDigitB sg = true
          · have := spanWhile_append isDigitB (sg :: d :: r) rest hrd
            simp only [List.cons_append] at this
            simp only [List.cons_append, lexExponent, if_pos he, if_neg h1, if_pos h2, this]
          · have := hs e (by simp only [lexExponent, if_pos he, if_neg h1, if_neg h2]; rfl)
            rw [hws] at this; cases this
    · have e1 : lexExponent (e :: t) = ([], e :: t) := by simp only [lexExponent, if_neg he]
      have e2 : lexExponent (e :: (t ++ rest)) = ([], e :: (t ++ rest)) := by
        simp only [lexExponent, if_neg he]
      simp only [List.cons_append, e1, e2]

/-- the exponent part and the boundary check of the number branch -/
def numTail (pre s : Bytes) : Option (Bytes × Bytes) :=
  if ((lexExponent s).2.head?.map isWordStart).getD false then none
  else some (pre ++ (lexExponent s).1, (lexExponent s).2)

theorem numStep_eq (s : Bytes) :
    numStep s =
      match (spanWhile isDigitB s).2 with
      | d :: r =>
        if d == 46 then numTail ((spanWhile isDigitB s).1 ++ 46 :: (spanWhile isDigitB r).1) (spanWhile isDigitB r).2
        else numTail (spanWhile isDigitB s).1 (d :: r)
      | [] => numTail (spanWhile isDigitB s).1 [] := by
  unfold numStep
  dsimp only
  generalize spanWhile isDigitB s = ip
  obtain ⟨ip1, ip2⟩ := ip
  rcases ip2 with _ | ⟨d, r⟩
  · simp [numTail]
  · dsimp only
    by_cases hd : (d == 46) = true
    · simp only [hd, if_true, numTail, List.append_assoc]
    · have hd' : (d == 46) = false := by simpa using hd
      simp only [hd', Bool.false_eq_true, if_false, numTail, List.append_nil]

theorem numTail_partition (pre s t r : Bytes) (h : numTail pre s = some (t, r)) : t ++ r = pre ++ s := by
  unfold numTail at h
  split at h
  · cases h
  · simp only [Option.some.injEq, Prod.mk.injEq] at h
    rw [← h.1, ← h.2, List.append_assoc, lexExponent_partition]

theorem numTail_append (pre s t r rest : Bytes) (h : numTail pre s = some (t, r))
    (hr : ∀ d, rest.head? = some d → numBad d = false) :
    numTail pre (s ++ rest) = some (t, r ++ rest) := by
  unfold numTail at h
  split at h
  · cases h
  · rename_i hc
    simp only [Option.some.injEq, Prod.mk.injEq] at h
    have hs : ∀ d, (lexExponent s).2.head? = some d → isWordStart d = false := by
      intro d hd
      rw [hd] at hc
      simpa using hc
    have ha := lexExponent_append s rest hr hs
    unfold numTail
    rw [ha]
    dsimp only
    have : ¬ ((((lexExponent s).2 ++ rest).head?.map isWordStart).getD false = true) := by
      rcases hl : (lexExponent s).2 with _ | ⟨x, xs⟩
      · rcases rest with _ | ⟨y, ys⟩
        · simp
        · simp [(numBad_elim (hr y rfl)).2.2]
      · simp [hs x (by rw [hl]; rfl)]
    rw [if_neg this, h.1, h.2]

theorem numStep_partition (s t r : Bytes) (h : numStep s = some (t, r)) : t ++ r = s := by
  rw [numStep_eq] at h
  have hp := spanWhile_partition isDigitB s
  generalize spanWhile isDigitB s = ip at h hp
  obtain ⟨ip1, ip2⟩ := ip
  dsimp only at h hp
  rcases ip2 with _ | ⟨d, r0⟩
  · dsimp only at h
    rw [numTail_partition _ _ _ _ h, hp]
  · dsimp only at h
    by_cases hd : (d == 46) = true
    · rw [if_pos hd] at h
      have := numTail_partition _ _ _ _ h
      have hd' : d = 46 := by simpa using hd
      rw [this, ← hp, hd', List.append_assoc, List.cons_append, spanWhile_partition]
    · rw [if_neg hd] at h
      rw [numTail_partition _ _ _ _ h, hp]

theorem numStep_append (s t r rest : Bytes) (h : numStep s = some (t, r))
    (hr : ∀ d, rest.head? = some d → numBad d = false) :
    numStep (s ++ rest) = some (t, r ++ rest) := by
  have hrd : ∀ d, rest.head? = some d → isDigitB d = false := fun d h => (numBad_elim (hr d h)).1
  rw [numStep_eq] at h
  rw [numStep_eq, spanWhile_append isDigitB s rest hrd]
  generalize spanWhile isDigitB s = ip at h
  obtain ⟨ip1, ip2⟩ := ip
  dsimp only at h ⊢
  rcases ip2 with _ | ⟨d, r0⟩
  · dsimp only at h
    have := numTail_append _ _ _ _ rest h hr
    rcases rest with _ | ⟨y, ys⟩
    · exact this
    · have hy : ¬ (y == 46) = true := by simp [(numBad_elim (hr y rfl)).2.1]
      simp only [List.nil_append] at this ⊢
      rw [if_neg hy]; exact this
  · dsimp only at h
    simp only [List.cons_append]
    by_cases hd : (d == 46) = true
    · rw [if_pos hd] at h
      rw [if_pos hd, spanWhile_append isDigitB r0 rest hrd]
      exact numTail_append _ _ _ _ rest h hr
    · rw [if_neg hd] at h
      rw [if_neg hd]
      exact numTail_append _ _ _ _ rest h hr

/-! ### shape of emitted tokens -/

def tokShape : STok → Prop
  | .num x => ∃ c r, x = c :: r ∧ isDigitB c = true
  | .word w => ∃ c r, w = c :: r ∧ isWordStart c = true
  | _ => True

theorem shape_single {t : List STok} {r r' : Bytes} {tok : STok}
    (h : some ([tok], r') = some (t, r)) (hs : tokShape tok) : ∀ x ∈ t, tokShape x := by
  simp only [Option.some.injEq, Prod.mk.injEq] at h
  obtain ⟨rfl, _⟩ := h
  intro x hx
  simp only [List.mem_cons, List.not_mem_nil, or_false] at hx
  subst hx; exact hs

theorem lexStep_shape (mode : QuoteMode) (c : UInt8) (rest : Bytes) (t : List STok) (r : Bytes)
    (h : lexStep mode c rest = some (t, r)) : ∀ x ∈ t, tokShape x := by
  rw [lexStep] at h
  by_cases h1 : isSpaceB c = true
  · rw [if_pos h1] at h
    simp only [Option.some.injEq, Prod.mk.injEq] at h
    obtain ⟨rfl, _⟩ := h
    simp
  rw [if_neg h1] at h
  by_cases h2 : (c == 45 && rest.head? == some 45) = true
  · rw [if_pos h2] at h; exact shape_single h trivial
  rw [if_neg h2] at h
  by_cases h3 : (c == 47 && rest.head? == some 42) = true
  · rw [if_pos h3] at h
    cases hb : skipBlockComment rest.tail with
    | none => rw [hb] at h; cases h
    | some r' => rw [hb] at h; exact shape_single h trivial
  rw [if_neg h3] at h
  by_cases h4 : (c == 39) = true
  · rw [if_pos h4] at h
    rcases hq : lexQuoted mode 39 rest with _ | ⟨v, r'⟩
    · rw [hq] at h; cases h
    · rw [hq] at h; exact shape_single h trivial
  rw [if_neg h4] at h
  by_cases h5 : (c == 34) = true
  · rw [if_pos h5] at h
    rcases hq : lexQuoted mode 34 rest with _ | ⟨v, r'⟩
    · rw [hq] at h; cases h
    · rw [hq] at h; exact shape_single h trivial
  rw [if_neg h5] at h
  by_cases h6 : isWordStart c = true
  · rw [if_pos h6] at h; exact shape_single h ⟨_, _, rfl, h6⟩
  rw [if_neg h6] at h
  by_cases h7 : isDigitB c = true
  · rw [if_pos h7] at h
    rcases hq : numStep rest with _ | ⟨v, r'⟩
    · rw [hq] at h; cases h
    · rw [hq] at h; exact shape_single h ⟨_, _, rfl, h7⟩
  rw [if_neg h7] at h
  by_cases h9 : (c == 36) = true
  · rw [if_pos h9] at h; dsimp only at h
    by_cases h10 : (spanWhile isWordCont rest).1.isEmpty = true
    · rw [if_pos h10] at h; cases h
    · rw [if_neg h10] at h; exact shape_single h trivial
  rw [if_neg h9] at h
  by_cases h11 : (c == 63) = true
  · rw [if_pos h11] at h; exact shape_single h trivial
  rw [if_neg h11] at h
  by_cases h12 : (c == 123) = true
  · rw [if_pos h12] at h; dsimp only at h
    rcases hq : (spanWhile (fun x => x != 125) rest).2 with _ | ⟨v, r'⟩
    · rw [hq] at h; cases h
    · rw [hq] at h; exact shape_single h trivial
  rw [if_neg h12] at h
  rcases hq : rest.head?.bind (fun d => twoCharSyms.find? (fun o => o.1 == c && o.2.1 == d)) with _ | o
  · rw [hq] at h; dsimp only at h
    rcases hq2 : oneCharSyms.find? (fun o => o.1 == c) with _ | o
    · rw [hq2] at h; cases h
    · rw [hq2] at h; exact shape_single h trivial
  · rw [hq] at h; exact shape_single h trivial

theorem lexAux_shape (mode : QuoteMode) : ∀ (fuel : Nat) (s : Bytes) (ts : List STok),
    lexAux mode fuel s = some ts → ∀ x ∈ ts, tokShape x := by
  intro fuel
  induction fuel with
  | zero => intro s ts h; simp [lexAux] at h
  | succ f ih =>
    intro s ts h
    cases s with
    | nil =>
      simp only [lexAux, Option.some.injEq] at h
      subst h; simp
    | cons c rest =>
      rw [lexAux_step] at h
      rcases hs : lexStep mode c rest with _ | ⟨t, r⟩
      · rw [hs] at h; cases h
      · rw [hs] at h
        simp only [andThen, Option.map_eq_some_iff] at h
        obtain ⟨ts', hts', rfl⟩ := h
        intro x hx
        rcases List.mem_append.mp hx with hx | hx
        · exact lexStep_shape mode c rest t r hs x hx
        · exact ih r ts' hts' x hx

end Pql.LexRender
