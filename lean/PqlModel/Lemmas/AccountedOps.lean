/-
Stage 2 of property C08: the tabular operators.
-/
import PqlModel.Lemmas.AccountedExpr
namespace Pql
open Grammar

/-! ### lists of comma-separated items -/

theorem sepBy_single (sep : UTok) (x : List UTok) : sepBy sep [x] = x := rfl
theorem sepBy_cons_cons (sep : UTok) (x y : List UTok) (ys : List (List UTok)) :
    sepBy sep (x :: y :: ys) = x ++ sep :: sepBy sep (y :: ys) := rfl

theorem listM_cons {α β} (f : α → Option β) {x : α} {xs : List α} {y : β} {ys : List β}
    (hx : f x = some y) (hxs : listM f xs = some ys) : listM f (x :: xs) = some (y :: ys) := by
  simp [listM, hx, hxs]

theorem listM_nil {α β} (f : α → Option β) : listM f [] = some [] := rfl

/-- `items` (non-empty) are accounted for by `cons`, separated by commas -/
def AccItems {α} (f : α → Option (List UTok)) (items : List α) (cons : List Token) : Prop :=
  items ≠ [] ∧ ∃ us, listM f items = some us ∧ accounts true (sepBy commaTok us) cons = true

theorem AccItems.single {α} {f : α → Option (List UTok)} {x : α} {ux : List UTok} {cx : List Token}
    (hx : f x = some ux) (ha : accounts true ux cx = true) : AccItems f [x] cx :=
  ⟨by simp, [ux], listM_cons f hx (listM_nil f), by simpa [sepBy_single] using ha⟩

theorem AccItems.cons {α} {f : α → Option (List UTok)} {x : α} {ux : List UTok} {cx : List Token}
    {t : Token} {items : List α} {cons : List Token}
    (hx : f x = some ux) (ha : accounts true ux cx = true) (hk : t.kind = .comma) (hv : t.value = [])
    (hi : AccItems f items cons) : AccItems f (x :: items) (cx ++ t :: cons) := by
  obtain ⟨hne, us, hus, hacc⟩ := hi
  cases us with
  | nil =>
    cases items with
    | nil => exact absurd rfl hne
    | cons a as =>
      simp only [listM, Option.bind_eq_bind, Option.pure_def] at hus
      cases h1 : f a <;> cases h2 : listM f as <;> simp [h1, h2] at hus
  | cons u us' =>
    refine ⟨by simp, ux :: u :: us', listM_cons f hx hus, ?_⟩
    rw [sepBy_cons_cons]
    exact accounts_append ha (accounts_cons (tokOk_commaTok hk hv) hacc)

/-! ### sort terms -/

/-- the `asc` / `desc` step of `pSortTerm` -/
def sortStep1 (rv : Expr) (rrest : List Token) : SortTerm × List Token × Bool :=
  let term : SortTerm := ⟨rv, false, .null, false, .null⟩
  match (generalizing := false) rrest with
  | [] => (term, [], false)
  | t :: rest =>
    if isIdentNamed t "asc" then ({ term with asc := true, ascDescSpan := t.span, nullsFirst := true }, rest, true)
    else if isIdentNamed t "desc" then ({ term with asc := false, ascDescSpan := t.span, nullsFirst := false }, rest, true)
    else if isIdentNamed t "nulls" then (term, rrest, true)
    else (term, rrest, false)

/-- the `nulls first` / `nulls last` step of `pSortTerm` -/
def sortNulls (c : PCtx) (term : SortTerm) (ts : List Token) : PRes (Option SortTerm) :=
  match (generalizing := false) ts with
  | [] => ⟨some term, [], []⟩
  | t :: rest =>
    if isIdentNamed t "nulls" then
      match rest with
      | [] => ⟨some term, errAt c.eof, []⟩
      | t2 :: rest2 =>
        if isIdentNamed t2 "first" then
          ⟨some { term with nullsFirst := true, nullsSpan := ⟨t.start, t2.stop⟩ }, [], rest2⟩
        else if isIdentNamed t2 "last" then
          ⟨some { term with nullsFirst := false, nullsSpan := ⟨t.start, t2.stop⟩ }, [], rest2⟩
        else ⟨some term, errAt t2.span, rest⟩
    else ⟨some term, [], ts⟩

theorem pSortTerm_eq (c : PCtx) (fuel : Nat) (ts : List Token) :
    pSortTerm c fuel ts =
      (let r := pExpr c fuel ts
       if r.errs ≠ [] then ⟨none, r.errs, r.rest⟩
       else
         let s := sortStep1 r.val r.rest
         if !s.2.2 then ⟨some s.1, [], s.2.1⟩ else sortNulls c s.1 s.2.1) := rfl

def dirOf (t : SortTerm) : List UTok :=
  if t.ascDescSpan.isValid then [kwTok [if t.asc then "asc" else "desc"] t.ascDescSpan] else []

def nullsOf (t : SortTerm) : List UTok :=
  if t.nullsSpan.isValid then
    [{ kwPlain ["nulls"] with start := some t.nullsSpan.start },
     { kwPlain [if t.nullsFirst then "first" else "last"] with stop := some t.nullsSpan.stop }]
  else []

theorem unparseSortTerm_eq {t : SortTerm} {xs : List UTok} (h : unparseExpr t.x = some xs) :
    unparseSortTerm t = some (xs ++ dirOf t ++ nullsOf t) := by
  simp [unparseSortTerm, h, dirOf, nullsOf]

theorem sortStep1_spec (rv : Expr) (rrest : List Token) (hok : TokOK rrest) :
    ∃ cd, rrest = cd ++ (sortStep1 rv rrest).2.1 ∧ (sortStep1 rv rrest).1.x = rv ∧
      (sortStep1 rv rrest).1.nullsSpan = .null ∧
      accounts true (dirOf (sortStep1 rv rrest).1) cd = true := by
  unfold sortStep1
  cases rrest with
  | nil => exact ⟨[], rfl, rfl, rfl, by simp [dirOf]⟩
  | cons t rest =>
    dsimp only
    split
    · rename_i h
      obtain ⟨hk, hv⟩ := isIdentNamed_iff.mp h
      refine ⟨[t], rfl, rfl, rfl, ?_⟩
      simp only [dirOf, span_isValid hok.head_le, if_true]
      exact accounts_single (tokOk_kwTok hk (by simp [hv]))
    · split
      · rename_i h
        obtain ⟨hk, hv⟩ := isIdentNamed_iff.mp h
        refine ⟨[t], rfl, rfl, rfl, ?_⟩
        simp only [dirOf, span_isValid hok.head_le, if_true]
        exact accounts_single (tokOk_kwTok hk (by simp [hv]))
      · split
        · exact ⟨[], rfl, rfl, rfl, by simp [dirOf]⟩
        · exact ⟨[], rfl, rfl, rfl, by simp [dirOf]⟩

theorem sortNulls_spec {c : PCtx} {term : SortTerm} {ts : List Token} {v : Option SortTerm}
    {rest : List Token} (hok : TokOK ts) (hnull : term.nullsSpan = .null)
    (h : sortNulls c term ts = ⟨v, [], rest⟩) :
    ∃ term' cn, v = some term' ∧ term'.x = term.x ∧ dirOf term' = dirOf term ∧ ts = cn ++ rest ∧
      accounts true (nullsOf term') cn = true := by
  have hbase : accounts true (nullsOf term) [] = true := by simp [nullsOf, hnull]
  unfold sortNulls at h
  cases ts with
  | nil =>
    simp only [PRes.mk.injEq, true_and] at h
    obtain ⟨rfl, rfl⟩ := h
    exact ⟨term, [], rfl, rfl, rfl, rfl, hbase⟩
  | cons t rest1 =>
    dsimp only at h
    split at h
    · rename_i hn
      obtain ⟨hk, hv⟩ := isIdentNamed_iff.mp hn
      cases rest1 with
      | nil => simp at h
      | cons t2 rest2 =>
        dsimp only at h
        have hval := span2_isValid hok.head2
        split at h
        · rename_i hf
          obtain ⟨hk2, hv2⟩ := isIdentNamed_iff.mp hf
          simp only [PRes.mk.injEq, true_and] at h
          obtain ⟨rfl, rfl⟩ := h
          refine ⟨_, [t, t2], rfl, rfl, rfl, rfl, ?_⟩
          simp only [nullsOf, hval, if_true]
          exact accounts_cons (tokOk_kwPlain_start hk (by simp [hv]))
            (accounts_single (tokOk_kwPlain_stop hk2 (by simp [hv2])))
        · split at h
          · rename_i hl
            obtain ⟨hk2, hv2⟩ := isIdentNamed_iff.mp hl
            simp only [PRes.mk.injEq, true_and] at h
            obtain ⟨rfl, rfl⟩ := h
            refine ⟨_, [t, t2], rfl, rfl, rfl, rfl, ?_⟩
            simp only [nullsOf, hval, if_true]
            exact accounts_cons (tokOk_kwPlain_start hk (by simp [hv]))
              (accounts_single (tokOk_kwPlain_stop hk2 (by simp [hv2])))
          · simp at h
    · simp only [PRes.mk.injEq, true_and] at h
      obtain ⟨rfl, rfl⟩ := h
      exact ⟨term, [], rfl, rfl, rfl, rfl, hbase⟩

theorem pSortTerm_acc {c : PCtx} {fuel : Nat} {ts : List Token} {v : Option SortTerm} {rest : List Token}
    (hok : TokOK ts) (h : pSortTerm c fuel ts = ⟨v, [], rest⟩) :
    ∃ term us cons, v = some term ∧ unparseSortTerm term = some us ∧ ts = cons ++ rest ∧
      accounts true us cons = true := by
  rw [pSortTerm_eq] at h
  dsimp only at h
  generalize hr : pExpr c fuel ts = r at h
  obtain ⟨rv, re, rrest⟩ := r
  dsimp only at h
  split at h
  · rename_i hne
    simp only [PRes.mk.injEq] at h
    exact absurd h.2.1 hne
  · rename_i hre
    have hre' : re = [] := Classical.not_not.mp hre
    subst hre'
    obtain ⟨ux, cx, hux, hts, hax⟩ := pExpr_acc hok hr
    have hokr : TokOK rrest := hok.of_eq_append hts
    obtain ⟨cd, hcd, hx, hnull, had⟩ := sortStep1_spec rv rrest hokr
    generalize sortStep1 rv rrest = s at h hcd hx hnull had
    obtain ⟨term, srest, sb⟩ := s
    dsimp only at h hcd hx hnull had
    split at h
    · simp only [PRes.mk.injEq, true_and] at h
      obtain ⟨rfl, rfl⟩ := h
      refine ⟨term, _, cx ++ cd, rfl, unparseSortTerm_eq (hx ▸ hux), by rw [hts, hcd]; simp, ?_⟩
      have : nullsOf term = [] := by simp [nullsOf, hnull]
      rw [this, List.append_nil]
      exact accounts_append hax had
    · obtain ⟨term', cn, rfl, hx', hdir, hsr, han⟩ :=
        sortNulls_spec (hokr.of_eq_append hcd) hnull h
      refine ⟨term', _, cx ++ cd ++ cn, rfl, unparseSortTerm_eq (hx'.trans hx ▸ hux),
        by rw [hts, hcd, hsr]; simp, ?_⟩
      rw [hdir]
      exact accounts_append (accounts_append hax had) han

theorem pSortTerms_acc (c : PCtx) (fuel : Nat) : ∀ (n : Nat) (acc : List SortTerm) (ts : List Token)
    (l : List SortTerm) (rest : List Token), TokOK ts → pSortTerms c fuel n acc ts = ⟨l, [], rest⟩ →
    ∃ more cons, l = acc ++ more ∧ ts = cons ++ rest ∧ AccItems unparseSortTerm more cons := by
  intro n
  induction n with
  | zero => intro acc ts l rest _ h; simp [pSortTerms] at h
  | succ n ih =>
    intro acc ts l rest hok h
    unfold pSortTerms at h
    dsimp only at h
    generalize hr : pSortTerm c fuel ts = r at h
    obtain ⟨rv, re, rrest⟩ := r
    dsimp only at h
    split at h
    · rename_i hne
      simp only [PRes.mk.injEq, mkOpaque_eq_nil] at h
      exact absurd h.2.1 hne
    · rename_i hre
      have hre' : re = [] := Classical.not_not.mp hre
      subst hre'
      obtain ⟨term, us, cons, rfl, hus, hts, ha⟩ := pSortTerm_acc hok hr
      dsimp only at h
      split at h
      · rename_i t rest1
        split at h
        · rename_i hcomma
          have hok1 : TokOK (t :: rest1) := hok.of_eq_append hts
          obtain ⟨more, cons', rfl, hr1, hi⟩ := ih _ _ _ _ hok1.tail h
          refine ⟨term :: more, cons ++ t :: cons', by simp, by rw [hts, hr1]; simp, ?_⟩
          exact AccItems.cons hus ha hcomma (hok1.head.symVal hcomma) hi
        · simp only [PRes.mk.injEq, true_and] at h
          obtain ⟨rfl, rfl⟩ := h
          exact ⟨[term], cons, rfl, hts, AccItems.single hus ha⟩
      · simp only [PRes.mk.injEq, true_and] at h
        obtain ⟨rfl, rfl⟩ := h
        exact ⟨[term], cons, rfl, hts, AccItems.single hus ha⟩

/-! ### columns -/

theorem unparseColumn_named {p : Bool} {n : Ident} {asg : Span} {x : Expr} {xs : List UTok}
    (hv : asg.isValid = true) (hx : unparseExpr x = some xs) :
    unparseColumn p ⟨some n, asg, x⟩ = some (identTok n :: sym .assign asg :: xs) := by
  simp [unparseColumn, hv, hx]

theorem pNamedColumn_acc {c : PCtx} {fuel : Nat} {ts : List Token} {col : Column} {rest : List Token}
    (hok : TokOK ts) (h : pNamedColumn c fuel ts = ⟨col, [], rest⟩) :
    ∃ us cons, unparseColumn false col = some us ∧ ts = cons ++ rest ∧ accounts true us cons = true := by
  unfold pNamedColumn at h
  dsimp only at h
  split at h
  · rename_i id asg rest1 hnamed
    generalize hr : pExpr c fuel rest1 = r at h
    obtain ⟨rv, re, rrest⟩ := r
    simp only [PRes.mk.injEq, mkOpaque_eq_nil] at h
    obtain ⟨rfl, rfl, rfl⟩ := h
    -- the shape of the tokens before the expression
    split at hnamed
    · rename_i id' t rest2 hv hrest
      split at hnamed
      · rename_i hasg
        simp only [Option.some.injEq, Prod.mk.injEq] at hnamed
        obtain ⟨rfl, rfl, rfl⟩ := hnamed
        -- pIdent succeeded on the first token
        cases ts with
        | nil => simp [pIdent] at hv
        | cons t0 ts0 =>
          simp only [pIdent] at hv hrest
          split at hv
          · rename_i hk0
            simp only [hk0, if_true] at hrest
            dsimp only at hv hrest
            simp only [Option.some.injEq] at hv
            subst hv hrest
            have hok1 : TokOK (t :: rest2) := hok.tail
            obtain ⟨ux, cx, hux, hts, hax⟩ := pExpr_acc hok1.tail hr
            refine ⟨_, t0 :: t :: cx, unparseColumn_named (span_isValid hok1.head_le) hux,
              by rw [hts]; simp, ?_⟩
            exact accounts_cons (tokOk_identTok hk0)
              (accounts_cons (tokOk_sym hasg (hok1.head.symVal hasg)) hax)
          · simp at hv
      · simp at hnamed
    · simp at hnamed
  · generalize hr : pExpr c fuel ts = r at h
    obtain ⟨rv, re, rrest⟩ := r
    simp only [PRes.mk.injEq] at h
    obtain ⟨rfl, rfl, rfl⟩ := h
    obtain ⟨ux, cx, hux, hts, hax⟩ := pExpr_acc hok hr
    exact ⟨ux, cx, by simpa [unparseColumn] using hux, hts, hax⟩

theorem pExtendCols_acc (c : PCtx) (fuel : Nat) : ∀ (n : Nat) (acc : List Column) (ts : List Token)
    (l : List Column) (rest : List Token), TokOK ts → pExtendCols c fuel n acc ts = ⟨l, [], rest⟩ →
    ∃ more cons, l = acc ++ more ∧ ts = cons ++ rest ∧ AccItems (unparseColumn false) more cons := by
  intro n
  induction n with
  | zero => intro acc ts l rest _ h; simp [pExtendCols] at h
  | succ n ih =>
    intro acc ts l rest hok h
    unfold pExtendCols at h
    dsimp only at h
    generalize hr : pNamedColumn c fuel ts = r at h
    obtain ⟨rv, re, rrest⟩ := r
    dsimp only at h
    split at h
    · rename_i hne
      simp only [PRes.mk.injEq, mkOpaque_eq_nil] at h
      exact absurd h.2.1 hne
    · rename_i hre
      have hre' : re = [] := Classical.not_not.mp hre
      subst hre'
      obtain ⟨us, cons, hus, hts, ha⟩ := pNamedColumn_acc hok hr
      split at h
      · rename_i t rest1
        split at h
        · rename_i hcomma
          have hok1 : TokOK (t :: rest1) := hok.of_eq_append hts
          obtain ⟨more, cons', rfl, hr1, hi⟩ := ih _ _ _ _ hok1.tail h
          refine ⟨rv :: more, cons ++ t :: cons', by simp, by rw [hts, hr1]; simp, ?_⟩
          exact AccItems.cons hus ha hcomma (hok1.head.symVal hcomma) hi
        · simp only [PRes.mk.injEq, true_and] at h
          obtain ⟨rfl, rfl⟩ := h
          exact ⟨[rv], cons, rfl, hts, AccItems.single hus ha⟩
      · simp only [PRes.mk.injEq, true_and] at h
        obtain ⟨rfl, rfl⟩ := h
        exact ⟨[rv], cons, rfl, hts, AccItems.single hus ha⟩

theorem pIdent_cases {c : PCtx} {ts : List Token} {iv : Option Ident} {ie : Errs} {irest : List Token}
    (h : pIdent c ts = ⟨iv, ie, irest⟩) :
    (∃ t, ts = t :: irest ∧ (t.kind = .ident ∨ t.kind = .qident) ∧
      iv = some ⟨t.value, t.span, t.kind = .qident⟩ ∧ ie = []) ∨ (iv = none ∧ ie ≠ [] ∧ isNF ie = true ∧ irest = ts) := by
  unfold pIdent at h
  split at h
  · rename_i t rest0
    split at h
    · rename_i hk
      simp only [PRes.mk.injEq] at h
      obtain ⟨rfl, rfl, rfl⟩ := h
      exact Or.inl ⟨t, rfl, hk, rfl, rfl⟩
    · simp only [PRes.mk.injEq] at h
      obtain ⟨rfl, rfl, rfl⟩ := h
      exact Or.inr ⟨rfl, by simp, by simp, rfl⟩
  · simp only [PRes.mk.injEq] at h
    obtain ⟨rfl, rfl, rfl⟩ := h
    exact Or.inr ⟨rfl, by simp, by simp, rfl⟩

theorem unparseColumn_plain (n : Ident) : unparseColumn true ⟨some n, .null, .nil⟩ = some [identTok n] := by
  simp [unparseColumn]

theorem pProjectCols_acc (c : PCtx) (fuel : Nat) : ∀ (n : Nat) (acc : List Column) (ts : List Token)
    (l : List Column) (rest : List Token), TokOK ts → pProjectCols c fuel n acc ts = ⟨l, [], rest⟩ →
    ∃ more cons, l = acc ++ more ∧ ts = cons ++ rest ∧ AccItems (unparseColumn true) more cons := by
  intro n
  induction n with
  | zero => intro acc ts l rest _ h; simp [pProjectCols] at h
  | succ n ih =>
    intro acc ts l rest hok h
    unfold pProjectCols at h
    dsimp only at h
    generalize hi : pIdent c ts = ri at h
    obtain ⟨iv, ie, irest⟩ := ri
    dsimp only at h
    rcases pIdent_cases hi with ⟨t0, rfl, hk0, rfl, rfl⟩ | ⟨rfl, hie, -, -⟩
    · dsimp only at h
      have hplain : accounts true [identTok ⟨t0.value, t0.span, t0.kind = .qident⟩] [t0] = true :=
        accounts_single (tokOk_identTok hk0)
      split at h
      · simp only [PRes.mk.injEq, true_and] at h
        obtain ⟨rfl, rfl⟩ := h
        exact ⟨[_], [t0], rfl, rfl, AccItems.single (unparseColumn_plain _) hplain⟩
      · rename_i sep rest1
        split at h
        · rename_i hcomma
          obtain ⟨more, cons', rfl, hr1, hi'⟩ := ih _ _ _ _ hok.tail.tail h
          refine ⟨(⟨some ⟨t0.value, t0.span, t0.kind = .qident⟩, .null, .nil⟩ : Column) :: more,
            [t0] ++ sep :: cons', by simp, by rw [hr1]; simp, ?_⟩
          exact AccItems.cons (unparseColumn_plain _) hplain hcomma (hok.tail.head.symVal hcomma) hi'
        · split at h
          · rename_i hasg
            generalize hr : pExpr c fuel rest1 = r at h
            obtain ⟨rv, re, rrest⟩ := r
            dsimp only at h
            split at h
            · rename_i hne
              simp only [PRes.mk.injEq, mkOpaque_eq_nil] at h
              exact absurd h.2.1 hne
            · rename_i hre
              have hre' : re = [] := Classical.not_not.mp hre
              subst hre'
              obtain ⟨ux, cx, hux, hts, hax⟩ := pExpr_acc hok.tail.tail hr
              have hcol : unparseColumn true ⟨some ⟨t0.value, t0.span, t0.kind = .qident⟩, sep.span, rv⟩ = some _ :=
                unparseColumn_named (span_isValid hok.tail.head_le) hux
              have hacol : accounts true
                  (identTok ⟨t0.value, t0.span, t0.kind = .qident⟩ :: sym .assign sep.span :: ux)
                  (t0 :: sep :: cx) = true :=
                accounts_cons (tokOk_identTok hk0)
                  (accounts_cons (tokOk_sym hasg (hok.tail.head.symVal hasg)) hax)
              split at h
              · simp only [PRes.mk.injEq, true_and] at h
                obtain ⟨rfl, rfl⟩ := h
                exact ⟨[_], t0 :: sep :: cx, rfl, by rw [hts]; simp, AccItems.single hcol hacol⟩
              · rename_i sep2 rest2
                split at h
                · rename_i hcomma
                  have hok2 : TokOK (sep2 :: rest2) := hok.tail.tail.of_eq_append hts
                  obtain ⟨more, cons', rfl, hr1, hi'⟩ := ih _ _ _ _ hok2.tail h
                  refine ⟨(⟨some ⟨t0.value, t0.span, t0.kind = .qident⟩, sep.span, rv⟩ : Column) :: more,
                    (t0 :: sep :: cx) ++ sep2 :: cons', by simp,
                    by rw [hts, hr1]; simp, ?_⟩
                  exact AccItems.cons hcol hacol hcomma (hok2.head.symVal hcomma) hi'
                · simp at h
          · simp only [PRes.mk.injEq, true_and] at h
            obtain ⟨rfl, rfl⟩ := h
            exact ⟨[_], [t0], rfl, rfl, AccItems.single (unparseColumn_plain _) hplain⟩
    · simp only [PRes.mk.injEq, mkOpaque_eq_nil] at h
      exact absurd h.2.1 hie

theorem pGroupByCols_acc (c : PCtx) (fuel : Nat) : ∀ (n : Nat) (acc : List Column) (ts : List Token)
    (l : List Column) (rest : List Token), TokOK ts → pGroupByCols c fuel n acc ts = ⟨l, [], rest⟩ →
    ∃ more cons, l = acc ++ more ∧ ts = cons ++ rest ∧ AccItems (unparseColumn false) more cons := by
  intro n
  induction n with
  | zero => intro acc ts l rest _ h; simp [pGroupByCols] at h
  | succ n ih =>
    intro acc ts l rest hok h
    unfold pGroupByCols at h
    dsimp only at h
    generalize hr : pNamedColumn c fuel ts = r at h
    obtain ⟨rv, re, rrest⟩ := r
    dsimp only at h
    split at h
    · rename_i hnf
      simp only [PRes.mk.injEq, mkOpaque_eq_nil] at h
      obtain ⟨-, rfl, -⟩ := h
      simp at hnf
    · split at h
      · rename_i hne
        simp only [PRes.mk.injEq, mkOpaque_eq_nil] at h
        exact absurd h.2.1 hne
      · rename_i hre
        have hre' : re = [] := Classical.not_not.mp hre
        subst hre'
        obtain ⟨us, cons, hus, hts, ha⟩ := pNamedColumn_acc hok hr
        split at h
        · simp only [PRes.mk.injEq, true_and] at h
          obtain ⟨rfl, rfl⟩ := h
          exact ⟨[rv], cons, rfl, hts, AccItems.single hus ha⟩
        · rename_i t rest1
          split at h
          · rename_i hcomma
            have hok1 : TokOK (t :: rest1) := hok.of_eq_append hts
            obtain ⟨more, cons', rfl, hr1, hi⟩ := ih _ _ _ _ hok1.tail h
            refine ⟨rv :: more, cons ++ t :: cons', by simp, by rw [hts, hr1]; simp, ?_⟩
            exact AccItems.cons hus ha hcomma (hok1.head.symVal hcomma) hi
          · simp only [PRes.mk.injEq, true_and] at h
            obtain ⟨rfl, rfl⟩ := h
            exact ⟨[rv], cons, rfl, hts, AccItems.single hus ha⟩

/-- errors of the first summarize loop come with `done = true` -/
theorem pSummarizeCols_errs (c : PCtx) (fuel : Nat) : ∀ (n : Nat) (acc : List Column) (cm : Option Span)
    (ts : List Token), (pSummarizeCols c fuel n acc cm ts).val.done = false →
    (pSummarizeCols c fuel n acc cm ts).errs = [] := by
  intro n
  induction n with
  | zero => intro acc cm ts; simp [pSummarizeCols]
  | succ n ih =>
    intro acc cm ts
    unfold pSummarizeCols
    dsimp only
    split
    · intro _; rfl
    · split
      · simp
      · split
        · simp
        · split
          · exact ih _ _ _
          · intro _; rfl

theorem pSummarizeCols_acc (c : PCtx) (fuel : Nat) : ∀ (n : Nat) (acc : List Column) (cm : Option Span)
    (ts : List Token) (cols : List Column) (done : Bool) (cm' : Option Span) (rest : List Token),
    TokOK ts → pSummarizeCols c fuel n acc cm ts = ⟨⟨cols, done, cm'⟩, [], rest⟩ →
    (cols = acc ∧ done = false ∧ cm' = cm ∧ rest = ts) ∨
    (∃ more cons, cols = acc ++ more ∧ AccItems (unparseColumn false) more cons ∧
      ((cm' = none ∧ ts = cons ++ rest) ∨
       (done = false ∧ ∃ t, t.kind = .comma ∧ t.value = [] ∧ cm' = some t.span ∧ ts = cons ++ t :: rest))) := by
  intro n
  induction n with
  | zero => intro acc cm ts cols done cm' rest _ h; simp [pSummarizeCols] at h
  | succ n ih =>
    intro acc cm ts cols done cm' rest hok h
    unfold pSummarizeCols at h
    dsimp only at h
    generalize hr : pNamedColumn c fuel ts = r at h
    obtain ⟨rv, re, rrest⟩ := r
    dsimp only at h
    split at h
    · simp only [PRes.mk.injEq, SumCols.mk.injEq, true_and] at h
      obtain ⟨⟨rfl, rfl, rfl⟩, rfl⟩ := h
      exact Or.inl ⟨rfl, rfl, rfl, rfl⟩
    · split at h
      · rename_i hne
        simp only [PRes.mk.injEq, mkOpaque_eq_nil] at h
        exact absurd h.2.1 hne
      · rename_i hre
        have hre' : re = [] := Classical.not_not.mp hre
        subst hre'
        obtain ⟨us, cons, hus, hts, ha⟩ := pNamedColumn_acc hok hr
        right
        split at h
        · simp only [PRes.mk.injEq, SumCols.mk.injEq, true_and] at h
          obtain ⟨⟨rfl, rfl, rfl⟩, rfl⟩ := h
          exact ⟨[rv], cons, rfl, AccItems.single hus ha, Or.inl ⟨rfl, hts⟩⟩
        · rename_i t rest1
          split at h
          · rename_i hcomma
            have hok1 : TokOK (t :: rest1) := hok.of_eq_append hts
            have hv := hok1.head.symVal hcomma
            rcases ih _ _ _ _ _ _ _ hok1.tail h with ⟨rfl, rfl, rfl, rfl⟩ | ⟨more, cons', rfl, hi, halt⟩
            · exact ⟨[rv], cons, rfl, AccItems.single hus ha, Or.inr ⟨rfl, t, hcomma, hv, rfl, hts⟩⟩
            · refine ⟨rv :: more, cons ++ t :: cons', by simp, AccItems.cons hus ha hcomma hv hi, ?_⟩
              rcases halt with ⟨rfl, hr1⟩ | ⟨rfl, t', hk', hv', rfl, hr1⟩
              · exact Or.inl ⟨rfl, by rw [hts, hr1]; simp⟩
              · exact Or.inr ⟨rfl, t', hk', hv', rfl, by rw [hts, hr1]; simp⟩
          · simp only [PRes.mk.injEq, SumCols.mk.injEq, true_and] at h
            obtain ⟨⟨rfl, rfl, rfl⟩, rfl⟩ := h
            exact ⟨[rv], cons, rfl, AccItems.single hus ha, Or.inl ⟨rfl, hts⟩⟩

theorem pRowCount_acc {c : PCtx} {fuel : Nat} {ts : List Token} {e : Expr} {rest : List Token}
    (h : pRowCount c fuel ts = ⟨e, [], rest⟩) : pExpr c fuel ts = ⟨e, [], rest⟩ := by
  unfold pRowCount at h
  dsimp only at h
  generalize hr : pExpr c fuel ts = r at h
  obtain ⟨rv, re, rrest⟩ := r
  dsimp only at h
  split at h
  · exact h
  · split at h
    · split at h
      · exact h
      · simp at h
    · exact h

/-! ### `unparseOp` equations -/

theorem isEmpty_false_of_ne {α} {l : List α} (h : l ≠ []) : l.isEmpty = false := by
  cases l with
  | nil => exact absurd rfl h
  | cons a as => rfl

theorem unparse_count (p k : Span) : unparseOp (.count p k) = some [sym .pipe p, kwTok ["count"] k] := by
  simp [unparseOp]

theorem unparse_where {e : Expr} {xs : List UTok} (p k : Span) (h : unparseExpr e = some xs) :
    unparseOp (.where_ p k e) = some (sym .pipe p :: kwTok ["where", "filter"] k :: xs) := by
  simp [unparseOp, h]

theorem unparse_take {e : Expr} {xs : List UTok} (p k : Span) (h : unparseExpr e = some xs) :
    unparseOp (.take p k e) = some (sym .pipe p :: kwTok ["take", "limit"] k :: xs) := by
  simp [unparseOp, h]

theorem unparse_sort {ts : List SortTerm} {tss : List (List UTok)} (p k : Span) (hne : ts ≠ [])
    (h : listM unparseSortTerm ts = some tss) :
    unparseOp (.sort p k ts) = some (sym .pipe p :: { kwPlain ["sort", "order"] with start := some k.start } ::
      { kind := .by_, stop := some k.stop } :: sepBy commaTok tss) := by
  simp [unparseOp, h, isEmpty_false_of_ne hne]

theorem unparse_top {n : Expr} {col : SortTerm} {xs cs : List UTok} (p k b : Span)
    (hn : unparseExpr n = some xs) (hc : unparseSortTerm col = some cs) :
    unparseOp (.top p k n b (some col)) = some (sym .pipe p :: kwTok ["top"] k :: xs ++ sym .by_ b :: cs) := by
  simp [unparseOp, hn, hc]

theorem unparse_project {cs : List Column} {css : List (List UTok)} (p k : Span) (hne : cs ≠ [])
    (h : listM (unparseColumn true) cs = some css) :
    unparseOp (.project p k cs) = some (sym .pipe p :: kwTok ["project"] k :: sepBy commaTok css) := by
  simp [unparseOp, h, isEmpty_false_of_ne hne]

theorem unparse_extend {cs : List Column} {css : List (List UTok)} (p k : Span) (hne : cs ≠ [])
    (h : listM (unparseColumn false) cs = some css) :
    unparseOp (.extend p k cs) = some (sym .pipe p :: kwTok ["extend"] k :: sepBy commaTok css) := by
  simp [unparseOp, h, isEmpty_false_of_ne hne]

theorem unparse_summarize_noby {cs : List Column} {css : List (List UTok)} (p k : Span) (hne : cs ≠ [])
    (h : listM (unparseColumn false) cs = some css) :
    unparseOp (.summarize p k cs .null []) =
      some (sym .pipe p :: kwTok ["summarize"] k :: sepBy commaTok css) := by
  simp [unparseOp, h, isEmpty_false_of_ne hne, listM]

theorem unparse_summarize_by {cs gs : List Column} {css gss : List (List UTok)} (p k b : Span)
    (hb : b.isValid = true) (hne : gs ≠ [])
    (h : listM (unparseColumn false) cs = some css) (hg : listM (unparseColumn false) gs = some gss) :
    unparseOp (.summarize p k cs b gs) =
      some (sym .pipe p :: kwTok ["summarize"] k :: sepBy commaTok css ++
        { sym .by_ b with optComma := !cs.isEmpty } :: sepBy commaTok gss) := by
  simp [unparseOp, h, hg, hb, isEmpty_false_of_ne hne]

theorem unparse_as (p k : Span) (n : Ident) :
    unparseOp (.as_ p k (some n)) = some [sym .pipe p, kwTok ["as"] k, identTok n] := by
  simp [unparseOp]

theorem unparse_render_plain (p k : Span) (ch : Ident) :
    unparseOp (.render p k (some ch) .null .null [] .null) =
      some [sym .pipe p, kwTok ["render"] k, identTok ch] := by
  simp [unparseOp, listM]

theorem unparse_render_with {props : List RenderProp} {pss : List (List UTok)} (p k w lp rp : Span) (ch : Ident)
    (hw : w.isValid = true) (hne : props ≠ []) (h : listM unparseProp props = some pss) :
    unparseOp (.render p k (some ch) w lp props rp) =
      some (sym .pipe p :: kwTok ["render"] k :: identTok ch :: kwTok ["with"] w :: sym .lparen lp ::
        sepBy commaTok pss ++ [sym .rparen rp]) := by
  simp [unparseOp, h, hw, isEmpty_false_of_ne hne]

theorem exprList_length_ne {l : ExprList} (h : l ≠ .nil) : ¬ (l.length = 0) := by
  cases l with
  | nil => exact absurd rfl h
  | cons e es => simp [ExprList.length]

theorem unparse_join_plain {right : Tabular} {conds : ExprList} {r cs : List UTok} (p k lp rp on : Span)
    (hr : unparseTabular right = some r) (hc : unparseExprList conds = some cs) (hne : conds ≠ .nil) :
    unparseOp (.join p k .null .null none lp right rp on conds) =
      some (sym .pipe p :: kwTok ["join"] k :: sym .lparen lp :: r ++ sym .rparen rp :: kwTok ["on"] on :: cs) := by
  simp [unparseOp, hr, hc, exprList_length_ne hne]

theorem unparse_join_kind {right : Tabular} {conds : ExprList} {r cs : List UTok} (p k kind ka lp rp on : Span)
    (f : Ident)
    (hr : unparseTabular right = some r) (hc : unparseExprList conds = some cs) (hne : conds ≠ .nil) :
    unparseOp (.join p k kind ka (some f) lp right rp on conds) =
      some (sym .pipe p :: kwTok ["join"] k :: kwTok ["kind"] kind :: sym .assign ka :: identTok f ::
        sym .lparen lp :: r ++ sym .rparen rp :: kwTok ["on"] on :: cs) := by
  simp [unparseOp, hr, hc, exprList_length_ne hne]

/-- an operator (after `| name`) succeeded on `ts`: the pipe, the name and what it consumed of `ts`
    are accounted for by the operator node -/
def OpAcc (pipeTok name : Token) (ts : List Token) (op : Op) (rest : List Token) : Prop :=
  ∃ us cons, unparseOp op = some us ∧ ts = cons ++ rest ∧ accounts true us (pipeTok :: name :: cons) = true

/-- the two leading tokens `| name` -/
theorem opAcc_intro {pipeTok name : Token} {ts : List Token} {op : Op} {rest : List Token}
    {names : List String} {body : List UTok} {cons : List Token}
    (hok : TokOK (pipeTok :: name :: ts)) (hp : pipeTok.kind = .pipe) (hk : name.kind = .ident)
    (hv : name.value ∈ names.map Bytes.ofString)
    (hu : unparseOp op = some (sym .pipe pipeTok.span :: kwTok names name.span :: body))
    (hts : ts = cons ++ rest) (ha : accounts true body cons = true) : OpAcc pipeTok name ts op rest :=
  ⟨_, cons, hu, hts, accounts_cons (tokOk_sym hp (hok.head.symVal hp)) (accounts_cons (tokOk_kwTok hk hv) ha)⟩

/-! ### summarize -/

theorem pSummarize_acc {c : PCtx} {fuel : Nat} {pipeTok name : Token} {ts : List Token} {op : Op}
    {rest : List Token} (hok : TokOK (pipeTok :: name :: ts)) (hp : pipeTok.kind = .pipe)
    (hk : name.kind = .ident) (hv : name.value = Bytes.ofString "summarize")
    (h : pSummarize c fuel pipeTok.span name.span ts = ⟨op, [], rest⟩) : OpAcc pipeTok name ts op rest := by
  have hvm : name.value ∈ ["summarize"].map Bytes.ofString := by simp [hv]
  have hokt : TokOK ts := hok.tail.tail
  unfold pSummarize at h
  dsimp only at h
  generalize h1 : pSummarizeCols c fuel (ts.length + 1) [] none ts = r1 at h
  obtain ⟨⟨cols, done, cm'⟩, e1, rest1⟩ := r1
  dsimp only at h
  -- without `by`: the columns are all there is
  have noBy : ∀ (rest' : List Token), e1 = [] → rest1 = rest' → cols.isEmpty = false → cm' = none →
      OpAcc pipeTok name ts (.summarize pipeTok.span name.span cols .null []) rest' := by
    intro rest' he hrest hcols hcm
    subst he hrest hcm
    rcases pSummarizeCols_acc c fuel _ _ _ _ _ _ _ _ hokt h1 with ⟨rfl, -, -, -⟩ | ⟨more, cons, rfl, hi, halt⟩
    · simp at hcols
    · obtain ⟨hne, us, hus, hacc⟩ := hi
      rcases halt with ⟨-, hts⟩ | ⟨-, t, -, -, hcm, -⟩
      · exact opAcc_intro hok hp hk hvm
          (unparse_summarize_noby _ _ (by simpa using hne) (by simpa using hus)) hts hacc
      · simp at hcm
  split at h
  · rename_i hdone
    simp only [PRes.mk.injEq] at h
    obtain ⟨rfl, rfl, rfl⟩ := h
    subst hdone
    rcases pSummarizeCols_acc c fuel _ _ _ _ _ _ _ _ hokt h1 with ⟨-, hd, -, -⟩ | ⟨more, cons, rfl, hi, halt⟩
    · simp at hd
    · obtain ⟨hne, us, hus, hacc⟩ := hi
      rcases halt with ⟨-, hts⟩ | ⟨hd, -⟩
      · exact opAcc_intro hok hp hk hvm
          (unparse_summarize_noby _ _ (by simpa using hne) (by simpa using hus)) hts hacc
      · simp at hd
  · rename_i hdone
    have hdone' : done = false := by simpa using hdone
    subst hdone'
    have he1 : e1 = [] := by
      have := pSummarizeCols_errs c fuel (ts.length + 1) [] none ts (by rw [h1])
      rw [h1] at this; exact this
    split at h
    · split at h
      · simp at h
      · rename_i hcols
        split at h
        · simp at h
        · simp only [PRes.mk.injEq, true_and] at h
          obtain ⟨rfl, rfl⟩ := h
          exact noBy _ he1 rfl (by simpa using hcols) rfl
    · rename_i sep rest2
      split at h
      · split at h
        · simp at h
        · rename_i hcols
          split at h
          · simp at h
          · simp only [PRes.mk.injEq, true_and] at h
            obtain ⟨rfl, rfl⟩ := h
            exact noBy _ he1 rfl (by simpa using hcols) rfl
      · rename_i hby
        have hby' : sep.kind = .by_ := Classical.not_not.mp hby
        generalize h2 : pGroupByCols c fuel (rest2.length + 1) [] rest2 = r2 at h
        obtain ⟨gs, e2, grest⟩ := r2
        simp only [PRes.mk.injEq] at h
        obtain ⟨rfl, rfl, rfl⟩ := h
        subst he1
        rcases pSummarizeCols_acc c fuel _ _ _ _ _ _ _ _ hokt h1 with
          ⟨rfl, -, -, hts⟩ | ⟨more, cons, rfl, ⟨hne, us, hus, hacc⟩, halt⟩
        · -- no aggregate columns
          subst hts
          obtain ⟨gmore, gcons, rfl, hgts, hgne, gus, hgus, hgacc⟩ :=
            pGroupByCols_acc c fuel _ _ _ _ _ hokt.tail h2
          have hu := unparse_summarize_by (cs := []) pipeTok.span name.span sep.span
            (span_isValid hokt.head_le) (by simpa using hgne) (listM_nil _) (by simpa using hgus)
          refine opAcc_intro (cons := sep :: gcons) hok hp hk hvm hu (by rw [hgts]; simp) ?_
          simp only [sepBy]
          exact accounts_cons (tokOk_symOpt hby' (hokt.head.symVal hby') _) hgacc
        · rcases halt with ⟨-, hts⟩ | ⟨-, t, htk, htv, -, hts⟩
          · have hoks : TokOK (sep :: rest2) := hokt.of_eq_append hts
            obtain ⟨gmore, gcons, rfl, hgts, hgne, gus, hgus, hgacc⟩ :=
              pGroupByCols_acc c fuel _ _ _ _ _ hoks.tail h2
            have hu := unparse_summarize_by pipeTok.span name.span sep.span
              (span_isValid hoks.head_le) (by simpa using hgne) (by simpa using hus) (by simpa using hgus)
            refine opAcc_intro (cons := cons ++ sep :: gcons) hok hp hk hvm hu (by rw [hts, hgts]; simp) ?_
            exact accounts_append hacc (accounts_cons (tokOk_symOpt hby' (hoks.head.symVal hby') _) hgacc)
          · have hoks : TokOK (sep :: rest2) := (hokt.of_eq_append hts).tail
            obtain ⟨gmore, gcons, rfl, hgts, hgne, gus, hgus, hgacc⟩ :=
              pGroupByCols_acc c fuel _ _ _ _ _ hoks.tail h2
            have hu := unparse_summarize_by pipeTok.span name.span sep.span
              (span_isValid hoks.head_le) (by simpa using hgne) (by simpa using hus) (by simpa using hgus)
            refine opAcc_intro (cons := cons ++ t :: sep :: gcons) hok hp hk hvm hu
              (by rw [hts, hgts]; simp) ?_
            have hopt : (!cols.isEmpty) = true := by
              simp [isEmpty_false_of_ne hne]
            exact accounts_append hacc (accounts_optComma (by simpa using hopt) (by simp [sym]) htk
              (tokOk_symOpt hby' (hoks.head.symVal hby') _) hgacc)

/-! ### render -/

theorem unparseProp_eq {n : Ident} {asg : Span} {x : Expr} {xs : List UTok} (hx : unparseExpr x = some xs) :
    unparseProp ⟨some n, asg, x⟩ = some (identTok n :: sym .assign asg :: xs) := by
  simp [unparseProp, hx]

theorem pRenderProp_acc {c : PCtx} {fuel : Nat} {ts : List Token} {v : Option RenderProp} {rest : List Token}
    (hok : TokOK ts) (h : pRenderProp c fuel ts = ⟨v, [], rest⟩) :
    ∃ prop us cons, v = some prop ∧ unparseProp prop = some us ∧ ts = cons ++ rest ∧
      accounts true us cons = true := by
  unfold pRenderProp at h
  dsimp only at h
  generalize hi : pIdent c ts = ri at h
  obtain ⟨iv, ie, irest⟩ := ri
  dsimp only at h
  rcases pIdent_cases hi with ⟨t0, rfl, hk0, rfl, rfl⟩ | ⟨rfl, hie, -, -⟩
  · dsimp only at h
    split at h
    · simp at h
    · rename_i t rest1
      split at h
      · simp at h
      · rename_i hasg
        have hasg' : t.kind = .assign := Classical.not_not.mp hasg
        generalize hr : pExpr c fuel rest1 = r at h
        obtain ⟨rv, re, rrest⟩ := r
        dsimp only at h
        split at h
        · rename_i hne
          simp only [PRes.mk.injEq] at h
          exact absurd h.2.1 hne
        · simp only [PRes.mk.injEq, true_and] at h
          obtain ⟨rfl, rfl⟩ := h
          rename_i hre
          have hre' : re = [] := Classical.not_not.mp hre
          subst hre'
          obtain ⟨ux, cx, hux, hts, hax⟩ := pExpr_acc hok.tail.tail hr
          refine ⟨_, _, t0 :: t :: cx, rfl, unparseProp_eq hux, by rw [hts]; simp, ?_⟩
          exact accounts_cons (tokOk_identTok hk0)
            (accounts_cons (tokOk_sym hasg' (hok.tail.head.symVal hasg')) hax)
  · simp only [PRes.mk.injEq] at h
    exact absurd h.2.1 hie

theorem pRenderProps_acc (c : PCtx) (fuel : Nat) : ∀ (n : Nat) (acc : List RenderProp) (ts : List Token)
    (l : List RenderProp) (rp : Span) (rest : List Token), TokOK ts →
    pRenderProps c fuel n acc ts = ⟨(l, rp), [], rest⟩ →
    ∃ more cons t, l = acc ++ more ∧ ts = cons ++ t :: rest ∧ t.kind = .rparen ∧ rp = t.span ∧
      t.value = [] ∧ AccItems unparseProp more cons := by
  intro n
  induction n with
  | zero => intro acc ts l rp rest _ h; simp [pRenderProps] at h
  | succ n ih =>
    intro acc ts l rp rest hok h
    unfold pRenderProps at h
    dsimp only at h
    generalize hr : pRenderProp c fuel ts = r at h
    obtain ⟨rv, re, rrest⟩ := r
    dsimp only at h
    split at h
    · rename_i hne
      simp only [PRes.mk.injEq, mkOpaque_eq_nil] at h
      exact absurd h.2.1 hne
    · rename_i hre
      have hre' : re = [] := Classical.not_not.mp hre
      subst hre'
      obtain ⟨prop, us, cons, rfl, hus, hts, ha⟩ := pRenderProp_acc hok hr
      dsimp only at h
      split at h
      · simp at h
      · rename_i t rest1
        have hok1 : TokOK (t :: rest1) := hok.of_eq_append hts
        split at h
        · rename_i hrp
          simp only [PRes.mk.injEq, Prod.mk.injEq, true_and] at h
          obtain ⟨⟨rfl, rfl⟩, rfl⟩ := h
          exact ⟨[prop], cons, t, rfl, hts, hrp, rfl, hok1.head.symVal hrp, AccItems.single hus ha⟩
        · split at h
          · simp at h
          · rename_i hcomma
            have hcomma' : t.kind = .comma := Classical.not_not.mp hcomma
            obtain ⟨more, cons', t', rfl, hr1, hk', hrp', hv', hi⟩ := ih _ _ _ _ _ hok1.tail h
            refine ⟨prop :: more, cons ++ t :: cons', t', by simp, by rw [hts, hr1]; simp, hk', hrp', hv', ?_⟩
            exact AccItems.cons hus ha hcomma' (hok1.head.symVal hcomma') hi

theorem pRender_acc {c : PCtx} {fuel : Nat} {pipeTok name : Token} {ts : List Token} {op : Op}
    {rest : List Token} (hok : TokOK (pipeTok :: name :: ts)) (hp : pipeTok.kind = .pipe)
    (hk : name.kind = .ident) (hv : name.value = Bytes.ofString "render")
    (h : pRender c fuel pipeTok.span name.span ts = ⟨op, [], rest⟩) : OpAcc pipeTok name ts op rest := by
  have hvm : name.value ∈ ["render"].map Bytes.ofString := by simp [hv]
  have hokt : TokOK ts := hok.tail.tail
  unfold pRender at h
  dsimp only at h
  generalize hi : pIdent c ts = ri at h
  obtain ⟨iv, ie, irest⟩ := ri
  dsimp only at h
  rcases pIdent_cases hi with ⟨t0, rfl, hk0, rfl, rfl⟩ | ⟨rfl, hie, -, -⟩
  · dsimp only at h
    have hplain : OpAcc pipeTok name (t0 :: irest)
        (.render pipeTok.span name.span (some ⟨t0.value, t0.span, t0.kind = .qident⟩) .null .null [] .null) irest :=
      opAcc_intro (cons := [t0]) hok hp hk hvm (unparse_render_plain _ _ _) rfl
        (accounts_single (tokOk_identTok hk0))
    split at h
    · simp only [PRes.mk.injEq, true_and] at h
      obtain ⟨rfl, rfl⟩ := h
      exact hplain
    · rename_i t rest1
      split at h
      · simp only [PRes.mk.injEq, true_and] at h
        obtain ⟨rfl, rfl⟩ := h
        exact hplain
      · rename_i hwith
        have hwith' : isIdentNamed t "with" = true := by simpa using hwith
        obtain ⟨hkw, hvw⟩ := isIdentNamed_iff.mp hwith'
        split at h
        · simp at h
        · rename_i lp rest2
          split at h
          · simp at h
          · rename_i hlp
            have hlp' : lp.kind = .lparen := Classical.not_not.mp hlp
            generalize hr : pRenderProps c fuel (rest2.length + 1) [] rest2 = r at h
            obtain ⟨⟨l, rp⟩, re, rrest⟩ := r
            simp only [PRes.mk.injEq] at h
            obtain ⟨rfl, rfl, rfl⟩ := h
            have hok1 : TokOK (t :: lp :: rest2) := hokt.tail
            obtain ⟨more, cons, t', rfl, hr1, hk', rfl, hv', hne, us, hus, hacc⟩ :=
              pRenderProps_acc c fuel _ _ _ _ _ _ hok1.tail.tail hr
            have hu := unparse_render_with pipeTok.span name.span t.span lp.span t'.span
              ⟨t0.value, t0.span, t0.kind = .qident⟩ (span_isValid hok1.head_le)
              (by simpa using hne) (by simpa using hus)
            refine opAcc_intro (cons := t0 :: t :: lp :: (cons ++ [t'])) hok hp hk hvm hu
              (by rw [hr1]; simp) ?_
            exact accounts_cons (tokOk_identTok hk0)
              (accounts_cons (tokOk_kwTok hkw (by simp [hvw]))
                (accounts_cons (tokOk_sym hlp' (hok1.tail.head.symVal hlp'))
                  (accounts_append hacc (accounts_single (tokOk_sym hk' hv')))))
  · simp at h

end Pql
