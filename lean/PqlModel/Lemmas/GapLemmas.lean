/-
Lemmas for the "gaps are trivia" part of property C09:

* which steps of `scanOne` emit no token (`scanOne_none_cases`): a non-ASCII white-space rune,
  an ASCII white-space byte, or a `//` comment;
* the shape of a comment body (`commentLen_spec`);
* bounds of the tokens of `scanFrom`, and the scan of the suffix after a token
  (`scanFrom_suffix`).
-/
import PqlModel.Lemmas.LexReach
namespace Pql

/-! ### comments -/

/-- the bytes `commentLen` covers: a newline-free body followed by the newline, or a newline-free
    body that runs to the end of the input -/
theorem commentLen_spec (t : Bytes) :
    ∃ body, (∀ b ∈ body, b ≠ 10) ∧
      ((t.take (commentLen t) = body ++ [10]) ∨
       (t.take (commentLen t) = body ∧ t.drop (commentLen t) = [])) := by
  induction t with
  | nil => exact ⟨[], by simp, Or.inr ⟨by simp [commentLen], by simp [commentLen]⟩⟩
  | cons c rest ih =>
    by_cases hc : (c == 10) = true
    · refine ⟨[], by simp, Or.inl ?_⟩
      have : c = 10 := by simpa using hc
      simp [commentLen, this]
    · obtain ⟨body, hb, hor⟩ := ih
      have hne : c ≠ 10 := by simpa using hc
      refine ⟨c :: body, ?_, ?_⟩
      · intro b hbm
        rcases List.mem_cons.mp hbm with rfl | hbm
        · exact hne
        · exact hb b hbm
      · simp only [commentLen, hc, Bool.false_eq_true, if_false, List.take_succ_cons,
          List.drop_succ_cons, List.cons_append]
        rcases hor with h | ⟨h1, h2⟩
        · exact Or.inl (by rw [h])
        · exact Or.inr ⟨by rw [h1], h2⟩

/-! ### the steps that emit no token -/

theorem scanPunct_none (c : UInt8) (rest : Bytes) (h : (scanPunct c rest).tok = none) :
    c = 47 ∧ ∃ t, rest = 47 :: t ∧ (scanPunct c rest).width = commentLen t + 2 := by
  unfold scanPunct at h
  split at h
  · simp [Step.sym] at h
  · rename_i hk
    simp only [Step.sym, Step.skip] at h
    by_cases h61 : (c == 61) = true
    · rw [if_pos h61] at h; repeat' split at h
      all_goals simp at h
    rw [if_neg h61] at h
    by_cases h33 : (c == 33) = true
    · rw [if_pos h33] at h; repeat' split at h
      all_goals simp at h
    rw [if_neg h33] at h
    by_cases h60 : (c == 60) = true
    · rw [if_pos h60] at h; repeat' split at h
      all_goals simp at h
    rw [if_neg h60] at h
    by_cases h62 : (c == 62) = true
    · rw [if_pos h62] at h; repeat' split at h
      all_goals simp at h
    rw [if_neg h62] at h
    by_cases h47 : (c == 47) = true
    · rw [if_pos h47] at h
      have hc : c = 47 := by simpa using h47
      subst hc
      by_cases hd : (rest.head? == some 47) = true
      · cases rest with
        | nil => simp at hd
        | cons d t =>
          have hd : d = 47 := by simpa using hd
          subst hd
          refine ⟨rfl, t, rfl, ?_⟩
          simp [scanPunct, singleKind, Step.skip]
      · rw [if_neg hd] at h; simp at h
    · rw [if_neg h47] at h; simp at h

/-- **Which steps emit no token.** -/
theorem scanOne_none_cases (c : UInt8) (rest : Bytes) (h : (scanOne (c :: rest)).tok = none) :
    (128 ≤ c.toNat ∧ isSpaceRune (decodeRune (c :: rest)).1 = true ∧
        (scanOne (c :: rest)).width = (decodeRune (c :: rest)).2) ∨
    (c.toNat < 128 ∧ isAsciiSpace c = true ∧ (scanOne (c :: rest)).width = 1) ∨
    (c = 47 ∧ ∃ t, rest = 47 :: t ∧ (scanOne (c :: rest)).width = commentLen t + 2) := by
  unfold scanOne at h ⊢
  simp only at h ⊢
  by_cases h1 : 128 ≤ c.toNat
  · rw [if_pos h1] at h ⊢
    refine Or.inl ⟨h1, ?_⟩
    unfold scanNonAscii at h ⊢
    simp only [Step.skip, Step.sym] at h ⊢
    split at h
    · rename_i hs
      simp only [hs, if_true, and_self]
    · simp at h
  rw [if_neg h1] at h ⊢
  by_cases h2 : isAsciiSpace c = true
  · rw [if_pos h2]
    exact Or.inr (Or.inl ⟨by omega, h2, rfl⟩)
  rw [if_neg h2] at h ⊢
  by_cases h3 : isIdentStart c = true
  · rw [if_pos h3] at h; simp [Step.ofLexeme] at h
  rw [if_neg h3] at h ⊢
  by_cases h4 : (isDigit c || c == 46) = true
  · rw [if_pos h4] at h; simp [Step.ofLexeme] at h
  rw [if_neg h4] at h ⊢
  by_cases h5 : (c == 34 || c == 39) = true
  · rw [if_pos h5] at h; simp [Step.ofLexeme] at h
  rw [if_neg h5] at h ⊢
  by_cases h6 : (c == 96) = true
  · rw [if_pos h6] at h; simp [Step.ofLexeme] at h
  rw [if_neg h6] at h ⊢
  exact Or.inr (Or.inr (scanPunct_none c rest h))

/-- an ASCII white-space byte is a white-space rune -/
theorem isSpaceRune_of_isAsciiSpace (c : UInt8) (h : isAsciiSpace c = true) :
    isSpaceRune c.toNat = true := by
  simp only [isAsciiSpace, Bool.or_eq_true, beq_iff_eq] at h
  rcases h with ((((h | h) | h) | h) | h) | h <;> subst h <;> decide

/-- decoding the bytes of the first rune alone gives the same rune -/
theorem decodeRune_take_self (s : Bytes) :
    decodeRune (s.take (decodeRune s).2) = decodeRune s := by
  have hle := decodeRune_width_le s
  have := decodeRune_append (s.take (decodeRune s).2) (s.drop (decodeRune s).2)
  rw [List.take_append_drop] at this
  exact (this (by rw [List.length_take]; omega)).symm

/-! ### tokens of `scanFrom`: bounds, and the scan after a token -/

theorem mem_scanFrom_bounds (s : Bytes) (off : Nat) (t : Token) (h : t ∈ scanFrom s off) :
    off ≤ t.start ∧ t.start < t.stop ∧ t.stop ≤ off + s.length := by
  obtain ⟨n, h1, _, h3, h4, h5⟩ := reaches_of_mem s off t h
  have hne : s.drop n ≠ [] := by
    intro h0
    have := congrArg List.length h0
    simp at this; omega
  have hpos := scanOne_width_pos' hne
  have hle := scanOne_width_le (s.drop n)
  simp only [List.length_drop] at hle
  omega

/-- what `scanFrom` returns after a token is the scan of the suffix that starts where the token
    stops -/
theorem scanFrom_suffix (s : Bytes) (off : Nat) :
    ∀ (pre : List Token) (t : Token) (post : List Token), scanFrom s off = pre ++ t :: post →
      scanFrom (s.drop (t.stop - off)) t.stop = post := by
  induction hn : s.length using Nat.strongRecOn generalizing s off with
  | _ n ih =>
    subst hn
    intro pre t post h
    by_cases hs : s = []
    · subst hs; simp [scanFrom_nil] at h
    · have hpos := scanOne_width_pos' hs
      have hle := scanOne_width_le s
      have hstep := scanFrom_step hs off
      -- the tail of the scan satisfies the statement by induction
      have htl : ∀ pre', scanFrom (s.drop (scanOne s).width) (off + (scanOne s).width) =
          pre' ++ t :: post → scanFrom (s.drop (t.stop - off)) t.stop = post := by
        intro pre' h'
        have hb := mem_scanFrom_bounds _ _ t (by rw [h']; simp)
        have := ih (s.drop (scanOne s).width).length (by simp only [List.length_drop]; omega)
          _ _ rfl pre' t post h'
        rw [List.drop_drop] at this
        have e : (scanOne s).width + (t.stop - (off + (scanOne s).width)) = t.stop - off := by omega
        rwa [e] at this
      rw [hstep] at h
      unfold Step.toks at h
      split at h
      · rename_i k v hk
        cases pre with
        | nil =>
          simp only [List.cons_append, List.nil_append, List.cons.injEq] at h
          obtain ⟨rfl, h⟩ := h
          simp only
          rw [Nat.add_sub_cancel_left]
          exact h
        | cons p pre' =>
          simp only [List.cons_append, List.nil_append, List.cons.injEq] at h
          exact htl pre' h.2
      · simp only [List.nil_append] at h
        exact htl pre h

end Pql
