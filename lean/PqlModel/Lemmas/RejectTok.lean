/-
C08, second sentence — part 5: from an error-free parse to the token classes of every statement
piece, and what the classes say about the source tokens.
-/
import PqlModel.Lemmas.RejectOps
import PqlModel.Props.C08Full
namespace Pql.Reject
open Pql Pql.Grammar

/-- the statement pieces of a source: the non-empty token groups between semicolon tokens -/
def pieces (src : Bytes) : List (List Token) := splitStatementsToks (scan src)

theorem forall₂_right {α β : Type} {R : α → β → Prop} {l₁ : List α} {l₂ : List β}
    (h : Forall₂ R l₁ l₂) : ∀ y ∈ l₂, ∃ x ∈ l₁, R x y := by
  induction h with
  | nil => intro y hy; cases hy
  | @cons a c l₁ l₂ hab _ ih =>
    intro y hy
    rcases List.mem_cons.1 hy with rfl | hy
    · exact ⟨a, by simp, hab⟩
    · obtain ⟨x, hx, hr⟩ := ih y hy
      exact ⟨x, List.mem_cons_of_mem _ hx, hr⟩

/-- **every piece of an accepted source is the `unparse` of one statement of the result**, and the
    classes of that `unparse` are those of a statement (`stmt_good`) -/
theorem accepted_piece (src : Bytes) (h : (parse src).2 = []) : ∀ g ∈ pieces src,
    ∃ st ∈ (parse src).1, ∃ us, unparseStmt st = some us ∧ accounts true us g = true ∧ Acc us g ∧
      Good FS LO us := by
  have hp : parse src = ((parse src).1, []) := by rw [← h]
  have hacc := C08.C08_accounted_parse src _ hp
  have hall := parseTokens_all (E := EOK) (EL := LOK) (fun _ _ _ he => ParsedOK.pExpr_sOK he)
    (fun _ _ _ he => ParsedOK.pExprList_sOK he) (srcLen := src.length) (ts := scan src) hp
  intro g hg
  obtain ⟨st, hst, us, hus, ha⟩ := forall₂_right hacc g hg
  exact ⟨st, hst, us, hus, ha, acc_of_accounts true us g ha, stmt_good st us (hall st hst) hus⟩

/-! ### every token other than a semicolon lies in a piece -/

theorem go_mem (t : Token) (ht : t.kind ≠ .semi) : ∀ (ts cur : List Token), t ∈ cur.reverse ++ ts →
    ∃ g ∈ splitStatementsToks.go ts cur, t ∈ g
  | [], cur, h => by
    rw [go_nil]
    simp only [List.append_nil, List.mem_reverse] at h
    cases cur with
    | nil => cases h
    | cons c cs => exact ⟨(c :: cs).reverse, by simp, by simp only [List.mem_reverse]; exact h⟩
  | x :: rest, cur, h => by
    rw [go_cons]
    split
    · next hx =>
      simp only [beq_iff_eq] at hx
      simp only [List.mem_append, List.mem_reverse, List.mem_cons] at h
      rcases h with h | rfl | h
      · cases cur with
        | nil => cases h
        | cons c cs =>
          simp only [List.isEmpty_cons, Bool.false_eq_true, if_false]
          exact ⟨(c :: cs).reverse, by simp, by simp only [List.mem_reverse]; exact h⟩
      · exact absurd hx ht
      · obtain ⟨g, hg, htg⟩ := go_mem t ht rest [] (by simpa using h)
        split
        · exact ⟨g, hg, htg⟩
        · exact ⟨g, List.mem_cons_of_mem _ hg, htg⟩
    · exact go_mem t ht rest (x :: cur) (by
        simp only [List.reverse_cons, List.append_assoc, List.singleton_append]; exact h)

theorem mem_pieces {src : Bytes} {t : Token} (ht : t ∈ scan src) (hk : t.kind ≠ .semi) :
    ∃ g ∈ pieces src, t ∈ g :=
  go_mem t hk (scan src) [] (by simpa using ht)

/-- a source without semicolon tokens is one piece -/
theorem pieces_nosemi (src : Bytes) (hne : scan src ≠ []) (h : ∀ t ∈ scan src, t.kind ≠ .semi) :
    pieces src = [scan src] := by
  have key : ∀ (ts cur : List Token), (∀ t ∈ ts, t.kind ≠ .semi) → cur.reverse ++ ts ≠ [] →
      splitStatementsToks.go ts cur = [cur.reverse ++ ts] := by
    intro ts
    induction ts with
    | nil =>
      intro cur _ hne
      rw [go_nil]
      cases cur with
      | nil => simp at hne
      | cons c cs => simp
    | cons x rest ih =>
      intro cur hns hne
      rw [go_cons]
      have hx : (x.kind == TokKind.semi) = false := by simpa using hns x (by simp)
      simp only [hx, Bool.false_eq_true, if_false]
      rw [ih (x :: cur) (fun t ht => hns t (List.mem_cons_of_mem _ ht)) (by simp)]
      simp
  exact key (scan src) [] h (by simpa using hne)

/-! ### what the classes say about a source token -/

/-- every keyword spelling -/
def allKeywordSpellings : List Bytes :=
  otherSpellings ++ [b "count", b "asc", b "desc", b "first", b "last"]

/-- a token that can only be a name: a quoted identifier, or an identifier not spelled like a keyword -/
def isNameTok (t : Token) : Bool :=
  t.kind == .qident || (t.kind == .ident && !allKeywordSpellings.contains t.value)

/-- a token that ends an operand: literal, `)`, `]`, name -/
def operandEndTok (t : Token) : Bool :=
  t.kind == .number || t.kind == .string || t.kind == .rparen || t.kind == .rbracket || isNameTok t

/-- a token that starts a juxtaposed operand: literal or name -/
def operandStartTok (t : Token) : Bool :=
  t.kind == .number || t.kind == .string || isNameTok t

theorem other_sub {v : Bytes} (h : otherSpellings.contains v = true) : allKeywordSpellings.contains v = true := by
  simp only [allKeywordSpellings, List.contains_iff_mem, List.mem_append] at h ⊢
  exact Or.inl h

theorem compat_end {c : Cl} {t : Token} (h : compat c t = true) (hn : never c = false)
    (ht : operandEndTok t = true) : endsOperand c = true := by
  cases c with
  | nm => rfl
  | lit => rfl
  | bad => cases hn
  | kCount =>
    simp only [compat, Bool.and_eq_true, beq_iff_eq] at h
    have : allKeywordSpellings.contains t.value = true := by rw [h.2]; decide
    simp [operandEndTok, isNameTok, h.1] at ht
    exact absurd (List.contains_iff_mem.1 this) ht
  | kDir =>
    simp only [compat, Bool.and_eq_true, Bool.or_eq_true, beq_iff_eq] at h
    have : allKeywordSpellings.contains t.value = true := by rcases h.2 with h2 | h2 <;> (rw [h2]; decide)
    simp [operandEndTok, isNameTok, h.1] at ht
    exact absurd (List.contains_iff_mem.1 this) ht
  | kNF =>
    simp only [compat, Bool.and_eq_true, Bool.or_eq_true, beq_iff_eq] at h
    have : allKeywordSpellings.contains t.value = true := by rcases h.2 with h2 | h2 <;> (rw [h2]; decide)
    simp [operandEndTok, isNameTok, h.1] at ht
    exact absurd (List.contains_iff_mem.1 this) ht
  | kw =>
    simp only [compat, Bool.and_eq_true, beq_iff_eq] at h
    have := other_sub h.2
    simp [operandEndTok, isNameTok, h.1] at ht
    exact absurd (List.contains_iff_mem.1 this) ht
  | s k =>
    simp only [compat, beq_iff_eq] at h
    subst h
    cases hk : t.kind <;> simp_all [never, operandEndTok, isNameTok, endsOperand]

theorem compat_start {c : Cl} {t : Token} (h : compat c t = true) (hn : never c = false)
    (ht : operandStartTok t = true) : startsOperand c = true := by
  cases c with
  | nm => rfl
  | lit => rfl
  | bad => cases hn
  | kCount =>
    simp only [compat, Bool.and_eq_true, beq_iff_eq] at h
    have : allKeywordSpellings.contains t.value = true := by rw [h.2]; decide
    simp [operandStartTok, isNameTok, h.1] at ht
    exact absurd (List.contains_iff_mem.1 this) ht
  | kDir =>
    simp only [compat, Bool.and_eq_true, Bool.or_eq_true, beq_iff_eq] at h
    have : allKeywordSpellings.contains t.value = true := by rcases h.2 with h2 | h2 <;> (rw [h2]; decide)
    simp [operandStartTok, isNameTok, h.1] at ht
    exact absurd (List.contains_iff_mem.1 this) ht
  | kNF =>
    simp only [compat, Bool.and_eq_true, Bool.or_eq_true, beq_iff_eq] at h
    have : allKeywordSpellings.contains t.value = true := by rcases h.2 with h2 | h2 <;> (rw [h2]; decide)
    simp [operandStartTok, isNameTok, h.1] at ht
    exact absurd (List.contains_iff_mem.1 this) ht
  | kw =>
    simp only [compat, Bool.and_eq_true, beq_iff_eq] at h
    have := other_sub h.2
    simp [operandStartTok, isNameTok, h.1] at ht
    exact absurd (List.contains_iff_mem.1 this) ht
  | s k =>
    simp only [compat, beq_iff_eq] at h
    subst h
    cases hk : t.kind <;> simp_all [never, operandStartTok, isNameTok]

theorem okPair_juxt {a c : Cl} (ha : endsOperand a = true) (hc : startsOperand c = true) :
    okPair a c = false := by simp [okPair, ha, hc]

/-- a symbol token is matched by the class of its kind -/
theorem compat_sym {c : Cl} {t : Token} (h : compat c t = true) (hn : never c = false)
    (hk : t.kind ≠ .ident ∧ t.kind ≠ .qident ∧ t.kind ≠ .number ∧ t.kind ≠ .string) : c = .s t.kind := by
  cases c <;> simp_all [compat, never]

/-- classes in a list with allowed neighbours that starts like a statement never are `never` -/
theorem good_not_never {us : List UTok} (hg : Good FS LO us) : ∀ u ∈ us, never (cl u) = false := by
  intro u hu
  cases hn : never (cl u) with
  | false => rfl
  | true =>
    have := adjOK_never _ hg.lin.adj (cl u) (List.mem_map.2 ⟨u, hu, rfl⟩) hn
    obtain ⟨a, ha, haF⟩ := hg.lin.first
    rw [this] at ha
    simp only [List.head?_cons, Option.some.injEq] at ha
    subst ha
    revert hn haF
    generalize cl u = c
    intro hn haF
    simp only [FS, List.mem_cons, List.not_mem_nil, or_false] at haF
    rcases haF with rfl | rfl <;> cases hn

theorem forall₂_imp_left {α β : Type} {R S : α → β → Prop} {v : List α} {w : List β}
    (h : Forall₂ R v w) (himp : ∀ u ∈ v, ∀ t, R u t → S u t) : Forall₂ S v w := by
  induction h with
  | nil => exact .nil
  | @cons a c l₁ l₂ hab _ ih =>
    exact .cons (himp a (by simp) c hab) (ih (fun u hu => himp u (List.mem_cons_of_mem _ hu)))

/-- the classes of a window of the `unparse` of an accepted piece -/
theorem window_classes {us : List UTok} {g : List Token} (hacc : Acc us g) (hg : Good FS LO us)
    (pre w post : List Token) (hw : g = pre ++ w ++ post) (hnc : ∀ t ∈ w, t.kind ≠ .comma) :
    ∃ pre' v post', us = pre' ++ v ++ post' ∧ Acc post' post ∧
      Forall₂ (fun u t => compat (cl u) t = true ∧ never (cl u) = false) v w ∧
      adjOK (v.map cl) = true := by
  obtain ⟨pre', v, post', hv, hf, hp⟩ := hacc.window pre w post hw hnc
  refine ⟨pre', v, post', hv, hp, ?_, ?_⟩
  · have hmem : ∀ u ∈ v, u ∈ us := by intro u hu; rw [hv]; simp [hu]
    exact forall₂_imp_left hf (fun u hu t hm => ⟨tokMatches_compat hm, good_not_never hg u (hmem u hu)⟩)
  · have := hg.lin.adj
    rw [hv, List.map_append, List.map_append] at this
    exact adjOK_infix _ _ _ this

end Pql.Reject
