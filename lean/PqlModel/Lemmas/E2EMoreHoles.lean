/-
Placeholders, part 7: a chunk list with holes, the holes filled with NUMBERS (adjacent: `AdjC`) resp. with
PLACEHOLDERS.  `holes_lex`: the text with the placeholders is lexed chunk by chunk, to the tokens `toksOf`
of the chunk list with the placeholders.  `holes_inst`: these tokens, instantiated, are the tokens of the
chunk list with the VALUES in the holes (no chunk the compiler writes itself contributes a `.param` token).
-/
import PqlModel.Lemmas.E2EMoreLex
namespace Pql.E2EMore
set_option linter.unusedSimpArgs false
open Pql Sql LexRender Pql.Params

/-- `X` starts like `X'`, or `X'` starts with a digit and `X` with `$`, `?` or `{` -/
def HeadRel (X' X : Bytes) : Prop :=
  X.head? = X'.head? ∨
    ∃ d c, X'.head? = some d ∧ isDigitB d = true ∧ X.head? = some c ∧ (c = 36 ∨ c = 63 ∨ c = 123)

theorem HeadRel.refl (X : Bytes) : HeadRel X X := Or.inl rfl

theorem HeadRel.pre (p : Bytes) {X' X : Bytes} (h : HeadRel X' X) : HeadRel (p ++ X') (p ++ X) := by
  cases p with
  | nil => exact h
  | cons c p => exact Or.inl rfl

set_option maxRecDepth 8000 in
theorem digit_wordCont (d : UInt8) : (!isDigitB d || (isWordCont d && numBad d)) = true :=
  forall_uint8 (fun d => !isDigitB d || (isWordCont d && numBad d)) (by decide) d

set_option maxRecDepth 8000 in
theorem sym1Bad_ph (c0 : UInt8) : (!sym1Bad c0 36 && !sym1Bad c0 63 && !sym1Bad c0 123) = true :=
  forall_uint8 (fun c0 => !sym1Bad c0 36 && !sym1Bad c0 63 && !sym1Bad c0 123) (by decide) c0

/-- whatever may stand before a digit may stand before `$`, `?`, `{` -/
theorem bad_ph (a : Atom) (d c : UInt8) (hd : isDigitB d = true) (ha : a.bad d = false)
    (hc : c = 36 ∨ c = 63 ∨ c = 123) : a.bad c = false := by
  have hdw := digit_wordCont d
  simp only [hd, Bool.not_true, Bool.false_or, Bool.and_eq_true] at hdw
  cases a with
  | sp _ => rfl
  | word w => simp [Atom.bad, hdw.1] at ha
  | sym1 c0 =>
    have := sym1Bad_ph c0
    simp only [Bool.and_eq_true, Bool.not_eq_true'] at this
    rcases hc with rfl | rfl | rfl
    · exact this.1.1
    · exact this.1.2
    · exact this.2
  | sym2 _ _ => rfl
  | qid n => rcases hc with rfl | rfl | rfl <;> simp [Atom.bad]
  | str n => rcases hc with rfl | rfl | rfl <;> simp [Atom.bad]
  | num v => simp [Atom.bad, hdw.2] at ha
  | cmt _ => rfl

theorem follows_transfer {a : Atom} {X' X : Bytes} (h : follows a X'.head? = true) (hr : HeadRel X' X) :
    follows a X.head? = true := by
  rcases hr with e | ⟨d, c, h1, hd, h2, hc⟩
  · rw [e]; exact h
  · rw [h1] at h
    rw [h2]
    simp only [follows, Bool.not_eq_true'] at h ⊢
    exact bad_ph a d c hd h hc

theorem AdjBefore_transfer {X' X : Bytes} (hr : HeadRel X' X) :
    ∀ {as : List Atom}, AdjBefore X' as = true → AdjBefore X as = true
  | [], _ => rfl
  | a :: r, h => by
    simp only [AdjBefore, Bool.and_eq_true] at h ⊢
    exact ⟨⟨h.1.1, follows_transfer h.1.2 (hr.pre _)⟩, AdjBefore_transfer hr h.2⟩

theorem AdjC_transfer {X' X : Bytes} (hr : HeadRel X' X) {cs : List Chunk} (h : AdjC X' cs = true) :
    AdjC X cs = true := by
  obtain ⟨h1, h2⟩ := AdjC_elim h
  simp only [AdjC, h1, AdjBefore_transfer hr h2, Bool.and_self]

/-! ### no well-formed atom starts with `$` -/

set_option maxRecDepth 8000 in
theorem starts_ne_dollar (c : UInt8) :
    (!(isSpaceB c || isWordStart c || isDigitB c || (oneCharSyms.find? (fun o => o.1 == c)).isSome ||
      twoCharSyms.any (fun o => o.1 == c)) || !(c == 36)) = true :=
  forall_uint8 (fun c => !(isSpaceB c || isWordStart c || isDigitB c ||
    (oneCharSyms.find? (fun o => o.1 == c)).isSome || twoCharSyms.any (fun o => o.1 == c)) || !(c == 36)) (by decide) c

theorem atom_head_ne_dollar {a : Atom} (h : a.wf = true) : a.bytes.head? ≠ some 36 := by
  have key : ∀ c : UInt8, (isSpaceB c || isWordStart c || isDigitB c || (oneCharSyms.find? (fun o => o.1 == c)).isSome ||
      twoCharSyms.any (fun o => o.1 == c)) = true → c ≠ 36 := by
    intro c hc
    have := starts_ne_dollar c
    rw [hc] at this
    simpa using this
  cases a with
  | sp c =>
    simp only [Atom.wf] at h
    simp only [Atom.bytes, List.head?_cons, ne_eq, Option.some.injEq]
    exact key c (by simp [h])
  | word w =>
    obtain ⟨c, w', rfl, hc, _⟩ := wordOK_elim h
    simp only [Atom.bytes, List.head?_cons, ne_eq, Option.some.injEq]
    exact key c (by simp [hc])
  | sym1 c =>
    simp only [Atom.wf] at h
    simp only [Atom.bytes, List.head?_cons, ne_eq, Option.some.injEq]
    exact key c (by simp [h])
  | sym2 c d =>
    simp only [Atom.wf] at h
    simp only [Atom.bytes, List.head?_cons, ne_eq, Option.some.injEq]
    refine key c ?_
    obtain ⟨o, ho⟩ := Option.isSome_iff_exists.mp h
    have hm := List.mem_of_find?_eq_some ho
    have hp := List.find?_some ho
    simp only [Bool.and_eq_true] at hp
    have : twoCharSyms.any (fun o => o.1 == c) = true := List.any_eq_true.mpr ⟨o, hm, hp.1⟩
    simp [this]
  | qid n => simp [Atom.bytes, quoteIdentifier, quoteWith]
  | str n => simp [Atom.bytes, quoteSQLString, quoteWith]
  | num v =>
    obtain ⟨c, v', rfl, hc, _⟩ := numOK_scan v h
    simp only [Atom.bytes, List.head?_cons, ne_eq, Option.some.injEq]
    exact key c (by simp [hc])
  | cmt b => simp [Atom.bytes]

theorem atoms_head_ne_dollar {R : Bytes} (hR : R.head? ≠ some 36) :
    ∀ {as : List Atom}, AdjBefore R as = true → (renderAtoms as ++ R).head? ≠ some 36
  | [], _ => by simpa [renderAtoms] using hR
  | a :: r, h => by
    have hwf := AdjBefore_head_wf h
    have hne := atom_bytes_ne hwf
    rw [renderAtoms_cons, List.append_assoc, head?_append_ne _ hne]
    exact atom_head_ne_dollar hwf

theorem chunks_head_ne_dollar {R : Bytes} (hR : R.head? ≠ some 36) {cs : List Chunk} (h : AdjC R cs = true) :
    (renderChunks cs ++ R).head? ≠ some 36 := by
  obtain ⟨h1, h2⟩ := AdjC_elim h
  rw [← render_atomsOf h1]
  exact atoms_head_ne_dollar hR h2

end Pql.E2EMore
