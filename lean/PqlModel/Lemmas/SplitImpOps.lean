/-
One iteration of the loop of `SplitImp.Machine` (`stepI`, and the tail of the join case,
`joinTailI`) against one unfolding of the functional model's `splitOps`.
-/
import PqlModel.Lemmas.SplitImpStep
import PqlModel.Lemmas.SplitASim
namespace Pql.SplitImp
open Pql SplitQ

theorem setLast_setLast (d : List Subquery) (f g : Subquery → Subquery) :
    setLast (setLast d f) g = setLast d (fun s => g (f s)) := by
  rcases List.eq_nil_or_concat d with rfl | ⟨init, l, rfl⟩
  · rfl
  · simp only [List.concat_eq_append, setLast_const]

theorem Post.trans {n0 k : Nat} {st st1 st2 : St} {o1 o2 : List Subquery}
    (a : Post n0 k st st1 o1) (b : Post n0 k st1 st2 o2) : Post n0 k st st2 o2 :=
  ⟨b.abs_eq, b.inv, a.frame.trans b.frame, by
    obtain ⟨n1, h1, g1⟩ := a.ext
    obtain ⟨n2, h2, g2⟩ := b.ext
    refine ⟨n1 ++ n2, by rw [h2, h1, List.append_assoc], fun x hx => ?_⟩
    rcases List.mem_append.mp hx with hx | hx
    · exact g1 x hx
    · exact Nat.le_trans a.frame.1 (g2 x hx)⟩

/-! ### the cases of the `switch` -/

/-- `default:` — one fresh subquery carrying the operator -/
theorem stepI_plain {n0 k : Nat} {st : St} (inv : Inv n0 k st) (source : Option Ident)
    (hs : source.isSome = true) (o : Op) (ho : isPlain o = true) :
    ∃ st', stepI source k o st = .ok st' ∧
      Post n0 k st st'
        (abs st.heap st.dst ++ [{ chainSubquery (abs st.heap st.dst) k source with op := some o }]) := by
  refine ⟨_, ?_, post_fresh inv _⟩
  cases o <;> simp only [isPlain, Bool.false_eq_true] at ho <;>
    simp only [stepI, bind, Except.bind, stChain_ok source k st inv.valid (fun _ => hs),
      stAssign_fresh, stAppend_some]

/-- `case *parser.AsOperator:` -/
theorem stepI_as {n0 k : Nat} {st : St} (inv : Inv n0 k st) (source : Option Ident)
    (hs : source.isSome = true) (p kw : Span) (name : Option Ident) (hn : name.isSome = true) :
    ∃ st', stepI source k (.as_ p kw name) st = .ok st' ∧
      Post n0 k st st'
        (abs st.heap st.dst ++ [{ chainSubquery (abs st.heap st.dst) k source with
                                   name := identName name, op := some (.as_ p kw name) }]) := by
  obtain ⟨i, rfl⟩ := Option.isSome_iff_exists.mp hn
  refine ⟨_, ?_, post_fresh inv _⟩
  simp only [stepI, nameOf, bind, Except.bind, stChain_ok source k st inv.valid (fun _ => hs),
    stAssign_fresh, stAppend_some, identName]

/-- `case *parser.SortOperator:` -/
theorem stepI_sort {n0 k : Nat} {st : St} (inv : Inv n0 k st) (source : Option Ident)
    (hs : source.isSome = true) (p kw : Span) (terms : List SortTerm) :
    ∃ st', stepI source k (.sort p kw terms) st = .ok st' ∧
      Post n0 k st st'
        (setLast
          (if (match lastOf (abs st.heap st.dst) k with
                | some l => canAttachSort l.op && l.sort.isNone && l.take.isNone
                | none => false) = true
            then abs st.heap st.dst
            else abs st.heap st.dst ++ [chainSubquery (abs st.heap st.dst) k source])
          fun s => { s with sort := some terms }) := by
  obtain ⟨st1, q, h1, hl1, post1⟩ := stChainIf_inv inv source hs
    (fun l => !canAttachSort l.op || l.sort.isSome || l.take.isSome)
    (fun l => canAttachSort l.op && l.sort.isNone && l.take.isNone)
    (fun l => by cases canAttachSort l.op <;> cases l.sort <;> cases l.take <;> rfl)
  obtain ⟨st2, h2, _, post2⟩ := stAssign_inv post1.inv hl1 fun s => { s with sort := some terms }
  refine ⟨st2, ?_, ?_⟩
  · simp only [stepI, bind, Except.bind, h1, h2]
  · have := post1.trans post2
    rw [post1.abs_eq] at this
    exact this

/-- `case *parser.TakeOperator:` -/
theorem stepI_take {n0 k : Nat} {st : St} (inv : Inv n0 k st) (source : Option Ident)
    (hs : source.isSome = true) (p kw : Span) (n : Expr) :
    ∃ st', stepI source k (.take p kw n) st = .ok st' ∧
      Post n0 k st st'
        (setLast
          (if (match lastOf (abs st.heap st.dst) k with
                | some l => canAttachSort l.op && l.take.isNone
                | none => false) = true
            then abs st.heap st.dst
            else abs st.heap st.dst ++ [chainSubquery (abs st.heap st.dst) k source])
          fun s => { s with take := some n }) := by
  obtain ⟨st1, q, h1, hl1, post1⟩ := stChainIf_inv inv source hs
    (fun l => !canAttachSort l.op || l.take.isSome)
    (fun l => canAttachSort l.op && l.take.isNone)
    (fun l => by cases canAttachSort l.op <;> cases l.take <;> rfl)
  obtain ⟨st2, h2, _, post2⟩ := stAssign_inv post1.inv hl1 fun s => { s with take := some n }
  refine ⟨st2, ?_, ?_⟩
  · simp only [stepI, bind, Except.bind, h1, h2]
  · have := post1.trans post2
    rw [post1.abs_eq] at this
    exact this

/-- `case *parser.TopOperator:` with a column — two writes through the same pointer -/
theorem stepI_top {n0 k : Nat} {st : St} (inv : Inv n0 k st) (source : Option Ident)
    (hs : source.isSome = true) (p kw : Span) (n : Expr) (b : Span) (c : SortTerm) :
    ∃ st', stepI source k (.top p kw n b (some c)) st = .ok st' ∧
      Post n0 k st st'
        (setLast
          (if (match lastOf (abs st.heap st.dst) k with
                | some l => canAttachSort l.op && l.sort.isNone && l.take.isNone
                | none => false) = true
            then abs st.heap st.dst
            else abs st.heap st.dst ++ [chainSubquery (abs st.heap st.dst) k source])
          fun s => { s with sort := some [c], take := some n }) := by
  obtain ⟨st1, q, h1, hl1, post1⟩ := stChainIf_inv inv source hs
    (fun l => !canAttachSort l.op || l.sort.isSome || l.take.isSome)
    (fun l => canAttachSort l.op && l.sort.isNone && l.take.isNone)
    (fun l => by cases canAttachSort l.op <;> cases l.sort <;> cases l.take <;> rfl)
  obtain ⟨st2, h2, hl2, post2⟩ := stAssign_inv post1.inv hl1 fun s => { s with sort := some [c] }
  obtain ⟨st3, h3, _, post3⟩ := stAssign_inv post2.inv hl2 fun s => { s with take := some n }
  refine ⟨st3, ?_, ?_⟩
  · simp only [stepI, bind, Except.bind, h1, h2, h3]
  · have := (post1.trans post2).trans post3
    rw [post2.abs_eq, post1.abs_eq, setLast_setLast] at this
    exact this

/-- `case *parser.TopOperator:` without a column: both sides stop with a panic (see the header of
    SplitImpMachine.lean) -/
theorem stepI_top_none {n0 k : Nat} {st : St} (inv : Inv n0 k st) (source : Option Ident)
    (hs : source.isSome = true) (p kw : Span) (n : Expr) (b : Span) :
    stepI source k (.top p kw n b none) st = .error .panic := by
  obtain ⟨st1, q, h1, _, _⟩ := stChainIf_inv inv source hs
    (fun l => !canAttachSort l.op || l.sort.isSome || l.take.isSome)
    (fun l => canAttachSort l.op && l.sort.isNone && l.take.isNone)
    (fun l => by cases canAttachSort l.op <;> cases l.sort <;> cases l.take <;> rfl)
  simp only [stepI, bind, Except.bind, h1]

/-! ### the join case after the recursive call -/

/-- The tail of the join case, run on the state the recursive call left behind: `dst'` extends the
    `n` pointers the activation had before the call (`leftSubquery = n - 1`).  The result is the
    functional model's, as `C05.splitOps_join` spells it out. -/
theorem joinTailI_ok (src : Bytes) (scope : List (Bytes × List Chunk)) (source : Option Ident)
    (hs : source.isSome = true) (k n : Nat) (flavor : Option Ident) (conds : ExprList)
    (h' : Heap) (dst' : List Addr) (l0 : Option Addr)
    (hv : ∀ a ∈ dst', a < h'.size) (hlt : n < dst'.length) :
    joinTailI src scope source k ((n : Int) - 1) flavor conds ⟨h', dst', l0⟩ =
      match C05.leftOf flavor with
      | none => .error .err
      | some left =>
        match writeExpr ⟨src, scope, .join⟩ (buildJoinCondition conds) with
        | .error e => .error e
        | .ok c =>
          .ok ⟨h'.push { name := subqueryName dst'.length,
                         source := joinSourceOf (C05.uniqueOf flavor) (C05.joinKwOf left)
                           (joinLeft source k n (abs h' dst')) (joinRight (abs h' dst')) c },
               dst' ++ [h'.size], some h'.size⟩ := by
  have hne : dst' ≠ [] := by intro e; rw [e] at hlt; simp at hlt
  obtain ⟨pre, p, hd⟩ : ∃ pre p, dst' = pre ++ [p] :=
    ⟨dst'.dropLast, dst'.getLast hne, (List.dropLast_concat_getLast hne).symm⟩
  have hp : p < h'.size := hv p (by rw [hd]; simp)
  have hidx : index dst' ((dst'.length : Int) - 1) = .ok p := by rw [hd]; exact index_last pre p
  have hright : joinRight (abs h' dst') = (cell h' p).name := by
    unfold joinRight; rw [hd, abs_getLast?]
  -- the left side
  have hleft : joinLeftI source k ((n : Int) - 1) ⟨h', dst', some p⟩ =
      .ok (joinLeft source k n (abs h' dst')) := by
    unfold joinLeftI joinLeft
    by_cases hk : ((n : Int) - 1) ≥ (k : Int)
    · rw [if_pos hk, if_pos hk]
      have hn1 : 1 ≤ n := by omega
      have hcast : ((n : Int) - 1) = ((n - 1 : Nat) : Int) := by omega
      have hi : n - 1 < dst'.length := by omega
      rw [hcast, index_nat dst' (n - 1) hi]
      simp only [bind, Except.bind, pure, Except.pure, Int.toNat_natCast]
      rw [load_ok h' (hv _ (List.getElem_mem hi))]
      have : (abs h' dst')[n - 1]? = some (cell h' dst'[n - 1]) := by
        simp [abs, hi]
      rw [this]
    · rw [if_neg hk, if_neg hk]
      obtain ⟨i, rfl⟩ := Option.isSome_iff_exists.mp hs
      rfl
  have hkw : joinKwI (flavorNameI flavor) =
      match C05.leftOf flavor with
      | none => .error .err
      | some left => .ok [Chunk.txt (C05.joinKwOf left)] := by
    unfold joinKwI C05.leftOf C05.uniqueOf
    have : flavorNameI flavor = C05.flavorNameOf flavor := by cases flavor <;> rfl
    rw [this]
    split
    · rfl
    · split <;> rfl
  have hu : (flavorNameI flavor == Bytes.ofString "innerunique") = C05.uniqueOf flavor := by
    cases flavor <;> rfl
  unfold joinTailI
  simp only [hidx, bind, Except.bind, hleft, hkw, hu]
  cases C05.leftOf flavor with
  | none => rfl
  | some left =>
    simp only [deref, load_ok h' hp]
    cases writeExpr ⟨src, scope, .join⟩ (buildJoinCondition conds) with
    | error e => rfl
    | ok c =>
      simp only [alloc, stAppend, deref, bind, Except.bind, pure, Except.pure, hright, joinSourceOf]
      cases C05.uniqueOf flavor <;> simp

end Pql.SplitImp
