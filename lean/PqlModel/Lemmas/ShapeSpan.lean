/-
Content maps that keep the positions keep every `Span()`; so against the *same* source text the
alias of an unnamed column is the same text, and the slice condition `sliceOp` holds trivially.
-/
import PqlModel.Lemmas.ShapeAll
namespace Pql

section
variable {φ : CMap} (hsp : ∀ sp, φ.fsp sp = sp)
include hsp

mutual
theorem spanOf_mapE : (e : Expr) → (mapE φ e).spanOf = e.spanOf
  | .nil => by simp only [mapE]
  | .qident parts => by
    simp only [mapE, Expr.spanOf, List.map_map]
    congr 2
    funext p
    simp only [Function.comp, CMap.ident, hsp]
  | .lit sp k v => by simp only [mapE, Expr.spanOf, hsp]
  | .unary os op x => by simp only [mapE, Expr.spanOf, hsp, spanOf_mapE x]
  | .binary x os op y => by simp only [mapE, Expr.spanOf, hsp, spanOf_mapE x, spanOf_mapE y]
  | .inE x i lp vals rp => by simp only [mapE, Expr.spanOf, hsp, spanOf_mapE x, spansOf_mapL vals]
  | .paren lp x rp => by simp only [mapE, Expr.spanOf, hsp, spanOf_mapE x]
  | .call fn lp args rp => by simp only [mapE, Expr.spanOf, hsp, CMap.fnIdent, spansOf_mapL args]
  | .index x lb idx rb => by simp only [mapE, Expr.spanOf, hsp, spanOf_mapE x, spanOf_mapE idx]
theorem spansOf_mapL : (es : ExprList) → (mapL φ es).spansOf = es.spansOf
  | .nil => by simp only [mapL]
  | .cons e es => by simp only [mapL, ExprList.spansOf, spanOf_mapE e, spansOf_mapL es]
end

theorem sliceCols_self (src : Bytes) (cs : List Column) : sliceCols φ src src cs = true := by
  simp only [sliceCols, List.all_eq_true, spanOf_mapE hsp, beq_self_eq_true, Bool.or_true, implies_true]

theorem sliceOp_self (src : Bytes) (o : Op) : sliceOp φ src src o = true := by
  cases o <;> simp only [sliceOp, sliceCols_self hsp, Bool.and_self]

end

mutual
theorem TabAll_of_forall {P : Op → Bool} (h : ∀ o, P o = true) : (t : Tabular) → TabAll P t = true
  | .nil => by simp only [TabAll]
  | .mk _ ops => by simp only [TabAll, OpsAll_of_forall h ops]
theorem OpsAll_of_forall {P : Op → Bool} (h : ∀ o, P o = true) : (ops : OpList) → OpsAll P ops = true
  | .nil => by simp only [OpsAll]
  | .cons o os => by
    simp only [OpsAll, OpsAll_of_forall h os, Bool.and_true]
    cases o with
    | join p k kind ka fl lp right rp on conds => simp only [OpAll, TabAll_of_forall h right]
    | count => simp only [OpAll, h]
    | where_ => simp only [OpAll, h]
    | sort => simp only [OpAll, h]
    | take => simp only [OpAll, h]
    | top => simp only [OpAll, h]
    | project => simp only [OpAll, h]
    | extend => simp only [OpAll, h]
    | summarize => simp only [OpAll, h]
    | as_ => simp only [OpAll, h]
    | render => simp only [OpAll, h]
end

end Pql
