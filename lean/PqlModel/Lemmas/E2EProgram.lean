/-
End-to-end composition, part 5: the meaning `Rel.interpProgram` gives a program `lets ++ [query]` whose
extend / summarize columns are all named (`tabNamed`, the side condition of C06) is `Rel.interp` of the
query with the lets resolved.
-/
import PqlModel.Spec.Rel
import PqlModel.Lemmas.ScopeProgram
namespace Pql.E2E
open Pql Sql CompileOracle

theorem nameColumn_named (src : Bytes) (c : Column) (h : ColNamed c) : Rel.nameColumn src c = c := by
  obtain ⟨h1, _⟩ := h
  unfold Rel.nameColumn
  cases hn : c.name with
  | none => rw [hn] at h1; cases h1
  | some n => rfl

theorem map_nameColumn (src : Bytes) (cs : List Column) (h : ∀ c ∈ cs, ColNamed c) :
    cs.map (Rel.nameColumn src) = cs := by
  conv => rhs; rw [← List.map_id cs]
  exact List.map_congr_left fun c hc => nameColumn_named src c (h c hc)

mutual
theorem nameTabular_named (src : Bytes) : (t : Tabular) → tabNamed t → Rel.nameTabular src t = t
  | .nil, _ => rfl
  | .mk s ops, h => by
    simp only [tabNamed] at h
    simp only [Rel.nameTabular, nameOps_named src ops h]
theorem nameOps_named (src : Bytes) : (ops : OpList) → opsNamed ops → Rel.nameOps src ops = ops
  | .nil, _ => rfl
  | .cons o os, h => by
    simp only [opsNamed] at h
    simp only [Rel.nameOps, nameOp_named src o h.1, nameOps_named src os h.2]
theorem nameOp_named (src : Bytes) : (o : Op) → opNamed o → Rel.nameOp src o = o
  | .extend _ _ cs, h => by
    simp only [opNamed] at h
    simp only [Rel.nameOp, map_nameColumn src cs h]
  | .summarize _ _ cs _ gs, h => by
    simp only [opNamed] at h
    simp only [Rel.nameOp, map_nameColumn src cs h.1, map_nameColumn src gs h.2]
  | .join _ _ _ _ _ _ right _ _ _, h => by
    simp only [opNamed] at h
    simp only [Rel.nameOp, nameTabular_named src right h]
  | .count .., _ | .where_ .., _ | .sort .., _ | .take .., _ | .top .., _ | .project .., _ | .as_ .., _
  | .render .., _ => rfl
end

theorem map_stmts_id (f : Stmt → Stmt) (lets : List Stmt) (t : Tabular)
    (hlet : ∀ kw n a x, f (.let_ kw n a x) = .let_ kw n a x) (ht : f (.tabular t) = .tabular t) (hl : IsLets lets) :
    (lets ++ [Stmt.tabular t]).map f = lets ++ [.tabular t] := by
  rw [List.map_append]
  congr 1
  · conv => rhs; rw [← List.map_id lets]
    apply List.map_congr_left
    intro s hs
    obtain ⟨_, _, _, _, rfl⟩ := hl s hs
    exact hlet _ _ _ _
  · simp only [List.map_cons, List.map_nil, ht]

/-- the meaning `Rel.interpProgram` gives a program `lets ++ [query]` with named columns is the meaning
    of the resolved query -/
theorem interpProgram_lets (src : Bytes) (db : DB) (lets : List Stmt) (t t' : Tabular) (hl : IsLets lets)
    (hN : tabNamed t) (hres : resolveLets (lets ++ [.tabular t]) [] = some t') :
    Rel.interpProgram src db (lets ++ [.tabular t]) = some (Rel.interp src db t') := by
  unfold Rel.interpProgram
  rw [map_stmts_id _ lets t (fun _ _ _ _ => rfl) (congrArg Stmt.tabular (nameTabular_named src t hN)) hl]
  show Option.map (Rel.interp src db) (resolveLets (lets ++ [Stmt.tabular t]) []) = _
  rw [hres]
  rfl
end Pql.E2E
