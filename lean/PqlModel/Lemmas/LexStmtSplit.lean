/-
LexRender for whole statements, part 3: every subquery `splitQueries` produces from a
`Tabular.lexOK` tree (under a `ScopeAdj` scope) satisfies `SubOK`: its source is a quoted name or the join
source built in `splitOps` (both adjacent before every separator), and the expressions it
carries are `Expr.lexOK`.
-/
import PqlModel.Lemmas.LexStmtWrite
namespace Pql.C05
open Pql Sql LexRender

/-! ### join conditions -/

theorem rewrite_lexOK (c : Expr) (h : c.lexOK = true) : (rewriteSimpleJoinCondition c).lexOK = true := by
  unfold rewriteSimpleJoinCondition
  split
  · split
    · exact h
    · simp [Expr.lexOK]
  · exact h

theorem go_lexOK : ∀ (ys : ExprList) (x : Expr), x.lexOK = true → ys.lexOK = true →
    (buildJoinCondition.go x ys).lexOK = true
  | .nil, x, hx, _ => by rw [buildJoinCondition.go]; exact hx
  | .cons y ys, x, hx, hy => by
    rw [ExprList.lexOK, Bool.and_eq_true] at hy
    rw [buildJoinCondition.go]
    refine go_lexOK ys _ ?_ hy.2
    simp only [Expr.lexOK, hx, rewrite_lexOK y hy.1, Bool.and_self]

/-- the condition `buildJoinCondition` assembles is `lexOK` when the written conditions are -/
theorem buildJoin_lexOK (conds : ExprList) (h : conds.lexOK = true) : (buildJoinCondition conds).lexOK = true := by
  cases conds with
  | nil => simp [buildJoinCondition, Expr.lexOK]
  | cons c rest =>
    rw [ExprList.lexOK, Bool.and_eq_true] at h
    rw [buildJoinCondition]
    exact go_lexOK rest _ (rewrite_lexOK c h.1) h.2

/-! ### list bookkeeping -/

theorem setLast_forall {P : Subquery → Prop} {dst : List Subquery} {f : Subquery → Subquery}
    (hd : ∀ s ∈ dst, P s) (hf : ∀ s, P s → P (f s)) : ∀ s ∈ setLast dst f, P s := by
  unfold setLast
  cases hr : dst.reverse with
  | nil => intro s hs; cases hs
  | cons l rest =>
    intro s hs
    have hmem : ∀ x ∈ l :: rest, x ∈ dst := by
      intro x hx; rw [← hr] at hx; exact List.mem_reverse.mp hx
    simp only [List.mem_reverse, List.mem_cons] at hs
    rcases hs with rfl | hs
    · exact hf l (hd l (hmem l List.mem_cons_self))
    · exact hd s (hmem s (List.mem_cons_of_mem _ hs))

theorem forall_snoc {P : Subquery → Prop} {dst : List Subquery} {s : Subquery}
    (hd : ∀ x ∈ dst, P x) (hs : P s) : ∀ x ∈ dst ++ [s], P x := by
  intro x hx
  rcases List.mem_append.1 hx with hx | hx
  · exact hd x hx
  · rw [List.mem_singleton.1 hx]; exact hs

theorem chain_subOK (dst : List Subquery) (k : Nat) (source : Option Ident) :
    SubOK (chainSubquery dst k source) := by
  refine ⟨?_, fun o h => by simp [chainSubquery] at h, fun o h => by simp [chainSubquery] at h,
    fun o h => by simp [chainSubquery] at h⟩
  unfold chainSubquery
  dsimp only
  split
  · split
    · exact good_qid _
    · exact good_nil
  · exact good_qid _

theorem store_subOK {chain : Subquery} (hc : SubOK chain) (o : Op) (ho : o.lexOK = true) :
    SubOK { chain with op := some o } :=
  ⟨hc.source, fun o' h => by cases h; exact ho, hc.sort, hc.take⟩

theorem rename_subOK {chain : Subquery} (hc : SubOK chain) (n : Bytes) : SubOK { chain with name := n } :=
  ⟨hc.source, hc.op, hc.sort, hc.take⟩

/-- attaching sort terms / a row count to the last subquery, or to a fresh one -/
theorem attach_subOK {dst : List Subquery} (hd : ∀ s ∈ dst, SubOK s) (attach : Bool) (k : Nat)
    (source : Option Ident) {f : Subquery → Subquery} (hf : ∀ s, SubOK s → SubOK (f s)) :
    ∀ s ∈ setLast (if attach = true then dst else dst ++ [chainSubquery dst k source]) f, SubOK s := by
  refine setLast_forall ?_ hf
  split
  · exact hd
  · exact forall_snoc hd (chain_subOK ..)

/-- the join source: `(SELECT DISTINCT * FROM "l") AS "$left" JOIN "r" AS "$right" ON cond` -/
theorem joinSource_good (unique : Bool) {leftSrc cond : List Chunk} (hl : Good leftSrc) (hc : Good cond)
    {kw : String} (hkw : kw = " JOIN " ∨ kw = " LEFT JOIN ") (rightName : Bytes) :
    Good ((if unique = true then [Chunk.txt "(SELECT DISTINCT * FROM "] else []) ++ leftSrc ++
      (if unique = true then [Chunk.txt ")"] else []) ++
      [.txt (" AS \"" ++ Facts.leftJoinTableAlias ++ "\""), .txt kw, .qid rightName,
       .txt (" AS \"" ++ Facts.rightJoinTableAlias ++ "\" ON ")] ++ cond) := by
  have hkwI : txtInert kw = true := by rcases hkw with rfl | rfl <;> decide
  have hkwS : sepTxt kw = true := by rcases hkw with rfl | rfl <;> decide
  have tail : Good ([Chunk.txt (" AS \"" ++ Facts.leftJoinTableAlias ++ "\""), .txt kw, .qid rightName,
       .txt (" AS \"" ++ Facts.rightJoinTableAlias ++ "\" ON ")] ++ cond) := by
    simp only [List.cons_append, List.nil_append]
    refine good_cons_sep (by decide) (sepLed_txt _ hkwS) (good_cons_inert hkwI ?_)
    exact good_append (a := [Chunk.qid rightName]) (good_qid _) (sepLed_txt _ (by decide))
      (good_cons_inert (by decide) hc)
  have tailL : SepLed ([Chunk.txt (" AS \"" ++ Facts.leftJoinTableAlias ++ "\""), .txt kw, .qid rightName,
       .txt (" AS \"" ++ Facts.rightJoinTableAlias ++ "\" ON ")] ++ cond) := sepLed_txt _ (by decide)
  cases unique
  · simp only [Bool.false_eq_true, if_false, List.nil_append, List.append_nil, List.append_assoc]
    exact good_append hl tailL tail
  · simp only [if_true, List.cons_append, List.nil_append, List.append_assoc]
    exact good_cons_inert (by decide) (good_append hl (sepLed_txt _ (by decide))
      (good_cons_inert (by decide) tail))

theorem joinKw_cases {a b : Bool} {kw : String}
    (h : (if a = true then some " JOIN " else if b = true then some " LEFT JOIN " else (none : Option String)) = some kw) :
    kw = " JOIN " ∨ kw = " LEFT JOIN " := by
  split at h
  · cases h; exact Or.inl rfl
  · split at h
    · cases h; exact Or.inr rfl
    · cases h

/-! ### the invariant -/

mutual
theorem splitQueries_subOK (src : Bytes) (scope : List (Bytes × List Chunk)) (hsc : ScopeAdj scope) :
    ∀ (t : Tabular) (dst out : List Subquery), t.lexOK = true → (∀ s ∈ dst, SubOK s) →
      splitQueries src scope dst t = .ok out → ∀ s ∈ out, SubOK s
  | .nil, dst, out, _, _, h => by rw [splitQueries] at h; cases h
  | .mk source ops, dst, out, hok, hd, h => by
    rw [Tabular.lexOK] at hok
    rw [splitQueries] at h
    obtain ⟨dst1, h1, h⟩ := bind_ok h
    have ih := splitOps_subOK src scope hsc ops source dst.length dst dst1 hok hd h1
    split at h
    · cases h; exact forall_snoc ih (chain_subOK ..)
    · cases h; exact ih
theorem splitOps_subOK (src : Bytes) (scope : List (Bytes × List Chunk)) (hsc : ScopeAdj scope) :
    ∀ (ops : OpList) (source : Option Ident) (dstStart : Nat) (dst out : List Subquery),
      ops.lexOK = true → (∀ s ∈ dst, SubOK s) →
      splitOps src scope source dstStart dst ops = .ok out → ∀ s ∈ out, SubOK s
  | .nil, source, dstStart, dst, out, _, hd, h => by
    rw [splitOps] at h; cases h; exact hd
  | .cons (.count p k) rest, source, dstStart, dst, out, hok, hd, h => by
    rw [OpList.lexOK, Bool.and_eq_true] at hok
    simp only [splitOps] at h
    exact splitOps_subOK src scope hsc rest source dstStart _ out hok.2
      (forall_snoc hd (store_subOK (chain_subOK ..) _ hok.1)) h
  | .cons (.where_ p k e) rest, source, dstStart, dst, out, hok, hd, h => by
    rw [OpList.lexOK, Bool.and_eq_true] at hok
    simp only [splitOps] at h
    exact splitOps_subOK src scope hsc rest source dstStart _ out hok.2
      (forall_snoc hd (store_subOK (chain_subOK ..) _ hok.1)) h
  | .cons (.project p k cs) rest, source, dstStart, dst, out, hok, hd, h => by
    rw [OpList.lexOK, Bool.and_eq_true] at hok
    simp only [splitOps] at h
    exact splitOps_subOK src scope hsc rest source dstStart _ out hok.2
      (forall_snoc hd (store_subOK (chain_subOK ..) _ hok.1)) h
  | .cons (.extend p k cs) rest, source, dstStart, dst, out, hok, hd, h => by
    rw [OpList.lexOK, Bool.and_eq_true] at hok
    simp only [splitOps] at h
    exact splitOps_subOK src scope hsc rest source dstStart _ out hok.2
      (forall_snoc hd (store_subOK (chain_subOK ..) _ hok.1)) h
  | .cons (.summarize p k cs b gs) rest, source, dstStart, dst, out, hok, hd, h => by
    rw [OpList.lexOK, Bool.and_eq_true] at hok
    simp only [splitOps] at h
    exact splitOps_subOK src scope hsc rest source dstStart _ out hok.2
      (forall_snoc hd (store_subOK (chain_subOK ..) _ hok.1)) h
  | .cons (.render p k ch w lp props rp) rest, source, dstStart, dst, out, hok, hd, h => by
    rw [OpList.lexOK, Bool.and_eq_true] at hok
    simp only [splitOps] at h
    exact splitOps_subOK src scope hsc rest source dstStart _ out hok.2
      (forall_snoc hd (store_subOK (chain_subOK ..) _ hok.1)) h
  | .cons (.as_ p k n) rest, source, dstStart, dst, out, hok, hd, h => by
    rw [OpList.lexOK, Bool.and_eq_true] at hok
    simp only [splitOps] at h
    exact splitOps_subOK src scope hsc rest source dstStart _ out hok.2
      (forall_snoc hd (store_subOK (rename_subOK (chain_subOK dst dstStart source) (identName n)) _ hok.1)) h
  | .cons (.sort p k terms) rest, source, dstStart, dst, out, hok, hd, h => by
    rw [OpList.lexOK, Bool.and_eq_true, Op.lexOK] at hok
    simp only [splitOps] at h
    refine splitOps_subOK src scope hsc rest source dstStart _ out hok.2 ?_ h
    exact attach_subOK hd _ dstStart source
      (fun s hs => ⟨hs.source, hs.op, fun ts hts => by cases hts; exact hok.1, hs.take⟩)
  | .cons (.take p k n) rest, source, dstStart, dst, out, hok, hd, h => by
    rw [OpList.lexOK, Bool.and_eq_true, Op.lexOK] at hok
    simp only [splitOps] at h
    refine splitOps_subOK src scope hsc rest source dstStart _ out hok.2 ?_ h
    exact attach_subOK hd _ dstStart source
      (fun s hs => ⟨hs.source, hs.op, hs.sort, fun m hm => by cases hm; exact hok.1⟩)
  | .cons (.top p k n b none) rest, source, dstStart, dst, out, hok, hd, h => by
    simp only [splitOps] at h; cases h
  | .cons (.top p k n b (some c)) rest, source, dstStart, dst, out, hok, hd, h => by
    rw [OpList.lexOK, Bool.and_eq_true, Op.lexOK, Bool.and_eq_true] at hok
    simp only [splitOps] at h
    refine splitOps_subOK src scope hsc rest source dstStart _ out hok.2 ?_ h
    exact attach_subOK hd _ dstStart source
      (fun s hs => ⟨hs.source, hs.op,
        fun ts hts => by cases hts; simpa using hok.1.2,
        fun m hm => by cases hm; exact hok.1.1⟩)
  | .cons (.join p k kind ka fl lp right rp on conds) rest, source, dstStart, dst, out, hok, hd, h => by
    rw [OpList.lexOK, Bool.and_eq_true, Op.lexOK, Bool.and_eq_true] at hok
    simp only [splitOps] at h
    obtain ⟨dst1, h1, h⟩ := bind_ok h
    have ihr := splitQueries_subOK src scope hsc right dst dst1 hok.1.1 hd h1
    split at h
    · cases h
    · rename_i kw hkw
      obtain ⟨cond, hc, h⟩ := bind_ok h
      have hcond : Good cond :=
        writeExpr_Good ⟨src, scope, .join⟩ hsc (buildJoin_lexOK conds hok.1.2) hc
      refine splitOps_subOK src scope hsc rest source dstStart _ out hok.2 (forall_snoc ihr ?_) h
      refine ⟨?_, fun o h => (by cases h), fun o h => (by cases h), fun o h => (by cases h)⟩
      refine joinSource_good _ ?_ hcond (joinKw_cases hkw) _
      split
      · split
        · exact good_qid _
        · exact good_nil
      · exact good_qid _
end

end Pql.C05
