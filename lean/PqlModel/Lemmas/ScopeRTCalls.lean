/-
Scoped ParseRoundtrip (task R5), part 3: calls (port of Lemmas/SqlRoundtripCalls.lean to `GoodS`).
-/
import PqlModel.Lemmas.ScopeRTCases
namespace Pql.RT
open Pql Sql CompileOracle

theorem known_preludeS {ctx : Ctx} {env : List (Bytes × Expr)} {fn : Ident} {a b : Span} {args : ExprList} {writer : String} {np : Bool}
    {cs : List Chunk} {want : SExpr} {F : SExprList → Option SExpr}
    (hk : knownFunction fn.name = some (writer, np)) (gargs : ∀ e ∈ args.toList, GoodS ctx env e)
    (h1 : writeExpr ctx (.call fn a args b) = .ok cs)
    (h2 : (trList (ctx.mode == .join) (substList env args)).bind F = some want) :
    ∃ ps as ws, ArgRel ctx args as ws ps ∧ assembleKnown writer (ps.map fun p => (p.1, p.2.1)) = .ok cs ∧
      F (ofL (ps.map (·.2.2))) = some want := by
  simp only [writeExpr, hk] at h1
  split at h1
  · cases h1
  · obtain ⟨as, has, h1⟩ := bind_ok h1
    cases hws : trList (ctx.mode == .join) (substList env args) with
    | none => rw [hws] at h2; cases h2
    | some ws =>
      rw [hws] at h2
      obtain ⟨ps, hps⟩ := writeList_relS args as ws has hws gargs
      refine ⟨ps, as, ws, hps, ?_, ?_⟩
      · rw [← zip_rel hps]; exact h1
      · rw [← hps.trs]; exact h2

/-! ### the built-ins -/

section
variable {ctx : Ctx} {env : List (Bytes × Expr)} {fn : Ident} (a b : Span) {args : ExprList} (gargs : ∀ e ∈ args.toList, GoodS ctx env e)
include gargs

theorem goodS_not (hn : fn.name = Bytes.ofString "not") : GoodS ctx env (.call fn a args b) := by
  have hk := hn ▸ kf_not
  apply GoodS.ofExpr (needsWrap_call hk)
  intro cs want h1 h2
  simp only [substExpr] at h2
  rw [tr_not _ _ _ _ _ hn] at h2
  obtain ⟨ps, as, ws, hrel, hak, htr⟩ := known_preludeS hk gargs h1 h2
  match ps, hrel, hak, htr with
  | [], _, hak, _ => cases hak
  | [p], hrel, hak, htr =>
    simp only [List.map_cons, List.map_nil, ak_not, Except.ok.injEq, toList_ofL, Option.some.injEq] at hak htr
    subst hak htr
    simpa using notP (hrel.good p (by simp)).2
  | p :: q :: r, _, _, htr => simp at htr

theorem goodS_isnull (hn : fn.name = Bytes.ofString "isnull") : GoodS ctx env (.call fn a args b) := by
  have hk := hn ▸ kf_isnull
  apply GoodS.ofExpr (needsWrap_call hk)
  intro cs want h1 h2
  simp only [substExpr] at h2
  rw [tr_isnull _ _ _ _ _ hn] at h2
  obtain ⟨ps, as, ws, hrel, hak, htr⟩ := known_preludeS hk gargs h1 h2
  match ps, hrel, hak, htr with
  | [], _, hak, _ => cases hak
  | [p], hrel, hak, htr =>
    simp only [List.map_cons, List.map_nil, ak_isnull, Except.ok.injEq, toList_ofL, Option.some.injEq] at hak htr
    subst hak htr
    simpa using isnullP (hrel.good p (by simp)).2
  | p :: q :: r, _, _, htr => simp at htr

theorem goodS_isnotnull (hn : fn.name = Bytes.ofString "isnotnull") : GoodS ctx env (.call fn a args b) := by
  have hk := hn ▸ kf_isnotnull
  apply GoodS.ofExpr (needsWrap_call hk)
  intro cs want h1 h2
  simp only [substExpr] at h2
  rw [tr_isnotnull _ _ _ _ _ hn] at h2
  obtain ⟨ps, as, ws, hrel, hak, htr⟩ := known_preludeS hk gargs h1 h2
  match ps, hrel, hak, htr with
  | [], _, hak, _ => cases hak
  | [p], hrel, hak, htr =>
    simp only [List.map_cons, List.map_nil, ak_isnotnull, Except.ok.injEq, toList_ofL, Option.some.injEq] at hak htr
    subst hak htr
    simpa using isnotnullP (hrel.good p (by simp)).2
  | p :: q :: r, _, _, htr => simp at htr

theorem goodS_tolower (hn : fn.name = Bytes.ofString "tolower") : GoodS ctx env (.call fn a args b) := by
  have hk := hn ▸ kf_tolower
  apply GoodS.ofExpr (needsWrap_call hk)
  intro cs want h1 h2
  simp only [substExpr] at h2
  rw [tr_tolower _ _ _ _ _ hn] at h2
  obtain ⟨ps, as, ws, hrel, hak, htr⟩ := known_preludeS hk gargs h1 h2
  match ps, hrel, hak, htr with
  | [], _, hak, _ => cases hak
  | [p], hrel, hak, htr =>
    simp only [List.map_cons, List.map_nil, ak_tolower, Except.ok.injEq, toList_ofL, Option.some.injEq] at hak htr
    subst hak htr
    have key := (call1P ws_LOWER (hrel.good p (by simp)).1).toExpr
    -- `LOWER` and `lower` are the same function name up to `normS`
    intro rest hr
    obtain ⟨s, hs, hp⟩ := key rest hr
    refine ⟨s, ?_, by simpa using hp⟩
    rw [hs]; simp only [normS, fnCall, List.foldr]; congr 1
  | p :: q :: r, _, _, htr => simp at htr

theorem goodS_toupper (hn : fn.name = Bytes.ofString "toupper") : GoodS ctx env (.call fn a args b) := by
  have hk := hn ▸ kf_toupper
  apply GoodS.ofExpr (needsWrap_call hk)
  intro cs want h1 h2
  simp only [substExpr] at h2
  rw [tr_toupper _ _ _ _ _ hn] at h2
  obtain ⟨ps, as, ws, hrel, hak, htr⟩ := known_preludeS hk gargs h1 h2
  match ps, hrel, hak, htr with
  | [], _, hak, _ => cases hak
  | [p], hrel, hak, htr =>
    simp only [List.map_cons, List.map_nil, ak_toupper, Except.ok.injEq, toList_ofL, Option.some.injEq] at hak htr
    subst hak htr
    have key := (call1P ws_UPPER (hrel.good p (by simp)).1).toExpr
    intro rest hr
    obtain ⟨s, hs, hp⟩ := key rest hr
    refine ⟨s, ?_, by simpa using hp⟩
    rw [hs]; simp only [normS, fnCall, List.foldr]; congr 1
  | p :: q :: r, _, _, htr => simp at htr

theorem goodS_now (hn : fn.name = Bytes.ofString "now") : GoodS ctx env (.call fn a args b) := by
  have hk := hn ▸ kf_now
  apply GoodS.ofAtom
  intro cs want h1 h2
  simp only [substExpr] at h2
  rw [tr_now _ _ _ _ _ hn] at h2
  obtain ⟨ps, as, ws, hrel, hak, htr⟩ := known_preludeS hk gargs h1 h2
  match ps, hrel, hak, htr with
  | [], hrel, hak, htr =>
    simp only [List.map_nil, ak_now, Except.ok.injEq, toList_ofL, Option.some.injEq] at hak htr
    subst hak htr
    simpa using nowP
  | p :: r, _, _, htr => simp at htr

theorem goodS_count (hn : fn.name = Bytes.ofString "count") : GoodS ctx env (.call fn a args b) := by
  have hk := hn ▸ kf_count
  apply GoodS.ofAtom
  intro cs want h1 h2
  simp only [substExpr] at h2
  rw [tr_count _ _ _ _ _ hn] at h2
  obtain ⟨ps, as, ws, hrel, hak, htr⟩ := known_preludeS hk gargs h1 h2
  match ps, hrel, hak, htr with
  | [], hrel, hak, htr =>
    simp only [List.map_nil, ak_count, Except.ok.injEq, toList_ofL, Option.some.injEq] at hak htr
    subst hak htr
    simpa [fnCall] using call0P ws_count
  | p :: r, _, _, htr => simp at htr

theorem goodS_countif (hn : fn.name = Bytes.ofString "countif") : GoodS ctx env (.call fn a args b) := by
  have hk := hn ▸ kf_countif
  apply GoodS.ofAtom
  intro cs want h1 h2
  simp only [substExpr] at h2
  rw [tr_countif _ _ _ _ _ hn] at h2
  obtain ⟨ps, as, ws, hrel, hak, htr⟩ := known_preludeS hk gargs h1 h2
  match ps, hrel, hak, htr with
  | [], _, hak, _ => cases hak
  | [p], hrel, hak, htr =>
    simp only [List.map_cons, List.map_nil, ak_countif, Except.ok.injEq, toList_ofL, Option.some.injEq] at hak htr
    subst hak htr
    simpa using countifP (hrel.good p (by simp)).1
  | p :: q :: r, _, _, htr => simp at htr

theorem goodS_if {writerName : String} (hn : fn.name = Bytes.ofString writerName)
    (hk : knownFunction (Bytes.ofString writerName) = some ("writeIfFunction", true))
    (htr : ∀ j args, tr j (.call fn a args b) = (trList j args).bind fun as =>
      match as.toList with | [c, t, e] => some (.case_ (coalesceFalse c) t e) | _ => none) :
    GoodS ctx env (.call fn a args b) := by
  have hk := hn ▸ hk
  apply GoodS.ofExpr (needsWrap_call hk)
  intro cs want h1 h2
  simp only [substExpr] at h2
  rw [htr] at h2
  obtain ⟨ps, as, ws, hrel, hak, htr⟩ := known_preludeS hk gargs h1 h2
  match ps, hrel, hak, htr with
  | [], _, hak, _ => cases hak
  | [p], _, hak, _ => cases hak
  | [p, q], _, hak, _ => cases hak
  | [p, q, r], hrel, hak, htr =>
    simp only [List.map_cons, List.map_nil, ak_if, Except.ok.injEq, toList_ofL, Option.some.injEq] at hak htr
    subst hak htr
    have := (caseP (hrel.good p (by simp)).1 (hrel.good q (by simp)).1 (hrel.good r (by simp)).1).toExpr
    simpa using this
  | p :: q :: r :: s :: t, _, _, htr => simp at htr

theorem goodS_iff (hn : fn.name = Bytes.ofString "iff") : GoodS ctx env (.call fn a args b) :=
  goodS_if a b gargs hn kf_iff (fun j args => tr_iff j fn a b args hn)

theorem goodS_iif (hn : fn.name = Bytes.ofString "iif") : GoodS ctx env (.call fn a args b) :=
  goodS_if a b gargs hn kf_iif (fun j args => tr_iif j fn a b args hn)

theorem goodS_strcat (hn : fn.name = Bytes.ofString "strcat") : GoodS ctx env (.call fn a args b) := by
  have hk := hn ▸ kf_strcat
  apply GoodS.ofExpr (needsWrap_call hk)
  intro cs want h1 h2
  simp only [substExpr] at h2
  rw [tr_strcat _ _ _ _ _ hn] at h2
  obtain ⟨ps, as, ws, hrel, hak, htr⟩ := known_preludeS hk gargs h1 h2
  match ps, hrel, hak, htr with
  | [], _, hak, _ => cases hak
  | p :: r, hrel, hak, htr =>
    simp only [List.map_cons, ak_strcat, Except.ok.injEq, toList_ofL, Option.some.injEq] at hak htr
    subst hak htr
    have key := strcatP (toksOf (wrapMaybe p.1 p.2.1), p.2.2) (wrapPairs r) (hrel.good p (by simp)).2
      (by
        intro q hq
        simp only [wrapPairs, List.mem_map] at hq
        obtain ⟨q', hq', rfl⟩ := hq
        exact (hrel.good q' (by simp [hq'])).2)
    rw [toksOf_sepChunks]
    have e1 := sepTail_wrap " || " (S "||") tt_concat r
    simp only [List.map_map, Function.comp_def] at e1 ⊢
    rw [e1]
    have e2 : (wrapPairs r).foldl (fun acc b => SExpr.bin "||" acc b.2) p.2.2 =
        (r.map (·.2.2)).foldl (fun acc y => SExpr.bin "||" acc y) p.2.2 := by
      simp [wrapPairs, List.foldl_map]
    rw [← e2]
    exact key

end


theorem goodS_passthrough {ctx : Ctx} {env : List (Bytes × Expr)} {fn : Ident} (a b : Span) {args : ExprList}
    (gargs : ∀ e ∈ args.toList, GoodS ctx env e) (hnone : knownFunction fn.name = none)
    (hsafe : wordSafe fn.name = true)
    (htr : ∀ j args, tr j (.call fn a args b) =
      (trList j args).bind fun as => some (.call (lower fn.name) false as .none_)) :
    GoodS ctx env (.call fn a args b) := by
  apply GoodS.ofAtom
  intro cs want h1 h2
  simp only [substExpr] at h2
  rw [htr] at h2
  simp only [writeExpr, hnone] at h1
  obtain ⟨as, has, h1⟩ := bind_ok h1
  cases hws : trList (ctx.mode == .join) (substList env args) with
  | none => rw [hws] at h2; cases h2
  | some ws =>
    rw [hws] at h2
    obtain ⟨ps, hps⟩ := writeList_relS args as ws has hws gargs
    simp only [pure, Except.pure, Except.ok.injEq, Option.bind_some, Option.some.injEq] at h1 h2
    subst h1 h2
    rw [hps.chunks, hps.trs]
    match ps, hps with
    | [], _ =>
      have := call0P hsafe
      refine AtomP.congr (by simpa [sepChunks] using this) ?_
      simp [normS, normL, ofL, lower_idem]
    | p :: r, hps =>
      have key := callNP hsafe (toksOf p.2.1, p.2.2) (plainPairs r) (hps.good p (by simp)).1
        (by
          intro q hq
          simp only [plainPairs, List.mem_map] at hq
          obtain ⟨q', hq', rfl⟩ := hq
          exact (hps.good q' (by simp [hq'])).1)
      have e1 := sepTail_plain ", " (S ",") tt_comma r
      refine AtomP.congr (w := .call fn.name false (ofL (p.2.2 :: (plainPairs r).map (·.2))) .none_) ?_ ?_
      · simp only [List.map_cons, toksOf_cons, chunkToks_fname, chunkToks_txt, tt_lparen, toksOf_append,
          toksOf_sepChunks, e1, tt_rparen, toksOf_nil, List.append_nil]
        simpa using key
      · simp [normS, lower_idem, plainPairs, Function.comp_def]


theorem goodS_call {ctx : Ctx} {env : List (Bytes × Expr)} (fn : Ident) (a b : Span) {args : ExprList}
    (gargs : ∀ e ∈ args.toList, GoodS ctx env e)
    (hsafe : ((knownFunction fn.name).isSome || wordSafe fn.name) = true) : GoodS ctx env (.call fn a args b) := by
  by_cases h1 : fn.name = Bytes.ofString "count"; · exact goodS_count a b gargs h1
  by_cases h2 : fn.name = Bytes.ofString "countif"; · exact goodS_countif a b gargs h2
  by_cases h3 : fn.name = Bytes.ofString "iff"; · exact goodS_iff a b gargs h3
  by_cases h4 : fn.name = Bytes.ofString "iif"; · exact goodS_iif a b gargs h4
  by_cases h5 : fn.name = Bytes.ofString "isnotnull"; · exact goodS_isnotnull a b gargs h5
  by_cases h6 : fn.name = Bytes.ofString "isnull"; · exact goodS_isnull a b gargs h6
  by_cases h7 : fn.name = Bytes.ofString "not"; · exact goodS_not a b gargs h7
  by_cases h8 : fn.name = Bytes.ofString "now"; · exact goodS_now a b gargs h8
  by_cases h9 : fn.name = Bytes.ofString "strcat"; · exact goodS_strcat a b gargs h9
  by_cases h10 : fn.name = Bytes.ofString "tolower"; · exact goodS_tolower a b gargs h10
  by_cases h11 : fn.name = Bytes.ofString "toupper"; · exact goodS_toupper a b gargs h11
  have hnone : knownFunction fn.name = none := by
    simp [knownFunction, Facts.knownFunctions, List.find?, beq_false' h1, beq_false' h2, beq_false' h3,
      beq_false' h4, beq_false' h5, beq_false' h6, beq_false' h7, beq_false' h8, beq_false' h9, beq_false' h10,
      beq_false' h11]
  refine goodS_passthrough a b gargs hnone (by simpa [hnone] using hsafe) ?_
  intro j args
  simp only [tr, isName_false h1, isName_false h2, isName_false h3, isName_false h4, isName_false h5,
    isName_false h6, isName_false h7, isName_false h8, isName_false h9, isName_false h10, isName_false h11,
    Bool.false_eq_true, if_false, Bool.or_self]
  rfl


end Pql.RT
