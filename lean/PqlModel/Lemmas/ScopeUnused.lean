/-
A name that no expression of the program mentions (as an unquoted single-part identifier) is
never looked up: scopes that differ at that name only give the same results.
-/
import PqlModel.Lemmas.ScopeCompile
namespace Pql

/-! ### which names an expression looks up -/

mutual
/-- does `e` contain the unquoted single-part identifier `k`? -/
def exprMentions (k : Bytes) : Expr → Bool
  | .nil => false
  | .qident parts =>
    match parts with
    | [p] => !p.quoted && p.name == k
    | _ => false
  | .lit .. => false
  | .unary _ _ x => exprMentions k x
  | .binary x _ _ y => exprMentions k x || exprMentions k y
  | .inE x _ _ vals _ => exprMentions k x || listMentions k vals
  | .paren _ x _ => exprMentions k x
  | .call _ _ args _ => listMentions k args
  | .index x _ idx _ => exprMentions k x || exprMentions k idx
def listMentions (k : Bytes) : ExprList → Bool
  | .nil => false
  | .cons e es => exprMentions k e || listMentions k es
end

/-- `project name` stands for `project name = name` -/
def projExpr (c : Column) : Expr :=
  match c.x with
  | .nil => .qident (match c.name with | some n => [n] | none => [])
  | x => x

mutual
/-- every expression of a query that is ever written (join conditions before their rewrite) -/
def tabularExprs : Tabular → List Expr
  | .nil => []
  | .mk _ ops => opsExprs ops
def opsExprs : OpList → List Expr
  | .nil => []
  | .cons o os => opExprs o ++ opsExprs os
def opExprs : Op → List Expr
  | .where_ _ _ e => [e]
  | .sort _ _ ts => ts.map (·.x)
  | .take _ _ n => [n]
  | .top _ _ n _ c => n :: (match c with | some t => [t.x] | none => [])
  | .project _ _ cs => cs.map projExpr
  | .extend _ _ cs => cs.map (·.x)
  | .summarize _ _ cs _ gs => gs.map (·.x) ++ cs.map (·.x)
  | .join _ _ _ _ _ _ right _ _ conds =>
    -- a join without conditions is written as `on true`
    tabularExprs right ++
      (match conds with
       | .nil => [.qident [⟨Bytes.ofString "true", .zero, false⟩]]
       | .cons c cs => c :: cs.toList)
  | .count .. => []
  | .as_ .. => []
  | .render .. => []
end

/-- the expressions `compileStmts` / `compileChunks` write: let values before the query, and
    the query's -/
def stmtsExprs : List Stmt → Bool → List Expr
  | [], _ => []
  | .tabular t :: rest, _ => tabularExprs t ++ stmtsExprs rest true
  | .let_ _ _ _ x :: rest, seen => (if seen then [] else [x]) ++ stmtsExprs rest seen

/-- scopes that agree except possibly at `k` -/
def ScopeEqOff (k : Bytes) (s s' : Scope) : Prop := ∀ n, n ≠ k → lookupScope s n = lookupScope s' n

theorem ScopeEqOff.cons {k : Bytes} {s s' : Scope} (h : ScopeEqOff k s s') (kv : Bytes × List Chunk) :
    ScopeEqOff k (kv :: s) (kv :: s') := by
  intro n hn
  rw [lookupScope_cons, lookupScope_cons, h n hn]

/-- an extra binding for `k` on one side -/
theorem ScopeEqOff.extra (k : Bytes) (v : List Chunk) (s : Scope) : ScopeEqOff k ((k, v) :: s) s := by
  intro n hn
  rw [lookupScope_cons]
  have : (k == n) = false := by
    simp only [beq_eq_false_iff_ne, ne_eq]
    exact fun h => hn h.symm
  simp only [this, Bool.false_eq_true, if_false]

mutual
theorem writeExpr_off {k : Bytes} {src : Bytes} {m : Mode} {s s' : Scope} (h : ScopeEqOff k s s') :
    (e : Expr) → exprMentions k e = false → writeExpr ⟨src, s, m⟩ e = writeExpr ⟨src, s', m⟩ e
  | .paren _ x _, hm => by
    simp only [exprMentions] at hm
    simp only [writeExpr]
    exact writeExpr_off h x hm
  | .qident [], _ => by simp only [writeExpr]
  | .qident (_ :: _ :: _), _ => by simp only [writeExpr]
  | .qident [p], hm => by
    simp only [exprMentions] at hm
    cases hq : p.quoted with
    | true => simp only [writeExpr, hq]; rfl
    | false =>
      simp only [hq, Bool.not_false, Bool.true_and, beq_eq_false_iff_ne, ne_eq] at hm
      simp only [writeExpr, h p.name hm]
  | .lit .., _ => by simp only [writeExpr]
  | .nil, _ => by simp only [writeExpr]
  | .unary _ _ x, hm => by
    simp only [exprMentions] at hm
    simp only [writeExpr, writeExpr_off h x hm]
  | .binary x _ _ y, hm => by
    simp only [exprMentions, Bool.or_eq_false_iff] at hm
    simp only [writeExpr, writeExpr_off h x hm.1, writeExpr_off h y hm.2]
  | .index x _ y _, hm => by
    simp only [exprMentions, Bool.or_eq_false_iff] at hm
    simp only [writeExpr, writeExpr_off h x hm.1, writeExpr_off h y hm.2]
  | .inE x _ _ vals _, hm => by
    simp only [exprMentions, Bool.or_eq_false_iff] at hm
    simp only [writeExpr, writeExpr_off h x hm.1, writeListMP_off h vals hm.2]
  | .call _ _ args _, hm => by
    simp only [exprMentions] at hm
    simp only [writeExpr, writeList_off h args hm]

theorem writeList_off {k : Bytes} {src : Bytes} {m : Mode} {s s' : Scope} (h : ScopeEqOff k s s') :
    (es : ExprList) → listMentions k es = false → writeList ⟨src, s, m⟩ es = writeList ⟨src, s', m⟩ es
  | .nil, _ => by simp only [writeList]
  | .cons e es, hm => by
    simp only [listMentions, Bool.or_eq_false_iff] at hm
    simp only [writeList, writeExpr_off h e hm.1, writeList_off h es hm.2]

theorem writeListMP_off {k : Bytes} {src : Bytes} {m : Mode} {s s' : Scope} (h : ScopeEqOff k s s') :
    (es : ExprList) → listMentions k es = false →
      writeListMaybeParen' ⟨src, s, m⟩ es = writeListMaybeParen' ⟨src, s', m⟩ es
  | .nil, _ => by simp only [writeListMaybeParen']
  | .cons e es, hm => by
    simp only [listMentions, Bool.or_eq_false_iff] at hm
    simp only [writeListMaybeParen', writeExpr_off h e hm.1, writeListMP_off h es hm.2]
end

/-! ### join conditions -/

theorem rewriteSimple_mentions {k : Bytes} {c : Expr} (h : exprMentions k c = false) :
    exprMentions k (rewriteSimpleJoinCondition c) = false := by
  unfold rewriteSimpleJoinCondition
  split
  · split
    · exact h
    · simp only [exprMentions, Bool.or_self]
  · exact h

theorem buildJoinGo_mentions {k : Bytes} : (ys : ExprList) → (x : Expr) → exprMentions k x = false →
    (∀ y ∈ ys.toList, exprMentions k y = false) → exprMentions k (buildJoinCondition.go x ys) = false
  | .nil, x, hx, _ => by
    simp only [buildJoinCondition.go]
    exact hx
  | .cons y ys, x, hx, h => by
    simp only [buildJoinCondition.go]
    refine buildJoinGo_mentions ys _ ?_ (fun z hz => h z (by simp only [ExprList.toList, List.mem_cons, hz, or_true]))
    simp only [exprMentions, hx, Bool.false_or]
    exact rewriteSimple_mentions (h y (by simp only [ExprList.toList, List.mem_cons, true_or]))

theorem buildJoin_mentions {k : Bytes} (conds : ExprList)
    (h : ∀ e ∈ (match conds with
       | .nil => [Expr.qident [⟨Bytes.ofString "true", .zero, false⟩]]
       | .cons c cs => c :: cs.toList), exprMentions k e = false) :
    exprMentions k (buildJoinCondition conds) = false := by
  cases conds with
  | nil =>
    simp only [buildJoinCondition]
    exact h _ (by simp only [List.mem_singleton])
  | cons c cs =>
    simp only [buildJoinCondition]
    exact buildJoinGo_mentions cs _ (rewriteSimple_mentions (h c (by simp only [List.mem_cons, true_or])))
      (fun y hy => h y (by simp only [List.mem_cons, hy, or_true]))

/-! ### subqueries -/

/-- the expressions `Subquery.write` writes for an operator -/
def opWriteExprs : Op → List Expr
  | .project _ _ cols => cols.map projExpr
  | .extend _ _ cols => cols.map (·.x)
  | .summarize _ _ cols _ gs => gs.map (·.x) ++ cols.map (·.x)
  | .where_ _ _ pred => [pred]
  | _ => []

def subExprs (sub : Subquery) : List Expr :=
  (match sub.op with | some o => opWriteExprs o | none => []) ++
  (match sub.sort with | some ts => ts.map (·.x) | none => []) ++
  (match sub.take with | some n => [n] | none => [])

theorem mapM_congr_mem {α β ε : Type} {f g : α → Except ε β} :
    (l : List α) → (∀ a ∈ l, f a = g a) → l.mapM f = l.mapM g
  | [], _ => rfl
  | a :: l, h => by
    rw [List.mapM_cons, List.mapM_cons, h a (List.mem_cons_self),
      mapM_congr_mem l (fun b hb => h b (List.mem_cons_of_mem _ hb))]

section
variable {src : Bytes} {m : Mode} {s s' : Scope}

theorem writeColumns_agree : (cs : List Column) →
    (∀ c ∈ cs, writeExpr ⟨src, s, m⟩ c.x = writeExpr ⟨src, s', m⟩ c.x) →
    writeColumns ⟨src, s, m⟩ cs = writeColumns ⟨src, s', m⟩ cs
  | [], _ => by simp only [writeColumns]
  | c :: cs, h => by
    simp only [writeColumns, h c (List.mem_cons_self), columnAlias_scopeEq s s',
      writeColumns_agree cs (fun d hd => h d (List.mem_cons_of_mem _ hd))]

theorem writeSortTerms_agree : (ts : List SortTerm) →
    (∀ t ∈ ts, writeExpr ⟨src, s, m⟩ t.x = writeExpr ⟨src, s', m⟩ t.x) →
    writeSortTerms ⟨src, s, m⟩ ts = writeSortTerms ⟨src, s', m⟩ ts
  | [], _ => by simp only [writeSortTerms]
  | t :: ts, h => by
    simp only [writeSortTerms, h t (List.mem_cons_self),
      writeSortTerms_agree ts (fun d hd => h d (List.mem_cons_of_mem _ hd))]

theorem projExpr_write (ctx : Ctx) (c : Column) :
    (match c.x with
      | .nil => writeExpr ctx (.qident (match c.name with | some n => [n] | none => []))
      | x => writeExpr ctx x) = writeExpr ctx (projExpr c) := by
  unfold projExpr
  cases c.x <;> rfl

theorem Subquery_write_agree (sub : Subquery)
    (H : ∀ e ∈ subExprs sub, writeExpr ⟨src, s, m⟩ e = writeExpr ⟨src, s', m⟩ e) :
    sub.write ⟨src, s, m⟩ = sub.write ⟨src, s', m⟩ := by
  obtain ⟨name, source, op, sort, take⟩ := sub
  have hsort : ∀ ts, sort = some ts → writeSortTerms ⟨src, s, m⟩ ts = writeSortTerms ⟨src, s', m⟩ ts := by
    intro ts hts
    subst hts
    exact writeSortTerms_agree ts fun t ht => H _ (by
      simp only [subExprs, List.mem_append, List.mem_map]
      exact Or.inl (Or.inr ⟨t, ht, rfl⟩))
  have htake : ∀ n, take = some n → writeExpr ⟨src, s, m⟩ n = writeExpr ⟨src, s', m⟩ n := by
    intro n hn
    subst hn
    exact H _ (by simp only [subExprs, List.mem_append, List.mem_singleton, or_true])
  have hop : ∀ o, op = some o → ∀ e ∈ opWriteExprs o, writeExpr ⟨src, s, m⟩ e = writeExpr ⟨src, s', m⟩ e := by
    intro o ho e he
    subst ho
    exact H _ (by
      simp only [subExprs, List.mem_append]
      exact Or.inl (Or.inl he))
  clear H
  (cases sort <;> cases take) <;> (
    (first
      | have hS := hsort _ rfl
      | have hS : writeSortTerms ⟨src, s, m⟩ [] = writeSortTerms ⟨src, s', m⟩ [] := by simp only [writeSortTerms])
    (first
      | have hT := htake _ rfl
      | have hT : writeExpr ⟨src, s, m⟩ .nil = writeExpr ⟨src, s', m⟩ .nil := by simp only [writeExpr])
    rcases op with _ | o
    · simp only [Subquery.write, hS, hT]
    · have ho := hop o rfl
      cases o with
      | project _ _ cols =>
        have hp : ∀ c ∈ cols, writeExpr ⟨src, s, m⟩ (projExpr c) = writeExpr ⟨src, s', m⟩ (projExpr c) :=
          fun c hc => ho _ (by simp only [opWriteExprs, List.mem_map]; exact ⟨c, hc, rfl⟩)
        simp only [Subquery.write, hS, hT]
        congr 1
        apply mapM_congr_mem
        intro c hc
        have := hp c hc
        obtain ⟨nm, asg, x⟩ := c
        cases x <;> cases nm <;> simp only [projExpr] at this <;> dsimp only <;> rw [this]
      | extend _ _ cols =>
        have hc : writeColumns ⟨src, s, m⟩ cols = writeColumns ⟨src, s', m⟩ cols :=
          writeColumns_agree cols fun c hc => ho _ (by simp only [opWriteExprs, List.mem_map]; exact ⟨c, hc, rfl⟩)
        simp only [Subquery.write, hc, hS, hT]
      | summarize _ _ cols _ gs =>
        have h1 : writeColumns ⟨src, s, m⟩ cols = writeColumns ⟨src, s', m⟩ cols :=
          writeColumns_agree cols fun c hc => ho _ (by
            simp only [opWriteExprs, List.mem_append, List.mem_map]; exact Or.inr ⟨c, hc, rfl⟩)
        have h2 : writeColumns ⟨src, s, m⟩ gs = writeColumns ⟨src, s', m⟩ gs :=
          writeColumns_agree gs fun c hc => ho _ (by
            simp only [opWriteExprs, List.mem_append, List.mem_map]; exact Or.inl ⟨c, hc, rfl⟩)
        have h3 : gs.mapM (fun (c : Column) => writeExpr ⟨src, s, m⟩ c.x) =
            gs.mapM (fun (c : Column) => writeExpr ⟨src, s', m⟩ c.x) :=
          mapM_congr_mem gs fun c hc => ho _ (by
            simp only [opWriteExprs, List.mem_append, List.mem_map]; exact Or.inl ⟨c, hc, rfl⟩)
        simp only [Subquery.write, h1, h2, h3, hS, hT]
      | where_ _ _ pred =>
        have hw : writeExpr ⟨src, s, m⟩ pred = writeExpr ⟨src, s', m⟩ pred :=
          ho _ (by simp only [opWriteExprs, List.mem_singleton])
        simp only [Subquery.write, hw, hS, hT]
      | count => simp only [Subquery.write, hS, hT]
      | sort => simp only [Subquery.write, hS, hT]
      | take => simp only [Subquery.write, hS, hT]
      | top => simp only [Subquery.write, hS, hT]
      | join => simp only [Subquery.write, hS, hT]
      | as_ => simp only [Subquery.write, hS, hT]
      | render => simp only [Subquery.write, hS, hT])

theorem writeCtes_agree : (subs : List Subquery) →
    (∀ sub ∈ subs, sub.write ⟨src, s, m⟩ = sub.write ⟨src, s', m⟩) →
    writeCtes ⟨src, s, m⟩ subs = writeCtes ⟨src, s', m⟩ subs
  | [], _ => by simp only [writeCtes]
  | [a], h => by simp only [writeCtes, h a (List.mem_cons_self)]
  | a :: b :: rest, h => by
    simp only [writeCtes, h a (List.mem_cons_self),
      writeCtes_agree (b :: rest) (fun d hd => h d (List.mem_cons_of_mem _ hd))]

end

/-! ### the subquery splitter: same result -/

theorem mem_append_left' {α : Type} {a : α} {l₁ : List α} (l₂ : List α) (h : a ∈ l₁) : a ∈ l₁ ++ l₂ :=
  List.mem_append.2 (Or.inl h)

theorem mem_append_right' {α : Type} {a : α} (l₁ : List α) {l₂ : List α} (h : a ∈ l₂) : a ∈ l₁ ++ l₂ :=
  List.mem_append.2 (Or.inr h)

mutual
theorem splitQueries_off {k : Bytes} {src : Bytes} {s s' : Scope} (h : ScopeEqOff k s s') :
    (t : Tabular) → (∀ e ∈ tabularExprs t, exprMentions k e = false) → (dst : List Subquery) →
      splitQueries src s dst t = splitQueries src s' dst t
  | .nil, _, dst => by simp only [splitQueries]
  | .mk source ops, hm, dst => by
    simp only [tabularExprs] at hm
    simp only [splitQueries, splitOps_off h ops hm]

theorem splitOps_off {k : Bytes} {src : Bytes} {s s' : Scope} (h : ScopeEqOff k s s') :
    (ops : OpList) → (∀ e ∈ opsExprs ops, exprMentions k e = false) →
    (source : Option Ident) → (dstStart : Nat) → (dst : List Subquery) →
      splitOps src s source dstStart dst ops = splitOps src s' source dstStart dst ops
  | .nil, _, source, dstStart, dst => by simp only [splitOps]
  | .cons (.as_ _ _ name) rest, hm, source, dstStart, dst => by
    simp only [splitOps, splitOps_off h rest (fun e he => hm e (by simp only [opsExprs]; exact mem_append_right' _ he))]
  | .cons (.sort _ _ terms) rest, hm, source, dstStart, dst => by
    simp only [splitOps, splitOps_off h rest (fun e he => hm e (by simp only [opsExprs]; exact mem_append_right' _ he))]
  | .cons (.take _ _ n) rest, hm, source, dstStart, dst => by
    simp only [splitOps, splitOps_off h rest (fun e he => hm e (by simp only [opsExprs]; exact mem_append_right' _ he))]
  | .cons (.top _ _ n _ col) rest, hm, source, dstStart, dst => by
    simp only [splitOps, splitOps_off h rest (fun e he => hm e (by simp only [opsExprs]; exact mem_append_right' _ he))]
  | .cons (.join _ _ _ _ flavor _ right _ _ conds) rest, hm, source, dstStart, dst => by
    have hrest := splitOps_off (src := src) h rest (fun e he => hm e (by simp only [opsExprs]; exact mem_append_right' _ he))
    have hright := splitQueries_off (src := src) h right (fun e he => hm e (by
      simp only [opsExprs, opExprs]; exact mem_append_left' _ (mem_append_left' _ he)))
    have hcond : exprMentions k (buildJoinCondition conds) = false :=
      buildJoin_mentions conds (fun e he => hm e (by
        simp only [opsExprs, opExprs]; exact mem_append_left' _ (mem_append_right' _ he)))
    simp only [splitOps, hrest, hright, writeExpr_off h _ hcond]
  | .cons (.count ..) rest, hm, source, dstStart, dst => by
    simp only [splitOps, splitOps_off h rest (fun e he => hm e (by simp only [opsExprs]; exact mem_append_right' _ he))]
  | .cons (.where_ ..) rest, hm, source, dstStart, dst => by
    simp only [splitOps, splitOps_off h rest (fun e he => hm e (by simp only [opsExprs]; exact mem_append_right' _ he))]
  | .cons (.project ..) rest, hm, source, dstStart, dst => by
    simp only [splitOps, splitOps_off h rest (fun e he => hm e (by simp only [opsExprs]; exact mem_append_right' _ he))]
  | .cons (.extend ..) rest, hm, source, dstStart, dst => by
    simp only [splitOps, splitOps_off h rest (fun e he => hm e (by simp only [opsExprs]; exact mem_append_right' _ he))]
  | .cons (.summarize ..) rest, hm, source, dstStart, dst => by
    simp only [splitOps, splitOps_off h rest (fun e he => hm e (by simp only [opsExprs]; exact mem_append_right' _ he))]
  | .cons (.render ..) rest, hm, source, dstStart, dst => by
    simp only [splitOps, splitOps_off h rest (fun e he => hm e (by simp only [opsExprs]; exact mem_append_right' _ he))]
end

/-! ### the subquery splitter: every expression of a subquery comes from the query -/

theorem ex_bind_ok {ε α β : Type} (a : α) (f : α → Except ε β) : (Except.ok a >>= f) = f a := rfl
theorem ex_bind_error {ε α β : Type} (e : ε) (f : α → Except ε β) : (Except.error e >>= f) = .error e := rfl

def SubsAll (P : Expr → Prop) (subs : List Subquery) : Prop := ∀ sub ∈ subs, ∀ e ∈ subExprs sub, P e

theorem SubsAll.nil (P : Expr → Prop) : SubsAll P [] := by
  intro sub hsub
  cases hsub

theorem SubsAll.append {P : Expr → Prop} {a b : List Subquery} (ha : SubsAll P a) (hb : SubsAll P b) :
    SubsAll P (a ++ b) := by
  intro sub hsub
  rcases List.mem_append.1 hsub with h | h
  · exact ha sub h
  · exact hb sub h

theorem SubsAll.single {P : Expr → Prop} {sub : Subquery} (h : ∀ e ∈ subExprs sub, P e) : SubsAll P [sub] := by
  intro sub' hsub
  rw [List.mem_singleton.1 hsub]
  exact h

theorem subExprs_chain (dst : List Subquery) (ds : Nat) (source : Option Ident) :
    subExprs (chainSubquery dst ds source) = [] := rfl

theorem SubsAll.chain {P : Expr → Prop} (dst : List Subquery) (ds : Nat) (source : Option Ident) :
    SubsAll P [chainSubquery dst ds source] :=
  SubsAll.single (by rw [subExprs_chain]; intro e he; cases he)

theorem SubsAll.ite_chain {P : Expr → Prop} {dst : List Subquery} (hd : SubsAll P dst) (c : Bool) (ds : Nat)
    (source : Option Ident) : SubsAll P (if c = true then dst else dst ++ [chainSubquery dst ds source]) := by
  split
  · exact hd
  · exact hd.append (SubsAll.chain dst ds source)

theorem mem_setLast {dst : List Subquery} {f : Subquery → Subquery} {sub : Subquery}
    (h : sub ∈ setLast dst f) : sub ∈ dst ∨ ∃ s0 ∈ dst, sub = f s0 := by
  unfold setLast at h
  cases hr : dst.reverse with
  | nil =>
    rw [hr] at h
    cases h
  | cons s0 rest =>
    rw [hr] at h
    have hd : dst = (s0 :: rest).reverse := by rw [← hr, List.reverse_reverse]
    simp only [List.mem_reverse, List.mem_cons] at h
    rcases h with h | h
    · exact Or.inr ⟨s0, by rw [hd]; simp, h⟩
    · exact Or.inl (by rw [hd]; simp [h])

theorem SubsAll.setLast {P : Expr → Prop} {dst : List Subquery} (hd : SubsAll P dst) (f : Subquery → Subquery)
    (hf : ∀ sub, (∀ e ∈ subExprs sub, P e) → ∀ e ∈ subExprs (f sub), P e) : SubsAll P (setLast dst f) := by
  intro sub hsub
  rcases mem_setLast hsub with h | ⟨s0, hs0, rfl⟩
  · exact hd sub h
  · exact hf s0 (hd s0 hs0)

theorem opWriteExprs_subset {o : Op} {e : Expr} (h : e ∈ opWriteExprs o) : e ∈ opExprs o := by
  cases o <;> first | exact h | cases h

section
variable {P : Expr → Prop} {src : Bytes} {s : Scope}

/-- appending a subquery that carries the operator `o` -/
theorem SubsAll.push_op {dst : List Subquery} (hd : SubsAll P dst) (sub : Subquery) (o : Op)
    (ho : ∀ e ∈ opExprs o, P e) (hsub : subExprs sub = opWriteExprs o ++ [] ++ []) : SubsAll P (dst ++ [sub]) :=
  hd.append (SubsAll.single (by
    rw [hsub]
    intro e he
    simp only [List.append_nil] at he
    exact ho e (opWriteExprs_subset he)))

mutual
theorem splitQueries_all :
    (t : Tabular) → (∀ e ∈ tabularExprs t, P e) → (dst r : List Subquery) → SubsAll P dst →
      splitQueries src s dst t = .ok r → SubsAll P r
  | .nil, _, dst, r, _, h => by
    simp only [splitQueries] at h
    cases h
  | .mk source ops, hm, dst, r, hd, h => by
    simp only [tabularExprs] at hm
    simp only [splitQueries] at h
    cases hso : splitOps src s source dst.length dst ops with
    | error e =>
      rw [hso, ex_bind_error] at h
      cases h
    | ok d =>
      have hdd := splitOps_all ops hm source dst.length dst d hd hso
      rw [hso, ex_bind_ok] at h
      split at h
      · cases h
        exact hdd.append (SubsAll.chain _ _ _)
      · cases h
        exact hdd

theorem splitOps_all :
    (ops : OpList) → (∀ e ∈ opsExprs ops, P e) → (source : Option Ident) → (ds : Nat) →
    (dst r : List Subquery) → SubsAll P dst → splitOps src s source ds dst ops = .ok r → SubsAll P r
  | .nil, _, source, ds, dst, r, hd, h => by
    simp only [splitOps] at h
    cases h
    exact hd
  | .cons (.as_ p kw name) rest, hm, source, ds, dst, r, hd, h => by
    simp only [splitOps] at h
    exact splitOps_all rest (fun e he => hm e (by simp only [opsExprs]; exact mem_append_right' _ he))
      source ds _ r (hd.push_op _ (.as_ p kw name) (fun e he => hm e (by
        simp only [opsExprs]; exact mem_append_left' _ he)) rfl) h
  | .cons (.count p kw) rest, hm, source, ds, dst, r, hd, h => by
    simp only [splitOps] at h
    exact splitOps_all rest (fun e he => hm e (by simp only [opsExprs]; exact mem_append_right' _ he))
      source ds _ r (hd.push_op _ (.count p kw) (fun e he => hm e (by
        simp only [opsExprs]; exact mem_append_left' _ he)) rfl) h
  | .cons (.where_ p kw e0) rest, hm, source, ds, dst, r, hd, h => by
    simp only [splitOps] at h
    exact splitOps_all rest (fun e he => hm e (by simp only [opsExprs]; exact mem_append_right' _ he))
      source ds _ r (hd.push_op _ (.where_ p kw e0) (fun e he => hm e (by
        simp only [opsExprs]; exact mem_append_left' _ he)) rfl) h
  | .cons (.project p kw cs) rest, hm, source, ds, dst, r, hd, h => by
    simp only [splitOps] at h
    exact splitOps_all rest (fun e he => hm e (by simp only [opsExprs]; exact mem_append_right' _ he))
      source ds _ r (hd.push_op _ (.project p kw cs) (fun e he => hm e (by
        simp only [opsExprs]; exact mem_append_left' _ he)) rfl) h
  | .cons (.extend p kw cs) rest, hm, source, ds, dst, r, hd, h => by
    simp only [splitOps] at h
    exact splitOps_all rest (fun e he => hm e (by simp only [opsExprs]; exact mem_append_right' _ he))
      source ds _ r (hd.push_op _ (.extend p kw cs) (fun e he => hm e (by
        simp only [opsExprs]; exact mem_append_left' _ he)) rfl) h
  | .cons (.summarize p kw cs b gs) rest, hm, source, ds, dst, r, hd, h => by
    simp only [splitOps] at h
    exact splitOps_all rest (fun e he => hm e (by simp only [opsExprs]; exact mem_append_right' _ he))
      source ds _ r (hd.push_op _ (.summarize p kw cs b gs) (fun e he => hm e (by
        simp only [opsExprs]; exact mem_append_left' _ he)) rfl) h
  | .cons (.render p kw c w lp props rp) rest, hm, source, ds, dst, r, hd, h => by
    simp only [splitOps] at h
    exact splitOps_all rest (fun e he => hm e (by simp only [opsExprs]; exact mem_append_right' _ he))
      source ds _ r (hd.push_op _ (.render p kw c w lp props rp) (fun e he => hm e (by
        simp only [opsExprs]; exact mem_append_left' _ he)) rfl) h
  | .cons (.sort _ _ terms) rest, hm, source, ds, dst, r, hd, h => by
    simp only [splitOps] at h
    refine splitOps_all rest (fun e he => hm e (by simp only [opsExprs]; exact mem_append_right' _ he))
      source ds _ r (SubsAll.setLast (hd.ite_chain _ ds source) _ ?_) h
    intro sub hsub e he
    simp only [subExprs, List.mem_append] at he hsub
    rcases he with (he | he) | he
    · exact hsub e (Or.inl (Or.inl he))
    · exact hm e (by simp only [opsExprs, opExprs]; exact mem_append_left' _ he)
    · exact hsub e (Or.inr he)
  | .cons (.take _ _ n) rest, hm, source, ds, dst, r, hd, h => by
    simp only [splitOps] at h
    refine splitOps_all rest (fun e he => hm e (by simp only [opsExprs]; exact mem_append_right' _ he))
      source ds _ r (SubsAll.setLast (hd.ite_chain _ ds source) _ ?_) h
    intro sub hsub e he
    simp only [subExprs, List.mem_append] at he hsub
    rcases he with (he | he) | he
    · exact hsub e (Or.inl (Or.inl he))
    · exact hsub e (Or.inl (Or.inr he))
    · exact hm e (by simp only [opsExprs, opExprs]; exact mem_append_left' _ he)
  | .cons (.top _ _ n _ col) rest, hm, source, ds, dst, r, hd, h => by
    simp only [splitOps] at h
    cases col with
    | none => cases h
    | some c =>
      refine splitOps_all rest (fun e he => hm e (by simp only [opsExprs]; exact mem_append_right' _ he))
        source ds _ r (SubsAll.setLast (hd.ite_chain _ ds source) _ ?_) h
      intro sub hsub e he
      simp only [subExprs, List.mem_append] at he hsub
      rcases he with (he | he) | he
      · exact hsub e (Or.inl (Or.inl he))
      · exact hm e (by
          simp only [List.map_cons, List.map_nil, List.mem_singleton] at he
          simp only [opsExprs, opExprs, he]
          exact mem_append_left' _ (by simp))
      · exact hm e (by
          simp only [List.mem_singleton] at he
          simp only [opsExprs, opExprs, he]
          exact mem_append_left' _ (by simp))
  | .cons (.join _ _ _ _ flavor _ right _ _ conds) rest, hm, source, ds, dst, r, hd, h => by
    simp only [splitOps] at h
    cases hsq : splitQueries src s dst right with
    | error e =>
      rw [hsq, ex_bind_error] at h
      cases h
    | ok d =>
      have hdd := splitQueries_all right (fun e he => hm e (by
        simp only [opsExprs, opExprs]; exact mem_append_left' _ (mem_append_left' _ he))) dst d hd hsq
      rw [hsq, ex_bind_ok] at h
      split at h
      · cases h
      · cases hw : writeExpr ⟨src, s, .join⟩ (buildJoinCondition conds) with
        | error e =>
          rw [hw, ex_bind_error] at h
          cases h
        | ok cond =>
          rw [hw, ex_bind_ok] at h
          exact splitOps_all rest (fun e he => hm e (by simp only [opsExprs]; exact mem_append_right' _ he))
            source ds _ r (hdd.append (SubsAll.single (by intro e he; cases he))) h
end

end

/-! ### the statement loop -/

def StmtsResEqOff (k : Bytes) :
    Except WErr (Scope × Option Tabular) → Except WErr (Scope × Option Tabular) → Prop
  | .ok (sc, q), .ok (sc', q') => ScopeEqOff k sc sc' ∧ q = q'
  | .error e, .error e' => e = e'
  | _, _ => False

theorem compileStmts_off (k : Bytes) (src : Bytes) :
    (stmts : List Stmt) → (s s' : Scope) → (q : Option Tabular) → ScopeEqOff k s s' →
      (∀ e ∈ stmtsExprs stmts q.isSome, exprMentions k e = false) →
      StmtsResEqOff k (compileStmts src stmts s q) (compileStmts src stmts s' q)
  | [], s, s', q, h, _ => by
    simp only [compileStmts, StmtsResEqOff]
    exact ⟨h, trivial⟩
  | .tabular t :: rest, s, s', q, h, hm => by
    cases q with
    | some _ => simp only [compileStmts, StmtsResEqOff]
    | none =>
      simp only [compileStmts]
      exact compileStmts_off k src rest s s' _ h (fun e he => hm e (by
        simp only [stmtsExprs]; exact mem_append_right' _ he))
  | .let_ _ name _ x :: rest, s, s', q, h, hm => by
    cases q with
    | some _ =>
      simp only [compileStmts]
      exact compileStmts_off k src rest s s' _ h (fun e he => hm e (by
        simp only [stmtsExprs]; exact mem_append_right' _ he))
    | none =>
      have hx : exprMentions k x = false := hm x (by simp [stmtsExprs])
      have hrest : ∀ e ∈ stmtsExprs rest false, exprMentions k e = false := fun e he => hm e (by
        simp only [stmtsExprs]; exact mem_append_right' _ he)
      simp only [compileStmts, writeExpr_off h x hx]
      cases (writeExpr ⟨src, s', .let_⟩ x) with
      | error e => simp only [Except.map, StmtsResEqOff]
      | ok sql =>
        simp only [Except.map]
        cases name with
        | none => simp only [StmtsResEqOff]
        | some n => exact compileStmts_off k src rest _ _ _ (h.cons _) hrest

/-- once the query has been seen, the expressions still to come are those of further queries -/
theorem stmtsExprs_query_mem {src : Bytes} :
    (stmts : List Stmt) → (sc0 : Scope) → (q0 : Option Tabular) → (sc : Scope) → (t : Tabular) →
      compileStmts src stmts sc0 q0 = .ok (sc, some t) →
      (∀ e, (e ∈ tabularExprs t → (q0 = some t ∨ e ∈ stmtsExprs stmts q0.isSome)))
  | [], sc0, q0, sc, t, h => by
    simp only [compileStmts, Except.ok.injEq, Prod.mk.injEq] at h
    intro e _
    exact Or.inl h.2
  | .tabular t' :: rest, sc0, q0, sc, t, h => by
    cases q0 with
    | some _ =>
      simp only [compileStmts] at h
      cases h
    | none =>
      simp only [compileStmts] at h
      intro e he
      rcases stmtsExprs_query_mem rest sc0 (some t') sc t h e he with h1 | h1
      · cases h1
        exact Or.inr (by simp only [stmtsExprs]; exact mem_append_left' _ he)
      · exact Or.inr (by simp only [stmtsExprs]; exact mem_append_right' _ h1)
  | .let_ _ name _ x :: rest, sc0, q0, sc, t, h => by
    cases q0 with
    | some t0 =>
      simp only [compileStmts] at h
      intro e he
      rcases stmtsExprs_query_mem rest sc0 (some t0) sc t h e he with h1 | h1
      · exact Or.inl h1
      · exact Or.inr (by simp only [stmtsExprs]; exact mem_append_right' _ h1)
    | none =>
      simp only [compileStmts] at h
      intro e he
      cases hw : (writeExpr ⟨src, sc0, .let_⟩ x).map (wrapTight x) with
      | error er =>
        rw [hw] at h
        cases h
      | ok sql =>
        rw [hw] at h
        cases name with
        | none => cases h
        | some n =>
          rcases stmtsExprs_query_mem rest _ none sc t h e he with h1 | h1
          · cases h1
          · exact Or.inr (by simp only [stmtsExprs]; exact mem_append_right' _ h1)

end Pql
