/-
`splitQueries` / `splitOps` (the model) and `splitA` / `splitOpsA` (the intended structured
splitting) run in lock step: one mutual structural induction over `Tabular` / `OpList` proves
the three-way statement `Sim` (success with related results / failure characterised).
-/
import PqlModel.Lemmas.SplitABasic
namespace Pql.C05
open Pql SplitQ Intended

def isOk {ε α : Type} : Except ε α → Bool
  | .ok _ => true
  | .error _ => false

/-- the join condition of one join operator can be written (in join mode) -/
def condWritable (src : Bytes) (scope : List (Bytes × List Chunk)) (conds : ExprList) : Bool :=
  isOk (writeExpr ⟨src, scope, .join⟩ (buildJoinCondition conds))

mutual
/-- every join condition of the pipeline, right-hand pipelines included, can be written -/
def tabWritable (src : Bytes) (scope : List (Bytes × List Chunk)) : Tabular → Bool
  | .nil => true
  | .mk _ ops => opsWritable src scope ops
def opsWritable (src : Bytes) (scope : List (Bytes × List Chunk)) : OpList → Bool
  | .nil => true
  | .cons (.join _ _ _ _ _ _ right _ _ conds) os =>
    tabWritable src scope right && condWritable src scope conds && opsWritable src scope os
  | .cons _ os => opsWritable src scope os
end

/-! ### the join step of both algorithms, with named parts -/

def flavorNameOf (flavor : Option Ident) : Bytes :=
  match flavor with | some f => f.name | none => Bytes.ofString "innerunique"

def uniqueOf (flavor : Option Ident) : Bool := flavorNameOf flavor == Bytes.ofString "innerunique"

/-- `some false`: JOIN, `some true`: LEFT JOIN, `none`: unknown join kind -/
def leftOf (flavor : Option Ident) : Option Bool :=
  if flavorNameOf flavor == Bytes.ofString "inner" || uniqueOf flavor then some false
  else if flavorNameOf flavor == Bytes.ofString "leftouter" then some true
  else none

def joinLeftA (source : Option Ident) (dstStart n : Nat) (dst' : List SubA) : Bytes :=
  if ((n : Int) - 1) ≥ (dstStart : Int) then
    match dst'[((n : Int) - 1).toNat]? with
    | some s => s.name
    | none => []
  else identName source

def joinRightA (dst' : List SubA) : Bytes :=
  match dst'.getLast? with | some s => s.name | none => []

theorem splitOpsA_join (source : Option Ident) (k : Nat) (dstA : List SubA) (p kw kind ka : Span)
    (flavor : Option Ident) (lp : Span) (right : Tabular) (rp on : Span) (conds : ExprList) (rest : OpList) :
    splitOpsA source k dstA (.cons (.join p kw kind ka flavor lp right rp on conds) rest) =
      match splitA dstA right with
      | none => none
      | some d =>
        match leftOf flavor with
        | none => none
        | some left =>
          splitOpsA source k
            (d ++ [{ name := subqueryName d.length,
                     source := .join (uniqueOf flavor) left (joinLeftA source k dstA.length d) (joinRightA d)
                       (buildJoinCondition conds) }]) rest := by
  conv => lhs; unfold splitOpsA; simp only
  cases splitA dstA right with
  | none => rfl
  | some d => rfl

theorem splitOps_join (src : Bytes) (scope : List (Bytes × List Chunk)) (source : Option Ident) (k : Nat)
    (dst : List Subquery) (p kw kind ka : Span)
    (flavor : Option Ident) (lp : Span) (right : Tabular) (rp on : Span) (conds : ExprList) (rest : OpList) :
    splitOps src scope source k dst (.cons (.join p kw kind ka flavor lp right rp on conds) rest) =
      match splitQueries src scope dst right with
      | .error e => .error e
      | .ok d =>
        match leftOf flavor with
        | none => .error .err
        | some left =>
          match writeExpr ⟨src, scope, .join⟩ (buildJoinCondition conds) with
          | .error e => .error e
          | .ok c =>
            splitOps src scope source k
              (d ++ [{ name := subqueryName d.length,
                       source := joinSourceOf (uniqueOf flavor) (joinKwOf left)
                         (joinLeft source k dst.length d) (joinRight d) c }]) rest := by
  conv => lhs; unfold splitOps; simp only
  cases splitQueries src scope dst right with
  | error e => rfl
  | ok d =>
    simp only [bind, Except.bind]
    cases flavor with
    | none =>
      simp only [leftOf, uniqueOf, flavorNameOf]
      have hu : (Bytes.ofString "innerunique" == Bytes.ofString "innerunique") = true := beq_self_eq_true _
      simp only [hu, Bool.or_true, ↓reduceIte]
      cases writeExpr ⟨src, scope, .join⟩ (buildJoinCondition conds) with
      | error e => rfl
      | ok c => rfl
    | some f =>
      simp only [leftOf, uniqueOf, flavorNameOf]
      by_cases h1 : (f.name == Bytes.ofString "inner" || f.name == Bytes.ofString "innerunique") = true
      · simp only [h1, ↓reduceIte]
        cases writeExpr ⟨src, scope, .join⟩ (buildJoinCondition conds) with
        | error e => rfl
        | ok c => rfl
      · by_cases h2 : (f.name == Bytes.ofString "leftouter") = true
        · simp only [h1, h2, Bool.false_eq_true, ↓reduceIte]
          cases writeExpr ⟨src, scope, .join⟩ (buildJoinCondition conds) with
          | error e => rfl
          | ok c => rfl
        · simp only [h1, h2, Bool.false_eq_true, ↓reduceIte]

/-! ### the three-way simulation statement -/

/-- the model's result `r`, the structured result `rA`, and whether all join conditions are
    writable: success of the model = success of both; results related -/
def Sim (src : Bytes) (scope : List (Bytes × List Chunk)) (r : Except WErr (List Subquery))
    (rA : Option (List SubA)) (w : Bool) : Prop :=
  match r with
  | .ok out => w = true ∧ ∃ outA, rA = some outA ∧ ListRel src scope outA out
  | .error _ => rA = none ∨ w = false

variable {src : Bytes} {scope : List (Bytes × List Chunk)}

theorem joinRight_rel {dA : List SubA} {d : List Subquery} (h : ListRel src scope dA d) :
    joinRightA dA = joinRight d := getLast_name_rel h

theorem joinLeft_rel {dstA dA : List SubA} {dst d : List Subquery} (h : ListRel src scope dstA dst)
    (h' : ListRel src scope dA d) (hlt : dst.length < d.length) (source : Option Ident) (k : Nat) :
    joinLeft source k dst.length d = [.qid (joinLeftA source k dstA.length dA)] := by
  unfold joinLeft joinLeftA
  rw [h.length_eq]
  split
  · rename_i hk
    have hi : ((dst.length : Int) - 1).toNat < d.length := by omega
    rcases h'.getElem? ((dst.length : Int) - 1).toNat with ⟨_, h2⟩ | ⟨a, b, h1, h2, hab⟩
    · simp at h2; omega
    · rw [h1, h2]; simp [hab.name]
  · rfl

/-- a chained subquery with some fields set -/
theorem chain_with_rel {dstA : List SubA} {dst : List Subquery} (h : ListRel src scope dstA dst) (k : Nat)
    (source : Option Ident) (n : Bytes) (o : Option Op) :
    SubRel src scope { chainA dstA k source with name := n, op := o }
      { chainSubquery dst k source with name := n, op := o } :=
  ⟨rfl, rfl, rfl, rfl, (chain_rel_splita h k source).source⟩

theorem chain_op_rel {dstA : List SubA} {dst : List Subquery} (h : ListRel src scope dstA dst) (k : Nat)
    (source : Option Ident) (o : Option Op) :
    SubRel src scope { chainA dstA k source with op := o } { chainSubquery dst k source with op := o } :=
  ⟨(chain_rel_splita h k source).name, rfl, rfl, rfl, (chain_rel_splita h k source).source⟩

theorem ite_snoc_rel {dstA : List SubA} {dst : List Subquery} (h : ListRel src scope dstA dst) (k : Nat)
    (source : Option Ident) (b : Bool) :
    ListRel src scope (if b = true then dstA else dstA ++ [chainA dstA k source])
      (if b = true then dst else dst ++ [chainSubquery dst k source]) := by
  cases b
  · exact h.snoc (chain_rel_splita h k source)
  · exact h

/-- the list a sort / take / top works on: the guard on the last subquery is evaluated on
    related subqueries, so both sides decide alike -/
theorem attach_list_rel {dstA : List SubA} {dst : List Subquery} (h : ListRel src scope dstA dst) (k : Nat)
    (source : Option Ident) (g : Option Op → Option (List SortTerm) → Option Expr → Bool) :
    ListRel src scope
      (if (match lastOfA dstA k with | some l => g l.op l.sort l.take | none => false) = true then dstA
        else dstA ++ [chainA dstA k source])
      (if (match lastOf dst k with | some l => g l.op l.sort l.take | none => false) = true then dst
        else dst ++ [chainSubquery dst k source]) := by
  rcases lastOf_rel_splita h k with ⟨h1, h2⟩ | ⟨a, s, h1, h2, hab⟩
  · rw [h1, h2]
    exact ite_snoc_rel h k source false
  · rw [h1, h2]
    simp only [hab.op, hab.sort, hab.take]
    exact ite_snoc_rel h k source _

mutual
theorem sim_tab (src : Bytes) (scope : List (Bytes × List Chunk)) :
    ∀ (t : Tabular) (dstA : List SubA) (dst : List Subquery), ListRel src scope dstA dst →
      Sim src scope (splitQueries src scope dst t) (splitA dstA t) (tabWritable src scope t)
  | .nil, dstA, dst, h => by
    unfold splitQueries splitA
    exact .inl rfl
  | .mk source ops, dstA, dst, h => by
    have ih := sim_ops src scope ops source dst.length dstA dst h
    unfold splitQueries splitA tabWritable
    simp only [h.length_eq]
    cases hq : splitOps src scope source dst.length dst ops with
    | error e =>
      rw [hq] at ih
      rcases ih with ih | ih
      · rw [ih]; exact .inl rfl
      · exact .inr ih
    | ok mid =>
      rw [hq] at ih
      obtain ⟨hw, midA, hA, hrel⟩ := ih
      rw [hA]
      simp only [bind, Except.bind, Option.bind, hrel.length_eq]
      by_cases hlen : mid.length = dst.length
      · simp only [hlen, ↓reduceIte, pure, Except.pure]
        exact ⟨hw, _, rfl, by rw [← hlen]; exact hrel.snoc (chain_rel_splita hrel _ _)⟩
      · simp only [hlen, ↓reduceIte, pure, Except.pure]
        exact ⟨hw, _, rfl, hrel⟩
theorem sim_ops (src : Bytes) (scope : List (Bytes × List Chunk)) :
    ∀ (ops : OpList) (source : Option Ident) (k : Nat) (dstA : List SubA) (dst : List Subquery),
      ListRel src scope dstA dst →
      Sim src scope (splitOps src scope source k dst ops) (splitOpsA source k dstA ops)
        (opsWritable src scope ops)
  | .nil, source, k, dstA, dst, h => by
    unfold splitOps splitOpsA opsWritable
    exact ⟨rfl, dstA, rfl, h⟩
  | .cons o rest, source, k, dstA, dst, h => by
    cases o with
    | count p kw =>
      unfold splitOps splitOpsA opsWritable
      exact sim_ops src scope rest source k _ _ (h.snoc (chain_op_rel h k source _))
    | where_ p kw e =>
      unfold splitOps splitOpsA opsWritable
      exact sim_ops src scope rest source k _ _ (h.snoc (chain_op_rel h k source _))
    | project p kw cs =>
      unfold splitOps splitOpsA opsWritable
      exact sim_ops src scope rest source k _ _ (h.snoc (chain_op_rel h k source _))
    | extend p kw cs =>
      unfold splitOps splitOpsA opsWritable
      exact sim_ops src scope rest source k _ _ (h.snoc (chain_op_rel h k source _))
    | summarize p kw cs b gs =>
      unfold splitOps splitOpsA opsWritable
      exact sim_ops src scope rest source k _ _ (h.snoc (chain_op_rel h k source _))
    | render p kw ch w lp props rp =>
      unfold splitOps splitOpsA opsWritable
      exact sim_ops src scope rest source k _ _ (h.snoc (chain_op_rel h k source _))
    | as_ p kw name =>
      unfold splitOps splitOpsA opsWritable
      exact sim_ops src scope rest source k _ _ (h.snoc (chain_with_rel h k source _ _))
    | sort p kw terms =>
      unfold splitOps splitOpsA opsWritable
      exact sim_ops src scope rest source k _ _
        (setLast_rel_splita (attach_list_rel h k source (fun o s t => canAttachSort o && s.isNone && t.isNone))
          fun a s hab => ⟨hab.name, hab.op, rfl, hab.take, hab.source⟩)
    | take p kw n =>
      unfold splitOps splitOpsA opsWritable
      exact sim_ops src scope rest source k _ _
        (setLast_rel_splita (attach_list_rel h k source (fun o s t => canAttachSort o && t.isNone))
          fun a s hab => ⟨hab.name, hab.op, hab.sort, rfl, hab.source⟩)
    | top p kw n b col =>
      unfold splitOps splitOpsA opsWritable
      cases col with
      | none => exact .inl rfl
      | some c =>
        exact sim_ops src scope rest source k _ _
          (setLast_rel_splita (attach_list_rel h k source (fun o s t => canAttachSort o && s.isNone && t.isNone))
            fun a s hab => ⟨hab.name, hab.op, rfl, rfl, hab.source⟩)
    | join p kw kind ka flavor lp right rp on conds =>
      have ih := sim_tab src scope right dstA dst h
      rw [splitOps_join, splitOpsA_join]
      unfold opsWritable
      cases hq : splitQueries src scope dst right with
      | error e =>
        rw [hq] at ih
        rcases ih with ih | ih
        · rw [ih]; exact .inl rfl
        · exact .inr (by simp [ih])
      | ok d =>
        rw [hq] at ih
        obtain ⟨hw, dA, hA, hrel⟩ := ih
        rw [hA]
        simp only
        cases leftOf flavor with
        | none => exact .inl rfl
        | some left =>
          simp only
          cases hwr : writeExpr ⟨src, scope, .join⟩ (buildJoinCondition conds) with
          | error e => exact .inr (by simp [condWritable, hwr, isOk])
          | ok c =>
            simp only
            have hcw : condWritable src scope conds = true := by simp [condWritable, hwr, isOk]
            rw [hw, hcw, Bool.true_and, Bool.true_and]
            refine sim_ops src scope rest source k _ _ (hrel.snoc ⟨?_, rfl, rfl, rfl, ?_⟩)
            · simp [hrel.length_eq]
            · refine ⟨c, hwr, ?_⟩
              show joinSourceOf _ _ _ _ _ = _
              rw [joinLeft_rel h hrel (C05_length_grows src scope right dst d hq).2 source k,
                joinRight_rel hrel]
end

end Pql.C05
