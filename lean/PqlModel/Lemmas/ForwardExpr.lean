/-
Stage 1 of property C07 (forward direction), the expression productions: on the tokens of a
well-grouped tree, followed by something that does not continue the expression, each production
returns exactly the tree, no error, and what follows.  Proved for all productions at once by
induction on the fuel (`Fwd c fuel`), one step lemma per production, with the fuel ranks of
`Lemmas/ParseFuelExpr.lean`.
-/
import PqlModel.Lemmas.ForwardSpine
namespace Pql
open Grammar

/-! ### identifiers -/

theorem pIdent_real {c : PCtx} {i : Ident} {t : Token} {rest : List Token} (h : IsIdentTok i t) :
    pIdent c (t :: rest) = ⟨some i, [], rest⟩ := by
  simp only [pIdent, h.1, if_true, h.2]

/-- what may follow a qualified identifier: not a dot -/
def NotDot : List Token → Bool
  | [] => true
  | t :: _ => t.kind != .dot

theorem qualTailReal_length : ∀ {is : List Ident} {ts : List Token}, QualTailReal is ts →
    ts.length = 2 * is.length
  | [], ts, h => by
    have : ts = [] := h
    subst this; rfl
  | i :: is, ts, h => by
    obtain ⟨d, t, ts', rfl, -, -, hr⟩ := h
    have := qualTailReal_length hr
    simp only [List.length_cons, this]; omega

theorem pQualTail_real (c : PCtx) : ∀ (more : List Ident) (fuel : Nat) (parts : List Ident)
    (ts rest : List Token), QualTailReal more ts → NotDot rest = true → more.length + 1 ≤ fuel →
    pQualTail c fuel parts (ts ++ rest) = ⟨parts ++ more, [], rest⟩
  | [], fuel, parts, ts, rest, h, hnd, hf => by
    have : ts = [] := h
    subst this
    obtain ⟨f, rfl⟩ : ∃ f, fuel = f + 1 := ⟨fuel - 1, by omega⟩
    cases rest with
    | nil => simp [pQualTail]
    | cons t r =>
      have : t.kind ≠ .dot := by simpa [NotDot] using hnd
      simp [pQualTail, this]
  | i :: is, fuel, parts, ts, rest, h, hnd, hf => by
    obtain ⟨d, t, ts', rfl, hd, ht, hr⟩ := h
    obtain ⟨f, rfl⟩ : ∃ f, fuel = f + 1 := ⟨fuel - 1, by omega⟩
    simp only [List.length_cons] at hf
    simp only [List.cons_append, pQualTail, hd, if_true, pIdent_real ht]
    rw [pQualTail_real c is f (parts ++ [i]) ts' rest hr hnd (by omega)]
    simp

theorem pQualifiedIdent_real {c : PCtx} {i : Ident} {is : List Ident} {t : Token} {ts rest : List Token}
    (ht : IsIdentTok i t) (hr : QualTailReal is ts) (hnd : NotDot rest = true) :
    pQualifiedIdent c (t :: (ts ++ rest)) = ⟨some (i :: is), [], rest⟩ := by
  have hl := qualTailReal_length hr
  simp only [pQualifiedIdent, pIdent_real ht]
  rw [pQualTail_real c is _ [i] ts rest hr hnd (by simp only [List.length_append]; omega)]
  simp

/-! ### what may follow -/

/-- what may follow an inner primary expression: not `.`, not `(` -/
def InnerStops : List Token → Bool
  | [] => true
  | t :: _ => t.kind != .dot && t.kind != .lparen

theorem headStops_inner {rest : List Token} (h : HeadStops rest = true) : InnerStops rest = true := by
  cases rest with
  | nil => rfl
  | cons t r =>
    simp only [HeadStops, Bool.and_eq_true] at h
    simp only [InnerStops, Bool.and_eq_true]
    exact h.1

theorem innerStops_notDot {rest : List Token} (h : InnerStops rest = true) : NotDot rest = true := by
  cases rest with
  | nil => rfl
  | cons t r =>
    simp only [InnerStops, Bool.and_eq_true] at h
    exact h.1

/-- what may follow an expression list: nothing that continues an expression, and a comma only
    as the very last token (the trailing comma of a call) -/
def ListStops (rest : List Token) : Bool :=
  StopsAt 0 rest && (match rest with | t :: _ :: _ => t.kind != .comma | _ => true)

def appendL : ExprList → ExprList → ExprList
  | .nil, l => l
  | .cons e es, l => .cons e (appendL es l)

theorem appendL_snoc : ∀ (acc : ExprList) (e : Expr) (l : ExprList),
    appendL (acc.snoc e) l = appendL acc (.cons e l)
  | .nil, _, _ => rfl
  | .cons a as, e, l => by simp only [ExprList.snoc, appendL, appendL_snoc as e l]

theorem appendL_nil : ∀ (acc : ExprList), appendL acc .nil = acc
  | .nil => rfl
  | .cons a as => by simp only [appendL, appendL_nil as]

/-! ### the statement -/

structure Fwd (c : PCtx) (f : Nat) : Prop where
  expr : ∀ (e : Expr) (ts rest : List Token), (okSpine 0 e).isSome = true → Real e ts →
    StopsAt 0 rest = true → 4 * (ts ++ rest).length + 4 ≤ f → pExpr c f (ts ++ rest) = ⟨e, [], rest⟩
  trail : ∀ (segs : List Seg) (x : Expr) (m cap cap' : Int) (acc : Errs) (sg rest : List Token),
    okSegs m cap segs = some cap' → SegsReal segs sg → StopsAt m rest = true →
    4 * (sg ++ rest).length + 1 ≤ f → pTrail c f x m acc (sg ++ rest) = ⟨foldSegs x segs, acc, rest⟩
  higher : ∀ (segs : List Seg) (y : Expr) (p cap' : Int) (acc : Errs) (sg rest : List Token),
    okSegs (p + 1) inf segs = some cap' → SegsReal segs sg → StopsAt (p + 1) rest = true →
    4 * (sg ++ rest).length + 2 ≤ f → pHigher c f y p acc (sg ++ rest) = ⟨foldSegs y segs, acc, rest⟩
  unary : ∀ (h : Expr) (th rest : List Token), isHeadE h = true → (okSpine 0 h).isSome = true →
    Real h th → HeadStops rest = true → 4 * (th ++ rest).length + 3 ≤ f →
    pUnary c f (th ++ rest) = ⟨h, [], rest⟩
  primary : ∀ (h : Expr) (th rest : List Token), isPrimary h = true → (okSpine 0 h).isSome = true →
    Real h th → HeadStops rest = true → 4 * (th ++ rest).length + 2 ≤ f →
    pPrimary c f (th ++ rest) = ⟨h, [], rest⟩
  inner : ∀ (h : Expr) (th rest : List Token), isInnerPrimary h = true → (okSpine 0 h).isSome = true →
    Real h th → InnerStops rest = true → 4 * (th ++ rest).length + 1 ≤ f →
    pInner c f (th ++ rest) = ⟨h, [], rest⟩
  exprList : ∀ (e : Expr) (es : ExprList) (ts rest : List Token), okList (.cons e es) = true →
    RealL (.cons e es) ts → ListStops rest = true → 4 * (ts ++ rest).length + 5 ≤ f →
    pExprList c f (ts ++ rest) = ⟨.cons e es, [], rest⟩
  exprListTail : ∀ (acc l : ExprList) (ts rest : List Token), okList l = true → ListTailReal l ts →
    ListStops rest = true → 4 * (ts ++ rest).length + 1 ≤ f →
    pExprListTail c f acc (ts ++ rest) = ⟨appendL acc l, [], rest⟩

theorem Fwd.zero (c : PCtx) : Fwd c 0 := by
  constructor <;> intros <;> omega

/-! ### `expr` -/

theorem pExpr_fwd_step (c : PCtx) (f : Nat) (ih : Fwd c f) (e : Expr) (ts rest : List Token)
    (hok : (okSpine 0 e).isSome = true) (hr : Real e ts) (hs : StopsAt 0 rest = true)
    (hf : 4 * (ts ++ rest).length + 4 ≤ f + 1) : pExpr c (f + 1) (ts ++ rest) = ⟨e, [], rest⟩ := by
  obtain ⟨cap, hcap⟩ := Option.isSome_iff_exists.1 hok
  obtain ⟨hh, hh0, hsegs⟩ := ok_spine e 0 cap hcap
  obtain ⟨th, sg, rfl, hrh, hrs⟩ := real_spine e ts hr
  simp only [List.length_append] at hf
  have hU := ih.unary (spineHead e) th (sg ++ rest) hh hh0 hrh (headStops_segs hsegs hrs hs)
    (by simp only [List.length_append]; omega)
  have hT := ih.trail (spineSegs e) (spineHead e) 0 inf cap [] sg rest hsegs hrs hs
    (by simp only [List.length_append]; omega)
  rw [List.append_assoc]
  simp only [pExpr, hU, hT, isNF_nil, fold_spine]
  simp

/-! ### the "higher precedence first" loop -/

theorem pHigher_fwd_step (c : PCtx) (f : Nat) (ih : Fwd c f) (segs : List Seg) (y : Expr) (p cap' : Int)
    (acc : Errs) (sg rest : List Token) (hok : okSegs (p + 1) inf segs = some cap')
    (hr : SegsReal segs sg) (hs : StopsAt (p + 1) rest = true)
    (hf : 4 * (sg ++ rest).length + 2 ≤ f + 1) :
    pHigher c (f + 1) y p acc (sg ++ rest) = ⟨foldSegs y segs, acc, rest⟩ := by
  cases segs with
  | nil =>
    have : sg = [] := hr
    subst this
    simp only [List.nil_append, foldSegs]
    cases rest with
    | nil => simp [pHigher]
    | cons t r =>
      have h1 := stopsAt_trail hs
      have : Pql.precOf t.kind < 0 ∨ Pql.precOf t.kind ≤ p := by omega
      simp [pHigher, this]
  | cons s tl =>
    obtain ⟨t, r, rfl, h0, h1, -⟩ := segs_first hok hr
    have hT := ih.trail (s :: tl) y (p + 1) inf cap' [] (t :: r) rest hok hr hs (by omega)
    have hH := ih.higher [] (foldSegs y (s :: tl)) p inf acc [] rest rfl rfl hs
      (by simp only [List.length_append, List.length_cons, List.nil_append] at hf ⊢; omega)
    have hn : ¬ (Pql.precOf t.kind < 0 ∨ Pql.precOf t.kind ≤ p) := by omega
    simp only [List.cons_append] at hT ⊢
    simp only [List.nil_append, foldSegs] at hH
    simp only [pHigher, hn, if_false, hT, mkOpaque, List.map_nil, List.append_nil, hH, foldSegs]

/-! ### `exprBinaryTrail` -/

theorem okSeg_bin {m cap c0 : Int} {os : Span} {op : TokKind} {y : Expr}
    (h : okSeg m cap (.bin os op y) = some c0) :
    isBinaryOp op = true ∧ m ≤ Pql.precOf op ∧ Pql.precOf op ≤ cap ∧
      (okSpine (Pql.precOf op + 1) y).isSome = true ∧ c0 = Pql.precOf op := by
  simp only [okSeg] at h
  split at h
  · rename_i hc
    simp only [Bool.and_eq_true, decide_eq_true_eq] at hc
    simp only [Option.some.injEq] at h
    exact ⟨hc.1.1.1, hc.1.1.2, hc.1.2, hc.2, h.symm⟩
  · simp at h

theorem okSeg_inn {m cap c0 : Int} {i lp rp : Span} {vals : ExprList}
    (h : okSeg m cap (.inn i lp vals rp) = some c0) :
    m ≤ 2 ∧ 2 ≤ cap ∧ vals.length > 0 ∧ okList vals = true ∧ c0 = inf := by
  simp only [okSeg] at h
  split at h
  · rename_i hc
    simp only [Bool.and_eq_true, decide_eq_true_eq] at hc
    simp only [Option.some.injEq] at h
    exact ⟨hc.1.1.1, hc.1.1.2, hc.1.2, hc.2, h.symm⟩
  · simp at h

theorem pTrail_fwd_step (c : PCtx) (f : Nat) (ih : Fwd c f) (segs : List Seg) (x : Expr) (m cap cap' : Int)
    (acc : Errs) (sg rest : List Token) (hok : okSegs m cap segs = some cap') (hr : SegsReal segs sg)
    (hs : StopsAt m rest = true) (hf : 4 * (sg ++ rest).length + 1 ≤ f + 1) :
    pTrail c (f + 1) x m acc (sg ++ rest) = ⟨foldSegs x segs, acc, rest⟩ := by
  cases segs with
  | nil =>
    have : sg = [] := hr
    subst this
    simp only [List.nil_append, foldSegs]
    cases rest with
    | nil => simp [pTrail]
    | cons t r =>
      have h1 := stopsAt_trail hs
      simp [pTrail, h1]
  | cons s tl =>
    obtain ⟨a, b, rfl, ha, hb⟩ := hr
    simp only [okSegs] at hok
    split at hok
    · rename_i c0 h0
      cases s with
      | bin os op y =>
        obtain ⟨t, ty, rfl, hk, hsp, hy⟩ := ha
        obtain ⟨hop, hm, hc, hoy, rfl⟩ := okSeg_bin h0
        subst hk hsp
        obtain ⟨capy, hcapy⟩ := Option.isSome_iff_exists.1 hoy
        obtain ⟨hh, hh0, hsegsy⟩ := ok_spine y _ capy hcapy
        obtain ⟨thy, sgy, rfl, hrh, hrs⟩ := real_spine y ty hy
        have hst : StopsAt (Pql.precOf t.kind + 1) (b ++ rest) = true := stopsAt_after hok hb hs hm
        simp only [List.length_append, List.length_cons] at hf
        have hU := ih.unary (spineHead y) thy (sgy ++ (b ++ rest)) hh hh0 hrh
          (headStops_segs hsegsy hrs hst) (by simp only [List.length_append]; omega)
        have hH := ih.higher (spineSegs y) (spineHead y) (Pql.precOf t.kind) capy acc sgy (b ++ rest) hsegsy
          hrs hst (by simp only [List.length_append]; omega)
        have hT := ih.trail tl (.binary x t.span t.kind y) m (Pql.precOf t.kind) cap' acc b rest hok hb hs
          (by simp only [List.length_append]; omega)
        have hkk := isBinaryOp_kind hop
        have hn : ¬ (Pql.precOf t.kind < 0 ∨ Pql.precOf t.kind < m) := by omega
        have hlist : (t :: (thy ++ sgy)) ++ b ++ rest = t :: (thy ++ (sgy ++ (b ++ rest))) := by simp
        rw [hlist]
        simp only [pTrail, hn, if_false, hkk.2.2.2.2.2.1, hU, mkOpaque, List.map_nil, List.append_nil, hH,
          fold_spine, hT, foldSegs, Seg.apply]
      | inn i lp vals rp =>
        obtain ⟨ti, tl', tv, tr, rfl, hk1, hs1, hk2, hs2, hv, hk3, hs3⟩ := ha
        obtain ⟨hm, hc, hlen, hov, rfl⟩ := okSeg_inn h0
        subst hs1 hs2 hs3
        simp only [List.length_append, List.length_cons, List.length_nil] at hf
        have hT := ih.trail tl (.inE x ti.span tl'.span vals tr.span) m inf cap' acc b rest hok hb hs
          (by simp only [List.length_append]; omega)
        have hpass : Passes tv := realL_passes vals tv hov hv
        have hsplit : split .rparen (tv ++ tr :: (b ++ rest)) = (tv, tr :: (b ++ rest)) :=
          split_at_closer (Or.inl rfl) hk3 (Or.inl rfl) hpass
        have hL : pExprList c f tv = ⟨vals, [], []⟩ := by
          cases vals with
          | nil => simp [ExprList.length] at hlen
          | cons e es =>
            have := ih.exprList e es tv [] hov hv rfl (by simp only [List.append_nil]; omega)
            simpa using this
        have hp : Pql.precOf ti.kind = 2 := by rw [hk1]; decide
        have hn : ¬ (Pql.precOf ti.kind < 0 ∨ Pql.precOf ti.kind < m) := by omega
        have hn' := hn
        rw [hk1] at hn'
        have hlist : (ti :: tl' :: (tv ++ [tr])) ++ b ++ rest = ti :: tl' :: (tv ++ tr :: (b ++ rest)) := by
          simp
        rw [hlist]
        simp only [pTrail, hn, hn', if_false, hk1, if_true, hk2, ne_eq, not_true_eq_false, hsplit, hL, mkOpaque,
          List.map_nil, List.append_nil, endSplit, hk3, hT, foldSegs, Seg.apply]
    · simp at hok

/-! ### `unaryExpr`, `primaryExpr` -/

theorem isIdentTok_kind {i : Ident} {t : Token} (h : IsIdentTok i t) :
    t.kind ≠ .plus ∧ t.kind ≠ .minus ∧ t.kind ≠ .number ∧ t.kind ≠ .string ∧ t.kind ≠ .lparen := by
  rcases h.1 with hk | hk <;> (rw [hk]; decide)

/-- the first token of a primary expression is not a sign -/
theorem inner_first {h : Expr} {th : List Token} (hi : isInnerPrimary h = true)
    (hok : (okSpine 0 h).isSome = true) (hr : Real h th) :
    ∃ t r, th = t :: r ∧ t.kind ≠ .plus ∧ t.kind ≠ .minus := by
  cases h with
  | qident parts =>
    obtain ⟨i, is, t, ts', -, rfl, ht, -⟩ := real_qident hr
    exact ⟨t, ts', rfl, (isIdentTok_kind ht).1, (isIdentTok_kind ht).2.1⟩
  | lit sp k v =>
    have hk := okSpine_lit hok
    obtain ⟨t, rfl, hk', -, -⟩ := real_lit (by rcases hk with rfl | rfl <;> decide) hr
    refine ⟨t, [], rfl, ?_, ?_⟩ <;> (rw [hk']; rcases hk with rfl | rfl <;> decide)
  | call fn lp args rp =>
    obtain ⟨tf, tl, ta, tc, tr, rfl, hf, -⟩ := real_call hr
    exact ⟨tf, _, rfl, (isIdentTok_kind hf).1, (isIdentTok_kind hf).2.1⟩
  | paren lp x rp =>
    obtain ⟨tl, tx, tr, rfl, hk, -⟩ := real_paren hr
    refine ⟨tl, _, rfl, ?_, ?_⟩ <;> (rw [hk]; decide)
  | nil => simp [isInnerPrimary] at hi
  | unary _ _ _ => simp [isInnerPrimary] at hi
  | binary _ _ _ _ => simp [isInnerPrimary] at hi
  | inE _ _ _ _ _ => simp [isInnerPrimary] at hi
  | index _ _ _ _ => simp [isInnerPrimary] at hi

theorem primary_first {h : Expr} {th : List Token} (hp : isPrimary h = true)
    (hok : (okSpine 0 h).isSome = true) (hr : Real h th) :
    ∃ t r, th = t :: r ∧ t.kind ≠ .plus ∧ t.kind ≠ .minus := by
  cases h with
  | index x lb idx rb =>
    obtain ⟨hix, hox, -⟩ := okSpine_index hok
    obtain ⟨tx, tl, ti, tr, rfl, hx, -⟩ := real_index hr
    obtain ⟨t, r, rfl, h1, h2⟩ := inner_first hix hox hx
    exact ⟨t, _, rfl, h1, h2⟩
  | qident parts => exact inner_first (h := .qident parts) rfl hok hr
  | lit a b c => exact inner_first (h := .lit a b c) rfl hok hr
  | call a b c d => exact inner_first (h := .call a b c d) rfl hok hr
  | paren a b c => exact inner_first (h := .paren a b c) rfl hok hr
  | nil => simp [isPrimary, isInnerPrimary] at hp
  | unary _ _ _ => simp [isPrimary, isInnerPrimary] at hp
  | binary _ _ _ _ => simp [isPrimary, isInnerPrimary] at hp
  | inE _ _ _ _ _ => simp [isPrimary, isInnerPrimary] at hp

theorem pUnary_of_primary (c : PCtx) (f : Nat) (ih : Fwd c f) (h : Expr) (th rest : List Token)
    (hp : isPrimary h = true) (hok : (okSpine 0 h).isSome = true) (hr : Real h th)
    (hs : HeadStops rest = true) (hf : 4 * (th ++ rest).length + 3 ≤ f + 1) :
    pUnary c (f + 1) (th ++ rest) = ⟨h, [], rest⟩ := by
  have hP := ih.primary h th rest hp hok hr hs (by omega)
  obtain ⟨t, r, rfl, h1, h2⟩ := primary_first hp hok hr
  simp only [List.cons_append] at hP ⊢
  simp only [pUnary, h1, h2, or_self, if_false, hP]

theorem pUnary_fwd_step (c : PCtx) (f : Nat) (ih : Fwd c f) (h : Expr) (th rest : List Token)
    (hh : isHeadE h = true) (hok : (okSpine 0 h).isSome = true) (hr : Real h th)
    (hs : HeadStops rest = true) (hf : 4 * (th ++ rest).length + 3 ≤ f + 1) :
    pUnary c (f + 1) (th ++ rest) = ⟨h, [], rest⟩ := by
  cases h with
  | unary os op x =>
    obtain ⟨hop, hpx, hox⟩ := okSpine_unary hok
    obtain ⟨t, tx, rfl, hk, hsp, hrx⟩ := real_unary hr
    subst hk hsp
    simp only [List.cons_append, List.length_cons] at hf
    have hP := ih.primary x tx rest hpx hox hrx hs (by omega)
    simp only [List.cons_append, pUnary, hop, if_true, hP, mkOpaque, List.map_nil]
  | qident parts => exact pUnary_of_primary c f ih _ th rest rfl hok hr hs hf
  | lit a b d => exact pUnary_of_primary c f ih _ th rest rfl hok hr hs hf
  | call a b d e => exact pUnary_of_primary c f ih _ th rest rfl hok hr hs hf
  | paren a b d => exact pUnary_of_primary c f ih _ th rest rfl hok hr hs hf
  | index a b d e => exact pUnary_of_primary c f ih _ th rest rfl hok hr hs hf
  | nil => simp [okSpine] at hok
  | binary _ _ _ _ => simp [isHeadE] at hh
  | inE _ _ _ _ _ => simp [isHeadE] at hh

theorem pPrimary_fwd_step (c : PCtx) (f : Nat) (ih : Fwd c f) (h : Expr) (th rest : List Token)
    (hp : isPrimary h = true) (hok : (okSpine 0 h).isSome = true) (hr : Real h th)
    (hs : HeadStops rest = true) (hf : 4 * (th ++ rest).length + 2 ≤ f + 1) :
    pPrimary c (f + 1) (th ++ rest) = ⟨h, [], rest⟩ := by
  have hinner : ∀ h', isInnerPrimary h' = true → (okSpine 0 h').isSome = true → Real h' th →
      pPrimary c (f + 1) (th ++ rest) = ⟨h', [], rest⟩ := by
    intro h' hi' hok' hr'
    have hI := ih.inner h' th rest hi' hok' hr' (headStops_inner hs) (by omega)
    cases rest with
    | nil =>
      simp only [List.append_nil] at hI ⊢
      simp [pPrimary, hI]
    | cons t r =>
      have : t.kind ≠ .lbracket := by
        simp only [HeadStops, Bool.and_eq_true, bne_iff_ne] at hs
        exact hs.2
      simp [pPrimary, hI, this]
  cases h with
  | index x lb idx rb =>
    obtain ⟨hix, hox, hoi⟩ := okSpine_index hok
    obtain ⟨tx, tl, ti, tr, rfl, hx, hk1, hs1, hi, hk2, hs2⟩ := real_index hr
    subst hs1 hs2
    simp only [List.length_append, List.length_cons, List.length_nil] at hf
    have hI := ih.inner x tx (tl :: (ti ++ tr :: rest)) hix hox hx (by simp [InnerStops, hk1])
      (by simp only [List.length_append, List.length_cons]; omega)
    have hpass : Passes ti := real_passes idx 0 ti hoi hi
    have hsplit : split .rbracket (ti ++ tr :: rest) = (ti, tr :: rest) :=
      split_at_closer (Or.inr (Or.inl rfl)) hk2 (Or.inr rfl) hpass
    have hE : pExpr c f ti = ⟨idx, [], []⟩ := by
      have := ih.expr idx ti [] hoi hi rfl (by simp only [List.append_nil]; omega)
      simpa using this
    have hlist : tx ++ tl :: (ti ++ [tr]) ++ rest = tx ++ tl :: (ti ++ tr :: rest) := by simp
    rw [hlist]
    simp only [pPrimary, hI, ne_eq, not_true_eq_false, if_false, hk1, if_true, hsplit, hE, mkOpaque,
      List.map_nil, endSplit, List.append_nil, hk2]
  | qident parts => exact hinner _ rfl hok hr
  | lit a b d => exact hinner _ rfl hok hr
  | call a b d e => exact hinner _ rfl hok hr
  | paren a b d => exact hinner _ rfl hok hr
  | nil => simp [isPrimary, isInnerPrimary] at hp
  | unary _ _ _ => simp [isPrimary, isInnerPrimary] at hp
  | binary _ _ _ _ => simp [isPrimary, isInnerPrimary] at hp
  | inE _ _ _ _ _ => simp [isPrimary, isInnerPrimary] at hp

/-! ### `innerPrimaryExpr` -/

/-- `expr` on nothing reports "not found" -/
theorem pExpr_nil (c : PCtx) (f : Nat) : pExpr c (f + 2) [] = ⟨.nil, nfAt c.eof, []⟩ := by
  simp [pExpr, pUnary]

theorem pExprList_nil (c : PCtx) (f : Nat) : pExprList c (f + 3) [] = ⟨.nil, nfAt c.eof, []⟩ := by
  simp [pExprList, pExpr_nil]

theorem pInner_fwd_step (c : PCtx) (f : Nat) (ih : Fwd c f) (h : Expr) (th rest : List Token)
    (hi : isInnerPrimary h = true) (hok : (okSpine 0 h).isSome = true) (hr : Real h th)
    (hs : InnerStops rest = true) (hf : 4 * (th ++ rest).length + 1 ≤ f + 1) :
    pInner c (f + 1) (th ++ rest) = ⟨h, [], rest⟩ := by
  cases h with
  | lit sp k v =>
    have hk := okSpine_lit hok
    obtain ⟨t, rfl, hk', hv, hsp⟩ := real_lit (by rcases hk with rfl | rfl <;> decide) hr
    subst hk' hv hsp
    simp [pInner, hk]
  | qident parts =>
    obtain ⟨i, is, t, ts', rfl, rfl, ht, hq⟩ := real_qident hr
    have hQ := pQualifiedIdent_real (c := c) ht hq (innerStops_notDot hs)
    have hk := isIdentTok_kind ht
    simp only [List.cons_append]
    rcases ht.1 with hid | hqd
    · cases is with
      | nil =>
        have : ts' = [] := hq
        subst this
        simp only [List.nil_append] at hQ ⊢
        cases rest with
        | nil => simp [pInner, hid, hQ]
        | cons lp r =>
          have : lp.kind ≠ .lparen := by
            simp only [InnerStops, Bool.and_eq_true, bne_iff_ne] at hs
            exact hs.2
          simp [pInner, hid, hQ, this]
      | cons j js => simp [pInner, hid, hQ]
    · simp [pInner, hqd, hQ]
  | paren lp x rp =>
    obtain ⟨tl, tx, tr, rfl, hk1, hs1, hx, hk2, hs2⟩ := real_paren hr
    subst hs1 hs2
    have hox := okSpine_paren hok
    simp only [List.length_append, List.length_cons, List.length_nil] at hf
    have hpass : Passes tx := real_passes x 0 tx hox hx
    have hsplit : split .rparen (tx ++ tr :: rest) = (tx, tr :: rest) :=
      split_at_closer (Or.inl rfl) hk2 (Or.inl rfl) hpass
    have hE : pExpr c f tx = ⟨x, [], []⟩ := by
      have := ih.expr x tx [] hox hx rfl (by simp only [List.append_nil]; omega)
      simpa using this
    have hlist : tl :: (tx ++ [tr]) ++ rest = tl :: (tx ++ tr :: rest) := by simp
    rw [hlist]
    simp [pInner, hk1, hsplit, hE, hk2, mkOpaque, endSplit]
  | call fn lp args rp =>
    obtain ⟨tf, tl, ta, tc, tr, rfl, hfn, hk1, hs1, ha, hc, hk2, hs2⟩ := real_call hr
    obtain ⟨hq, hoa⟩ := okSpine_call hok
    subst hs1 hs2
    simp only [List.length_append, List.length_cons, List.length_nil] at hf
    -- the function name is a plain identifier
    have hid : tf.kind = .ident := by
      rcases hfn.1 with h1 | h1
      · exact h1
      · have := hfn.2; subst this; simp [h1] at hq
    have hfn' : fn = ⟨tf.value, tf.span, false⟩ := by
      have := hfn.2; subst this; simp [hid]
    subst hfn'
    have hQ : pQualifiedIdent c (tf :: tl :: (ta ++ tc ++ tr :: rest)) =
        ⟨some [⟨tf.value, tf.span, false⟩], [], tl :: (ta ++ tc ++ tr :: rest)⟩ := by
      have := pQualifiedIdent_real (c := c) (is := []) (ts := []) (rest := tl :: (ta ++ tc ++ tr :: rest))
        hfn rfl (by simp [NotDot, hk1])
      simpa using this
    have hpass : Passes (ta ++ tc) := by
      refine passes_append (realL_passes args ta hoa ha) ?_
      rcases hc with rfl | ⟨cm, rfl, hcm, -⟩
      · exact passes_nil
      · exact passes_kind hcm
    have hsplit : split .rparen (ta ++ tc ++ tr :: rest) = (ta ++ tc, tr :: rest) :=
      split_at_closer (Or.inl rfl) hk2 (Or.inl rfl) hpass
    have hlist : tf :: tl :: (ta ++ tc ++ [tr]) ++ rest = tf :: tl :: (ta ++ tc ++ tr :: rest) := by simp
    rw [hlist]
    cases args with
    | nil =>
      have hta := realL_nil ha
      subst hta
      have htc : tc = [] := by
        rcases hc with rfl | ⟨cm, rfl, -, hne⟩
        · rfl
        · exact absurd rfl hne
      subst htc
      obtain ⟨f', rfl⟩ : ∃ f', f = f' + 3 := ⟨f - 3, by omega⟩
      simp only [List.append_nil, List.nil_append] at hsplit hQ ⊢
      simp [pInner, hid, hQ, hk1, hsplit, pExprList_nil, hk2, endSplit]
    | cons e es =>
      have hL : pExprList c f (ta ++ tc) = ⟨.cons e es, [], tc⟩ := by
        refine ih.exprList e es ta tc hoa ha ?_ (by simp only [List.length_append]; omega)
        rcases hc with rfl | ⟨cm, rfl, hcm, -⟩
        · rfl
        · simp [ListStops, StopsAt, kindStops, hcm]; decide
      rcases hc with rfl | ⟨cm, rfl, hcm, -⟩
      · simp only [List.append_assoc, List.cons_append, List.nil_append, List.append_nil] at hQ hsplit hL ⊢
        simp [pInner, hid, hQ, hk1, hsplit, hL, hk2, endSplit]
      · simp only [List.append_assoc, List.cons_append, List.nil_append, List.append_nil] at hQ hsplit hL ⊢
        simp [pInner, hid, hQ, hk1, hsplit, hL, hk2, endSplit, hcm]
  | nil => simp [isInnerPrimary] at hi
  | unary _ _ _ => simp [isInnerPrimary] at hi
  | binary _ _ _ _ => simp [isInnerPrimary] at hi
  | inE _ _ _ _ _ => simp [isInnerPrimary] at hi
  | index _ _ _ _ => simp [isInnerPrimary] at hi

/-! ### `exprList` -/

theorem listStops_stops {rest : List Token} (h : ListStops rest = true) : StopsAt 0 rest = true := by
  simp only [ListStops, Bool.and_eq_true] at h
  exact h.1

theorem listTail_stops {l : ExprList} {tl rest : List Token} (hl : ListTailReal l tl)
    (hs : ListStops rest = true) : StopsAt 0 (tl ++ rest) = true := by
  cases l with
  | nil =>
    have : tl = [] := hl
    subst this
    exact listStops_stops hs
  | cons e es =>
    obtain ⟨cm, te, tl', rfl, hcm, -, -⟩ := hl
    simp only [List.cons_append, StopsAt, kindStops, hcm]
    decide

theorem pExprList_fwd_step (c : PCtx) (f : Nat) (ih : Fwd c f) (e : Expr) (es : ExprList)
    (ts rest : List Token) (hok : okList (.cons e es) = true) (hr : RealL (.cons e es) ts)
    (hs : ListStops rest = true) (hf : 4 * (ts ++ rest).length + 5 ≤ f + 1) :
    pExprList c (f + 1) (ts ++ rest) = ⟨.cons e es, [], rest⟩ := by
  obtain ⟨te, tl, rfl, he, hl⟩ := realL_cons hr
  obtain ⟨hoe, hoes⟩ := okList_cons hok
  simp only [List.length_append] at hf
  have hE := ih.expr e te (tl ++ rest) hoe he (listTail_stops hl hs)
    (by simp only [List.length_append]; omega)
  have hT := ih.exprListTail (.cons e .nil) es tl rest hoes hl hs
    (by simp only [List.length_append]; omega)
  rw [List.append_assoc]
  simp only [pExprList, hE, ne_eq, not_true_eq_false, if_false, hT, appendL]

theorem pExprListTail_fwd_step (c : PCtx) (f : Nat) (ih : Fwd c f) (acc l : ExprList)
    (ts rest : List Token) (hok : okList l = true) (hr : ListTailReal l ts)
    (hs : ListStops rest = true) (hf : 4 * (ts ++ rest).length + 1 ≤ f + 1) :
    pExprListTail c (f + 1) acc (ts ++ rest) = ⟨appendL acc l, [], rest⟩ := by
  cases l with
  | nil =>
    have : ts = [] := hr
    subst this
    simp only [List.nil_append, appendL_nil]
    cases rest with
    | nil => simp [pExprListTail]
    | cons t r =>
      by_cases hc : t.kind = .comma
      · cases r with
        | nil =>
          simp only [List.nil_append, List.length_cons, List.length_nil] at hf
          obtain ⟨f', rfl⟩ : ∃ f', f = f' + 2 := ⟨f - 2, by omega⟩
          simp [pExprListTail, hc, pExpr_nil]
        | cons t2 r2 =>
          simp [ListStops, hc] at hs
      · simp [pExprListTail, hc]
  | cons e es =>
    obtain ⟨cm, te, tl, rfl, hcm, he, hl⟩ := hr
    obtain ⟨hoe, hoes⟩ := okList_cons hok
    simp only [List.cons_append, List.length_cons, List.length_append] at hf
    have hE := ih.expr e te (tl ++ rest) hoe he (listTail_stops hl hs)
      (by simp only [List.length_append]; omega)
    have hT := ih.exprListTail (acc.snoc e) es tl rest hoes hl hs
      (by simp only [List.length_append]; omega)
    have hlist : cm :: (te ++ tl) ++ rest = cm :: (te ++ (tl ++ rest)) := by simp
    rw [hlist]
    simp only [pExprListTail, hcm, ne_eq, not_true_eq_false, if_false, hE, isNF_nil]
    simp only [Bool.false_eq_true, if_false]
    split
    · simp [okSpine] at hoe
    · rw [hT, appendL_snoc]

/-! ### all productions -/

theorem fwd_all (c : PCtx) (fuel : Nat) : Fwd c fuel := by
  induction fuel with
  | zero => exact Fwd.zero c
  | succ f ih =>
    exact
      { expr := pExpr_fwd_step c f ih
        trail := pTrail_fwd_step c f ih
        higher := pHigher_fwd_step c f ih
        unary := pUnary_fwd_step c f ih
        primary := pPrimary_fwd_step c f ih
        inner := pInner_fwd_step c f ih
        exprList := pExprList_fwd_step c f ih
        exprListTail := pExprListTail_fwd_step c f ih }

end Pql
