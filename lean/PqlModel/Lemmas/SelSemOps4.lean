/-
Body `SELECT keys, aggregates FROM t GROUP BY keys` (summarize).
-/
import PqlModel.Lemmas.SelSemOps3
namespace Pql.SelSem
open Pql Sql CompileOracle Intended SplitQ

/-- the groups `Rel.interpOp` forms for `summarize … by keys` -/
def relGroups (t : Table) (keys : List Column) : List (List Val × List (List Val)) :=
  if keys.isEmpty then [([], t.rows)]
  else Sql.groupBy (fun r => keys.map fun g => Rel.evalP false [] (Rel.rowEnv t r) g.x) t.rows

/-- the output row of one group -/
def sumRow (t : Table) (keys cols : List Column) (gm : List Val × List (List Val)) : ORow :=
  let genv := gm.2.map (Rel.rowEnv t)
  let env := genv.head?.getD []
  (env, genv, (keys.map fun g => evalS genv env (trD g.x)) ++ (cols.map fun c => evalS genv env (trD c.x)))

def sumItem (src : Bytes) (c : Column) : SelectItem := ⟨false, trD c.x, some (aliasOf src c)⟩

theorem sumItems_vals (src : Bytes) (genv : List Env) (env : Env) (hd : List Val) (l : List Column) :
    (l.map (sumItem src)).flatMap (fun it => if it.star then hd else [evalS genv env it.expr]) =
      l.map fun c => evalS genv env (trD c.x) := by
  induction l with
  | nil => rfl
  | cons c l ih => simp [List.flatMap_cons, sumItem, ih]

theorem outRows_summarize (src : Bytes) (s : Select) (t : Table) (keys cols : List Column)
    (hi : s.items = keys.map (sumItem src) ++ cols.map (sumItem src))
    (hg : s.groupBy = keys.map fun c => trD c.x) (hw : s.where_ = none)
    (hk : ∀ c ∈ keys, tr false c.x = some (trD c.x))
    (hagg : (!keys.isEmpty || cols.any (fun c => hasAgg (trD c.x))) = true) :
    outRowsOf s t = (relGroups t keys).map (sumRow t keys cols) := by
  have hq : isAggQ s = true := by
    simp only [isAggQ, hi, hg, List.isEmpty_map, List.any_append, List.any_map, Function.comp_def, sumItem,
      Bool.not_false, Bool.true_and]
    simp only [Bool.or_eq_true] at hagg ⊢
    rcases hagg with h | h
    · exact .inl h
    · exact .inr (.inr h)
  have hgroups : (if (keys.map fun c => trD c.x).isEmpty then [([], srcRowsOf t)]
      else Sql.groupBy (fun r => (keys.map fun c => trD c.x).map fun g => evalS [] r.1 g) (srcRowsOf t)) =
      (relGroups t keys).map fun gm => (gm.1, gm.2.map fun r => (envOfRow [] t.cols r, r)) := by
    unfold relGroups
    rw [List.isEmpty_map]
    split
    · rfl
    · unfold srcRowsOf
      rw [groupBy_map]
      congr 2
      funext r
      rw [List.map_map]
      apply List.map_congr_left
      intro c hc
      simp [Rel.rowEnv, evalP_trD _ _ _ (hk c hc)]
  unfold outRowsOf
  rw [hq]
  simp only [↓reduceIte, whereRows]
  rw [hi, hg, hw]
  simp only []
  rw [hgroups, List.map_map]
  apply List.map_congr_left
  intro gm _
  simp only [Function.comp_def, sumRow, List.map_map, List.flatMap_append, sumItems_vals]
  rfl

 theorem any_congr' {α} {f g : α → Bool} : ∀ (l : List α), (∀ x ∈ l, f x = g x) → l.any f = l.any g
  | [], _ => rfl
  | x :: xs, h => by
    simp only [List.any_cons]
    rw [h x (List.mem_cons_self ..), any_congr' xs (fun y hy => h y (List.mem_cons_of_mem _ hy))]

theorem mapM_itemOf' (src : Bytes) (cols : List Column) (its : List SelectItem)
    (h : cols.mapM (itemOf src) = some its) :
    its = cols.map (sumItem src) ∧ ∀ c ∈ cols, tr false c.x = some (trD c.x) := mapM_itemOf src cols its h

theorem sel_summarize (src : Bytes) (db : DB) (ctes : List (Bytes × Table)) (a : SubA) (n : Bytes)
    (pp k : Span) (cols : List Column) (b : Span) (keys : List Column) (gs cs : List SelectItem) (gb : List SExpr)
    (hgs : keys.mapM (itemOf src) = some gs) (hcs : cols.mapM (itemOf src) = some cs)
    (hgb : keys.mapM (fun c => tr false c.x) = some gb)
    (hagg : (!keys.isEmpty || cols.any (fun c => Rel.isAggExpr c.x)) = true)
    (obs : List OrderTerm) (lim : Option SExpr) (ho : obsOf a = some obs) (hl : limOf a = some lim)
    (hop : a.op = some (.summarize pp k cols b keys)) (hs : a.sort = none) :
    evalSelect db ctes (mkSel n (gs ++ cs) none gb obs lim) = subEvalA src db (lookupTable db ctes n) a := by
  obtain ⟨hg1, hktr⟩ := mapM_itemOf' src keys gs hgs
  obtain ⟨hc1, hctr⟩ := mapM_itemOf' src cols cs hcs
  obtain ⟨hgb1, _⟩ := mapM_some (fun c : Column => tr false c.x) .none_ keys gb hgb
  have hgb2 : gb = keys.map fun c => trD c.x := hgb1
  subst hg1; subst hc1; subst hgb2
  have hagg' : (!keys.isEmpty || cols.any (fun c => hasAgg (trD c.x))) = true := by
    rw [← hagg]
    congr 1
    exact any_congr' cols (fun c hc => (isAggExpr_trD _ (hctr c hc)).symm)
  apply sel_core src db ctes a n _ _ _ obs lim ho hl (relGroups (lookupTable db ctes n) keys)
    (sumRow (lookupTable db ctes n) keys cols)
    (Rel.interpOp src db (lookupTable db ctes n) (.summarize pp k cols b keys))
  · rw [outCols_items]
    · simp only [Rel.interpOp, List.map_append, List.map_map]
      rfl
    · intro it hit
      simp only [List.mem_append, List.mem_map] at hit
      rcases hit with ⟨c, _, rfl⟩ | ⟨c, _, rfl⟩ <;> rfl
  · exact outRows_summarize src _ _ keys cols rfl rfl rfl hktr hagg'
  · simp only [Rel.interpOp, relGroups, sumRow]
    apply List.map_congr_left
    intro gm _
    congr 1
    · apply List.map_congr_left
      intro c hc
      exact evalP_trD _ _ _ (hktr c hc)
    · apply List.map_congr_left
      intro c hc
      exact evalP_trD _ _ _ (hctr c hc)
  · left; exact hs
  · simp [opPartA, hop, interpClause]

end Pql.SelSem
