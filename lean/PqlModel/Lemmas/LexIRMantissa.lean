/-
`(*scanner).numberOrDot` as translated, first part: what the function calls (`NumberEnv`), the
common tail `span := newSpan(start, s.pos); return Token{…normalizeNumberValue(spanString(…))}`, and
the loop over the subsequent decimal digits against the model's `mantissaLoop` / `finishNumber`.
-/
import PqlModel.Lemmas.LexIRExponent
namespace Pql.LexIR
open Pql
set_option linter.unusedSimpArgs false
set_option linter.unusedVariables false

/-- what `numberOrDot` calls -/
structure NumberEnv (lib : Lib) (env : Env) (fuel : Nat) : Prop where
  cursor : CursorEnv lib env
  newSpan : ∃ f, env "newSpan" = some f ∧ SpecNewSpan f
  indexSpan : ∃ f, env "indexSpan" = some f ∧ SpecIndexSpan f
  spanString : ∃ f, env "spanString" = some f ∧ SpecSpanString f
  normalize : ∃ f, env "normalizeNumberValue" = some f ∧ SpecNormalize f
  exponent : ∃ f, env "scanner.numberExponent" = some f ∧ SpecExponent fuel f
  errorToken : HasPrim lib env "errorToken"
  parseUint : HasPrim lib env "strconv.ParseUint"
  formatUint : HasPrim lib env "strconv.FormatUint"

/-- the variables of `numberOrDot` in scope in the digit loop -/
def mVars (b : Bool) (c : Nat) (ok : Bool) (p0 : Nat) : List (String × Val) :=
  [("hasDecimalPoint", .bool b), ("ok", .bool ok), ("c", .int c), ("start", .int p0), ("s", .scanner)]

/-- the number token that ends `w` bytes into `s` -/
def numVal (pre s : Bytes) (w : Nat) : Val :=
  .tok .number pre.length (pre.length + w) (normalizeNumber (s.take w))

theorem take_drop_pre (pre s : Bytes) (w : Nat) :
    List.take (pre.length + w - pre.length) (List.drop pre.length (pre ++ s)) = s.take w := by
  simp

/-- the common tail, in any scope that has `start` and `s` -/
theorem ret_normalized (lib : Lib) (env : Env) (fuel : Nat) (E : NumberEnv lib env fuel) (pre s : Bytes) (w l : Nat)
    (hw : w ≤ s.length) (V : List (String × Val)) (D : List (List Stmt))
    (h1 : V.find? (fun x => x.fst == "start") = some ("start", .int pre.length))
    (h2 : V.find? (fun x => x.fst == "s") = some ("s", .scanner)) :
    execBlock env fuel retNormalized ⟨V, hp pre s w l, D⟩ =
      .ok (.ret [numVal pre s w], ⟨("span", .span pre.length (pre.length + w)) :: V, hp pre s w l, D⟩) := by
  obtain ⟨fA, hA, sA⟩ := E.newSpan
  obtain ⟨fB, hB, sB⟩ := E.spanString
  obtain ⟨fC, hC, sC⟩ := E.normalize
  have hb : pre.length + w ≤ (pre ++ s).length := by simp; omega
  have e1 := sB (pre ++ s) pre.length (pre.length + w) (hp pre s w l) (by omega) hb
  rw [take_drop_pre] at e1
  unfold retNormalized numVal
  lx_simp [h1, h2, hA, hB, hC, sA pre.length (pre.length + w), e1, sC (s.take w), kind_number]

/-- the state in the digit loop -/
def mSt (b : Bool) (c : Nat) (ok : Bool) (p0 : Nat) (h : Heap) : State := ⟨mVars b c ok p0, h, []⟩

theorem leave_mSt (b b' : Bool) (c : Nat) (ok : Bool) (p0 : Nat) (h h' : Heap) (x y : String × Val) :
    State.leave ⟨x :: y :: mVars b c ok p0, h, []⟩ (mSt b' c ok p0 h') = mSt b c ok p0 h := by
  simp [State.leave, mSt, mVars]

theorem leave_mSt3 (b b' : Bool) (c : Nat) (ok : Bool) (p0 : Nat) (h h' : Heap) (x y z : String × Val) :
    State.leave ⟨x :: y :: z :: mVars b c ok p0, h, []⟩ (mSt b' c ok p0 h') = mSt b c ok p0 h := by
  simp [State.leave, mSt, mVars]

/-- one pass through the digit loop: at the end of the input -/
theorem mant_body_end (lib : Lib) (env : Env) (fuel : Nat) (E : NumberEnv lib env fuel) (pre s : Bytes) (k l : Nat)
    (b : Bool) (c : Nat) (ok : Bool) (hlen : s.length = k) :
    execBlock env fuel mantLoopBody (mSt b c ok pre.length (hp pre s k l)) =
      .ok (.ret [numVal pre s k], ⟨("ok", .bool false) :: ("c", .int 0) :: mVars b c ok pre.length, hp pre s k l, []⟩) := by
  obtain ⟨fN, hN, sN⟩ := E.cursor.next
  have hr := ret_normalized lib env fuel E pre s k l (by omega)
    (("ok", .bool false) :: ("c", .int 0) :: mVars b c ok pre.length) [] (by simp [mVars]) (by simp [mVars])
  unfold mantLoopBody mSt
  simp only [mVars] at hr ⊢
  lx_simp [hN, next_end sN pre s k l (by omega), hr]

/-- … at the first '.' -/
theorem mant_body_dot (lib : Lib) (env : Env) (fuel : Nat) (E : NumberEnv lib env fuel) (pre s : Bytes) (k l : Nat)
    (c : Nat) (ok : Bool) (rest : Bytes) (hd : s.drop k = 46 :: rest) :
    execBlock env fuel mantLoopBody (mSt false c ok pre.length (hp pre s k l)) =
      .ok (.next, ⟨("ok", .bool true) :: ("c", .int 46) :: mVars true c ok pre.length,
        hp pre s (k + 1) (pre.length + k), []⟩) := by
  obtain ⟨fN, hN, sN⟩ := E.cursor.next
  have nx := next_cons' sN pre s k l 46 rest 46 1 hd rfl
  unfold mantLoopBody mSt mVars
  lx_simp [hN, nx]

/-- … at a digit -/
theorem mant_body_digit (lib : Lib) (env : Env) (fuel : Nat) (E : NumberEnv lib env fuel) (pre s : Bytes) (k l : Nat)
    (b : Bool) (c : Nat) (ok : Bool) (c1 : UInt8) (rest : Bytes) (hd : s.drop k = c1 :: rest) (hdig : isDigit c1 = true) :
    ∃ r, execBlock env fuel mantLoopBody (mSt b c ok pre.length (hp pre s k l)) =
      .ok (.next, ⟨("ok", .bool true) :: ("c", .int r) :: mVars b c ok pre.length,
        hp pre s (k + 1) (pre.length + k), []⟩) := by
  obtain ⟨fN, hN, sN⟩ := E.cursor.next
  have hD := E.cursor.isDigit
  unfold HasPrim at hD
  obtain ⟨r, w, hdr, _, hq, hdg, _, hw⟩ := rune_facts c1 rest
  have hw1 : w = 1 := hw (isDigit_lt c1 hdig)
  subst hw1
  have nx := next_cons' sN pre s k l c1 rest r 1 hd hdr
  have n46 : ¬ r = 46 := by
    intro h
    have : c1 = 46 := (hq 46 (by omega)).mp h
    subst this
    revert hdig; decide
  refine ⟨r, ?_⟩
  unfold mantLoopBody mSt mVars
  lx_simp [hN, nx, n46, hD, prims, hdg, hdig]

/-- … at anything else: un-read it, try an exponent, finish -/
theorem mant_body_other (lib : Lib) (env : Env) (fuel : Nat) (E : NumberEnv lib env fuel) (pre s : Bytes) (k l : Nat)
    (b : Bool) (c : Nat) (ok : Bool) (c1 : UInt8) (rest : Bytes) (hd : s.drop k = c1 :: rest) (hf : s.length < fuel)
    (hdig : ¬ isDigit c1 = true) (hdot : ¬ (c1 = 46 ∧ b = false)) :
    ∃ r l', execBlock env fuel mantLoopBody (mSt b c ok pre.length (hp pre s k l)) =
      .ok (.ret [numVal pre s (k + exponentLen (s.drop k))],
        ⟨("ok", .bool true) :: ("c", .int r) :: mVars b c ok pre.length, hp pre s (k + exponentLen (s.drop k)) l', []⟩) := by
  obtain ⟨fN, hN, sN⟩ := E.cursor.next
  obtain ⟨fP, hP, sP⟩ := E.cursor.prev
  obtain ⟨fX, hX, sX⟩ := E.exponent
  have hD := E.cursor.isDigit
  unfold HasPrim at hD
  have hk := lt_of_drop_cons hd
  obtain ⟨r, w, hdr, _, hq, hdg, _, hw⟩ := rune_facts c1 rest
  have nx := next_cons' sN pre s k l c1 rest r w hd hdr
  obtain ⟨l', hx⟩ := sX pre s k (pre.length + k) (by omega) hf
  have hle : k + exponentLen (s.drop k) ≤ s.length := by
    have := exponentLen_le (s.drop k)
    simp only [List.length_drop] at this
    omega
  have hr := ret_normalized lib env fuel E pre s (k + exponentLen (s.drop k)) l' hle
    (("ok", .bool true) :: ("c", .int r) :: mVars b c ok pre.length) [] (by simp [mVars]) (by simp [mVars])
  have hcond : (decide (r = 46) && !b) = false := by
    by_cases h46 : r = 46
    · have : c1 = 46 := (hq 46 (by omega)).mp h46
      cases b with
      | false => exact absurd ⟨this, rfl⟩ hdot
      | true => simp
    · simp [h46]
  refine ⟨r, l', ?_⟩
  unfold mantLoopBody mSt
  simp only [mVars] at hr ⊢
  by_cases h46 : r = 46
  · have hb : b = true := by
      cases b with
      | false => exact absurd ⟨(hq 46 (by omega)).mp h46, rfl⟩ hdot
      | true => rfl
    subst hb
    subst h46
    lx_simp [hN, hP, hX, nx, hD, prims, hdg, hdig, prev_hp sP pre s k, hx, hr]
  · lx_simp [hN, hP, hX, nx, h46, hD, prims, hdg, hdig, prev_hp sP pre s k, hx, hr]

/-- the width of `finishNumber s k b` -/
def finW (s : Bytes) (k : Nat) (b : Bool) : Nat :=
  k + mantissaLoop b (s.drop k) + exponentLen (s.drop (k + mantissaLoop b (s.drop k)))

theorem finishNumber_eq_finW (s : Bytes) (k : Nat) (b : Bool) :
    finishNumber s k b = ⟨.number, normalizeNumber (s.take (finW s k b)), finW s k b⟩ := rfl

theorem finW_nil (s : Bytes) (k : Nat) (b : Bool) (hd : s.drop k = []) : finW s k b = k := by
  simp [finW, hd, mantissaLoop, exponentLen]

theorem finW_step (s : Bytes) (k : Nat) (b b' : Bool) (c1 : UInt8) (rest : Bytes) (hd : s.drop k = c1 :: rest)
    (hm : mantissaLoop b (c1 :: rest) = mantissaLoop b' rest + 1) : finW s k b = finW s (k + 1) b' := by
  have hr := drop_succ_of_cons hd
  unfold finW
  rw [hd, hr, hm]
  have : k + (mantissaLoop b' rest + 1) = k + 1 + mantissaLoop b' rest := by omega
  rw [this]

theorem finW_stop (s : Bytes) (k : Nat) (b : Bool) (c1 : UInt8) (rest : Bytes) (hd : s.drop k = c1 :: rest)
    (hm : mantissaLoop b (c1 :: rest) = 0) : finW s k b = k + exponentLen (s.drop k) := by
  unfold finW
  rw [hd, hm]
  simp [hd]

/-- **the loop over the subsequent decimal digits** computes the model's `finishNumber` -/
theorem mant_loop (lib : Lib) (env : Env) (fuel : Nat) (E : NumberEnv lib env fuel) (pre s : Bytes) (c : Nat) (ok : Bool)
    (hf : s.length < fuel) :
    ∀ (n k : Nat) (b : Bool) (l : Nat), k ≤ s.length → s.length - k < n →
      ∃ b' l', foreverLoop (execBlock env fuel mantLoopBody) n (mSt b c ok pre.length (hp pre s k l)) =
        .ok (.ret [numVal pre s (finW s k b)], mSt b' c ok pre.length (hp pre s (finW s k b) l')) := by
  intro n
  induction n with
  | zero => intro k b l _ h; omega
  | succ n ih =>
    intro k b l hk hn
    cases hd : s.drop k with
    | nil =>
      have hlen : s.length ≤ k := List.drop_eq_nil_iff.mp hd
      refine ⟨b, l, ?_⟩
      rw [finW_nil s k b hd]
      simp only [foreverLoop, mant_body_end lib env fuel E pre s k l b c ok (by omega), bind, Except.bind, pure,
        Except.pure, leave_mSt]
    | cons c1 rest =>
      have hlt := lt_of_drop_cons hd
      by_cases hdot : c1 = 46 ∧ b = false
      · obtain ⟨rfl, rfl⟩ := hdot
        obtain ⟨b', l', e⟩ := ih (k + 1) true (pre.length + k) (by omega) (by omega)
        refine ⟨b', l', ?_⟩
        rw [finW_step s k false true 46 rest hd (by simp [mantissaLoop])]
        simp only [foreverLoop, mant_body_dot lib env fuel E pre s k l c ok rest hd, bind, Except.bind, leave_mSt, e]
      · by_cases hdig : isDigit c1 = true
        · obtain ⟨r, e1⟩ := mant_body_digit lib env fuel E pre s k l b c ok c1 rest hd hdig
          obtain ⟨b', l', e⟩ := ih (k + 1) b (pre.length + k) (by omega) (by omega)
          refine ⟨b', l', ?_⟩
          have hm : mantissaLoop b (c1 :: rest) = mantissaLoop b rest + 1 := by
            have : (c1 == 46 && !b) = false := by
              cases b with
              | true => simp
              | false =>
                have : c1 ≠ 46 := fun h => hdot ⟨h, rfl⟩
                simp [this]
            simp [mantissaLoop, this, hdig]
          rw [finW_step s k b b c1 rest hd hm]
          simp only [foreverLoop, e1, bind, Except.bind, leave_mSt, e]
        · obtain ⟨r, l', e1⟩ := mant_body_other lib env fuel E pre s k l b c ok c1 rest hd hf hdig hdot
          refine ⟨b, l', ?_⟩
          have hm : mantissaLoop b (c1 :: rest) = 0 := by
            have : (c1 == 46 && !b) = false := by
              cases b with
              | true => simp
              | false =>
                have : c1 ≠ 46 := fun h => hdot ⟨h, rfl⟩
                simp [this]
            simp [mantissaLoop, this, hdig]
          rw [finW_stop s k b c1 rest hd hm]
          simp only [foreverLoop, e1, bind, Except.bind, pure, Except.pure, leave_mSt]

end Pql.LexIR
