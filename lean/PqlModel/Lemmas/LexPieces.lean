/-
Pieces of `SplitStatements` against the token stream: the start offset of every piece and
the tokens of the whole scan that lie inside a piece.  `pieceStarts` and `tokensWithin` are
used in the statement of `C15_piece_tokens_at`.
-/
import PqlModel.Lemmas.LexSplit
namespace Pql

/-- absolute start offsets of the pieces: 0, and one past every semicolon token -/
def pieceStarts (src : Bytes) : List Nat :=
  0 :: ((scan src).filter (·.kind = .semi)).map (·.stop)

theorem pieceStarts_nosemi (s : Bytes) (h : ∀ t ∈ scan s, t.kind ≠ .semi) : pieceStarts s = [0] := by
  unfold pieceStarts
  rw [List.filter_eq_nil_iff.mpr (by simpa using h)]
  rfl

theorem pieceStarts_semi (u v : Bytes) (hr : Reaches (u ++ 59 :: v) u.length)
    (h : ∀ t ∈ scan u, t.kind ≠ .semi) :
    pieceStarts (u ++ 59 :: v) = 0 :: (pieceStarts v).map (· + (u.length + 1)) := by
  unfold pieceStarts
  rw [scan_semi_split u v hr, List.filter_append, List.filter_eq_nil_iff.mpr (by simpa using h)]
  simp only [List.filter_map, Function.comp_def, List.filter_cons, List.map_cons, List.map_map, List.nil_append, Token.shift_kind, Token.shift_stop, decide_true, if_true, Nat.zero_add]
  rfl


theorem map_shift_zero (ts : List Token) : ts.map (Token.shift 0) = ts := by
  have : Token.shift 0 = id := rfl
  rw [this, List.map_id]

/-- the tokens of `ts` that lie inside the span `[o, o + len]` -/
def tokensWithin (ts : List Token) (o len : Nat) : List Token :=
  ts.filter fun t => o ≤ t.start ∧ t.stop ≤ o + len

theorem tokensWithin_self (s : Bytes) : tokensWithin (scan s) 0 s.length = scan s := by
  unfold tokensWithin
  rw [List.filter_eq_self]
  intro t ht
  have := mem_scan_bounds s t ht
  simp; omega

theorem tokensWithin_map_shift (ts : List Token) (o len d : Nat) :
    tokensWithin (ts.map (Token.shift d)) (o + d) len = (tokensWithin ts o len).map (Token.shift d) := by
  unfold tokensWithin
  rw [List.filter_map]
  congr 1
  apply List.filter_congr
  intro t _
  simp only [Function.comp, Token.shift_start, Token.shift_stop]
  apply decide_eq_decide.mpr
  omega

theorem tokensWithin_append (as bs : List Token) (o len : Nat) :
    tokensWithin (as ++ bs) o len = tokensWithin as o len ++ tokensWithin bs o len := by
  simp [tokensWithin]

theorem tokensWithin_eq_nil (ts : List Token) (o len : Nat)
    (h : ∀ t ∈ ts, ¬(o ≤ t.start ∧ t.stop ≤ o + len)) : tokensWithin ts o len = [] := by
  unfold tokensWithin
  rw [List.filter_eq_nil_iff]
  intro t ht
  simpa using h t ht

theorem drop_semi_append (u v : Bytes) (o : Nat) :
    (u ++ 59 :: v).drop (o + (u.length + 1)) = v.drop o := by
  have : u ++ 59 :: v = (u ++ [59]) ++ v := by simp
  rw [this, List.drop_append]
  simp

theorem piece_tokens_aux (src : Bytes) :
    ∀ po ∈ (splitStatements src).zip (pieceStarts src),
      (src.drop po.2).take po.1.length = po.1 ∧
      tokensWithin (scan src) po.2 po.1.length = (scan po.1).map (Token.shift po.2) := by
  induction hn : src.length using Nat.strongRecOn generalizing src with
  | _ n ih =>
    subst hn
    rcases splitStatements_cases src with ⟨h1, h2⟩ | ⟨u, v, h1, h2, h3, h4⟩
    · intro po hpo
      rw [h2, pieceStarts_nosemi src h1] at hpo
      simp at hpo
      subst hpo
      simp [tokensWithin_self, map_shift_zero]
    · subst h1
      intro po hpo
      rw [h4, pieceStarts_semi u v h2 h3, List.zip_cons_cons, List.zip_map_right] at hpo
      rcases List.mem_cons.mp hpo with hpo | hpo
      · subst hpo
        refine ⟨by simp, ?_⟩
        simp only [map_shift_zero]
        rw [scan_semi_split u v h2, tokensWithin_append, tokensWithin_self, tokensWithin_eq_nil,
          List.append_nil]
        intro t ht
        rcases List.mem_cons.mp ht with ht | ht
        · subst ht; simp
        · obtain ⟨t', _, rfl⟩ := List.mem_map.mp ht
          simp only [Token.shift_stop]; omega
      · obtain ⟨⟨p, o⟩, hmem, rfl⟩ := List.mem_map.mp hpo
        obtain ⟨ih1, ih2⟩ := ih v.length (by simp; omega) v rfl (p, o) hmem
        simp only [Prod.map, id] at ih1 ih2 ⊢
        refine ⟨by rw [drop_semi_append, ih1], ?_⟩
        rw [scan_semi_split u v h2, tokensWithin_append, tokensWithin_eq_nil, List.nil_append]
        · have hc : tokensWithin (⟨.semi, u.length, u.length + 1, []⟩ ::
              (scan v).map (Token.shift (u.length + 1))) (o + (u.length + 1)) p.length =
              tokensWithin ((scan v).map (Token.shift (u.length + 1))) (o + (u.length + 1)) p.length := by
            simp only [tokensWithin, List.filter_cons]
            rw [if_neg (by simp; omega)]
          rw [hc, tokensWithin_map_shift, ih2, List.map_map]
          apply List.map_congr_left
          intro t _
          simp [Token.shift_shift]
        · intro t ht
          have := mem_scan_bounds u t ht
          omega
end Pql
