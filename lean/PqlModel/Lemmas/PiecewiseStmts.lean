/-
Property C15, parse half — the statement loop of `Parse` over the pieces of `SplitStatements`.

`stepAcc`     : what one iteration of `Parse`'s loop does with the result of one statement;
`foldPieces`  : the loop as a fold over the pieces (each scanned at its own offset);
`offsetsFrom` : the start offsets of the pieces (sum of the lengths of the earlier pieces, plus
                one per ';').
-/
import PqlModel.Lemmas.PiecewiseTab
import PqlModel.Lemmas.AccountedStmt
import PqlModel.Props.C15
namespace Pql.Piecewise
open Pql Pql.C15

/-! ### `splitSemi` on a statement followed by a semicolon token -/

theorem splitSemi_nosemi (g : List Token) (h : ∀ t ∈ g, t.kind ≠ .semi) : splitSemi g = (g, []) := by
  induction g with
  | nil => rfl
  | cons t g ih =>
    simp only [splitSemi, if_neg (h t (by simp))]
    rw [ih (fun t' ht' => h t' (by simp [ht']))]

theorem splitSemi_append_semi (g : List Token) (s : Token) (rest : List Token)
    (h : ∀ t ∈ g, t.kind ≠ .semi) (hs : s.kind = .semi) :
    splitSemi (g ++ s :: rest) = (g, s :: rest) := by
  induction g with
  | nil => simp [splitSemi, hs]
  | cons t g ih =>
    simp only [List.cons_append, splitSemi, if_neg (h t (by simp))]
    rw [ih (fun t' ht' => h t' (by simp [ht']))]

/-! ### the loop as a fold -/

/-- one iteration of `Parse`'s loop: append the statement (if any); a "replacing" error list
    overwrites the accumulated errors, any other is appended -/
def stepAcc (st : List Stmt × Errs) (r : Option Stmt × Errs × Bool) : List Stmt × Errs :=
  (st.1 ++ r.1.toList, if r.2.2 then r.2.1 else st.2 ++ r.2.1)

theorem pStatements_last (c : PCtx) (k : Nat) (acc : List Stmt) (errs : Errs) (g : List Token)
    (h : ∀ t ∈ g, t.kind ≠ .semi) :
    pStatements c (k + 1) acc errs g = stepAcc (acc, errs) (pStatement c g) := by
  simp only [pStatements, splitSemi_nosemi g h, stepAcc]
  cases (pStatement c g).1 <;> simp

theorem pStatements_step (c : PCtx) (k : Nat) (acc : List Stmt) (errs : Errs) (g : List Token)
    (s : Token) (rest : List Token) (h : ∀ t ∈ g, t.kind ≠ .semi) (hs : s.kind = .semi) :
    pStatements c (k + 1) acc errs (g ++ s :: rest) =
      pStatements c k (stepAcc (acc, errs) (pStatement c g)).1
        (stepAcc (acc, errs) (pStatement c g)).2 rest := by
  simp only [pStatements, splitSemi_append_semi g s rest h hs, stepAcc]
  cases (pStatement c g).1 <;> simp

def offsetsFrom : Nat → List Bytes → List Nat
  | _, [] => []
  | off, p :: ps => off :: offsetsFrom (off + p.length + 1) ps

theorem offsetsFrom_length (off : Nat) (ps : List Bytes) : (offsetsFrom off ps).length = ps.length := by
  induction ps generalizing off with
  | nil => rfl
  | cons p ps ih => simp [offsetsFrom, ih]

theorem offsetsFrom_add (a b : Nat) (ps : List Bytes) :
    offsetsFrom (a + b) ps = (offsetsFrom a ps).map (· + b) := by
  induction ps generalizing a with
  | nil => rfl
  | cons p ps ih =>
    simp only [offsetsFrom, List.map_cons]
    rw [show a + b + p.length + 1 = (a + p.length + 1) + b by omega, ih]

/-- the start offsets computed from the piece lengths are the `pieceStarts` of `C15_piece_tokens_at`
    (0 and the `stop` of every semicolon token) -/
theorem offsetsFrom_eq_pieceStarts (src : Bytes) :
    offsetsFrom 0 (splitStatements src) = pieceStarts src := by
  induction hn : src.length using Nat.strongRecOn generalizing src with
  | _ n ih =>
    subst hn
    rcases splitStatements_cases src with ⟨h1, h2⟩ | ⟨u, v, h1, h2, h3, h4⟩
    · rw [h2, pieceStarts_nosemi src h1]; rfl
    · subst h1
      rw [h4, pieceStarts_semi u v h2 h3, ← ih v.length (by simp; omega) v rfl]
      simp only [offsetsFrom, Nat.zero_add]
      rw [← offsetsFrom_add]
      simp

/-- the loop of `Parse` as a fold over (piece, offset) pairs -/
def foldPieces (c : PCtx) (st : List Stmt × Errs) (l : List (Bytes × Nat)) : List Stmt × Errs :=
  l.foldl (fun st po => stepAcc st (pStatement c (scanFrom po.1 po.2))) st

theorem scanFrom_nosemi (p : Bytes) (off : Nat) (h : ∀ t ∈ scan p, t.kind ≠ .semi) :
    ∀ t ∈ scanFrom p off, t.kind ≠ .semi := by
  rw [scanFrom_eq_map_scan]
  intro t ht
  obtain ⟨t', ht', rfl⟩ := List.mem_map.mp ht
  exact h t' ht'

theorem pStatements_rejoin (c : PCtx) : ∀ (ps : List Bytes), ps ≠ [] →
    ∀ (off k : Nat) (acc : List Stmt) (errs : Errs),
    (∀ p ∈ ps, ∀ t ∈ scan p, t.kind ≠ .semi) → (rejoinTokens off ps).length < k →
    pStatements c k acc errs (rejoinTokens off ps) =
      foldPieces c (acc, errs) (ps.zip (offsetsFrom off ps)) := by
  intro ps
  induction ps with
  | nil => intro h; exact absurd rfl h
  | cons p ps ih =>
    intro _ off k acc errs hns hk
    have hp := scanFrom_nosemi p off (hns p (by simp))
    cases k with
    | zero => omega
    | succ k =>
      cases ps with
      | nil =>
        simp only [rejoinTokens, offsetsFrom, List.zip_cons_cons, List.zip_nil_right, foldPieces,
          List.foldl_cons, List.foldl_nil]
        exact pStatements_last c k acc errs _ hp
      | cons q ps =>
        rw [rejoinTokens_cons off p (by simp)] at hk ⊢
        rw [pStatements_step c k acc errs _ _ _ hp rfl]
        rw [ih (by simp) _ _ _ _ (fun p' hp' => hns p' (by simp [hp'])) (by
          simp only [List.length_append, List.length_cons] at hk; omega)]
        simp only [offsetsFrom, List.zip_cons_cons, foldPieces, List.foldl_cons]

/-- **`Parse` as a fold over the pieces of `SplitStatements`.** -/
theorem parse_eq_foldPieces (src : Bytes) :
    parse src = foldPieces ⟨src.length⟩ ([], [])
      ((splitStatements src).zip (offsetsFrom 0 (splitStatements src))) := by
  unfold parse parseTokens
  have hk : (scan src).length < (scan src).length + 1 := Nat.lt_succ_self _
  rw [C15_piece_tokens src] at hk ⊢
  exact pStatements_rejoin ⟨src.length⟩ _ (splitAtSemis_ne_nil _ _ _) 0 _ [] []
    (C15_no_semi_in_piece src) hk

/-! ### one piece on its own -/

/-- a source whose scan has no semicolon token is parsed by one iteration of the loop -/
theorem parse_nosemi (p : Bytes) (h : ∀ t ∈ scan p, t.kind ≠ .semi) :
    parse p = stepAcc ([], []) (pStatement ⟨p.length⟩ (scan p)) := by
  unfold parse parseTokens
  exact pStatements_last _ _ [] [] _ h

theorem parse_nosemi_fst (p : Bytes) (h : ∀ t ∈ scan p, t.kind ≠ .semi) :
    (parse p).1 = (pStatement ⟨p.length⟩ (scan p)).1.toList := by
  rw [parse_nosemi p h]; simp [stepAcc]

theorem parse_nosemi_snd (p : Bytes) (h : ∀ t ∈ scan p, t.kind ≠ .semi) :
    (parse p).2 = (pStatement ⟨p.length⟩ (scan p)).2.1 := by
  rw [parse_nosemi p h]; simp only [stepAcc, List.nil_append]; split <;> rfl

/-- the "replaces the accumulated error" flag is the not-found flag of the statement's errors -/
theorem pStatement_flag (c : PCtx) (g : List Token) :
    (pStatement c g).2.2 = isNF (pStatement c g).2.1 := by
  rw [pStatement_eq]
  unfold stmtTail
  split
  · rename_i hnf
    split
    · rfl
    · simp [hnf]
  · simp

theorem pLet_val_of_notNF (c : PCtx) (fuel : Nat) (ts : List Token)
    (h : isNF (pLet c fuel ts).errs = false) : (pLet c fuel ts).val ≠ none := by
  unfold pLet at h ⊢
  split
  · simp at h
  · split
    · rename_i hk; simp [hk] at h
    · dsimp only
      split
      · simp
      · split
        · simp
        · split <;> simp

theorem pTabular_val_of_notNF (c : PCtx) (fuel : Nat) (ts : List Token)
    (h : isNF (pTabular c (fuel + 1) ts).errs = false) : (pTabular c (fuel + 1) ts).val ≠ .nil := by
  unfold pTabular at h ⊢
  dsimp only at h ⊢
  generalize hi : pIdent c ts = ri at h ⊢
  obtain ⟨iv, ie, irest⟩ := ri
  rcases pIdent_cases hi with ⟨t0, rfl, hk0, rfl, rfl⟩ | ⟨rfl, -, hnf, -⟩
  · simp
  · dsimp only at h; rw [hnf] at h; cases h

/-- **A statement's tokens yield no statement exactly when there are no tokens or the statement
    fails with a not-found error** (neither a `let` statement nor a tabular expression starts
    here).  Any other failure still yields a (partial) statement. -/
theorem pStatement_none_iff (c : PCtx) (g : List Token) :
    (pStatement c g).1 = none ↔ g = [] ∨ (pStatement c g).2.2 = true := by
  by_cases hg : g = []
  · subst hg; simp [pStatement_nil]
  · simp only [hg, false_or]
    rw [pStatement_eq]
    have hrest : isNF (stmtFirst c g).errs = true → (stmtFirst c g).rest = g := by
      unfold stmtFirst
      dsimp only
      split
      · rename_i h1; intro h2; simp only [Bool.not_eq_eq_eq_not, Bool.not_true] at h1; rw [h1] at h2; cases h2
      · have := pTabular_nf c (fuelFor g.length) g
        split <;> exact this
    have hval : isNF (stmtFirst c g).errs = false → (stmtFirst c g).val ≠ none := by
      unfold stmtFirst
      dsimp only
      split
      · rename_i h1; intro _
        simp only [Bool.not_eq_eq_eq_not, Bool.not_true] at h1
        exact pLet_val_of_notNF c _ g h1
      · intro h2
        have : fuelFor g.length = (fuelFor g.length - 1) + 1 := by unfold fuelFor; omega
        have hv := pTabular_val_of_notNF c (fuelFor g.length - 1) g (by rw [← this]; split at h2 <;> exact h2)
        rw [← this] at hv
        split
        · rename_i heq; exact absurd heq hv
        · simp
    unfold stmtTail
    split
    · rename_i hnf
      rw [hrest hnf]
      cases g with
      | nil => exact absurd rfl hg
      | cons t g => simp
    · rename_i hnf
      simp only [Bool.not_eq_true] at hnf
      simp only [Bool.false_eq_true, iff_false]
      exact hval hnf

end Pql.Piecewise
