/-
Engine primitives of the reference evaluator: `sortByKeys`, `groupBy` commute with maps;
environment lemmas for `lookupCol` / `evalS`.
-/
import PqlModel.Spec.Rel
namespace Pql.SelSem
open Pql Sql

/-! ### sortByKeys -/

theorem go_map {α β} (dirs : List (Bool × Bool)) (k : β → List Val) (f : α → β) (x : α) :
    ∀ acc : List α, (sortByKeys.go dirs (fun a => k (f a)) x acc).map f = sortByKeys.go dirs k (f x) (acc.map f)
  | [] => by simp [sortByKeys.go]
  | y :: ys => by
    simp only [sortByKeys.go, List.map_cons]
    split
    · simp
    · simp [go_map dirs k f x ys]

theorem sortByKeys_map {α β} (dirs : List (Bool × Bool)) (k : β → List Val) (f : α → β) (xs : List α) :
    sortByKeys dirs k (xs.map f) = (sortByKeys dirs (fun a => k (f a)) xs).map f := by
  unfold sortByKeys
  suffices h : ∀ (xs acc : List α),
      List.foldl (fun acc x => sortByKeys.go dirs k x acc) (acc.map f) (xs.map f) =
        (List.foldl (fun acc x => sortByKeys.go dirs (fun a => k (f a)) x acc) acc xs).map f by
    simpa using h xs []
  intro xs
  induction xs with
  | nil => intro acc; rfl
  | cons x xs ih =>
    intro acc
    simp only [List.map_cons, List.foldl_cons]
    rw [← go_map, ih]

theorem go_noLt {α} (dirs : List (Bool × Bool)) (key : α → List Val) (x : α)
    (h : ∀ y, keysLt dirs (key x) (key y) = false) :
    ∀ acc : List α, sortByKeys.go dirs key x acc = acc ++ [x]
  | [] => by simp [sortByKeys.go]
  | y :: ys => by simp [sortByKeys.go, h y, go_noLt dirs key x h ys]

theorem sortByKeys_noLt {α} (dirs : List (Bool × Bool)) (key : α → List Val)
    (h : ∀ x y, keysLt dirs (key x) (key y) = false) (xs : List α) : sortByKeys dirs key xs = xs := by
  unfold sortByKeys
  suffices hh : ∀ (xs acc : List α),
      List.foldl (fun acc x => sortByKeys.go dirs key x acc) acc xs = acc ++ xs by
    simpa using hh xs []
  intro xs
  induction xs with
  | nil => intro acc; simp
  | cons x xs ih => intro acc; simp [ih, go_noLt dirs key x (h x)]

theorem keysLt_nil_dirs (a b : List Val) : keysLt [] a b = false := by
  unfold keysLt; rfl

theorem sortByKeys_nil_dirs {α} (key : α → List Val) (xs : List α) : sortByKeys [] key xs = xs :=
  sortByKeys_noLt [] key (fun _ _ => keysLt_nil_dirs _ _) xs

theorem sortByKeys_singleton {α} (dirs : List (Bool × Bool)) (key : α → List Val) (x : α) :
    sortByKeys dirs key [x] = [x] := by
  simp [sortByKeys, sortByKeys.go]

/-! ### groupBy -/

theorem groupBy_map {α β} (key : β → List Val) (f : α → β) (xs : List α) :
    groupBy key (xs.map f) = (groupBy (fun a => key (f a)) xs).map fun g => (g.1, g.2.map f) := by
  unfold groupBy
  suffices h : ∀ (xs : List α) (acc : List (List Val × List α)),
      List.foldl (fun acc x =>
          let k := key x
          if acc.any (·.1 == k) then acc.map (fun g => if g.1 == k then (g.1, g.2 ++ [x]) else g) else acc ++ [(k, [x])])
        (acc.map fun g => (g.1, g.2.map f)) (xs.map f) =
      (List.foldl (fun acc x =>
          let k := key (f x)
          if acc.any (·.1 == k) then acc.map (fun g => if g.1 == k then (g.1, g.2 ++ [x]) else g) else acc ++ [(k, [x])])
        acc xs).map fun g => (g.1, g.2.map f) by
    simpa using h xs []
  intro xs
  induction xs with
  | nil => intro acc; rfl
  | cons x xs ih =>
    intro acc
    simp only [List.map_cons, List.foldl_cons]
    rw [← ih]
    congr 1
    simp only [List.any_map, Function.comp_def]
    split
    · simp only [List.map_map]
      apply List.map_congr_left
      intro g _
      simp only [Function.comp_def]
      split <;> simp
    · simp

/-! ### environments -/

theorem find?_append_subset {α} (p : α → Bool) (l1 l2 : List α) (h : ∀ e ∈ l2, e ∈ l1) :
    (l1 ++ l2).find? p = l1.find? p := by
  rw [List.find?_append]
  cases h1 : l1.find? p with
  | some e => rfl
  | none =>
    simp only [Option.none_or]
    rw [List.find?_eq_none] at h1 ⊢
    intro e he
    exact h1 e (h e he)

theorem lookupCol_append_subset (env1 env2 : Env) (h : ∀ e ∈ env2, e ∈ env1) (parts : List Bytes) :
    lookupCol (env1 ++ env2) parts = lookupCol env1 parts := by
  unfold lookupCol
  split
  · rw [find?_append_subset _ _ _ h]
  · rw [find?_append_subset _ _ _ h]
  · rfl

mutual
theorem evalS_env_congr (g : List Env) (env1 env2 : Env)
    (h : ∀ parts, lookupCol env1 parts = lookupCol env2 parts) :
    ∀ e : SExpr, evalS g env1 e = evalS g env2 e
  | .col parts => by simp only [evalS, h]
  | .str v => by simp only [evalS]
  | .num t => by simp only [evalS]
  | .param t => by simp only [evalS]
  | .const w => by simp only [evalS]
  | .call fn star args filter => by
    cases filter <;> simp only [evalS, evalArgs_env_congr g env1 env2 h args]
  | .case_ c t e => by
    simp only [evalS, evalS_env_congr g env1 env2 h c, evalS_env_congr g env1 env2 h t, evalS_env_congr g env1 env2 h e]
  | .neg x => by simp only [evalS, evalS_env_congr g env1 env2 h x]
  | .pos x => by simp only [evalS, evalS_env_congr g env1 env2 h x]
  | .not_ x => by simp only [evalS, evalS_env_congr g env1 env2 h x]
  | .bin op x y => by simp only [evalS, evalS_env_congr g env1 env2 h x, evalS_env_congr g env1 env2 h y]
  | .isNull x neg => by simp only [evalS, evalS_env_congr g env1 env2 h x]
  | .inList x vals => by
    simp only [evalS, evalS_env_congr g env1 env2 h x, evalArgs_env_congr g env1 env2 h vals]
  | .index x i => by simp only [evalS, evalS_env_congr g env1 env2 h x, evalS_env_congr g env1 env2 h i]
  | .none_ => by simp only [evalS]
theorem evalArgs_env_congr (g : List Env) (env1 env2 : Env)
    (h : ∀ parts, lookupCol env1 parts = lookupCol env2 parts) :
    ∀ es : SExprList, evalArgs g env1 es = evalArgs g env2 es
  | .nil => by simp only [evalArgs]
  | .cons e es => by
    simp only [evalArgs, evalS_env_congr g env1 env2 h e, evalArgs_env_congr g env1 env2 h es]
end

theorem evalS_append_subset (g : List Env) (env1 env2 : Env) (h : ∀ e ∈ env2, e ∈ env1) (e : SExpr) :
    evalS g (env1 ++ env2) e = evalS g env1 e :=
  evalS_env_congr g _ _ (lookupCol_append_subset env1 env2 h) e

theorem zip_prefix {α β} : ∀ (cols al : List α) (r vals : List β),
    cols.zip r <+: (cols ++ al).zip (r ++ vals)
  | [], _, _, _ => by simp
  | _ :: _, _, [], _ => by simp
  | c :: cols, al, v :: r, vals => by
    simp only [List.zip_cons_cons, List.cons_append]
    exact List.prefix_cons_inj _ |>.mpr (zip_prefix cols al r vals)

theorem envOfRow_subset (cols al : List Bytes) (r vals : List Val) :
    ∀ e ∈ envOfRow [] cols r, e ∈ envOfRow [] (cols ++ al) (r ++ vals) := by
  intro e he
  unfold envOfRow at *
  obtain ⟨rest, hr⟩ := zip_prefix cols al r vals
  rw [← hr, List.map_append]
  exact List.mem_append_left _ he

end Pql.SelSem
