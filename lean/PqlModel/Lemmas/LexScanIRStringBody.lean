/-
One pass through the loop of `(*scanner).string` as translated, case by case (end of input, closing
quote, newline, the escapes, any other rune), for both states of `valueBuilder`.
-/
import PqlModel.Lemmas.LexScanIRString
namespace Pql.ScanIR
open Pql
open Pql.LexIR (IErr M BinOp goPanic stuck irOf)
set_option linter.unusedSimpArgs false
set_option linter.unusedVariables false

/-- `valueBuilder` after `if valueBuilder == nil { valueBuilder = new(strings.Builder); valueBuilder.WriteString(…) }` -/
def VB.force (s : Bytes) (k : Nat) (bs0 : List (Nat × Bytes)) : VB → VB
  | .none => .some bs0.length ((s.drop 1).take (k - 1))
  | .some a acc => .some a acc

theorem VB.force_acc (s : Bytes) (k : Nat) (bs0 : List (Nat × Bytes)) (vb : VB) :
    (vb.force s k bs0).acc s k = vb.acc s k := by cases vb <;> rfl

/-- `valueBuilder` after the bytes `x` have been written (if it is not nil) -/
def VB.write (x : Bytes) : VB → VB
  | .none => .none
  | .some a acc => .some a (acc ++ x)

/-- the state of the loop: quote `q`, token start at `pre.length`, cursor `k` bytes into `s` -/
def sSt (pre s : Bytes) (q : UInt8) (bs0 : List (Nat × Bytes)) (vb : VB) (k l : Nat) : State :=
  strSt q.toNat pre.length vb.val (hp pre s k l (vb.blds bs0))

/-- the state a pass through the body ends in: `c`, `ok` of the body on top -/
def sOut (pre s : Bytes) (q : UInt8) (bs0 : List (Nat × Bytes)) (vb : VB) (k l : Nat) (c : Nat) (ok : Bool) : State :=
  ⟨("ok", .bool ok) :: ("c", .int c) :: (sSt pre s q bs0 vb k l).vars, hp pre s k l (vb.blds bs0)⟩

theorem leave_sOut (pre s : Bytes) (q : UInt8) (bs0 : List (Nat × Bytes)) (vb vb' : VB) (k l k' l' c : Nat) (ok : Bool) :
    (sOut pre s q bs0 vb k l c ok).leave (sSt pre s q bs0 vb' k' l') = sSt pre s q bs0 vb k l := by
  simp [State.leave, sOut, sSt, strSt]

theorem mk_hp (pre s : Bytes) (k l : Nat) (bs : List (Nat × Bytes)) :
    (Store.mk (pre ++ s) (pre.length + k) l bs) = hp pre s k l bs := rfl

section
variable (env : Env) (fuel : Nat) (E : StrEnv env) (pre s : Bytes) (q : UInt8) (bs0 : List (Nat × Bytes))
include E

/-- at the end of the input -/
theorem str_body_end (vb : VB) (k l : Nat) (hlen : s.length ≤ k) :
    execBlock env fuel strLoopBody (sSt pre s q bs0 vb k l) =
      .ok (.ret [.tok .error pre.length (pre.length + k) []], sOut pre s q bs0 vb k l 0 false) := by
  obtain ⟨fN, hN, sN⟩ := E.cur.next
  obtain ⟨fA, hA, sA0⟩ := E.cur.newSpan
  obtain ⟨fE, hE, sE0⟩ := E.cur.errorToken
  have sA : ∀ a b h, fA [.int a, .int b] h = .ok ([.span a b], h) := sA0
  have sE : ∀ a b m extra h, fE (.span a b :: .str m :: extra) h = .ok ([.tok .error a b []], h) := sE0
  unfold strLoopBody sOut sSt strSt unterminated
  ls_simp [hN, next_end sN pre s k l _ hlen, hA, sA, hE, sE]

/-- at the closing quote -/
theorem str_body_close (vb : VB) (k l : Nat) (rest : Bytes) (hk : 1 ≤ k) (hd : s.drop k = q :: rest) (hq : q.toNat < 128) :
    execBlock env fuel strLoopBody (sSt pre s q bs0 vb k l) =
      .ok (.ret [.tok .string pre.length (pre.length + (k + 1)) (vb.acc s k)],
        sOut pre s q bs0 vb (k + 1) (pre.length + k) q.toNat true) := by
  obtain ⟨fN, hN, sN⟩ := E.cur.next
  obtain ⟨fA, hA, sA0⟩ := E.cur.newSpan
  have sA : ∀ a b h, fA [.int a, .int b] h = .ok ([.span a b], h) := sA0
  have hS := E.str
  unfold HasPrim at hS
  have nx := fun bs => next_cons' sN pre s k l bs q rest q.toNat 1 hd (Dispatch.decodeRune_ascii' q rest hq)
  have hlt := LexIR.lt_of_drop_cons hd
  have g2 : k ≤ s.length := by omega
  have hsl := slice_vs pre s k
  have g3 : pre.length + k - (pre.length + 1) = k - 1 := by omega
  unfold strLoopBody sOut sSt strSt strClose srcSlice eVB
  cases vb with
  | none => ls_simp [VB.val, VB.blds, VB.acc, hN, nx, hA, sA, kind_string, hk, g2, g3]
  | some a acc => ls_simp [VB.val, VB.blds, VB.acc, hN, nx, hA, sA, kind_string, hS, prims, bldGet]

/-- at a newline -/
theorem str_body_nl (vb : VB) (k l : Nat) (rest : Bytes) (hd : s.drop k = 10 :: rest) (hq : q ≠ 10) (hq' : q.toNat < 128) :
    execBlock env fuel strLoopBody (sSt pre s q bs0 vb k l) =
      .ok (.ret [.tok .error pre.length (pre.length + k) []], sOut pre s q bs0 vb k (pre.length + k) 10 true) := by
  obtain ⟨fN, hN, sN⟩ := E.cur.next
  obtain ⟨fP, hP, sP⟩ := E.cur.prev
  obtain ⟨fA, hA, sA0⟩ := E.cur.newSpan
  obtain ⟨fE, hE, sE0⟩ := E.cur.errorToken
  have sA : ∀ a b h, fA [.int a, .int b] h = .ok ([.span a b], h) := sA0
  have sE : ∀ a b m extra h, fE (.span a b :: .str m :: extra) h = .ok ([.tok .error a b []], h) := sE0
  have nx := fun bs => next_cons' sN pre s k l bs 10 rest 10 1 hd (Dispatch.decodeRune_ascii' 10 rest (by decide))
  have hne : ¬ (10 : Nat) = q.toNat := fun e => hq (UInt8.toNat_inj.mp (by rw [← e]; rfl))
  unfold strLoopBody sOut sSt strSt unterminated
  ls_simp [hN, hP, nx, hne, prev_hp sP pre s k, hA, sA, hE, sE]

/-- at any other rune: its bytes are copied (if there is a builder) -/
theorem str_body_other (vb : VB) (k l : Nat) (c : UInt8) (rest : Bytes) (r w : Nat) (hd : s.drop k = c :: rest)
    (hr : decodeRune (c :: rest) = (r, w)) (h1 : ¬ r = q.toNat) (h2 : ¬ r = 10) (h3 : ¬ r = 92) (hkw : k + w ≤ s.length) :
    execBlock env fuel strLoopBody (sSt pre s q bs0 vb k l) =
      .ok (.next, sOut pre s q bs0 (vb.write ((s.drop k).take w)) (k + w) (pre.length + k) r true) := by
  obtain ⟨fN, hN, sN⟩ := E.cur.next
  have hW := E.write
  unfold HasPrim at hW
  have nx := fun bs => next_cons' sN pre s k l bs c rest r w hd hr
  have hsl := slice_rune pre s k w
  have g1 : pre.length + k ≤ pre.length + (k + w) := by omega
  have g4 : pre.length + (k + w) - (pre.length + k) = w := by omega
  unfold strLoopBody sOut sSt strSt vbWrite srcSlice eVB
  cases vb with
  | none => ls_simp [VB.val, VB.blds, VB.write, hN, nx, h1, h2, h3]
  | some a acc => ls_simp [VB.val, VB.blds, VB.write, hN, nx, h1, h2, h3, hW, prims, bldWrite, bldGet, bldSet, g1, hkw, g4] <;> rfl

/-- at a backslash that ends the input -/
theorem str_body_esc_end (vb : VB) (k l : Nat) (hk : 1 ≤ k) (hd : s.drop k = [92]) (hq : q ≠ 92) :
    execBlock env fuel strLoopBody (sSt pre s q bs0 vb k l) =
      .ok (.ret [.tok .error pre.length (pre.length + (k + 1)) []],
        sOut pre s q bs0 (vb.force s k bs0) (k + 1) (pre.length + k) 92 true) := by
  obtain ⟨fN, hN, sN⟩ := E.cur.next
  obtain ⟨fA, hA, sA0⟩ := E.cur.newSpan
  obtain ⟨fE, hE, sE0⟩ := E.cur.errorToken
  have sA : ∀ a b h, fA [.int a, .int b] h = .ok ([.span a b], h) := sA0
  have sE : ∀ a b m extra h, fE (.span a b :: .str m :: extra) h = .ok ([.tok .error a b []], h) := sE0
  have hW := E.write
  unfold HasPrim at hW
  have nx := fun bs => next_cons' sN pre s k l bs 92 [] 92 1 hd (Dispatch.decodeRune_ascii' 92 [] (by decide))
  have hlen : s.length ≤ k + 1 := List.drop_eq_nil_iff.mp (LexIR.drop_succ_of_cons hd)
  have ne := fun bs => next_end sN pre s (k + 1) (pre.length + k) bs hlen
  have hne : ¬ (92 : Nat) = q.toNat := fun e => hq (UInt8.toNat_inj.mp (by rw [← e]; rfl))
  have hlt := LexIR.lt_of_drop_cons hd
  have g2 : k ≤ s.length := by omega
  have g3 : pre.length + k - (pre.length + 1) = k - 1 := by omega
  unfold strLoopBody sOut sSt strSt strEscape unterminated vbWrite srcSlice eVB
  cases vb with
  | none =>
    ls_simp [VB.val, VB.blds, VB.force, hN, nx, ne, hne, hA, sA, hE, sE, hW, prims, bldWrite, bldGet, bldSet, hk, g2, g3, mk_hp] <;> rfl
  | some a acc =>
    ls_simp [VB.val, VB.blds, VB.force, hN, nx, ne, hne, hA, sA, hE, sE]

/-- at a backslash before a newline -/
theorem str_body_esc_nl (vb : VB) (k l : Nat) (rest : Bytes) (hk : 1 ≤ k) (hd : s.drop k = 92 :: 10 :: rest) (hq : q ≠ 92) :
    execBlock env fuel strLoopBody (sSt pre s q bs0 vb k l) =
      .ok (.ret [.tok .error pre.length (pre.length + (k + 1)) []],
        sOut pre s q bs0 (vb.force s k bs0) (k + 1) (pre.length + (k + 1)) 92 true) := by
  obtain ⟨fN, hN, sN⟩ := E.cur.next
  obtain ⟨fP, hP, sP⟩ := E.cur.prev
  obtain ⟨fA, hA, sA0⟩ := E.cur.newSpan
  obtain ⟨fE, hE, sE0⟩ := E.cur.errorToken
  have sA : ∀ a b h, fA [.int a, .int b] h = .ok ([.span a b], h) := sA0
  have sE : ∀ a b m extra h, fE (.span a b :: .str m :: extra) h = .ok ([.tok .error a b []], h) := sE0
  have hW := E.write
  unfold HasPrim at hW
  have nx := fun bs => next_cons' sN pre s k l bs 92 (10 :: rest) 92 1 hd (Dispatch.decodeRune_ascii' 92 _ (by decide))
  have nx2 := fun bs => next_cons' sN pre s (k + 1) (pre.length + k) bs 10 rest 10 1 (LexIR.drop_succ_of_cons hd)
    (Dispatch.decodeRune_ascii' 10 _ (by decide))
  have hne : ¬ (92 : Nat) = q.toNat := fun e => hq (UInt8.toNat_inj.mp (by rw [← e]; rfl))
  have hlt := LexIR.lt_of_drop_cons hd
  have g2 : k ≤ s.length := by omega
  have g3 : pre.length + k - (pre.length + 1) = k - 1 := by omega
  have pv := fun bs => prev_hp sP pre s (k + 1) (k + 1 + 1) bs
  unfold strLoopBody sOut sSt strSt strEscape unterminated vbWrite srcSlice eVB
  cases vb with
  | none =>
    ls_simp [VB.val, VB.blds, VB.force, hN, hP, nx, nx2, pv, hne, hA, sA, hE, sE, hW, prims, bldWrite, bldGet, bldSet, hk, g2, g3, mk_hp] <;> rfl
  | some a acc =>
    ls_simp [VB.val, VB.blds, VB.force, hN, hP, nx, nx2, pv, hne, hA, sA, hE, sE]

/-- at `\n` / `\t`: the rune `v` is written -/
theorem str_body_esc_rune (vb : VB) (k l : Nat) (e : UInt8) (v : Nat) (rest : Bytes) (hk : 1 ≤ k)
    (hd : s.drop k = 92 :: e :: rest) (hq : q ≠ 92) (he : (e = 110 ∧ v = 10) ∨ (e = 116 ∧ v = 9)) :
    execBlock env fuel strLoopBody (sSt pre s q bs0 vb k l) =
      .ok (.next, sOut pre s q bs0 ((vb.force s k bs0).write [UInt8.ofNat v]) (k + 1 + 1) (pre.length + (k + 1)) 92 true) := by
  obtain ⟨fN, hN, sN⟩ := E.cur.next
  have hW := E.write
  have hR := E.rune
  unfold HasPrim at hW hR
  have nx := fun bs => next_cons' sN pre s k l bs 92 (e :: rest) 92 1 hd (Dispatch.decodeRune_ascii' 92 _ (by decide))
  have het : e.toNat < 128 := by rcases he with ⟨rfl, _⟩ | ⟨rfl, _⟩ <;> decide
  have nx2 := fun bs => next_cons' sN pre s (k + 1) (pre.length + k) bs e rest e.toNat 1 (LexIR.drop_succ_of_cons hd)
    (Dispatch.decodeRune_ascii' e _ het)
  have hne : ¬ (92 : Nat) = q.toNat := fun e => hq (UInt8.toNat_inj.mp (by rw [← e]; rfl))
  have hlt := LexIR.lt_of_drop_cons hd
  have g2 : k ≤ s.length := by omega
  have g3 : pre.length + k - (pre.length + 1) = k - 1 := by omega
  unfold strLoopBody sOut sSt strSt strEscape unterminated vbWrite vbRune srcSlice eVB
  rcases he with ⟨rfl, rfl⟩ | ⟨rfl, rfl⟩
  all_goals (
    cases vb with
    | none =>
      ls_simp [VB.val, VB.blds, VB.force, VB.write, hN, nx, nx2, hne, hW, hR, prims, bldWrite, bldGet, bldSet, hk, g2, g3, mk_hp] <;> rfl
    | some a acc =>
      ls_simp [VB.val, VB.blds, VB.force, VB.write, hN, nx, nx2, hne, hW, hR, prims, bldWrite, bldGet, bldSet, mk_hp] <;> rfl)

/-- at a backslash before any other rune: the bytes of that rune are written -/
theorem str_body_esc_other (vb : VB) (k l : Nat) (e : UInt8) (rest : Bytes) (re we : Nat) (hk : 1 ≤ k)
    (hd : s.drop k = 92 :: e :: rest) (hq : q ≠ 92) (hr : decodeRune (e :: rest) = (re, we))
    (h1 : ¬ re = 10) (h2 : ¬ re = 110) (h3 : ¬ re = 116) (hkw : k + 1 + we ≤ s.length) :
    execBlock env fuel strLoopBody (sSt pre s q bs0 vb k l) =
      .ok (.next, sOut pre s q bs0 ((vb.force s k bs0).write ((s.drop (k + 1)).take we)) (k + 1 + we)
        (pre.length + (k + 1)) 92 true) := by
  obtain ⟨fN, hN, sN⟩ := E.cur.next
  have hW := E.write
  unfold HasPrim at hW
  have nx := fun bs => next_cons' sN pre s k l bs 92 (e :: rest) 92 1 hd (Dispatch.decodeRune_ascii' 92 _ (by decide))
  have nx2 := fun bs => next_cons' sN pre s (k + 1) (pre.length + k) bs e rest re we (LexIR.drop_succ_of_cons hd) hr
  have hne : ¬ (92 : Nat) = q.toNat := fun e => hq (UInt8.toNat_inj.mp (by rw [← e]; rfl))
  have hlt := LexIR.lt_of_drop_cons hd
  have g2 : k ≤ s.length := by omega
  have g3 : pre.length + k - (pre.length + 1) = k - 1 := by omega
  have g4 : pre.length + (k + 1 + we) - (pre.length + (k + 1)) = we := by omega
  have g5 : pre.length + (k + 1) ≤ pre.length + (k + 1 + we) := by omega
  unfold strLoopBody sOut sSt strSt strEscape unterminated vbWrite vbRune srcSlice eVB
  cases vb with
  | none =>
    ls_simp [VB.val, VB.blds, VB.force, VB.write, hN, nx, nx2, hne, h1, h2, h3, hW, prims, bldWrite, bldGet, bldSet, hk, g2, g3,
      g4, g5, hkw, mk_hp] <;> rfl
  | some a acc =>
    ls_simp [VB.val, VB.blds, VB.force, VB.write, hN, nx, nx2, hne, h1, h2, h3, hW, prims, bldWrite, bldGet, bldSet, g4, g5, hkw, mk_hp] <;> rfl

end
end Pql.ScanIR
