/-
Placeholders, part 4: the statement level of the commutation — `parseStatement` read on the instantiated
token list is `instStatement ρ` of what it reads on the token list with placeholders:

    parseStatement (ts.map (instTok ρ)) = (parseStatement ts).map (instStatement ρ).

Clause by clause along `pSelect'` (Lemmas/ParseStmtSelect.lean).
NEW specification-level definitions: `instSel`, `instStatement`.
-/
import PqlModel.Lemmas.E2EMoreInstAtom
import PqlModel.Lemmas.ParseStmtSelect
namespace Pql.E2EMore
set_option linter.unusedSimpArgs false
open Pql Sql Pql.C05

def instItem (ρ : Bytes → PVal) (it : SelectItem) : SelectItem := { it with expr := instS ρ it.expr }
def instOrd (ρ : Bytes → PVal) (o : OrderTerm) : OrderTerm := { o with expr := instS ρ o.expr }
def instJoin (ρ : Bytes → PVal) (j : JoinClause) : JoinClause := { j with on := instS ρ j.on }

/-- every placeholder of a SELECT gets its value -/
def instSel (ρ : Bytes → PVal) (s : Select) : Select :=
  { s with
    items := s.items.map (instItem ρ)
    join := s.join.map (instJoin ρ)
    where_ := s.where_.map (instS ρ)
    groupBy := s.groupBy.map (instS ρ)
    orderBy := s.orderBy.map (instOrd ρ)
    limit := s.limit.map (instS ρ) }

/-- every placeholder of a statement gets its value -/
def instStatement (ρ : Bytes → PVal) (st : Statement) : Statement :=
  ⟨st.ctes.map fun c => (c.1, instSel ρ c.2), instSel ρ st.body⟩

variable (ρ : Bytes → PVal)

/-- the rest of a result, instantiated -/
def restI {α : Type} (r : α × List STok) : α × List STok := (r.1, r.2.map (instTok ρ))

theorem instTok_not_qid {t : STok} (h : ∀ n, t ≠ .qid n) : ∀ n, instTok ρ t ≠ .qid n := by
  intro n
  cases t with
  | qid m => exact absurd rfl (h m)
  | param p => rw [instTok_param]; cases ρ p <;> simp [PVal.tok]
  | _ => simp [instTok]

theorem fuelOf_map (ts : List STok) : fuelOf (ts.map (instTok ρ)) = fuelOf ts := by simp [fuelOf]

theorem pAlias_nq (a t : STok) (rest : List STok) (h : ∀ n, t ≠ .qid n) :
    pAlias (a :: t :: rest) = (none, a :: t :: rest) := by
  cases t with
  | qid m => exact absurd rfl (h m)
  | _ => rfl

theorem pAlias_c (ts : List STok) : pAlias (ts.map (instTok ρ)) = restI ρ (pAlias ts) := by
  rcases ts with _ | ⟨a, _ | ⟨q, rest⟩⟩
  · rfl
  · rfl
  · by_cases hq : ∃ n, q = .qid n
    · obtain ⟨n, rfl⟩ := hq
      simp only [List.map_cons, instTok_qid, pAlias, isWord_inst]
      split <;> simp [restI, instTok_qid]
    · have hq' : ∀ n, q ≠ .qid n := fun n e => hq ⟨n, e⟩
      rw [List.map_cons, List.map_cons, pAlias_nq _ _ _ (instTok_not_qid ρ hq'), pAlias_nq _ _ _ hq']
      rfl

/-- `(SELECT DISTINCT * FROM "n") [AS "a"]` after the `(` -/
def distinctRef (lp : STok) (rest : List STok) : PR TableRef :=
  match rest with
  | s :: d :: st :: f :: .qid n :: rp :: rest =>
    if isSym lp "(" && isWord s "SELECT" && isWord d "DISTINCT" && isSym st "*" && isWord f "FROM" && isSym rp ")" then
      let a := pAlias rest; some (.distinctOf n a.1, a.2)
    else none
  | _ => none

theorem pTableRef_nq (t : STok) (rest : List STok) (h : ∀ n, t ≠ .qid n) :
    pTableRef (t :: rest) = distinctRef t rest := by
  cases t with
  | qid m => exact absurd rfl (h m)
  | _ =>
    rcases rest with _ | ⟨s, _ | ⟨d, _ | ⟨st, _ | ⟨f, _ | ⟨q, _ | ⟨rp, rest⟩⟩⟩⟩⟩⟩ <;> try rfl
    all_goals (cases q <;> rfl)

theorem distinctRef_nq (lp s d st f q : STok) (rest : List STok) (h : ∀ n, q ≠ .qid n) :
    distinctRef lp (s :: d :: st :: f :: q :: rest) = none := by
  cases q with
  | qid m => exact absurd rfl (h m)
  | _ => cases rest <;> rfl

theorem distinctRef_c (lp : STok) (rest : List STok) :
    distinctRef (instTok ρ lp) (rest.map (instTok ρ)) = (distinctRef lp rest).map (restI ρ) := by
  rcases rest with _ | ⟨s, _ | ⟨d, _ | ⟨st, _ | ⟨f, _ | ⟨q, rest⟩⟩⟩⟩⟩
  · rfl
  · rfl
  · rfl
  · rfl
  · rfl
  · by_cases hq : ∃ n, q = .qid n
    · obtain ⟨n, rfl⟩ := hq
      rcases rest with _ | ⟨rp, rest⟩
      · rfl
      · simp only [List.map_cons, instTok_qid, distinctRef, isWord_inst, isSym_inst, pAlias_c]
        split <;> simp [restI]
    · have hq' : ∀ n, q ≠ .qid n := fun n e => hq ⟨n, e⟩
      simp only [List.map_cons]
      rw [distinctRef_nq _ _ _ _ _ _ _ (instTok_not_qid ρ hq'), distinctRef_nq _ _ _ _ _ _ _ hq']
      rfl

theorem pTableRef_c (ts : List STok) : pTableRef (ts.map (instTok ρ)) = (pTableRef ts).map (restI ρ) := by
  cases ts with
  | nil => rfl
  | cons t rest =>
    by_cases hq : ∃ n, t = .qid n
    · obtain ⟨n, rfl⟩ := hq
      simp [pTableRef, instTok_qid, pAlias_c, restI]
    · have hq' : ∀ n, t ≠ .qid n := fun n e => hq ⟨n, e⟩
      rw [List.map_cons, pTableRef_nq _ _ (instTok_not_qid ρ hq'), pTableRef_nq _ _ hq']
      exact distinctRef_c ρ t rest

theorem pItem_c (ts : List STok) :
    pItem (ts.map (instTok ρ)) = (pItem ts).map (fun r => (instItem ρ r.1, r.2.map (instTok ρ))) := by
  cases ts with
  | nil => rfl
  | cons st rest =>
    simp only [List.map_cons, pItem, isSym_inst]
    split
    · simp [instItem, instS]
    · rw [← List.map_cons, fuelOf_map, pExprS_inst]
      cases pExprS (fuelOf (st :: rest)) 0 (st :: rest) with
      | none => rfl
      | some er => simp [instR, pAlias_c, restI, instItem]

theorem pItems_c : ∀ (fuel : Nat) (ts : List STok),
    pItems fuel (ts.map (instTok ρ)) =
      (pItems fuel ts).map (fun r => (r.1.map (instItem ρ), r.2.map (instTok ρ)))
  | 0, _ => by simp [pItems]
  | fuel + 1, ts => by
    rw [pItems_succ, pItems_succ, pItem_c]
    cases pItem ts with
    | none => rfl
    | some ir =>
      obtain ⟨it, r⟩ := ir
      cases r with
      | nil => simp
      | cons cm r2 =>
        simp only [Option.map_some, List.map_cons, isSym_inst]
        split
        · rw [pItems_c fuel r2]; cases pItems fuel r2 <;> simp
        · simp

theorem pExprsComma_c : ∀ (fuel : Nat) (ts : List STok),
    pExprsComma fuel (ts.map (instTok ρ)) =
      (pExprsComma fuel ts).map (fun r => (r.1.map (instS ρ), r.2.map (instTok ρ)))
  | 0, _ => by simp [pExprsComma]
  | fuel + 1, ts => by
    simp only [pExprsComma, fuelOf_map, pExprS_inst]
    cases pExprS (fuelOf ts) 0 ts with
    | none => rfl
    | some er =>
      obtain ⟨e, r⟩ := er
      cases r with
      | nil => simp [instR]
      | cons cm r2 =>
        simp only [Option.map_some, instR, List.map_cons, isSym_inst]
        split
        · rw [pExprsComma_c fuel r2]; cases pExprsComma fuel r2 <;> simp
        · simp

theorem pOrderTerms_c : ∀ (fuel : Nat) (ts : List STok),
    pOrderTerms fuel (ts.map (instTok ρ)) =
      (pOrderTerms fuel ts).map (fun r => (r.1.map (instOrd ρ), r.2.map (instTok ρ)))
  | 0, _ => by simp [pOrderTerms]
  | fuel + 1, ts => by
    simp only [pOrderTerms, fuelOf_map, pExprS_inst]
    cases pExprS (fuelOf ts) 0 ts with
    | none => rfl
    | some er =>
      obtain ⟨e, r⟩ := er
      rcases r with _ | ⟨d, _ | ⟨n, _ | ⟨fl, r2⟩⟩⟩
      · rfl
      · rfl
      · rfl
      · simp only [Option.map_some, instR, List.map_cons, isWord_inst]
        split
        · cases r2 with
          | nil => simp [instOrd]
          | cons cm r3 =>
            simp only [List.map_cons, isSym_inst]
            split
            · rw [pOrderTerms_c fuel r3]; cases pOrderTerms fuel r3 <;> simp [instOrd]
            · simp [instOrd]
        · rfl

end Pql.E2EMore
