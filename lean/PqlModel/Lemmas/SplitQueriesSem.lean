/-
Join-free pipelines, semantically (over the specification interpreter `Rel`): reading every
subquery as  source → op → sort → take  and feeding each subquery the table of the previous one
computes what `Rel.interpOps` computes for the operator list.
-/
import PqlModel.Lemmas.SplitQueriesClauses
import PqlModel.Spec.Rel
namespace Pql.SplitQ
open Pql Sql

/-- the specification's meaning of one clause -/
def interpClause (src : Bytes) (db : DB) (t : Table) : Clause → Table
  | .op o => Rel.interpOp src db t o
  | .sort terms => Rel.sortTable t terms
  | .take n => Rel.takeTable t n

/-- the table one subquery computes from the table of its source, evaluating its clauses in
    the order `Subquery.write` prints them (body, ORDER BY, LIMIT) -/
def subEval (src : Bytes) (db : DB) (t : Table) (s : Subquery) : Table :=
  (subClauses s).foldl (interpClause src db) t

theorem interpOp_eq_clauses (src : Bytes) (db : DB) (t : Table) (o : Op) (h : isJoin o = false) :
    Rel.interpOp src db t o = (opClauses o).foldl (interpClause src db) t := by
  cases o with
  | top p k n b col => cases col <;> simp [Rel.interpOp, opClauses, interpClause]
  | join => simp [isJoin] at h
  | _ => simp [Rel.interpOp, opClauses, interpClause]

theorem interpOps_eq_clauses (src : Bytes) (db : DB) : ∀ (ops : OpList) (t : Table), joinFree ops = true →
    Rel.interpOps src db t ops = (ops.toList.flatMap opClauses).foldl (interpClause src db) t
  | .nil, t, _ => by simp [Rel.interpOps, OpList.toList]
  | .cons o rest, t, h => by
    rw [joinFree_cons] at h
    simp only [Bool.and_eq_true, Bool.not_eq_true'] at h
    rw [Rel.interpOps, interpOps_eq_clauses src db rest _ h.2, interpOp_eq_clauses src db t o h.1]
    simp [OpList.toList]

theorem foldl_subEval (src : Bytes) (db : DB) (dst : List Subquery) (t : Table) :
    dst.foldl (subEval src db) t = (dst.flatMap subClauses).foldl (interpClause src db) t := by
  induction dst generalizing t with
  | nil => rfl
  | cons s dst ih => simp [List.flatMap_cons, List.foldl_append, ih, subEval]

end Pql.SplitQ
